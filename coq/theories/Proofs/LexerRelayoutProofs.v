(* Proofs/LexerRelayoutProofs.v - the lexer half of property C02: re-scanning text that was
   re-spaced yields the same tokens.

   (A) lex_token_stable: a token is determined by its own bytes once a separator follows; the
       separator each token needs ([sep_req]) is a computable function of the token.
   (B) lex_relayout: replacing the blank strings between the tokens of a file by other blank strings
       (subject to [gap_ok]) yields the same token types (modulo Individual<->Inline comment kinds,
       an explicit function of the new blanks) with the new lengths.
   (C) lex_relayout_subst: contents may be replaced by contents that lex the same ([lexes_as]);
       lower-casing words, editing line-comment bodies, upper-casing directive names preserve it.
   (D) lex_token_closed_on_right: terminated block comments and complete directives need no separator
       at all; the other rows of glue_safe (Model/Spacing.v) are TESTED on 72 x 72 contents. *)
From PasfmtVerif Require Import Model.Lexer Model.Spacing Proofs.LexerProofs Proofs.LexerSpecProofs.
From Coq Require Import Arith.

(* byte is N and bytes is list N, but rewriting is syntactic on implicit type arguments: these variants
   normalise the two spellings first *)
Ltac bnorm := unfold bytes, byte in *.
Ltac brw H := let X := fresh "X" in pose proof H as X; unfold bytes, byte in X; rewrite X; clear X.
Ltac brw_in H H' := let X := fresh "X" in pose proof H as X; unfold bytes, byte in X; rewrite X in H'; clear X.

(* ================================================================== *)
(* I. Separators                                                       *)

(* empty, or starting with a blank: a byte <= 0x20 or U+3000 *)
Definition sep_start (r : bytes) : Prop :=
  match r with [] => True | x :: _ => (x <=? 32) = true \/ is_u3000_at r = true end.

(* empty, or starting with an ASCII blank *)
Definition ascii_sep (r : bytes) : Prop :=
  match r with [] => True | x :: _ => (x <=? 32) = true end.

(* empty, or starting with CR or LF *)
Definition eol_sep (r : bytes) : Prop :=
  match r with [] => True | x :: _ => is_eol x = true end.

Lemma eol_sep_ascii r : eol_sep r -> ascii_sep r.
Proof.
  destruct r as [|x r]; [exact (fun H => H)|]. unfold eol_sep, ascii_sep, is_eol. intros H.
  b2p H; subst x; reflexivity.
Qed.

Lemma ascii_sep_start r : ascii_sep r -> sep_start r.
Proof. destruct r as [|x r]; [exact (fun H => H)|]. intros H. left. exact H. Qed.

Lemma is_u3000_at_hd (x : byte) (r : bytes) : is_u3000_at (x :: r) = true -> x = 227.
Proof.
  unfold is_u3000_at. cbn [is_prefix]. intros H. apply andb_true_iff in H. destruct H as [H _].
  apply N.eqb_eq in H. symmetry. exact H.
Qed.

Lemma sep_start_hd (x : byte) (r : bytes) : sep_start (x :: r) -> x <= 32 \/ x = 227.
Proof. intros [H|H]; [left; apply N.leb_le; exact H|right; exact (is_u3000_at_hd _ _ H)]. Qed.

(* a class of printable bytes other than 0xE3: no separator starts with one *)
Definition printable_class (p : byte -> bool) : Prop :=
  forall c, p c = true -> 32 < c /\ c <> 227.

Lemma sep_start_not_class (p : byte -> bool) (r : bytes) :
  printable_class p -> sep_start r -> match r with [] => True | x :: _ => p x = false end.
Proof.
  intros Hp Hs. destruct r as [|x r]; [exact I|].
  destruct (p x) eqn:E; [|reflexivity]. apply Hp in E. apply sep_start_hd in Hs. blia.
Qed.

Ltac class_tac := intros c H; unfold is_dec, is_hex, is_bin, is_asm_ident, is_ident_ascii, is_alnum,
  is_alpha, is_upper, is_lower, is_digit in H; b2p H; blia.

Lemma is_dec_printable : printable_class is_dec. Proof. class_tac. Qed.
Lemma is_hex_printable : printable_class is_hex. Proof. class_tac. Qed.
Lemma is_bin_printable : printable_class is_bin. Proof. class_tac. Qed.
Lemma is_ident_ascii_printable : printable_class is_ident_ascii. Proof. class_tac. Qed.
Lemma is_asm_ident_printable : printable_class is_asm_ident. Proof. class_tac. Qed.

(* ================================================================== *)
(* II. The scanners are determined by the bytes they consume           *)

(* ---- count_while ---- *)

Lemma firstn_firstn_app {A} n (t r : list A) : (n <= length t)%nat ->
  firstn n (firstn n t ++ r) = firstn n t.
Proof.
  intros H. rewrite <- (firstn_length_le t H) at 1. apply firstn_app_exact.
Qed.

Lemma skipn_firstn_app {A} n (t r : list A) : (n <= length t)%nat ->
  skipn n (firstn n t ++ r) = r.
Proof.
  intros H. rewrite <- (firstn_length_le t H) at 1. apply skipn_app_exact.
Qed.

Lemma count_while_sep (p : byte -> bool) (t r : bytes) :
  match r with [] => True | x :: _ => p x = false end ->
  count_while p (firstn (count_while p t) t ++ r) = count_while p t.
Proof.
  intros Hr. etransitivity; [apply count_while_app_stop; [apply count_while_firstn|exact Hr]|].
  apply firstn_length_le, count_while_le.
Qed.

(* the run stops strictly inside q: what follows q is irrelevant *)
Lemma count_while_lt (p : byte -> bool) (q x y : bytes) :
  (count_while p (q ++ x) < length q)%nat -> count_while p (q ++ y) = count_while p (q ++ x).
Proof.
  induction q as [|b q IH]; cbn [app count_while length]; [intros H; blia|].
  destruct (p b); [|reflexivity]. intros H. f_equal. apply IH. blia.
Qed.

(* ---- identifiers ---- *)

Lemma is_u3000_at_sep (b : byte) (t r : bytes) n :
  (n <= length t)%nat -> sep_start r -> is_u3000_at (b :: t) = false ->
  is_u3000_at (b :: firstn n t ++ r) = false.
Proof.
  intros Hn Hr Hu.
  destruct (b =? 227) eqn:Eb; [|rewrite is_u3000_at_ne; [reflexivity|apply N.eqb_neq; exact Eb]].
  apply N.eqb_eq in Eb. subst b.
  assert (Hr0 : forall z, r = 128 :: z -> False).
  { intros z ->. apply sep_start_hd in Hr. blia. }
  unfold is_u3000_at in *. cbn [is_prefix] in *. rewrite N.eqb_refl in *. cbn [andb] in *.
  destruct n as [|[|n]].
  - cbn [firstn app]. destruct r as [|x r]; [reflexivity|].
    destruct (128 =? x) eqn:E; [|reflexivity]. apply N.eqb_eq in E. subst x. exfalso. exact (Hr0 _ eq_refl).
  - destruct t as [|c t]; [simpl in Hn; blia|]. cbn [firstn app].
    destruct (128 =? c); [|reflexivity]. cbn [andb].
    destruct r as [|x r]; [reflexivity|].
    destruct (128 =? x) eqn:E; [|reflexivity]. apply N.eqb_eq in E. subst x. exfalso. exact (Hr0 _ eq_refl).
  - destruct t as [|c [|d t]]; [simpl in Hn; blia|simpl in Hn; blia|]. cbn [firstn app]. exact Hu.
Qed.

Lemma ident_byte_sep_false (r : bytes) : sep_start r -> ident_byte r = false.
Proof.
  intros Hs. destruct r as [|x r]; [reflexivity|]. unfold ident_byte.
  destruct Hs as [H|H].
  - apply N.leb_le in H.
    assert (E1 : is_ident_ascii x = false).
    { destruct (is_ident_ascii x) eqn:E; [|reflexivity]. apply is_ident_ascii_printable in E. blia. }
    rewrite E1. replace (128 <=? x) with false by (symmetry; apply N.leb_gt; blia). reflexivity.
  - rewrite H. pose proof (is_u3000_at_hd _ _ H) as ->. reflexivity.
Qed.

Lemma ident_end_generic_sep : forall (t r : bytes), sep_start r ->
  ident_end_generic (firstn (ident_end_generic t) t ++ r) = ident_end_generic t.
Proof.
  induction t as [|b t IH]; intros r Hr.
  - cbn [ident_end_generic firstn app].
    destruct r as [|x r]; [reflexivity|]. rewrite ident_end_generic_step.
    rewrite (ident_byte_sep_false _ Hr). reflexivity.
  - rewrite (ident_end_generic_step b t). destruct (ident_byte (b :: t)) eqn:E.
    + cbn [firstn app]. rewrite ident_end_generic_step.
      assert (E' : ident_byte (b :: firstn (ident_end_generic t) t ++ r) = true).
      { unfold ident_byte in *. destruct (is_ident_ascii b); [reflexivity|]. cbn [orb] in *.
        apply andb_true_iff in E. destruct E as [E1 E2]. rewrite E1. cbn [andb].
        apply negb_true_iff in E2. apply negb_true_iff.
        apply is_u3000_at_sep; [apply ident_end_generic_le|exact Hr|exact E2]. }
      unfold bytes, byte in *. rewrite E'. f_equal. apply IH. exact Hr.
    + cbn [firstn app]. destruct r as [|x r]; [reflexivity|].
      rewrite ident_end_generic_step, (ident_byte_sep_false _ Hr). reflexivity.
Qed.

(* ---- decimal numbers: via the shape specification ---- *)

Definition num_char (c : byte) : bool :=
  is_dec c || (c =? 46) || (c =? 101) || (c =? 69) || (c =? 43) || (c =? 45).

Lemma num_char_printable : printable_class num_char.
Proof. intros c H. unfold num_char, is_dec, is_digit in H. b2p H; blia. Qed.

Lemma is_dec_num_char c : is_dec c = true -> num_char c = true.
Proof. intros H. unfold num_char. rewrite H. reflexivity. Qed.

Lemma forallb_impl {A} (p q : A -> bool) l :
  (forall x, p x = true -> q x = true) -> forallb p l = true -> forallb q l = true.
Proof.
  intros Hpq. induction l as [|a l IH]; [reflexivity|]. cbn [forallb]. intros H.
  apply andb_true_iff in H. destruct H as [H1 H2]. rewrite (Hpq _ H1), (IH H2). reflexivity.
Qed.

Lemma digits1_chars (ds : bytes) : digits1 ds -> forallb num_char ds = true.
Proof. intros H. exact (forallb_impl _ _ _ is_dec_num_char (digits1_forall _ H)). Qed.

Lemma shape_chars (p : bytes) : dec_number_shape p -> forallb num_char p = true.
Proof.
  intros (ip & fp & ep & -> & Hip & Hfp & Hep). rewrite !forallb_app.
  apply andb_true_intro. split; [exact (digits1_chars _ Hip)|]. apply andb_true_intro. split.
  - destruct Hfp as [->|(ds & -> & Hds)]; [reflexivity|]. cbn [forallb].
    apply andb_true_intro. split; [reflexivity|exact (digits1_chars _ Hds)].
  - destruct Hep as [->|(e & sg & ds & -> & He & Hsg & Hds)]; [reflexivity|].
    cbn [forallb]. rewrite forallb_app.
    apply andb_true_intro. split; [destruct He as [->| ->]; reflexivity|].
    apply andb_true_intro. split; [destruct Hsg as [->|[->| ->]]; reflexivity|].
    destruct Hds as [->|Hds]; [reflexivity|exact (digits1_chars _ Hds)].
Qed.

Lemma dec_number_literal_sep (t r : bytes) : sep_start r ->
  dec_number_literal (firstn (dec_number_literal t) t ++ r) = dec_number_literal t.
Proof.
  intros Hr. set (n := dec_number_literal t). set (t' := firstn n t ++ r).
  pose proof (dec_number_literal_le t) as Hn. fold n in Hn.
  assert (H1 : (n <= dec_number_literal t')%nat).
  { pose proof (dec_number_maximal 48 t' (48 :: firstn n t) r eq_refl
                  (dec_number_has_shape 48 t eq_refl)) as H.
    cbn [length] in H. rewrite firstn_length_le in H by exact Hn. blia. }
  destruct (le_lt_dec (dec_number_literal t') n) as [H2|H2]; [blia|]. exfalso.
  pose proof (shape_chars _ (dec_number_has_shape 48 t' eq_refl)) as Hc.
  cbn [forallb] in Hc. apply andb_true_iff in Hc. destruct Hc as [_ Hc].
  unfold t' in Hc at 2. rewrite firstn_app, forallb_app in Hc.
  apply andb_true_iff in Hc. destruct Hc as [_ Hc].
  rewrite firstn_length_le in Hc by exact Hn.
  pose proof (dec_number_literal_le t') as Hle. unfold t' in Hle at 2.
  rewrite app_length, firstn_length_le in Hle by exact Hn.
  destruct r as [|x r]; [simpl in Hle; blia|].
  pose proof (sep_start_not_class _ _ num_char_printable Hr) as Hx. cbv beta iota in Hx.
  destruct (dec_number_literal t' - n)%nat as [|k] eqn:Ek; [blia|].
  cbn [firstn forallb] in Hc. rewrite Hx in Hc. discriminate Hc.
Qed.

(* ---- the single-line text literal automaton ---- *)

Lemma tl_stop_is_end s (b : byte) k : tl_step s b = TStop k -> k = tl_end s.
Proof.
  assert (HE : forall k', tl_step_E b = TStop k' -> k' = TK_SingleLine).
  { intros k'. unfold tl_step_E. destruct (b =? 35); [intros Hx; discriminate Hx|].
    destruct (b =? 39); [intros Hx; discriminate Hx|]. intros H. injection H as <-. reflexivity. }
  destruct s; cbn [tl_step tl_end];
    repeat match goal with |- context [if ?e then _ else _] => destruct e end;
    try (intros Hx; discriminate Hx); try (intros H; injection H as <-; reflexivity); apply HE.
Qed.

(* at a point where the run would end with kind tl_end s, a separator ends it the same way:
   any blank for a complete literal, CR/LF for an incomplete one *)
Lemma tl_stop_here s (r : bytes) :
  (tl_end s = TK_SingleLine -> sep_start r) -> (tl_end s = TK_Unterminated -> eol_sep r) ->
  tl_run s r = (O, tl_end s).
Proof.
  intros H1 H2. destruct r as [|x r]; [reflexivity|]. rewrite tl_run_unfold.
  assert (Hs : tl_step s x = TStop (tl_end s)); [|rewrite Hs; reflexivity].
  assert (HE : sep_start (x :: r) -> tl_step_E x = TStop TK_SingleLine).
  { intros Hs. apply sep_start_hd in Hs. unfold tl_step_E.
    replace (x =? 35) with false by (symmetry; apply N.eqb_neq; blia).
    replace (x =? 39) with false by (symmetry; apply N.eqb_neq; blia). reflexivity. }
  assert (Hd : sep_start (x :: r) -> is_dec x = false)
    by (intros Hs; exact (sep_start_not_class _ _ is_dec_printable Hs)).
  assert (Hh : sep_start (x :: r) -> is_hex x = false)
    by (intros Hs; exact (sep_start_not_class _ _ is_hex_printable Hs)).
  assert (Hb : sep_start (x :: r) -> is_bin x = false)
    by (intros Hs; exact (sep_start_not_class _ _ is_bin_printable Hs)).
  assert (He : eol_sep (x :: r) -> sep_start (x :: r))
    by (intros Hs; apply ascii_sep_start, eol_sep_ascii, Hs).
  destruct s; cbn [tl_step tl_end] in *.
  - apply HE, H1. reflexivity.
  - specialize (H2 eq_refl). rewrite (Hd (He H2)). apply He, sep_start_hd in H2.
    replace (x =? 36) with false by (symmetry; apply N.eqb_neq; blia).
    replace (x =? 37) with false by (symmetry; apply N.eqb_neq; blia). reflexivity.
  - specialize (H1 eq_refl). rewrite (Hd H1). apply HE, H1.
  - specialize (H2 eq_refl). rewrite (Hh (He H2)). reflexivity.
  - specialize (H1 eq_refl). rewrite (Hh H1). apply HE, H1.
  - specialize (H2 eq_refl). rewrite (Hb (He H2)). reflexivity.
  - specialize (H1 eq_refl). rewrite (Hb H1). apply HE, H1.
  - specialize (H2 eq_refl). cbn [eol_sep] in H2. unfold is_eol in H2. rewrite H2.
    replace (x =? 39) with false; [reflexivity|]. symmetry. apply N.eqb_neq. b2p H2; blia.
Qed.

Lemma tl_run_sep : forall (l : bytes) s (r : bytes),
  (snd (tl_run s l) = TK_SingleLine -> sep_start r) ->
  (snd (tl_run s l) = TK_Unterminated -> eol_sep r) ->
  tl_run s (firstn (fst (tl_run s l)) l ++ r) = tl_run s l.
Proof.
  induction l as [|b t IH]; intros s r H1 H2.
  - cbn [tl_run fst snd firstn app] in *. apply tl_stop_here; assumption.
  - rewrite tl_run_unfold in *. destruct (tl_step s b) as [s'|k] eqn:E; cbn [fst snd] in *.
    + cbn [firstn app]. rewrite tl_run_unfold, E. rewrite (IH s' r H1 H2). reflexivity.
    + cbn [firstn app]. pose proof (tl_stop_is_end _ _ _ E) as ->. apply tl_stop_here; assumption.
Qed.

(* the run ends strictly inside q: what follows q is irrelevant *)
Lemma tl_run_lt : forall (q x y : bytes) s,
  (fst (tl_run s (q ++ x)) < length q)%nat -> tl_run s (q ++ y) = tl_run s (q ++ x).
Proof.
  induction q as [|b q IH]; intros x y s H; [simpl in H; blia|].
  cbn [app] in *. rewrite !tl_run_unfold in *. destruct (tl_step s b) as [s'|k]; [|reflexivity].
  cbn [fst length] in H. rewrite (IH x y s') by blia. reflexivity.
Qed.

(* the run goes through leading quotes *)
Lemma tl_run_quotes : forall (l : bytes),
  (count_while (fun c : byte => (c =? 39)%N) l <= fst (tl_run TL_S l))%nat /\
  (count_while (fun c : byte => (c =? 39)%N) l <= fst (tl_run TL_E l))%nat.
Proof.
  induction l as [|b t [IH1 IH2]]; [split; simpl; blia|].
  rewrite !tl_run_unfold. cbn [count_while].
  destruct (b =? 39) eqn:E; [|split; apply Nat.le_0_l].
  apply N.eqb_eq in E. subst b.
  change (tl_step TL_S 39) with (TGo TL_E). change (tl_step TL_E 39) with (TGo TL_S).
  cbn [fst]. split; blia.
Qed.

(* state after k quotes, starting inside (S) a quoted piece *)
Lemma tl_run_repeat_quotes : forall k (z : bytes),
  tl_run TL_S (repeat 39 k ++ z) =
    (k + fst (tl_run (if Nat.even k then TL_S else TL_E) z),
     snd (tl_run (if Nat.even k then TL_S else TL_E) z))%nat /\
  tl_run TL_E (repeat 39 k ++ z) =
    (k + fst (tl_run (if Nat.even k then TL_E else TL_S) z),
     snd (tl_run (if Nat.even k then TL_E else TL_S) z))%nat.
Proof.
  induction k as [|k IH]; intros z.
  - cbn [repeat app Nat.even Nat.add]. split; apply surjective_pairing.
  - destruct (IH z) as [IH1 IH2]. cbn [repeat app]. rewrite !tl_run_unfold.
    assert (E1 : tl_step TL_S 39 = TGo TL_E) by reflexivity.
    assert (E2 : tl_step TL_E 39 = TGo TL_S) by reflexivity.
    rewrite E1, E2, IH1, IH2. cbn [fst snd]. rewrite Nat.even_succ, <- Nat.negb_even.
    destruct (Nat.even k); cbn [negb]; split; reflexivity.
Qed.

(* ---- ml_opener looks at the quotes and the byte after them only ---- *)

Lemma next_is_app_nonempty c (u v : bytes) : u <> [] -> next_is c (u ++ v) = next_is c u.
Proof. destruct u; [intros H; contradiction H; reflexivity|reflexivity]. Qed.

Lemma ml_opener_alt (t : bytes) :
  ml_opener t =
  let m := count_while (fun c : byte => (c =? 39)%N) t in
  Nat.leb 3 (S m) && Nat.odd (S m) && (next_is 13 (skipn m t) || next_is 10 (skipn m t)).
Proof. unfold ml_opener. cbv zeta. rewrite Nat.sub_succ, Nat.sub_0_r. reflexivity. Qed.

Lemma ml_opener_lt (q x y : bytes) :
  (count_while (fun c : byte => (c =? 39)%N) (q ++ x) < length q)%nat -> ml_opener (q ++ y) = ml_opener (q ++ x).
Proof.
  intros H. rewrite !ml_opener_alt. cbv zeta. rewrite (count_while_lt _ q x y H).
  set (m := count_while (fun c : byte => (c =? 39)%N) (q ++ x)) in *.
  rewrite !skipn_app. replace (m - length q)%nat with O by blia. cbn [skipn].
  assert (Hne : skipn m q <> []).
  { intros E. apply (f_equal (@length byte)) in E. rewrite skipn_length in E. simpl in E. blia. }
  rewrite !(next_is_app_nonempty _ _ _ Hne). reflexivity.
Qed.

Lemma count_while_ge_forallb (p : byte -> bool) (q x : bytes) :
  (length q <= count_while p (q ++ x))%nat -> forallb p q = true.
Proof.
  induction q as [|b q IH]; [reflexivity|]. cbn [app count_while length forallb].
  destruct (p b); [|intros H; blia]. intros H. apply IH. blia.
Qed.

Lemma count_while_repeat_stop (c : byte) k (y : bytes) :
  match y with [] => True | x :: _ => (x =? c) = false end ->
  count_while (fun z : byte => (z =? c)%N) (repeat c k ++ y) = k.
Proof.
  intros Hy. rewrite <- (repeat_length c k) at 2.
  apply count_while_app_stop; [apply forallb_repeat_eq|exact Hy].
Qed.

Lemma sep_start_not_quote (y : bytes) : sep_start y ->
  match y with [] => True | x :: _ => (x =? 39) = false end.
Proof.
  intros H. destruct y as [|x y]; [exact I|]. apply sep_start_hd in H. apply N.eqb_neq. blia.
Qed.

(* ---- substring search ---- *)

Lemma is_prefix_app_long : forall (pat q x : bytes), (length pat <= length q)%nat ->
  is_prefix pat (q ++ x) = is_prefix pat q.
Proof.
  induction pat as [|a pat IH]; intros q x H; [reflexivity|].
  destruct q as [|b q]; [simpl in H; blia|]. cbn [app is_prefix]. rewrite IH by (simpl in H; blia).
  reflexivity.
Qed.

Lemma find_sub_stable (pat : bytes) : forall (q x y : bytes) i,
  find_sub pat (q ++ x) = Some i -> (i + length pat <= length q)%nat ->
  find_sub pat (q ++ y) = Some i.
Proof.
  induction q as [|b q IH]; intros x y i H Hi.
  - simpl in Hi. assert (i = O) by blia. assert (pat = []) by (destruct pat; [reflexivity|simpl in Hi; blia]).
    subst. destruct y; reflexivity.
  - rewrite find_sub_unfold in H |- *.
    assert (Hp : forall j, (j + length pat <= length (b :: q))%nat ->
               is_prefix pat ((b :: q) ++ y) = is_prefix pat ((b :: q) ++ x)).
    { intros j Hj. rewrite !is_prefix_app_long by blia. reflexivity. }
    rewrite (Hp i Hi). clear Hp.
    destruct (is_prefix pat ((b :: q) ++ x)) eqn:E; [exact H|].
    cbn [app] in H |- *. destruct (find_sub pat (q ++ x)) as [j|] eqn:Ej; [|discriminate H].
    injection H as <-. rewrite (IH x y j Ej) by (simpl in Hi; blia). reflexivity.
Qed.

Lemma is_prefix_app_cases : forall (pat q y : bytes), is_prefix pat (q ++ y) = true ->
  is_prefix pat q = true \/ exists c, In c pat /\ In c y.
Proof.
  induction pat as [|a pat IH]; intros q y H; [left; reflexivity|].
  destruct q as [|b q].
  - cbn [app] in H. destruct y as [|c y]; [discriminate H|]. cbn [is_prefix] in H.
    apply andb_true_iff in H. destruct H as [H _]. apply N.eqb_eq in H. subst c.
    right. exists a. split; left; reflexivity.
  - cbn [app is_prefix] in *. apply andb_true_iff in H. destruct H as [H1 H2].
    destruct (IH q y H2) as [H|(c & Hc1 & Hc2)].
    + left. rewrite H1, H. reflexivity.
    + right. exists c. split; [right; exact Hc1|exact Hc2].
Qed.

(* the bytes blanks are made of *)
Definition blankish (c : byte) : bool := (c <=? 32) || (c =? 227) || (c =? 128).

Lemma find_sub_none_blank (pat : bytes) : forall (q x y : bytes),
  find_sub pat (q ++ x) = None -> pat <> [] ->
  forallb (fun c => negb (blankish c)) pat = true -> forallb blankish y = true ->
  find_sub pat (q ++ y) = None.
Proof.
  intros q x y H Hne Hpat Hy.
  assert (Hdisj : forall c, In c pat -> In c y -> False).
  { intros c H1 H2. rewrite forallb_forall in Hpat, Hy. specialize (Hpat _ H1). specialize (Hy _ H2).
    rewrite Hy in Hpat. discriminate Hpat. }
  revert H. induction q as [|b q IH]; intros H.
  - cbn [app]. clear H. induction y as [|c y IHy].
    + destruct pat; [contradiction Hne; reflexivity|reflexivity].
    + rewrite find_sub_unfold.
      destruct (is_prefix pat (c :: y)) eqn:E.
      * exfalso. destruct (is_prefix_app_cases pat [] (c :: y) E) as [H|(d & H1 & H2)].
        -- destruct pat; [contradiction Hne; reflexivity|discriminate H].
        -- exact (Hdisj _ H1 H2).
      * rewrite IHy; [reflexivity| |].
        -- cbn [forallb] in Hy. apply andb_true_iff in Hy. exact (proj2 Hy).
        -- intros d H1 H2. apply (Hdisj d H1). right. exact H2.
  - rewrite find_sub_unfold in H |- *. cbn [app] in *.
    destruct (is_prefix pat (b :: q ++ x)) eqn:E; [discriminate H|].
    destruct (find_sub pat (q ++ x)) eqn:E2; [discriminate H|].
    destruct (is_prefix pat (b :: q ++ y)) eqn:E3.
    + exfalso. destruct (is_prefix_app_cases pat (b :: q) y E3) as [H3|(d & H1 & H2)].
      * apply is_prefix_spec in H3. destruct H3 as [r Hr].
        assert (E4 : is_prefix pat (b :: q ++ x) = true).
        { apply is_prefix_spec. exists (r ++ x). rewrite app_assoc, <- Hr. reflexivity. }
        rewrite E4 in E. discriminate E.
      * exact (Hdisj _ H1 H2).
    + rewrite IH by reflexivity. reflexivity.
Qed.

(* ---- blanks ---- *)

Lemma all_ws_cons_inv (b : byte) (u : bytes) : all_ws (b :: u) = true ->
  (b <=? 32) = true \/ is_u3000_at (b :: u) = true.
Proof.
  unfold all_ws. rewrite count_ws_unfold. destruct (b <=? 32) eqn:E; [left; reflexivity|].
  intros H. right. destruct u as [|c [|d u]]; try discriminate H.
  unfold is_u3000_at. cbn [is_prefix].
  destruct ((b =? 227) && (c =? 128) && (d =? 128)) eqn:E3; [|discriminate H].
  rewrite (N.eqb_sym 227 b), (N.eqb_sym 128 c), (N.eqb_sym 128 d), andb_true_r, andb_assoc. exact E3.
Qed.

Lemma all_ws_sep_start (u : bytes) : all_ws u = true -> sep_start u.
Proof. destruct u as [|b u]; [intros _; exact I|]. apply all_ws_cons_inv. Qed.

Lemma all_ws_cons_blank (a : byte) (l : bytes) : (a <=? 32) = true -> all_ws (a :: l) = all_ws l.
Proof. intros H. unfold all_ws. rewrite count_ws_unfold, H. reflexivity. Qed.

Lemma all_ws_blankish_strong n : forall l : bytes, (length l <= n)%nat ->
  all_ws l = true -> forallb blankish l = true.
Proof.
  induction n as [|n IH]; intros l Hl H.
  - destruct l; [reflexivity|simpl in Hl; blia].
  - destruct l as [|a t]; [reflexivity|]. revert H. unfold all_ws. rewrite count_ws_unfold.
    destruct (a <=? 32) eqn:Ea.
    + intros H. cbn [forallb]. unfold blankish at 1. rewrite Ea. cbn [orb andb].
      apply IH; [simpl in Hl; blia|exact H].
    + destruct t as [|b [|c t']]; try (intros Hx; discriminate Hx).
      destruct ((a =? 227) && (b =? 128) && (c =? 128)) eqn:E3; [|intros Hx; discriminate Hx].
      intros H. b2p E3. subst. cbn [forallb]. apply IH; [simpl in Hl; blia|exact H].
Qed.

Lemma all_ws_blankish (l : bytes) : all_ws l = true -> forallb blankish l = true.
Proof. apply (all_ws_blankish_strong (length l)). blia. Qed.

(* appending a blank string does not change whether a text is blank *)
Lemma all_ws_app_blank_strong (u : bytes) : all_ws u = true ->
  forall n (q : bytes), (length q <= n)%nat -> all_ws (q ++ u) = all_ws q.
Proof.
  intros Hu.
  assert (Hu0 : forall z, u = 128 :: z -> False).
  { intros z ->. apply all_ws_sep_start, sep_start_hd in Hu. blia. }
  induction n as [|n IH]; intros q Hq.
  - destruct q; [exact Hu|simpl in Hq; blia].
  - destruct q as [|a r]; [exact Hu|].
    destruct (a <=? 32) eqn:Ea.
    + rewrite <- app_comm_cons, !all_ws_cons_blank by exact Ea. apply IH. simpl in Hq. blia.
    + unfold all_ws. rewrite <- app_comm_cons, !count_ws_unfold, Ea.
      destruct r as [|b [|c r']].
      * cbn [app]. destruct u as [|b [|c u']]; [reflexivity|reflexivity|].
        destruct (b =? 128) eqn:Eb; [apply N.eqb_eq in Eb; subst b; exfalso; exact (Hu0 _ eq_refl)|].
        rewrite andb_false_r. reflexivity.
      * cbn [app]. destruct u as [|c u']; [reflexivity|].
        destruct (c =? 128) eqn:Ec; [apply N.eqb_eq in Ec; subst c; exfalso; exact (Hu0 _ eq_refl)|].
        rewrite andb_false_r. reflexivity.
      * cbn [app]. destruct ((a =? 227) && (b =? 128) && (c =? 128)); [|reflexivity].
        cbn [length]. change (Nat.eqb (S (S (S ?x))) (S (S (S ?y)))) with (Nat.eqb x y).
        apply IH. simpl in Hq. blia.
Qed.

Lemma all_ws_app_blank (q u : bytes) : all_ws u = true -> all_ws (q ++ u) = all_ws q.
Proof. intros Hu. apply (all_ws_app_blank_strong u Hu (length q)). blia. Qed.

Lemma all_blank_all_ws (ws : bytes) : all_blank ws -> all_ws ws = true.
Proof.
  intros H. unfold all_ws. pose proof (count_ws_blank_app ws [] H eq_refl) as E.
  rewrite app_nil_r in E. rewrite E. apply Nat.eqb_refl.
Qed.

Lemma trim_spec_unique (l : bytes) n m : trim_spec l n -> trim_spec l m -> n = m.
Proof.
  intros (_ & A1 & A2) (_ & B1 & B2).
  destruct (Nat.lt_trichotomy n m) as [H|[H|H]]; [|exact H|].
  - rewrite (B2 _ H) in A1. discriminate A1.
  - rewrite (A2 _ H) in B1. discriminate B1.
Qed.

Lemma skipn_app_le {A} m (q y : list A) : (m <= length q)%nat -> skipn m (q ++ y) = skipn m q ++ y.
Proof. intros H. rewrite skipn_app. replace (m - length q)%nat with O by blia. reflexivity. Qed.

(* consume_to_eof is unchanged when the trailing blanks are replaced by other blanks *)
Lemma trimmed_len_stable (q x y : bytes) :
  trimmed_len (q ++ x) = length q -> all_ws y = true -> trimmed_len (q ++ y) = length q.
Proof.
  intros H Hy. destruct (trimmed_len_spec (q ++ x)) as (_ & S1 & S2). rewrite H in S1, S2.
  rewrite skipn_app_exact in S1.
  apply (trim_spec_unique (q ++ y)); [apply trimmed_len_spec|].
  split; [rewrite app_length; blia|]. split; [rewrite skipn_app_exact; exact Hy|].
  intros m Hm. specialize (S2 m Hm). rewrite skipn_app_le in S2 |- * by blia.
  rewrite all_ws_app_blank in S2 |- * by assumption. exact S2.
Qed.

(* ---- block comments ---- *)

Lemma block_close_not_blank k :
  block_close k <> [] /\ forallb (fun c => negb (blankish c)) (block_close k) = true.
Proof. destruct k; split; try discriminate; reflexivity. Qed.

(* A comment whose body is exactly q (after the opening delimiter): terminated - determined by q
   alone; unterminated - determined by q provided only blanks follow. *)
Lemma block_comment_stable k nlb (q x y : bytes) ty :
  block_comment k nlb (q ++ x) = (length q, ty) ->
  (find_block_comment_end k q = None -> all_ws y = true) ->
  block_comment k nlb (q ++ y) = (length q, ty).
Proof.
  unfold block_comment. rewrite !find_block_comment_end_eq.
  destruct (block_close_not_blank k) as [Hne Hnb].
  destruct (find_sub (block_close k) (q ++ x)) as [i|] eqn:E; cbn [option_map].
  - intros H _. injection H as Hi <-.
    rewrite (find_sub_stable _ q x y i E) by blia. cbn [option_map].
    rewrite Hi, !firstn_app_exact. reflexivity.
  - intros H Hy. injection H as Hi <-.
    assert (Eq : find_sub (block_close k) q = None).
    { rewrite <- (app_nil_r q). exact (find_sub_none_blank _ q x [] E Hne Hnb eq_refl). }
    rewrite Eq in Hy. specialize (Hy eq_refl).
    rewrite (find_sub_none_blank _ q x y E Hne Hnb (all_ws_blankish _ Hy)). cbn [option_map].
    rewrite (trimmed_len_stable q x y Hi Hy). reflexivity.
Qed.

(* ---- text literals ---- *)

Lemma tl_run_kind : forall (l : bytes) s,
  snd (tl_run s l) = TK_SingleLine \/ snd (tl_run s l) = TK_Unterminated.
Proof.
  induction l as [|b t IH]; intros s.
  - cbn [tl_run snd]. destruct s; auto.
  - rewrite tl_run_unfold. destruct (tl_step s b) as [s'|k] eqn:E; cbn [snd]; [apply IH|].
    rewrite (tl_stop_is_end _ _ _ E). destruct s; auto.
Qed.

Lemma ml_opener_repeat k (y : bytes) :
  match y with [] => True | x :: _ => (x =? 39) = false end ->
  ml_opener (repeat 39 k ++ y) =
  Nat.leb 3 (S k) && Nat.odd (S k) && (next_is 13 y || next_is 10 y).
Proof.
  intros Hy. rewrite ml_opener_alt. cbv zeta.
  pose proof (count_while_repeat_stop 39 k y Hy) as Hcw. unfold bytes, byte in *. rewrite Hcw.
  assert (E : skipn k (repeat 39 k ++ y) = y).
  { rewrite <- (repeat_length 39 k) at 1. apply skipn_app_exact. }
  rewrite E. reflexivity.
Qed.

(* what must follow a text literal token with content 39 :: q of kind k *)
Definition tl_cond (q : bytes) (k : TextLiteralKind) (y : bytes) : Prop :=
  match k with
  | TK_SingleLine => sep_start y
  | TK_Unterminated => if ml_opener (q ++ [10]) then y = [] else eol_sep y
  | _ => True
  end.

Lemma tl_run_S_zero (x : bytes) : fst (tl_run TL_S x) = O -> snd (tl_run TL_S x) = TK_Unterminated.
Proof.
  destruct x as [|c x]; [reflexivity|]. rewrite tl_run_unfold.
  destruct (tl_step TL_S c) as [s'|k'] eqn:E; cbn [fst snd]; [intros H; discriminate H|].
  intros _. exact (tl_stop_is_end _ _ _ E).
Qed.

Lemma text_literal_quote_stable (q x y : bytes) k :
  text_literal 39 (q ++ x) = (length q, RTT_TextLiteral k) -> tl_cond q k y ->
  text_literal 39 (q ++ y) = (length q, RTT_TextLiteral k).
Proof.
  intros H Hc. rewrite text_literal_quote in H |- *. bnorm.
  pose proof (count_while_le (fun c : N => (c =? 39)%N) (q ++ x)) as Hmle.
  destruct (ml_opener (q ++ x)) eqn:Eml.
  - (* multi-line opener *)
    cbv zeta in H. set (m := count_while (fun c : N => (c =? 39)%N) (q ++ x)) in *.
    replace (S m - 1)%nat with m in H by blia.
    destruct (find_sub (repeat 39 (S m)) (skipn m (q ++ x))) as [pos|] eqn:Ef.
    + injection H as Hlen <-.
      assert (Hm : (m < length q)%nat) by blia.
      brw (ml_opener_lt q x y Hm). rewrite Eml. cbv zeta. brw (count_while_lt (fun c : N => (c =? 39)%N) q x y Hm). fold m.
      replace (S m - 1)%nat with m by blia.
      rewrite (skipn_app_le m q x) in Ef by blia. rewrite (skipn_app_le m q y) by blia.
      brw (find_sub_stable _ _ x y pos Ef ltac:(rewrite repeat_length, skipn_length; blia)).
      rewrite Hlen. reflexivity.
    + injection H as Hlen <-.
      assert (Hx : x = []) by (rewrite app_length in Hlen; destruct x; [reflexivity|simpl in Hlen; blia]).
      subst x. cbn [tl_cond] in Hc.
      assert (Em : ml_opener (q ++ [10]) = true).
      { destruct (le_lt_dec (length q) m) as [Hge|Hlt]; [|brw (ml_opener_lt q [] [10] Hlt); exact Eml].
        exfalso. rewrite ml_opener_alt in Eml. cbv zeta in Eml. fold m in Eml.
        rewrite app_length in Hmle. simpl in Hmle.
        rewrite skipn_all2 in Eml by (rewrite app_length; simpl; blia).
        cbn [next_is orb] in Eml. rewrite andb_false_r in Eml. discriminate Eml. }
      rewrite Em in Hc. subst y. rewrite Eml. cbv zeta. fold m.
      replace (S m - 1)%nat with m by blia. rewrite Ef, Hlen. reflexivity.
  - (* single-line automaton *)
    injection H as Hlen Hk.
    assert (Hrun : tl_run TL_S (q ++ y) = tl_run TL_S (q ++ x)).
    { pose proof (tl_run_sep (q ++ x) TL_S y) as Hs. rewrite Hlen, firstn_app_exact in Hs. apply Hs.
      - rewrite Hk. intros ->. exact Hc.
      - rewrite Hk. intros ->. cbn [tl_cond] in Hc.
        destruct (ml_opener (q ++ [10])); [subst y; exact I|exact Hc]. }
    assert (Hml : ml_opener (q ++ y) = false).
    { set (m := count_while (fun c : N => (c =? 39)%N) (q ++ x)) in *.
      destruct (le_lt_dec (length q) m) as [Hge|Hlt]; [|brw (ml_opener_lt q x y Hlt); exact Eml].
      pose proof (proj1 (tl_run_quotes (q ++ x))) as Hq. unfold bytes, byte in Hq. fold m in Hq. rewrite Hlen in Hq.
      assert (Hm : m = length q) by blia.
      assert (Hall : forallb (fun c : N => (c =? 39)%N) q = true).
      { apply (count_while_ge_forallb _ q x). fold m. blia. }
      destruct (count_while_longest (fun c : N => (c =? 39)%N) (q ++ x)) as (_ & _ & Hnext).
      unfold bytes, byte in Hnext. fold m in Hnext. rewrite Hm, skipn_app_exact in Hnext.
      assert (Hrep : exists n, q = repeat 39 n) by (exists (length q); exact (forallb_eq_repeat _ _ Hall)).
      destruct Hrep as [n ->]. clear Hall. rewrite repeat_length in *.
      destruct (tl_run_kind (repeat 39 n ++ x) TL_S) as [Ek|Ek]; rewrite Hk in Ek; rewrite Ek in Hc, Hk.
      - (* complete literal made of quotes only: an odd number of them follows the first *)
        cbn [tl_cond] in Hc. brw (ml_opener_repeat n y (sep_start_not_quote _ Hc)).
        destruct (tl_run_repeat_quotes n x) as [E1 _]. rewrite E1 in Hlen, Hk. cbn [fst snd] in Hlen, Hk.
        destruct (Nat.even n) eqn:Ev.
        + exfalso. rewrite (tl_run_S_zero x) in Hk by blia. discriminate Hk.
        + rewrite Nat.odd_succ, Ev, andb_false_r. reflexivity.
      - cbn [tl_cond] in Hc.
        brw_in (ml_opener_repeat n [10] eq_refl) Hc. cbn [next_is] in Hc.
        replace (next_is 13 [10] || (10 =? 10)) with true in Hc by reflexivity.
        rewrite andb_true_r in Hc.
        destruct (Nat.leb 3 (S n) && Nat.odd (S n)) eqn:Ep.
        + subst y. brw (ml_opener_repeat n [] I). cbn [next_is orb]. apply andb_false_r.
        + brw (ml_opener_repeat n y (sep_start_not_quote _ (ascii_sep_start _ (eol_sep_ascii _ Hc)))).
          rewrite Ep. reflexivity. }
    rewrite Hml, Hrun, Hlen, Hk. reflexivity.
Qed.

Lemma text_literal_hash_stable (q x y : bytes) k :
  text_literal 35 (q ++ x) = (length q, RTT_TextLiteral k) ->
  (k = TK_SingleLine -> sep_start y) -> (k = TK_Unterminated -> eol_sep y) ->
  text_literal 35 (q ++ y) = (length q, RTT_TextLiteral k).
Proof.
  intros H H1 H2. rewrite text_literal_hash in H |- *. injection H as Hlen Hk.
  pose proof (tl_run_sep (q ++ x) TL_H y) as Hs. rewrite Hlen, firstn_app_exact, Hk in Hs.
  rewrite (Hs H1 H2), Hlen, Hk. reflexivity.
Qed.

(* ---- asm text literals ---- *)

(* the content ends with a backslash that escapes nothing *)
Fixpoint esc_end (q : bytes) : bool :=
  match q with
  | [] => false
  | b :: t1 => if b =? 92 then match t1 with [] => true | _ :: t2 => esc_end t2 end else esc_end t1
  end.

Definition asm_tl_cond (q : bytes) (ty : RawTokenType) (y : bytes) : Prop :=
  ty = RTT_TextLiteral TK_Unterminated -> if esc_end q then y = [] else eol_sep y.

Lemma asm_text_literal_eol (y : bytes) : eol_sep y ->
  asm_text_literal y = (O, RTT_TextLiteral TK_Unterminated).
Proof.
  destruct y as [|e y]; [reflexivity|]. cbn [eol_sep]. unfold is_eol. intros H.
  rewrite asm_text_literal_unfold. rewrite H.
  replace (e =? 92) with false by (symmetry; apply N.eqb_neq; b2p H; blia).
  replace (e =? 34) with false by (symmetry; apply N.eqb_neq; b2p H; blia). reflexivity.
Qed.

Lemma asm_text_literal_stable_strong n : forall (q x y : bytes) ty, (length q <= n)%nat ->
  asm_text_literal (q ++ x) = (length q, ty) -> asm_tl_cond q ty y ->
  asm_text_literal (q ++ y) = (length q, ty).
Proof.
  induction n as [|n IH]; intros q x y ty Hq H Hc.
  - assert (q = []) by (destruct q; [reflexivity|simpl in Hq; blia]). subst q.
    cbn [app length] in *.
    assert (Hty : ty = RTT_TextLiteral TK_Unterminated).
    { destruct x as [|b t1]; [injection H as <-; reflexivity|]. rewrite asm_text_literal_unfold in H.
      destruct (b =? 92); [destruct t1; discriminate H|]. destruct (b =? 34); [discriminate H|].
      destruct ((b =? 10) || (b =? 13)); [injection H as <-; reflexivity|discriminate H]. }
    subst ty. specialize (Hc eq_refl). cbn [esc_end] in Hc. apply asm_text_literal_eol. exact Hc.
  - destruct q as [|b q]; [apply (IH [] x y ty); [simpl; blia|exact H|exact Hc]|].
    cbn [app length] in *. rewrite asm_text_literal_unfold in H |- *.
    destruct (b =? 92) eqn:E92.
    + destruct q as [|c q].
      * cbn [app] in *. destruct x as [|c x]; [|cbn [fst] in H; injection H as H _; blia].
        injection H as <-. specialize (Hc eq_refl). cbn [esc_end] in Hc. rewrite E92 in Hc. subst y. reflexivity.
      * cbn [app length] in *. cbv zeta in H |- *.
        assert (H' : asm_text_literal (q ++ x) = (length q, ty)).
        { destruct (asm_text_literal (q ++ x)) as [n0 ty0]. cbn [fst snd] in H.
          injection H as H1 H2. subst ty0. f_equal. blia. }
        assert (Hc' : asm_tl_cond q ty y).
        { intros Et. specialize (Hc Et). cbn [esc_end] in Hc. rewrite E92 in Hc. exact Hc. }
        rewrite (IH q x y ty ltac:(simpl in Hq; blia) H' Hc'). reflexivity.
    + destruct (b =? 34).
      * injection H as Hl <-. assert (q = []) by (destruct q; [reflexivity|simpl in Hl; blia]).
        subst q. reflexivity.
      * destruct ((b =? 10) || (b =? 13)); [injection H as H _; blia|].
        cbv zeta in H |- *.
        assert (H' : asm_text_literal (q ++ x) = (length q, ty)).
        { destruct (asm_text_literal (q ++ x)) as [n0 ty0]. cbn [fst snd] in H.
          injection H as H1 H2. subst ty0. f_equal. blia. }
        assert (Hc' : asm_tl_cond q ty y).
        { intros Et. specialize (Hc Et). cbn [esc_end] in Hc. rewrite E92 in Hc. exact Hc. }
        rewrite (IH q x y ty ltac:(simpl in Hq; blia) H' Hc'). reflexivity.
Qed.

Lemma asm_text_literal_stable (q x y : bytes) ty :
  asm_text_literal (q ++ x) = (length q, ty) -> asm_tl_cond q ty y ->
  asm_text_literal (q ++ y) = (length q, ty).
Proof. apply (asm_text_literal_stable_strong (length q)). blia. Qed.

(* ---- generic: from "g (firstn (g t) t ++ r) = g t" to the exact-content form ---- *)

Lemma exact_form (g : bytes -> nat) (q x y : bytes) :
  (forall t, g (firstn (g t) t ++ y) = g t) -> g (q ++ x) = length q -> g (q ++ y) = length q.
Proof.
  intros Hg H. specialize (Hg (q ++ x)). rewrite H, firstn_app_exact in Hg. exact Hg.
Qed.

Lemma count_while_exact (p : byte -> bool) (q x y : bytes) :
  match y with [] => True | c :: _ => p c = false end ->
  count_while p (q ++ x) = length q -> count_while p (q ++ y) = length q.
Proof. intros Hy. apply exact_form. intros t. apply count_while_sep. exact Hy. Qed.

Lemma ident_end_exact (q x y : bytes) : sep_start y ->
  ident_end_generic (q ++ x) = length q -> ident_end_generic (q ++ y) = length q.
Proof. intros Hy. apply exact_form. intros t. apply ident_end_generic_sep. exact Hy. Qed.

Lemma dec_number_exact (q x y : bytes) : sep_start y ->
  dec_number_literal (q ++ x) = length q -> dec_number_literal (q ++ y) = length q.
Proof. intros Hy. apply exact_form. intros t. apply dec_number_literal_sep. exact Hy. Qed.

(* ---- asm number literals ---- *)

Lemma sep_start_not_eq (y : bytes) (c : byte) : 32 < c -> c <> 227 -> sep_start y -> next_is c y = false.
Proof.
  intros H1 H2 Hy. destruct y as [|x y]; [reflexivity|]. cbn [next_is].
  apply sep_start_hd in Hy. apply N.eqb_neq. blia.
Qed.

Lemma asm_number_literal_stable (first : byte) (q x y : bytes) ty :
  asm_number_literal first (q ++ x) = (length q, ty) -> sep_start y ->
  asm_number_literal first (q ++ y) = (length q, ty).
Proof.
  unfold asm_number_literal. cbv zeta. intros H Hy.
  set (n := count_hex (q ++ x)) in *.
  assert (Hsuf : (n < length q)%nat ->
            count_hex (q ++ y) = n /\ forall c, next_is c (skipn n (q ++ y)) = next_is c (skipn n (q ++ x))).
  { intros Hn. split; [apply (count_while_lt is_hex q x y Hn)|].
    intros c. rewrite !skipn_app_le by blia. rewrite !next_is_app_nonempty; [reflexivity| |];
      intros E; apply (f_equal (@length byte)) in E; rewrite skipn_length in E; simpl in E; blia. }
  destruct (next_is 79 (skipn n (q ++ x)) || next_is 111 (skipn n (q ++ x))) eqn:E1.
  { injection H as Hl <-. destruct (Hsuf ltac:(blia)) as [Hc Hnx]. rewrite Hc, !Hnx, E1, Hl. reflexivity. }
  destruct (next_is 72 (skipn n (q ++ x)) || next_is 104 (skipn n (q ++ x))) eqn:E2.
  { injection H as Hl <-. destruct (Hsuf ltac:(blia)) as [Hc Hnx]. rewrite Hc, !Hnx, E1, E2, Hl. reflexivity. }
  assert (Hn : n = length q).
  { destruct ((nth n (first :: q ++ x) 0 =? 66) || (nth n (first :: q ++ x) 0 =? 98));
      injection H as Hl _; exact Hl. }
  assert (Hc : count_hex (q ++ y) = length q).
  { apply (count_while_exact is_hex q x y); [|exact Hn].
    exact (sep_start_not_class _ _ is_hex_printable Hy). }
  rewrite Hc, skipn_app_exact.
  rewrite !(sep_start_not_eq y) by (try exact Hy; blia). cbn [orb].
  rewrite Hn in H.
  replace (nth (length q) (first :: q ++ y) 0) with (nth (length q) (first :: q ++ x) 0); [exact H|].
  change (first :: q ++ x) with ((first :: q) ++ x). change (first :: q ++ y) with ((first :: q) ++ y).
  rewrite !app_nth1 by (simpl; blia). reflexivity.
Qed.

(* ---- ampersand ---- *)

Definition amp_cond (ty : RawTokenType) (y : bytes) : Prop :=
  match ty with RTT_Unknown => ascii_sep y | _ => sep_start y end.

Lemma unicode_identifier_exact (q x y : bytes) : sep_start y ->
  unicode_identifier (q ++ x) = length q -> unicode_identifier (q ++ y) = length q.
Proof. rewrite !unicode_identifier_eq. apply ident_end_exact. Qed.

Lemma ascii_sep_amp_unknown (k : nat) (y : bytes) : ascii_sep y ->
  match y with
  | [] => (k, RTT_Unknown)
  | c :: r =>
      if c =? 36 then (k + 1 + count_hex r, RTT_NumberLiteral NK_Hex)%nat
      else if c =? 37 then (k + 1 + count_binary r, RTT_NumberLiteral NK_Binary)%nat
      else if is_digit c then (k + 1 + dec_number_literal r, RTT_NumberLiteral NK_Decimal)%nat
      else if is_alpha c || (c =? 95) then (k + 1 + find_identifier_end r, RTT_Identifier)%nat
      else if 128 <=? c then (k + 1 + unicode_identifier r, RTT_Identifier)%nat
      else (k, RTT_Unknown)
  end = (k, RTT_Unknown).
Proof.
  destruct y as [|c r]; [reflexivity|]. cbn [ascii_sep]. intros H. apply N.leb_le in H.
  replace (c =? 36) with false by (symmetry; apply N.eqb_neq; blia).
  replace (c =? 37) with false by (symmetry; apply N.eqb_neq; blia).
  replace (c =? 95) with false by (symmetry; apply N.eqb_neq; blia).
  replace (128 <=? c) with false by (symmetry; apply N.leb_gt; blia).
  assert (Hd : is_digit c = false).
  { destruct (is_digit c) eqn:E; [|reflexivity]. apply is_digit_range in E. blia. }
  assert (Ha : is_alpha c = false).
  { destruct (is_alpha c) eqn:E; [|reflexivity]. apply is_alpha_range in E. blia. }
  rewrite Hd, Ha. reflexivity.
Qed.

Lemma ampersand_stable (q x y : bytes) ty :
  ampersand (q ++ x) = (length q, ty) -> amp_cond ty y -> ampersand (q ++ y) = (length q, ty).
Proof.
  unfold ampersand. intros H Hc.
  set (k := count_while (fun b : N => b =? 38) (q ++ x)) in *.
  pose proof (count_while_le (fun b : N => b =? 38) (q ++ x)) as Hk. fold k in Hk.
  assert (Hy38 : sep_start y -> match y with [] => True | c :: _ => (c =? 38) = false end).
  { intros Hs. destruct y as [|c y]; [exact I|]. apply sep_start_hd in Hs. apply N.eqb_neq. blia. }
  assert (Hs : sep_start y).
  { destruct ty; try exact Hc. exact (ascii_sep_start _ Hc). }
  destruct (le_lt_dec (length q) k) as [Hge|Hlt].
  - (* the token consists of ampersands only *)
    assert (Hq : forallb (fun b : N => b =? 38) q = true) by (apply (count_while_ge_forallb _ q x); exact Hge).
    assert (Hky : count_while (fun b : N => b =? 38) (q ++ y) = length q).
    { apply count_while_app_stop; [exact Hq|exact (Hy38 Hs)]. }
    assert (Hty : length q = k /\ ty = RTT_Unknown).
    { destruct (skipn k (q ++ x)) as [|c r]; [injection H as H1 H2; split; [blia|congruence]|].
      repeat match type of H with context [if ?e then _ else _] => destruct e end;
        injection H as H1 H2; first [blia|split; [blia|congruence]]. }
    destruct Hty as [Hkq ->]. unfold bytes, byte in *. rewrite Hky, skipn_app_exact.
    exact (ascii_sep_amp_unknown (length q) y Hc).
  - (* something follows the ampersands inside the token *)
    assert (Hky : count_while (fun b : N => b =? 38) (q ++ y) = k) by (apply (count_while_lt _ q x y Hlt)).
    unfold bytes, byte in *. rewrite Hky.
    rewrite (skipn_app_le k q x) in H by blia. rewrite (skipn_app_le k q y) by blia.
    destruct (skipn k q) as [|c q2] eqn:Eq2.
    { apply (f_equal (@length N)) in Eq2. rewrite skipn_length in Eq2. simpl in Eq2. blia. }
    assert (Lq : length q = (k + 1 + length q2)%nat).
    { apply (f_equal (@length N)) in Eq2. rewrite skipn_length in Eq2. simpl in Eq2. blia. }
    cbn [app] in *.
    destruct (c =? 36).
    { injection H as H1 <-. f_equal. rewrite Lq. f_equal.
      apply (count_while_exact is_hex q2 x y); [exact (sep_start_not_class _ _ is_hex_printable Hs)|].
      unfold count_hex in H1. blia. }
    destruct (c =? 37).
    { injection H as H1 <-. f_equal. rewrite Lq. f_equal.
      apply (count_while_exact is_bin q2 x y); [exact (sep_start_not_class _ _ is_bin_printable Hs)|].
      unfold count_binary in H1. blia. }
    destruct (is_digit c).
    { injection H as H1 <-. f_equal. rewrite Lq. f_equal.
      apply (dec_number_exact q2 x y Hs). blia. }
    destruct (is_alpha c || (c =? 95)).
    { injection H as H1 <-. f_equal. rewrite Lq. f_equal.
      apply (ident_end_exact q2 x y Hs). unfold find_identifier_end in H1. blia. }
    destruct (128 <=? c).
    { injection H as H1 <-. f_equal. rewrite Lq. f_equal.
      apply (unicode_identifier_exact q2 x y Hs). blia. }
    injection H as H1 _. blia.
Qed.

(* ================================================================== *)
(* III. Directives: a terminated directive is determined by its own bytes *)

Definition agree (e : nat) (l1 l2 : bytes) : Prop := firstn e l1 = firstn e l2.

Lemma agree_split e (l1 l2 : bytes) : agree e l1 l2 -> (e <= length l1)%nat ->
  exists p x y : bytes, l1 = p ++ x /\ l2 = p ++ y /\ length p = e.
Proof.
  intros H He. exists (firstn e l1), (skipn e l1), (skipn e l2).
  split; [symmetry; apply firstn_skipn|]. split; [rewrite H; symmetry; apply firstn_skipn|].
  apply firstn_length_le. exact He.
Qed.

Lemma agree_app (p x y : bytes) : agree (length p) (p ++ x) (p ++ y).
Proof. unfold agree. rewrite !firstn_app_exact. reflexivity. Qed.

Lemma agree_le e e' (l1 l2 : bytes) : (e' <= e)%nat -> agree e l1 l2 -> agree e' l1 l2.
Proof.
  unfold agree. intros H E.
  rewrite <- (Nat.min_l e' e H), <- !firstn_firstn, E. reflexivity.
Qed.

Lemma agree_skipn m e (l1 l2 : bytes) : agree (m + e) l1 l2 -> agree e (skipn m l1) (skipn m l2).
Proof. unfold agree. intros E. rewrite !firstn_skipn_comm, E. reflexivity. Qed.

Lemma agree_length e (l1 l2 : bytes) : agree e l1 l2 -> (e <= length l1)%nat -> (e <= length l2)%nat.
Proof.
  intros H He. destruct (agree_split _ _ _ H He) as (p & x & y & -> & -> & <-).
  rewrite app_length. blia.
Qed.

Lemma is_prefix_agree (pat l1 l2 : bytes) e :
  agree e l1 l2 -> (e <= length l1)%nat -> (length pat <= e)%nat -> is_prefix pat l1 = is_prefix pat l2.
Proof.
  intros H He Hp. destruct (agree_split _ _ _ H He) as (p & x & y & -> & -> & <-).
  rewrite !is_prefix_app_long by exact Hp. reflexivity.
Qed.

Lemma count_while_agree (f : byte -> bool) (l1 l2 : bytes) e :
  agree e l1 l2 -> (e <= length l1)%nat -> (count_while f l1 < e)%nat ->
  count_while f l2 = count_while f l1.
Proof.
  intros H He Hc. destruct (agree_split _ _ _ H He) as (p & x & y & -> & -> & <-).
  apply count_while_lt. exact Hc.
Qed.

Lemma find_sub_agree (pat l1 l2 : bytes) e i :
  agree e l1 l2 -> (e <= length l1)%nat -> find_sub pat l1 = Some i -> (i + length pat <= e)%nat ->
  find_sub pat l2 = Some i.
Proof.
  intros H He Hf Hi. destruct (agree_split _ _ _ H He) as (p & x & y & -> & -> & <-).
  exact (find_sub_stable pat p x y i Hf Hi).
Qed.

Lemma find_block_comment_end_agree k (l1 l2 : bytes) e c :
  agree e l1 l2 -> (e <= length l1)%nat -> find_block_comment_end k l1 = Some c -> (c <= e)%nat ->
  find_block_comment_end k l2 = Some c.
Proof.
  intros H He Hf Hc. rewrite find_block_comment_end_eq in Hf |- *.
  destruct (find_sub (block_close k) l1) as [i|] eqn:E; [|discriminate Hf].
  injection Hf as <-. rewrite (find_sub_agree _ _ _ _ _ H He E Hc). reflexivity.
Qed.

Lemma tl_run_agree s (l1 l2 : bytes) e :
  agree e l1 l2 -> (e <= length l1)%nat -> (fst (tl_run s l1) < e)%nat -> tl_run s l2 = tl_run s l1.
Proof.
  intros H He Hc. destruct (agree_split _ _ _ H He) as (p & x & y & -> & -> & <-).
  apply tl_run_lt. exact Hc.
Qed.

Lemma text_literal_quote_agree (l1 l2 : bytes) e :
  agree e l1 l2 -> (e <= length l1)%nat -> (fst (text_literal 39%N l1) < e)%nat ->
  text_literal 39 l2 = text_literal 39 l1.
Proof.
  intros H He Hc. destruct (agree_split _ _ _ H He) as (p & x & y & -> & -> & <-).
  rewrite text_literal_quote in Hc |- *. rewrite (text_literal_quote (p ++ x)). bnorm.
  set (m := count_while (fun c : N => (c =? 39)%N) (p ++ x)) in *.
  assert (Hm : (m < length p)%nat).
  { destruct (ml_opener (p ++ x)).
    - cbv zeta in Hc. fold m in Hc.
      destruct (find_sub (repeat 39 (S m)) (skipn (S m - 1) (p ++ x))); cbn [fst] in Hc; [blia|].
      rewrite app_length in Hc. blia.
    - cbn [fst] in Hc. pose proof (proj1 (tl_run_quotes (p ++ x))) as Hq. bnorm. fold m in Hq. blia. }
  brw (ml_opener_lt p x y Hm).
  destruct (ml_opener (p ++ x)).
  - cbv zeta in *. brw (count_while_lt (fun c : N => (c =? 39)%N) p x y Hm). fold m in Hc |- *.
    replace (S m - 1)%nat with m in * by blia.
    rewrite (skipn_app_le m p x) in * by blia. rewrite (skipn_app_le m p y) by blia.
    destruct (find_sub (repeat 39 (S m)) (skipn m p ++ x)) as [pos|] eqn:Ef; cbn [fst] in Hc.
    + brw (find_sub_stable _ _ x y pos Ef ltac:(rewrite repeat_length, skipn_length; blia)). reflexivity.
    + rewrite app_length in Hc. blia.
  - cbn [fst] in Hc. brw (tl_run_lt p x y TL_S Hc). reflexivity.
Qed.

(* ---- basic facts about the expression scanner ---- *)

Lemma dshift_DEnd m r e : dshift m r = DEnd e -> exists e', r = DEnd e' /\ e = (m + e')%nat.
Proof. destruct r as [e'| |]; intros H; try discriminate H. injection H as <-. exists e'. split; reflexivity. Qed.

Lemma fdee_pos f : forall kind (l : bytes) e, find_directive_expr_end f kind l = DEnd e -> (1 <= e)%nat.
Proof.
  induction f as [|f IH]; intros kind l e H; [discriminate H|].
  rewrite find_directive_expr_end_unfold in H. cbv zeta in H.
  destruct l as [|b t]; [discriminate H|].
  repeat match type of H with
         | (if ?c then _ else _) = _ => destruct c
         end;
    try (injection H as <-; blia);
    try (apply dshift_DEnd in H; destruct H as (e' & _ & ->); blia);
    (match type of H with context [parse_directive_end ?a ?b ?c] =>
       destruct (parse_directive_end a b c) as [m| |]; try discriminate H end;
     apply dshift_DEnd in H; destruct H as (e' & _ & ->); blia).
Qed.

Lemma fdee_bounds f kind (l : bytes) e :
  find_directive_expr_end f kind l = DEnd e -> (1 <= e <= length l)%nat.
Proof.
  intros H. split; [exact (fdee_pos _ _ _ _ H)|].
  pose proof (find_directive_expr_end_ok f kind l) as Hok. rewrite H in Hok. exact Hok.
Qed.

(* a text made of blanks never closes a directive *)
Lemma fdee_blank f : forall kind (l : bytes) e, forallb blankish l = true ->
  find_directive_expr_end f kind l <> DEnd e.
Proof.
  induction f as [|f IH]; intros kind l e Hl H; [discriminate H|].
  rewrite find_directive_expr_end_unfold in H. cbv zeta in H.
  destruct l as [|b t]; [discriminate H|].
  cbn [forallb] in Hl. apply andb_true_iff in Hl. destruct Hl as [Hb Ht].
  assert (Hne : forall c, 32 < c -> c <> 227 -> c <> 128 -> (c =? b) = false /\ (b =? c) = false).
  { intros c H1 H2 H3. unfold blankish in Hb. split; apply N.eqb_neq; b2p Hb; blia. }
  cbn [is_prefix] in H.
  rewrite (proj1 (Hne 42 ltac:(blia) ltac:(blia) ltac:(blia))),
          (proj1 (Hne 40 ltac:(blia) ltac:(blia) ltac:(blia))),
          (proj1 (Hne 123 ltac:(blia) ltac:(blia) ltac:(blia))),
          (proj1 (Hne 47 ltac:(blia) ltac:(blia) ltac:(blia))),
          (proj2 (Hne 125 ltac:(blia) ltac:(blia) ltac:(blia))),
          (proj2 (Hne 123 ltac:(blia) ltac:(blia) ltac:(blia))),
          (proj2 (Hne 39 ltac:(blia) ltac:(blia) ltac:(blia))) in H.
  rewrite ?andb_false_r in H. cbn [andb] in H.
  apply dshift_DEnd in H. destruct H as (e' & H & _). cbn [skipn] in H. exact (IH _ _ _ Ht H).
Qed.

Lemma fdee_all_ws f kind (l : bytes) e : all_ws l = true -> find_directive_expr_end f kind l <> DEnd e.
Proof. intros H. apply fdee_blank. apply all_ws_blankish. exact H. Qed.

(* ---- the recursion ---- *)

Lemma pde_agree (R R2 : BlockCommentKind -> bytes -> dres) k (l1 l2 : bytes) m e :
  (forall k' (a1 a2 : bytes) e', R k' a1 = DEnd e' -> agree e' a1 a2 ->
     R2 k' a2 = DEnd e' \/ R2 k' a2 = DFuel) ->
  (forall k' (a : bytes) e', R k' a = DEnd e' -> (1 <= e' <= length a)%nat) ->
  parse_directive_end R k l1 = DEnd m -> agree e l1 l2 -> (e <= length l1)%nat -> (m <= e)%nat ->
  parse_directive_end R2 k l2 = DEnd m \/ parse_directive_end R2 k l2 = DFuel.
Proof.
  intros IHR Hb H Ha He Hm. unfold parse_directive_end in *.
  set (n := count_while is_ident_ascii l1) in *.
  assert (Hn : (n < m)%nat).
  { destruct (cdk_has_expr (conditional_directive_kind (firstn n l1))).
    - apply dshift_DEnd in H. destruct H as (e' & H & ->). apply Hb in H. blia.
    - apply dshift_DEnd in H. destruct H as (e' & H & ->).
      destruct (find_block_comment_end k (skipn n l1)) as [c|] eqn:Ec; [|discriminate H].
      injection H as <-. destruct k; cbn [find_block_comment_end] in Ec.
      + destruct (find_sub [42; 41] (skipn n l1)); [|discriminate Ec]. injection Ec as <-. blia.
      + destruct (find_first _ (skipn n l1)); [|discriminate Ec]. injection Ec as <-. blia. }
  assert (Hc2 : count_while is_ident_ascii l2 = n).
  { apply (count_while_agree _ _ _ e Ha He). fold n. blia. }
  assert (Hf2 : firstn n l2 = firstn n l1).
  { symmetry. apply (agree_le e n); [blia|exact Ha]. }
  rewrite Hc2, Hf2.
  destruct (cdk_has_expr (conditional_directive_kind (firstn n l1))).
  - apply dshift_DEnd in H. destruct H as (e' & H & ->).
    assert (Ha' : agree e' (skipn n l1) (skipn n l2)).
    { apply agree_skipn. apply (agree_le e); [blia|exact Ha]. }
    destruct (IHR _ _ _ _ H Ha') as [E|E]; rewrite E; [left|right]; reflexivity.
  - apply dshift_DEnd in H. destruct H as (e' & H & ->).
    destruct (find_block_comment_end k (skipn n l1)) as [c|] eqn:Ec; [|discriminate H].
    injection H as <-.
    assert (Ha' : agree c (skipn n l1) (skipn n l2)).
    { apply agree_skipn. apply (agree_le e); [blia|exact Ha]. }
    rewrite (find_block_comment_end_agree k _ _ c c Ha' (proj2 (find_block_comment_end_bound _ _ _ Ec)) Ec (le_n _)).
    left. reflexivity.
Qed.

Lemma is_prefix_3_2 (l : bytes) : is_prefix [40; 42; 36] l = true -> is_prefix [40; 42] l = true.
Proof.
  destruct l as [|a [|b [|c l]]]; cbn [is_prefix]; intros H; try discriminate H;
    try (rewrite ?andb_false_r in H; discriminate H).
  b2p H. subst. reflexivity.
Qed.

(* when the head is not a closing delimiter at least two bytes are consumed *)
Lemma fdee_ge2 f kind (b : byte) (t : bytes) e :
  find_directive_expr_end (S f) kind (b :: t) = DEnd e ->
  is_paren_star kind && is_prefix [42; 41] (b :: t) = false ->
  negb (is_paren_star kind) && (b =? 125) = false ->
  (2 <= e)%nat /\
  (is_prefix [40; 42] (b :: t) = true -> (3 <= e)%nat) /\
  (is_prefix [40; 42; 36] (b :: t) = true -> (4 <= e)%nat).
Proof.
  intros H E1 E2. rewrite find_directive_expr_end_unfold in H. cbv beta iota zeta in H.
  rewrite E1, E2 in H.
  assert (Hd : forall m r, dshift m r = DEnd e -> (forall e', r = DEnd e' -> (1 <= e')%nat) ->
                 (m + 1 <= e)%nat).
  { intros m r Hr Hp. apply dshift_DEnd in Hr. destruct Hr as (e' & Hr & ->). specialize (Hp _ Hr). blia. }
  assert (Hp : forall m, forall e', find_directive_expr_end f kind (skipn m (b :: t)) = DEnd e' -> (1 <= e')%nat).
  { intros m e'. apply fdee_pos. }
  destruct (is_prefix [40; 42; 36] (b :: t)) eqn:E3.
  { match type of H with context [parse_directive_end ?a ?k ?c] =>
      destruct (parse_directive_end a k c) as [m| |] end; try discriminate H.
    pose proof (Hd _ _ H (Hp _)). repeat split; intros; blia. }
  destruct (is_prefix [123; 36] (b :: t)) eqn:E4.
  { match type of H with context [parse_directive_end ?a ?k ?c] =>
      destruct (parse_directive_end a k c) as [m| |] end; try discriminate H.
    pose proof (Hd _ _ H (Hp _)). split; [blia|]. split; [|intros Hx; discriminate Hx].
    intros E5. cbn [is_prefix] in E4, E5. b2p E4. b2p E5. blia. }
  destruct (is_prefix [40; 42] (b :: t)) eqn:E5.
  { pose proof (Hd _ _ H (Hp _)). split; [blia|]. split; [intros; blia|intros Hx; discriminate Hx]. }
  split; [|split; intros Hx; discriminate Hx].
  repeat match type of H with (if ?c then _ else _) = _ => destruct c end;
    pose proof (Hd _ _ H (Hp _)); blia.
Qed.

(* THE PREFIX THEOREM for directive expressions: if the scanner finds the end of the directive at
   offset e, then on any text that agrees on the first e bytes it finds the same end (or runs out of
   fuel, which the fuel supplied by compiler_directive excludes). *)
Lemma fdee_agree f : forall kind (l1 : bytes) e, find_directive_expr_end f kind l1 = DEnd e ->
  forall f2 (l2 : bytes), agree e l1 l2 ->
  find_directive_expr_end f2 kind l2 = DEnd e \/ find_directive_expr_end f2 kind l2 = DFuel.
Proof.
  induction f as [|f IH]; intros kind l1 e H f2 l2 Ha; [discriminate H|].
  destruct f2 as [|f2]; [right; reflexivity|].
  pose proof (fdee_bounds _ _ _ _ H) as [He1 He2].
  destruct l1 as [|b t1]; [simpl in He2; blia|].
  destruct l2 as [|b2 t2].
  { exfalso. unfold agree in Ha. destruct e; [blia|]. discriminate Ha. }
  assert (b2 = b).
  { unfold agree in Ha. destruct e; [blia|]. cbn [firstn] in Ha. injection Ha as -> _. reflexivity. }
  subst b2.
  assert (Hpre : forall pat : bytes, (length pat <= e)%nat ->
            is_prefix pat (b :: t2) = is_prefix pat (b :: t1)).
  { intros pat Hp. symmetry. exact (is_prefix_agree pat _ _ e Ha He2 Hp). }
  assert (Hcont : forall m, (1 <= m)%nat ->
            dshift m (find_directive_expr_end f kind (skipn m (b :: t1))) = DEnd e ->
            dshift m (find_directive_expr_end f2 kind (skipn m (b :: t2))) = DEnd e \/
            dshift m (find_directive_expr_end f2 kind (skipn m (b :: t2))) = DFuel).
  { intros m Hm Hd. apply dshift_DEnd in Hd. destruct Hd as (e' & Hd & ->).
    destruct (IH _ _ _ Hd f2 (skipn m (b :: t2)) (agree_skipn _ _ _ _ Ha)) as [E|E]; rewrite E;
      [left|right]; reflexivity. }
  assert (Hpde : forall k pre m, (1 <= pre)%nat ->
            parse_directive_end (find_directive_expr_end f) k (skipn pre (b :: t1)) = DEnd m ->
            (pre + m <= e)%nat ->
            parse_directive_end (find_directive_expr_end f2) k (skipn pre (b :: t2)) = DEnd m \/
            parse_directive_end (find_directive_expr_end f2) k (skipn pre (b :: t2)) = DFuel).
  { intros k pre m Hp Hm Hle.
    apply (pde_agree (find_directive_expr_end f) (find_directive_expr_end f2) k
             (skipn pre (b :: t1)) (skipn pre (b :: t2)) m (e - pre)).
    - intros k' a1 a2 e' Hr Hag. exact (IH _ _ _ Hr f2 a2 Hag).
    - intros k' a e' Hr. exact (fdee_bounds _ _ _ _ Hr).
    - exact Hm.
    - apply agree_skipn. replace (pre + (e - pre))%nat with e by blia. exact Ha.
    - rewrite skipn_length. blia.
    - blia. }
  assert (Hbc : forall k pre, (1 <= pre)%nat ->
            dshift (pre + fst (block_comment k false (skipn pre (b :: t1))))
              (find_directive_expr_end f kind
                 (skipn (pre + fst (block_comment k false (skipn pre (b :: t1)))) (b :: t1))) = DEnd e ->
            fst (block_comment k false (skipn pre (b :: t2))) =
            fst (block_comment k false (skipn pre (b :: t1)))).
  { intros k pre Hp Hd. unfold block_comment in *.
    destruct (find_block_comment_end k (skipn pre (b :: t1))) as [c|] eqn:Ec; cbn [fst] in *.
    - apply dshift_DEnd in Hd. destruct Hd as (e' & Hd & Ee).
      assert (Hag : agree (e - pre) (skipn pre (b :: t1)) (skipn pre (b :: t2))).
      { apply agree_skipn. replace (pre + (e - pre))%nat with e by blia. exact Ha. }
      rewrite (find_block_comment_end_agree k _ _ (e - pre) c Hag
                 ltac:(rewrite skipn_length; blia) Ec ltac:(blia)). reflexivity.
    - exfalso. apply dshift_DEnd in Hd. destruct Hd as (e' & Hd & _).
      rewrite skipn_add in Hd. exact (fdee_all_ws _ _ _ _ (trimmed_len_all_ws _) Hd). }
  pose proof H as H0.
  rewrite find_directive_expr_end_unfold in H |- *. cbv beta iota zeta in H |- *.
  destruct (is_paren_star kind && is_prefix [42; 41] (b :: t1)) eqn:E1.
  { injection H as <-. rewrite (Hpre [42; 41] (le_n _)), E1. left. reflexivity. }
  destruct (negb (is_paren_star kind) && (b =? 125)) eqn:E2.
  { injection H as <-. apply andb_true_iff in E2. destruct E2 as [Eps Eb].
    apply negb_true_iff in Eps. rewrite Eps. left. reflexivity. }
  (* not a closing delimiter: at least two bytes, and the tests on l2 agree with those on l1 *)
  destruct (fdee_ge2 _ _ _ _ _ H0 E1 E2) as (G2 & G3 & G4).
  assert (F1 : is_prefix [42; 41] (b :: t2) = is_prefix [42; 41] (b :: t1)) by (apply Hpre; exact G2).
  assert (F4 : is_prefix [123; 36] (b :: t2) = is_prefix [123; 36] (b :: t1)) by (apply Hpre; exact G2).
  assert (F5 : is_prefix [40; 42] (b :: t2) = is_prefix [40; 42] (b :: t1)) by (apply Hpre; exact G2).
  assert (F8 : is_prefix [47; 47] (b :: t2) = is_prefix [47; 47] (b :: t1)) by (apply Hpre; exact G2).
  assert (F3 : is_prefix [40; 42; 36] (b :: t2) = is_prefix [40; 42; 36] (b :: t1)).
  { destruct (le_lt_dec 3 e) as [G|G]; [apply Hpre; exact G|].
    destruct (is_prefix [40; 42; 36] (b :: t1)) eqn:A1; [specialize (G4 A1); blia|].
    destruct (is_prefix [40; 42; 36] (b :: t2)) eqn:A2; [|reflexivity].
    apply is_prefix_3_2 in A2. rewrite F5 in A2. specialize (G3 A2). blia. }
  rewrite F1, E1, F3, F4, F5, F8. clear F1 F3 F4 F5 F8.
  assert (Hrest : forall m, dshift m (find_directive_expr_end f kind (skipn m (b :: t1))) = DEnd e ->
            (m + 1 <= e)%nat).
  { intros m Hd. apply dshift_DEnd in Hd. destruct Hd as (e' & Hd & ->). apply fdee_pos in Hd. blia. }
  destruct (is_prefix [40; 42; 36] (b :: t1)) eqn:E3.
  { match type of H with context [parse_directive_end ?a ?k ?c] =>
      destruct (parse_directive_end a k c) as [m| |] eqn:Epde end; try discriminate H.
    pose proof (Hrest _ H) as Hle.
    destruct (Hpde BCK_ParenStar 3%nat m ltac:(blia) Epde ltac:(blia)) as [E|E]; rewrite E.
    - apply Hcont; [blia|exact H].
    - right. reflexivity. }
  destruct (is_prefix [123; 36] (b :: t1)) eqn:E4.
  { match type of H with context [parse_directive_end ?a ?k ?c] =>
      destruct (parse_directive_end a k c) as [m| |] eqn:Epde end; try discriminate H.
    pose proof (Hrest _ H) as Hle.
    destruct (Hpde BCK_Brace 2%nat m ltac:(blia) Epde ltac:(blia)) as [E|E]; rewrite E.
    - apply Hcont; [blia|exact H].
    - right. reflexivity. }
  destruct (is_prefix [40; 42] (b :: t1)) eqn:E5.
  { rewrite (Hbc BCK_ParenStar 2%nat ltac:(blia) H). apply Hcont; [blia|exact H]. }
  destruct (b =? 123) eqn:E6.
  { pose proof (Hbc BCK_Brace 1%nat ltac:(blia) H) as Eb. cbn [skipn] in Eb. rewrite Eb.
    apply Hcont; [blia|exact H]. }
  destruct (b =? 39) eqn:E7.
  { pose proof (Hrest _ H) as Hle.
    assert (Et : text_literal 39 t2 = text_literal 39 t1).
    { apply (text_literal_quote_agree t1 t2 (e - 1)).
      - apply (agree_skipn 1 (e - 1) (b :: t1) (b :: t2)).
        replace (1 + (e - 1))%nat with e by blia. exact Ha.
      - simpl in He2. blia.
      - blia. }
    rewrite Et. apply Hcont; [blia|exact H]. }
  destruct (is_prefix [47; 47] (b :: t1)) eqn:E8.
  { pose proof (Hrest _ H) as Hle.
    assert (El : line_comment_len (skipn 2 (b :: t2)) = line_comment_len (skipn 2 (b :: t1))).
    { unfold line_comment_len. apply (count_while_agree _ _ _ (e - 2)).
      - apply agree_skipn. replace (2 + (e - 2))%nat with e by blia. exact Ha.
      - rewrite skipn_length. blia.
      - unfold line_comment_len in Hle. blia. }
    rewrite El. apply Hcont; [blia|exact H]. }
  apply Hcont; [blia|exact H].
Qed.

(* ---- compiler directives ---- *)

(* the directive scanner applied to the text q after the dollar sign ends exactly at the end of q:
   q is a complete directive body including its closing delimiter *)
Definition dir_terminated (k : BlockCommentKind) (q : bytes) : bool :=
  match parse_directive_end (find_directive_expr_end (S (length q))) k q with
  | DEnd e => Nat.eqb e (length q)
  | _ => false
  end.

Lemma pde_fueled k (l : bytes) :
  parse_directive_end (find_directive_expr_end (S (length l))) k l <> DFuel.
Proof.
  apply parse_directive_end_fueled. intros k' r Hr. apply find_directive_expr_end_fueled. blia.
Qed.

Lemma pde_name_lt (R : BlockCommentKind -> bytes -> dres) k (l : bytes) m :
  (forall k' (a : bytes) e', R k' a = DEnd e' -> (1 <= e' <= length a)%nat) ->
  parse_directive_end R k l = DEnd m -> (count_while is_ident_ascii l < m)%nat.
Proof.
  intros Hb H. unfold parse_directive_end in H. set (n := count_while is_ident_ascii l) in *.
  destruct (cdk_has_expr (conditional_directive_kind (firstn n l))).
  - apply dshift_DEnd in H. destruct H as (e' & H & ->). apply Hb in H. blia.
  - apply dshift_DEnd in H. destruct H as (e' & H & ->).
    destruct (find_block_comment_end k (skipn n l)) as [c|] eqn:Ec; [|discriminate H].
    injection H as <-. pose proof (find_block_comment_end_bound _ _ _ Ec). blia.
Qed.

(* a complete directive body lexes as itself whatever follows *)
Lemma compiler_directive_terminated k (q y : bytes) : dir_terminated k q = true ->
  compiler_directive k (q ++ y) =
  TOk (length q) (directive_token_type
                    (conditional_directive_kind (firstn (count_while is_ident_ascii q) q))).
Proof.
  unfold dir_terminated. intros H.
  destruct (parse_directive_end (find_directive_expr_end (S (length q))) k q) as [e| |] eqn:E;
    try discriminate H.
  apply Nat.eqb_eq in H. subst e.
  assert (Hb : forall f k' (a : bytes) e', find_directive_expr_end f k' a = DEnd e' ->
             (1 <= e' <= length a)%nat) by (intros; eapply fdee_bounds; eassumption).
  pose proof (pde_name_lt _ _ _ _ (Hb _) E) as Hn.
  assert (Hc : count_while is_ident_ascii (q ++ y) = count_while is_ident_ascii q).
  { pose proof (count_while_lt is_ident_ascii q [] y) as Hl. rewrite app_nil_r in Hl. exact (Hl Hn). }
  unfold compiler_directive. cbv zeta. rewrite Hc.
  assert (Hf : firstn (count_while is_ident_ascii q) (q ++ y) = firstn (count_while is_ident_ascii q) q).
  { rewrite firstn_app. replace (count_while is_ident_ascii q - length q)%nat with O by blia.
    cbn [firstn]. apply app_nil_r. }
  rewrite Hf.
  assert (Hag : agree (length q) q (q ++ y)).
  { unfold agree. rewrite firstn_app_exact, firstn_all. reflexivity. }
  destruct (pde_agree (find_directive_expr_end (S (length q)))
              (find_directive_expr_end (S (length (q ++ y)))) k q (q ++ y) (length q) (length q)
              ltac:(intros k' a1 a2 e' Hr Ha; exact (fdee_agree _ _ _ _ Hr _ _ Ha))
              (Hb _) E Hag (le_n _) (le_n _)) as [E2|E2].
  - rewrite E2. reflexivity.
  - exfalso. exact (pde_fueled k (q ++ y) E2).
Qed.

Lemma tshift_inv k r n ty : tshift k r = TOk n ty -> exists n', r = TOk n' ty /\ n = (k + n')%nat.
Proof. destruct r as [n' ty'|]; intros H; [|discriminate H]. injection H as <- <-. exists n'. split; reflexivity. Qed.

Lemma tok_inv (r : nat * RawTokenType) n ty : tok r = TOk n ty -> r = (n, ty).
Proof. unfold tok. intros H. injection H as <- <-. apply surjective_pairing. Qed.

Definition is_line_kind (ck : CommentKind) : bool :=
  match ck with CoK_InlineLine | CoK_IndividualLine => true | _ => false end.

Lemma block_comment_block_kind k nlb (l : bytes) n ck :
  block_comment k nlb l = (n, RTT_Comment ck) -> is_line_kind ck = false.
Proof.
  unfold block_comment, block_comment_kind. destruct (find_block_comment_end k l).
  - intros H. injection H as _ <-. destruct (contains_byte 10 _); [reflexivity|destruct nlb; reflexivity].
  - intros H. injection H as _ <-. reflexivity.
Qed.

(* comment or directive after the opening delimiter; q is the token content after that delimiter *)
Lemma cdoc_stable k nlb (q x y : bytes) ty :
  compiler_directive_or_comment k nlb (q ++ x) = TOk (length q) ty -> sep_start y ->
  (forall ck, ty = RTT_Comment ck -> is_line_kind ck = false ->
     find_block_comment_end k q = None -> all_ws y = true) ->
  ((exists c, ty = directive_token_type c) -> dir_terminated k (tl q) = false -> y = x) ->
  compiler_directive_or_comment k nlb (q ++ y) = TOk (length q) ty.
Proof.
  unfold compiler_directive_or_comment. intros H Hy Hcom Hdir.
  assert (N36 : next_is 36 (q ++ y) = next_is 36 (q ++ x)).
  { destruct q as [|d q]; [|reflexivity]. cbn [app] in *.
    rewrite (sep_start_not_eq y 36) by (try exact Hy; blia).
    destruct (next_is 36 x); [|reflexivity].
    apply tshift_inv in H. destruct H as (n' & _ & Hn). simpl in Hn. blia. }
  rewrite N36. destruct (next_is 36 (q ++ x)) eqn:E36.
  - apply tshift_inv in H. destruct H as (n' & H & Hn).
    destruct q as [|d q]; [simpl in Hn; blia|]. cbn [app tl length] in *.
    assert (n' = length q) by blia. subst n'.
    destruct (dir_terminated k q) eqn:Et.
    + rewrite (compiler_directive_terminated k q y Et).
      rewrite (compiler_directive_terminated k q x Et) in H. injection H as <-. reflexivity.
    + assert (Hty : exists c, ty = directive_token_type c).
      { unfold compiler_directive in H. cbv zeta in H.
        match type of H with context [parse_directive_end ?a ?b ?c] =>
          destruct (parse_directive_end a b c) end; try discriminate H;
          injection H as _ <-; eexists; reflexivity. }
      rewrite (Hdir Hty eq_refl). rewrite H. cbn [tshift]. reflexivity.
  - apply tok_inv in H.
    assert (Hty : exists ck, ty = RTT_Comment ck).
    { unfold block_comment in H. destruct (find_block_comment_end k (q ++ x));
        injection H as _ <-; eexists; reflexivity. }
    destruct Hty as [ck ->].
    rewrite (block_comment_stable k nlb q x y _ H
               (Hcom ck eq_refl (block_comment_block_kind _ _ _ _ _ H))).
    reflexivity.
Qed.

(* ---- operators ---- *)

Lemma op1_stable (c : byte) k1 k0 (q x y : bytes) ty : 32 < c -> c <> 227 -> sep_start y ->
  (if next_is c (q ++ x) then op 1 k1 else op 0 k0) = TOk (length q) ty ->
  (if next_is c (q ++ y) then op 1 k1 else op 0 k0) = TOk (length q) ty.
Proof.
  intros H1 H2 Hy H. destruct q as [|d [|d' q]].
  - cbn [app] in *. rewrite (sep_start_not_eq y c H1 H2 Hy).
    destruct (next_is c x); [discriminate H|exact H].
  - exact H.
  - exfalso. destruct (next_is c ((d :: d' :: q) ++ x)); discriminate H.
Qed.

Lemma op2_stable (c c' : byte) k1 k2 k0 (q x y : bytes) ty :
  32 < c -> c <> 227 -> 32 < c' -> c' <> 227 -> sep_start y ->
  (if next_is c (q ++ x) then op 1 k1 else if next_is c' (q ++ x) then op 1 k2 else op 0 k0)
    = TOk (length q) ty ->
  (if next_is c (q ++ y) then op 1 k1 else if next_is c' (q ++ y) then op 1 k2 else op 0 k0)
    = TOk (length q) ty.
Proof.
  intros H1 H2 H3 H4 Hy H. destruct q as [|d [|d' q]].
  - cbn [app] in *. rewrite (sep_start_not_eq y c H1 H2 Hy), (sep_start_not_eq y c' H3 H4 Hy).
    destruct (next_is c x); [discriminate H|]. destruct (next_is c' x); [discriminate H|exact H].
  - exact H.
  - exfalso. destruct (next_is c ((d :: d' :: q) ++ x)); [discriminate H|].
    destruct (next_is c' ((d :: d' :: q) ++ x)); discriminate H.
Qed.

Lemma op0_stable k0 (q : bytes) ty : op 0 k0 = TOk (length q) ty -> q = [].
Proof. intros H. destruct q; [reflexivity|discriminate H]. Qed.

(* ================================================================== *)
(* IV. (A) a token is determined by its own bytes once a separator follows *)

(* for a block comment / directive token with first byte b and remaining content c: the delimiter
   kind and the text after the opening delimiter *)
Definition comment_body (b : byte) (c : bytes) : BlockCommentKind * bytes :=
  if b =? 123 then (BCK_Brace, c) else (BCK_ParenStar, tl c).

(* the comment has no closing delimiter *)
Definition comment_unterminated (b : byte) (c : bytes) : bool :=
  match find_block_comment_end (fst (comment_body b c)) (snd (comment_body b c)) with
  | None => true | Some _ => false
  end.

(* the directive is complete (its own scanner ends exactly at its last byte) *)
Definition dir_content_terminated (b : byte) (c : bytes) : bool :=
  dir_terminated (fst (comment_body b c)) (tl (snd (comment_body b c))).

(* WHAT MUST FOLLOW a token with first byte b, remaining content c and type ty, for the token to be
   re-lexed identically; orig is the text that followed it originally, y the new continuation:
   - line comments; unterminated text literals:   end of input, CR or LF
       except an unterminated multi-line literal, an unterminated literal made of an odd number >= 3
       of quotes (a LF would turn it into a multi-line opener), and an asm literal ending in a
       dangling backslash:                        end of input only
   - block comments:                              a blank; if unterminated, blanks only to the end
   - directives:                                  a blank; if unterminated, exactly what followed
   - an Unknown token starting with an ampersand: an ASCII blank (ampersand U+3000 is an identifier)
   - everything else:                             a blank (byte <= 0x20 or U+3000) or end of input *)
Definition sep_ok (b : byte) (c : bytes) (ty : RawTokenType) (orig y : bytes) : Prop :=
  match ty with
  | RTT_Comment ck =>
      if is_line_kind ck then eol_sep y
      else sep_start y /\ (comment_unterminated b c = true -> all_ws y = true)
  | RTT_TextLiteral TK_Unterminated =>
      if b =? 34 then (if esc_end c then y = [] else eol_sep y)
      else if b =? 39 then (if ml_opener (c ++ [10]) then y = [] else eol_sep y)
      else eol_sep y
  | RTT_ConditionalDirective _ | RTT_CompilerDirective =>
      sep_start y /\ (dir_content_terminated b c = false -> y = orig)
  | RTT_Unknown => if b =? 38 then ascii_sep y else sep_start y
  | _ => sep_start y
  end.

Lemma sep_ok_start b c ty orig y : sep_ok b c ty orig y -> sep_start y.
Proof.
  assert (He : eol_sep y -> sep_start y) by (intros H; apply ascii_sep_start, eol_sep_ascii, H).
  unfold sep_ok. destruct ty as [| | | |[]| | | |ck| |]; try (exact (fun H => H)); try tauto.
  - destruct (b =? 34); [destruct (esc_end c); [intros ->; exact I|exact He]|].
    destruct (b =? 39); [destruct (ml_opener (c ++ [10])); [intros ->; exact I|exact He]|exact He].
  - destruct (is_line_kind ck); [exact He|tauto].
  - destruct (b =? 38); [apply ascii_sep_start|exact (fun H => H)].
Qed.

Lemma next_is_stable (c : byte) (q x y : bytes) : 32 < c -> c <> 227 -> sep_start y ->
  (next_is c (q ++ x) = true -> q <> []) -> next_is c (q ++ y) = next_is c (q ++ x).
Proof.
  intros H1 H2 Hy Hq. destruct q as [|d q]; [|reflexivity]. cbn [app] in *.
  rewrite (sep_start_not_eq y c H1 H2 Hy). destruct (next_is c x); [|reflexivity].
  exfalso. apply Hq; reflexivity.
Qed.

Lemma text_literal_ty (b : byte) (t : bytes) : exists k, snd (text_literal b t) = RTT_TextLiteral k.
Proof.
  unfold text_literal. cbv zeta. destruct (_ && _ && _); [destruct (find_sub _ _)|]; eexists; reflexivity.
Qed.

Lemma directive_token_type_cases c :
  (exists k, directive_token_type c = RTT_ConditionalDirective k) \/
  directive_token_type c = RTT_CompilerDirective.
Proof. destruct c as [k|]; [left; exists k; reflexivity|right; reflexivity]. Qed.

Lemma lex_common_stable st nlb (b : byte) (q x y : bytes) ty :
  lex_common st nlb b (q ++ x) = TOk (length q) ty -> sep_ok b q ty x y ->
  lex_common st nlb b (q ++ y) = TOk (length q) ty.
Proof.
  intros H Hs. pose proof (sep_ok_start _ _ _ _ _ Hs) as Hy.
  (* the side conditions of cdoc_stable, from sep_ok, for the brace (q1 = q) and the paren-star
     (q = 42 :: q1) forms *)
  assert (Hcd : forall k (q1 : bytes), comment_body b q = (k, q1) ->
            (forall ck, ty = RTT_Comment ck -> is_line_kind ck = false ->
               find_block_comment_end k q1 = None -> all_ws y = true) /\
            ((exists c, ty = directive_token_type c) -> dir_terminated k (tl q1) = false -> y = x)).
  { intros k q1 Eb. split.
    - intros ck -> Hl Hf. unfold sep_ok in Hs. rewrite Hl in Hs. destruct Hs as [_ Hs]. apply Hs.
      unfold comment_unterminated. rewrite Eb. cbn [fst snd]. rewrite Hf. reflexivity.
    - intros [c ->] Ht.
      assert (Hd : sep_start y /\ (dir_content_terminated b q = false -> y = x)).
      { destruct (directive_token_type_cases c) as [[k' E]|E]; rewrite E in Hs; exact Hs. }
      apply (proj2 Hd). unfold dir_content_terminated. rewrite Eb. exact Ht. }
  unfold lex_common in *.
  destruct (b =? 40) eqn:B40.
  { apply N.eqb_eq in B40. subst b.
    assert (N42 : next_is 42 (q ++ y) = next_is 42 (q ++ x)).
    { apply next_is_stable; try blia; [exact Hy|]. intros E. rewrite E in H.
      apply tshift_inv in H. destruct H as (n' & _ & Hn). destruct q; [simpl in Hn; blia|discriminate]. }
    rewrite N42. destruct (next_is 42 (q ++ x)) eqn:E42.
    - apply tshift_inv in H. destruct H as (n' & H & Hn).
      destruct q as [|d q1]; [simpl in Hn; blia|]. cbn [app tl length] in *.
      assert (n' = length q1) by blia. subst n'.
      destruct (Hcd BCK_ParenStar q1 eq_refl) as [Hc1 Hc2].
      rewrite (cdoc_stable BCK_ParenStar nlb q1 x y ty H Hy Hc1 Hc2). reflexivity.
    - apply (op1_stable _ _ _ q x y); try blia; assumption. }
  destruct (b =? 123) eqn:B123.
  { destruct (Hcd BCK_Brace q ltac:(unfold comment_body; rewrite B123; reflexivity)) as [Hc1 Hc2].
    exact (cdoc_stable BCK_Brace nlb q x y ty H Hy Hc1 Hc2). }
  destruct (b =? 47) eqn:B47.
  { assert (N47 : next_is 47 (q ++ y) = next_is 47 (q ++ x)).
    { apply next_is_stable; try blia; [exact Hy|]. intros E. rewrite E in H.
      apply tshift_inv in H. destruct H as (n' & _ & Hn). destruct q; [simpl in Hn; blia|discriminate]. }
    rewrite N47. destruct (next_is 47 (q ++ x)) eqn:E47.
    - apply tshift_inv in H. destruct H as (n' & H & Hn).
      destruct q as [|d q1]; [simpl in Hn; blia|]. cbn [app tl length] in *.
      assert (n' = length q1) by blia. subst n'.
      apply tok_inv in H. unfold line_comment in *. injection H as Hl <-.
      cbn [sep_ok is_line_kind] in Hs.
      assert (Hs' : eol_sep y) by (destruct nlb; exact Hs).
      unfold line_comment_len in *.
      rewrite (count_while_exact _ q1 x y); [reflexivity| |exact Hl].
      destruct y as [|e y]; [exact I|]. cbn [eol_sep] in Hs'. rewrite Hs'. reflexivity.
    - apply op0_stable in H as Hq. subst q. exact H. }
  destruct (b =? 58); [apply (op1_stable _ _ _ q x y); try blia; assumption|].
  destruct (b =? 60); [apply (op2_stable _ _ _ _ _ q x y); try blia; assumption|].
  destruct (b =? 62); [apply (op1_stable _ _ _ q x y); try blia; assumption|].
  destruct (b =? 46); [apply (op2_stable _ _ _ _ _ q x y); try blia; assumption|].
  do 11 (match goal with |- context [if ?c then op 0 ?k else _] =>
           destruct c; [apply op0_stable in H as Hq; subst q; exact H|] end).
  destruct ((b =? 39) || (b =? 35)) eqn:B39.
  { apply tok_inv in H. destruct (text_literal_ty b (q ++ x)) as [k Ek]. rewrite H in Ek.
    cbn [snd] in Ek. subst ty. apply orb_true_iff in B39. destruct B39 as [B|B]; apply N.eqb_eq in B; subst b.
    - rewrite (text_literal_quote_stable q x y k H); [reflexivity|].
      unfold tl_cond. destruct k; try exact I; exact Hs.
    - rewrite (text_literal_hash_stable q x y k H); [reflexivity| |].
      + intros ->. exact Hs.
      + intros ->. exact Hs. }
  destruct (b =? 38) eqn:B38.
  { apply tok_inv in H. rewrite (ampersand_stable q x y ty H); [reflexivity|].
    unfold amp_cond. destruct ty; try exact Hy. cbn [sep_ok] in Hs. rewrite B38 in Hs. exact Hs. }
  destruct (b =? 37).
  { injection H as Hl <-. unfold count_binary in *.
    rewrite (count_while_exact is_bin q x y (sep_start_not_class _ _ is_bin_printable Hy) Hl). reflexivity. }
  destruct (b =? 36).
  { injection H as Hl <-. unfold count_hex in *.
    rewrite (count_while_exact is_hex q x y (sep_start_not_class _ _ is_hex_printable Hy) Hl). reflexivity. }
  destruct (is_digit b).
  { injection H as Hl <-. rewrite (dec_number_exact q x y Hy Hl). reflexivity. }
  destruct (is_alpha b).
  { apply tok_inv in H. unfold identifier_or_keyword, find_identifier_end in *. cbv zeta in *.
    injection H as Hl <-. rewrite (ident_end_exact q x y Hy Hl), Hl, !firstn_app_exact. reflexivity. }
  destruct (b =? 95).
  { injection H as Hl <-. unfold find_identifier_end in *. rewrite (ident_end_exact q x y Hy Hl). reflexivity. }
  destruct (128 <=? b).
  { injection H as Hl <-. rewrite (unicode_identifier_exact q x y Hy Hl). reflexivity. }
  injection H as Hl <-. destruct q; [reflexivity|discriminate Hl].
Qed.

(* THEOREM (A), exact-content form: the token consists of b followed by q *)
Theorem lex_token_stable_q : forall st nlb (b : byte) (q x y : bytes) ty a,
  lex_token st nlb b (q ++ x) = Some (length q, ty, a) ->
  sep_ok b q ty x y ->
  lex_token st nlb b (q ++ y) = Some (length q, ty, a).
Proof.
  intros st nlb b q x y ty a H Hs. pose proof (sep_ok_start _ _ _ _ _ Hs) as Hy.
  assert (Hcommon : forall flag,
            match lex_common st nlb b (q ++ x) with
            | TOk n ty' => Some (n, ty', flag ty') | TFuel => None end = Some (length q, ty, a) ->
            match lex_common st nlb b (q ++ y) with
            | TOk n ty' => Some (n, ty', flag ty') | TFuel => None end = Some (length q, ty, a)).
  { intros flag Hc. destruct (lex_common st nlb b (q ++ x)) as [n ty'|] eqn:E; [|discriminate Hc].
    injection Hc as -> -> <-. rewrite (lex_common_stable st nlb b q x y ty E Hs). reflexivity. }
  unfold lex_token in *. destruct (ls_asm st).
  - destruct (b =? 64).
    { injection H as Hl <- <-. unfold asm_label in *.
      rewrite (count_while_exact is_asm_ident q x y (sep_start_not_class _ _ is_asm_ident_printable Hy) Hl).
      reflexivity. }
    destruct (b =? 34) eqn:B34.
    { cbv zeta in *. injection H as Hl Ht <-.
      assert (E : asm_text_literal (q ++ x) = (length q, ty)).
      { rewrite (surjective_pairing (asm_text_literal (q ++ x))), Hl, Ht. reflexivity. }
      rewrite (asm_text_literal_stable q x y ty E); [reflexivity|].
      intros ->. cbn [sep_ok] in Hs. rewrite B34 in Hs. exact Hs. }
    destruct (is_digit b).
    { cbv zeta in *. injection H as Hl Ht <-.
      assert (E : asm_number_literal b (q ++ x) = (length q, ty)).
      { rewrite (surjective_pairing (asm_number_literal b (q ++ x))), Hl, Ht. reflexivity. }
      rewrite (asm_number_literal_stable b q x y ty E Hy). reflexivity. }
    destruct (is_aAeE b).
    { unfold asm_identifier, find_identifier_end in *. cbv zeta in *.
      assert (Hl : ident_end_generic (q ++ x) = length q).
      { repeat match type of H with context [if ?c then _ else _] => destruct c end;
          injection H as Hl _ _; exact Hl. }
      rewrite (ident_end_exact q x y Hy Hl). rewrite Hl, firstn_app_exact in H.
      rewrite firstn_app_exact. exact H. }
    destruct (is_alpha b).
    { injection H as Hl <- <-. unfold find_identifier_end in *.
      rewrite (ident_end_exact q x y Hy Hl). reflexivity. }
    exact (Hcommon (fun _ => true) H).
  - exact (Hcommon (fun ty' => if is_alpha b then is_kw_asm ty' else false) H).
Qed.

(* THEOREM (A): lex_token_stable.  If the token at  b :: t  has n further bytes, type ty and leaves
   the asm flag at a, then the same holds for  b :: firstn n t ++ y  for every continuation y
   allowed by [sep_ok]; the state st and the flag nlb are the same on both sides. *)
Theorem lex_token_stable : forall st nlb (b : byte) (t : bytes) n ty a,
  lex_token st nlb b t = Some (n, ty, a) ->
  forall y, sep_ok b (firstn n t) ty (skipn n t) y ->
  lex_token st nlb b (firstn n t ++ y) = Some (n, ty, a).
Proof.
  intros st nlb b t n ty a H y Hs.
  destruct (lex_token_ok st nlb b t) as (n' & ty' & a' & E & Hn & _).
  rewrite E in H. injection H as -> -> ->.
  pose proof (firstn_length_le t Hn) as Hl.
  assert (E' : lex_token st nlb b (firstn n t ++ skipn n t) = Some (length (firstn n t), ty, a))
    by (rewrite firstn_skipn, Hl; exact E).
  pose proof (lex_token_stable_q st nlb b (firstn n t) (skipn n t) y ty a E' Hs) as R.
  rewrite Hl in R. exact R.
Qed.

(* ================================================================== *)
(* V. The flag nlb only selects Individual / Inline                    *)

(* the type a token gets when the flag "LF in the blanks in front, or first token" is nlb' *)
Definition retype (nlb' : bool) (ty : RawTokenType) : RawTokenType :=
  match ty with
  | RTT_Comment ck =>
      RTT_Comment
        match ck with
        | CoK_InlineLine | CoK_IndividualLine => if nlb' then CoK_IndividualLine else CoK_InlineLine
        | CoK_InlineBlock | CoK_IndividualBlock => if nlb' then CoK_IndividualBlock else CoK_InlineBlock
        | CoK_MultilineBlock => CoK_MultilineBlock
        end
  | _ => ty
  end.

Definition tres_retype (nlb' : bool) (r : tres) : tres :=
  match r with TOk n ty => TOk n (retype nlb' ty) | TFuel => TFuel end.

Definition is_comment_ty (ty : RawTokenType) : bool :=
  match ty with RTT_Comment _ => true | _ => false end.

Lemma retype_non_comment nlb' ty : is_comment_ty ty = false -> retype nlb' ty = ty.
Proof. destruct ty; try reflexivity. intros H; discriminate H. Qed.

Lemma KEYWORDS_table_no_comment : forallb (fun p => negb (is_comment_ty (snd p))) KEYWORDS_table = true.
Proof. vm_compute. reflexivity. Qed.

Lemma get_word_token_type_not_comment w : is_comment_ty (get_word_token_type w) = false.
Proof.
  unfold get_word_token_type.
  destruct (keyword_lookup_cases KEYWORDS_table w) as [[H _]|H]; [rewrite H; reflexivity|].
  pose proof KEYWORDS_table_no_comment as HT. rewrite forallb_forall in HT. specialize (HT _ H).
  apply negb_true_iff in HT. exact HT.
Qed.

Lemma cdoc_retype k nlb nlb' (l : bytes) :
  compiler_directive_or_comment k nlb' l = tres_retype nlb' (compiler_directive_or_comment k nlb l).
Proof.
  unfold compiler_directive_or_comment. destruct (next_is 36 l).
  - unfold compiler_directive. cbv zeta.
    match goal with |- context [parse_directive_end ?a ?b ?c] => destruct (parse_directive_end a b c) end;
      cbn [tshift tres_retype]; try reflexivity;
      destruct (conditional_directive_kind _); reflexivity.
  - unfold block_comment, block_comment_kind, tok. destruct (find_block_comment_end k l); cbn [fst snd tres_retype retype].
    + destruct (contains_byte 10 _); [reflexivity|]. destruct nlb, nlb'; reflexivity.
    + reflexivity.
Qed.

Lemma tshift_retype k nlb' r : tshift k (tres_retype nlb' r) = tres_retype nlb' (tshift k r).
Proof. destruct r; reflexivity. Qed.

Lemma lex_common_retype st nlb nlb' (b : byte) (t : bytes) :
  lex_common st nlb' b t = tres_retype nlb' (lex_common st nlb b t).
Proof.
  unfold lex_common.
  destruct (b =? 40).
  { destruct (next_is 42 t); [rewrite (cdoc_retype _ nlb nlb'), tshift_retype; reflexivity|].
    destruct (next_is 46 t); reflexivity. }
  destruct (b =? 123); [apply cdoc_retype|].
  destruct (b =? 47).
  { destruct (next_is 47 t); [|reflexivity]. unfold line_comment, tok. cbn [fst snd tshift tres_retype retype].
    destruct nlb, nlb'; reflexivity. }
  destruct (b =? 58); [destruct (next_is 61 t); reflexivity|].
  destruct (b =? 60); [destruct (next_is 61 t); [|destruct (next_is 62 t)]; reflexivity|].
  destruct (b =? 62); [destruct (next_is 61 t); reflexivity|].
  destruct (b =? 46); [destruct (next_is 46 t); [|destruct (next_is 41 t)]; reflexivity|].
  do 11 (match goal with |- context [if ?c then op 0 ?k else _] => destruct c; [reflexivity|] end).
  destruct ((b =? 39) || (b =? 35)).
  { unfold tok. cbn [tres_retype]. destruct (text_literal_ty b t) as [k Ek]. rewrite Ek. reflexivity. }
  destruct (b =? 38).
  { unfold tok. cbn [tres_retype]. f_equal. symmetry. apply retype_non_comment.
    unfold ampersand. destruct (skipn _ t); [reflexivity|].
    repeat match goal with |- context [if ?e then _ else _] => destruct e end; reflexivity. }
  destruct (b =? 37); [reflexivity|]. destruct (b =? 36); [reflexivity|].
  destruct (is_digit b); [reflexivity|].
  destruct (is_alpha b).
  { unfold tok, identifier_or_keyword. cbn [fst snd tres_retype]. f_equal. symmetry.
    apply retype_non_comment. destruct (prev_is_dot st); [reflexivity|apply get_word_token_type_not_comment]. }
  destruct (b =? 95); [reflexivity|]. destruct (128 <=? b); reflexivity.
Qed.

(* changing the flag changes nothing but the Individual / Inline kind of a comment *)
Theorem lex_token_nlb : forall st nlb nlb' (b : byte) (t : bytes) n ty a,
  lex_token st nlb b t = Some (n, ty, a) ->
  lex_token st nlb' b t = Some (n, retype nlb' ty, a).
Proof.
  intros st nlb nlb' b t n ty a H. unfold lex_token in *.
  rewrite (lex_common_retype st nlb nlb').
  assert (Hid : forall r : nat * RawTokenType, is_comment_ty (snd r) = false ->
            forall fl, Some (fst r, snd r, fl) = Some (n, ty, a) ->
            Some (fst r, snd r, fl) = Some (n, retype nlb' ty, a)).
  { intros r Hr fl E. injection E as <- <- <-. rewrite (retype_non_comment _ _ Hr). reflexivity. }
  destruct (ls_asm st).
  - destruct (b =? 64); [injection H as <- <- <-; reflexivity|].
    destruct (b =? 34).
    { cbv zeta in *. apply Hid; [|exact H].
      destruct (asm_text_literal_ok t) as [_ _].
      assert (Hk : exists k, snd (asm_text_literal t) = RTT_TextLiteral k).
      { clear. remember (length t) as m eqn:Hm. assert (Hle : (length t <= m)%nat) by blia. clear Hm.
        revert t Hle. induction m as [|m IH]; intros t Hle.
        - destruct t; [eexists; reflexivity|simpl in Hle; blia].
        - destruct t as [|c t1]; [eexists; reflexivity|]. rewrite asm_text_literal_unfold.
          destruct (c =? 92).
          + destruct t1 as [|d t2]; [eexists; reflexivity|]. cbn [snd]. apply IH. simpl in Hle. blia.
          + destruct (c =? 34); [eexists; reflexivity|].
            destruct ((c =? 10) || (c =? 13)); [eexists; reflexivity|]. cbn [snd]. apply IH. simpl in Hle. blia. }
      destruct Hk as [k ->]. reflexivity. }
    destruct (is_digit b).
    { cbv zeta in *. apply Hid; [|exact H]. unfold asm_number_literal.
      repeat match goal with |- context [if ?e then _ else _] => destruct e end; reflexivity. }
    destruct (is_aAeE b).
    { unfold asm_identifier in *.
      repeat match type of H with context [if ?e then _ else _] => destruct e end;
        injection H as <- <- <-; reflexivity. }
    destruct (is_alpha b); [injection H as <- <- <-; reflexivity|].
    destruct (lex_common st nlb b t) as [n0 ty0|]; [|discriminate H].
    injection H as <- <- <-. reflexivity.
  - destruct (lex_common st nlb b t) as [n0 ty0|]; [|discriminate H].
    injection H as <- <- <-. cbn [tres_retype].
    destruct (is_alpha b) eqn:Ea; [|reflexivity].
    destruct ty0; reflexivity.
Qed.

Lemma lex_token_retype_same st nlb (b : byte) (t : bytes) n ty a :
  lex_token st nlb b t = Some (n, ty, a) -> retype nlb ty = ty.
Proof.
  intros H. pose proof (lex_token_nlb st nlb nlb b t n ty a H) as H'. rewrite H in H'.
  injection H' as E. symmetry. exact E.
Qed.

(* the successor state depends on the type only through "is a comment or directive", which retype
   preserves: the state sequence of a file does not depend on the blanks *)
Lemma next_state_retype st nlb' ty a : next_state st (retype nlb' ty) a = next_state st ty a.
Proof. destruct ty; reflexivity. Qed.

Lemma sep_ok_retype nlb' b c ty orig y : sep_ok b c (retype nlb' ty) orig y <-> sep_ok b c ty orig y.
Proof. destruct ty as [| | | | | | | |[]| |]; destruct nlb'; cbn [retype sep_ok is_line_kind]; tauto. Qed.

(* the asm flag after a token is a function of the mode and the token type *)
Definition asm_after (asm : bool) (ty : RawTokenType) : bool :=
  if asm then match ty with RTT_Keyword KK_End => false | _ => true end
  else is_kw_asm ty.

Definition is_kw_ty (ty : RawTokenType) : bool := match ty with RTT_Keyword _ => true | _ => false end.

Lemma asm_text_literal_ty (t : bytes) : exists k, snd (asm_text_literal t) = RTT_TextLiteral k.
Proof.
  remember (length t) as m eqn:Hm. assert (Hle : (length t <= m)%nat) by blia. clear Hm.
  revert t Hle. induction m as [|m IH]; intros t Hle.
  - destruct t; [eexists; reflexivity|simpl in Hle; blia].
  - destruct t as [|c t1]; [eexists; reflexivity|]. rewrite asm_text_literal_unfold.
    destruct (c =? 92).
    + destruct t1 as [|d t2]; [eexists; reflexivity|]. cbn [snd]. apply IH. simpl in Hle. blia.
    + destruct (c =? 34); [eexists; reflexivity|].
      destruct ((c =? 10) || (c =? 13)); [eexists; reflexivity|]. cbn [snd]. apply IH. simpl in Hle. blia.
Qed.

Lemma cdoc_not_kw k nlb (l : bytes) n ty :
  compiler_directive_or_comment k nlb l = TOk n ty -> is_kw_ty ty = false.
Proof.
  unfold compiler_directive_or_comment. destruct (next_is 36 l).
  - intros H. apply tshift_inv in H. destruct H as (n' & H & _). unfold compiler_directive in H. cbv zeta in H.
    match type of H with context [parse_directive_end ?a ?b ?c] => destruct (parse_directive_end a b c) end;
      try discriminate H; injection H as _ <-; destruct (conditional_directive_kind _); reflexivity.
  - intros H. apply tok_inv in H. unfold block_comment in H.
    destruct (find_block_comment_end k l); injection H as _ <-; reflexivity.
Qed.

Lemma lex_common_non_alpha_not_kw st nlb (b : byte) (t : bytes) n ty :
  is_alpha b = false -> lex_common st nlb b t = TOk n ty -> is_kw_ty ty = false.
Proof.
  intros Ha. unfold lex_common. rewrite Ha.
  destruct (b =? 40).
  { destruct (next_is 42 t).
    - intros H. apply tshift_inv in H. destruct H as (n' & H & _). exact (cdoc_not_kw _ _ _ _ _ H).
    - destruct (next_is 46 t); intros H; injection H as _ <-; reflexivity. }
  destruct (b =? 123); [apply cdoc_not_kw|].
  destruct (b =? 47).
  { destruct (next_is 47 t); intros H; [apply tshift_inv in H; destruct H as (n' & H & _);
      apply tok_inv in H; injection H as _ <-; reflexivity|injection H as _ <-; reflexivity]. }
  destruct (b =? 58); [destruct (next_is 61 t); intros H; injection H as _ <-; reflexivity|].
  destruct (b =? 60); [destruct (next_is 61 t); [|destruct (next_is 62 t)]; intros H; injection H as _ <-; reflexivity|].
  destruct (b =? 62); [destruct (next_is 61 t); intros H; injection H as _ <-; reflexivity|].
  destruct (b =? 46); [destruct (next_is 46 t); [|destruct (next_is 41 t)]; intros H; injection H as _ <-; reflexivity|].
  do 11 (match goal with |- context [if ?c then op 0 ?k else _] =>
           destruct c; [intros H; injection H as _ <-; reflexivity|] end).
  destruct ((b =? 39) || (b =? 35)).
  { intros H. apply tok_inv in H. destruct (text_literal_ty b t) as [k Ek]. rewrite H in Ek.
    cbn [snd] in Ek. subst ty. reflexivity. }
  destruct (b =? 38).
  { intros H. apply tok_inv in H. unfold ampersand in H. destruct (skipn _ t); [injection H as _ <-; reflexivity|].
    repeat match type of H with context [if ?e then _ else _] => destruct e end;
      injection H as _ <-; reflexivity. }
  repeat match goal with |- context [if ?e then _ else _] =>
           destruct e; [intros H; injection H as _ <-; reflexivity|] end.
  intros H; injection H as _ <-; reflexivity.
Qed.

(* the asm flag after a token is determined by the mode and the token's type: together with
   [next_state_retype] the whole state sequence is a function of the type sequence *)
Theorem lex_token_asm_flag : forall st nlb (b : byte) (t : bytes) n ty a,
  lex_token st nlb b t = Some (n, ty, a) -> a = asm_after (ls_asm st) ty.
Proof.
  intros st nlb b t n ty a H. unfold lex_token, asm_after in *. destruct (ls_asm st).
  - destruct (b =? 64); [injection H as _ <- <-; reflexivity|].
    destruct (b =? 34).
    { cbv zeta in H. injection H as _ <- <-. destruct (asm_text_literal_ty t) as [k ->]. reflexivity. }
    destruct (is_digit b).
    { cbv zeta in H. injection H as _ <- <-. unfold asm_number_literal.
      repeat match goal with |- context [if ?e then _ else _] => destruct e end; reflexivity. }
    destruct (is_aAeE b).
    { unfold asm_identifier in H.
      repeat match type of H with context [if ?e then _ else _] => destruct e end;
        injection H as _ <- <-; reflexivity. }
    destruct (is_alpha b) eqn:Ea; [injection H as _ <- <-; reflexivity|].
    destruct (lex_common st nlb b t) as [n0 ty0|] eqn:E; [|discriminate H].
    injection H as _ <- <-. pose proof (lex_common_non_alpha_not_kw _ _ _ _ _ _ Ea E) as Hk.
    destruct ty0; try reflexivity. discriminate Hk.
  - destruct (lex_common st nlb b t) as [n0 ty0|] eqn:E; [|discriminate H].
    injection H as _ <- <-. destruct (is_alpha b) eqn:Ea; [reflexivity|].
    pose proof (lex_common_non_alpha_not_kw _ _ _ _ _ _ Ea E) as Hk.
    destruct ty0; try reflexivity. discriminate Hk.
Qed.

(* ================================================================== *)
(* VI. (C) the generic re-layout theorem                               *)

(* [lexes_as st nlb allowed c ty a]: the content c, placed at a token start in state st with flag
   nlb and followed by any continuation in [allowed], is lexed as exactly one token of type ty that
   leaves the asm flag at a *)
Definition lexes_as (st : lstate) (nlb : bool) (allowed : bytes -> Prop) (c : bytes)
    (ty : RawTokenType) (a : bool) : Prop :=
  exists (b : byte) (q : bytes),
    c = b :: q /\ (b <=? 32) = false /\ is_u3000_at c = false /\
    forall y, allowed y -> sep_start y /\ lex_token st nlb b (q ++ y) = Some (length q, ty, a).

Definition flatten (segs : list seg) : bytes := concat (map seg_bytes segs).

(* a planned file: blanks, contents and types, each content lexing as planned in the state reached *)
Inductive relayout : lstate -> list seg -> Prop :=
| rl_eof st ws : all_blank ws -> relayout st [(ws, [], RTT_Eof)]
| rl_tok st ws c ty a (allowed : bytes -> Prop) rest :
    all_blank ws ->
    lexes_as st (contains_byte 10 ws || ls_first st) allowed c ty a ->
    allowed (flatten rest) ->
    relayout (next_state st ty a) rest ->
    relayout st ((ws, c, ty) :: rest).

Lemma is_u3000_at_app_sep (b : byte) (q y : bytes) :
  is_u3000_at (b :: q) = false -> sep_start y -> is_u3000_at (b :: q ++ y) = false.
Proof.
  intros H Hy. pose proof (is_u3000_at_sep b q y (length q) (le_n _) Hy H) as R.
  rewrite firstn_all in R. exact R.
Qed.

(* THEOREM (C): a planned file lexes as planned *)
Theorem relayout_lex : forall st segs, relayout st segs ->
  lex_from st (flatten segs) = Some (map seg_lens segs).
Proof.
  intros st segs H. induction H as [st ws Hws|st ws c ty a allowed rest Hws Hl Hal Hr IH].
  - unfold flatten. cbn [map seg_bytes concat seg_lens]. rewrite !app_nil_r.
    apply lex_from_steps. apply ls_eof. exact Hws.
  - destruct Hl as (b & q & -> & Hb & Hu & Hlex). destruct (Hlex _ Hal) as [Hsep Htok].
    unfold flatten in *. cbn [map seg_bytes concat seg_lens length].
    rewrite <- app_assoc. cbn [app].
    apply lex_from_steps.
    apply (ls_tok st ws b (q ++ concat (map seg_bytes rest)) (length q) ty a (map seg_lens rest)).
    + exact Hws.
    + split; [exact Hb|]. apply is_u3000_at_app_sep; assumption.
    + exact Htok.
    + rewrite app_length. blia.
    + rewrite skipn_app_exact. exact (lex_loop_steps _ _ _ _ IH).
Qed.

(* ================================================================== *)
(* VII. (B) re-spacing a lexed file                                    *)

Definition is_eof_ty (ty : RawTokenType) : bool := match ty with RTT_Eof => true | _ => false end.

(* the new blank string w is non-empty unless it stands in front of Eof *)
Definition blank_gap (w : bytes) (last : bool) : Prop := w <> [] \/ last = true.

(* THE GAP CONDITION: what the new blank string w_new after a token (first byte b, remaining content
   c, type ty; originally followed by the blank string w_orig) must satisfy; last = the next token is
   Eof.  It is [sep_ok] expressed on the blank string alone. *)
Definition gap_ok (b : byte) (c : bytes) (ty : RawTokenType) (w_orig w_new : bytes) (last : bool) : Prop :=
  match ty with
  | RTT_Comment ck =>
      if is_line_kind ck then eol_sep w_new /\ blank_gap w_new last
      else if comment_unterminated b c then last = true else blank_gap w_new last
  | RTT_TextLiteral TK_Unterminated =>
      if b =? 34 then
        (if esc_end c then w_new = [] /\ last = true else eol_sep w_new /\ blank_gap w_new last)
      else if b =? 39 then
        (if ml_opener (c ++ [10]) then w_new = [] /\ last = true else eol_sep w_new /\ blank_gap w_new last)
      else eol_sep w_new /\ blank_gap w_new last
  | RTT_ConditionalDirective _ | RTT_CompilerDirective =>
      if dir_content_terminated b c then blank_gap w_new last else w_new = w_orig /\ last = true
  | RTT_Unknown => if b =? 38 then ascii_sep w_new /\ blank_gap w_new last else blank_gap w_new last
  | _ => blank_gap w_new last
  end.

Lemma all_blank_app_sep (w z : bytes) : all_blank w -> w <> [] -> sep_start (w ++ z).
Proof.
  intros Hw Hne. destruct w as [|d w]; [contradiction Hne; reflexivity|].
  destruct (all_ws_cons_inv d w (all_blank_all_ws _ Hw)) as [H|H]; [left; exact H|].
  right. unfold is_u3000_at in *. cbn [app].
  change (d :: w ++ z) with ((d :: w) ++ z). rewrite is_prefix_app_long; [exact H|].
  apply is_prefix_length. exact H.
Qed.

Lemma gap_sep_ok (b : byte) (c : bytes) ty (wo w zo z : bytes) last :
  all_blank w -> (last = true -> z = [] /\ zo = []) ->
  gap_ok b c ty wo w last -> sep_ok b c ty (wo ++ zo) (w ++ z).
Proof.
  intros Hw Hlast.
  assert (Fs : blank_gap w last -> sep_start (w ++ z)).
  { intros [H|H]; [apply all_blank_app_sep; assumption|].
    destruct (Hlast H) as [-> _]. rewrite app_nil_r.
    apply all_ws_sep_start, all_blank_all_ws, Hw. }
  assert (Fe : eol_sep w /\ blank_gap w last -> eol_sep (w ++ z)).
  { intros [H1 [H2|H2]].
    - destruct w; [contradiction H2; reflexivity|exact H1].
    - destruct (Hlast H2) as [-> _]. rewrite app_nil_r. exact H1. }
  assert (Fa : ascii_sep w /\ blank_gap w last -> ascii_sep (w ++ z)).
  { intros [H1 [H2|H2]].
    - destruct w; [contradiction H2; reflexivity|exact H1].
    - destruct (Hlast H2) as [-> _]. rewrite app_nil_r. exact H1. }
  assert (Fn : w = [] /\ last = true -> w ++ z = []).
  { intros [-> H]. destruct (Hlast H) as [-> _]. reflexivity. }
  unfold gap_ok, sep_ok. destruct ty as [| | | |[]| | | |ck| |]; try exact Fs.
  - destruct (b =? 34); [destruct (esc_end c); [exact Fn|exact Fe]|].
    destruct (b =? 39); [destruct (ml_opener (c ++ [10])); [exact Fn|exact Fe]|exact Fe].
  - destruct (dir_content_terminated b c).
    + intros H. split; [exact (Fs H)|intros Hx; discriminate Hx].
    + intros [-> H]. destruct (Hlast H) as [-> ->]. split; [|reflexivity].
      rewrite app_nil_r. apply all_ws_sep_start, all_blank_all_ws, Hw.
  - destruct (dir_content_terminated b c).
    + intros H. split; [exact (Fs H)|intros Hx; discriminate Hx].
    + intros [-> H]. destruct (Hlast H) as [-> ->]. split; [|reflexivity].
      rewrite app_nil_r. apply all_ws_sep_start, all_blank_all_ws, Hw.
  - destruct (is_line_kind ck); [exact Fe|].
    destruct (comment_unterminated b c).
    + intros H. destruct (Hlast H) as [-> _]. rewrite app_nil_r.
      split; [apply all_ws_sep_start, all_blank_all_ws, Hw|intros _; apply all_blank_all_ws, Hw].
    + intros H. split; [exact (Fs H)|intros Hx; discriminate Hx].
  - destruct (b =? 38); [exact Fa|exact Fs].
Qed.

(* the previous token, whose separator requirement the current blank string must meet *)
Inductive prevtok := PNone | PSome (b : byte) (q : bytes) (ty : RawTokenType).

Definition prev_allowed (p : prevtok) (orig y : bytes) : Prop :=
  match p with PNone => True | PSome b q ty => sep_ok b q ty orig y end.

Definition prev_gap (p : prevtok) (wo w : bytes) (last : bool) : Prop :=
  match p with PNone => True | PSome b q ty => gap_ok b q ty wo w last end.

(* the new blank strings ws', one per token (Eof included), against the segments of the file *)
Fixpoint gaps_ok (p : prevtok) (ws' : list bytes) (segs : list seg) : Prop :=
  match ws', segs with
  | [], [] => True
  | w :: ws'', (wo, c, ty) :: rest =>
      all_blank w /\ prev_gap p wo w (is_eof_ty ty) /\
      gaps_ok (PSome (hd 0 c) (tl c) ty) ws'' rest
  | _, _ => False
  end.

(* the re-spaced file: new blanks, old contents, types adjusted to the new LF flags *)
Fixpoint respace (first : bool) (ws' : list bytes) (segs : list seg) : list seg :=
  match ws', segs with
  | w :: ws'', (_, c, ty) :: rest =>
      (w, c, retype (contains_byte 10 w || first) ty) :: respace false ws'' rest
  | _, _ => []
  end.

Lemma segments_tok_steps (ws : bytes) (b : byte) (t : bytes) n ty toks : (n <= length t)%nat ->
  segments ((length ws, S n, ty) :: toks) (ws ++ b :: t) =
  (ws, b :: firstn n t, ty) :: segments toks (skipn n t).
Proof.
  intros Hn. pose proof (segments_tok ws b (firstn n t) (skipn n t) ty toks) as H.
  rewrite firstn_length_le in H by exact Hn.
  etransitivity; [|exact H]. f_equal. cbn [app]. rewrite firstn_skipn. reflexivity.
Qed.

Lemma respace_relayout : forall st toks l, lex_steps st toks l ->
  forall p ws', gaps_ok p ws' (segments toks l) ->
  relayout st (respace (ls_first st) ws' (segments toks l)) /\
  prev_allowed p l (flatten (respace (ls_first st) ws' (segments toks l))).
Proof.
  intros st toks l H. induction H as [st ws Hws|st ws b t n ty a toks Hws Hst E Hn H IH]; intros p ws' Hg.
  - rewrite segments_eof in *. destruct ws' as [|w [|w2 ws'']]; cbn [gaps_ok] in Hg; try tauto.
    destruct Hg as (Hw & Hp & _). cbn [respace retype]. split; [apply rl_eof; exact Hw|].
    destruct p as [|b q ty]; [exact I|]. cbn [prev_allowed prev_gap is_eof_ty] in *.
    unfold flatten. cbn [map seg_bytes concat].
    pose proof (gap_sep_ok b q ty ws w [] [] true Hw ltac:(intros _; split; reflexivity) Hp) as R.
    rewrite !app_nil_r in *. exact R.
  - rewrite (segments_tok_steps ws b t n ty toks Hn) in *.
    destruct ws' as [|w ws'']; [contradiction Hg|]. cbn [gaps_ok hd tl] in Hg.
    destruct Hg as (Hw & Hp & Hg).
    destruct (IH (PSome b (firstn n t) ty) ws'' Hg) as [IH1 IH2].
    cbn [next_state ls_first] in IH1, IH2. cbn [prev_allowed] in IH2.
    cbn [respace].
    set (nlb' := contains_byte 10 w || ls_first st).
    set (rest' := respace false ws'' (segments toks (skipn n t))) in *.
    assert (Hty : ty <> RTT_Eof).
    { destruct (lex_token_ok st (contains_byte 10 ws || ls_first st) b t) as (n0 & ty0 & a0 & E0 & _ & Hne).
      rewrite E in E0. injection E0 as _ <- _. exact Hne. }
    split.
    + apply (rl_tok st w (b :: firstn n t) (retype nlb' ty) a
               (sep_ok b (firstn n t) ty (skipn n t)) rest' Hw).
      * exists b, (firstn n t). split; [reflexivity|]. split; [exact (proj1 Hst)|]. split.
        { pose proof (is_u3000_at_sep b t [] n Hn I (proj2 Hst)) as R. rewrite app_nil_r in R. exact R. }
        intros y Hy. split; [exact (sep_ok_start _ _ _ _ _ Hy)|].
        pose proof (lex_token_nlb st _ nlb' b t n ty a E) as E'.
        pose proof (lex_token_stable st nlb' b t n (retype nlb' ty) a E' y
                      (proj2 (sep_ok_retype nlb' _ _ _ _ _) Hy)) as R.
        rewrite firstn_length_le by exact Hn. exact R.
      * exact IH2.
      * rewrite next_state_retype. exact IH1.
    + destruct p as [|b0 q0 ty0]; [exact I|]. cbn [prev_allowed prev_gap] in *.
      assert (El : is_eof_ty ty = false) by (destruct ty; try reflexivity; contradiction Hty; reflexivity).
      rewrite El in Hp. unfold flatten. cbn [map seg_bytes concat]. rewrite <- app_assoc.
      apply (gap_sep_ok b0 q0 ty0 ws w (b :: t) _ false Hw); [intros Hx; discriminate Hx|exact Hp].
Qed.

(* THEOREM (B): lex_relayout.  Re-spacing a lexed file with blank strings that satisfy the gap
   conditions yields exactly the planned tokens: new blank lengths, old content lengths, old types up
   to the Individual/Inline adjustment [retype] determined by the new blanks. *)
Theorem lex_relayout : forall s toks ws',
  lex s = Some toks ->
  gaps_ok PNone ws' (segments toks s) ->
  lex (flatten (respace true ws' (segments toks s))) =
  Some (map seg_lens (respace true ws' (segments toks s))).
Proof.
  intros s toks ws' H Hg. rewrite lex_is_lex_from. apply relayout_lex.
  exact (proj1 (respace_relayout _ _ _ (lex_steps_sound _ _ H) PNone ws' Hg)).
Qed.

(* the same for any suffix lexed from any state *)
Theorem lex_from_relayout : forall st l toks ws',
  lex_from st l = Some toks ->
  gaps_ok PNone ws' (segments toks l) ->
  lex_from st (flatten (respace (ls_first st) ws' (segments toks l))) =
  Some (map seg_lens (respace (ls_first st) ws' (segments toks l))).
Proof.
  intros st l toks ws' H Hg. apply relayout_lex.
  exact (proj1 (respace_relayout _ _ _ (lex_loop_steps _ _ _ _ H) PNone ws' Hg)).
Qed.

(* when every new blank string contains a LF iff the old one did, the types are unchanged *)
Fixpoint same_lf (ws' : list bytes) (segs : list seg) : Prop :=
  match ws', segs with
  | w :: ws'', (wo, _, _) :: rest => contains_byte 10 w = contains_byte 10 wo /\ same_lf ws'' rest
  | _, _ => True
  end.

Definition seg_ty (p : seg) : RawTokenType := match p with (_, _, ty) => ty end.

Lemma respace_same_types : forall st toks l, lex_steps st toks l ->
  forall ws', same_lf ws' (segments toks l) -> length ws' = length toks ->
  map seg_ty (respace (ls_first st) ws' (segments toks l)) = map seg_ty (segments toks l).
Proof.
  intros st toks l H. induction H as [st ws Hws|st ws b t n ty a toks Hws Hst E Hn H IH]; intros ws' Hlf Hlen.
  - rewrite segments_eof in *. destruct ws' as [|w [|? ?]]; try discriminate Hlen. reflexivity.
  - rewrite (segments_tok_steps ws b t n ty toks Hn) in *.
    destruct ws' as [|w ws'']; [discriminate Hlen|]. cbn [same_lf] in Hlf. destruct Hlf as [Hl Hlf].
    cbn [respace map seg_ty]. rewrite Hl, (lex_token_retype_same _ _ _ _ _ _ _ E). f_equal.
    apply (IH ws'' Hlf). simpl in Hlen. blia.
Qed.

(* ================================================================== *)
(* VIII. (C) contents may be replaced: the formatter's normalisations  *)

(* tokens produced by the lexer lex as themselves (this is (A)) *)
Lemma lexes_as_of_lex st nlb (b : byte) (t : bytes) n ty a :
  lex_token st nlb b t = Some (n, ty, a) -> tok_start b t ->
  lexes_as st nlb (sep_ok b (firstn n t) ty (skipn n t)) (b :: firstn n t) ty a.
Proof.
  intros E Hst. destruct (lex_token_ok st nlb b t) as (n0 & ty0 & a0 & E0 & Hn & _).
  rewrite E in E0. injection E0 as <- <- <-.
  exists b, (firstn n t). split; [reflexivity|]. split; [exact (proj1 Hst)|]. split.
  { pose proof (is_u3000_at_sep b t [] n Hn I (proj2 Hst)) as R. rewrite app_nil_r in R. exact R. }
  intros y Hy. split; [exact (sep_ok_start _ _ _ _ _ Hy)|].
  rewrite firstn_length_le by exact Hn. exact (lex_token_stable st nlb b t n ty a E y Hy).
Qed.

(* ---- (i) lower-casing a word ---- *)

Lemma to_lower_class c :
  is_alpha (to_lower c) = is_alpha c /\ is_digit (to_lower c) = is_digit c /\
  (to_lower c =? 95) = (c =? 95) /\ (128 <=? to_lower c) = (128 <=? c).
Proof.
  unfold to_lower. destruct (is_upper c) eqn:U; [|repeat split; reflexivity].
  unfold is_upper in U. b2p U.
  unfold is_alpha, is_upper, is_lower, is_digit.
  replace (65 <=? c) with true by (symmetry; apply N.leb_le; blia).
  replace (c <=? 90) with true by (symmetry; apply N.leb_le; blia).
  replace (97 <=? c + 32) with true by (symmetry; apply N.leb_le; blia).
  replace (c + 32 <=? 122) with true by (symmetry; apply N.leb_le; blia).
  replace (c + 32 <=? 57) with false by (symmetry; apply N.leb_gt; blia).
  replace (c <=? 57) with false by (symmetry; apply N.leb_gt; blia).
  replace (c + 32 =? 95) with false by (symmetry; apply N.eqb_neq; blia).
  replace (c =? 95) with false by (symmetry; apply N.eqb_neq; blia).
  replace (128 <=? c + 32) with false by (symmetry; apply N.leb_gt; blia).
  replace (128 <=? c) with false by (symmetry; apply N.leb_gt; blia).
  rewrite !andb_false_r, !orb_true_r. repeat split; reflexivity.
Qed.

Lemma to_lower_eqb_hi' c k : 123 <= k -> (k =? to_lower c) = (k =? c).
Proof. intros H. rewrite (N.eqb_sym k (to_lower c)), (N.eqb_sym k c). apply to_lower_eqb_hi. exact H. Qed.

Lemma is_u3000_at_lower (q y : bytes) : is_u3000_at (lower q ++ y) = is_u3000_at (q ++ y).
Proof.
  unfold is_u3000_at, lower. destruct q as [|c [|d [|e q]]]; cbn [map app is_prefix];
    rewrite ?to_lower_eqb_hi' by blia; reflexivity.
Qed.

Lemma ident_byte_lower (q y : bytes) : ident_byte (lower q ++ y) = ident_byte (q ++ y).
Proof.
  destruct q as [|c q]; [reflexivity|]. unfold ident_byte.
  change (lower (c :: q) ++ y) with (to_lower c :: lower q ++ y).
  change ((c :: q) ++ y) with (c :: q ++ y).
  pose proof (is_u3000_at_lower (c :: q) y) as Hu.
  change (lower (c :: q) ++ y) with (to_lower c :: lower q ++ y) in Hu.
  change ((c :: q) ++ y) with (c :: q ++ y) in Hu. rewrite Hu.
  destruct (to_lower_class c) as (H1 & H2 & H3 & H4).
  unfold is_ident_ascii, is_alnum. rewrite H1, H2, H3, H4. reflexivity.
Qed.

Lemma ident_end_generic_lower : forall (q y : bytes),
  ident_end_generic (lower q ++ y) = ident_end_generic (q ++ y).
Proof.
  induction q as [|c q IH]; intros y; [reflexivity|].
  change (lower (c :: q) ++ y) with (to_lower c :: lower q ++ y).
  change ((c :: q) ++ y) with (c :: q ++ y).
  rewrite !ident_end_generic_step.
  pose proof (ident_byte_lower (c :: q) y) as Hb.
  change (lower (c :: q) ++ y) with (to_lower c :: lower q ++ y) in Hb.
  change ((c :: q) ++ y) with (c :: q ++ y) in Hb. bnorm. rewrite Hb, IH. reflexivity.
Qed.

Lemma lower_length (q : bytes) : length (lower q) = length q.
Proof. apply map_length. Qed.

Lemma firstn_lower_app (q y : bytes) : firstn (length q) (lower q ++ y) = lower q.
Proof. rewrite <- (lower_length q). apply firstn_app_exact. Qed.

(* a word token starting with an ASCII letter is lexed the same after lower-casing its content:
   same length, same type (keywords are matched case-insensitively), same asm flag *)
Lemma lex_token_lower_word st nlb (b : byte) (q y : bytes) ty a :
  is_alpha b = true ->
  lex_token st nlb b (q ++ y) = Some (length q, ty, a) ->
  lex_token st nlb (to_lower b) (lower q ++ y) = Some (length q, ty, a).
Proof.
  intros Ha H. destruct (to_lower_class b) as (H1 & H2 & _ & _).
  assert (Hw : lower (to_lower b :: lower q) = lower (b :: q)).
  { change (to_lower b :: lower q) with (lower (b :: q)). apply lower_idem. }
  assert (Hae : is_aAeE (to_lower b) = is_aAeE b).
  { unfold is_aAeE, to_lower. destruct (is_upper b) eqn:U; [|reflexivity].
    unfold is_upper in U. b2p U.
    destruct (b =? 65) eqn:E65; [apply N.eqb_eq in E65; subst b; reflexivity|].
    destruct (b =? 69) eqn:E69; [apply N.eqb_eq in E69; subst b; reflexivity|].
    apply N.eqb_neq in E65, E69.
    replace (b + 32 =? 97) with false by (symmetry; apply N.eqb_neq; blia).
    replace (b + 32 =? 65) with false by (symmetry; apply N.eqb_neq; blia).
    replace (b + 32 =? 101) with false by (symmetry; apply N.eqb_neq; blia).
    replace (b + 32 =? 69) with false by (symmetry; apply N.eqb_neq; blia).
    replace (b =? 97) with false by (symmetry; apply N.eqb_neq; blia).
    replace (b =? 101) with false by (symmetry; apply N.eqb_neq; blia). reflexivity. }
  assert (Hd : is_digit b = false).
  { destruct (is_digit b) eqn:E; [|reflexivity]. apply is_digit_range in E. apply is_alpha_range in Ha. blia. }
  assert (Hne : forall k, k = 64 \/ k = 34 -> (b =? k) = false /\ (to_lower b =? k) = false).
  { intros k Hk. assert (Hal : is_alpha (to_lower b) = true) by (rewrite H1; exact Ha).
    apply is_alpha_range in Ha, Hal. split; apply N.eqb_neq; blia. }
  destruct (Hne 64 (or_introl eq_refl)) as [N1 N2]. destruct (Hne 34 (or_intror eq_refl)) as [N3 N4].
  unfold lex_token in *. rewrite N2, N4, H2, Hd, Hae, H1, Ha. rewrite N1, N3, Hd, Ha in H.
  assert (Hlen : ident_end_generic (q ++ y) = length q ->
            ident_end_generic (lower q ++ y) = length q) by (rewrite ident_end_generic_lower; exact (fun E => E)).
  destruct (ls_asm st).
  - destruct (is_aAeE b).
    + unfold asm_identifier, find_identifier_end, eq_ignore_case in *. cbv zeta in *.
      assert (Hl : ident_end_generic (q ++ y) = length q).
      { repeat match type of H with context [if ?c then _ else _] => destruct c end;
          injection H as Hl _ _; exact Hl. }
      rewrite (Hlen Hl). rewrite Hl, firstn_app_exact in H.
      pose proof (firstn_lower_app q y) as Hfl. bnorm. rewrite Hfl, Hw. exact H.
    + injection H as Hl <- <-. unfold find_identifier_end in *. rewrite (Hlen Hl). reflexivity.
  - assert (Hal : is_alpha (to_lower b) = true) by (rewrite H1; exact Ha).
    rewrite (lex_common_alpha st nlb b _ Ha) in H. rewrite (lex_common_alpha st nlb (to_lower b) _ Hal).
    unfold tok, identifier_or_keyword, find_identifier_end in *. cbv zeta in *. cbn [fst snd] in *.
    injection H as Hl Ht Hf. rewrite (Hlen Hl). rewrite Hl, firstn_app_exact in Ht, Hf.
    assert (Hg : get_word_token_type (to_lower b :: lower q) = get_word_token_type (b :: q)).
    { change (to_lower b :: lower q) with (lower (b :: q)). apply get_word_token_type_lower. }
    pose proof (firstn_lower_app q y) as Hfl. bnorm. rewrite Ht in Hf. rewrite Hfl, Hg, Ht, Hf. reflexivity.
Qed.

(* (C)(i): ASCII-lower-casing the content of a word token (keyword, IdentifierOrKeyword,
   identifier) starting with an ASCII letter preserves [lexes_as] *)
Theorem lexes_as_lower : forall st nlb (allowed : bytes -> Prop) (c : bytes) ty a,
  is_alpha (hd 0 c) = true ->
  lexes_as st nlb allowed c ty a -> lexes_as st nlb allowed (lower c) ty a.
Proof.
  intros st nlb allowed c ty a Ha (b & q & -> & Hb & Hu & Hlex). cbn [hd] in Ha.
  exists (to_lower b), (lower q). split; [reflexivity|]. split; [rewrite to_lower_le32; exact Hb|]. split.
  { pose proof (is_u3000_at_lower (b :: q) []) as R. rewrite !app_nil_r in R. exact (eq_trans R Hu). }
  intros y Hy. destruct (Hlex y Hy) as [Hs Ht]. split; [exact Hs|].
  rewrite lower_length. exact (lex_token_lower_word st nlb b q y ty a Ha Ht).
Qed.

(* ---- (ii) line comments: any body without CR/LF ---- *)

Theorem line_comment_lexes_as : forall st nlb (body : bytes),
  forallb not_eol body = true ->
  lexes_as st nlb eol_sep (47 :: 47 :: body)
    (RTT_Comment (if nlb then CoK_IndividualLine else CoK_InlineLine)) (ls_asm st).
Proof.
  intros st nlb body Hb. exists 47, (47 :: body). split; [reflexivity|]. split; [reflexivity|].
  split; [reflexivity|]. intros y Hy. split; [apply ascii_sep_start, eol_sep_ascii, Hy|].
  destruct (lex_line_comment_spec st nlb (body ++ y)) as (n & E & Hn).
  cbn [app length]. rewrite E. apply longest_run_unique in Hn.
  assert (Hc : count_while not_eol (body ++ y) = length body).
  { apply count_while_app_stop; [exact Hb|].
    destruct y as [|e y]; [exact I|]. cbn [eol_sep] in Hy. unfold not_eol. rewrite Hy. reflexivity. }
  rewrite Hn. bnorm. rewrite Hc. reflexivity.
Qed.

(* the two documented edits keep the body free of CR/LF *)
Lemma line_comment_insert_space (pre body : bytes) :
  forallb not_eol (pre ++ body) = true -> forallb not_eol (pre ++ 32 :: body) = true.
Proof.
  rewrite !forallb_app. intros H. apply andb_true_iff in H. destruct H as [H1 H2].
  rewrite H1. cbn [forallb]. rewrite H2. reflexivity.
Qed.

Lemma line_comment_trim (body : bytes) k :
  forallb not_eol body = true -> forallb not_eol (firstn k body) = true.
Proof.
  revert k; induction body as [|c body IH]; intros k H; [destruct k; reflexivity|].
  destruct k; [reflexivity|]. cbn [firstn forallb] in *. apply andb_true_iff in H.
  destruct H as [H1 H2]. rewrite H1, (IH k H2). reflexivity.
Qed.

(* ---- (iii) upper-casing the name of a directive ---- *)

Lemma to_upper_ident c : is_ident_ascii (to_upper c) = is_ident_ascii c.
Proof.
  unfold to_upper. destruct (is_lower c) eqn:L; [|reflexivity]. unfold is_lower in L. b2p L.
  unfold is_ident_ascii, is_alnum, is_alpha, is_upper, is_lower, is_digit.
  replace (65 <=? c - 32) with true by (symmetry; apply N.leb_le; blia).
  replace (c - 32 <=? 90) with true by (symmetry; apply N.leb_le; blia).
  replace (97 <=? c) with true by (symmetry; apply N.leb_le; blia).
  replace (c <=? 122) with true by (symmetry; apply N.leb_le; blia).
  rewrite !orb_true_r. reflexivity.
Qed.

Lemma upper_length (q : bytes) : length (upper q) = length q.
Proof. apply map_length. Qed.

Lemma firstn_upper_app (q y : bytes) : firstn (length q) (upper q ++ y) = upper q.
Proof. rewrite <- (upper_length q). apply firstn_app_exact. Qed.

Lemma skipn_upper_app (q y : bytes) : skipn (length q) (upper q ++ y) = y.
Proof. rewrite <- (upper_length q). apply skipn_app_exact. Qed.

Lemma conditional_directive_kind_upper (name : bytes) :
  conditional_directive_kind (upper name) = conditional_directive_kind name.
Proof.
  unfold conditional_directive_kind, eq_ignore_case.
  pose proof (fold_case_upper name) as H. unfold fold_case in H. rewrite H. reflexivity.
Qed.

Lemma trimmed_len_ident_prefix (name rest : bytes) : forallb is_ident_ascii name = true ->
  trimmed_len (name ++ rest) = (length name + trimmed_len rest)%nat.
Proof.
  induction name as [|c name IH]; intros H; [reflexivity|].
  cbn [forallb] in H. apply andb_true_iff in H. destruct H as [Hc H].
  cbn [app length]. change (trimmed_len (c :: name ++ rest))
    with (if all_ws (c :: name ++ rest) then O else S (trimmed_len (name ++ rest))).
  assert (E : all_ws (c :: name ++ rest) = false).
  { destruct (all_ws (c :: name ++ rest)) eqn:E; [|reflexivity].
    apply all_ws_sep_start, sep_start_hd in E. apply is_ident_ascii_printable in Hc. blia. }
  rewrite E, (IH H). reflexivity.
Qed.

(* the directive scanner is case-insensitive in the directive name *)
Lemma compiler_directive_upper k (name rest : bytes) :
  forallb is_ident_ascii name = true ->
  match rest with [] => True | r :: _ => is_ident_ascii r = false end ->
  compiler_directive k (upper name ++ rest) = compiler_directive k (name ++ rest).
Proof.
  intros Hn Hr.
  assert (Hu : forallb is_ident_ascii (upper name) = true).
  { unfold upper. rewrite forallb_forall in *. intros c Hc. apply in_map_iff in Hc.
    destruct Hc as (c0 & <- & Hc0). rewrite to_upper_ident. exact (Hn _ Hc0). }
  assert (C1 : count_while is_ident_ascii (name ++ rest) = length name)
    by (apply count_while_app_stop; assumption).
  assert (C2 : count_while is_ident_ascii (upper name ++ rest) = length name)
    by (rewrite <- (upper_length name); apply count_while_app_stop; assumption).
  unfold compiler_directive, parse_directive_end. cbv zeta.
  rewrite C1, C2, !app_length, upper_length.
  pose proof (firstn_upper_app name rest) as F1. pose proof (skipn_upper_app name rest) as F2.
  pose proof (firstn_app_exact name rest) as F3. pose proof (skipn_app_exact name rest) as F4.
  bnorm. rewrite F1, F2, F3, F4.
  pose proof (conditional_directive_kind_upper name) as F5. bnorm. rewrite F5.
  pose proof (trimmed_len_ident_prefix name rest Hn) as T1.
  pose proof (trimmed_len_ident_prefix (upper name) rest Hu) as T2. rewrite upper_length in T2.
  bnorm. rewrite T1, T2. reflexivity.
Qed.

Theorem lex_token_directive_upper : forall st nlb (name rest : bytes),
  forallb is_ident_ascii name = true ->
  match rest with [] => True | r :: _ => is_ident_ascii r = false end ->
  lex_token st nlb 123 (36 :: upper name ++ rest) = lex_token st nlb 123 (36 :: name ++ rest) /\
  lex_token st nlb 40 (42 :: 36 :: upper name ++ rest) = lex_token st nlb 40 (42 :: 36 :: name ++ rest).
Proof.
  intros st nlb name rest Hn Hr. pose proof (compiler_directive_upper BCK_Brace name rest Hn Hr) as E1.
  pose proof (compiler_directive_upper BCK_ParenStar name rest Hn Hr) as E2.
  assert (C1 : forall t, lex_common st nlb 123 (36 :: t) = tshift 1 (compiler_directive BCK_Brace t))
    by reflexivity.
  assert (C2 : forall t, lex_common st nlb 40 (42 :: 36 :: t)
                        = tshift 1 (tshift 1 (compiler_directive BCK_ParenStar t))) by reflexivity.
  unfold lex_token. split; destruct (ls_asm st); cbn; rewrite ?C1, ?C2, ?E1, ?E2; reflexivity.
Qed.

(* (C)(iii): upper-casing the name of a brace-dollar or paren-star-dollar directive preserves
   [lexes_as]: the directive scanner compares the name case-insensitively *)
Theorem lexes_as_directive_upper : forall st nlb (allowed : bytes -> Prop) (name rest : bytes) ty a,
  forallb is_ident_ascii name = true ->
  match rest with [] => True | r :: _ => is_ident_ascii r = false end ->
  (lexes_as st nlb allowed (123 :: 36 :: name ++ rest) ty a ->
   lexes_as st nlb allowed (123 :: 36 :: upper name ++ rest) ty a) /\
  (lexes_as st nlb allowed (40 :: 42 :: 36 :: name ++ rest) ty a ->
   lexes_as st nlb allowed (40 :: 42 :: 36 :: upper name ++ rest) ty a).
Proof.
  intros st nlb allowed name rest ty a Hn Hr.
  assert (Hrest : forall y, sep_start y ->
            match rest ++ y with [] => True | r :: _ => is_ident_ascii r = false end).
  { intros y Hy. destruct rest as [|r rest]; [|exact Hr]. cbn [app].
    exact (sep_start_not_class _ _ is_ident_ascii_printable Hy). }
  split; intros (b & q & Ec & Hb & Hu & Hlex); injection Ec as <- <-.
  - exists 123, (36 :: upper name ++ rest). split; [reflexivity|]. split; [reflexivity|].
    split; [reflexivity|]. intros y Hy. destruct (Hlex y Hy) as [Hs Ht]. split; [exact Hs|].
    cbn [app length] in *. rewrite <- app_assoc in Ht |- *.
    rewrite (proj1 (lex_token_directive_upper st nlb name (rest ++ y) Hn (Hrest y Hs))).
    rewrite !app_length, upper_length in *. exact Ht.
  - exists 40, (42 :: 36 :: upper name ++ rest). split; [reflexivity|]. split; [reflexivity|].
    split; [reflexivity|]. intros y Hy. destruct (Hlex y Hy) as [Hs Ht]. split; [exact Hs|].
    cbn [app length] in *. rewrite <- app_assoc in Ht |- *.
    rewrite (proj2 (lex_token_directive_upper st nlb name (rest ++ y) Hn (Hrest y Hs))).
    rewrite !app_length, upper_length in *. exact Ht.
Qed.

(* ================================================================== *)
(* IX. Examples and counter-examples                                   *)

(* a file with a conditional directive, a string with character codes, a range, a line comment, a
   number with an empty exponent, a block comment, and an asm block with a label and an asm string *)
Definition ex_file : bytes := [123; 36; 105; 102; 100; 101; 102; 32; 88; 125; 32; 120; 58; 61; 39; 97; 39; 35; 49; 51; 35; 49; 48; 39; 98; 39; 43; 91; 49; 46; 46; 53; 93; 59; 47; 47; 99; 10; 32; 121; 58; 61; 49; 101; 43; 32; 40; 42; 109; 42; 41; 97; 115; 109; 32; 109; 111; 118; 32; 64; 97; 44; 34; 115; 92; 34; 34; 32; 101; 110; 100; 59; 10].

Definition ex_toks : list (nat * nat * RawTokenType) :=
  [(0, 10, RTT_ConditionalDirective CDK_Ifdef); (1, 1, RTT_Identifier); (0, 2, RTT_Op OK_Assign);
   (0, 12, RTT_TextLiteral TK_SingleLine); (0, 1, RTT_Op OK_Plus); (0, 1, RTT_Op OK_LBrack);
   (0, 1, RTT_NumberLiteral NK_Decimal); (0, 2, RTT_Op OK_DotDot); (0, 1, RTT_NumberLiteral NK_Decimal);
   (0, 1, RTT_Op OK_RBrack); (0, 1, RTT_Op OK_Semicolon); (0, 3, RTT_Comment CoK_InlineLine);
   (2, 1, RTT_Identifier); (0, 2, RTT_Op OK_Assign); (0, 3, RTT_NumberLiteral NK_Decimal);
   (1, 5, RTT_Comment CoK_InlineBlock); (0, 3, RTT_Keyword KK_Asm); (1, 3, RTT_Identifier);
   (1, 2, RTT_Identifier); (0, 1, RTT_Op OK_Comma); (0, 5, RTT_TextLiteral TK_Asm);
   (1, 3, RTT_Keyword KK_End); (0, 1, RTT_Op OK_Semicolon); (1, 0, RTT_Eof)]%nat.

(* new blank strings: LF, TAB, CR LF, U+3000, doubled spaces; the line comment and the block comment
   are moved onto their own lines; nothing in front of Eof *)
Definition ex_ws' : list bytes := [[10]; [32]; [32]; [9]; [227; 128; 128]; [32]; [32]; [32]; [32]; [32]; [32]; [10; 32]; [10]; [32]; [32]; [10]; [32]; [32; 32]; [32]; [32]; [32]; [13; 10]; [32]; []].

Example ex_file_lex : lex ex_file = Some ex_toks.
Proof. vm_compute. reflexivity. Qed.

Ltac gap_tac :=
  repeat match goal with
         | |- if ?c then _ else _ => let v := eval vm_compute in c in change c with v; cbv iota
         | |- _ /\ _ => split
         | |- all_blank _ => reflexivity
         | |- eol_sep _ => reflexivity
         | |- ascii_sep _ => reflexivity
         | |- _ <> [] \/ _ => left; discriminate
         | |- _ \/ _ = true => right; reflexivity
         | |- True => exact I
         | |- _ = _ => reflexivity
         end.

Example ex_gaps_ok : gaps_ok PNone ex_ws' (segments ex_toks ex_file).
Proof.
  vm_compute segments. cbn [gaps_ok ex_ws' hd tl prev_gap is_eof_ty]. unfold gap_ok, blank_gap.
  repeat (split; [reflexivity|]); gap_tac.
Qed.

(* (B) on the example: the re-spaced file lexes to the planned tokens ... *)
Example ex_relayout :
  lex (flatten (respace true ex_ws' (segments ex_toks ex_file))) =
  Some (map seg_lens (respace true ex_ws' (segments ex_toks ex_file))).
Proof. exact (lex_relayout ex_file ex_toks ex_ws' ex_file_lex ex_gaps_ok). Qed.

(* ... which are the old tokens with the new blank lengths; the two comments, now first on their
   lines, have become IndividualLine / IndividualBlock, all other types are unchanged *)
Example ex_relayout_tokens :
  map seg_lens (respace true ex_ws' (segments ex_toks ex_file)) =
  [(1, 10, RTT_ConditionalDirective CDK_Ifdef); (1, 1, RTT_Identifier); (1, 2, RTT_Op OK_Assign);
   (1, 12, RTT_TextLiteral TK_SingleLine); (3, 1, RTT_Op OK_Plus); (1, 1, RTT_Op OK_LBrack);
   (1, 1, RTT_NumberLiteral NK_Decimal); (1, 2, RTT_Op OK_DotDot); (1, 1, RTT_NumberLiteral NK_Decimal);
   (1, 1, RTT_Op OK_RBrack); (1, 1, RTT_Op OK_Semicolon); (2, 3, RTT_Comment CoK_IndividualLine);
   (1, 1, RTT_Identifier); (1, 2, RTT_Op OK_Assign); (1, 3, RTT_NumberLiteral NK_Decimal);
   (1, 5, RTT_Comment CoK_IndividualBlock); (1, 3, RTT_Keyword KK_Asm); (2, 3, RTT_Identifier);
   (1, 2, RTT_Identifier); (1, 1, RTT_Op OK_Comma); (1, 5, RTT_TextLiteral TK_Asm);
   (2, 3, RTT_Keyword KK_End); (1, 1, RTT_Op OK_Semicolon); (0, 0, RTT_Eof)]%nat /\
  lex (flatten (respace true ex_ws' (segments ex_toks ex_file))) =
  Some (map seg_lens (respace true ex_ws' (segments ex_toks ex_file))).
Proof. split; vm_compute; reflexivity. Qed.

(* (A) on single tokens: 1e+ before x re-lexed before a blank; the directive before anything;
   the asm string (in asm mode) before a blank *)
Example lex_token_stable_example :
  lex_token init_state false 49 [101; 43; 120] = Some (2%nat, RTT_NumberLiteral NK_Decimal, false) /\
  sep_ok 49 (firstn 2 [101; 43; 120]) (RTT_NumberLiteral NK_Decimal) (skipn 2 [101; 43; 120]) [32; 53] /\
  lex_token init_state false 49 (firstn 2 [101; 43; 120] ++ [32; 53])
    = Some (2%nat, RTT_NumberLiteral NK_Decimal, false) /\
  lex_token (mkLS false true None) false 34 ([115; 92; 34; 34] ++ [9; 120])
    = Some (4%nat, RTT_TextLiteral TK_Asm, true) /\
  dir_content_terminated 123 [36; 105; 102; 100; 101; 102; 32; 88; 125] = true.
Proof. split; [vm_compute; reflexivity|]. split; [left; reflexivity|]. vm_compute. repeat split; reflexivity. Qed.

(* THE SIDE CONDITIONS ARE NEEDED.  The natural statement "any continuation that starts with a blank
   will do" is false; each class singled out by [sep_ok] has a witness:
   1 line comment + space;  2 unterminated string + space;  3 ampersand + U+3000;
   4 three quotes at end of input + LF (becomes a multi-line opener);
   5 unterminated block comment + blank + closing brace;
   6 unterminated multi-line literal + LF + three quotes;  7 asm string ending in backslash + LF *)
Theorem lex_token_stable_any_blank_refuted :
  exists st nlb (b : byte) (t : bytes) n ty a (y : bytes),
    lex_token st nlb b t = Some (n, ty, a) /\ sep_start y /\
    lex_token st nlb b (firstn n t ++ y) <> Some (n, ty, a).
Proof.
  exists init_state, false, 47, [47; 97], 2%nat, (RTT_Comment CoK_InlineLine), false, [32; 98].
  split; [vm_compute; reflexivity|]. split; [left; reflexivity|]. vm_compute. discriminate.
Qed.

Example lex_token_stable_counterexamples :
  (* 2 *) lex_token init_state false 39 [97] = Some (1%nat, RTT_TextLiteral TK_Unterminated, false) /\
          lex_token init_state false 39 ([97] ++ [32; 98]) = Some (3%nat, RTT_TextLiteral TK_Unterminated, false) /\
  (* 3 *) lex_token init_state false 38 [32; 120] = Some (0%nat, RTT_Unknown, false) /\
          lex_token init_state false 38 ([] ++ [227; 128; 128; 120]) = Some (4%nat, RTT_Identifier, false) /\
  (* 4 *) lex_token init_state false 39 [39; 39] = Some (2%nat, RTT_TextLiteral TK_Unterminated, false) /\
          lex_token init_state false 39 ([39; 39] ++ [10; 97; 39; 39; 39])
            = Some (7%nat, RTT_TextLiteral TK_MultiLine, false) /\
  (* 5 *) lex_token init_state false 123 [97; 32] = Some (1%nat, RTT_Comment CoK_MultilineBlock, false) /\
          lex_token init_state false 123 ([97] ++ [32; 125]) = Some (3%nat, RTT_Comment CoK_InlineBlock, false) /\
  (* 6 *) lex_token init_state false 39 [39; 39; 10; 97] = Some (4%nat, RTT_TextLiteral TK_Unterminated, false) /\
          lex_token init_state false 39 ([39; 39; 10; 97] ++ [10; 39; 39; 39])
            = Some (8%nat, RTT_TextLiteral TK_MultiLine, false) /\
  (* 7 *) lex_token (mkLS false true None) false 34 [97; 92] = Some (2%nat, RTT_TextLiteral TK_Unterminated, true) /\
          lex_token (mkLS false true None) false 34 ([97; 92] ++ [10; 34])
            = Some (4%nat, RTT_TextLiteral TK_Asm, true).
Proof. vm_compute. repeat split; reflexivity. Qed.

(* the re-spacing theorem fails without the gap conditions: gluing x and y, or putting a space
   instead of the LF after a line comment, changes the tokens *)
Example lex_relayout_needs_gaps :
  lex [120; 32; 121] = Some [(0, 1, RTT_Identifier); (1, 1, RTT_Identifier); (0, 0, RTT_Eof)]%nat /\
  lex [120; 121] = Some [(0, 2, RTT_Identifier); (0, 0, RTT_Eof)]%nat /\
  lex [47; 47; 97; 10; 120] = Some [(0, 3, RTT_Comment CoK_IndividualLine); (1, 1, RTT_Identifier); (0, 0, RTT_Eof)]%nat /\
  lex [47; 47; 97; 32; 120] = Some [(0, 5, RTT_Comment CoK_IndividualLine); (0, 0, RTT_Eof)]%nat.
Proof. vm_compute. repeat split; reflexivity. Qed.

(* (C) on examples.  BEGIN lexes as a keyword (from (A)), hence so does begin; a line comment body may
   be edited; the name of a directive may be upper-cased *)
Example lexes_as_lower_example : forall nlb,
  lexes_as init_state nlb (sep_ok 66 [69; 71; 73; 78] (RTT_Keyword KK_Begin) [59]) [98; 101; 103; 105; 110]
    (RTT_Keyword KK_Begin) false.
Proof.
  intros nlb. apply (lexes_as_lower init_state nlb _ [66; 69; 71; 73; 78]); [reflexivity|].
  apply (lexes_as_of_lex init_state nlb 66 [69; 71; 73; 78; 59] 4 (RTT_Keyword KK_Begin) false);
    [destruct nlb; vm_compute; reflexivity|split; reflexivity].
Qed.

Example line_comment_edit_example :
  lexes_as init_state false eol_sep [47; 47; 32; 120; 121] (RTT_Comment CoK_InlineLine) false /\
  forallb not_eol ([] ++ 32 :: [120; 121; 32; 32]) = true /\
  firstn 3 (32 :: [120; 121; 32; 32]) = [32; 120; 121].
Proof.
  split; [apply (line_comment_lexes_as init_state false [32; 120; 121]); reflexivity|].
  split; reflexivity.
Qed.

Example directive_upper_example :
  lex_token init_state false 123 (36 :: upper [105; 102; 100; 101; 102] ++ [32; 88; 125; 59])
    = Some (9%nat, RTT_ConditionalDirective CDK_Ifdef, false) /\
  lex_token init_state false 123 (36 :: [105; 102; 100; 101; 102] ++ [32; 88; 125; 59])
    = Some (9%nat, RTT_ConditionalDirective CDK_Ifdef, false) /\
  upper [105; 102; 100; 101; 102] = [73; 70; 68; 69; 70].
Proof. vm_compute. repeat split; reflexivity. Qed.

(* (C) end to end: a planned file with a lower-cased keyword and an edited comment lexes as planned *)
Example relayout_subst_example :
  relayout init_state
    [([], [98; 101; 103; 105; 110], RTT_Keyword KK_Begin);
     ([32], [47; 47; 32; 120], RTT_Comment CoK_InlineLine);
     ([10], [], RTT_Eof)] /\
  lex ([98; 101; 103; 105; 110] ++ [32] ++ [47; 47; 32; 120] ++ [10])
    = Some [(0, 5, RTT_Keyword KK_Begin); (1, 4, RTT_Comment CoK_InlineLine); (1, 0, RTT_Eof)]%nat.
Proof.
  split; [|vm_compute; reflexivity].
  apply (rl_tok init_state [] _ _ false (sep_ok 66 [69; 71; 73; 78] (RTT_Keyword KK_Begin) [59]));
    [reflexivity|exact (lexes_as_lower_example _)|left; reflexivity|].
  apply (rl_tok _ [32] _ _ false eol_sep);
    [reflexivity|exact (line_comment_lexes_as _ false [32; 120] eq_refl)|reflexivity|].
  apply rl_eof. reflexivity.
Qed.

(* ================================================================== *)
(* X. (D) gluing: tokens that are closed on the right; a computational check of glue_safe *)

(* terminated block comments and complete directives are re-lexed identically whatever follows, with
   NO separator: this justifies the rows  glue_safe (comment | directive) _ = true  of Model/Spacing.v
   for every right-hand token *)
Definition closed_on_right (b : byte) (q : bytes) (ty : RawTokenType) : Prop :=
  match ty with
  | RTT_Comment ck => is_line_kind ck = false /\ comment_unterminated b q = false
  | RTT_ConditionalDirective _ | RTT_CompilerDirective => dir_content_terminated b q = true
  | _ => False
  end.

Lemma cdoc_closed k nlb (q x y : bytes) ty :
  compiler_directive_or_comment k nlb (q ++ x) = TOk (length q) ty ->
  ((exists ck, ty = RTT_Comment ck) -> exists e, find_block_comment_end k q = Some e) ->
  ((exists c, ty = directive_token_type c) -> dir_terminated k (tl q) = true) ->
  compiler_directive_or_comment k nlb (q ++ y) = TOk (length q) ty.
Proof.
  unfold compiler_directive_or_comment. intros H Hcom Hdir.
  destruct (next_is 36 (q ++ x)) eqn:E36.
  - apply tshift_inv in H. destruct H as (n' & H & Hn).
    destruct q as [|d q]; [simpl in Hn; blia|]. cbn [app tl length next_is] in *. rewrite E36.
    assert (n' = length q) by blia. subst n'.
    assert (Hty : exists c, ty = directive_token_type c).
    { unfold compiler_directive in H. cbv zeta in H.
      match type of H with context [parse_directive_end ?a ?b ?c] =>
        destruct (parse_directive_end a b c) end; try discriminate H;
        injection H as _ <-; eexists; reflexivity. }
    specialize (Hdir Hty).
    rewrite (compiler_directive_terminated k q y Hdir).
    rewrite (compiler_directive_terminated k q x Hdir) in H. injection H as <-. reflexivity.
  - apply tok_inv in H.
    assert (Hty : exists ck, ty = RTT_Comment ck).
    { unfold block_comment in H. destruct (find_block_comment_end k (q ++ x));
        injection H as _ <-; eexists; reflexivity. }
    destruct (Hcom Hty) as [e He]. destruct Hty as [ck ->].
    assert (Hq : q <> []).
    { intros ->. destruct k; cbn in He; discriminate He. }
    assert (N36 : next_is 36 (q ++ y) = false).
    { destruct q as [|d q]; [contradiction Hq; reflexivity|exact E36]. }
    rewrite N36.
    rewrite (block_comment_stable k nlb q x y _ H); [reflexivity|].
    intros Hx. rewrite Hx in He. discriminate He.
Qed.

Theorem lex_token_closed_on_right : forall st nlb (b : byte) (q x y : bytes) ty a,
  lex_token st nlb b (q ++ x) = Some (length q, ty, a) ->
  (b = 123 \/ (b = 40 /\ exists q1, q = 42 :: q1)) ->
  closed_on_right b q ty ->
  lex_token st nlb b (q ++ y) = Some (length q, ty, a).
Proof.
  intros st nlb b q x y ty a H Hb Hc.
  assert (Hcl : forall k (q1 : bytes), comment_body b q = (k, q1) ->
            ((exists ck, ty = RTT_Comment ck) -> exists e, find_block_comment_end k q1 = Some e) /\
            ((exists c, ty = directive_token_type c) -> dir_terminated k (tl q1) = true)).
  { intros k q1 Eb. split.
    - intros [ck ->]. cbn [closed_on_right] in Hc. destruct Hc as [_ Hc].
      unfold comment_unterminated in Hc. rewrite Eb in Hc. cbn [fst snd] in Hc.
      destruct (find_block_comment_end k q1) as [e|]; [exists e; reflexivity|discriminate Hc].
    - intros [c ->].
      assert (Hd : dir_content_terminated b q = true).
      { destruct (directive_token_type_cases c) as [[k' E]|E]; rewrite E in Hc; exact Hc. }
      unfold dir_content_terminated in Hd. rewrite Eb in Hd. exact Hd. }
  destruct Hb as [-> |[-> [q1 ->]]].
  - destruct (Hcl BCK_Brace q eq_refl) as [H1 H2].
    assert (C : forall t, lex_common st nlb 123 t = compiler_directive_or_comment BCK_Brace nlb t)
      by reflexivity.
    unfold lex_token in *. destruct (ls_asm st); cbn in H |- *; rewrite C in H |- *;
      (destruct (compiler_directive_or_comment BCK_Brace nlb (q ++ x)) as [n0 ty0|] eqn:E; [|discriminate H]);
      injection H as -> -> <-; rewrite (cdoc_closed BCK_Brace nlb q x y ty E H1 H2); reflexivity.
  - destruct (Hcl BCK_ParenStar q1 eq_refl) as [H1 H2].
    assert (C : forall t, lex_common st nlb 40 (42 :: t)
                        = tshift 1 (compiler_directive_or_comment BCK_ParenStar nlb t)) by reflexivity.
    cbn [app length] in *.
    unfold lex_token in *. destruct (ls_asm st); cbn in H |- *; rewrite C in H |- *;
      (destruct (compiler_directive_or_comment BCK_ParenStar nlb (q1 ++ x)) as [n0 ty0|] eqn:E;
         [|discriminate H]);
      cbn [tshift] in H; injection H as Hn -> <-;
      assert (n0 = length q1) by blia; subst n0;
      rewrite (cdoc_closed BCK_ParenStar nlb q1 x y ty E H1 H2); reflexivity.
Qed.

(* the comment (star m star) glued to whatever follows *)
Example lex_token_closed_on_right_example :
  lex_token init_state false 40 ([42; 109; 42; 41] ++ [32]) = Some (4%nat, RTT_Comment CoK_InlineBlock, false) /\
  closed_on_right 40 [42; 109; 42; 41] (RTT_Comment CoK_InlineBlock) /\
  lex_token init_state false 40 ([42; 109; 42; 41] ++ [42; 41; 120]) = Some (4%nat, RTT_Comment CoK_InlineBlock, false).
Proof. split; [vm_compute; reflexivity|]. split; [split; reflexivity|vm_compute; reflexivity]. Qed.

(* A TEST, not a proof, of the remaining rows of glue_safe: for 72 representative token contents (all
   operator spellings, identifiers, keywords, text literals, numbers, directives, comments, unknown
   bytes, asm labels / numbers / strings) and every ordered pair (c1, c2) that lexes, separated by a
   blank, as two tokens whose converted types satisfy glue_safe: the glued text  c1 ++ c2  lexes as
   the same two tokens.  In normal mode and in asm mode. *)
Definition glue_reps : list bytes := [[43];
   [45];
   [42];
   [47];
   [58; 61];
   [44];
   [59];
   [58];
   [61];
   [60; 62];
   [60];
   [60; 61];
   [62];
   [62; 61];
   [91];
   [40; 46];
   [93];
   [46; 41];
   [40];
   [41];
   [94];
   [64];
   [46];
   [46; 46];
   [120];
   [95; 97];
   [195; 169];
   [38; 120];
   [101; 49];
   [69];
   [104];
   [98; 101; 103; 105; 110];
   [101; 110; 100];
   [97; 110; 100];
   [97; 116];
   [64; 97];
   [39; 97; 39];
   [35; 49; 51];
   [35; 36; 49; 70];
   [39; 39];
   [39; 39; 39; 10; 97; 10; 39; 39; 39];
   [39; 97; 39; 35; 49; 51];
   [35; 49; 95; 48];
   [34; 115; 34];
   [49];
   [49; 53];
   [49; 46; 53];
   [49; 101];
   [49; 101; 43];
   [49; 101; 53];
   [36; 70; 70];
   [36];
   [37; 49];
   [37];
   [38; 49];
   [38; 36; 70];
   [49; 95];
   [49; 48; 104];
   [49; 98];
   [123; 36; 120; 125];
   [40; 42; 36; 120; 42; 41];
   [123; 36; 105; 102; 100; 101; 102; 32; 97; 125];
   [123; 99; 125];
   [40; 42; 99; 42; 41];
   [123; 125];
   [33];
   [38];
   [34];
   [63];
   [38; 38];
   [125];
   [47; 47; 99]].

Definition glue_pair_bad (st : lstate) (c1 c2 : bytes) : bool :=
  match lex_from st (c1 ++ [32] ++ c2 ++ [32]) with
  | Some [(O, n1, t1); (1%nat, n2, t2); (1%nat, O, RTT_Eof)] =>
      if Nat.eqb n1 (length c1) && Nat.eqb n2 (length c2) && glue_safe (tt_of_raw t1) (tt_of_raw t2) then
        match lex_from st (c1 ++ c2 ++ [32]) with
        | Some [(O, m1, u1); (O, m2, u2); (1%nat, O, RTT_Eof)] =>
            negb (Nat.eqb m1 n1 && Nat.eqb m2 n2 && RawTokenType_eqb u1 t1 && RawTokenType_eqb u2 t2)
        | _ => true
        end
      else false
  | _ => false
  end.

Definition glue_bad_pairs (st : lstate) : list (bytes * bytes) :=
  flat_map (fun c1 => flat_map (fun c2 => if glue_pair_bad st c1 c2 then [(c1, c2)] else []) glue_reps)
    glue_reps.

Example glue_safe_no_counterexample :
  glue_bad_pairs (mkLS false false None) = [] /\ glue_bad_pairs (mkLS false true None) = [] /\
  length glue_reps = 72%nat.
Proof. vm_compute. repeat split; reflexivity. Qed.

(* glue_safe is a condition on PAIRS; the decimal literal needs the token after the next one too:
   (Decimal, Dot) is safe because (Dot, NumberLiteral) is not *)
Example glue_decimal_dot :
  lex [49; 46; 32; 53] = Some [(0, 1, RTT_NumberLiteral NK_Decimal); (0, 1, RTT_Op OK_Dot);
                               (1, 1, RTT_NumberLiteral NK_Decimal); (0, 0, RTT_Eof)]%nat /\
  lex [49; 46; 53] = Some [(0, 3, RTT_NumberLiteral NK_Decimal); (0, 0, RTT_Eof)]%nat /\
  glue_safe (TT_NumberLiteral NK_Decimal) (TT_Op OK_Dot) = true /\
  glue_safe (TT_Op OK_Dot) (TT_NumberLiteral NK_Decimal) = false.
Proof. vm_compute. repeat split; reflexivity. Qed.

(* ================================================================== *)
Print Assumptions lex_token_stable.
Print Assumptions lex_token_stable_q.
Print Assumptions fdee_agree.
Print Assumptions lex_token_nlb.
Print Assumptions lex_token_asm_flag.
Print Assumptions relayout_lex.
Print Assumptions lex_relayout.
Print Assumptions lex_from_relayout.
Print Assumptions respace_same_types.
Print Assumptions lexes_as_of_lex.
Print Assumptions lexes_as_lower.
Print Assumptions line_comment_lexes_as.
Print Assumptions lexes_as_directive_upper.
Print Assumptions lex_token_stable_any_blank_refuted.
Print Assumptions lex_token_closed_on_right.
Print Assumptions ex_relayout.
