(* Proofs/WrapApplyProofs.v — what the wrapper's EFFECT guarantees whatever the search decides:
   token types, ignored flags and all text but that of formatted multi-line strings are untouched;
   every decided token ends canonical (C08's H-W1 for decided tokens, now a theorem);
   undecided tokens keep their formatting data up to the spaces. *)
From PasfmtVerif Require Import Model.WrapApply Model.Canon.

Definition shape (p : ftoken) : TokenType * bool := (t_ty (fst p), f_ignored (snd p)).

(* ---------- pointwise updates ---------- *)
Lemma upd_ftok_nth i g l j :
  nth_error (upd_ftok i g l) j
  = if Nat.eqb j i then option_map (fun p : ftoken => (fst p, g (snd p))) (nth_error l j) else nth_error l j.
Proof.
  revert i j; induction l as [|[tok f] l IH]; intros i j.
  - destruct i as [|i], j as [|j]; cbn; try reflexivity; destruct (Nat.eqb j i); reflexivity.
  - destruct i as [|i]; destruct j as [|j]; cbn; try reflexivity.
    rewrite IH. reflexivity.
Qed.

Lemma upd_ftok_tok_nth i g l j :
  nth_error (upd_ftok_tok i g l) j
  = if Nat.eqb j i then option_map (fun p : ftoken => (g (fst p), snd p)) (nth_error l j) else nth_error l j.
Proof.
  revert i j; induction l as [|[tok f] l IH]; intros i j.
  - destruct i as [|i], j as [|j]; cbn; try reflexivity; destruct (Nat.eqb j i); reflexivity.
  - destruct i as [|i]; destruct j as [|j]; cbn; try reflexivity.
    rewrite IH. reflexivity.
Qed.

Lemma upd_ftok_length i g l : length (upd_ftok i g l) = length l.
Proof. revert i; induction l as [|[tok f] l IH]; intros [|i]; cbn; try rewrite IH; reflexivity. Qed.

Lemma upd_ftok_tok_length i g l : length (upd_ftok_tok i g l) = length l.
Proof. revert i; induction l as [|[tok f] l IH]; intros [|i]; cbn; try rewrite IH; reflexivity. Qed.

(* a relation R between the entry of the input and of the output at every index, closed under the stages *)
Definition pointwise (R : ftoken -> ftoken -> Prop) (l l' : list ftoken) : Prop :=
  length l' = length l /\ forall j p, nth_error l j = Some p -> exists q, nth_error l' j = Some q /\ R p q.

Lemma pointwise_refl (R : ftoken -> ftoken -> Prop) l : (forall p, R p p) -> pointwise R l l.
Proof. intros HR; split; [reflexivity|]. intros j p H; exists p; auto. Qed.

Lemma pointwise_trans (R : ftoken -> ftoken -> Prop) a b c :
  (forall x y z, R x y -> R y z -> R x z) -> pointwise R a b -> pointwise R b c -> pointwise R a c.
Proof.
  intros HT [L1 H1] [L2 H2]; split; [congruence|].
  intros j p Hp. destruct (H1 j p Hp) as [q [Hq Rpq]]. destruct (H2 j q Hq) as [r [Hr Rqr]].
  exists r; split; [exact Hr | eapply HT; eauto].
Qed.

Lemma pointwise_upd_ftok (R : ftoken -> ftoken -> Prop) i g l :
  (forall p, R p p) -> (forall p, R p (fst p, g (snd p))) -> pointwise R l (upd_ftok i g l).
Proof.
  intros Hr Hg; split; [apply upd_ftok_length|].
  intros j p Hp. rewrite upd_ftok_nth, Hp. destruct (Nat.eqb j i); cbn; eexists; split; try reflexivity; auto.
Qed.

Lemma pointwise_upd_ftok_tok (R : ftoken -> ftoken -> Prop) i g l :
  (forall p, R p p) -> (forall p, nth_error l i = Some p -> R p (g (fst p), snd p)) -> pointwise R l (upd_ftok_tok i g l).
Proof.
  intros Hr Hg; split; [apply upd_ftok_tok_length|].
  intros j p Hp. rewrite upd_ftok_tok_nth, Hp. destruct (Nat.eqb j i) eqn:E; cbn; eexists; split; try reflexivity; auto.
  apply Nat.eqb_eq in E; subst j. auto.
Qed.

Lemma pointwise_map (R : ftoken -> ftoken -> Prop) (h : ftoken -> ftoken) l :
  (forall p, R p (h p)) -> pointwise R l (map h l).
Proof.
  intros Hh; split; [apply map_length|].
  intros j p Hp. exists (h p); split; [|auto]. rewrite nth_error_map, Hp. reflexivity.
Qed.

(* ---------- the stages, as pointwise relations ---------- *)
Section Stages.
  Variable R : ftoken -> ftoken -> Prop.
  Hypothesis R_refl : forall p, R p p.
  Hypothesis R_trans : forall x y z, R x y -> R y z -> R x z.
  (* R admits any change of the formatting counters that keeps the ignored flag *)
  Hypothesis R_fmt : forall tok f nl ind cont sp, R (tok, f) (tok, mkFmt (f_ignored f) nl ind cont sp).
  (* and the rewriting of a non-ignored multi-line string *)
  Hypothesis R_ml : forall tok f c, f_ignored f = false -> is_ml_string (t_ty tok) = true ->
                                    R (tok, f) (set_content tok c, f).

  Lemma apply_plan_pointwise plan l : pointwise R l (apply_plan plan l).
  Proof.
    unfold apply_plan. revert l; induction plan as [|[i d] plan IH]; intros l; cbn [fold_left].
    - apply pointwise_refl; auto.
    - eapply pointwise_trans; [exact R_trans| |apply IH].
      apply pointwise_upd_ftok; auto. intros [tok f]; cbn. destruct d; cbn; apply R_fmt.
  Qed.

  Lemma zero_line_starts_pointwise l : pointwise R l (zero_line_starts l).
  Proof. apply pointwise_map. intros [tok f]. destruct (0 <? f_nl f); [apply R_fmt | apply R_refl]. Qed.

  Lemma ml_visit_pointwise rs acc i : pointwise R (fst acc) (fst (ml_visit rs acc i)).
  Proof.
    unfold ml_visit. destruct (nth_error (fst acc) i) as [[tok f]|] eqn:E; [|apply pointwise_refl; auto].
    destruct (f_ignored f) eqn:Ei; [apply pointwise_refl; auto|].
    destruct (is_ml_string (t_ty tok)) eqn:Em; [|apply pointwise_refl; auto].
    destruct (rewrite_ml_token _ _ _ _) as [c|]; [|apply pointwise_refl; auto].
    destruct (bytes_eqb _ _); [apply pointwise_refl; auto|]. cbn [fst].
    apply pointwise_upd_ftok_tok; auto. intros p Hp. rewrite E in Hp; injection Hp as <-. cbn. apply R_ml; auto.
  Qed.

  Lemma ml_fold_pointwise rs visits acc : pointwise R (fst acc) (fst (fold_left (ml_visit rs) visits acc)).
  Proof.
    revert acc; induction visits as [|i visits IH]; intros acc; cbn [fold_left].
    - apply pointwise_refl; auto.
    - eapply pointwise_trans; [exact R_trans|apply ml_visit_pointwise|apply IH].
  Qed.

  Lemma ml_stage_pointwise rs visits l : pointwise R l (fst (ml_stage rs visits l)).
  Proof. unfold ml_stage. apply (ml_fold_pointwise rs visits (l, false)). Qed.

  Lemma respace_pointwise sp l : pointwise R l (respace sp l).
  Proof.
    revert sp; induction l as [|[tok f] l IH]; intros sp.
    - destruct sp; cbn; apply pointwise_refl; auto.
    - destruct sp as [|s sp]; [cbn; apply pointwise_refl; auto|]. cbn [respace].
      destruct (IH sp) as [L H]. split; [cbn; congruence|].
      intros [|j] p Hp; cbn in *.
      + injection Hp as <-. eexists; split; [reflexivity|apply R_fmt].
      + apply H; exact Hp.
  Qed.

  Theorem olf_effect_pointwise rs fm visits plan1 plan2 l : pointwise R l (olf_effect rs fm visits plan1 plan2 l).
  Proof.
    unfold olf_effect.
    assert (Ha : pointwise R l (zero_line_starts (apply_plan plan1 l))).
    { eapply pointwise_trans; [exact R_trans|apply apply_plan_pointwise|apply zero_line_starts_pointwise]. }
    destruct fm; [|exact Ha].
    pose proof (ml_stage_pointwise rs visits (zero_line_starts (apply_plan plan1 l))) as Hb.
    destruct (ml_stage rs visits _) as [b reflowed]; cbn [fst] in Hb.
    assert (Hab : pointwise R l b) by (eapply pointwise_trans; eauto).
    destruct reflowed; [|exact Hab].
    eapply pointwise_trans; [exact R_trans|exact Hab|].
    eapply pointwise_trans; [exact R_trans|apply apply_plan_pointwise|apply respace_pointwise].
  Qed.
End Stages.

(* ---------- 1. what the wrapper never touches ---------- *)
(* types and ignored flags of all tokens; the text (and leading whitespace) of every token that is
   ignored or is not a multi-line string *)
Definition untouched (p q : ftoken) : Prop :=
  shape q = shape p
  /\ ((f_ignored (snd p) = true \/ is_ml_string (t_ty (fst p)) = false) -> fst q = fst p).

Theorem olf_effect_untouched rs fm visits plan1 plan2 l :
  pointwise untouched l (olf_effect rs fm visits plan1 plan2 l).
Proof.
  apply olf_effect_pointwise; unfold untouched, shape.
  - intros p; split; auto.
  - intros x y z [S1 K1] [S2 K2]. split; [congruence|].
    intros H. injection S1 as T1 I1. rewrite K2; [apply K1; exact H|]. rewrite I1, T1; exact H.
  - intros tok f nl ind cont sp; cbn. split; auto.
  - intros tok f c Hi Hm; cbn. split; [reflexivity|]. intros [H|H]; congruence.
Qed.

(* ignored tokens keep their text even when they are multi-line strings; in particular nothing inside a
   `pasfmt off` region is rewritten by the wrapper *)
Corollary olf_effect_ignored_text rs fm visits plan1 plan2 l j p :
  nth_error l j = Some p -> f_ignored (snd p) = true ->
  exists q, nth_error (olf_effect rs fm visits plan1 plan2 l) j = Some q /\ fst q = fst p /\ f_ignored (snd q) = true.
Proof.
  intros Hp Hi. destruct (olf_effect_untouched rs fm visits plan1 plan2 l) as [_ H].
  destruct (H j p Hp) as [q [Hq [S K]]]. exists q; repeat split; auto.
  unfold shape in S; injection S as _ S; congruence.
Qed.

Corollary olf_effect_length rs fm visits plan1 plan2 l :
  length (olf_effect rs fm visits plan1 plan2 l) = length l.
Proof. exact (proj1 (olf_effect_untouched rs fm visits plan1 plan2 l)). Qed.

(* a multi-line string that is rewritten gets a text produced by rewrite_ml_token from its previous text
   (MLStringProofs: the value of the literal is preserved by that function) *)
Inductive ml_rewrites (rs : rsettings) : bytes -> bytes -> Prop :=
  | mlr_refl c : ml_rewrites rs c c
  | mlr_step c ind cont c' c'' : rewrite_ml_token rs ind cont c = Some c' -> ml_rewrites rs c' c'' -> ml_rewrites rs c c''.

Lemma ml_rewrites_trans rs a b c : ml_rewrites rs a b -> ml_rewrites rs b c -> ml_rewrites rs a c.
Proof. induction 1; intros H2; [exact H2|]. eapply mlr_step; eauto. Qed.

Theorem olf_effect_ml_text rs fm visits plan1 plan2 l :
  pointwise (fun p q => ml_rewrites rs (t_content (fst p)) (t_content (fst q))) l (olf_effect rs fm visits plan1 plan2 l).
Proof.
  unfold olf_effect.
  set (Rc := fun p q : ftoken => t_content (fst q) = t_content (fst p)).
  set (Rm := fun p q : ftoken => ml_rewrites rs (t_content (fst p)) (t_content (fst q))).
  assert (Rc_Rm : forall a b, pointwise Rc a b -> pointwise Rm a b).
  { intros a b [L H]; split; [exact L|]. intros j p Hp. destruct (H j p Hp) as [q [Hq E]]. exists q; split; auto.
    unfold Rm, Rc in *. rewrite E. constructor. }
  assert (Rm_trans : forall x y z, Rm x y -> Rm y z -> Rm x z) by (unfold Rm; intros; eapply ml_rewrites_trans; eauto).
  assert (Rc_refl : forall p, Rc p p) by (unfold Rc; auto).
  assert (Rc_trans : forall x y z, Rc x y -> Rc y z -> Rc x z) by (unfold Rc; intros; congruence).
  assert (Hplan : forall plan a, pointwise Rc a (apply_plan plan a)).
  { intros plan; unfold apply_plan; induction plan as [|[i d] plan IH]; intros a; cbn [fold_left].
    - apply pointwise_refl; auto.
    - eapply pointwise_trans; [exact Rc_trans| |apply IH]. apply pointwise_upd_ftok; [auto|intros p; unfold Rc; reflexivity]. }
  assert (Hz : forall a, pointwise Rc a (zero_line_starts a)).
  { intros a; apply pointwise_map. intros [tok f]; unfold Rc. destruct (0 <? f_nl f); reflexivity. }
  assert (Hre : forall sp a, pointwise Rc a (respace sp a)).
  { intros sp a; revert sp; induction a as [|[tok f] a IH]; intros sp; [destruct sp; cbn; apply pointwise_refl; auto|].
    destruct sp as [|s sp]; [cbn; apply pointwise_refl; auto|]. cbn [respace]. destruct (IH sp) as [L H].
    split; [cbn; congruence|]. intros [|j] p Hp; cbn in *; [injection Hp as <-; eexists; split; [reflexivity|unfold Rc; reflexivity]|auto]. }
  assert (Ha : pointwise Rm l (zero_line_starts (apply_plan plan1 l))).
  { apply Rc_Rm. eapply pointwise_trans; [exact Rc_trans|apply Hplan|apply Hz]. }
  destruct fm; [|exact Ha].
  assert (Hv : forall acc i, pointwise Rm (fst acc) (fst (ml_visit rs acc i))).
  { intros acc i. unfold ml_visit. assert (Hrefl : pointwise Rm (fst acc) (fst acc)) by (apply pointwise_refl; unfold Rm; constructor).
    destruct (nth_error (fst acc) i) as [[tok f]|] eqn:E; [|exact Hrefl].
    destruct (f_ignored f); [exact Hrefl|]. destruct (is_ml_string (t_ty tok)); [|exact Hrefl].
    destruct (rewrite_ml_token _ _ _ _) as [c|] eqn:Er; [|exact Hrefl].
    destruct (bytes_eqb _ _); [exact Hrefl|]. cbn [fst].
    apply pointwise_upd_ftok_tok; [unfold Rm; constructor|]. intros p Hp. rewrite E in Hp; injection Hp as <-.
    unfold Rm; cbn. eapply mlr_step; [exact Er|constructor]. }
  assert (Hf : forall visits acc, pointwise Rm (fst acc) (fst (fold_left (ml_visit rs) visits acc))).
  { intros vs; induction vs as [|i vs IH]; intros acc; cbn [fold_left]; [apply pointwise_refl; unfold Rm; constructor|].
    eapply pointwise_trans; [exact Rm_trans|apply Hv|apply IH]. }
  pose proof (Hf visits (zero_line_starts (apply_plan plan1 l), false)) as Hb. fold (ml_stage rs visits (zero_line_starts (apply_plan plan1 l))) in Hb.
  destruct (ml_stage rs visits _) as [b reflowed]; cbn [fst] in Hb.
  assert (Hab : pointwise Rm l b) by (eapply pointwise_trans; eauto).
  destruct reflowed; [|exact Hab].
  eapply pointwise_trans; [exact Rm_trans|exact Hab|]. apply Rc_Rm.
  eapply pointwise_trans; [exact Rc_trans|apply Hplan|apply Hre].
Qed.

(* ---------- 2. decided tokens end canonical ---------- *)
(* the formatting counters a decision leaves: a continuation without indentation, or one or two breaks *)
Definition decided (f : fmt) : Prop :=
  (f_nl f = 0 /\ f_ind f = 0 /\ f_cont f = 0) \/ (1 <= f_nl f <= 2).

Lemma apply_decision_decided f d : decided (apply_decision f d).
Proof.
  destruct d as [first ind cont|]; unfold decided; cbn; [right|left; auto].
  destruct first; [|lia]. unfold clamp12. destruct (N.ltb_spec (f_nl f) 1) as [E1|E1]; [lia|]. destruct (N.ltb_spec 2 (f_nl f)) as [E2|E2]; lia.
Qed.

Lemma apply_decision_sp f d : f_sp (apply_decision f d) = f_sp f.
Proof. destruct d; reflexivity. Qed.

Definition at_idx (P : fmt -> Prop) (l : list ftoken) (i : nat) : Prop :=
  forall q, nth_error l i = Some q -> P (snd q).

Lemma apply_plan_keep (P : fmt -> Prop) plan l i :
  (forall f d, P (apply_decision f d)) -> at_idx P l i -> at_idx P (apply_plan plan l) i.
Proof.
  intros HP. unfold apply_plan. revert l; induction plan as [|[k d] plan IH]; intros l Hl; cbn [fold_left]; [exact Hl|].
  apply IH. intros q Hq. rewrite upd_ftok_nth in Hq. cbn [fst snd] in Hq.
  destruct (Nat.eqb i k); [|apply Hl; exact Hq].
  destruct (nth_error l i) as [p|]; cbn in Hq; [|discriminate]. injection Hq as <-. cbn. apply HP.
Qed.

Lemma apply_plan_in (P : fmt -> Prop) plan l i :
  (forall f d, P (apply_decision f d)) -> In i (map fst plan) -> at_idx P (apply_plan plan l) i.
Proof.
  intros HP. unfold apply_plan. revert l; induction plan as [|[k d] plan IH]; intros l Hin; cbn [fold_left]; [destruct Hin|].
  cbn in Hin. destruct (Nat.eq_dec k i) as [->|Hne].
  - apply (apply_plan_keep P plan); [exact HP|].
    intros q Hq. rewrite upd_ftok_nth, Nat.eqb_refl in Hq. cbn [fst snd] in Hq.
    destruct (nth_error l i) as [p|]; cbn in Hq; [|discriminate]. injection Hq as <-. cbn. apply HP.
  - apply IH. destruct Hin as [H|H]; [contradiction|exact H].
Qed.

(* spaces: every stage leaves them at most what TokenSpacing asked for *)
Lemma apply_plan_sp_le plan l i n :
  at_idx (fun f => f_sp f <= n) l i -> at_idx (fun f => f_sp f <= n) (apply_plan plan l) i.
Proof.
  unfold apply_plan. revert l; induction plan as [|[k d] plan IH]; intros l Hl; cbn [fold_left]; [exact Hl|].
  apply IH. intros q Hq. rewrite upd_ftok_nth in Hq. cbn [fst snd] in Hq.
  destruct (Nat.eqb i k); [|apply Hl; exact Hq].
  destruct (nth_error l i) as [p|] eqn:E; cbn in Hq; [|discriminate]. injection Hq as <-. cbn.
  rewrite apply_decision_sp. apply (Hl p E).
Qed.

(* canonical up to the spaces at a line start, which zero_line_starts / respace settle *)
Definition canon_f (f : fmt) : Prop :=
  (if 0 <? f_nl f then f_sp f = 0 else f_ind f = 0 /\ f_cont f = 0 /\ f_sp f <= 1) /\ f_nl f <= 2.

Lemma canon_f_tok tok f : canon_f f -> canon_tok false (tok, f) = true.
Proof.
  unfold canon_f, canon_tok; cbn. intros [H1 H2]. apply orb_true_iff; right.
  rewrite andb_true_r. apply andb_true_iff; split; [|apply N.leb_le; exact H2].
  destruct (0 <? f_nl f); [apply N.eqb_eq; exact H1|].
  destruct H1 as [A [B C]]. rewrite !andb_true_iff, !N.eqb_eq, N.leb_le. auto.
Qed.

Lemma zero_line_starts_canon l i :
  at_idx decided l i -> at_idx (fun f => f_sp f <= 1) l i -> at_idx canon_f (zero_line_starts l) i.
Proof.
  intros Hd Hs q Hq. unfold zero_line_starts in Hq. rewrite nth_error_map in Hq.
  destruct (nth_error l i) as [[tok f]|] eqn:E; cbn in Hq; [|discriminate].
  specialize (Hd _ E); specialize (Hs _ E); cbn in Hd, Hs.
  destruct (0 <? f_nl f) eqn:En; injection Hq as <-; unfold canon_f; cbn.
  - rewrite En. split; [reflexivity|]. destruct Hd as [[A _]|B]; [apply N.ltb_lt in En; lia|lia].
  - rewrite En. apply N.ltb_ge in En. destruct Hd as [[A [B C]]|B]; [|lia]. repeat split; auto; lia.
Qed.

Lemma ml_visit_snd rs acc i j q :
  nth_error (fst (ml_visit rs acc i)) j = Some q -> exists p, nth_error (fst acc) j = Some p /\ snd p = snd q.
Proof.
  unfold ml_visit. destruct (nth_error (fst acc) i) as [[tok f]|] eqn:E; [|eauto].
  destruct (f_ignored f); [eauto|]. destruct (is_ml_string (t_ty tok)); [|eauto].
  destruct (rewrite_ml_token _ _ _ _) as [c|]; [|eauto]. destruct (bytes_eqb _ _); [eauto|]. cbn [fst].
  rewrite upd_ftok_tok_nth. destruct (Nat.eqb j i); [|eauto].
  destruct (nth_error (fst acc) j) as [p|]; cbn; [|discriminate]. intros H; injection H as <-. eauto.
Qed.

Lemma apply_plan_length plan l : length (apply_plan plan l) = length l.
Proof.
  unfold apply_plan. revert l; induction plan as [|[k d] plan IH]; intros l; cbn [fold_left]; [reflexivity|].
  rewrite IH. apply upd_ftok_length.
Qed.

Lemma zero_line_starts_length l : length (zero_line_starts l) = length l.
Proof. apply map_length. Qed.

Lemma ml_fold_at (P : fmt -> Prop) rs vs acc i :
  at_idx P (fst acc) i -> at_idx P (fst (fold_left (ml_visit rs) vs acc)) i.
Proof.
  revert acc; induction vs as [|k vs IH]; intros acc H; cbn [fold_left]; [exact H|]. apply IH.
  intros q Hq. destruct (ml_visit_snd rs acc k i q Hq) as [p [Hp E]]. rewrite <- E. apply (H p Hp).
Qed.

Lemma respace_nth sp l i q s :
  nth_error l i = Some q -> nth_error sp i = Some s ->
  nth_error (respace sp l) i
  = Some (fst q, mkFmt (f_ignored (snd q)) (f_nl (snd q)) (f_ind (snd q)) (f_cont (snd q))
                       (if 0 <? f_nl (snd q) then 0 else N.min 65535 s)).
Proof.
  revert sp i; induction l as [|[tok f] l IH]; intros sp i Hq Hs; [destruct i; discriminate|].
  destruct sp as [|s0 sp]; [destruct i; discriminate|]. cbn [respace].
  destruct i as [|i]; cbn in *.
  - injection Hq as <-; injection Hs as <-. reflexivity.
  - apply IH; assumption.
Qed.

(* THE canonical-form theorem for decided tokens.  Whatever the two plans are: a token that the first
   plan decides, and that TokenSpacing gave at most one space, ends with canonical formatting data. *)
Theorem olf_effect_decided_canon rs fm visits plan1 plan2 l i p :
  nth_error l i = Some p -> f_sp (snd p) <= 1 -> In i (map fst plan1) ->
  exists q, nth_error (olf_effect rs fm visits plan1 plan2 l) i = Some q /\ canon_tok false q = true.
Proof.
  intros Hp Hsp Hin.
  assert (Hlen : (i < length (olf_effect rs fm visits plan1 plan2 l))%nat).
  { rewrite olf_effect_length. apply (proj1 (nth_error_Some l i)). rewrite Hp; discriminate. }
  destruct (nth_error (olf_effect rs fm visits plan1 plan2 l) i) as [q|] eqn:Hq; [|apply nth_error_None in Hq; lia].
  exists q; split; [reflexivity|]. destruct q as [tok f]. apply canon_f_tok.
  assert (Hdec : forall f d, decided (apply_decision f d)) by apply apply_decision_decided.
  assert (Hs0 : at_idx (fun f => f_sp f <= 1) l i) by (intros x Hx; assert (E : Some x = Some p) by (transitivity (nth_error l i); [symmetry; exact Hx | exact Hp]); injection E as ->; exact Hsp).
  assert (Ha : at_idx canon_f (zero_line_starts (apply_plan plan1 l)) i).
  { apply zero_line_starts_canon; [apply apply_plan_in; auto | apply apply_plan_sp_le; exact Hs0]. }
  assert (Had : at_idx decided (zero_line_starts (apply_plan plan1 l)) i).
  { intros x Hx. unfold zero_line_starts in Hx. rewrite nth_error_map in Hx.
    destruct (nth_error (apply_plan plan1 l) i) as [[t0 f0]|] eqn:E; cbn in Hx; [|discriminate].
    pose proof (apply_plan_in decided plan1 l i Hdec Hin _ E) as D; cbn in D.
    destruct (0 <? f_nl f0); injection Hx as <-; exact D. }
  unfold olf_effect in Hq. destruct fm; [|exact (Ha _ Hq)].
  pose proof (ml_fold_at canon_f rs visits (zero_line_starts (apply_plan plan1 l), false) i Ha) as Hb.
  pose proof (ml_fold_at decided rs visits (zero_line_starts (apply_plan plan1 l), false) i Had) as Hbd.
  fold (ml_stage rs visits (zero_line_starts (apply_plan plan1 l))) in Hb, Hbd.
  assert (X : pointwise (fun _ _ => True) (zero_line_starts (apply_plan plan1 l))
                       (fst (ml_stage rs visits (zero_line_starts (apply_plan plan1 l)))))
    by (apply ml_stage_pointwise; auto).
  destruct X as [Lb _].
  destruct (ml_stage rs visits _) as [b reflowed]; cbn [fst] in Hb, Hbd, Lb.
  destruct reflowed; [|exact (Hb _ Hq)].
  (* reflowed: plan2 then respace *)
  pose proof (apply_plan_keep decided plan2 b i Hdec Hbd) as Hc.
  assert (Hlc : (i < length (apply_plan plan2 b))%nat).
  { rewrite apply_plan_length, Lb, zero_line_starts_length, apply_plan_length. apply (proj1 (nth_error_Some l i)); rewrite Hp; discriminate. }
  destruct (nth_error (apply_plan plan2 b) i) as [[t1 f1]|] eqn:E1; [|apply nth_error_None in E1; lia].
  rewrite (respace_nth _ _ i (t1, f1) (f_sp (snd p)) E1) in Hq.
  2:{ rewrite nth_error_map. change (option_map (fun p0 : ftoken => f_sp (snd p0)) (nth_error l i) = Some (f_sp (snd p))). replace (nth_error l i) with (Some p) by (symmetry; exact Hp). reflexivity. }
  injection Hq as <- <-. specialize (Hc _ E1); cbn in Hc.
  unfold canon_f; cbn. destruct (0 <? f_nl f1) eqn:En.
  - split; [reflexivity|]. destruct Hc as [[A _]|B]; [apply N.ltb_lt in En; lia|lia].
  - apply N.ltb_ge in En. destruct Hc as [[A [B C]]|B]; [|lia]. repeat split; auto; lia.
Qed.

(* ---------- 3. undecided tokens keep their line breaks and indentation ---------- *)
Lemma apply_plan_notin plan l i : ~ In i (map fst plan) -> nth_error (apply_plan plan l) i = nth_error l i.
Proof.
  unfold apply_plan. revert l; induction plan as [|[k d] plan IH]; intros l Hn; cbn [fold_left]; [reflexivity|].
  cbn in Hn. rewrite IH by tauto. rewrite upd_ftok_nth. cbn [fst].
  destruct (Nat.eqb_spec i k) as [->|_]; [tauto|reflexivity].
Qed.

Definition same_layout (p q : ftoken) : Prop :=
  f_nl (snd q) = f_nl (snd p) /\ f_ind (snd q) = f_ind (snd p) /\ f_cont (snd q) = f_cont (snd p)
  /\ (if 0 <? f_nl (snd p) then f_sp (snd q) = 0 else f_sp (snd q) = f_sp (snd p) \/ f_sp (snd q) = N.min 65535 (f_sp (snd p))).

Lemma ml_fold_snd rs vs acc j q :
  nth_error (fst (fold_left (ml_visit rs) vs acc)) j = Some q -> exists p, nth_error (fst acc) j = Some p /\ snd p = snd q.
Proof.
  revert acc q; induction vs as [|k vs IH]; intros acc q H; cbn [fold_left] in H; [eauto|].
  destruct (IH _ _ H) as [p [Hp E]]. destruct (ml_visit_snd rs acc k j p Hp) as [p0 [Hp0 E0]].
  exists p0; split; [exact Hp0|congruence].
Qed.

Theorem olf_effect_undecided rs fm visits plan1 plan2 l i p :
  nth_error l i = Some p -> ~ In i (map fst plan1) -> ~ In i (map fst plan2) ->
  exists q, nth_error (olf_effect rs fm visits plan1 plan2 l) i = Some q /\ same_layout p q.
Proof.
  intros Hp H1 H2.
  assert (Hlen : (i < length (olf_effect rs fm visits plan1 plan2 l))%nat).
  { rewrite olf_effect_length. apply (proj1 (nth_error_Some l i)). rewrite Hp; discriminate. }
  destruct (nth_error (olf_effect rs fm visits plan1 plan2 l) i) as [q|] eqn:Hq; [|apply nth_error_None in Hq; lia].
  exists q; split; [reflexivity|].
  destruct p as [tok f].
  assert (Ha : nth_error (zero_line_starts (apply_plan plan1 l)) i
               = Some (if 0 <? f_nl f then (tok, mkFmt (f_ignored f) (f_nl f) (f_ind f) (f_cont f) 0) else (tok, f))).
  { unfold zero_line_starts. rewrite nth_error_map, apply_plan_notin by exact H1.
    replace (nth_error l i) with (Some (tok, f)) by (symmetry; exact Hp). reflexivity. }
  set (a0 := if 0 <? f_nl f then (tok, mkFmt (f_ignored f) (f_nl f) (f_ind f) (f_cont f) 0) else (tok, f)) in *.
  assert (La : same_layout (tok, f) a0).
  { unfold same_layout, a0; cbn. destruct (0 <? f_nl f) eqn:E; cbn; rewrite ?E; auto. }
  unfold olf_effect in Hq. destruct fm.
  2:{ rewrite Ha in Hq; injection Hq as <-; exact La. }
  pose proof (ml_fold_snd rs visits (zero_line_starts (apply_plan plan1 l), false) i) as Hb.
  fold (ml_stage rs visits (zero_line_starts (apply_plan plan1 l))) in Hb.
  destruct (ml_stage rs visits _) as [b reflowed]; cbn [fst] in Hb.
  destruct reflowed.
  - (* respace (apply_plan plan2 b) *)
    assert (Hl2 : (i < length (apply_plan plan2 b))%nat).
    { destruct (Nat.lt_ge_cases i (length (apply_plan plan2 b))) as [?|Hge]; [assumption|].
      exfalso. revert Hq. generalize (map (fun p0 : ftoken => f_sp (snd p0)) l) as sp. intros sp Hq.
      assert (length (respace sp (apply_plan plan2 b)) = length (apply_plan plan2 b)).
      { apply (respace_pointwise (fun _ _ => True)); auto. }
      assert (nth_error (respace sp (apply_plan plan2 b)) i = None) by (apply nth_error_None; lia). congruence. }
    destruct (nth_error (apply_plan plan2 b) i) as [[t1 f1]|] eqn:E1; [|apply nth_error_None in E1; lia].
    rewrite (respace_nth _ _ i (t1, f1) (f_sp f) E1) in Hq.
    2:{ rewrite nth_error_map. replace (nth_error l i) with (Some (tok, f)) by (symmetry; exact Hp). reflexivity. }
    injection Hq as <-. rewrite apply_plan_notin in E1 by exact H2.
    destruct (Hb _ E1) as [p0 [Hp0 E0]]. rewrite Ha in Hp0; injection Hp0 as <-.
    cbn [snd] in E0. destruct La as [A [B [C D]]]. rewrite E0 in A, B, C. cbn [snd] in A, B, C.
    unfold same_layout; cbn. rewrite A. repeat split; auto. destruct (0 <? f_nl f); auto.
  - destruct (Hb _ Hq) as [p0 [Hp0 E0]]. rewrite Ha in Hp0; injection Hp0 as <-.
    unfold same_layout in *. rewrite <- E0. exact La.
Qed.

(* ---------- non-vacuity: a concrete plan over a three-token line ---------- *)
Example olf_effect_example :
  let tk c := mkToken [32] c TT_Identifier in
  let l := [(tk [97], mkFmt false 0 0 0 0); (tk [98], mkFmt false 3 0 0 1); (tk [99], mkFmt false 0 0 0 1)] in
  map snd (olf_effect (rs_new false false 2 4) true [0;1;2]%nat [(0, DContinue); (1, DBreak true 1 0); (2, DBreak false 1 1)]%nat [] l)
  = [mkFmt false 0 0 0 0; mkFmt false 2 1 0 0; mkFmt false 1 1 1 0].
Proof. vm_compute. reflexivity. Qed.
