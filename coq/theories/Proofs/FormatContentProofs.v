(* Proofs/FormatContentProofs.v — C01 (the non-blank characters survive, up to ASCII case) for the composed model.

   EndToEnd.format_preserves_nonblank holds for ANY chain of admissible stage kinds; here the chain is the composed run's own:
   format_preserves_nonblank_e2e: for valid UTF-8 input, when format_model returns `out`,
       fold_case (strip out) = fold_case (strip input)
   provided the multi-line string re-indentation does not run on this input: `format_multiline_strings` is off, or no token is
   typed TextLiteral(MultiLine).  With it on and such a literal present, the step the wrapper performs is an admissible FWrap
   step by WrapStepProofs.rewrite_is_wrap_step IF the literal starts with a quote and has no line ending inside a U+3000 —
   two facts about the lexer's multi-line literals: they are proved in FormatMLProofs.v, and FormatContentMLProofs.v gives the
   statement without the side condition (format_preserves_nonblank).  This file keeps the simpler argument and the lemmas shared by both. *)
From Coq Require Import Lia.
From PasfmtVerif Require Import Model.Format Model.Pipeline Proofs.FormatProofs Proofs.FormatWrapProofs Proofs.FormatIgnoredProofs
  Proofs.WrapApplyProofs Proofs.LexerProofs Proofs.ReconstructProofs Proofs.RewritersProofs Proofs.PipelineProofs Proofs.EndToEnd
  Proofs.SpacingProofs.
Local Open Scope nat_scope.

Definition no_ml_rewrite (cfg : fconfig) (segs : list seg) : Prop :=
  c_fms cfg = false \/ forall tok, In tok (fm_toks segs) -> is_ml_string (t_ty tok) = false.

Definition same_tok (p q : ftoken) : Prop := fst q = fst p /\ f_ignored (snd q) = f_ignored (snd p).

Lemma same_tok_refl p : same_tok p p.
Proof. split; reflexivity. Qed.
Lemma same_tok_trans x y z : same_tok x y -> same_tok y z -> same_tok x z.
Proof. intros [A1 A2] [B1 B2]. split; congruence. Qed.

Lemma pointwise_Forall2 (R : ftoken -> ftoken -> Prop) : forall l l', pointwise R l l' -> Forall2 R l l'.
Proof.
  induction l as [|p l IH]; intros [|q l'] [L H]; cbn in L; try discriminate; [constructor|].
  constructor.
  - destruct (H 0 p eq_refl) as (q' & Hq & Hr). cbn in Hq. injection Hq as <-. exact Hr.
  - apply IH. split; [congruence|]. intros j p0 Hp. exact (H (S j) p0 Hp).
Qed.

(* the wrapper with the string stage off: counters only *)
Lemma olf_no_ml_same rs W lines l : pointwise same_tok l (fst (fst (olf_model rs W false lines l))).
Proof.
  destruct (olf_model_is_effect rs W false lines l) as (p1 & p2 & ->). unfold olf_effect.
  eapply pointwise_trans; [exact same_tok_trans| |].
  - apply (apply_plan_pointwise same_tok same_tok_refl same_tok_trans). intros tok f nl ind cont sp. split; reflexivity.
  - apply (zero_line_starts_pointwise same_tok same_tok_refl). intros tok f nl ind cont sp. split; reflexivity.
Qed.

Lemma wrap_same_tok alnum cfg segs : no_ml_rewrite cfg segs -> pointwise same_tok (fm_l4 alnum segs) (fm_final alnum cfg segs).
Proof.
  intros [Hf|Hnm]; unfold fm_final, fm_wrap.
  - rewrite Hf. apply olf_no_ml_same.
  - destruct (olf_model_untouched (cfg_rs cfg) (cfg_ws cfg) (c_fms cfg) (fm_lines segs) (fm_l4 alnum segs)) as [L H].
    split; [exact L|]. intros j p Hp. destruct (H j p Hp) as (q & Hq & S & K). exists q. split; [exact Hq|].
    unfold shape in S. injection S as _ I. split; [|exact I]. apply K. right.
    (* the token's type is the type of the composed run's token j *)
    assert (Hj : j < length (fm_l0 segs)).
    { rewrite <- (proj1 (fm_stages_rel alnum cfg segs)). unfold fm_final, fm_wrap. rewrite L. apply nth_error_Some. congruence. }
    destruct (nth_error (fm_l0 segs) j) as [p0|] eqn:E0; [|apply nth_error_None in E0; lia].
    assert (Hty : t_ty (fst p) = t_ty (fst p0)).
    { unfold fm_l4, fm_l3, fm_l2, fm_l1 in Hp.
      assert (Hrel : pointwise stage_rel (fm_l0 segs) (eof_newline_lines (fm_lines segs) (comment_formatter alnum (lowercase_keywords (token_spacing (fm_l0 segs)))))).
      { eapply pointwise_trans; [exact stage_rel_trans|apply spacing_stage|].
        eapply pointwise_trans; [exact stage_rel_trans|apply pointwise_map, lowercase_tok_stage|].
        eapply pointwise_trans; [exact stage_rel_trans|apply pointwise_map, comment_tok_stage|]. apply eof_newline_lines_stage. }
      destruct (proj2 Hrel j p0 E0) as (p' & Hp' & T & _). rewrite Hp in Hp'. injection Hp' as <-. exact T. }
    rewrite Hty. unfold fm_l0 in E0. rewrite nth_error_map in E0.
    destruct (nth_error (combine (fm_toks segs) (fm_marks segs)) j) as [[tok m]|] eqn:Ec; [|discriminate].
    cbn in E0. injection E0 as <-. cbn [fst]. apply Hnm. apply nth_error_In in Ec. apply in_combine_l in Ec. exact Ec.
Qed.

Lemma same_tok_counters p q : same_tok p q -> counters_only p q.
Proof. intros [A B]. split; assumption. Qed.

(* the composed run's formatting half is an admissible chain *)
Theorem fm_chain alnum cfg segs : no_ml_rewrite cfg segs ->
  chain [FCounters; FLower; FComment; FCounters; FCounters] (fm_l0 segs) (fm_final alnum cfg segs).
Proof.
  intros Hn.
  apply (chain_cons FCounters _ (fm_l0 segs) (fm_l1 segs)).
  { cbn [step]. unfold fm_l1. pose proof (spacing_only_sp (fm_l0 segs)) as H.
    assert (G : forall a b, Forall2 same_but_sp a b -> Forall2 counters_only b a).
    { induction 1 as [|q p a b (Hf & n & Hs) _ IH]; constructor; [|exact IH]. split; [exact Hf|]. rewrite Hs. destruct (snd p); reflexivity. }
    apply G, H. }
  apply (chain_cons FLower _ (fm_l1 segs) (fm_l2 segs)); [reflexivity|].
  apply (chain_cons FComment _ (fm_l2 segs) (fm_l3 alnum segs)); [exists alnum; reflexivity|].
  apply (chain_cons FCounters _ (fm_l3 alnum segs) (fm_l4 alnum segs)).
  { cbn [step]. apply pointwise_Forall2. destruct (eof_newline_lines_stage (fm_lines segs) (fm_l3 alnum segs)) as [L H].
    split; [exact L|]. intros j p Hp.
    (* EofNewline keeps the whole token *)
    assert (K : forall lines l, pointwise same_tok l (eof_newline_lines lines l)).
    { clear. unfold eof_newline_lines. induction lines as [|ln r IH]; intros l; cbn [fold_left]; [apply pointwise_refl, same_tok_refl|].
      eapply pointwise_trans; [exact same_tok_trans| |apply IH].
      unfold bid. destruct (ll_type ln); try (apply pointwise_refl, same_tok_refl).
      unfold eof_newline_once. destruct (rev l) as [|[tok f] r0] eqn:E; [apply pointwise_refl, same_tok_refl|].
      destruct (is_eof (t_ty tok)); [|apply pointwise_refl, same_tok_refl].
      assert (El : l = rev r0 ++ [(tok, f)]) by (rewrite <- (rev_involutive l), E; reflexivity).
      rewrite El. split; [rewrite !app_length; reflexivity|].
      intros j p Hp. destruct (PeanoNat.Nat.lt_ge_cases j (length (rev r0))) as [Hlt|Hge].
      - rewrite nth_error_app1 in Hp by exact Hlt. exists p. split; [rewrite nth_error_app1 by exact Hlt; exact Hp|apply same_tok_refl].
      - rewrite nth_error_app2 in Hp by exact Hge. rewrite nth_error_app2 by exact Hge.
        destruct (j - length (rev r0)) as [|k]; cbn in *; [|destruct k; discriminate].
        injection Hp as <-. eexists. split; [reflexivity|]. split; reflexivity. }
    destruct (proj2 (K (fm_lines segs) (fm_l3 alnum segs)) j p Hp) as (q & Hq & Hs). exists q. split; [exact Hq|apply same_tok_counters, Hs]. }
  apply (chain_cons FCounters _ (fm_l4 alnum segs) (fm_final alnum cfg segs)); [|apply chain_nil].
  cbn [step]. apply pointwise_Forall2. destruct (wrap_same_tok alnum cfg segs Hn) as [L H]. split; [exact L|].
  intros j p Hp. destruct (H j p Hp) as (q & Hq & Hs). exists q. split; [exact Hq|apply same_tok_counters, Hs].
Qed.

Lemma fm_l0_carries segs : carries segs (fm_l0 segs).
Proof.
  unfold carries.
  assert (G : forall (a : list seg) (b : list ftoken), length b = length a ->
            (forall i sg, nth_error a i = Some sg -> exists p, nth_error b i = Some p /\ t_ws (fst p) = fst (fst sg) /\ t_content (fst p) = snd (fst sg)) ->
            Forall2 (fun (sg : seg) (p : ftoken) => t_ws (fst p) = fst (fst sg) /\ t_content (fst p) = snd (fst sg)) a b).
  { induction a as [|sg a IH]; intros [|p b] L H; cbn in L; try discriminate; [constructor|]. constructor.
    - destruct (H 0 sg eq_refl) as (p' & Hp & Hr). cbn in Hp. injection Hp as <-. exact Hr.
    - apply IH; [congruence|]. intros i sg0 Hi. exact (H (S i) sg0 Hi). }
  apply G; [apply fm_l0_length|].
  intros i sg Hs. assert (Hm : i < length (fm_marks segs)) by (rewrite fm_marks_length; apply nth_error_Some; intros Hx; pose proof (eq_trans (eq_sym Hs) Hx) as Hy; discriminate Hy).
  destruct (nth_error (fm_marks segs) i) as [m|] eqn:Em; [|apply nth_error_None in Em; lia].
  destruct (fm_l0_nth segs i sg m Hs Em) as (tok & H0 & Hw & Hc). eexists. split; [exact H0|]. cbn [fst]. split; assumption.
Qed.

(* C01, end to end *)
Theorem format_preserves_nonblank_e2e alnum cfg s out :
  valid_utf8 s = true ->
  format_model alnum cfg s = inl out ->
  (forall segs, lex_segments s = Some segs -> no_ml_rewrite cfg segs) ->
  fold_case (strip out) = fold_case (strip s).
Proof.
  intros Hv H Hn. apply format_model_spec in H. destruct H as (segs & Hl & _ & _ & _ & ->).
  specialize (Hn segs Hl). unfold lex_segments in Hl. destruct (lex s) as [toks|] eqn:E; [|discriminate]. injection Hl as <-.
  unfold fm_out. eapply format_preserves_nonblank; [exact Hv|exact E|apply fm_l0_carries|apply fm_chain, Hn|apply rs_of_config_wf].
Qed.

Corollary format_preserves_nonblank_fms_off alnum cfg s out :
  valid_utf8 s = true -> c_fms cfg = false -> format_model alnum cfg s = inl out ->
  fold_case (strip out) = fold_case (strip s).
Proof. intros Hv Hf H. eapply format_preserves_nonblank_e2e; [exact Hv|exact H|]. intros segs _. left. exact Hf. Qed.

(* non-vacuity: an input with keywords to lower-case and a comment to normalise; the string stage is ON and there is no multi-line literal *)
Example format_preserves_nonblank_example :
  let s := [66;69;71;73;78; 32; 47;47;120; 10; 69;78;68; 46]%N in          (* "BEGIN //x\nEND." *)
  let cfg := mkCfg 120 false true false 2 2 false in
  valid_utf8 s = true
  /\ match lex_segments s with Some segs => forallb (fun tok => negb (is_ml_string (t_ty tok))) (fm_toks segs) = true | None => False end
  /\ format_model (fun _ => false) cfg s = inl [98;101;103;105;110; 32; 47;47;32;120; 10; 101;110;100; 46; 10]%N.
Proof. vm_compute. repeat split; reflexivity. Qed.

Print Assumptions format_preserves_nonblank_e2e.
