(* Proofs/FormatLayoutProofs.v — C09 and C14/C08 for the composed model.

   C09  format_line_breaks: in the output of format_model, what stands in front of the content of a token the formatter
        decides (not ignored) is k times the CONFIGURED line ending followed by bytes that are spaces or tabs only; the
        only other places a CR or LF can come from are token contents and the leading whitespace of ignored tokens,
        which are the input's (FormatIgnoredProofs).  Hence also: nothing but a token's content or an ignored token's
        own whitespace stands in front of a line break the formatter emits (C08: the reconstructor never ends a line
        with blanks of its own).
        format_crlf_is_subst: with format_multiline_strings off, the crlf output and the lf output of the same input
        are the renderings of ONE piece list with [13;10] resp. [10] for every emitted break (lift of
        recon_crlf_is_subst: the whole chain in front of the reconstructor does not read the line ending).
   C14/C08  format_ends_with_newline: if the final vector's last token is the Eof token with counters (1,0,0,0)
        (Canon.eof_canon: what EofNewline writes, and the wrapper leaves alone when the Eof token is in no formatted
        line), the output is the text of all other tokens followed by exactly one configured line ending.
        format_eofnl_sets_canon: the state BEFORE the wrapper has that shape whenever an Eof line survived the voiding.
        The link that is missing for an unconditional statement: that the search model's decisions never touch a token
        that is only in a parentless Eof line (sol_deep in WrapSearchDeepProofs does not record where child lines
        come from) — it stays the monitored predicate `eofcanon` of the driver. *)
From Coq Require Import Lia.
From PasfmtVerif Require Import Proofs.LexerProofs Proofs.FormatRescanProofs.
From PasfmtVerif Require Import Model.Format Model.Canon Proofs.FormatProofs Proofs.FormatWrapProofs Proofs.FormatIgnoredProofs
  Proofs.WrapApplyProofs Proofs.ReconstructProofs Proofs.MLStringProofs Proofs.WrapStepProofs Proofs.ToggleProofs.
Local Open Scope nat_scope.

(* ------------------------------------------------------------------ *)
(* the part of a decided token *)
Definition sp_tabs (b : bytes) : Prop := forallb sp_tab b = true.

Lemma sp_tabs_app a b : sp_tabs a -> sp_tabs b -> sp_tabs (a ++ b).
Proof. unfold sp_tabs. intros Ha Hb. rewrite forallb_app, Ha, Hb. reflexivity. Qed.

Lemma sp_tabs_repeat n s : sp_tabs s -> sp_tabs (repeat_app n s).
Proof. intros H. induction n as [|n IH]; [reflexivity|]. cbn [repeat_app]. apply sp_tabs_app; assumption. Qed.

Lemma sp_tabs_nrepeat n s : sp_tabs s -> sp_tabs (nrepeat n s).
Proof. apply sp_tabs_repeat. Qed.

Lemma sp_tabs_no_break b : sp_tabs b -> has_break b = false.
Proof.
  unfold sp_tabs, has_break, contains_byte. induction b as [|x r IH]; intros H; [reflexivity|].
  cbn [forallb existsb] in *. apply andb_true_iff in H. destruct H as [Hx Hr].
  specialize (IH Hr). apply orb_false_iff in IH. destruct IH as [I1 I2]. rewrite I1, I2, !orb_false_r.
  unfold sp_tab in Hx. apply orb_true_iff in Hx.
  destruct Hx as [Hx|Hx]; apply N.eqb_eq in Hx; subst x; reflexivity.
Qed.

Lemma recon_parts_decided rs : rs_ok rs -> forall l mb i tok f,
  nth_error l i = Some (tok, f) -> f_ignored f = false ->
  exists k blanks, nth_error (recon_parts rs mb l) i = Some (nrepeat k (rs_newline rs) ++ blanks, t_content tok)
                   /\ sp_tabs blanks
                   /\ (k = f_nl f \/ (k = 1%N /\ f_nl f = 0%N)).
Proof.
  intros (_ & Hi & Hc). induction l as [|p r IH]; intros mb i tok f H Hf; [destruct i; discriminate|].
  destruct i as [|i]; cbn [nth_error recon_parts] in *.
  - injection H as ->. cbn [emit_ws fst]. rewrite Hf.
    eexists _, _. split; [reflexivity|]. split.
    + apply sp_tabs_app; [apply sp_tabs_nrepeat, Hi|]. apply sp_tabs_app; [apply sp_tabs_nrepeat, Hc|apply sp_tabs_nrepeat; reflexivity].
    + destruct (mb && (f_nl f =? 0)%N && negb (is_eof (t_ty tok))) eqn:E; [right|left; reflexivity].
      split; [reflexivity|]. apply andb_true_iff in E. destruct E as [E _]. apply andb_true_iff in E. destruct E as [_ E].
      apply N.eqb_eq in E. exact E.
  - exact (IH _ i tok f H Hf).
Qed.

Lemma cfg_rs_ok cfg : rs_ok (cfg_rs cfg).
Proof. apply rs_of_config_ok. Qed.

(* C09: every line break the formatter emits is the configured one; blanks of the formatter's own never precede it *)
Theorem format_line_breaks alnum cfg s out :
  format_model alnum cfg s = inl out ->
  exists segs parts,
    lex_segments s = Some segs /\ length parts = length segs /\ out = flatten_parts parts
    /\ forall i sg, nth_error segs i = Some sg ->
         (nth_error (fm_marks segs) i = Some true ->
            exists nl, nth_error parts i = Some (nl ++ seg_ws sg, seg_content sg) /\ (nl = [] \/ nl = rs_newline (cfg_rs cfg)))
         /\ (nth_error (fm_marks segs) i = Some false ->
            exists k blanks body, nth_error parts i = Some (nrepeat k (rs_newline (cfg_rs cfg)) ++ blanks, body) /\ sp_tabs blanks).
Proof.
  intros H. pose proof H as H0. apply format_model_spec in H. destruct H as (segs & Hl & _ & _ & _ & ->).
  exists segs, (recon_parts (cfg_rs cfg) false (fm_final alnum cfg segs)).
  split; [exact Hl|]. split; [rewrite recon_parts_length; apply fm_final_length|].
  split; [unfold fm_out, reconstruct; apply recon_is_parts|].
  intros i sg Hs. split; intros Hm.
  - destruct (fm_final_ignored alnum cfg segs i sg Hs Hm) as (tok & f & Hn & Hw & Hc & Hi).
    destruct (recon_parts_ignored (cfg_rs cfg) _ false i tok f Hn Hi) as (nl & Hp & Hnl).
    exists nl. rewrite <- Hw, <- Hc. split; assumption.
  - destruct (fm_l0_nth segs i sg false Hs Hm) as (tok & H1 & _ & _).
    destruct (proj2 (fm_stages_rel alnum cfg segs) i _ H1) as ([tok' f'] & Hq & _ & I & _). cbn [fst snd] in I.
    assert (Hi : f_ignored f' = false) by (rewrite I; reflexivity).
    destruct (recon_parts_decided (cfg_rs cfg) (cfg_rs_ok cfg) _ false i tok' f' Hq Hi) as (k & blanks & Hp & Hb & _).
    exists k, blanks, (t_content tok'). split; assumption.
Qed.

(* ------------------------------------------------------------------ *)
(* C09: crlf vs lf *)
Definition with_crlf (cfg : fconfig) (b : bool) : fconfig :=
  mkCfg (c_wrap cfg) (c_begin_always cfg) (c_fms cfg) (c_tabs cfg) (c_tab_width cfg) (c_cont cfg) b.

Lemma cfg_rs_with_crlf cfg b : cfg_rs (with_crlf cfg b) = with_newline (cfg_rs cfg) (if b then [13; 10] else [10])%N.
Proof. unfold cfg_rs, with_crlf, rs_of_config, rs_new, with_newline. cbn. destruct (c_tabs cfg); reflexivity. Qed.

Lemma cfg_ws_with_crlf cfg b : cfg_ws (with_crlf cfg b) = cfg_ws cfg.
Proof. unfold cfg_ws, wsettings_of. rewrite cfg_rs_with_crlf. reflexivity. Qed.

(* without the string re-indentation the wrapper does not read the reconstruction settings at all *)
Lemma olf_model_no_ml_rs rs rs' W lines l : olf_model rs W false lines l = olf_model rs' W false lines l.
Proof. reflexivity. Qed.

Lemma fm_final_with_crlf alnum cfg b segs : c_fms cfg = false -> fm_final alnum (with_crlf cfg b) segs = fm_final alnum cfg segs.
Proof.
  intros Hf. unfold fm_final, fm_wrap. rewrite cfg_ws_with_crlf. cbn [with_crlf c_fms]. rewrite Hf. reflexivity.
Qed.

Theorem format_crlf_is_subst alnum cfg s :
  c_fms cfg = false ->
  (exists pieces, format_model alnum (with_crlf cfg true) s = inl (render [13; 10]%N pieces)
                  /\ format_model alnum (with_crlf cfg false) s = inl (render [10]%N pieces))
  \/ (exists e, format_model alnum (with_crlf cfg true) s = inr e /\ format_model alnum (with_crlf cfg false) s = inr e).
Proof.
  intros Hf. rewrite !format_model_eq. destruct (lex_segments s) as [segs|]; [|right; eauto].
  destruct (r_err (fm_parse segs)) as [pe|]; [right; eauto|].
  destruct (expand_all_chk _ _); [|right; eauto].
  assert (Hw : forall b, snd (fm_wrap alnum (with_crlf cfg b) segs) = snd (fm_wrap alnum cfg segs)).
  { intros b. unfold fm_wrap. rewrite cfg_ws_with_crlf. cbn [with_crlf c_fms]. rewrite Hf. reflexivity. }
  rewrite !Hw. destruct (snd (fm_wrap alnum cfg segs)); [right; eauto|]. left.
  exists (recon_pieces (cfg_rs cfg) false (fm_final alnum cfg segs)).
  unfold fm_out, reconstruct. rewrite !fm_final_with_crlf by exact Hf. rewrite !cfg_rs_with_crlf.
  destruct (recon_crlf_is_subst (cfg_rs cfg) false (fm_final alnum cfg segs)) as [A B]. rewrite A, B. split; reflexivity.
Qed.

(* ------------------------------------------------------------------ *)
(* C14/C08: the end of the output *)
Lemma eof_canon_spec l : eof_canon l = true ->
  exists r tok f, l = r ++ [(tok, f)] /\ is_eof (t_ty tok) = true /\ t_content tok = []
                  /\ f_nl f = 1%N /\ f_ind f = 0%N /\ f_cont f = 0%N /\ f_sp f = 0%N.
Proof.
  unfold eof_canon. destruct (rev l) as [|[tok f] r] eqn:E; [discriminate|]. intros H.
  repeat (apply andb_true_iff in H; destruct H as [H ?]).
  exists (rev r), tok, f. split; [rewrite <- (rev_involutive l), E; reflexivity|].
  repeat match goal with H : (_ =? _)%N = true |- _ => apply N.eqb_eq in H end.
  destruct (t_content tok); [|discriminate]. repeat split; assumption.
Qed.

Lemma recon_snoc_eof rs : forall r mb tok f,
  is_eof (t_ty tok) = true -> t_content tok = [] -> f_ignored f = false ->
  f_nl f = 1%N -> f_ind f = 0%N -> f_cont f = 0%N -> f_sp f = 0%N ->
  recon rs mb (r ++ [(tok, f)]) = recon rs mb r ++ rs_newline rs.
Proof.
  intros r mb tok f He Hc Hi Hn Hd Ho Hs. rewrite recon_app. f_equal. cbn [recon emit_ws fst]. rewrite Hi, Hn, Hd, Ho, Hs, He, Hc.
  cbn. rewrite andb_false_r. cbn. change (Pos.to_nat 1) with 1. cbn [repeat_app]. rewrite !app_nil_r. reflexivity.
Qed.

Theorem format_ends_with_newline alnum cfg s out :
  format_model alnum cfg s = inl out ->
  forall segs, lex_segments s = Some segs ->
  eof_canon (fm_final alnum cfg segs) = true ->
  nth_error (fm_marks segs) (length segs - 1) = Some false ->
  out = recon (cfg_rs cfg) false (removelast (fm_final alnum cfg segs)) ++ rs_newline (cfg_rs cfg).
Proof.
  intros H segs Hl Hc Hm. apply format_model_spec in H. destruct H as (segs' & Hl' & _ & _ & _ & ->).
  rewrite Hl in Hl'. injection Hl' as <-.
  destruct (eof_canon_spec _ Hc) as (r & tok & f & E & He & Hcn & Hn & Hd & Ho & Hs).
  unfold fm_out, reconstruct. rewrite E, removelast_last.
  apply recon_snoc_eof; try assumption.
  (* the Eof token is not ignored: its mark is false and the stages keep the mark *)
  assert (Hlen : length segs = S (length r)).
  { rewrite <- (fm_final_length alnum cfg segs), E, app_length. cbn. lia. }
  rewrite Hlen in Hm. replace (S (length r) - 1) with (length r) in Hm by lia.
  destruct (nth_error segs (length r)) as [sg|] eqn:Es; [|apply nth_error_None in Es; lia].
  destruct (fm_l0_nth segs (length r) sg false Es Hm) as (tok0 & H0 & _ & _).
  destruct (proj2 (fm_stages_rel alnum cfg segs) _ _ H0) as (q & Hq & _ & I & _).
  rewrite E, nth_error_app2, PeanoNat.Nat.sub_diag in Hq by lia. cbn in Hq. injection Hq as <-. cbn [snd] in I. rewrite I. reflexivity.
Qed.

(* what EofNewline leaves: if some line is an Eof line, the last token — when it is the Eof token — has (1,0,0,0) *)
Lemma eof_newline_once_last l r tok f :
  l = r ++ [(tok, f)] -> is_eof (t_ty tok) = true ->
  eof_newline_once l = r ++ [(tok, mkFmt (f_ignored f) 1 0 0 0)].
Proof.
  intros -> He. unfold eof_newline_once. rewrite rev_app_distr. cbn [rev app]. rewrite He, rev_involutive. reflexivity.
Qed.

Lemma eof_newline_lines_last lines : forall l r tok f,
  l = r ++ [(tok, f)] -> is_eof (t_ty tok) = true ->
  existsb (fun ln => ll_type ln IS LLT_Eof) lines = true ->
  eof_newline_lines lines l = r ++ [(tok, mkFmt (f_ignored f) 1 0 0 0)].
Proof.
  unfold eof_newline_lines.
  assert (Hdone : forall lines r tok g, is_eof (t_ty tok) = true ->
            fold_left (fun l ln => if ll_type ln IS LLT_Eof then eof_newline_once l else l) lines (r ++ [(tok, mkFmt g 1 0 0 0)])
            = r ++ [(tok, mkFmt g 1 0 0 0)]).
  { induction lines0 as [|ln rest IH]; intros r tok g He; [reflexivity|]. cbn [fold_left].
    destruct (ll_type ln IS LLT_Eof); [|apply IH, He].
    rewrite (eof_newline_once_last _ r tok (mkFmt g 1 0 0 0) eq_refl He). cbn [f_ignored]. apply IH, He. }
  induction lines as [|ln rest IH]; intros l r tok f El He Hex; [discriminate|].
  cbn [existsb fold_left] in *. destruct (ll_type ln IS LLT_Eof) eqn:Et.
  - rewrite (eof_newline_once_last l r tok f El He). apply Hdone, He.
  - cbn [orb] in Hex. exact (IH l r tok f El He Hex).
Qed.

Theorem format_eofnl_sets_canon alnum segs r tok f :
  fm_l3 alnum segs = r ++ [(tok, f)] -> is_eof (t_ty tok) = true ->
  existsb (fun ln => ll_type ln IS LLT_Eof) (fm_lines segs) = true ->
  fm_l4 alnum segs = r ++ [(tok, mkFmt (f_ignored f) 1 0 0 0)].
Proof. intros E He Hx. unfold fm_l4. exact (eof_newline_lines_last _ _ r tok f E He Hx). Qed.

(* the lexer's last token is the Eof token (empty content), and it is the only one *)
Lemma lexed_last_eof toks s : lexed toks s ->
  exists r ws, segments toks s = r ++ [(ws, [], RTT_Eof)] /\ Forall (fun sg : seg => seg_ty sg <> RTT_Eof) r.
Proof.
  induction 1 as [ws Hws|ws b c rest ty toks Hws Hb Hu Hty Hl IH].
  - exists [], ws. rewrite segments_eof. split; [reflexivity|constructor].
  - destruct IH as (r & ws' & E & F). exists ((ws, b :: c, ty) :: r), ws'. rewrite segments_tok, E. split; [reflexivity|].
    constructor; [exact Hty|exact F].
Qed.

Theorem lex_last_is_eof s segs : lex_segments s = Some segs ->
  exists r ws, segs = r ++ [(ws, [], RTT_Eof)] /\ Forall (fun sg : seg => seg_ty sg <> RTT_Eof) r.
Proof.
  unfold lex_segments. destruct (lex s) as [toks|] eqn:E; [|discriminate]. intros [= <-].
  apply lexed_last_eof, lex_lexed, E.
Qed.

Lemma eof_tok_untouched alnum tok f : t_ty tok = TT_Eof -> fst (comment_tok alnum (lowercase_tok (tok, f))) = tok.
Proof.
  intros Ht. unfold lowercase_tok. destruct (f_ignored f) eqn:I.
  - unfold comment_tok. rewrite I. reflexivity.
  - rewrite Ht. cbn [is_keyword andb]. unfold comment_tok. rewrite I, Ht. reflexivity.
Qed.

(* hence, unconditionally: if an Eof line survived the voiding, the vector handed to the wrapper ends in the Eof token with
   empty text and the counters (1,0,0,0) *)
Theorem fm_l4_eof_canon alnum s segs :
  lex_segments s = Some segs ->
  existsb (fun ln => ll_type ln IS LLT_Eof) (fm_lines segs) = true ->
  exists r tok m, fm_l4 alnum segs = r ++ [(tok, mkFmt m 1 0 0 0)] /\ is_eof (t_ty tok) = true /\ t_content tok = []
                  /\ nth_error (fm_marks segs) (length segs - 1) = Some m.
Proof.
  intros Hl Hx. destruct (lex_last_is_eof s segs Hl) as (r0 & ws & E & _).
  assert (Hlen : length segs = S (length r0)) by (rewrite E, app_length; cbn; lia).
  assert (Hs : nth_error segs (length r0) = Some (ws, [], RTT_Eof)).
  { rewrite E, nth_error_app2, PeanoNat.Nat.sub_diag by lia. reflexivity. }
  destruct (FormatRescanProofs.fm_toks_class segs (length r0) _ Hs) as (tok0 & Ht0 & _ & Hc0 & Hcl0).
  assert (Hty0 : t_ty tok0 = TT_Eof).
  { cbn [Format.seg_ty snd] in Hcl0. destruct (t_ty tok0); cbn in Hcl0; try discriminate. reflexivity. }
  assert (Hm : length r0 < length (fm_marks segs)) by (rewrite fm_marks_length; lia).
  destruct (nth_error (fm_marks segs) (length r0)) as [m|] eqn:Em; [|apply nth_error_None in Em; lia].
  assert (H0 : nth_error (fm_l0 segs) (length r0) = Some (tok0, fmt_of_ws (t_ws tok0) m))
    by (unfold fm_l0; rewrite nth_error_map, (ToggleProofs.combine_nth_error _ _ _ _ _ Ht0 Em); reflexivity).
  destruct (proj2 (FormatRescanProofs.spacing_fst (fm_l0 segs)) _ _ H0) as ([t1 f1] & H1 & F1 & I1). cbn [fst snd] in F1, I1. subst t1.
  assert (H3 : nth_error (fm_l3 alnum segs) (length r0) = Some (comment_tok alnum (lowercase_tok (tok0, f1)))).
  { unfold fm_l3, fm_l2, fm_l1, comment_formatter, lowercase_keywords. rewrite !nth_error_map, H1. reflexivity. }
  assert (H3len : length (fm_l3 alnum segs) = S (length r0)).
  { unfold fm_l3, fm_l2, fm_l1, comment_formatter, lowercase_keywords. rewrite !map_length.
    rewrite (proj1 (spacing_stage (fm_l0 segs))), fm_l0_length. exact Hlen. }
  destruct (exists_last (l := fm_l3 alnum segs)) as (r & [tok f] & E3); [intros E0; rewrite E0 in H3len; discriminate|].
  assert (Hr : length r = length r0) by (rewrite E3, app_length in H3len; cbn in H3len; lia).
  rewrite E3, nth_error_app2, Hr, PeanoNat.Nat.sub_diag in H3 by lia. cbn [nth_error] in H3.
  assert (H3' : (tok, f) = comment_tok alnum (lowercase_tok (tok0, f1))) by congruence. clear H3. rename H3' into H3.
  assert (Etok : tok = tok0).
  { pose proof (f_equal fst H3) as Hf. cbn [fst] in Hf. rewrite Hf. apply eof_tok_untouched, Hty0. }
  assert (Ef : f_ignored f = m).
  { destruct (comment_tok_stage alnum (lowercase_tok (tok0, f1))) as (_ & A & _).
    destruct (lowercase_tok_stage (tok0, f1)) as (_ & B & _). rewrite <- H3 in A. cbn [snd] in A, B.
    rewrite A, B, I1. reflexivity. }
  subst tok. assert (He : is_eof (t_ty tok0) = true) by (rewrite Hty0; reflexivity).
  exists r, tok0, m. split; [rewrite <- Ef; apply (format_eofnl_sets_canon alnum segs r tok0 f E3 He Hx)|]. split; [exact He|].
  split; [rewrite Hc0; reflexivity|]. rewrite Hlen. replace (S (length r0) - 1) with (length r0) by lia. exact Em.
Qed.

(* non-vacuity: `A;` — the hypotheses of format_ends_with_newline hold, and the output is the text of `A;` and one LF *)
Example format_ends_with_newline_example :
  let s := [65; 59]%N in
  let cfg := mkCfg 120 false true false 2 2 false in
  match lex_segments s with
  | Some segs => eof_canon (fm_final (fun _ => false) cfg segs) = true
                 /\ nth_error (fm_marks segs) (length segs - 1) = Some false
                 /\ format_model (fun _ => false) cfg s = inl [65; 59; 10]%N
                 /\ recon (cfg_rs cfg) false (removelast (fm_final (fun _ => false) cfg segs)) = [65; 59]%N
  | None => False
  end.
Proof. vm_compute. repeat split; reflexivity. Qed.

Example format_crlf_is_subst_example :
  let cfg := mkCfg 120 false false false 2 2 false in
  format_model (fun _ => false) (with_crlf cfg true) [65; 59; 66; 59]%N = inl [65; 59; 13; 10; 66; 59; 13; 10]%N
  /\ format_model (fun _ => false) (with_crlf cfg false) [65; 59; 66; 59]%N = inl [65; 59; 10; 66; 59; 10]%N.
Proof. vm_compute. split; reflexivity. Qed.

Print Assumptions format_line_breaks.
Print Assumptions format_crlf_is_subst.
Print Assumptions format_ends_with_newline.
Print Assumptions fm_l4_eof_canon.
