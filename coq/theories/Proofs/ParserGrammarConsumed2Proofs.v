(* Proofs/ParserGrammarConsumed2Proofs.v — after the repair of F39: a wider sufficient condition for
   "the pass is consumed" that also covers files with a program head (`unit x;` pushes a context that
   is never popped, so the caller's pop removes it and the TopLevelStatement context stays behind).
   A stack is harmless in front of a token that is not `;` if its entries are not marked as ended and
   end never or only on a top-level `;`. *)
From PasfmtVerif Require Import Model.ParserGrammar Proofs.ParserKernelProofs Proofs.ParserGrammarProofs
  Proofs.ParserGrammarTypesProofs Proofs.ParserGrammarConsumedProofs.
Local Open Scope nat_scope.

Section Consumed2.
Variable pass : list nat.
Variable wsnl : list bool.

Definition harmless_stack (s : pstate pass) : Prop :=
  Forall (fun c => (c_pred (fst c) = P_never \/ c_pred (fst c) = P_top_semicolon) /\ snd c = false) (ps_ctx pass s).
Lemma harmless_stack_not_ending s :
  harmless_stack s -> cur_tt pass s <> Some (RTT_Op OK_Semicolon) -> is_ending pass s = false.
Proof.
  intros H Hc. unfold harmless_stack, is_ending, ending_ctx in *. generalize 0.
  induction (ps_ctx pass s) as [|[c e] r IH]; intros d; [reflexivity|].
  pose proof (Forall_inv H) as [Hp He]. cbn in Hp, He. subst e. cbn [ending_go].
  assert (E : eval_pred pass (c_pred c) s = false).
  { destruct Hp as [-> | ->]; cbn [eval_pred]; [reflexivity|].
    destruct (cur_tt pass s) as [[o| | | | | | | | | |]|]; try reflexivity. destruct o; try reflexivity. exfalso. apply Hc. reflexivity. }
  rewrite E. destruct (c_opaque c); [reflexivity|]. apply IH. exact (Forall_inv_tail H).
Qed.
Theorem parse_pass_consumed_harmless toks attr :
  pass_in_range pass toks -> eof_only_last pass toks ->
  ps_err pass (parse_pass pass wsnl toks attr) = None ->
  harmless_stack (top_exit pass wsnl toks attr) ->
  cur_tt pass (top_exit pass wsnl toks attr) <> Some (RTT_Op OK_Semicolon) ->
  length pass <= pidx pass (parse_pass pass wsnl toks attr).
Proof.
  intros Hr He Herr Hh Hc. destruct (parse_pass_consumed_or_ending pass wsnl toks attr Hr He Herr) as [H|[H _]]; [exact H|].
  rewrite (harmless_stack_not_ending _ Hh Hc) in H. discriminate.
Qed.
End Consumed2.

(* `unit a; b := c;`: the exit stack is [TopLevelStatement], not never-ending but harmless *)
Example parse_pass_consumed_harmless_example :
  let pass := seq 0 8 in
  let toks := [RTT_Keyword KK_Unit; RTT_Identifier; RTT_Op OK_Semicolon; RTT_Identifier; RTT_Op OK_Assign; RTT_Identifier;
               RTT_Op OK_Semicolon; RTT_Eof] in
  ps_err pass (parse_pass pass [] toks []) = None
  /\ map (fun c => c_type (fst c)) (ps_ctx pass (top_exit pass [] toks [])) = [CT_TopLevelStatement]
  /\ harmless_stack pass (top_exit pass [] toks [])
  /\ cur_tt pass (top_exit pass [] toks []) = None.
Proof.
  vm_compute. split; [reflexivity|]. split; [reflexivity|]. split; [|reflexivity].
  constructor; [split; [right; reflexivity|reflexivity]|constructor].
Qed.
