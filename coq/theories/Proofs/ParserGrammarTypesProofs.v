(* Proofs/ParserGrammarTypesProofs.v — what the grammar model does to token types and where it skips.
   A. `run_retype_ok`: every call of the grammar (and every leaf, and parse_file) only RE-TYPES tokens
      within their lexical class: the token vector keeps its length and every type moves along
      `retype_ok`, the reflexive-transitive closure of exactly the re-typings in the code.
   B. `run_skips_ok`: every `S` event (skip_token) of a pass was emitted at a pass position whose token
      is a CompilerDirective — the second side condition of C14_final_lines_cover, for every input.
   Both come from ONE induction over `run` (relation `Q`); the leaves satisfy the stronger `RS`
   (re-typing only, and the list of skipped positions unchanged). *)
From PasfmtVerif Require Import Model.ParserGrammar Proofs.ParserKernelProofs Proofs.ParserGrammarProofs.
Local Open Scope nat_scope.

(* ================================================================== *)
(* the re-typings *)
Inductive retype1 : RawTokenType -> RawTokenType -> Prop :=
  | RT_iok_ident k : retype1 (RTT_IdentifierOrKeyword k) RTT_Identifier          (* consolidate_current_ident, end of pass *)
  | RT_iok_kw k : retype1 (RTT_IdentifierOrKeyword k) (RTT_Keyword k)             (* consolidate_*_keyword, portability *)
  | RT_in a b : retype1 (RTT_Keyword (KK_In a)) (RTT_Keyword (KK_In b))           (* In(ForLoop), In(Import) *)
  | RT_in_ident a : retype1 (RTT_Keyword (KK_In a)) RTT_Identifier                (* class operator In *)
  | RT_const a b : retype1 (RTT_Keyword (KK_Const a)) (RTT_Keyword (KK_Const b))  (* set_current_decl_kind, `of const` *)
  | RT_var a b : retype1 (RTT_Keyword (KK_Var a)) (RTT_Keyword (KK_Var b))
  | RT_equal a b : retype1 (RTT_Op (OK_Equal a)) (RTT_Op (OK_Equal b))
  | RT_caret a b : retype1 (RTT_Op (OK_Caret a)) (RTT_Op (OK_Caret b)).
Inductive retype_ok : RawTokenType -> RawTokenType -> Prop :=
  | RO_refl t : retype_ok t t
  | RO_step a b c : retype_ok a b -> retype1 b c -> retype_ok a c.
Lemma retype_ok_1 a b : retype1 a b -> retype_ok a b.
Proof. intros H. eapply RO_step; [apply RO_refl|exact H]. Qed.
Lemma retype_ok_trans a b c : retype_ok a b -> retype_ok b c -> retype_ok a c.
Proof. intros H1 H2. induction H2 as [|b c d _ IH H]; [exact H1|]. eapply RO_step; [apply IH, H1|exact H]. Qed.
#[export] Hint Resolve RO_refl retype_ok_1 : rtdb.
#[export] Hint Constructors retype1 : rtdb.

(* what the closure can reach: same lexical class, only the listed kind arguments may change *)
Definition kk_sim (k k' : KeywordKind) : Prop :=
  k = k' \/ match k, k' with
            | KK_In _, KK_In _ | KK_Const _, KK_Const _ | KK_Var _, KK_Var _ => True
            | _, _ => False end.
Definition op_sim (o o' : OperatorKind) : Prop :=
  o = o' \/ match o, o' with OK_Equal _, OK_Equal _ | OK_Caret _, OK_Caret _ => True | _, _ => False end.
Definition retype_shape (a b : RawTokenType) : Prop :=
  match a with
  | RTT_IdentifierOrKeyword k =>
      b = a \/ b = RTT_Identifier \/ exists k', b = RTT_Keyword k' /\ kk_sim k k'
  | RTT_Keyword k =>
      (exists k', b = RTT_Keyword k' /\ kk_sim k k') \/ (b = RTT_Identifier /\ exists i, k = KK_In i)
  | RTT_Op o => exists o', b = RTT_Op o' /\ op_sim o o'
  | _ => b = a
  end.
Lemma kk_sim_refl k : kk_sim k k. Proof. left; reflexivity. Qed.
Lemma op_sim_refl o : op_sim o o. Proof. left; reflexivity. Qed.
Lemma kk_sim_in k i : kk_sim k (KK_In i) -> exists j, k = KK_In j.
Proof. intros [->|H]; [eauto|]. destruct k; try contradiction. eauto. Qed.
Lemma kk_sim_in2 k a b : kk_sim k (KK_In a) -> kk_sim k (KK_In b).
Proof. intros [->|H]; [right; exact I|]. right. destruct k; try contradiction; exact I. Qed.
Lemma kk_sim_const2 k a b : kk_sim k (KK_Const a) -> kk_sim k (KK_Const b).
Proof. intros [->|H]; [right; exact I|]. right. destruct k; try contradiction; exact I. Qed.
Lemma kk_sim_var2 k a b : kk_sim k (KK_Var a) -> kk_sim k (KK_Var b).
Proof. intros [->|H]; [right; exact I|]. right. destruct k; try contradiction; exact I. Qed.
Lemma op_sim_equal2 o a b : op_sim o (OK_Equal a) -> op_sim o (OK_Equal b).
Proof. intros [->|H]; [right; exact I|]. right. destruct o; try contradiction; exact I. Qed.
Lemma op_sim_caret2 o a b : op_sim o (OK_Caret a) -> op_sim o (OK_Caret b).
Proof. intros [->|H]; [right; exact I|]. right. destruct o; try contradiction; exact I. Qed.
Lemma retype_shape_refl t : retype_shape t t.
Proof.
  destruct t; cbn; auto.
  - eexists; split; [reflexivity|apply op_sim_refl].
  - left. eexists; split; [reflexivity|apply kk_sim_refl].
Qed.
Ltac shape_dec :=
  repeat match goal with
         | H : _ \/ _ |- _ => destruct H
         | H : exists _, _ |- _ => destruct H
         | H : _ /\ _ |- _ => destruct H
         end.
Lemma retype_shape_step a b c : retype_shape a b -> retype1 b c -> retype_shape a c.
Proof.
  intros S H. destruct H; destruct a; cbn in S |- *; shape_dec; try discriminate;
    repeat match goal with H : _ = _ |- _ => injection H; clear H; intros; subst end.
  all: eauto 8 using kk_sim_refl, kk_sim_in2, kk_sim_const2, kk_sim_var2, op_sim_equal2, op_sim_caret2, kk_sim_in.
Qed.
Lemma retype_ok_shape a b : retype_ok a b -> retype_shape a b.
Proof. induction 1 as [t|a b c _ IH H]; [apply retype_shape_refl|eapply retype_shape_step; eassumption]. Qed.

(* the lexical class of a token: which kind of text it is *)
Inductive lex_class := LC_op | LC_word | LC_text | LC_number | LC_conddir (k : ConditionalDirectiveKind) | LC_compdir
                     | LC_comment (k : CommentKind) | LC_eof | LC_unknown.
Definition lex_class_of (t : RawTokenType) : lex_class :=
  match t with
  | RTT_Op _ => LC_op
  | RTT_Identifier | RTT_IdentifierOrKeyword _ | RTT_Keyword _ => LC_word
  | RTT_TextLiteral _ => LC_text
  | RTT_NumberLiteral _ => LC_number
  | RTT_ConditionalDirective k => LC_conddir k
  | RTT_CompilerDirective => LC_compdir
  | RTT_Comment k => LC_comment k
  | RTT_Eof => LC_eof
  | RTT_Unknown => LC_unknown
  end.
Lemma retype1_class a b : retype1 a b -> lex_class_of a = lex_class_of b.
Proof. destruct 1; reflexivity. Qed.
Theorem retype_ok_class a b : retype_ok a b -> lex_class_of a = lex_class_of b.
Proof. induction 1 as [|a b c _ IH H]; [reflexivity|]. rewrite IH. apply retype1_class, H. Qed.
(* everything that is not an operator or a word keeps its exact type *)
Theorem retype_ok_fixed a b : retype_ok a b ->
  match a with RTT_Op _ | RTT_Identifier | RTT_IdentifierOrKeyword _ | RTT_Keyword _ => True | _ => b = a end.
Proof. intros H. apply retype_ok_shape in H. destruct a; cbn in H; auto. Qed.
Lemma retype_ok_compdir b : retype_ok RTT_CompilerDirective b -> b = RTT_CompilerDirective.
Proof. intros H. apply (retype_ok_fixed _ _ H). Qed.
Lemma retype_ok_conddir k b : retype_ok (RTT_ConditionalDirective k) b -> b = RTT_ConditionalDirective k.
Proof. intros H. apply (retype_ok_fixed _ _ H). Qed.

(* in terms of the consolidated TokenType *)
Definition tt_retyped (lexed : RawTokenType) (final : TokenType) : Prop :=
  final = tt_of_raw lexed
  \/ (exists k k', lexed = RTT_IdentifierOrKeyword k /\ final = TT_Keyword k' /\ kk_sim k k')
  \/ (exists k k', lexed = RTT_Keyword k /\ final = TT_Keyword k' /\ kk_sim k k')
  \/ (exists i, lexed = RTT_Keyword (KK_In i) /\ final = TT_Identifier)
  \/ (exists o o', lexed = RTT_Op o /\ final = TT_Op o' /\ op_sim o o').
Theorem retype_ok_token_type a b : retype_ok a b -> tt_retyped a (tt_of_raw b).
Proof.
  intros H. apply retype_ok_shape in H. unfold tt_retyped. destruct a; cbn in H; shape_dec; subst; cbn [tt_of_raw];
    try (left; reflexivity).
  - right; right; right; right. eauto.
  - right; left. eauto.
  - right; right; left. eauto.
  - right; right; right; left. eauto.
Qed.

(* ================================================================== *)
(* lists of types *)
Definition retypes (l l' : list RawTokenType) : Prop := Forall2 retype_ok l l'.
Lemma retypes_refl l : retypes l l.
Proof. induction l; constructor; [apply RO_refl|assumption]. Qed.
Lemma retypes_trans l1 l2 l3 : retypes l1 l2 -> retypes l2 l3 -> retypes l1 l3.
Proof.
  intros H. revert l3. induction H as [|a b l1 l2 Hab _ IH]; intros l3 H3; inversion H3; subst; constructor.
  - eapply retype_ok_trans; eassumption.
  - apply IH. assumption.
Qed.
Lemma retypes_length l l' : retypes l l' -> length l = length l'.
Proof. induction 1; cbn; congruence. Qed.
Lemma retypes_upd_nth i f l :
  (forall t, nth_error l i = Some t -> retype_ok t (f t)) -> retypes l (upd_nth i f l).
Proof.
  revert i. induction l as [|a l IH]; intros [|i] H; cbn; try constructor.
  - apply H. reflexivity.
  - apply retypes_refl.
  - apply RO_refl.
  - apply IH. intros t Ht. apply H. exact Ht.
Qed.
Lemma retypes_nth l l' i t : retypes l l' -> nth_error l i = Some t -> exists t', nth_error l' i = Some t' /\ retype_ok t t'.
Proof.
  intros H. revert i. induction H as [|a b l l' Hab _ IH]; intros [|i] Hi; cbn in *; try discriminate.
  - injection Hi as <-. eauto.
  - apply IH, Hi.
Qed.

(* ================================================================== *)
(* skipped positions *)
Fixpoint adv_count (evs : list kev) : nat :=
  match evs with [] => 0 | (KT | KS) :: r => S (adv_count r) | _ :: r => adv_count r end.
Lemma k_skips_snoc evs : forall p e,
  k_skips (evs ++ [e]) p = k_skips evs p ++ match e with KS => [p + adv_count evs] | _ => [] end.
Proof.
  induction evs as [|a r IH]; intros p e; cbn [app k_skips adv_count].
  - destruct e; cbn; try reflexivity. rewrite Nat.add_0_r. reflexivity.
  - destruct a; rewrite IH; cbn [app]; try reflexivity.
    + destruct e; try reflexivity. rewrite Nat.add_succ_comm. reflexivity.
    + destruct e; cbn [app]; try reflexivity. rewrite Nat.add_succ_comm. reflexivity.
Qed.
Lemma k_pi_fold pass evs : forall st, k_pi (fold_left (k_step pass) evs st) = k_pi st + adv_count evs.
Proof.
  induction evs as [|a r IH]; intros st; cbn [fold_left adv_count]; [lia|]. rewrite IH.
  destruct a; cbn [k_step k_pi]; try lia. destruct (nth_error pass (k_pi st)); cbn [k_pi]; lia.
Qed.

Section Types.
Variable pass : list nat.
Notation pstate := (pstate pass).
Notation ps_toks := (ps_toks pass).
Notation pass_events := (pass_events pass).

Lemma pidx_adv_count (s : pstate) : pidx pass s = adv_count (pass_events s).
Proof. unfold pidx. rewrite state_is_kernel_run. unfold k_run. rewrite k_pi_fold. reflexivity. Qed.

Definition skips (s : pstate) : list nat := k_skips (pass_events s) 0.
(* every skipped pass position holds a CompilerDirective *)
Definition skips_ok (s : pstate) : Prop :=
  forall i, In i (skips s) -> exists t, nth_error pass i = Some t /\ tt_at pass s t = Some RTT_CompilerDirective.

(* the leaves: re-typing only, error-unchanged, skipped positions unchanged *)
Definition RS (s s' : pstate) : Prop := retypes (ps_toks s) (ps_toks s') /\ skips s' = skips s.
(* the grammar: re-typing only, and the skip invariant is kept *)
Definition Q (s s' : pstate) : Prop := retypes (ps_toks s) (ps_toks s') /\ (skips_ok s -> skips_ok s').

Lemma RS_refl s : RS s s. Proof. split; [apply retypes_refl|reflexivity]. Qed.
Lemma RS_trans s1 s2 s3 : RS s1 s2 -> RS s2 s3 -> RS s1 s3.
Proof. intros [A1 A2] [B1 B2]. split; [eapply retypes_trans; eassumption|congruence]. Qed.
Lemma Q_refl s : Q s s. Proof. split; [apply retypes_refl|auto]. Qed.
Lemma Q_trans s1 s2 s3 : Q s1 s2 -> Q s2 s3 -> Q s1 s3.
Proof. intros [A1 A2] [B1 B2]. split; [eapply retypes_trans; eassumption|auto]. Qed.
Lemma RS_Q s s' : RS s s' -> Q s s'.
Proof.
  intros [A B]. split; [exact A|]. intros H i Hi. rewrite B in Hi. destruct (H i Hi) as (t & Ht & Hc).
  exists t. split; [exact Ht|]. unfold tt_at in *. destruct (retypes_nth _ _ _ _ A Hc) as (t' & Ht' & Hr).
  apply retype_ok_compdir in Hr. congruence.
Qed.
Lemma RS_step (f : pstate -> pstate) s e : (forall x, RS x (f x)) -> RS s e -> RS s (f e).
Proof. intros H G. eapply RS_trans; [exact G|apply H]. Qed.
Lemma Q_step (f : pstate -> pstate) s e : (forall x, Q x (f x)) -> Q s e -> Q s (f e).
Proof. intros H G. eapply Q_trans; [exact G|apply H]. Qed.

(* states with the same tokens and the same events *)
Definition keeps (s s' : pstate) : Prop := ps_toks s' = ps_toks s /\ pass_events s' = pass_events s.
Lemma keeps_RS s s' : keeps s s' -> RS s s'.
Proof. intros [A B]. split; [rewrite A; apply retypes_refl|unfold skips; rewrite B; reflexivity]. Qed.
Lemma guard_keeps f s : (keeps s (f s)) -> keeps s (guard pass f s).
Proof. intros H. unfold guard. destruct (has_err pass s); [split; reflexivity|exact H]. Qed.

Lemma events_emit e m (c : kcore pass) : kc_evs pass (emit pass e m c) = e :: kc_evs pass c.
Proof. destruct c as [p H]. reflexivity. Qed.
Lemma events_set_meta i f (c : kcore pass) : kc_evs pass (set_meta pass i f c) = kc_evs pass c.
Proof. destruct c as [p H]. reflexivity. Qed.

Lemma p_emit_RS e m s : e <> KS -> RS s (p_emit pass e m s).
Proof.
  intros He. unfold p_emit, guard. destruct (has_err pass s); [apply RS_refl|].
  split; [apply retypes_refl|]. unfold skips, ParserGrammar.pass_events. cbn. rewrite events_emit. cbn [rev].
  rewrite k_skips_snoc. destruct e; try apply app_nil_r. contradiction.
Qed.
Lemma p_set_meta_keeps i f s : keeps s (p_set_meta pass i f s).
Proof. apply guard_keeps. split; [reflexivity|]. unfold ParserGrammar.pass_events. cbn. rewrite events_set_meta. reflexivity. Qed.
Lemma set_line_type_keeps t s : keeps s (set_line_type pass t s).
Proof. apply p_set_meta_keeps. Qed.
Lemma push_ctx_keeps c s : keeps s (push_ctx pass c s).
Proof. apply guard_keeps. split; reflexivity. Qed.
Lemma pop_ctx_keeps s : keeps s (pop_ctx pass s).
Proof. apply guard_keeps. split; reflexivity. Qed.
Lemma update_statuses_keeps k s : keeps s (update_statuses pass k s).
Proof. apply guard_keeps. split; reflexivity. Qed.
Lemma fail_keeps e s : keeps s (fail pass e s).
Proof. unfold fail. destruct (has_err pass s); split; reflexivity. Qed.

Lemma set_tok_RS i t s : (forall t0, tt_at pass s i = Some t0 -> retype_ok t0 t) -> RS s (set_tok pass i t s).
Proof.
  intros H. unfold set_tok, guard. destruct (has_err pass s); [apply RS_refl|].
  split; [|reflexivity]. cbn. apply retypes_upd_nth. exact H.
Qed.
(* upd_cur: the function only sees the type of the current token *)
Lemma upd_cur_RS f s :
  (forall t0 t1, cur_tt pass s = Some t0 -> f t0 = Some t1 -> retype_ok t0 t1) -> RS s (upd_cur pass f s).
Proof.
  intros H. unfold upd_cur. destruct (idx0 pass s) as [i|] eqn:Ei; [|apply RS_refl].
  destruct (tt_at pass s i) as [t0|] eqn:Et; cbn [bind]; [|apply RS_refl].
  destruct (f t0) as [t1|] eqn:Ef; [|apply RS_refl].
  apply set_tok_RS. intros t0' Ht0'. assert (t0' = t0) by congruence. subst t0'.
  apply (H t0 t1); [|exact Ef]. unfold cur_tt. rewrite Ei. cbn [bind]. exact Et.
Qed.
Lemma consolidate_current_ident_RS s : RS s (consolidate_current_ident pass s).
Proof. apply upd_cur_RS. intros t0 t1 _ H. destruct t0; inversion H; subst; auto with rtdb. Qed.
Lemma consolidate_current_keyword_RS s : RS s (consolidate_current_keyword pass s).
Proof. apply upd_cur_RS. intros t0 t1 _ H. destruct t0; inversion H; subst; auto with rtdb. Qed.
Lemma set_current_decl_kind_RS d s : RS s (set_current_decl_kind pass d s).
Proof.
  apply upd_cur_RS. intros t0 t1 _ H. destruct t0 as [| | |k| | | | | | |]; try discriminate.
  destruct k; inversion H; subst; auto with rtdb.
Qed.
Lemma caret_RS s : RS s (consolidate_current_caret_to_type pass s).
Proof.
  apply upd_cur_RS. intros t0 t1 _ H. destruct t0 as [o| | | | | | | | | |]; try discriminate.
  destruct o as [| | | | | | | | | | | | | | | | | |c| | |]; try discriminate. destruct c; inversion H; subst; auto with rtdb.
Qed.
(* set_current_token_type needs to know the current type *)
Lemma set_current_token_type_RS t s :
  (forall t0, cur_tt pass s = Some t0 -> retype_ok t0 t) -> RS s (set_current_token_type pass t s).
Proof. intros H. apply upd_cur_RS. intros t0 t1 Hc Hf. injection Hf as <-. apply H, Hc. Qed.
Lemma consolidate_prev_keyword_RS s : RS s (consolidate_prev_keyword pass s).
Proof.
  unfold consolidate_prev_keyword. destruct (pidx pass s); [apply RS_refl|].
  destruct (nth_error pass n) as [i|]; [|apply RS_refl].
  destruct (tt_at pass s i) as [[]|] eqn:E; try apply RS_refl.
  apply set_tok_RS. intros t0 H. assert (t0 = RTT_IdentifierOrKeyword k) by congruence. subst. auto with rtdb.
Qed.
Lemma consolidate_class_op_in_RS s : RS s (consolidate_class_op_in pass s).
Proof.
  unfold consolidate_class_op_in. destruct (idx_next pass s) as [i|]; [|apply RS_refl].
  destruct (tt_at pass s i) as [[| | |k| | | | | | |]|] eqn:E; try apply RS_refl.
  destruct k; try apply RS_refl.
  apply set_tok_RS. intros t0 H. assert (t0 = RTT_Keyword (KK_In k)) by congruence. subst. auto with rtdb.
Qed.
Lemma fix_next_eq_go_RS s l : RS s (fix_next_eq_go pass s l).
Proof.
  induction l as [|i r IH]; cbn [fix_next_eq_go]; [apply RS_refl|].
  destruct (tt_at pass s i) as [[o| |k|k|k|k|k| |k| |]|] eqn:E; try exact IH; try apply RS_refl.
  destruct o as [| | | | | | | |e| |c| |c| | | | | |c| | |]; try exact IH; try apply RS_refl.
  destruct e; [apply RS_refl|].
  apply set_tok_RS. intros t0 H. assert (t0 = RTT_Op (OK_Equal EK_Comp)) by congruence. subst. auto with rtdb.
Qed.
Lemma fix_next_eq_RS s : RS s (fix_next_eq pass s).
Proof. apply fix_next_eq_go_RS. Qed.
Lemma portability_go_RS : forall li s, RS s (portability_go pass li s).
Proof.
  assert (P : forall s n, RS s match tt_at pass s n with
              | Some (RTT_IdentifierOrKeyword ((KK_Deprecated | KK_Experimental | KK_Platform | KK_Library) as d)) =>
                  set_tok pass n (RTT_Keyword d) s
              | _ => s end).
  { intros s n. destruct (tt_at pass s n) as [[o| |k|k|k|k|k| |k| |]|] eqn:E; try apply RS_refl.
    destruct k; try apply RS_refl; apply set_tok_RS; intros t0 H;
      match type of E with _ = Some ?t => assert (t0 = t) by congruence end; subst; auto with rtdb. }
  induction li as [|p IH]; intros s; cbn [portability_go].
  - destruct (nth_error (cur_toks pass s) 0); [|apply RS_refl].
    repeat match goal with |- RS _ (if ?b then _ else _) => destruct b; [apply RS_refl|] end. apply P.
  - destruct (nth_error (cur_toks pass s) (S p)); [|apply RS_refl].
    repeat match goal with |- RS _ (if ?b then _ else _) => destruct b; [apply RS_refl|] end.
    eapply RS_trans; [apply P|apply IH].
Qed.
Lemma consolidate_portability_directives_RS s : RS s (consolidate_portability_directives pass s).
Proof.
  unfold consolidate_portability_directives. destruct (negb _); [apply RS_refl|].
  destruct (length (cur_toks pass s)); [apply keeps_RS, fail_keeps|]. cbv zeta.
  destruct (o_semicolon _); [|apply portability_go_RS].
  destruct (skip_trailing_comments pass s n); [apply RS_refl|apply portability_go_RS].
Qed.

(* ---------------- automation *)
Lemma KT_ne : KT <> KS. Proof. discriminate. Qed.
Lemma KL_ne : KL <> KS. Proof. discriminate. Qed.
Lemma KC_ne : KC <> KS. Proof. discriminate. Qed.
Lemma Kc_ne : Kc <> KS. Proof. discriminate. Qed.
Lemma KR_ne : KR <> KS. Proof. discriminate. Qed.
Lemma Kr_ne : Kr <> KS. Proof. discriminate. Qed.

Create HintDb rsdb.
#[local] Hint Resolve RS_refl KT_ne KL_ne KC_ne Kc_ne KR_ne Kr_ne p_emit_RS set_tok_RS consolidate_current_ident_RS
  consolidate_current_keyword_RS set_current_decl_kind_RS caret_RS consolidate_prev_keyword_RS consolidate_class_op_in_RS
  fix_next_eq_RS consolidate_portability_directives_RS : rsdb.
Lemma set_line_type_RS t s : RS s (set_line_type pass t s). Proof. apply keeps_RS, set_line_type_keeps. Qed.
Lemma p_set_meta_RS i f s : RS s (p_set_meta pass i f s). Proof. apply keeps_RS, p_set_meta_keeps. Qed.
Lemma push_ctx_RS c s : RS s (push_ctx pass c s). Proof. apply keeps_RS, push_ctx_keeps. Qed.
Lemma pop_ctx_RS s : RS s (pop_ctx pass s). Proof. apply keeps_RS, pop_ctx_keeps. Qed.
Lemma update_statuses_RS k s : RS s (update_statuses pass k s). Proof. apply keeps_RS, update_statuses_keeps. Qed.
Lemma fail_RS e s : RS s (fail pass e s). Proof. apply keeps_RS, fail_keeps. Qed.
Lemma set_unfinished_RS u b s : RS s (set_unfinished pass u b s). Proof. apply keeps_RS. split; reflexivity. Qed.
#[local] Hint Resolve set_line_type_RS p_set_meta_RS push_ctx_RS pop_ctx_RS update_statuses_RS fail_RS set_unfinished_RS : rsdb.

Ltac ctt :=
  subst;
  repeat match goal with
         | H1 : ?a = Some _, H2 : ?a = Some _ |- _ => rewrite H1 in H2; injection H2; clear H2; intros; subst
         end;
  auto with rtdb.
Ltac rso :=
  lazymatch goal with
  | H : RS ?s0 ?v |- RS ?s0 ?v => exact H
  | |- RS ?s ?s => apply RS_refl
  | |- RS ?s0 (let x := ?v in @?b x) =>
      lazymatch type of v with
      | ParserGrammar.pstate _ =>
          let H := fresh "H" in let y := fresh "y" in
          assert (H : RS s0 v) by rso;
          set (y := v) in *; clearbody y; change (RS s0 (b y)); cbv beta; rso
      | _ => change (RS s0 (b v)); cbv beta; rso
      end
  | |- RS _ (if ?b then _ else _) => destruct b eqn:?; rso
  | |- RS _ (match ?x with _ => _ end) => destruct x eqn:?; rso
  | |- RS ?s0 (set_current_token_type _ ?t ?e) =>
      apply (RS_trans s0 e); [rso|apply set_current_token_type_RS; intros; ctt]
  | |- RS _ (?f ?e) => apply (RS_step f); [intros; solve [auto with rsdb]|rso]
  end.

(* next_token *)
Lemma next_token_body_RS s : RS s (next_token_body pass s).
Proof.
  unfold next_token_body. eapply RS_trans; [|apply p_emit_RS, KT_ne].
  eapply RS_trans; [|apply keeps_RS; unfold track_levels; destruct (cur_tt pass _) as [[[]| | | | | | | | | |]|]; split; reflexivity].
  apply keeps_RS. destruct (cur_index pass s); [|split; reflexivity].
  destruct (cur_tt pass s) as [[]|]; try (split; reflexivity). destruct (existsb _ _); split; reflexivity.
Qed.
Lemma next_token_go_RS : forall fuel s, RS s (next_token_go pass fuel s).
Proof.
  induction fuel as [|f IH]; intros s; cbn [next_token_go]; [apply fail_RS|].
  destruct (has_err pass s); [apply RS_refl|].
  destruct (is_inline_comment _); [eapply RS_trans; [apply next_token_body_RS|apply IH]|apply next_token_body_RS].
Qed.
Lemma next_token_RS s : RS s (next_token pass s). Proof. apply next_token_go_RS. Qed.
#[local] Hint Resolve next_token_RS : rsdb.

(* finish_logical_line *)
Lemma inline_comments_go_RS : forall fuel s, RS s (inline_comments_go pass fuel s).
Proof.
  induction fuel as [|f IH]; intros s; cbn [inline_comments_go]; [apply fail_RS|].
  destruct (has_err pass s); [apply RS_refl|]. destruct (cur_index pass s); [|apply RS_refl].
  destruct (is_inline_comment _); [|apply RS_refl]. eapply RS_trans; [apply p_emit_RS, KT_ne|apply IH].
Qed.
Lemma fold_set_meta_RS (g : nat -> lmeta -> lmeta) : forall l s,
  RS s (fold_left (fun s r => p_set_meta pass r (g r) s) l s).
Proof. induction l as [|r l IH]; intros s; cbn [fold_left]; [apply RS_refl|]. eapply RS_trans; [apply p_set_meta_RS|apply IH]. Qed.
Lemma finish_logical_line_RS s : RS s (finish_logical_line pass s).
Proof.
  unfold finish_logical_line, guard. destruct (has_err pass s); [apply RS_refl|].
  destruct (at_start pass s); [apply set_line_type_RS|].
  set (s1 := consolidate_portability_directives pass s).
  set (s2 := inline_comments_go pass (remaining pass s1 + 2) s1).
  assert (M2 : RS s s2) by (eapply RS_trans; [apply consolidate_portability_directives_RS|apply inline_comments_go_RS]).
  destruct (get_context_level pass s2) as [parent lvl].
  apply RS_step; [intros; apply p_emit_RS, KL_ne|]. apply RS_step; [intros; apply p_set_meta_RS|].
  apply RS_step; [intros; apply set_unfinished_RS|].
  destruct (ps_cur_unfinished pass s2); [exact M2|].
  apply RS_step; [intros; apply set_unfinished_RS|]. eapply RS_trans; [exact M2|].
  apply (fold_set_meta_RS (fun _ m => mkLM (lm_parent m) lvl (lm_type m))).
Qed.
#[local] Hint Resolve finish_logical_line_RS : rsdb.
Lemma make_unfinished_line_RS s : RS s (make_unfinished_line pass s).
Proof. unfold make_unfinished_line, guard. destruct (has_err pass s); [apply RS_refl|]. rso. Qed.
#[local] Hint Resolve make_unfinished_line_RS : rsdb.

(* skip_pair, op_until *)
Lemma skip_pair_go_RS : forall fuel p b g chev s, RS s (skip_pair_go pass fuel p b g chev s).
Proof.
  induction fuel as [|f IH]; intros p b g chev s; cbn [skip_pair_go]; [apply fail_RS|].
  destruct (has_err pass s); [apply RS_refl|].
  match goal with |- RS _ (if ?c then _ else _) => destruct c end; [|apply RS_refl].
  eapply RS_trans; [apply next_token_RS|apply IH].
Qed.
Lemma skip_pair_RS s : RS s (skip_pair pass s).
Proof. unfold skip_pair. cbv zeta. eapply RS_trans; [apply next_token_RS|apply skip_pair_go_RS]. Qed.
#[local] Hint Resolve skip_pair_RS : rsdb.
Lemma op_until_go_RS pred op : (forall x, RS x (fst (op x))) -> forall fuel s, RS s (op_until_go pass fuel pred op s).
Proof.
  intros Hop. induction fuel as [|f IH]; intros s; cbn [op_until_go]; [apply fail_RS|].
  destruct (has_err pass s); [apply RS_refl|]. destruct (cur_tt pass s); [|apply RS_refl].
  destruct (pred s); [apply RS_refl|]. destruct (is_ending pass s); [apply RS_refl|].
  pose proof (Hop s) as G. destruct (op s) as [s1 cont]. cbn [fst] in G.
  destruct cont; [eapply RS_trans; [exact G|apply IH]|exact G].
Qed.
Lemma op_until_RS pred op s : (forall x, RS x (fst (op x))) -> RS s (op_until pass pred op s).
Proof. intros H. apply op_until_go_RS, H. Qed.
Lemma simple_op_until_RS pred op s : (forall x, RS x (op x)) -> RS s (simple_op_until pass pred op s).
Proof. intros H. apply op_until_RS. intros x. cbn. apply H. Qed.
Lemma take_until_RS pred s : RS s (take_until pass pred s).
Proof. apply simple_op_until_RS. intros; apply next_token_RS. Qed.
#[local] Hint Resolve simple_op_until_RS take_until_RS : rsdb.

(* parse_expression *)
Lemma parse_expression_go_RS : forall fuel s, RS s (parse_expression_go pass fuel s).
Proof.
  induction fuel as [|f IH]; intros s; cbn [parse_expression_go]; [apply fail_RS|].
  destruct (has_err pass s); [apply RS_refl|].
  assert (K : forall e, RS s e -> RS s (parse_expression_go pass f e)) by (intros e G; eapply RS_trans; [exact G|apply IH]).
  destruct (cur_tt pass s) as [[o| |k|k|k|k|k| |k| |]|]; try apply RS_refl;
    try (cbn [is_operator]; first [apply RS_refl|apply K; rso]; fail).
  - cbn [is_operator].
    assert (KO : RS s (parse_expression_go pass f
                   (match cur_tt pass (next_token pass s) with
                    | Some (RTT_IdentifierOrKeyword _) => next_token pass (consolidate_current_ident pass (next_token pass s))
                    | Some (RTT_Identifier | RTT_TextLiteral _ | RTT_NumberLiteral _) => next_token pass (next_token pass s)
                    | _ => next_token pass s end))) by (apply K; rso).
    destruct o as [| | | | | | | |e| |c| |c| | | | | |c| | |]; try exact KO; try apply RS_refl; try (apply K; rso); rso.
  - destruct (is_operator (RTT_Keyword k)); [|apply RS_refl]. apply K; rso.
Qed.
Lemma parse_expression_RS s : RS s (parse_expression pass s).
Proof.
  assert (K : forall e, RS s e -> RS s (parse_expression_go pass (remaining pass e + 2) e))
    by (intros e G; eapply RS_trans; [exact G|apply parse_expression_go_RS]).
  unfold parse_expression.
  destruct (cur_tt pass s) as [[o| |k|k|k|k|k| |k| |]|]; try (apply K; rso).
  - destruct o as [| | | | | | | |e| |c| |c| | | | | |c| | |]; try (apply K; rso); apply RS_refl.
  - destruct (is_operator (RTT_Keyword k)); [apply K; rso|apply RS_refl].
Qed.
#[local] Hint Resolve parse_expression_RS : rsdb.

(* parse_parameter_list, parse_routine_header *)
Lemma param_window_RS s : RS s (param_window pass s).
Proof. unfold param_window. cbv zeta. rso. Qed.
#[local] Hint Resolve param_window_RS : rsdb.
Lemma parameter_list_go_RS : forall fuel p0 consumed s, RS s (parameter_list_go pass fuel p0 consumed s).
Proof.
  induction fuel as [|f IH]; intros p0 consumed s; cbn [parameter_list_go]; [apply fail_RS|].
  destruct (has_err pass s); [apply RS_refl|].
  match goal with |- RS _ (if ?c then _ else _) => destruct c end; [apply RS_refl|].
  destruct (cur_tt pass s) as [t|]; [|apply RS_refl]. cbv zeta.
  eapply RS_trans; [|apply IH]. apply RS_step; [intros; apply next_token_RS|]. apply RS_step; [intros; apply param_window_RS|].
  destruct t as [o| |k|k|k|k|k| |k| |]; try apply RS_refl. destruct o; try apply RS_refl; apply fix_next_eq_RS.
Qed.
Lemma parse_parameter_list_RS s : RS s (parse_parameter_list pass s).
Proof. apply parameter_list_go_RS. Qed.
#[local] Hint Resolve parse_parameter_list_RS : rsdb.
Lemma routine_header_op_RS s : RS s (fst (routine_header_op pass s)).
Proof.
  unfold routine_header_op. cbv zeta.
  match goal with |- context [if ?b then (_, true) else _] => destruct b end; [cbn [fst]; rso|].
  destruct (cur_tt pass s) as [t|] eqn:Ct; [|cbn [fst]; rso].
  destruct t as [o| |k|k|k|k|k| |k| |]; try (cbn [fst]; rso; fail).
  - destruct o as [| | | | | | | |e| |c| |c| | | | | |c| | |]; try (cbn [fst]; rso; fail); destruct c; cbn [fst]; rso.
  - repeat match goal with |- context [if ?b then _ else _] => destruct b end; cbn [fst]; rso.
  - repeat match goal with |- context [if ?b then _ else _] => destruct b end; cbn [fst]; rso.
Qed.
Lemma parse_routine_header_RS s : RS s (parse_routine_header pass s).
Proof.
  unfold parse_routine_header. eapply RS_trans; [|apply take_until_RS].
  eapply RS_trans; [apply next_token_RS|]. apply op_until_RS, routine_header_op_RS.
Qed.
#[local] Hint Resolve parse_routine_header_RS : rsdb.

(* the simple ops *)
Lemma keyword_consolidator_RS p s : RS s (keyword_consolidator pass p s).
Proof. unfold keyword_consolidator. rso. Qed.
Lemma parse_exports_op_RS s : RS s (parse_exports_op pass s).
Proof. unfold parse_exports_op. rso. Qed.
Lemma enum_op_RS s : RS s (enum_op pass s).
Proof. unfold enum_op. rso. Qed.
Lemma import_op_RS s : RS s (import_op pass s).
Proof. unfold import_op. rso. Qed.
Lemma property_op_RS s : RS s (property_op pass s).
Proof. unfold property_op. cbv zeta. rso. Qed.
#[local] Hint Resolve keyword_consolidator_RS parse_exports_op_RS enum_op_RS import_op_RS property_op_RS : rsdb.
Lemma parse_property_declaration_RS s : RS s (parse_property_declaration pass s).
Proof. cbv delta [parse_property_declaration] beta. rso. Qed.
#[local] Hint Resolve parse_property_declaration_RS : rsdb.

(* asm, separators *)
Lemma add_asm_instruction_line_RS s : RS s (add_asm_instruction_line pass s).
Proof. unfold add_asm_instruction_line. rso. Qed.
#[local] Hint Resolve add_asm_instruction_line_RS : rsdb.
Lemma asm_instructions_go_RS wsnl : forall fuel s, RS s (asm_instructions_go pass wsnl fuel s).
Proof.
  induction fuel as [|f IH]; intros s; cbn [asm_instructions_go]; [apply fail_RS|].
  destruct (has_err pass s); [apply RS_refl|]. destruct (idx0 pass s) as [i|]; [|apply RS_refl].
  assert (K : forall e, RS s e -> RS s (asm_instructions_go pass wsnl f e)) by (intros e G; eapply RS_trans; [exact G|apply IH]).
  assert (D : RS s (if nth i wsnl false then asm_instructions_go pass wsnl f (next_token pass (add_asm_instruction_line pass s))
                    else asm_instructions_go pass wsnl f (next_token pass s))) by (destruct (nth i wsnl false); apply K; rso).
  destruct (tt_at pass s i) as [[o| |k|k|k|k|k| |k| |]|]; try exact D; try apply RS_refl.
  - destruct o; try exact D. apply K; rso.
  - destruct k; try exact D; apply RS_refl.
Qed.
Lemma parse_asm_instructions_RS wsnl s : RS s (parse_asm_instructions pass wsnl s).
Proof. unfold parse_asm_instructions. eapply RS_trans; [apply asm_instructions_go_RS|apply add_asm_instruction_line_RS]. Qed.
#[local] Hint Resolve parse_asm_instructions_RS : rsdb.
Lemma take_separators_on_last_line_RS lvl s : RS s (take_separators_on_last_line pass lvl s).
Proof.
  unfold take_separators_on_last_line, guard. destruct (has_err pass s); [apply RS_refl|].
  destruct (negb _); [apply RS_refl|]. rso.
Qed.
#[local] Hint Resolve take_separators_on_last_line_RS : rsdb.
Lemma comment_arm_RS b s : RS s (comment_arm pass b s).
Proof. cbv delta [comment_arm] beta. rso. Qed.
Lemma program_head_arm_RS k s : RS s (program_head_arm pass k s).
Proof. cbv delta [program_head_arm] beta. rso. Qed.
Lemma statement_prelude_RS s : RS s (fst (statement_prelude pass s)).
Proof.
  unfold statement_prelude. destruct (last_ctx pass s); [|apply RS_refl].
  destruct (ending_ctx pass s); [cbn [fst]; apply update_statuses_RS|].
  destruct (at_start pass s); [|apply RS_refl].
  destruct (c_type p) as [| | | | | | | | | | | | | |b|k| | | |]; cbn [fst]; try apply RS_refl; try apply set_line_type_RS.
  destruct k; cbn [fst]; first [apply RS_refl|apply set_line_type_RS].
Qed.
#[local] Hint Resolve comment_arm_RS program_head_arm_RS : rsdb.

(* ================================================================== *)
(* the grammar: relation Q *)
Lemma cur_tt_congr (s s' : pstate) : ps_toks s' = ps_toks s -> pidx pass s' = pidx pass s -> cur_tt pass s' = cur_tt pass s.
Proof. intros A B. unfold cur_tt, idx0, cur_index, tt_at. rewrite A, B. reflexivity. Qed.
Lemma cur_tt_pos s t : cur_tt pass s = Some t -> exists i, nth_error pass (pidx pass s) = Some i /\ tt_at pass s i = Some t.
Proof.
  unfold cur_tt, idx0, cur_index. destruct (nth_error pass (pidx pass s)) as [i|]; [|discriminate].
  destruct (tt_at pass s i) as [ty|] eqn:E; [|discriminate]. intros H. exists i. split; [reflexivity|].
  destruct ty; cbn [bind] in H; congruence.
Qed.
Lemma skip_token_Q s : cur_tt pass s = Some RTT_CompilerDirective -> Q s (skip_token pass s).
Proof.
  intros Hc. unfold skip_token, p_emit, guard. destruct (has_err pass s); [apply Q_refl|].
  split; [apply retypes_refl|]. intros H i Hi. unfold skips, ParserGrammar.pass_events in Hi. cbn in Hi.
  rewrite events_emit in Hi. cbn [rev] in Hi. rewrite k_skips_snoc in Hi. apply in_app_or in Hi.
  destruct Hi as [Hi|[<-|[]]]; [exact (H i Hi)|].
  cbn [Nat.add]. fold (pass_events s). rewrite <- pidx_adv_count. exact (cur_tt_pos s _ Hc).
Qed.
Lemma sarm_directive tk : sarm_of tk = SA_directive -> tk = RTT_CompilerDirective.
Proof.
  destruct tk as [o| |k|k| | | | | | |]; cbn; try discriminate; try reflexivity.
  - destruct o; discriminate.
  - destruct k; discriminate.
  - destruct k; cbn; discriminate.
Qed.
Lemma starm_equal tk : starm_of tk = ST_equal -> exists e, tk = RTT_Op (OK_Equal e).
Proof.
  destruct tk as [o| |k|k| | | | | | |]; cbn; try discriminate.
  - destruct o; try discriminate. eauto.
  - destruct k; discriminate.
  - destruct k; cbn; try discriminate. match goal with i : InKind |- _ => destruct i; discriminate end.
Qed.
Lemma starm_in tk : starm_of tk = ST_in -> tk = RTT_Keyword (KK_In IK_Op).
Proof.
  destruct tk as [o| |k|k| | | | | | |]; cbn; try discriminate.
  - destruct o; discriminate.
  - destruct k; discriminate.
  - destruct k; cbn; try discriminate. match goal with i : InKind |- _ => destruct i; try discriminate; reflexivity end.
Qed.
Lemma statement_prelude_cur_tt s : cur_tt pass (fst (statement_prelude pass s)) = cur_tt pass s.
Proof.
  assert (U : forall k, cur_tt pass (update_statuses pass k s) = cur_tt pass s).
  { intros k. apply cur_tt_congr; unfold update_statuses, guard; destruct (has_err pass s); reflexivity. }
  assert (L : forall t, cur_tt pass (set_line_type pass t s) = cur_tt pass s).
  { intros t. apply cur_tt_congr; unfold set_line_type, p_set_meta, guard; destruct (has_err pass s); try reflexivity.
    unfold pidx, kst. cbn. rewrite kst_set_meta. reflexivity. }
  unfold statement_prelude. destruct (last_ctx pass s); [|reflexivity].
  destruct (ending_ctx pass s); [cbn [fst]; apply U|]. destruct (at_start pass s); [|reflexivity].
  destruct (c_type p) as [| | | | | | | | | | | | | |b|k| | | |]; cbn [fst]; try reflexivity; try apply L.
  destruct k; cbn [fst]; first [reflexivity|apply L].
Qed.

Section ArmsQ.
Variable wsnl : list bool.
Variable R : call -> pstate -> pstate.
Hypothesis HR : forall c x, Q x (R c x).
Create HintDb qdb.
#[local] Hint Resolve HR Q_refl : qdb.
Ltac qleaf := first [apply RS_Q; solve [auto with rsdb]|solve [auto with qdb]].
Ltac qgo :=
  lazymatch goal with
  | H : Q ?s0 ?v |- Q ?s0 ?v => exact H
  | |- Q ?s ?s => apply Q_refl
  | |- Q ?s0 (let x := ?v in @?b x) =>
      lazymatch type of v with
      | ParserGrammar.pstate _ =>
          let H := fresh "H" in let y := fresh "y" in
          assert (H : Q s0 v) by qgo;
          set (y := v) in *; clearbody y; change (Q s0 (b y)); cbv beta; qgo
      | _ => change (Q s0 (b v)); cbv beta; qgo
      end
  | |- Q _ (if ?b then _ else _) => destruct b eqn:?; qgo
  | |- Q _ (match ?x with _ => _ end) => destruct x eqn:?; qgo
  | |- Q ?s0 (set_current_token_type _ ?t ?e) =>
      apply (Q_trans s0 e); [qgo|apply RS_Q, set_current_token_type_RS; intros; ctt]
  | |- Q _ (?f ?e) => apply (Q_step f); [intros; qleaf|qgo]
  end.
Ltac arm D := cbv delta [D] beta; qgo.

Lemma stmt_block_Q t p l k s : Q s (stmt_block pass R t p l k s).
Proof. unfold stmt_block. apply HR. Qed.
Lemma s_loop_Q s : Q s (s_loop pass R s). Proof. apply HR. Qed.
Lemma t_loop_Q s : Q s (t_loop pass R s). Proof. apply HR. Qed.
#[local] Hint Resolve stmt_block_Q s_loop_Q t_loop_Q : qdb.
Lemma s_other_Q s : Q s (s_other pass R s). Proof. arm s_other. Qed.
Lemma t_other_Q s : Q s (t_other pass R s). Proof. arm t_other. Qed.
#[local] Hint Resolve s_other_Q t_other_Q : qdb.
Lemma label_or_other_Q s : Q s (label_or_other pass R s). Proof. arm label_or_other. Qed.
#[local] Hint Resolve label_or_other_Q : qdb.

Lemma arm_with_ctx_Q cx a s : Q s (arm_with_ctx pass wsnl R cx a s).
Proof.
  arm arm_with_ctx.
Qed.
#[local] Hint Resolve arm_with_ctx_Q : qdb.

Lemma arm_block_Q cx s : Q s (arm_block pass R cx s).
Proof.
  arm arm_block.
Qed.
#[local] Hint Resolve arm_block_Q : qdb.

Lemma arm_stmt_block_Q cx k s : Q s (arm_stmt_block pass R cx k s).
Proof.
  arm arm_stmt_block.
Qed.
#[local] Hint Resolve arm_stmt_block_Q : qdb.

Lemma arm_stmt_list_Q t op p s : Q s (arm_stmt_list pass R t op p s).
Proof.
  arm arm_stmt_list.
Qed.
#[local] Hint Resolve arm_stmt_list_Q : qdb.

Lemma arm_line_section_Q cx s : Q s (arm_line_section pass R cx s).
Proof.
  arm arm_line_section.
Qed.
#[local] Hint Resolve arm_line_section_Q : qdb.

Lemma arm_comment_lines_Q s : Q s (arm_comment_lines pass R s).
Proof.
  arm arm_comment_lines.
Qed.
#[local] Hint Resolve arm_comment_lines_Q : qdb.

Lemma sa_directive_Q s : cur_tt pass s = Some RTT_CompilerDirective -> Q s (sa_directive pass R s).
Proof.
  intros Hc. pose proof (skip_token_Q s Hc) as Hsk.
  cbv delta [sa_directive] beta. repeat match goal with |- Q _ (match ?x with _ => _ end) => destruct x as [[|]|] end;
    first [apply RS_Q, fail_RS | (apply (Q_step (s_loop pass R)); [intros; apply HR|]; first [exact Hsk|apply RS_Q, comment_arm_RS])].
Qed.
#[local] Hint Resolve sa_directive_Q : qdb.

Lemma sa_comment_Q s : Q s (sa_comment pass R s).
Proof.
  arm sa_comment.
Qed.
#[local] Hint Resolve sa_comment_Q : qdb.

Lemma sa_program_head_Q k s : Q s (sa_program_head pass R k s).
Proof.
  arm sa_program_head.
Qed.
#[local] Hint Resolve sa_program_head_Q : qdb.

Lemma sa_lbrack_Q s : Q s (sa_lbrack pass R s).
Proof.
  arm sa_lbrack.
Qed.
#[local] Hint Resolve sa_lbrack_Q : qdb.

Lemma sa_section_Q k s : Q s (sa_section pass R k s).
Proof.
  arm sa_section.
Qed.
#[local] Hint Resolve sa_section_Q : qdb.

Lemma sa_begin_Q s : Q s (sa_begin pass R s).
Proof.
  arm sa_begin.
Qed.
#[local] Hint Resolve sa_begin_Q : qdb.

Lemma sa_end_Q s : Q s (sa_end pass R s).
Proof.
  arm sa_end.
Qed.
#[local] Hint Resolve sa_end_Q : qdb.

Lemma sa_repeat_Q s : Q s (sa_repeat pass R s).
Proof.
  arm sa_repeat.
Qed.
#[local] Hint Resolve sa_repeat_Q : qdb.

Lemma sa_try_Q s : Q s (sa_try pass R s).
Proof.
  arm sa_try.
Qed.
#[local] Hint Resolve sa_try_Q : qdb.

Lemma sa_on_Q s : Q s (sa_on pass R s).
Proof.
  arm sa_on.
Qed.
#[local] Hint Resolve sa_on_Q : qdb.

Lemma sa_do_Q is_for s : Q s (sa_do pass R is_for s).
Proof.
  arm sa_do.
Qed.
#[local] Hint Resolve sa_do_Q : qdb.

Lemma sa_if_Q s : Q s (sa_if pass R s).
Proof.
  arm sa_if.
Qed.
#[local] Hint Resolve sa_if_Q : qdb.

Lemma sa_else_Q s : Q s (sa_else pass R s).
Proof.
  arm sa_else.
Qed.
#[local] Hint Resolve sa_else_Q : qdb.

Lemma sa_case_Q s : Q s (sa_case pass R s).
Proof.
  arm sa_case.
Qed.
#[local] Hint Resolve sa_case_Q : qdb.

Lemma sa_uses_Q s : Q s (sa_uses pass R s).
Proof.
  arm sa_uses.
Qed.
#[local] Hint Resolve sa_uses_Q : qdb.

Lemma sa_contains_Q s : Q s (sa_contains pass R s).
Proof.
  arm sa_contains.
Qed.
#[local] Hint Resolve sa_contains_Q : qdb.

Lemma sa_exports_Q s : Q s (sa_exports pass R s).
Proof.
  arm sa_exports.
Qed.
#[local] Hint Resolve sa_exports_Q : qdb.

Lemma sa_class_Q s : Q s (sa_class pass R s).
Proof.
  arm sa_class.
Qed.
#[local] Hint Resolve sa_class_Q : qdb.

Lemma sa_strict_Q s : Q s (sa_strict pass R s).
Proof.
  arm sa_strict.
Qed.
#[local] Hint Resolve sa_strict_Q : qdb.

Lemma sa_visibility_Q s : Q s (sa_visibility pass R s).
Proof.
  arm sa_visibility.
Qed.
#[local] Hint Resolve sa_visibility_Q : qdb.

Lemma sa_decl_Q k s : Q s (sa_decl pass R k s).
Proof.
  arm sa_decl.
Qed.
#[local] Hint Resolve sa_decl_Q : qdb.

Lemma sa_property_Q s : Q s (sa_property pass R s).
Proof.
  arm sa_property.
Qed.
#[local] Hint Resolve sa_property_Q : qdb.

Lemma sa_routine_Q s : Q s (sa_routine pass R s).
Proof.
  arm sa_routine.
Qed.
#[local] Hint Resolve sa_routine_Q : qdb.

Lemma sa_asm_Q s : Q s (sa_asm pass R s).
Proof.
  arm sa_asm.
Qed.
#[local] Hint Resolve sa_asm_Q : qdb.

Lemma sa_raise_Q s : Q s (sa_raise pass R s).
Proof.
  arm sa_raise.
Qed.
#[local] Hint Resolve sa_raise_Q : qdb.

Lemma sa_other_Q s : Q s (sa_other pass R s).
Proof.
  arm sa_other.
Qed.
#[local] Hint Resolve sa_other_Q : qdb.

Lemma arm_structures_Q s : Q s (arm_structures pass R s).
Proof.
  unfold arm_structures. destruct (cur_tt pass s) as [tk|] eqn:Ct; [|apply Q_refl].
  destruct (ending_ctx pass s); [apply RS_Q, update_statuses_RS|].
  destruct (sarm_of tk) eqn:Es; auto with qdb.
  apply sa_directive_Q. rewrite Ct. f_equal. apply sarm_directive, Es.
Qed.
#[local] Hint Resolve arm_structures_Q : qdb.

Lemma st_struct_type_body_Q s : Q s (st_struct_type_body pass R s).
Proof.
  arm st_struct_type_body.
Qed.
#[local] Hint Resolve st_struct_type_body_Q : qdb.

Lemma st_struct_type_Q s : Q s (st_struct_type pass R s).
Proof.
  arm st_struct_type.
Qed.
#[local] Hint Resolve st_struct_type_Q : qdb.

Lemma st_of_Q s : Q s (st_of pass R s).
Proof.
  arm st_of.
Qed.
#[local] Hint Resolve st_of_Q : qdb.

Lemma st_var_Q s : Q s (st_var pass R s).
Proof.
  arm st_var.
Qed.
#[local] Hint Resolve st_var_Q : qdb.

Lemma st_lparen_Q s : Q s (st_lparen pass R s).
Proof.
  arm st_lparen.
Qed.
#[local] Hint Resolve st_lparen_Q : qdb.

Lemma st_semicolon_Q s : Q s (st_semicolon pass s).
Proof.
  arm st_semicolon.
Qed.
#[local] Hint Resolve st_semicolon_Q : qdb.

Lemma st_lt_Q s : Q s (st_lt pass R s).
Proof.
  arm st_lt.
Qed.
#[local] Hint Resolve st_lt_Q : qdb.

Lemma st_colon_Q s : Q s (st_colon pass R s).
Proof.
  arm st_colon.
Qed.
#[local] Hint Resolve st_colon_Q : qdb.

Lemma st_equal_Q s : (exists e, cur_tt pass s = Some (RTT_Op (OK_Equal e))) -> Q s (st_equal pass R s).
Proof.
  intros [e0 Hc]. arm st_equal.
Qed.
#[local] Hint Resolve st_equal_Q : qdb.

Lemma st_reference_Q s : Q s (st_reference pass R s).
Proof.
  arm st_reference.
Qed.
#[local] Hint Resolve st_reference_Q : qdb.

Lemma st_in_Q s : cur_tt pass s = Some (RTT_Keyword (KK_In IK_Op)) -> Q s (st_in pass R s).
Proof.
  intros Hc. arm st_in.
Qed.
#[local] Hint Resolve st_in_Q : qdb.

Lemma st_to_Q s : Q s (st_to pass R s).
Proof.
  arm st_to.
Qed.
#[local] Hint Resolve st_to_Q : qdb.

Lemma st_absolute_Q s : Q s (st_absolute pass R s).
Proof.
  arm st_absolute.
Qed.
#[local] Hint Resolve st_absolute_Q : qdb.

Lemma st_assign_Q s : Q s (st_assign pass R s).
Proof.
  arm st_assign.
Qed.
#[local] Hint Resolve st_assign_Q : qdb.

Lemma st_routine_Q s : Q s (st_routine pass R s).
Proof.
  arm st_routine.
Qed.
#[local] Hint Resolve st_routine_Q : qdb.

Lemma st_begin_Q s : Q s (st_begin pass R s).
Proof.
  arm st_begin.
Qed.
#[local] Hint Resolve st_begin_Q : qdb.

Lemma st_label_cand_Q s : Q s (st_label_cand pass R s).
Proof.
  arm st_label_cand.
Qed.
#[local] Hint Resolve st_label_cand_Q : qdb.

Lemma st_other_Q s : Q s (st_other pass R s).
Proof.
  arm st_other.
Qed.
#[local] Hint Resolve st_other_Q : qdb.

Lemma arm_statement_Q s : Q s (arm_statement pass R s).
Proof.
  unfold arm_statement. destruct (cur_tt pass s) as [tk|] eqn:Ct; [|apply Q_refl].
  pose proof (RS_Q _ _ (statement_prelude_RS s)) as P. pose proof (statement_prelude_cur_tt s) as C.
  destruct (statement_prelude pass s) as [s1 go]. cbn [fst] in P, C. rewrite Ct in C.
  destruct (negb go); [exact P|]. eapply Q_trans; [exact P|]. destruct (starm_of tk) eqn:Es; auto with qdb.
  - apply st_equal_Q. destruct (starm_equal tk Es) as [e ->]. eauto.
  - apply st_in_Q. rewrite (starm_in tk Es) in C. exact C.
Qed.
#[local] Hint Resolve arm_statement_Q : qdb.

Lemma arm_if_then_Q s : Q s (arm_if_then pass R s).
Proof.
  arm arm_if_then.
Qed.
#[local] Hint Resolve arm_if_then_Q : qdb.

Lemma arm_do_Q is_for s : Q s (arm_do pass R is_for s).
Proof.
  arm arm_do.
Qed.
#[local] Hint Resolve arm_do_Q : qdb.

Lemma arm_case_statement_Q s : Q s (arm_case_statement pass R s).
Proof.
  arm arm_case_statement.
Qed.
#[local] Hint Resolve arm_case_statement_Q : qdb.

Lemma arm_variant_record_Q s : Q s (arm_variant_record pass R s).
Proof.
  arm arm_variant_record.
Qed.
#[local] Hint Resolve arm_variant_record_Q : qdb.

Lemma arm_case_arm_Q parent s : Q s (arm_case_arm pass R parent s).
Proof.
  arm arm_case_arm.
Qed.
#[local] Hint Resolve arm_case_arm_Q : qdb.

Lemma arm_import_clause_Q s : Q s (arm_import_clause pass R s).
Proof.
  arm arm_import_clause.
Qed.
#[local] Hint Resolve arm_import_clause_Q : qdb.

Lemma arm_parens_Q s : Q s (arm_parens pass R s).
Proof.
  arm arm_parens.
Qed.
#[local] Hint Resolve arm_parens_Q : qdb.

Lemma arm_parens_loop_Q s : Q s (arm_parens_loop pass R s).
Proof.
  arm arm_parens_loop.
Qed.
#[local] Hint Resolve arm_parens_loop_Q : qdb.

Lemma arm_variant_fields_Q s : Q s (arm_variant_fields pass R s).
Proof.
  arm arm_variant_fields.
Qed.
#[local] Hint Resolve arm_variant_fields_Q : qdb.

Lemma arm_anon_Q s : Q s (arm_anon pass R s).
Proof.
  arm arm_anon.
Qed.
#[local] Hint Resolve arm_anon_Q : qdb.

Lemma arm_anon_loop_Q parent s : Q s (arm_anon_loop pass R parent s).
Proof.
  arm arm_anon_loop.
Qed.
#[local] Hint Resolve arm_anon_loop_Q : qdb.

Lemma arm_routine_Q s : Q s (arm_routine pass R s).
Proof.
  arm arm_routine.
Qed.
#[local] Hint Resolve arm_routine_Q : qdb.

Lemma arm_asm_block_Q s : Q s (arm_asm_block pass R s).
Proof.
  arm arm_asm_block.
Qed.
#[local] Hint Resolve arm_asm_block_Q : qdb.

Lemma arm_begin_end_Q lvl s : Q s (arm_begin_end pass R lvl s).
Proof.
  arm arm_begin_end.
Qed.
#[local] Hint Resolve arm_begin_end_Q : qdb.

Lemma arm_top_Q s : Q s (arm_top pass R s).
Proof.
  arm arm_top.
Qed.
#[local] Hint Resolve arm_top_Q : qdb.

End ArmsQ.

Theorem run_Q wsnl : forall fuel c s, Q s (run pass wsnl fuel c s).
Proof.
  induction fuel as [|f IH]; intros c s.
  - cbn [run]. destruct (has_err pass s); [apply Q_refl|apply RS_Q, fail_RS].
  - cbn [run]. destruct (has_err pass s); [apply Q_refl|].
    destruct c.

    + apply (arm_structures_Q (run pass wsnl f) IH).

    + apply (arm_statement_Q (run pass wsnl f) IH).

    + apply (arm_if_then_Q (run pass wsnl f) IH).

    + apply (arm_do_Q (run pass wsnl f) IH).

    + apply (arm_case_statement_Q (run pass wsnl f) IH).

    + apply (arm_variant_record_Q (run pass wsnl f) IH).

    + apply (arm_case_arm_Q (run pass wsnl f) IH).

    + apply (arm_comment_lines_Q (run pass wsnl f) IH).

    + apply (arm_import_clause_Q (run pass wsnl f) IH).

    + apply (arm_line_section_Q (run pass wsnl f) IH).

    + apply (arm_stmt_block_Q (run pass wsnl f) IH).

    + apply (arm_stmt_list_Q (run pass wsnl f) IH).

    + apply (arm_block_Q (run pass wsnl f) IH).

    + apply (arm_with_ctx_Q wsnl (run pass wsnl f) IH).

    + apply (arm_parens_Q (run pass wsnl f) IH).

    + apply (arm_parens_loop_Q (run pass wsnl f) IH).

    + apply (arm_variant_fields_Q (run pass wsnl f) IH).

    + apply (arm_anon_Q (run pass wsnl f) IH).

    + apply (arm_anon_loop_Q (run pass wsnl f) IH).

    + apply (arm_routine_Q (run pass wsnl f) IH).

    + apply (arm_asm_block_Q (run pass wsnl f) IH).

    + apply (arm_begin_end_Q (run pass wsnl f) IH).

    + apply (arm_top_Q (run pass wsnl f) IH).

Qed.

(* A: the grammar only re-types tokens, within their class *)
Theorem run_retype_ok wsnl fuel c s : Forall2 retype_ok (ps_toks s) (ps_toks (run pass wsnl fuel c s)).
Proof. apply run_Q. Qed.
Corollary run_toks_length wsnl fuel c s : length (ps_toks (run pass wsnl fuel c s)) = length (ps_toks s).
Proof. symmetry. apply retypes_length, run_retype_ok. Qed.
(* B: skip_token is only ever applied at a CompilerDirective *)
Theorem run_skips_ok wsnl fuel c s : skips_ok s -> skips_ok (run pass wsnl fuel c s).
Proof. apply run_Q. Qed.
End Types.

(* ================================================================== *)
(* parse_pass and parse_file *)
Lemma retypes_nth_rev l l' i t' : retypes l l' -> nth_error l' i = Some t' -> exists t, nth_error l i = Some t /\ retype_ok t t'.
Proof.
  intros H. revert i. induction H as [|a b l l' Hab _ IH]; intros [|i] Hi; cbn in *; try discriminate.
  - injection Hi as <-. eauto.
  - apply IH, Hi.
Qed.
Lemma retype_ok_to_compdir a : retype_ok a RTT_CompilerDirective -> a = RTT_CompilerDirective.
Proof. intros H. apply retype_ok_class in H. destruct a; cbn in H; congruence. Qed.

Theorem parse_pass_retype_ok pass wsnl toks attr :
  Forall2 retype_ok toks (ps_toks pass (parse_pass pass wsnl toks attr)).
Proof. apply (run_retype_ok pass wsnl (run_fuel pass) C_top (ps_init pass toks attr)). Qed.

(* the second side condition of C14_final_lines_cover, for the model, for every input: the positions
   skipped by skip_token hold CompilerDirective tokens (already in the lexer's output) *)
Theorem parse_pass_skips_directives pass wsnl toks attr :
  forall i t, In i (k_skips (pass_events pass (parse_pass pass wsnl toks attr)) 0) ->
  nth_error pass i = Some t -> nth_error toks t = Some RTT_CompilerDirective.
Proof.
  intros i t Hi Ht.
  assert (H0 : skips_ok pass (ps_init pass toks attr)) by (intros j Hj; cbn in Hj; contradiction).
  pose proof (run_skips_ok pass wsnl (run_fuel pass) C_top _ H0 i Hi) as (t' & Ht' & Hc).
  assert (t' = t) by congruence. subst t'. unfold tt_at in Hc.
  destruct (retypes_nth_rev _ _ _ _ (parse_pass_retype_ok pass wsnl toks attr) Hc) as (a & Ha & Hr).
  apply retype_ok_to_compdir in Hr. congruence.
Qed.

Lemma cement_retypes pass : forall toks, retypes toks (fold_left (fun ts p => upd_nth p cement ts) pass toks).
Proof.
  induction pass as [|p r IH]; intros toks; cbn [fold_left]; [apply retypes_refl|].
  eapply retypes_trans; [|apply IH]. apply retypes_upd_nth. intros t _. destruct t; cbn; auto with rtdb.
Qed.

Definition pr_skips_ok (toks0 : list RawTokenType) (pass : list nat) (pr : pass_result) : Prop :=
  forall i t, In i (k_skips (pr_events pr) 0) -> nth_error pass i = Some t -> nth_error toks0 t = Some RTT_CompilerDirective.

Lemma parse_passes_types wsnl toks0 : forall passes toks attr acc log done,
  retypes toks0 toks -> Forall2 (pr_skips_ok toks0) done (rev log) ->
  let r := parse_passes wsnl passes toks attr acc log in
  retypes toks0 (r_toks r) /\ Forall2 (pr_skips_ok toks0) (firstn (length (r_passes r)) (done ++ passes)) (r_passes r).
Proof.
  induction passes as [|pass rest IH]; intros toks attr acc log done Hr H; cbn [parse_passes].
  - cbn [r_toks r_passes]. split; [exact Hr|]. rewrite app_nil_r, <- (F2_len _ _ _ H), firstn_all. exact H.
  - set (s := parse_pass pass wsnl toks attr).
    assert (Hs : retypes toks0 (ps_toks pass s)) by (eapply retypes_trans; [exact Hr|apply parse_pass_retype_ok]).
    assert (H1 : Forall2 (pr_skips_ok toks0) (done ++ [pass]) (rev (mkPR (pass_events pass s) (pass_lines pass s) :: log))).
    { cbn [rev]. apply Forall2_app; [exact H|]. constructor; [|constructor].
      intros i t Hi Ht. cbn [pr_events] in Hi.
      pose proof (parse_pass_skips_directives pass wsnl toks attr i t Hi Ht) as Hc.
      destruct (retypes_nth_rev _ _ _ _ Hr Hc) as (a & Ha & Hra). apply retype_ok_to_compdir in Hra. congruence. }
    replace (done ++ pass :: rest) with ((done ++ [pass]) ++ rest) by (rewrite <- app_assoc; reflexivity).
    destruct (ps_err pass s).
    + cbn [r_toks r_passes]. split; [exact Hs|]. rewrite <- (F2_len _ _ _ H1), firstn_app, firstn_all, Nat.sub_diag.
      cbn [firstn]. rewrite app_nil_r. exact H1.
    + apply IH; [|exact H1]. eapply retypes_trans; [exact Hs|apply cement_retypes].
Qed.

(* A for parse_file: same number of tokens, every token re-typed within its class *)
Theorem parse_file_retype_ok toks wsnl passes : Forall2 retype_ok toks (r_toks (parse_file_with toks wsnl passes)).
Proof. apply (parse_passes_types wsnl toks passes toks [] [] [] []); [apply retypes_refl|constructor]. Qed.
Corollary parse_file_token_count toks wsnl passes : length (r_toks (parse_file_with toks wsnl passes)) = length toks.
Proof. symmetry. apply retypes_length, parse_file_retype_ok. Qed.
Corollary parse_file_retype_nth toks wsnl passes i t :
  nth_error toks i = Some t ->
  exists t', nth_error (r_toks (parse_file_with toks wsnl passes)) i = Some t' /\ retype_ok t t'.
Proof. apply retypes_nth, parse_file_retype_ok. Qed.
(* in terms of the consolidated TokenTypes handed to the rest of the pipeline: a token that is not an
   operator or a word keeps its exact type; comments stay comments, literals stay literals *)
Definition tt_class_of (t : TokenType) : lex_class :=
  match t with
  | TT_Op _ => LC_op
  | TT_Identifier | TT_Keyword _ => LC_word
  | TT_TextLiteral _ => LC_text
  | TT_NumberLiteral _ => LC_number
  | TT_ConditionalDirective k => LC_conddir k
  | TT_CompilerDirective => LC_compdir
  | TT_Comment k => LC_comment k
  | TT_Eof => LC_eof
  | TT_Unknown => LC_unknown
  end.
Lemma tt_class_of_raw t : tt_class_of (tt_of_raw t) = lex_class_of t.
Proof. destruct t; reflexivity. Qed.
Corollary parse_file_token_types toks wsnl passes i t :
  nth_error toks i = Some t ->
  exists ty, nth_error (parsed_token_types (parse_file_with toks wsnl passes)) i = Some ty
             /\ tt_retyped t ty /\ tt_class_of ty = lex_class_of t.
Proof.
  intros Ht. destruct (parse_file_retype_nth toks wsnl passes i t Ht) as (t' & Ht' & Hr).
  exists (tt_of_raw t'). split; [unfold parsed_token_types; rewrite nth_error_map, Ht'; reflexivity|].
  split; [apply retype_ok_token_type, Hr|]. rewrite tt_class_of_raw. symmetry. apply retype_ok_class, Hr.
Qed.
(* B for parse_file: in every pass that was run, skip_token only skipped CompilerDirective tokens *)
Theorem parse_file_skips_directives toks wsnl passes :
  let r := parse_file_with toks wsnl passes in
  Forall2 (pr_skips_ok toks) (firstn (length (r_passes r)) passes) (r_passes r).
Proof. apply (parse_passes_types wsnl toks passes toks [] [] [] []); [apply retypes_refl|constructor]. Qed.

(* non-vacuity / sanity: `class operator In` turns the keyword `in` into an identifier; a skipped
   directive between conditional directives *)
Example retype_example :
  let toks := [RTT_Keyword KK_Class; RTT_IdentifierOrKeyword KK_Operator; RTT_Keyword (KK_In IK_Op); RTT_Eof] in
  r_toks (parse_file_model toks [false; false; false; false])
  = [RTT_Keyword KK_Class; RTT_Keyword KK_Operator; RTT_Identifier; RTT_Eof]
  /\ retype_ok (RTT_Keyword (KK_In IK_Op)) RTT_Identifier.
Proof. split; [vm_compute; reflexivity|auto with rtdb]. Qed.
Example skips_example :
  let toks := [RTT_ConditionalDirective CDK_Ifdef; RTT_CompilerDirective; RTT_ConditionalDirective CDK_Endif; RTT_Eof] in
  let pass := [1; 3] in
  k_skips (pass_events pass (parse_pass pass [] toks [])) 0 = [0] /\ nth_error pass 0 = Some 1
  /\ nth_error toks 1 = Some RTT_CompilerDirective.
Proof. vm_compute. repeat split. Qed.
