(* Proofs/FormatIdemSpacesProofs.v — C03 with hypothesis 8 (the second search reads the spaces_before the first one read) weakened by
   WrapSpacesProofs (the spaces of a token whose invariant is MustBreak are never read): the spaces may differ at tokens that are
   MustBreak in every line that holds them (differing_are_must_break) — in particular at every token after a `//` comment
   (must_break_after_sl).  The final vectors still agree: a token that starts a line has its spaces zeroed after the search, a
   token that continues its line has the same spaces in both runs (FormatIdemProofs.i_sp_continued). *)
From Coq Require Import Lia.
From PasfmtVerif Require Import Proofs.WrapSpacesProofs.
From PasfmtVerif Require Import Model.Format Proofs.FormatProofs Proofs.FormatIgnoredProofs Proofs.FormatWsProofs Proofs.FormatContentProofs
  Proofs.WrapApplyProofs Proofs.WrapEventsProofs Proofs.WrapReadsProofs Proofs.FmtDataProofs Proofs.FormatIdemProofs.

Lemma zf_fold_start ds d f f' mb tok :
  f_ignored f' = f_ignored f ->
  f_nl f' = u16_sat (emitted_nls mb tok (zf (fold_left apply_decision (ds ++ [d]) f))) ->
  (0 <? f_nl (fold_left apply_decision (ds ++ [d]) f))%N = true ->
  zf (fold_left apply_decision (ds ++ [d]) f') = zf (fold_left apply_decision (ds ++ [d]) f).
Proof.
  intros Hig Hnl Hpos. rewrite !fold_left_app in *. cbn [fold_left] in *.
  set (g0 := fold_left apply_decision ds f) in *. set (g0' := fold_left apply_decision ds f') in *.
  assert (Ei : f_ignored g0' = f_ignored g0) by (subst g0 g0'; rewrite !fold_dec_ign; exact Hig).
  destruct d as [[|] ind cont|]; cbn [apply_decision] in *; [| |cbn [f_nl] in Hpos; discriminate Hpos].
  - assert (En : clamp12 (f_nl g0') = clamp12 (f_nl g0)).
    { unfold emitted_nls in Hnl. rewrite zf_nl in Hnl. cbn [f_nl] in Hnl.
      pose proof (clamp12_range (f_nl g0)) as R. set (v := clamp12 (f_nl g0)) in *.
      assert (Ez : (v =? 0)%N = false) by (apply N.eqb_neq; lia). rewrite Ez, andb_false_r in Hnl. cbn [andb] in Hnl.
      assert (Ev : f_nl f' = v) by (rewrite Hnl; unfold u16_sat; lia).
      destruct (decs_nl_shape ds) as [C|C].
      - subst g0 g0' v. f_equal. apply C.
      - subst g0'. rewrite C, Ev. subst v. apply clamp12_idem. }
    unfold zf. cbn [f_nl f_ignored f_ind f_cont f_sp]. rewrite En, Ei.
    pose proof (clamp12_range (f_nl g0)) as R. assert (P : (0 <? clamp12 (f_nl g0))%N = true) by (apply N.ltb_lt; lia). rewrite P. reflexivity.
  - unfold zf. cbn [f_nl f_ignored f_ind f_cont f_sp N.ltb N.compare]. rewrite Ei. reflexivity.
Qed.

Lemma Forall2_of_nth {A B} (R : A -> B -> Prop) : forall (l : list A) (l' : list B), length l = length l' ->
  (forall i a b, nth_error l i = Some a -> nth_error l' i = Some b -> R a b) -> Forall2 R l l'.
Proof.
  induction l as [|x l IH]; intros [|y l'] Hl H; cbn in Hl; try discriminate; constructor.
  - exact (H O x y eq_refl eq_refl).
  - apply IH; [congruence|]. intros i a b Ha Hb. exact (H (S i) a b Ha Hb).
Qed.

Section Spaces.
Variable alnum : bytes -> bool.
Variable cfg : fconfig.
Variables segs segs2 : list seg.
Hypothesis Hyp : idem_hyp6 alnum cfg segs segs2.
Hypothesis Hmb : differing_are_must_break (map tokinfo_of (fm_l4 alnum segs)) (map tokinfo_of (fm_l4 alnum segs2)) (fm_lines segs).

Let Hml : no_ml_rewrite cfg segs := proj1 (proj2 (proj2 (proj2 Hyp))).
Let Hdec := proj2 (proj2 (proj2 (proj2 Hyp))).

Lemma s_info_rel : Forall2 info_rel (map tokinfo_of (fm_l4 alnum segs)) (map tokinfo_of (fm_l4 alnum segs2)).
Proof.
  apply Forall2_of_nth; [rewrite !map_length, !fm_l4_length; symmetry; exact (i_len alnum cfg segs segs2 Hyp)|].
  intros i a b Ha Hb. rewrite nth_error_map in Ha, Hb.
  destruct (nth_error (fm_l4 alnum segs) i) as [p|] eqn:E; [|discriminate Ha]. cbn in Ha. injection Ha as <-.
  destruct (i_l4 alnum cfg segs segs2 Hyp i p E) as (p' & q & mb & H' & _ & _ & _ & (Ht & Hc) & _). rewrite H' in Hb. cbn in Hb. injection Hb as <-.
  unfold info_rel, tokinfo_of, ml_measure. cbn [ti_ty ti_len ti_ml]. rewrite Ht, Hc. repeat split.
Qed.

Lemma s_phase1 : wrap_phase1 (cfg_ws cfg) (map tokinfo_of (fm_l4 alnum segs2)) (fm_lines segs)
               = wrap_phase1 (cfg_ws cfg) (map tokinfo_of (fm_l4 alnum segs)) (fm_lines segs).
Proof. symmetry. exact (wrap_phase1_sp _ _ _ _ s_info_rel Hmb). Qed.

Lemma s_plan : fm_plan1 alnum cfg segs2 = fm_plan1 alnum cfg segs.
Proof. unfold fm_plan1. rewrite (i_lines alnum cfg segs segs2 Hyp), s_phase1. reflexivity. Qed.

Lemma s_wrap_err : snd (fm_wrap alnum cfg segs2) = snd (fm_wrap alnum cfg segs).
Proof.
  rewrite (proj2 (fm_final_phase1 alnum cfg segs2 (i_ml alnum cfg segs segs2 Hyp))), (proj2 (fm_final_phase1 alnum cfg segs Hml)), (i_lines alnum cfg segs segs2 Hyp).
  unfold olf_model. cbn [snd]. rewrite s_phase1. reflexivity.
Qed.

Lemma s_final : ws_sim (fm_final alnum cfg segs) (fm_final alnum cfg segs2).
Proof.
  apply pointwise_Forall2. split; [rewrite !fm_final_length; exact (i_len alnum cfg segs segs2 Hyp)|]. intros i qf Hqf.
  rewrite (proj1 (fm_final_phase1 alnum cfg segs2 (i_ml alnum cfg segs segs2 Hyp))), s_plan. pose proof Hqf as Hqf0.
  rewrite (proj1 (fm_final_phase1 alnum cfg segs Hml)) in Hqf. rewrite zls_nth, apply_plan_nth in Hqf. rewrite zls_nth, apply_plan_nth.
  destruct (nth_error (fm_l4 alnum segs) i) as [p|] eqn:E; [|discriminate Hqf]. cbn [option_map fst snd] in Hqf.
  destruct (i_l4 alnum cfg segs segs2 Hyp i p E) as (p' & q & mb & H' & Hq & Sq & Iq & Hsim & Ip & Ip' & Heq & Hnl). rewrite H'. cbn [option_map fst snd].
  eexists. split; [reflexivity|]. assert (q = qf) by congruence. subst qf. injection Hqf as Hqf. subst q. cbn [fst snd] in *.
  split; [exact Hsim|]. cbn [snd].
  destruct (eof_set (fm_lines segs) (length segs) i (t_ty (fst p))) eqn:Ee.
  - rewrite (Heq eq_refl). reflexivity.
  - destruct (Hdec i p E) as [Hd|Hd]; [|rewrite Ee in Hd; discriminate].
    destruct (exists_last Hd) as (ds & d & Hds). rewrite Hds in *.
    destruct (0 <? f_nl (fold_left apply_decision (ds ++ [d]) (snd p)))%N eqn:Enl.
    + apply (zf_fold_start ds d (snd p) (snd p') mb (fst p)); [rewrite Ip, Ip'; reflexivity|exact (Hnl eq_refl)|exact Enl].
    + f_equal. apply (final_fmt_stable ds d (snd p) (snd p') mb (fst p)); [|rewrite Ip, Ip'; reflexivity|exact (Hnl eq_refl)].
      apply (i_sp_continued alnum cfg segs segs2 Hyp i p p' _ E H' Hqf0); [cbn [snd]; rewrite zf_nl; exact Enl|exact Ee].
Qed.

Lemma s_out : fm_out alnum cfg segs2 = fm_out alnum cfg segs.
Proof.
  unfold fm_out, reconstruct. apply recon_ws; [exact s_final|].
  apply Forall_forall. intros q Hq. apply In_nth_error in Hq. destruct Hq as (j & Hj).
  assert (Hlt : (j < length (fm_l4 alnum segs))%nat).
  { rewrite fm_l4_length, <- (fm_final_length alnum cfg segs). apply nth_error_Some. intros Hx. pose proof (eq_trans (eq_sym Hj) Hx) as Hy. discriminate Hy. }
  destruct (nth_error (fm_l4 alnum segs) j) as [p|] eqn:E; [|apply nth_error_None in E; lia].
  destruct (i_l4 alnum cfg segs segs2 Hyp j p E) as (p' & q0 & mb & _ & Hq0 & _ & Iq & _). pose proof (eq_trans (eq_sym Hj) Hq0) as Eq. injection Eq as <-. exact Iq.
Qed.
End Spaces.

(* C03 with the spaces hypothesis only where the search can read them *)
Definition idem_hyp_mb alnum cfg (segs segs2 : list seg) : Prop :=
  idem_hyp6 alnum cfg segs segs2
  /\ differing_are_must_break (map tokinfo_of (fm_l4 alnum segs)) (map tokinfo_of (fm_l4 alnum segs2)) (fm_lines segs).

Theorem format_idempotent_mb alnum cfg s out :
  format_model alnum cfg s = inl out ->
  (forall segs, lex_segments s = Some segs ->
     exists segs2, lex_segments (fm_out alnum cfg segs) = Some segs2 /\ idem_hyp_mb alnum cfg segs segs2) ->
  format_model alnum cfg out = inl out.
Proof.
  intros H Hh. apply format_model_spec in H. destruct H as (segs & Hl & Hp & Hc & Hw & ->).
  destruct (Hh segs Hl) as (segs2 & Hl2 & Hyp & Hmb). apply format_model_spec. exists segs2.
  split; [exact Hl2|]. split; [unfold fm_parse_ok; rewrite (i_parse alnum cfg segs segs2 Hyp); exact Hp|].
  split; [unfold fm_conddir_ok; rewrite (i_tys alnum cfg segs segs2 Hyp), (i_parse alnum cfg segs segs2 Hyp); exact Hc|].
  split; [unfold fm_wrap_ok; rewrite (s_wrap_err alnum cfg segs segs2 Hyp Hmb); exact Hw|].
  symmetry. apply s_out; assumption.
Qed.

(* a sufficient condition on the two vectors in front of the search: wherever the spaces differ, the token is not the first one and
   the invariant of (previous token type, token type) is MustBreak whatever the conditional-directive flag — e.g. the previous token is
   a `//` comment and the token is not an Inline comment *)
Definition differ_only_after_breakers (l l' : list ftoken) : Prop :=
  forall g p p', nth_error l g = Some p -> nth_error l' g = Some p' -> f_sp (snd p') <> f_sp (snd p) ->
  exists h pp, g = S h /\ nth_error l h = Some pp
    /\ forall cd, Requirements.formatting_invariant (Some (t_ty (fst pp))) (Some (t_ty (fst p))) cd = Some DR_MustBreak.

Lemma must_break_of_breakers l l' lines : length l' = length l -> differ_only_after_breakers l l' ->
  differing_are_must_break (map tokinfo_of l) (map tokinfo_of l') lines.
Proof.
  intros Hlen H lv r Hlv Hr Hne. destruct (mk_lviews_inv _ _ lv r Hlv Hr) as (cd & ->). unfold sp_at in Hne. rewrite !nth_error_map in *.
  set (g := N.to_nat (tr_gidx r)) in *.
  destruct (nth_error l g) as [p|] eqn:E.
  - destruct (nth_error l' g) as [p'|] eqn:E'; [|apply nth_error_None in E'; assert (g < length l)%nat by (apply nth_error_Some; congruence); lia].
    cbn [option_map] in Hne. unfold tokinfo_of in Hne. cbn [ti_sp] in Hne.
    destruct (H g p p' E E' (fun e => Hne (eq_sym e))) as (h & pp & Eg & Eh & Hinv).
    assert (Ez : (tr_gidx r =? 0)%N = false) by (apply N.eqb_neq; intros Hz; subst g; rewrite Hz in Eg; discriminate Eg). rewrite Ez.
    replace (N.to_nat (tr_gidx r - 1)) with h by (subst g; lia). rewrite Eh. cbn [option_map]. unfold tokinfo_of. cbn [ti_ty]. apply Hinv.
  - exfalso. apply Hne. apply nth_error_None in E. assert (E' : nth_error l' g = None) by (apply nth_error_None; lia). rewrite E'. reflexivity.
Qed.

Definition idem_hyp_breakers alnum cfg (segs segs2 : list seg) : Prop :=
  idem_hyp6 alnum cfg segs segs2 /\ differ_only_after_breakers (fm_l4 alnum segs) (fm_l4 alnum segs2).

Theorem format_idempotent_breakers alnum cfg s out :
  format_model alnum cfg s = inl out ->
  (forall segs, lex_segments s = Some segs ->
     exists segs2, lex_segments (fm_out alnum cfg segs) = Some segs2 /\ idem_hyp_breakers alnum cfg segs segs2) ->
  format_model alnum cfg out = inl out.
Proof.
  intros H Hh. apply (format_idempotent_mb alnum cfg s out H). intros segs Hl. destruct (Hh segs Hl) as (segs2 & Hl2 & Hyp & Hb).
  exists segs2. split; [exact Hl2|]. split; [exact Hyp|]. apply must_break_of_breakers; [|exact Hb].
  rewrite !fm_l4_length. exact (i_len alnum cfg segs segs2 Hyp).
Qed.

(* the case asked for: the spaces may differ at a token that follows a `//` comment and is not an Inline comment *)
Lemma breaker_after_line_comment k ty cd :
  (k = CoK_InlineLine \/ k = CoK_IndividualLine) -> is_inline_comment ty = false ->
  Requirements.formatting_invariant (Some (TT_Comment k)) (Some ty) cd = Some DR_MustBreak.
Proof.
  intros Hk Hi. destruct Hk as [-> | ->]; destruct ty; try reflexivity;
    repeat match goal with x : CommentKind |- _ => destruct x | x : TextLiteralKind |- _ => destruct x
                      | x : KeywordKind |- _ => destruct x | x : OperatorKind |- _ => destruct x | x : NumberLiteralKind |- _ => destruct x
                      | x : ConditionalDirectiveKind |- _ => destruct x end; try reflexivity; discriminate Hi.
Qed.

Print Assumptions format_idempotent_mb.
Print Assumptions format_idempotent_breakers.
