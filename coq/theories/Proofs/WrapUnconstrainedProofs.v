(* Proofs/WrapUnconstrainedProofs.v — when max_line_length bounds everything the search can measure, the search IS
   the width-free search (solve_is_inf).  The bound is explicit:
       lws_len W (IB, CB) + m * span(line)  <=  max_line_length        (for FirstDecision::Break / offset 0)
   where m bounds spaces + length and the multi-line length of every token, SW the sum of the continuation deltas
   of any context stack, LV the line levels, IB >= level + depth * LV and CB >= (depth + 1) * SW bound the whitespace
   counts reachable at the given child depth, and span(i) >= the number of decisions the search can stack on one
   physical line starting in line i: one per token plus span of each child line of the token. *)
From PasfmtVerif Require Import Proofs.WrapWidthFree Proofs.WrapSearchProofs Proofs.WrapDepthProofs Proofs.WrapSimProofs.
From Coq Require Import Lia.

Definition stack_weight (stk : cstack) : N := fold_right (fun p a => c_delta (snd p) + a) 0 stk.

Lemma get_continuation_count_le stk d li : get_continuation_count stk d li <= stack_weight stk.
Proof.
  unfold get_continuation_count.
  set (F := fun acc (p : positive * fctx) =>
              let c := snd p in
              let closing := match c_end c with Some e => e =? li | None => false end && is_brackets (c_ty c) in
              if s_broken (st_at d (fst p)) && is_active_at c li && negb closing then acc + c_delta c else acc).
  assert (HF : forall acc p, F acc p <= acc + c_delta (snd p)) by (intros acc p; unfold F; cbv zeta; destruct (_ && _ && _); lia).
  assert (H : forall l acc, fold_left F l acc <= acc + stack_weight l).
  { induction l as [|p r IH]; intros acc; cbn [fold_left stack_weight fold_right]; [lia|].
    specialize (IH (F acc p)). specialize (HF acc p). unfold stack_weight in IH. lia. }
  specialize (H stk 0). lia.
Qed.

Lemma lws_len_mono W a b a' b' : a <= a' -> b <= b' -> lws_len W (a, b) <= lws_len W (a', b').
Proof. intros H1 H2. unfold lws_len. cbn [fst snd]. nia. Qed.

Section Unc.
Variable W : wsettings.
Variable lvs : list lview.
Variable fm : nat.
Variables m SW LV IB CB : N.
Variable span : nat -> N.

Definition kspan (kids : list nat) : N := fold_right (fun k a => span k + a) 0 kids.
Definition rspan (r : trec) : N := 1 + match tr_kids r with Some lc => kspan (lch_lines lc) | None => 0 end.
Definition psum (rs : list trec) : N := fold_right (fun r a => rspan r + a) 0 rs.
Definition Wb : N := lws_len W (IB, CB).

Hypothesis Hrec : forall i lv r, nth_error lvs i = Some lv -> In r (lv_recs lv) ->
  tr_sp r + tr_len r <= m /\ (forall x, tr_ml r = Some x -> x <= m) /\ stack_weight (tr_stk r) <= SW.
Hypothesis Hlvl : forall i lv, nth_error lvs i = Some lv -> lv_level lv <= LV.
Hypothesis Hspan : forall i lv, nth_error lvs i = Some lv -> psum (lv_recs lv) <= span i.
Hypothesis Hwf : views_wf lvs.
Hypothesis Hfun : forall k lv, nth_error lvs k = Some lv -> view_fun lv.

Definition ws_pre (k : nat) (ws : N * N) : Prop := fst ws + N.of_nat k * LV <= IB /\ snd ws + (N.of_nat k + 1) * SW <= CB.
Definition off (fd : first_decision) : N := match fd with FD_Break => 0 | FD_Continue o _ => o end.
Definition sol_last (s : solution) : option N := option_map td_lll (last_opt' (sol_decs s)).
Definition kids_last (v : list (nat * solution)) : N := match last_child_line_len v with Some l => l | None => 0 end.

Definition cpre (k i : nat) (ws : N * N) (fd : first_decision) : Prop := ws_pre k ws /\ N.max (off fd) Wb + m * span i <= w_max W.
Definition cpost (i : nat) (fd : first_decision) (r : option solution) : Prop :=
  forall s l, r = Some s -> sol_last s = Some l -> l <= N.max (off fd) Wb + m * span i.

Definition cache_bd (st : sst) : Prop :=
  forall key v, In (key, v) (ss_cache st) -> forall lv r lc,
    nth_error lvs (k_line key) = Some lv -> In r (lv_recs lv) -> tr_gidx r = k_tok key -> tr_kids r = Some lc ->
    kids_last v <= N.max (k_lll key) Wb + m * kspan (lch_lines lc).

Lemma kids_last_snoc acc j s : kids_last (acc ++ [(j, s)]) = match sol_last s with Some l => l | None => 0 end.
Proof. unfold kids_last, last_child_line_len, last_opt'. rewrite rev_app_distr. cbn [rev app]. reflexivity. Qed.

Section Child.
Variable k : nat.      (* the fuel of the child solver *)
Variables cs csi : sst -> lview -> N * N -> first_decision -> sst * option solution.
Hypothesis Hcs : forall st lv' j ws fd, nth_error lvs j = Some lv' -> cache_bd st -> cpre k j ws fd ->
  cs st lv' ws fd = csi st lv' ws fd /\ cache_bd (fst (cs st lv' ws fd)) /\ cpost j fd (snd (cs st lv' ws fd)).

Lemma solve_children_unc opt base deind :
  fst base + LV + N.of_nat k * LV <= IB -> snd base + (N.of_nat k + 1) * SW <= CB ->
  forall kids st first lll acc B,
    lll <= B -> Wb <= B -> B + m * kspan kids <= w_max W -> kids_last (rev acc) <= B -> cache_bd st ->
    solve_children lvs cs st opt base deind kids first lll acc = solve_children lvs csi st opt base deind kids first lll acc
    /\ cache_bd (fst (solve_children lvs cs st opt base deind kids first lll acc))
    /\ (forall l, snd (solve_children lvs cs st opt base deind kids first lll acc) = Some l -> kids_last l <= B + m * kspan kids).
Proof.
  intros Hb1 Hb2. induction kids as [|j rest IHk]; intros st first lll acc B Hl HB Hmax Hacc Hst; cbn [solve_children].
  - split; [reflexivity|]. split; [exact Hst|]. intros l E. injection E as <-. cbn [kspan fold_right]. lia.
  - cbn [kspan fold_right] in Hmax. fold (kspan rest) in Hmax.
    destruct (nth_error lvs j) as [lv'|] eqn:Ej; [|split; [reflexivity|split; [exact Hst|discriminate]]].
    set (ws' := (fst base + lv_level lv' - deind, snd base)).
    set (fd := match opt with CO_ContinueAll => FD_Continue lll false | CO_BreakAll _ _ _ => FD_Break
                              | CO_ContinueThenBreak _ _ _ => if first then FD_Continue lll true else FD_Break end).
    assert (Hoff : off fd <= lll) by (subst fd; destruct opt; cbn [off]; try lia; destruct first; cbn [off]; lia).
    pose proof (Hlvl j lv' Ej) as Hlv.
    assert (Hpre : cpre k j ws' fd).
    { split; [split; subst ws'; cbn [fst snd]; lia|]. lia. }
    destruct (Hcs st lv' j ws' fd Ej Hst Hpre) as (Heq & Hc & Hpost). rewrite <- Heq.
    destruct (cs st lv' ws' fd) as [st1 r]. cbn [fst snd] in *.
    destruct r as [s|]; [|split; [reflexivity|split; [exact Hc|discriminate]]].
    set (lll' := match last_opt' (sol_decs s) with Some t => td_lll t | None => lll end).
    assert (Hl' : lll' <= B + m * span j /\ kids_last (rev ((j, s) :: acc)) <= B + m * span j).
    { cbn [rev]. rewrite kids_last_snoc. unfold sol_last. subst lll'. destruct (last_opt' (sol_decs s)) as [t|] eqn:El; cbn [option_map].
      - assert (td_lll t <= N.max (off fd) Wb + m * span j) by (apply (Hpost s (td_lll t) eq_refl); unfold sol_last; rewrite El; reflexivity). lia.
      - lia. }
    destruct Hl' as (Hl1 & Hl2).
    destruct (IHk st1 false lll' ((j, s) :: acc) (B + m * span j) Hl1 ltac:(lia) ltac:(lia) Hl2 Hc) as (I1 & I2 & I3).
    split; [exact I1|]. split; [exact I2|]. intros l E. specialize (I3 l E). cbn [kspan fold_right]. fold (kspan rest). lia.
Qed.

Definition kq (r : trec) : N := match tr_kids r with Some lc => kspan (lch_lines lc) | None => 0 end.

Definition opt_ok (ws : N * N) (sc : N) (opt : clopt) : Prop :=
  fst (fst (opt_base opt)) <= fst ws /\ snd (fst (opt_base opt)) <= snd ws + sc.

Lemma cls_options_ok bbb stk d nli ws lc fc sc : Forall (opt_ok ws sc) (cls_options bbb lvs stk d nli ws lc fc sc).
Proof.
  unfold cls_options.
  repeat match goal with |- context [match ?x with _ => _ end] => destruct x end;
    repeat constructor; unfold opt_ok; cbn; lia.
Qed.

Variable i : nat.
Variable lv : lview.
Hypothesis Hi : nth_error lvs i = Some lv.

Lemma cls_unc st r gtoks tok_li ws decs d nli tll pc B :
  In r (lv_recs lv) -> ws_pre (S k) ws -> pc <= SW ->
  (forall c, find_continuations (match tr_kids r with Some lc => lch_parent_tok lc | None => 0 end) (rev (firstn (N.to_nat tok_li) gtoks)) decs = Some c -> c <= SW) ->
  tll <= B -> Wb <= B -> B + m * kq r <= w_max W -> cache_bd st ->
  child_lines_solutions W lvs cs st i r gtoks tok_li ws decs d nli tll pc = child_lines_solutions W lvs csi st i r gtoks tok_li ws decs d nli tll pc
  /\ cache_bd (fst (child_lines_solutions W lvs cs st i r gtoks tok_li ws decs d nli tll pc))
  /\ Forall (fun v => kids_last v <= B + m * kq r) (snd (child_lines_solutions W lvs cs st i r gtoks tok_li ws decs d nli tll pc)).
Proof.
  intros Hr (Hw1 & Hw2) Hpc Hfc Htll HB Hmax Hst. rewrite !cls_unfold. unfold kq in *.
  destruct (tr_kids r) as [lc|] eqn:Ek; [|split; [reflexivity|split; [exact Hst|constructor; [cbn; lia|constructor]]]].
  destruct (match lch_lines lc with j :: _ => nth_error lvs j | [] => None end) as [fc|];
    [|split; [reflexivity|split; [exact Hst|constructor; [cbn; lia|constructor]]]].
  set (sc := match find_continuations (lch_parent_tok lc) (rev (firstn (N.to_nat tok_li) gtoks)) decs with Some c => c | None => pc end).
  assert (Hsc : sc <= SW) by (subst sc; destruct (find_continuations _ _ decs) as [c|]; [exact (Hfc c eq_refl)|exact Hpc]).
  pose proof (cls_options_ok (w_bbb W) (tr_stk r) d nli ws lc fc sc) as Hopts.
  revert Hopts. generalize (cls_options (w_bbb W) lvs (tr_stk r) d nli ws lc fc sc). intros options Hopts.
  assert (Hgen : forall acc, cache_bd (fst acc) -> Forall (fun v => kids_last v <= B + m * kspan (lch_lines lc)) (snd acc) ->
            fold_left (cls_step lvs cs i (tr_gidx r) tll (lch_lines lc)) options acc = fold_left (cls_step lvs csi i (tr_gidx r) tll (lch_lines lc)) options acc
            /\ cache_bd (fst (fold_left (cls_step lvs cs i (tr_gidx r) tll (lch_lines lc)) options acc))
            /\ Forall (fun v => kids_last v <= B + m * kspan (lch_lines lc)) (snd (fold_left (cls_step lvs cs i (tr_gidx r) tll (lch_lines lc)) options acc))).
  { induction Hopts as [|opt options Hopt Hrest IHo]; intros [st0 sols] H1 H2; cbn [fold_left]; [split; [reflexivity|split; assumption]|].
    cbn [fst snd] in H1, H2.
    assert (Hstep : cls_step lvs cs i (tr_gidx r) tll (lch_lines lc) (st0, sols) opt = cls_step lvs csi i (tr_gidx r) tll (lch_lines lc) (st0, sols) opt
                    /\ cache_bd (fst (cls_step lvs cs i (tr_gidx r) tll (lch_lines lc) (st0, sols) opt))
                    /\ Forall (fun v => kids_last v <= B + m * kspan (lch_lines lc)) (snd (cls_step lvs cs i (tr_gidx r) tll (lch_lines lc) (st0, sols) opt))).
    { unfold cls_step. destruct (cache_find (mkKey tll i (tr_gidx r) opt) (ss_cache st0)) as [v|] eqn:Ec.
      - split; [reflexivity|]. split; [exact H1|]. cbn [snd]. apply Forall_app. split; [exact H2|]. constructor; [|constructor].
        apply cache_find_in in Ec. pose proof (H1 _ _ Ec lv r lc Hi Hr eq_refl Ek) as Hv. cbn [k_lll] in Hv. lia.
      - destruct Hopt as (Ho1 & Ho2).
        destruct (solve_children_unc opt (fst (opt_base opt)) (snd (opt_base opt)) ltac:(lia) ltac:(lia) (lch_lines lc) st0 true tll [] (N.max tll Wb)
                    ltac:(lia) ltac:(lia) ltac:(lia) ltac:(cbn; lia) H1) as (E1 & E2 & E3).
        rewrite <- E1. destruct (solve_children lvs cs st0 opt _ _ (lch_lines lc) true tll []) as [st1 res]. cbn [fst snd] in *.
        destruct res as [v|]; [|split; [reflexivity|split; assumption]].
        specialize (E3 v eq_refl). split; [reflexivity|]. split.
        + intros key v' [Hin|Hin] lv' r' lc' Hn Hr' Hg Hk'.
          * injection Hin as <- <-. cbn [k_line k_tok k_lll] in *. rewrite Hi in Hn. injection Hn as <-.
            assert (lc' = lc) by (pose proof (Hfun i lv Hi r' r Hr' Hr Hg) as Hf; congruence). subst lc'. exact E3.
          * exact (E2 key v' Hin lv' r' lc' Hn Hr' Hg Hk').
        + cbn [snd]. apply Forall_app. split; [exact H2|]. constructor; [lia|constructor]. }
    destruct Hstep as (S1 & S2 & S3). rewrite <- S1. apply IHo; assumption. }
  apply Hgen; [exact Hst|constructor].
Qed.

Lemma psum_app a b : psum (a ++ b) = psum a + psum b.
Proof. induction a as [|x r IHa]; [reflexivity|]. change (psum ((x :: r) ++ b)) with (rspan x + psum (r ++ b)). change (psum (x :: r)) with (rspan x + psum r). rewrite IHa. lia. Qed.

Lemma psum_rev a : psum (rev a) = psum a.
Proof. induction a as [|x r IHa]; [reflexivity|]. cbn [rev]. rewrite psum_app, IHa. change (psum [x]) with (rspan x + 0). change (psum (x :: r)) with (rspan x + psum r). lia. Qed.

Lemma find_continuations_in tok toks decs c : find_continuations tok toks decs = Some c -> exists t, In t decs /\ td_dec t = WBreak c.
Proof.
  unfold find_continuations.
  destruct ((fix pos (l : list N) (k0 : nat) : option nat := match l with [] => None | x :: r => if x =? tok then Some k0 else pos r (S k0) end) toks 0%nat) as [depth|]; [|discriminate].
  revert depth. induction decs as [|t r IHd]; intros depth H; [destruct depth; discriminate|].
  destruct depth as [|n]; cbn [skipn] in H.
  - destruct (td_dec t) as [c'|] eqn:Et.
    + injection H as <-. exists t. split; [left; reflexivity|exact Et].
    + destruct (IHd O H) as (t' & Hin & Ht'). exists t'. split; [right; exact Hin|exact Ht'].
  - destruct (IHd n H) as (t' & Hin & Ht'). exists t'. split; [right; exact Hin|exact Ht'].
Qed.

(* the solve call under consideration: its whitespace, its offset bound M, its budget *)
Variable ws : N * N.
Variable M : N.
Hypothesis Hws : ws_pre (S k) ws.
Hypothesis HM : Wb <= M.
Hypothesis Hbud : M + m * psum (lv_recs lv) <= w_max W.

Definition NB (nd : node) : Prop :=
  n_ws nd = ws
  /\ (exists done, rev done ++ n_rest nd = lv_recs lv /\ last_line_length_of nd <= M + m * psum done)
  /\ (forall t c, In t (n_decs nd) -> td_dec t = WBreak c -> c <= SW).

Lemma NB_fits nd : NB nd -> (w_max W <? last_line_length_of nd) = false.
Proof.
  intros (_ & (done & Hsplit & Hl) & _). apply N.ltb_ge.
  assert (psum done <= psum (lv_recs lv)) by (rewrite <- Hsplit, psum_app, psum_rev; lia). nia.
Qed.

Notation pot := (potential W lvs cs lv).
Notation poti := (potential_inf W lvs csi lv).

Lemma potential_unc st nd b : cache_bd st -> NB nd ->
  pot st nd b = poti st nd b /\ cache_bd (fst (pot st nd b)) /\ Forall NB (snd (pot st nd b)).
Proof.
  intros Hst (Hnws & (done & Hsplit & Hl) & Hcs'). unfold potential, potential_inf.
  destruct (n_rest nd) as [|r rest] eqn:Hrest; [split; [reflexivity|split; [exact Hst|constructor]]|].
  assert (Hr : In r (lv_recs lv)) by (rewrite <- Hsplit; apply in_or_app; right; left; reflexivity).
  destruct (Hrec i lv r Hi Hr) as (Hsl & Hml & Hsw).
  destruct Hws as (Hw1 & Hw2).
  set (d := update_contexts (lv_type lv) (tr_win r) (tr_ty r) (tr_stk r) (n_nli nd) b (n_data nd)).
  set (cc := get_continuation_count (tr_stk r) d (n_nli nd)).
  assert (Hcc : cc <= SW) by (pose proof (get_continuation_count_le (tr_stk r) d (n_nli nd)); subst cc; lia).
  set (dec := if b then WBreak cc else WContinue).
  set (tll := token_line_length' W (n_ws nd) (n_decs nd) dec r).
  assert (Hdone : psum (r :: done) <= psum (lv_recs lv)).
  { rewrite <- Hsplit, psum_app, psum_rev. cbn [psum fold_right]. fold (psum rest). fold (psum done). lia. }
  assert (Htll : tll <= M + m * (psum done + 1)).
  { subst tll. unfold token_line_length'. destruct (tr_ml r) as [x|]; [specialize (Hml x eq_refl); nia|].
    subst dec. destruct b.
    - rewrite Hnws. pose proof (lws_len_mono W (fst ws) (snd ws + cc) IB CB ltac:(lia) ltac:(lia)) as Hmono. unfold Wb in HM. nia.
    - assert (Hprev : match n_decs nd with
                      | t :: _ => match last_child_line_len (td_kids t) with Some l0 => l0 | None => td_lll t end
                      | [] => 0
                      end <= last_line_length_of nd).
      { unfold last_line_length_of. destruct (n_decs nd) as [|t ?]; [lia|]. destruct (last_child_line_len (td_kids t)); lia. }
      nia. }
  assert (Hkq : M + m * (psum done + 1) + m * kq r = M + m * psum (r :: done)).
  { cbn [psum fold_right]. fold (psum done). unfold rspan, kq. nia. }
  assert (Hpen : decision_penalty W (lv_type lv) r (n_nli nd) b tll = decision_penalty_inf lv r (n_nli nd) b).
  { unfold decision_penalty, decision_penalty_inf. destruct b; [reflexivity|].
    replace (w_max W <? tll) with false; [reflexivity|]. symmetry. apply N.ltb_ge. nia. }
  rewrite Hpen. rewrite (proj1 (Hwf i lv Hi)).
  destruct (cls_unc st r (lv_gtoks lv) (n_nli nd) (n_ws nd) (n_decs nd) d (n_nli nd) tll cc (M + m * (psum done + 1)) Hr
              ltac:(rewrite Hnws; split; assumption) Hcc
              ltac:(intros c E; apply find_continuations_in in E; destruct E as (t & Hin & Ht); exact (Hcs' t c Hin Ht))
              Htll ltac:(nia) ltac:(nia) Hst) as (E1 & E2 & E3).
  rewrite <- E1. destruct (child_lines_solutions W lvs cs st i r _ _ _ _ _ _ _ _) as [st1 sols]. cbn [fst snd] in *.
  split; [reflexivity|]. split; [exact E2|].
  apply Forall_forall. intros n Hn. apply in_map_iff in Hn. destruct Hn as (kids & <- & Hk).
  rewrite Forall_forall in E3. specialize (E3 kids Hk).
  split; [exact Hnws|]. split.
  - exists (r :: done). cbn [n_rest rev]. split; [rewrite <- app_assoc; cbn [app]; exact Hsplit|].
    unfold last_line_length_of. cbn [n_decs td_lll td_kids]. fold (kids_last kids). rewrite <- Hkq. nia.
  - intros t c [<-|Hin] Ht; [|exact (Hcs' t c Hin Ht)]. cbn [td_dec] in Ht. subst dec. destruct b; [injection Ht as <-; exact Hcc|discriminate].
Qed.

Lemma both_unc st ind : cache_bd st -> NB ind ->
  both W lvs cs lv st ind = both_inf W lvs csi lv st ind /\ cache_bd (fst (both W lvs cs lv st ind)) /\ Forall NB (snd (both W lvs cs lv st ind)).
Proof.
  intros Hst Hind. unfold both, both_inf.
  destruct (potential_unc st ind true Hst Hind) as (A1 & A2 & A3). rewrite <- A1.
  destruct (pot st ind true) as [st1 a]. cbn [fst snd] in *.
  destruct (potential_unc st1 ind false A2 Hind) as (B1 & B2 & B3). rewrite <- B1.
  destruct (pot st1 ind false) as [st2 b]. cbn [fst snd] in *.
  split; [reflexivity|]. split; [exact B2|apply Forall_app; split; assumption].
Qed.

Definition oNB (x : option node) : Prop := match x with Some n => NB n | None => True end.
Definition res_NB (r : walk_res) : Prop := match r with W_push n => NB n | W_extend l => Forall NB l | W_dead | W_fuel => True end.
Definition step_NB (s : wstep) : Prop :=
  match s with WS_stop r => res_NB r | WS_forward n x => NB n /\ oNB x | WS_restart n => NB n end.

Lemma finish_NB l : Forall NB l -> step_NB (finish l).
Proof. intros H. unfold finish. destruct l as [|n [|n2 l']]; cbn; try exact H. inversion H; assumption. Qed.

Lemma kept_NB li sols : Forall NB sols -> forall best acc, Forall NB acc ->
  Forall NB (snd (fold_left (fun (acc : list N * list node) (n : node) =>
                               if n_pen n <? best_at (fst acc) li then (upd_at li (fun _ => n_pen n) (fst acc), snd acc ++ [n]) else acc)
                            sols (best, acc))).
Proof.
  induction 1 as [|n l Hn Hl IHl]; intros best acc Hacc; cbn [fold_left]; [exact Hacc|].
  cbn [fst snd]. destruct (n_pen n <? best_at best li); apply IHl; [apply Forall_app; split; [exact Hacc|constructor; [exact Hn|constructor]]|exact Hacc].
Qed.

Notation wstep := (walk_step W lvs cs lv).
Notation wstepi := (walk_step_inf W lvs csi lv).

Lemma walk_step_unc nd indiff best st : cache_bd st -> NB nd -> oNB indiff ->
  wstep nd indiff best st = wstepi nd indiff best st /\ cache_bd (snd (wstep nd indiff best st)) /\ step_NB (fst (fst (wstep nd indiff best st))).
Proof.
  intros Hst Hnd Hind. unfold walk_step, walk_step_inf. rewrite (NB_fits nd Hnd).
  destruct (n_rest nd) as [|r rest] eqn:Hrest; [split; [reflexivity|split; [exact Hst|exact Hnd]]|].
  assert (Hafter : forall succ indiff' st', cache_bd st' -> Forall NB succ -> oNB indiff' ->
            let x := match succ with
                     | [n] => (WS_forward n indiff', best, st')
                     | _ => match indiff' with
                            | Some ind => let (st'', more) := both W lvs cs lv st' ind in (finish (succ ++ more), best, st'')
                            | None => (finish succ, best, st')
                            end
                     end in
            let y := match succ with
                     | [n] => (WS_forward n indiff', best, st')
                     | _ => match indiff' with
                            | Some ind => let (st'', more) := both_inf W lvs csi lv st' ind in (finish (succ ++ more), best, st'')
                            | None => (finish succ, best, st')
                            end
                     end in
            x = y /\ cache_bd (snd x) /\ step_NB (fst (fst x))).
  { intros succ indiff' st' Hc Hs Hi'.
    assert (Hgen : let x := match indiff' with
                            | Some ind => let (st'', more) := both W lvs cs lv st' ind in (finish (succ ++ more), best, st'')
                            | None => (finish succ, best, st')
                            end in
                   let y := match indiff' with
                            | Some ind => let (st'', more) := both_inf W lvs csi lv st' ind in (finish (succ ++ more), best, st'')
                            | None => (finish succ, best, st')
                            end in
                   x = y /\ cache_bd (snd x) /\ step_NB (fst (fst x))).
    { destruct indiff' as [ind|]; [|cbn; split; [reflexivity|split; [exact Hc|apply finish_NB; exact Hs]]].
      destruct (both_unc st' ind Hc Hi') as (B1 & B2 & B3). rewrite <- B1. destruct (both W lvs cs lv st' ind) as [st'' more]. cbn [fst snd] in *.
      split; [reflexivity|split; [exact B2|apply finish_NB; apply Forall_app; split; assumption]]. }
    destruct succ as [|n [|n2 l']]; try exact Hgen. cbn. split; [reflexivity|split; [exact Hc|split; [inversion Hs; assumption|exact Hi']]]. }
  destruct (get_formatting_requirement (lv_type lv) (tr_win r) (tr_ty r) (tr_inv r) (tr_stk r) (n_data nd) (n_nli nd)).
  - destruct (potential_unc st nd false Hst Hnd) as (P1 & P2 & P3). rewrite <- P1. destruct (pot st nd false) as [st' succ]. cbn [fst snd] in *.
    apply Hafter; [exact P2|exact P3|]. destruct indiff; [exact Hind|exact Hnd].
  - destruct indiff as [ind|]; [|split; [reflexivity|split; [exact Hst|exact I]]].
    destruct (both_unc st ind Hst Hind) as (B1 & B2 & B3). rewrite <- B1. destruct (both W lvs cs lv st ind) as [st' succ]. cbn [fst snd] in *.
    split; [reflexivity|split; [exact B2|apply finish_NB; exact B3]].
  - destruct (potential_unc st nd true Hst Hnd) as (P1 & P2 & P3). rewrite <- P1. destruct (pot st nd true) as [st' sols]. cbn [fst snd] in *.
    pose proof (kept_NB (N.to_nat (n_nli nd)) sols P3 best [] (Forall_nil _)) as Hk.
    destruct (fold_left _ sols (best, [])) as [best' kept]. cbn [fst snd] in *.
    split; [reflexivity|split; [exact P2|apply finish_NB; exact Hk]].
  - destruct (potential_unc st nd false Hst Hnd) as (P1 & P2 & P3). rewrite <- P1. destruct (pot st nd false) as [st' succ]. cbn [fst snd] in *.
    apply Hafter; [exact P2|exact P3|exact Hind].
Qed.

Lemma walk_unc : forall f1 f2 nd indiff best st, cache_bd st -> NB nd -> oNB indiff ->
  walk W lvs cs lv f1 f2 nd indiff best st = walk_inf W lvs csi lv f1 f2 nd indiff best st
  /\ cache_bd (snd (walk W lvs cs lv f1 f2 nd indiff best st)) /\ res_NB (fst (fst (walk W lvs cs lv f1 f2 nd indiff best st))).
Proof.
  induction f1 as [|f1 IH1]; induction f2 as [|f2 IH2]; intros nd indiff best st Hst Hnd Hind;
    try (cbn; split; [reflexivity|split; [exact Hst|exact I]]).
  - cbn [walk walk_inf]. destruct (walk_step_unc nd indiff best st Hst Hnd Hind) as (S1 & S2 & S3). rewrite <- S1.
    destruct (wstep nd indiff best st) as [[s best'] st']. cbn [fst snd] in *.
    destruct s as [r|n x|n]; cbn [fst snd]; [split; [reflexivity|split; assumption]| |split; [reflexivity|split; [exact S2|exact I]]].
    destruct S3 as (Hn & Hx). apply IH2; assumption.
  - cbn [walk walk_inf]. destruct (walk_step_unc nd indiff best st Hst Hnd Hind) as (S1 & S2 & S3). rewrite <- S1.
    destruct (wstep nd indiff best st) as [[s best'] st']. cbn [fst snd] in *.
    destruct s as [r|n x|n]; cbn [fst snd]; [split; [reflexivity|split; assumption]| |].
    + destruct S3 as (Hn & Hx). apply IH2; assumption.
    + apply IH1; [exact S2|exact S3|exact I].
Qed.

Lemma cache_bd_same st st' : ss_cache st' = ss_cache st -> cache_bd st -> cache_bd st'.
Proof. intros E H. unfold cache_bd. rewrite E. exact H. Qed.

Definition sres_NB (r : sres) : Prop :=
  match r with SR_ok s => forall l, sol_last s = Some l -> l <= M + m * psum (lv_recs lv) | _ => True end.

Lemma main_loop_unc : forall fuel h iter best st, cache_bd st -> heap_all NB h ->
  main_loop W lvs cs lv fuel h iter best st = main_loop_inf W lvs csi lv fuel h iter best st
  /\ cache_bd (fst (main_loop W lvs cs lv fuel h iter best st)) /\ sres_NB (snd (main_loop W lvs cs lv fuel h iter best st)).
Proof.
  induction fuel as [|f IHf]; intros h iter best st Hst Hh; cbn [main_loop main_loop_inf].
  - split; [reflexivity|split; [eapply cache_bd_same; [|exact Hst]; reflexivity|exact I]].
  - destruct (heap_pop h) as [[nd h']|] eqn:Epop; [|split; [reflexivity|split; [eapply cache_bd_same; [|exact Hst]; reflexivity|exact I]]].
    destruct (heap_pop_all NB h nd h' Hh Epop) as (Hnd & Hh').
    destruct (w_iter W <? iter); [split; [reflexivity|split; [eapply cache_bd_same; [|exact Hst]; reflexivity|exact I]]|].
    destruct (n_rest nd) as [|r rest] eqn:Hrest.
    + split; [reflexivity|split; [eapply cache_bd_same; [|exact Hst]; reflexivity|]]. cbn [snd sres_NB]. intros l Hl.
      destruct Hnd as (_ & (done & Hsplit & Hlast) & _). rewrite Hrest, app_nil_r in Hsplit.
      assert (l <= last_line_length_of nd).
      { unfold sol_last, solution_of_node, last_opt' in Hl. cbn [sol_decs] in Hl. rewrite rev_involutive in Hl. unfold last_line_length_of.
        destruct (n_decs nd) as [|t ?]; [discriminate|]. cbn [option_map] in Hl. injection Hl as <-. lia. }
      assert (psum done = psum (lv_recs lv)) by (rewrite <- Hsplit, psum_rev; reflexivity). nia.
    + destruct (best_at best (N.to_nat (N.pred (n_nli nd))) <? n_pen nd); [apply IHf; assumption|].
      destruct (walk_unc (S (length (r :: rest))) (S (length (r :: rest))) nd None best st Hst Hnd I) as (W1 & W2 & W3). rewrite <- W1.
      destruct (walk W lvs cs lv (S (length (r :: rest))) (S (length (r :: rest))) nd None best st) as [[res best'] st']. cbn [fst snd] in *.
      destruct res as [n|l| |].
      * apply IHf; [exact W2|apply heap_push_all; assumption].
      * apply IHf; [exact W2|apply heap_extend_all; assumption].
      * apply IHf; assumption.
      * split; [reflexivity|split; [eapply cache_bd_same; [|exact W2]; reflexivity|exact I]].
Qed.

Lemma fos_unc st fd : cache_bd st -> off fd <= M ->
  find_optimal_solution W lvs fm cs lv st ws fd = find_optimal_solution_inf W lvs fm csi lv st ws fd
  /\ cache_bd (fst (find_optimal_solution W lvs fm cs lv st ws fd)) /\ sres_NB (snd (find_optimal_solution W lvs fm cs lv st ws fd)).
Proof.
  intros Hst Hoff. unfold find_optimal_solution, find_optimal_solution_inf.
  assert (Hcase : lv_recs lv = [] \/ exists r rest, lv_recs lv = r :: rest) by (destruct (lv_recs lv) as [|r rest]; [left; reflexivity|right; exists r, rest; reflexivity]).
  destruct Hcase as [Hrecs|(r & rest & Hrecs)]; rewrite Hrecs; [split; [reflexivity|split; [exact Hst|cbn; discriminate]]|].
  assert (Hr : In r (lv_recs lv)) by (rewrite Hrecs; left; reflexivity).
  destruct (Hrec i lv r Hi Hr) as (Hsl & Hml & Hsw). destruct Hws as (Hw1 & Hw2).
  set (fb := match fd with FD_Break => _ | FD_Continue line_length can_break => _ end).
  assert (Hfb : snd (fst fb) <= M + m).
  { subst fb. destruct fd as [|o cb]; cbn [off] in Hoff.
    - destruct (bid _); cbn [fst snd]; destruct (tr_ml r) as [x|]; try (specialize (Hml x eq_refl); lia); [lia|].
      pose proof (lws_len_mono W (fst ws) (snd ws) IB CB ltac:(lia) ltac:(nia)) as Hmono. unfold Wb in HM. destruct ws; cbn [fst snd] in *. lia.
    - cbn [fst snd]. destruct (tr_ml r) as [x|]; [specialize (Hml x eq_refl); lia|lia]. }
  destruct fb as [[ib lll] bcb]. cbn [fst snd] in Hfb.
  destruct (bid _ && negb ib); [split; [reflexivity|split; [exact Hst|exact I]]|].
  assert (Hps : 1 + kq r + psum rest = psum (lv_recs lv)) by (rewrite Hrecs; cbn [psum fold_right]; fold (psum rest); unfold rspan, kq; lia).
  assert (Hps' : m * psum (lv_recs lv) = m + m * kq r + m * psum rest) by (rewrite <- Hps; lia).
  assert (Hpen : decision_penalty W (lv_type lv) r 0 ib lll = decision_penalty_inf lv r 0 ib).
  { unfold decision_penalty, decision_penalty_inf. destruct ib; [reflexivity|].
    replace (w_max W <? lll) with false; [reflexivity|]. symmetry. apply N.ltb_ge. lia. }
  rewrite Hpen. rewrite (proj1 (Hwf i lv Hi)).
  destruct (cls_unc st r [] 0 ws [TDec (if ib then WBreak 0 else WContinue) lll []]
              (dt_upd 1 (fun s0 => mkSt (s_broken s0) bcb (s_child s0) (s_oepl s0) (s_bar s0)) PLeaf) 1 lll 0 (M + m) Hr
              (conj Hw1 Hw2) ltac:(lia) ltac:(intros c E; cbn in E; discriminate) Hfb ltac:(lia) ltac:(lia) Hst) as (E1 & E2 & E3).
  rewrite <- E1. destruct (child_lines_solutions W lvs cs st i r _ _ _ _ _ _ _ _) as [st1 sols]. cbn [fst snd] in *.
  apply main_loop_unc; [exact E2|].
  apply heap_extend_all; [exact I|].
  assert (Hkl : kids_last (match last_opt' sols with Some k0 => k0 | None => [] end) <= M + m + m * kq r).
  { unfold last_opt'. destruct (rev sols) as [|v rv] eqn:Erev; [cbn; lia|].
    rewrite Forall_forall in E3. apply E3. apply in_rev. rewrite Erev. left; reflexivity. }
  apply Forall_forall. intros n Hn. apply in_map_iff in Hn. destruct Hn as (x & <- & _).
  split; [reflexivity|]. split.
  - exists [r]. cbn [n_rest rev app]. split; [symmetry; exact Hrecs|].
    unfold last_line_length_of. cbn [n_decs td_lll td_kids]. fold (kids_last (match last_opt' sols with Some k0 => k0 | None => [] end)).
    cbn [psum fold_right]. unfold rspan. fold (kq r). nia.
  - intros t c [<-|[]] Ht. cbn [td_dec] in Ht. destruct ib; [injection Ht as <-; lia|discriminate].
Qed.
End Child.

(* the search is the width-free search under the bound, at every child depth; the cache stays bounded *)
Theorem solve_unc : forall k st lv j ws fd, nth_error lvs j = Some lv -> cache_bd st -> cpre k j ws fd ->
  solve W lvs fm k st lv ws fd = solve_inf W lvs fm k st lv ws fd
  /\ cache_bd (fst (solve W lvs fm k st lv ws fd)) /\ cpost j fd (snd (solve W lvs fm k st lv ws fd)).
Proof.
  induction k as [|k IHk]; intros st lv j ws fd Hj Hst (Hws & Hmax); cbn [solve solve_inf].
  - split; [reflexivity|]. split; [exact Hst|]. intros s l E. discriminate.
  - pose proof (Hspan j lv Hj) as Hsp.
    destruct (fos_unc k (solve W lvs fm k) (solve_inf W lvs fm k) IHk j lv Hj ws (N.max (off fd) Wb) Hws ltac:(lia) ltac:(nia) st fd Hst ltac:(lia)) as (F1 & F2 & F3).
    rewrite <- F1. destruct (find_optimal_solution W lvs fm (solve W lvs fm k) lv st ws fd) as [st1 res]. cbn [fst snd] in *.
    split; [reflexivity|]. split; [exact F2|]. intros s l E Hl. destruct res as [s1| | |]; try discriminate. injection E as <-.
    specialize (F3 l Hl). nia.
Qed.

Lemma cache_bd_init : cache_bd sst_init.
Proof. intros key v []. Qed.
End Unc.

Print Assumptions solve_unc.
