(* Proofs/R01DirectiveProofs.v — the case clause of C01 for compiler directives: whatever format_compiler_directive rewrites,
   the new content differs from the old one in letter case only, and only within the directive's name (the run of name bytes
   right after the opener): `r01_directive old new`. *)
From PasfmtVerif Require Import Model.Rewriters Proofs.RewritersProofs.

(* every byte the state machine counts is a name byte: the length it returns is the start length plus at most the run of name bytes *)
Lemma dir_scan_within st sw l len n :
  dir_scan st sw l len = Some n -> (len <= n <= len + count_while is_dir_name_byte l)%nat.
Proof.
  revert st sw len; induction l as [|b t IH]; intros st sw len H; cbn [dir_scan] in H.
  - injection H as <-. cbn [count_while]. lia.
  - cbn [count_while].
    repeat match type of H with
    | (if ?c then _ else _) = _ => destruct c eqn:?
    end; try discriminate;
    try (injection H as <-; destruct (is_dir_name_byte b); lia);
    match type of H with
    | dir_scan _ _ t (S len) = Some n =>
        apply IH in H;
        assert (Hb : is_dir_name_byte b = true) by
          (unfold is_dir_name_byte, is_word_byte in *;
           repeat match goal with
           | Hc : (_ && _)%bool = true |- _ => apply andb_true_iff in Hc; destruct Hc
           | Hc : (_ || _)%bool = true |- _ => apply orb_true_iff in Hc; destruct Hc
           end;
           repeat match goal with Hc : _ = true |- _ => rewrite Hc end;
           rewrite ?orb_true_r; reflexivity);
        rewrite Hb; lia
    end.
Qed.

Lemma skipn_app_same_len {A} (a a' b : list A) n :
  length a = length a' -> (length a <= n)%nat -> skipn n (a ++ b) = skipn n (a' ++ b).
Proof. intros H1 H2. rewrite !skipn_app. rewrite (skipn_all2 a) by lia. rewrite (skipn_all2 a') by lia. rewrite H1. reflexivity. Qed.

Lemma fold_case_firstn n l : fold_case (firstn n l) = firstn n (fold_case l).
Proof. unfold fold_case, lower. symmetry. apply firstn_map. Qed.

(* the shape of a rewrite: an untouched opener, the first d bytes of the rest upper-cased, d within the run of name bytes *)
Lemma r01_shape (pre s : bytes) (d : nat) :
  (d <= count_while is_dir_name_byte s)%nat ->
  let c := pre ++ s in let c' := pre ++ upper (firstn d s) ++ skipn d s in
  let p := length pre in let n := count_while is_dir_name_byte (skipn p c) in
  (bytes_eqb (firstn p c') (firstn p c) && bytes_eqb (fold_case (firstn n (skipn p c'))) (fold_case (firstn n (skipn p c)))
   && bytes_eqb (skipn (p + n) c') (skipn (p + n) c))%bool = true.
Proof.
  intros Hd. cbn zeta.
  assert (Hlen : length (upper (firstn d s)) = length (firstn d s)) by (unfold upper; apply map_length).
  assert (E1 : forall x, firstn (length pre) (pre ++ x) = pre).
  { intros x. rewrite firstn_app, Nat.sub_diag, firstn_O, app_nil_r. apply firstn_all. }
  assert (E2 : forall x, skipn (length pre) (pre ++ x) = x).
  { intros x. rewrite skipn_app, Nat.sub_diag, skipn_all. reflexivity. }
  rewrite !E1, !E2. set (n := count_while is_dir_name_byte s) in *.
  assert (E3 : forall x, skipn (length pre + n) (pre ++ x) = skipn n x).
  { intros x. rewrite skipn_app. rewrite skipn_all2 by lia. replace (length pre + n - length pre)%nat with n by lia. reflexivity. }
  rewrite !andb_true_iff. repeat split; apply bytes_eqb_eq.
  - reflexivity.
  - rewrite !fold_case_firstn. f_equal. rewrite fold_case_app, fold_case_upper, <- fold_case_app, firstn_skipn. reflexivity.
  - rewrite !E3.
    rewrite (skipn_app_same_len (upper (firstn d s)) (firstn d s) (skipn d s) n Hlen).
    + rewrite firstn_skipn. reflexivity.
    + rewrite Hlen, firstn_length. lia.
Qed.

Theorem format_compiler_directive_r01 (c c' : bytes) :
  format_compiler_directive c = Some c' -> r01_directive c c' = true.
Proof.
  unfold format_compiler_directive, r01_directive, dir_open_len.
  assert (KEY : forall pre stripped, c = pre ++ stripped ->
     match dir_scan DBefore false stripped 0 with
     | Some dlen => if existsb is_lower (firstn dlen stripped)
                    then Some (firstn (length c - length stripped) c ++ upper (firstn dlen stripped) ++ skipn dlen stripped) else None
     | None => None
     end = Some c' ->
     let p := length pre in let n := count_while is_dir_name_byte (skipn p c) in
     (bytes_eqb (firstn p c') (firstn p c) && bytes_eqb (fold_case (firstn n (skipn p c'))) (fold_case (firstn n (skipn p c)))
      && bytes_eqb (skipn (p + n) c') (skipn (p + n) c))%bool = true).
  { intros pre s -> H.
    destruct (dir_scan DBefore false s 0) as [dlen|] eqn:Hs; [|discriminate].
    destruct (existsb is_lower (firstn dlen s)); [|discriminate]. injection H as <-.
    apply dir_scan_within in Hs. cbn [Nat.add] in Hs.
    rewrite app_length, Nat.add_sub.
    replace (firstn (length pre) (pre ++ s)) with pre
      by (rewrite firstn_app, Nat.sub_diag, firstn_O, app_nil_r; symmetry; apply firstn_all).
    apply r01_shape. lia. }
  destruct (strip_prefix [123; 36] c) as [s|] eqn:E1.
  - intros H. apply strip_prefix_some in E1.
    assert (P : is_prefix [123; 36] c = true) by (apply is_prefix_spec; exists s; exact E1). rewrite P.
    exact (KEY [123; 36] s E1 H).
  - destruct (strip_prefix [40; 42; 36] c) as [s|] eqn:E2; [|discriminate].
    intros H. apply strip_prefix_some in E2.
    assert (P1 : is_prefix [123; 36] c = false).
    { unfold strip_prefix in E1. destruct (is_prefix [123; 36] c); [discriminate|reflexivity]. }
    assert (P2 : is_prefix [40; 42; 36] c = true) by (apply is_prefix_spec; exists s; exact E2).
    rewrite P1, P2. exact (KEY [40; 42; 36] s E2 H).
Qed.

(* non-vacuity: `{$region 'region'}` is rewritten, and only its name changes case *)
Example r01_directive_example :
  format_compiler_directive [123; 36; 114; 101; 103; 105; 111; 110; 32; 39; 114; 101; 103; 105; 111; 110; 39; 125]
  = Some [123; 36; 82; 69; 71; 73; 79; 78; 32; 39; 114; 101; 103; 105; 111; 110; 39; 125]
  /\ r01_directive [123; 36; 114; 101; 103; 105; 111; 110; 32; 39; 114; 101; 103; 105; 111; 110; 39; 125]
                   [123; 36; 82; 69; 71; 73; 79; 78; 32; 39; 82; 69; 71; 73; 79; 78; 39; 125] = false.
Proof. vm_compute. split; reflexivity. Qed.
