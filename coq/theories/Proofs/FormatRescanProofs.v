(* Proofs/FormatRescanProofs.v — C02 for the composed model, as far as the stage theorems carry it.

   What is proved for EVERY input on which format_model returns an output:
     format_tokens_kept   the vector handed to the reconstructor has exactly one token per token the lexer found in the
                          input, in order; token i has the lexical class of the lexed token i (operator, word, text, number,
                          directive, comment kind, eof: the parser only re-types within a class — lift of
                          C02_parser_only_retypes / parse_file_token_types — and the generics pass only touches chevrons), and
                          its text is the lexed text put through the three documented normalisations, in this order:
                          keyword lower-casing, comment / directive rewriting, multi-line string re-indentation
                          (norm_content, then a chain of rewrite_ml_token);
     format_output_tiles  the output is the concatenation of (emitted whitespace, final text) over those tokens.
   What remains a hypothesis (format_rescan): `relayout init_state osegs`, i.e. that every final text, followed by what the
   output puts after it, is again ONE token of its raw kind (LexerRelayoutProofs: the per-class separator conditions).
   Under it the verified lexer maps the output to exactly those tokens: same count, the final texts, the raw kinds of the
   input's scan with the Individual/Inline flag recomputed from the new whitespace.  The hypothesis is false for some
   malformed inputs (the 23 gluing exceptions of C02_spacing_separates); on every traced case it is decided by the driver
   unit `relex`.  The missing link is therefore exactly: "TokenSpacing + the search's decisions leave a separator wherever
   sep_ok asks for one". *)
From Coq Require Import Lia.
From PasfmtVerif Require Import Proofs.LexerProofs Proofs.LexerSpecProofs Proofs.LexerRelayoutProofs.
(* (LexerRelayoutProofs has a seg_ty and a retype of its own: Model.Format is imported after it, so that the unqualified names
   are Format's; the lexer-side retype is written LexerRelayoutProofs.retype) *)
From PasfmtVerif Require Import Proofs.WrapApplyProofs Proofs.GenericsProofs Proofs.ParserGrammarTypesProofs Proofs.SpacingProofs Proofs.ToggleProofs
  Model.Format Proofs.FormatProofs Proofs.FormatWrapProofs Proofs.FormatIgnoredProofs.
Local Open Scope nat_scope.

(* ------------------------------------------------------------------ *)
(* the text of a token after LowercaseKeywords and CommentFormatter: a function of the token and its ignore mark *)
Definition with_ign (m : bool) : fmt := mkFmt m 0 0 0 0.
Definition norm_content (alnum : bytes -> bool) (tok : token) (m : bool) : bytes :=
  t_content (fst (comment_tok alnum (lowercase_tok (tok, with_ign m)))).

Lemma lowercase_tok_fmt tok f : snd (lowercase_tok (tok, f)) = f.
Proof. unfold lowercase_tok. destruct (f_ignored f); [reflexivity|]. destruct (_ && _); reflexivity. Qed.

Lemma lowercase_tok_indep tok f g : f_ignored f = f_ignored g -> fst (lowercase_tok (tok, f)) = fst (lowercase_tok (tok, g)).
Proof. intros H. unfold lowercase_tok. rewrite H. destruct (f_ignored g); [reflexivity|]. destruct (_ && _); reflexivity. Qed.

Lemma comment_tok_indep alnum tok f g : f_ignored f = f_ignored g -> fst (comment_tok alnum (tok, f)) = fst (comment_tok alnum (tok, g)).
Proof.
  intros H. unfold comment_tok. rewrite H. destruct (f_ignored g); [reflexivity|].
  match goal with |- context [match ?r with Some _ => _ | None => _ end] => destruct r end; reflexivity.
Qed.

Lemma norm_content_any alnum tok f :
  t_content (fst (comment_tok alnum (lowercase_tok (tok, f)))) = norm_content alnum tok (f_ignored f).
Proof.
  unfold norm_content.
  destruct (lowercase_tok (tok, f)) as [t1 f1] eqn:E1. destruct (lowercase_tok (tok, with_ign (f_ignored f))) as [t2 f2] eqn:E2.
  assert (Ht : t1 = t2).
  { change t1 with (fst (t1, f1)). change t2 with (fst (t2, f2)). rewrite <- E1, <- E2. apply lowercase_tok_indep. reflexivity. }
  assert (Hf1 : f1 = f) by (change f1 with (snd (t1, f1)); rewrite <- E1; apply lowercase_tok_fmt).
  assert (Hf2 : f2 = with_ign (f_ignored f)) by (change f2 with (snd (t2, f2)); rewrite <- E2; apply lowercase_tok_fmt).
  subst. f_equal. apply comment_tok_indep. reflexivity.
Qed.

(* ------------------------------------------------------------------ *)
(* token by token through the formatting stages: the text *)
Definition text_rel (rs : rsettings) (alnum : bytes -> bool) (p q : ftoken) : Prop :=
  ml_rewrites rs (norm_content alnum (fst p) (f_ignored (snd p))) (t_content (fst q)).

Lemma spacing_fst l : pointwise (fun p q => fst q = fst p /\ f_ignored (snd q) = f_ignored (snd p)) l (token_spacing l).
Proof.
  apply Forall2_pointwise. pose proof (spacing_only_sp l) as H.
  induction H as [|q p l' l0 (Hf & n & Hs) _ IH]; constructor; [|exact IH].
  rewrite Hf, Hs. destruct (snd p); cbn. split; reflexivity.
Qed.

Lemma eof_newline_once_fst l : pointwise (fun p q => fst q = fst p /\ f_ignored (snd q) = f_ignored (snd p)) l (eof_newline_once l).
Proof.
  unfold eof_newline_once. destruct (rev l) as [|[tok f] r] eqn:E; [apply pointwise_refl; auto|].
  destruct (is_eof (t_ty tok)); [|apply pointwise_refl; auto].
  assert (El : l = rev r ++ [(tok, f)]) by (rewrite <- (rev_involutive l), E; reflexivity).
  rewrite El. split; [rewrite !app_length; reflexivity|].
  intros j p Hp. destruct (PeanoNat.Nat.lt_ge_cases j (length (rev r))) as [Hlt|Hge].
  - rewrite nth_error_app1 in Hp by exact Hlt. exists p. split; [rewrite nth_error_app1 by exact Hlt; exact Hp|auto].
  - rewrite nth_error_app2 in Hp by exact Hge. rewrite nth_error_app2 by exact Hge.
    destruct (j - length (rev r)) as [|k]; cbn in *; [|destruct k; discriminate].
    injection Hp as <-. eexists. split; [reflexivity|]. split; reflexivity.
Qed.

Lemma eof_newline_lines_fst lines : forall l,
  pointwise (fun p q => fst q = fst p /\ f_ignored (snd q) = f_ignored (snd p)) l (eof_newline_lines lines l).
Proof.
  unfold eof_newline_lines. induction lines as [|ln r IH]; intros l; cbn [fold_left]; [apply pointwise_refl; auto|].
  eapply pointwise_trans; [| |apply IH].
  - intros x y z [A1 A2] [B1 B2]. split; congruence.
  - unfold bid. destruct (ll_type ln); try (apply pointwise_refl; auto). apply eof_newline_once_fst.
Qed.

Theorem fm_final_text alnum cfg segs i p0 :
  nth_error (fm_l0 segs) i = Some p0 ->
  exists q, nth_error (fm_final alnum cfg segs) i = Some q /\ text_rel (cfg_rs cfg) alnum p0 q.
Proof.
  intros H0. unfold fm_final, fm_wrap, fm_l4, fm_l3, fm_l2, fm_l1.
  destruct (proj2 (spacing_fst (fm_l0 segs)) i p0 H0) as (p1 & H1 & F1 & I1).
  assert (H2 : nth_error (lowercase_keywords (token_spacing (fm_l0 segs))) i = Some (lowercase_tok p1))
    by (unfold lowercase_keywords; rewrite nth_error_map, H1; reflexivity).
  assert (H3 : nth_error (comment_formatter alnum (lowercase_keywords (token_spacing (fm_l0 segs)))) i = Some (comment_tok alnum (lowercase_tok p1)))
    by (unfold comment_formatter; rewrite nth_error_map, H2; reflexivity).
  destruct (proj2 (eof_newline_lines_fst (fm_lines segs) _) i _ H3) as (p4 & H4 & F4 & _).
  destruct (proj2 (olf_model_ml_text (cfg_rs cfg) (cfg_ws cfg) (c_fms cfg) (fm_lines segs) _) i p4 H4) as (q & Hq & Hml).
  exists q. split; [exact Hq|]. unfold text_rel. rewrite F4 in Hml.
  destruct p1 as [t1 f1]. destruct p0 as [t0 f0]. cbn [fst snd] in *. subst t1.
  rewrite norm_content_any, I1 in Hml. exact Hml.
Qed.

(* ------------------------------------------------------------------ *)
(* the types: the lexical class of the lexed token *)
Lemma generics_class l i a b : nth_error l i = Some a -> nth_error (generics_consolidate l) i = Some b -> tt_class_of b = tt_class_of a.
Proof.
  intros Ha Hb. destruct (TokenType_eqb a b) eqn:E; [apply TokenType_eqb_eq in E; subst; reflexivity|].
  assert (Hne : a <> b) by (intros ->; rewrite TokenType_eqb_refl in E; discriminate).
  destruct (generics_only_chevrons l i a b Ha Hb Hne) as [(k & -> & ->)|(k & -> & ->)]; reflexivity.
Qed.

Theorem fm_toks_class segs i sg : nth_error segs i = Some sg ->
  exists tok, nth_error (fm_toks segs) i = Some tok /\ t_ws tok = seg_ws sg /\ t_content tok = seg_content sg
              /\ tt_class_of (t_ty tok) = lex_class_of (seg_ty sg).
Proof.
  intros H. unfold fm_toks, retype.
  assert (Hty : nth_error (map seg_ty segs) i = Some (seg_ty sg)) by (rewrite nth_error_map, H; reflexivity).
  destruct (parse_file_retype_nth (map seg_ty segs) (map seg_wsnl segs) (all_passes (map seg_ty segs)) i _ Hty) as (t' & Ht' & Hr).
  assert (H0 : nth_error (fm_toks0 segs) i = Some (token_of_seg sg t')).
  { unfold fm_toks0, tokens_of, fm_parse, parse_file_model. rewrite nth_error_map, (combine_nth_error _ _ _ _ _ H Ht'). reflexivity. }
  set (tys := generics_consolidate (map t_ty (fm_toks0 segs))).
  assert (Hl : i < length tys).
  { subst tys. rewrite generics_length, map_length. apply nth_error_Some. congruence. }
  destruct (nth_error tys i) as [ty|] eqn:Et; [|apply nth_error_None in Et; lia].
  rewrite nth_error_map, (combine_nth_error _ _ _ _ _ H0 Et). cbn. eexists. split; [reflexivity|]. cbn.
  split; [reflexivity|]. split; [reflexivity|].
  assert (Ha : nth_error (map t_ty (fm_toks0 segs)) i = Some (tt_of_raw t')) by (rewrite nth_error_map, H0; reflexivity).
  rewrite (generics_class _ i _ ty Ha Et), tt_class_of_raw. symmetry. apply retype_ok_class, Hr.
Qed.

(* C02, the part that holds for every input: the tokens are kept, one for one, within their lexical class, with normalised text *)
Theorem format_tokens_kept alnum cfg s out :
  format_model alnum cfg s = inl out ->
  exists segs, lex_segments s = Some segs /\ out = fm_out alnum cfg segs
    /\ length (fm_final alnum cfg segs) = length segs
    /\ forall i sg, nth_error segs i = Some sg ->
         exists tok0 m tokf ff,
           nth_error (fm_toks segs) i = Some tok0 /\ t_content tok0 = seg_content sg /\ nth_error (fm_marks segs) i = Some m
           /\ nth_error (fm_final alnum cfg segs) i = Some (tokf, ff)
           /\ t_ty tokf = t_ty tok0 /\ tt_class_of (t_ty tokf) = lex_class_of (seg_ty sg)
           /\ ml_rewrites (cfg_rs cfg) (norm_content alnum tok0 m) (t_content tokf).
Proof.
  intros H. apply format_model_spec in H. destruct H as (segs & Hl & _ & _ & _ & ->).
  exists segs. split; [exact Hl|]. split; [reflexivity|]. split; [apply fm_final_length|].
  intros i sg Hs. destruct (fm_toks_class segs i sg Hs) as (tok0 & Ht & _ & Hc & Hcl).
  assert (Hm : i < length (fm_marks segs)) by (rewrite fm_marks_length; apply nth_error_Some; congruence).
  destruct (nth_error (fm_marks segs) i) as [m|] eqn:Em; [|apply nth_error_None in Em; lia].
  assert (H0 : nth_error (fm_l0 segs) i = Some (tok0, fmt_of_ws (t_ws tok0) m))
    by (unfold fm_l0; rewrite nth_error_map, (combine_nth_error _ _ _ _ _ Ht Em); reflexivity).
  destruct (fm_final_text alnum cfg segs i _ H0) as ([tokf ff] & Hq & Htx).
  destruct (proj2 (fm_stages_rel alnum cfg segs) i _ H0) as (q' & Hq' & Hty & _). rewrite Hq in Hq'. injection Hq' as <-.
  cbn [fst snd] in *. exists tok0, m, tokf, ff. repeat split; try assumption. rewrite Hty. exact Hcl.
Qed.

(* ------------------------------------------------------------------ *)
(* the output as a planned file, and the re-scan under the separator hypothesis *)
Fixpoint out_segs (rs : rsettings) (mb first : bool) (l : list ftoken) (rtys : list RawTokenType) : list seg :=
  match l, rtys with
  | p :: r, ty :: tys =>
      let w := emit_ws rs mb p in
      (w, t_content (fst p), LexerRelayoutProofs.retype (contains_byte 10%N w || first) ty)
      :: out_segs rs (is_sl_comment (t_ty (fst p))) false r tys
  | _, _ => []
  end.

Lemma flatten_out_segs rs : forall l rtys mb first, length rtys = length l -> flatten (out_segs rs mb first l rtys) = recon rs mb l.
Proof.
  unfold flatten. induction l as [|p r IH]; intros [|ty tys] mb first H; cbn in H; try discriminate; [reflexivity|].
  cbn [out_segs map concat seg_bytes recon]. rewrite IH by congruence. rewrite <- app_assoc. reflexivity.
Qed.

Lemma out_segs_length rs : forall l rtys mb first, length rtys = length l -> length (out_segs rs mb first l rtys) = length l.
Proof. induction l as [|p r IH]; intros [|ty tys] mb first H; cbn in *; try discriminate; [reflexivity|]. rewrite IH by congruence. reflexivity. Qed.

(* the raw kinds of the input's scan, re-flagged for the output's whitespace *)
Definition format_osegs alnum cfg (segs : list seg) : list seg :=
  out_segs (cfg_rs cfg) false true (fm_final alnum cfg segs) (map seg_ty segs).

Theorem format_output_tiles alnum cfg s out :
  format_model alnum cfg s = inl out ->
  exists segs, lex_segments s = Some segs /\ out = flatten (format_osegs alnum cfg segs)
               /\ length (format_osegs alnum cfg segs) = length segs.
Proof.
  intros H. apply format_model_spec in H. destruct H as (segs & Hl & _ & _ & _ & ->).
  exists segs. split; [exact Hl|]. unfold format_osegs, fm_out, reconstruct.
  assert (Hlen : length (map seg_ty segs) = length (fm_final alnum cfg segs)) by (rewrite map_length, fm_final_length; reflexivity).
  split; [symmetry; apply flatten_out_segs, Hlen|].
  rewrite out_segs_length by exact Hlen. apply fm_final_length.
Qed.

(* C02 under the named hypothesis *)
Theorem format_rescan alnum cfg s out :
  format_model alnum cfg s = inl out ->
  exists segs, lex_segments s = Some segs /\
    (relayout init_state (format_osegs alnum cfg segs) ->
     lex out = Some (map seg_lens (format_osegs alnum cfg segs))).
Proof.
  intros H. destruct (format_output_tiles alnum cfg s out H) as (segs & Hl & -> & _).
  exists segs. split; [exact Hl|]. intros Hr. exact (relayout_lex init_state _ Hr).
Qed.

(* non-vacuity: `A:=1;` — the hypothesis holds (here checked through its consequence, with the lexer run on the output) and the
   re-scan gives the five tokens with the raw kinds of the input's scan *)
Example format_rescan_example :
  let s := [65; 58; 61; 49; 59]%N in
  let cfg := mkCfg 120 false true false 2 2 false in
  match lex_segments s, format_model (fun _ => false) cfg s with
  | Some segs, inl out =>
      out = [65; 32; 58; 61; 32; 49; 59; 10]%N
      /\ lex out = Some (map seg_lens (format_osegs (fun _ => false) cfg segs))
      /\ map seg_ty (format_osegs (fun _ => false) cfg segs) = map seg_ty segs
  | _, _ => False
  end.
Proof. vm_compute. repeat split; reflexivity. Qed.

(* the lift of C02_rescan_after_respacing proper: when no token's text was rewritten and every gap the formatter leaves satisfies the
   per-class gap condition of LexerRelayoutProofs (gaps_ok: a non-empty blank after an ordinary token, a line end after a `//`
   comment, ...), the output re-scans to the input's tokens with the new gaps *)
Lemma flatten_respace : forall segs ws' first, length ws' = length segs ->
  flatten (LexerRelayoutProofs.respace first ws' segs) = concat (map (fun wc : bytes * bytes => fst wc ++ snd wc) (combine ws' (map seg_content segs))).
Proof.
  unfold flatten. induction segs as [|[[wo c] ty] r IH]; intros [|w ws'] first H; cbn in H; try discriminate; [reflexivity|].
  cbn [LexerRelayoutProofs.respace map combine concat seg_bytes fst snd seg_content]. rewrite IH by congruence. reflexivity.
Qed.

Theorem format_rescan_respaced alnum cfg s out :
  format_model alnum cfg s = inl out ->
  exists toks, lex s = Some toks /\
    let segs := segments toks s in
    let parts := recon_parts (cfg_rs cfg) false (fm_final alnum cfg segs) in
    map snd parts = map seg_content segs ->
    gaps_ok PNone (map fst parts) segs ->
    lex out = Some (map seg_lens (LexerRelayoutProofs.respace true (map fst parts) segs)).
Proof.
  intros H. apply format_model_spec in H. destruct H as (segs & Hl & _ & _ & _ & ->).
  unfold lex_segments in Hl. destruct (lex s) as [toks|] eqn:E; [|discriminate]. injection Hl as <-.
  exists toks. split; [reflexivity|]. intros segs parts Hc Hg.
  assert (Hlen : length (map fst parts) = length segs).
  { subst parts. rewrite map_length, recon_parts_length. apply fm_final_length. }
  assert (Eo : fm_out alnum cfg segs = flatten (LexerRelayoutProofs.respace true (map fst parts) segs)).
  { rewrite flatten_respace by exact Hlen. rewrite <- Hc. unfold fm_out, reconstruct. rewrite recon_is_parts. fold parts.
    unfold flatten_parts. f_equal. clear. induction parts as [|[g b] r IH]; [reflexivity|]. cbn. rewrite <- IH. reflexivity. }
  fold segs. rewrite Eo. exact (lex_relayout s toks (map fst parts) E Hg).
Qed.

(* non-vacuity of the hypothesis itself: for `A:=B` the planned file of the output IS a relayout (through respace_relayout: the
   texts are unchanged and every gap the formatter leaves is a non-empty blank) *)
Example format_rescan_hypothesis_example :
  let s := [65; 58; 61; 66]%N in
  let cfg := mkCfg 120 false true false 2 2 false in
  exists segs, lex_segments s = Some segs /\ relayout init_state (format_osegs (fun _ => false) cfg segs)
               /\ format_model (fun _ => false) cfg s = inl [65; 32; 58; 61; 32; 66; 10]%N.
Proof.
  intros s cfg.
  destruct (lex s) as [toks|] eqn:E; [|vm_compute in E; discriminate].
  exists (segments toks s). split; [unfold lex_segments; rewrite E; reflexivity|]. split; [|vm_compute; reflexivity].
  assert (Eo : format_osegs (fun _ => false) cfg (segments toks s)
               = LexerRelayoutProofs.respace true [[]; [32]; [32]; [10]]%N (segments toks s)).
  { vm_compute in E. injection E as <-. vm_compute. reflexivity. }
  rewrite Eo. refine (proj1 (respace_relayout init_state toks s (lex_steps_sound s toks E) PNone _ _)).
  vm_compute in E. injection E as <-. cbn. repeat split; try reflexivity; try (left; discriminate); try (right; reflexivity).
Qed.

Print Assumptions format_tokens_kept.
Print Assumptions format_rescan.
Print Assumptions format_rescan_respaced.
