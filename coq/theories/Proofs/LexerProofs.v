(* Proofs/LexerProofs.v - totality, losslessness and shape of the token stream of Model/Lexer.v *)
From PasfmtVerif Require Import Model.Lexer.
From Coq Require Import Arith.

(* lia after normalising the two spellings of the element type (byte / N) in length, skipn, ... *)
Ltac blia := try unfold bytes in *; try unfold byte in *; lia.

(* ------------------------------------------------------------------ *)
(* scanning primitives *)

Lemma is_prefix_length p l : is_prefix p l = true -> (length p <= length l)%nat.
Proof.
  revert l; induction p as [|a p IH]; intros l H; simpl; [blia|].
  destruct l as [|b l]; simpl in H; [discriminate|].
  apply andb_true_iff in H. destruct H as [_ H]. apply IH in H. simpl. blia.
Qed.

Lemma find_first_bound p l i : find_first p l = Some i -> (i < length l)%nat.
Proof.
  revert i; induction l as [|b t IH]; intros i H; simpl in H; [discriminate|].
  destruct (p b); [injection H as <-; simpl; blia|].
  destruct (find_first p t) as [j|]; [|discriminate].
  injection H as <-. specialize (IH j eq_refl). simpl. blia.
Qed.

Lemma find_sub_unfold pat l :
  find_sub pat l =
  if is_prefix pat l then Some O
  else match l with [] => None | _ :: t => option_map S (find_sub pat t) end.
Proof. destruct l; reflexivity. Qed.

Lemma find_sub_bound pat l i : find_sub pat l = Some i -> (i + length pat <= length l)%nat.
Proof.
  revert i; induction l as [|b t IH]; intros i H; rewrite find_sub_unfold in H.
  - destruct (is_prefix pat []) eqn:E; [|discriminate].
    injection H as <-. apply is_prefix_length in E. simpl in *. blia.
  - destruct (is_prefix pat (b :: t)) eqn:E.
    + injection H as <-. apply is_prefix_length in E. simpl in *. blia.
    + destruct (find_sub pat t) as [j|]; [|discriminate].
      injection H as <-. specialize (IH j eq_refl). simpl. blia.
Qed.

Lemma next_is_cons c t : next_is c t = true -> exists t', t = c :: t'.
Proof.
  destruct t as [|x t']; simpl; [discriminate|].
  intros H. apply N.eqb_eq in H. subst. eexists; reflexivity.
Qed.

Lemma next_is_length c t : next_is c t = true -> length t = S (length (tl t)).
Proof. intros H. apply next_is_cons in H. destruct H as [t' ->]. reflexivity. Qed.

Lemma skipn_len {A} n (l : list A) : length (skipn n l) = (length l - n)%nat.
Proof. apply skipn_length. Qed.

Lemma tl_length_le {A} (l : list A) : (length (tl l) <= length l)%nat.
Proof. destruct l; simpl; blia. Qed.

(* ------------------------------------------------------------------ *)
(* whitespace *)

Lemma count_ws_unfold a t :
  count_ws (a :: t) =
  if a <=? 32 then S (count_ws t)
  else match t with
       | b :: c :: t' =>
           if (a =? 227) && (b =? 128) && (c =? 128) then S (S (S (count_ws t'))) else O
       | _ => O
       end.
Proof. reflexivity. Qed.

Lemma count_ws_le_strong n : forall l, (length l <= n)%nat -> (count_ws l <= length l)%nat.
Proof.
  induction n as [|n IH]; intros l Hl.
  - destruct l; simpl in *; blia.
  - destruct l as [|a t]; [simpl; blia|]. rewrite count_ws_unfold. simpl in Hl.
    destruct (a <=? 32).
    + specialize (IH t). simpl. blia.
    + destruct t as [|b [|c t']]; simpl; try blia.
      destruct ((a =? 227) && (b =? 128) && (c =? 128)); [|blia].
      specialize (IH t'). simpl in Hl. blia.
Qed.

Lemma count_ws_le l : (count_ws l <= length l)%nat.
Proof. apply (count_ws_le_strong (length l)). blia. Qed.

(* the leading-whitespace segment is blank in the sense of Base/Bytes.strip *)
Lemma count_ws_strip_strong n : forall l, (length l <= n)%nat -> strip (firstn (count_ws l) l) = [].
Proof.
  induction n as [|n IH]; intros l Hl.
  - destruct l; [reflexivity|simpl in Hl; blia].
  - destruct l as [|a t]; [reflexivity|]. rewrite count_ws_unfold. simpl in Hl.
    destruct (a <=? 32) eqn:Ea.
    + rewrite firstn_cons, strip_unfold, Ea. apply IH. blia.
    + destruct t as [|b [|c t']]; try reflexivity.
      destruct ((a =? 227) && (b =? 128) && (c =? 128)) eqn:E3; [|reflexivity].
      rewrite !firstn_cons, strip_unfold, Ea, E3. apply IH. simpl in Hl. blia.
Qed.

Lemma count_ws_strip l : strip (firstn (count_ws l) l) = [].
Proof. apply (count_ws_strip_strong (length l)). blia. Qed.

(* what follows the leading whitespace is not blank *)
Lemma count_ws_skipn_strong n : forall l, (length l <= n)%nat -> count_ws (skipn (count_ws l) l) = O.
Proof.
  induction n as [|n IH]; intros l Hl.
  - destruct l; [reflexivity|simpl in Hl; blia].
  - destruct l as [|a t]; [reflexivity|]. rewrite (count_ws_unfold a t). simpl in Hl.
    destruct (a <=? 32) eqn:Ea.
    + rewrite skipn_cons. apply IH. blia.
    + destruct t as [|b [|c t']].
      * simpl skipn. rewrite count_ws_unfold, Ea. reflexivity.
      * simpl skipn. rewrite count_ws_unfold, Ea. reflexivity.
      * destruct ((a =? 227) && (b =? 128) && (c =? 128)) eqn:E3.
        -- rewrite !skipn_cons. apply IH. simpl in Hl. blia.
        -- simpl skipn. rewrite count_ws_unfold, Ea, E3. reflexivity.
Qed.

Lemma count_ws_skipn l : count_ws (skipn (count_ws l) l) = O.
Proof. apply (count_ws_skipn_strong (length l)). blia. Qed.

Lemma count_ws_zero_inv b t :
  count_ws (b :: t) = O -> (b <=? 32) = false /\ is_u3000_at (b :: t) = false.
Proof.
  rewrite count_ws_unfold. destruct (b <=? 32) eqn:Eb; [discriminate|].
  intros H. split; [reflexivity|].
  unfold is_u3000_at. simpl.
  destruct t as [|c [|d t']].
  - rewrite andb_false_r. reflexivity.
  - simpl. rewrite !andb_false_r. reflexivity.
  - simpl. destruct ((b =? 227) && (c =? 128) && (d =? 128)) eqn:E3; [discriminate|].
    rewrite (N.eqb_sym 227 b), (N.eqb_sym 128 c), (N.eqb_sym 128 d), andb_true_r.
    rewrite andb_assoc. exact E3.
Qed.

Lemma trimmed_len_le l : (trimmed_len l <= length l)%nat.
Proof.
  induction l as [|a t IH]; [simpl; blia|].
  change (trimmed_len (a :: t)) with (if all_ws (a :: t) then O else S (trimmed_len t)).
  destruct (all_ws (a :: t)); simpl length; blia.
Qed.

(* ------------------------------------------------------------------ *)
(* identifiers and numbers *)

Lemma ident_end_generic_unfold b t :
  ident_end_generic (b :: t) =
  if is_ident_ascii b then S (ident_end_generic t)
  else if (128 <=? b) && negb (is_u3000_at (b :: t)) then S (ident_end_generic t)
  else O.
Proof. reflexivity. Qed.

Lemma ident_end_generic_le l : (ident_end_generic l <= length l)%nat.
Proof.
  induction l as [|b t IH]; [simpl; blia|]. rewrite ident_end_generic_unfold.
  destruct (is_ident_ascii b); [simpl; blia|].
  destruct ((128 <=? b) && negb (is_u3000_at (b :: t))); simpl; blia.
Qed.

Lemma find_identifier_end_le l : (find_identifier_end l <= length l)%nat.
Proof. apply ident_end_generic_le. Qed.

Lemma unicode_identifier_le t : (unicode_identifier t <= length t)%nat.
Proof.
  unfold unicode_identifier. cbv zeta.
  pose proof (count_while_le is_cont t) as H1.
  pose proof (find_identifier_end_le (skipn (count_while is_cont t) t)) as H2.
  rewrite skipn_len in H2. blia.
Qed.

Lemma count_full_decimal_le l : (count_full_decimal l <= length l)%nat.
Proof.
  unfold count_full_decimal, count_decimal. destruct (next_is 95 l); [blia|apply count_while_le].
Qed.

Lemma dec_number_literal_le l : (dec_number_literal l <= length l)%nat.
Proof.
  unfold dec_number_literal.
  pose proof (count_while_le is_dec l) as H1. unfold count_decimal.
  set (n1 := count_while is_dec l) in *.
  set (r1 := skipn n1 l).
  assert (L1 : length r1 = (length l - n1)%nat) by apply skipn_len.
  set (n2 := if next_is 46 r1 then _ else _).
  assert (H2 : (n2 <= length r1)%nat).
  { subst n2. destruct (next_is 46 r1) eqn:E; [|blia].
    rewrite (next_is_length _ _ E).
    pose proof (count_full_decimal_le (tl r1)).
    destruct (Nat.eqb (count_full_decimal (tl r1)) 0); blia. }
  set (r2 := skipn n2 r1).
  assert (L2 : length r2 = (length r1 - n2)%nat) by apply skipn_len.
  set (n3 := if next_is 101 r2 || next_is 69 r2 then _ else _).
  assert (H3 : (n3 <= length r2)%nat).
  { subst n3. destruct (next_is 101 r2 || next_is 69 r2) eqn:E; [|blia].
    assert (Lr : length r2 = S (length (tl r2))).
    { apply orb_true_iff in E. destruct E as [E|E]; exact (next_is_length _ _ E). }
    destruct (next_is 43 (tl r2) || next_is 45 (tl r2)) eqn:E'.
    - assert (Lr' : length (tl r2) = S (length (tl (tl r2)))).
      { apply orb_true_iff in E'. destruct E' as [E'|E']; exact (next_is_length _ _ E'). }
      pose proof (count_full_decimal_le (tl (tl r2))). blia.
    - pose proof (count_full_decimal_le (tl r2)). blia. }
  blia.
Qed.

Lemma asm_number_literal_le b t : (fst (asm_number_literal b t) <= length t)%nat.
Proof.
  unfold asm_number_literal.
  pose proof (count_while_le is_hex t) as H1. unfold count_hex.
  set (n := count_while is_hex t) in *.
  assert (L : length (skipn n t) = (length t - n)%nat) by apply skipn_len.
  destruct (next_is 79 (skipn n t) || next_is 111 (skipn n t)) eqn:E1.
  { apply orb_true_iff in E1. destruct E1 as [E|E]; apply next_is_length in E; simpl; blia. }
  destruct (next_is 72 (skipn n t) || next_is 104 (skipn n t)) eqn:E2.
  { apply orb_true_iff in E2. destruct E2 as [E|E]; apply next_is_length in E; simpl; blia. }
  destruct ((nth n (b :: t) 0 =? 66) || (nth n (b :: t) 0 =? 98)); simpl; blia.
Qed.

(* ------------------------------------------------------------------ *)
(* text literals *)

Lemma tl_run_le s l : (fst (tl_run s l) <= length l)%nat.
Proof.
  revert s; induction l as [|b t IH]; intros s; simpl; [blia|].
  destruct (tl_step s b) as [s'|k]; simpl; [specialize (IH s'); blia|blia].
Qed.

Lemma text_literal_le b t : (fst (text_literal b t) <= length t)%nat.
Proof.
  unfold text_literal.
  set (q := if b =? 39 then S (count_while (fun c => c =? 39) t) else O).
  assert (Hq : (q - 1 <= length t)%nat).
  { subst q. destruct (b =? 39); [|blia].
    pose proof (count_while_le (fun c => c =? 39) t). blia. }
  destruct (Nat.leb 3 q && Nat.odd q && (next_is 13 (skipn (q - 1) t) || next_is 10 (skipn (q - 1) t))).
  - destruct (find_sub (repeat 39 q) (skipn (q - 1) t)) as [pos|] eqn:E; simpl; [|blia].
    apply find_sub_bound in E. rewrite repeat_length, skipn_len in E. blia.
  - simpl. apply tl_run_le.
Qed.

Lemma asm_text_literal_unfold b t1 :
  asm_text_literal (b :: t1) =
  if b =? 92 then
    match t1 with
    | [] => (1%nat, RTT_TextLiteral TK_Unterminated)
    | _ :: t2 => let r := asm_text_literal t2 in (S (S (fst r)), snd r)
    end
  else if b =? 34 then (1%nat, RTT_TextLiteral TK_Asm)
  else if (b =? 10) || (b =? 13) then (O, RTT_TextLiteral TK_Unterminated)
  else let r := asm_text_literal t1 in (S (fst r), snd r).
Proof. reflexivity. Qed.

Lemma asm_text_literal_ok_strong n : forall t, (length t <= n)%nat ->
  (fst (asm_text_literal t) <= length t)%nat /\ snd (asm_text_literal t) <> RTT_Eof.
Proof.
  induction n as [|n IH]; intros t Ht.
  - destruct t; simpl in *; [split; [blia|discriminate]|blia].
  - destruct t as [|b t1]; [simpl; split; [blia|discriminate]|].
    rewrite asm_text_literal_unfold. simpl in Ht.
    destruct (b =? 92).
    + destruct t1 as [|c t2]; [simpl; split; [blia|discriminate]|].
      simpl in Ht. destruct (IH t2) as [H1 H2]; [blia|]. simpl. split; [blia|exact H2].
    + destruct (b =? 34); [simpl; split; [blia|discriminate]|].
      destruct ((b =? 10) || (b =? 13)); [simpl; split; [blia|discriminate]|].
      destruct (IH t1) as [H1 H2]; [blia|]. simpl. split; [blia|exact H2].
Qed.

Lemma asm_text_literal_ok t :
  (fst (asm_text_literal t) <= length t)%nat /\ snd (asm_text_literal t) <> RTT_Eof.
Proof. apply (asm_text_literal_ok_strong (length t)). blia. Qed.

(* ------------------------------------------------------------------ *)
(* comments and directives *)

Lemma find_block_comment_end_bound k l e :
  find_block_comment_end k l = Some e -> (1 <= e <= length l)%nat.
Proof.
  destruct k; simpl.
  - destruct (find_sub [42; 41] l) as [o|] eqn:E; [|discriminate].
    intros H; injection H as <-. apply find_sub_bound in E. simpl in E. blia.
  - destruct (find_first (fun b => b =? 125) l) as [o|] eqn:E; [|discriminate].
    intros H; injection H as <-. apply find_first_bound in E. blia.
Qed.

Lemma block_comment_le k nlb l : (fst (block_comment k nlb l) <= length l)%nat.
Proof.
  unfold block_comment. destruct (find_block_comment_end k l) as [e|] eqn:E; simpl.
  - apply find_block_comment_end_bound in E. blia.
  - apply trimmed_len_le.
Qed.

Lemma block_comment_ty k nlb l : snd (block_comment k nlb l) <> RTT_Eof.
Proof. unfold block_comment. destruct (find_block_comment_end k l); simpl; discriminate. Qed.

Lemma line_comment_len_le l : (line_comment_len l <= length l)%nat.
Proof. apply count_while_le. Qed.

Definition dres_ok (len : nat) (r : dres) : Prop :=
  match r with DEnd n => (n <= len)%nat | DUnterminated => True | DFuel => True end.

Lemma dshift_ok k len r : dres_ok len r -> dres_ok (k + len) (dshift k r).
Proof. destruct r; simpl; blia. Qed.

Lemma dres_ok_mono len len' r : (len <= len')%nat -> dres_ok len r -> dres_ok len' r.
Proof. destruct r; simpl; blia. Qed.

Lemma parse_directive_end_ok (expr_end : BlockCommentKind -> bytes -> dres) k l :
  (forall k' r, (length r <= length l)%nat -> dres_ok (length r) (expr_end k' r)) ->
  dres_ok (length l) (parse_directive_end expr_end k l).
Proof.
  intros Hrec. unfold parse_directive_end.
  pose proof (count_while_le is_ident_ascii l) as Hn.
  set (n := count_while is_ident_ascii l) in *.
  assert (L : length (skipn n l) = (length l - n)%nat) by apply skipn_len.
  destruct (cdk_has_expr (conditional_directive_kind (firstn n l))).
  - eapply dres_ok_mono; [|apply dshift_ok, Hrec; blia]. blia.
  - eapply dres_ok_mono; [|apply dshift_ok]; [|
      instantiate (1 := length (skipn n l))]; [blia|].
    destruct (find_block_comment_end k (skipn n l)) as [e|] eqn:E; simpl; [|exact I].
    apply find_block_comment_end_bound in E. blia.
Qed.

Lemma find_directive_expr_end_unfold f kind l :
  find_directive_expr_end (S f) kind l =
  let continue (m : nat) : dres := dshift m (find_directive_expr_end f kind (skipn m l)) in
  let and_then (pre : nat) (r : dres) : dres :=
    match r with DEnd m => continue (pre + m)%nat | other => other end in
  match l with
  | [] => DUnterminated
  | b :: t =>
      if is_paren_star kind && is_prefix [42; 41] l then DEnd 2
      else if negb (is_paren_star kind) && (b =? 125) then DEnd 1
      else if is_prefix [40; 42; 36] l then
        and_then 3%nat (parse_directive_end (find_directive_expr_end f) BCK_ParenStar (skipn 3 l))
      else if is_prefix [123; 36] l then
        and_then 2%nat (parse_directive_end (find_directive_expr_end f) BCK_Brace (skipn 2 l))
      else if is_prefix [40; 42] l then
        continue (2 + fst (block_comment BCK_ParenStar false (skipn 2 l)))%nat
      else if b =? 123 then continue (1 + fst (block_comment BCK_Brace false t))%nat
      else if b =? 39 then continue (S (fst (text_literal 39 t)))
      else if is_prefix [47; 47] l then continue (2 + line_comment_len (skipn 2 l))%nat
      else continue 1%nat
  end.
Proof. reflexivity. Qed.

(* every end offset found lies inside the suffix *)
Lemma find_directive_expr_end_ok fuel : forall kind l,
  dres_ok (length l) (find_directive_expr_end fuel kind l).
Proof.
  induction fuel as [|f IH]; intros kind l; [exact I|].
  rewrite find_directive_expr_end_unfold. cbv zeta.
  assert (Hcont : forall m, (m <= length l)%nat ->
            dres_ok (length l) (dshift m (find_directive_expr_end f kind (skipn m l)))).
  { intros m Hm. eapply dres_ok_mono; [|apply dshift_ok, IH]. rewrite skipn_len. blia. }
  assert (Hthen : forall pre r, (pre <= length l)%nat -> dres_ok (length l - pre) r ->
            dres_ok (length l)
              match r with
              | DEnd m => dshift (pre + m) (find_directive_expr_end f kind (skipn (pre + m) l))
              | other => other
              end).
  { intros pre r Hpre Hr. destruct r as [m| |]; simpl in Hr; [|exact I|exact I].
    apply Hcont. blia. }
  destruct l as [|b t]; [exact I|].
  destruct (is_paren_star kind && is_prefix [42; 41] (b :: t)) eqn:E1.
  { apply andb_true_iff in E1. destruct E1 as [_ E1]. apply is_prefix_length in E1. exact E1. }
  destruct (negb (is_paren_star kind) && (b =? 125)); [simpl; blia|].
  destruct (is_prefix [40; 42; 36] (b :: t)) eqn:E3.
  { apply is_prefix_length in E3. simpl length in E3 at 1.
    apply Hthen; [exact E3|].
    rewrite <- (skipn_len 3 (b :: t)). apply parse_directive_end_ok. intros k' r _. apply IH. }
  destruct (is_prefix [123; 36] (b :: t)) eqn:E4.
  { apply is_prefix_length in E4. simpl length in E4 at 1.
    apply Hthen; [exact E4|].
    rewrite <- (skipn_len 2 (b :: t)). apply parse_directive_end_ok. intros k' r _. apply IH. }
  destruct (is_prefix [40; 42] (b :: t)) eqn:E5.
  { apply is_prefix_length in E5. simpl length in E5 at 1. apply Hcont.
    pose proof (block_comment_le BCK_ParenStar false (skipn 2 (b :: t))) as Hb.
    rewrite skipn_len in Hb. blia. }
  destruct (b =? 123).
  { apply Hcont. pose proof (block_comment_le BCK_Brace false t). simpl. blia. }
  destruct (b =? 39).
  { apply Hcont. pose proof (text_literal_le 39 t). simpl. blia. }
  destruct (is_prefix [47; 47] (b :: t)) eqn:E8.
  { apply is_prefix_length in E8. simpl length in E8 at 1. apply Hcont.
    pose proof (line_comment_len_le (skipn 2 (b :: t))) as Hb.
    rewrite skipn_len in Hb. blia. }
  apply Hcont. simpl. blia.
Qed.

Definition dres_fueled (r : dres) : Prop := r <> DFuel.

Lemma dshift_fueled k r : dres_fueled r -> dres_fueled (dshift k r).
Proof. destruct r; simpl; unfold dres_fueled; congruence. Qed.

Lemma parse_directive_end_fueled (expr_end : BlockCommentKind -> bytes -> dres) k l :
  (forall k' r, (length r <= length l)%nat -> dres_fueled (expr_end k' r)) ->
  dres_fueled (parse_directive_end expr_end k l).
Proof.
  intros Hrec. unfold parse_directive_end.
  destruct (cdk_has_expr _).
  - apply dshift_fueled, Hrec. rewrite skipn_len. blia.
  - apply dshift_fueled. destruct (find_block_comment_end _ _); unfold dres_fueled; simpl; discriminate.
Qed.

(* the fuel supplied by compiler_directive is never exhausted *)
Lemma find_directive_expr_end_fueled fuel : forall kind l,
  (length l < fuel)%nat -> dres_fueled (find_directive_expr_end fuel kind l).
Proof.
  induction fuel as [|f IH]; intros kind l Hl; [blia|].
  rewrite find_directive_expr_end_unfold. cbv zeta.
  destruct l as [|b t]; [unfold dres_fueled; discriminate|].
  assert (Hcont : forall m, (1 <= m)%nat ->
            dres_fueled (dshift m (find_directive_expr_end f kind (skipn m (b :: t))))).
  { intros m Hm. apply dshift_fueled, IH. rewrite skipn_len. simpl length in *. blia. }
  assert (Hthen : forall pre r, (1 <= pre)%nat -> dres_fueled r ->
            dres_fueled
              match r with
              | DEnd m => dshift (pre + m)
                            (find_directive_expr_end f kind (skipn (pre + m) (b :: t)))
              | other => other
              end).
  { intros pre r Hpre Hr. destruct r as [m| |]; [apply Hcont; blia|exact Hr|exact Hr]. }
  assert (Hparse : forall k' m, (1 <= m)%nat ->
            dres_fueled (parse_directive_end (find_directive_expr_end f) k' (skipn m (b :: t)))).
  { intros k' m Hm. apply parse_directive_end_fueled. intros k'' r Hr. apply IH.
    rewrite skipn_len in Hr. simpl length in *. blia. }
  destruct (is_paren_star kind && is_prefix [42; 41] (b :: t)); [unfold dres_fueled; discriminate|].
  destruct (negb (is_paren_star kind) && (b =? 125)); [unfold dres_fueled; discriminate|].
  destruct (is_prefix [40; 42; 36] (b :: t)); [apply Hthen; [blia|apply Hparse; blia]|].
  destruct (is_prefix [123; 36] (b :: t)); [apply Hthen; [blia|apply Hparse; blia]|].
  destruct (is_prefix [40; 42] (b :: t)); [apply Hcont; blia|].
  destruct (b =? 123); [apply Hcont; blia|].
  destruct (b =? 39); [apply Hcont; blia|].
  destruct (is_prefix [47; 47] (b :: t)); [apply Hcont; blia|].
  apply Hcont. blia.
Qed.

(* ------------------------------------------------------------------ *)
(* token-level results *)

Definition tres_ok (len : nat) (r : tres) : Prop :=
  match r with TOk n ty => (n <= len)%nat /\ ty <> RTT_Eof | TFuel => False end.

Lemma tshift_ok k len r : tres_ok len r -> tres_ok (k + len) (tshift k r).
Proof. destruct r as [n ty|]; simpl; [intros [H1 H2]; split; [blia|exact H2]|tauto]. Qed.

Lemma tok_ok len r : (fst r <= len)%nat -> snd r <> RTT_Eof -> tres_ok len (tok r).
Proof. intros H1 H2. unfold tok. simpl. split; assumption. Qed.

Lemma op_ok len n k : (n <= len)%nat -> tres_ok len (op n k).
Proof. intros H. unfold op. simpl. split; [exact H|discriminate]. Qed.

Lemma directive_token_type_not_eof c : directive_token_type c <> RTT_Eof.
Proof. destruct c; simpl; discriminate. Qed.

Lemma compiler_directive_ok k l : tres_ok (length l) (compiler_directive k l).
Proof.
  unfold compiler_directive.
  assert (Hok : dres_ok (length l)
            (parse_directive_end (find_directive_expr_end (S (length l))) k l)).
  { apply parse_directive_end_ok. intros k' r _. apply find_directive_expr_end_ok. }
  assert (Hf : dres_fueled (parse_directive_end (find_directive_expr_end (S (length l))) k l)).
  { apply parse_directive_end_fueled. intros k' r Hr. apply find_directive_expr_end_fueled. blia. }
  destruct (parse_directive_end (find_directive_expr_end (S (length l))) k l) as [e| |].
  - simpl. split; [exact Hok|apply directive_token_type_not_eof].
  - simpl. split; [apply trimmed_len_le|apply directive_token_type_not_eof].
  - exfalso. apply Hf. reflexivity.
Qed.

Lemma compiler_directive_or_comment_ok k nlb l :
  tres_ok (length l) (compiler_directive_or_comment k nlb l).
Proof.
  unfold compiler_directive_or_comment. destruct (next_is 36 l) eqn:E.
  - rewrite (next_is_length _ _ E). apply (tshift_ok 1). apply compiler_directive_ok.
  - apply tok_ok; [apply block_comment_le|apply block_comment_ty].
Qed.

Lemma ampersand_ok t : (fst (ampersand t) <= length t)%nat /\ snd (ampersand t) <> RTT_Eof.
Proof.
  unfold ampersand.
  pose proof (count_while_le (fun b => b =? 38) t) as Hk.
  set (k := count_while (fun b => b =? 38) t) in *.
  pose proof (skipn_len k t) as L.
  destruct (skipn k t) as [|c r]; [simpl; split; [blia|discriminate]|].
  simpl length in L.
  destruct (c =? 36).
  { pose proof (count_while_le is_hex r). unfold count_hex. simpl. split; [blia|discriminate]. }
  destruct (c =? 37).
  { pose proof (count_while_le is_bin r). unfold count_binary. simpl. split; [blia|discriminate]. }
  destruct (is_digit c).
  { pose proof (dec_number_literal_le r). simpl. split; [blia|discriminate]. }
  destruct (is_alpha c || (c =? 95)).
  { pose proof (find_identifier_end_le r). simpl. split; [blia|discriminate]. }
  destruct (128 <=? c).
  { pose proof (unicode_identifier_le r). simpl. split; [blia|discriminate]. }
  simpl. split; [blia|discriminate].
Qed.

(* keyword lookup never yields Eof *)
Lemma keyword_lookup_in tbl w :
  keyword_lookup tbl w = RTT_Identifier \/ exists k, In (k, keyword_lookup tbl w) tbl.
Proof.
  induction tbl as [|[k ty] rest IH]; simpl; [left; reflexivity|].
  destruct (eq_ignore_case w k).
  - right. exists k. left. reflexivity.
  - destruct IH as [IH|[k' IH]]; [left; exact IH|right; exists k'; right; exact IH].
Qed.

Definition not_eof_b (ty : RawTokenType) : bool := match ty with RTT_Eof => false | _ => true end.

Lemma KEYWORDS_table_not_eof : forallb (fun p => not_eof_b (snd p)) KEYWORDS_table = true.
Proof. vm_compute. reflexivity. Qed.

Lemma get_word_token_type_not_eof w : get_word_token_type w <> RTT_Eof.
Proof.
  unfold get_word_token_type.
  destruct (keyword_lookup_in KEYWORDS_table w) as [H|[k H]]; [rewrite H; discriminate|].
  pose proof KEYWORDS_table_not_eof as HT. rewrite forallb_forall in HT.
  specialize (HT _ H). cbv beta in HT.
  change (snd (k, keyword_lookup KEYWORDS_table w)) with (keyword_lookup KEYWORDS_table w) in HT.
  intros E. rewrite E in HT. discriminate.
Qed.

Lemma identifier_or_keyword_ok st b t :
  (fst (identifier_or_keyword st b t) <= length t)%nat /\
  snd (identifier_or_keyword st b t) <> RTT_Eof.
Proof.
  unfold identifier_or_keyword. simpl. split; [apply find_identifier_end_le|].
  destruct (prev_is_dot st); [discriminate|apply get_word_token_type_not_eof].
Qed.

Lemma lex_common_ok st nlb b t : tres_ok (length t) (lex_common st nlb b t).
Proof.
  unfold lex_common.
  destruct (b =? 40).
  { destruct (next_is 42 t) eqn:E.
    - rewrite (next_is_length _ _ E). apply (tshift_ok 1), compiler_directive_or_comment_ok.
    - destruct (next_is 46 t) eqn:E'; apply op_ok; [rewrite (next_is_length _ _ E')|]; blia. }
  destruct (b =? 123); [apply compiler_directive_or_comment_ok|].
  destruct (b =? 47).
  { destruct (next_is 47 t) eqn:E; [|apply op_ok; blia].
    rewrite (next_is_length _ _ E). apply (tshift_ok 1). apply tok_ok; simpl.
    - apply line_comment_len_le.
    - discriminate. }
  destruct (b =? 58).
  { destruct (next_is 61 t) eqn:E; apply op_ok; [rewrite (next_is_length _ _ E)|]; blia. }
  destruct (b =? 60).
  { destruct (next_is 61 t) eqn:E; [apply op_ok; rewrite (next_is_length _ _ E); blia|].
    destruct (next_is 62 t) eqn:E'; apply op_ok; [rewrite (next_is_length _ _ E')|]; blia. }
  destruct (b =? 62).
  { destruct (next_is 61 t) eqn:E; apply op_ok; [rewrite (next_is_length _ _ E)|]; blia. }
  destruct (b =? 46).
  { destruct (next_is 46 t) eqn:E; [apply op_ok; rewrite (next_is_length _ _ E); blia|].
    destruct (next_is 41 t) eqn:E'; apply op_ok; [rewrite (next_is_length _ _ E')|]; blia. }
  do 11 (match goal with |- context [if ?c then _ else _] => destruct c; [apply op_ok; blia|] end).
  destruct ((b =? 39) || (b =? 35)).
  { apply tok_ok; [apply text_literal_le|].
    unfold text_literal. destruct (_ && _ && _); [destruct (find_sub _ _)|]; simpl; discriminate. }
  destruct (b =? 38); [apply tok_ok; apply ampersand_ok|].
  destruct (b =? 37); [simpl; split; [apply count_while_le|discriminate]|].
  destruct (b =? 36); [simpl; split; [apply count_while_le|discriminate]|].
  destruct (is_digit b); [simpl; split; [apply dec_number_literal_le|discriminate]|].
  destruct (is_alpha b); [apply tok_ok; apply identifier_or_keyword_ok|].
  destruct (b =? 95); [simpl; split; [apply find_identifier_end_le|discriminate]|].
  destruct (128 <=? b); [simpl; split; [apply unicode_identifier_le|discriminate]|].
  simpl. split; [blia|discriminate].
Qed.

(* lex_token: never out of fuel, stays inside the input, never yields Eof *)
Lemma lex_token_ok st nlb b t :
  exists n ty a, lex_token st nlb b t = Some (n, ty, a) /\ (n <= length t)%nat /\ ty <> RTT_Eof.
Proof.
  unfold lex_token.
  pose proof (lex_common_ok st nlb b t) as Hc.
  destruct (ls_asm st).
  - destruct (b =? 64).
    { eexists _, _, _. split; [reflexivity|]. split; [apply count_while_le|discriminate]. }
    destruct (b =? 34).
    { eexists _, _, _. split; [reflexivity|]. apply asm_text_literal_ok. }
    destruct (is_digit b).
    { eexists _, _, _. split; [reflexivity|]. split; [apply asm_number_literal_le|].
      unfold asm_number_literal.
      repeat match goal with |- context [if ?c then _ else _] => destruct c end; simpl; discriminate. }
    destruct (is_aAeE b).
    { unfold asm_identifier.
      repeat match goal with |- context [if ?c then _ else _] => destruct c end;
        (eexists _, _, _; split; [reflexivity|]; split; [apply find_identifier_end_le|discriminate]). }
    destruct (is_alpha b).
    { eexists _, _, _. split; [reflexivity|]. split; [apply find_identifier_end_le|discriminate]. }
    destruct (lex_common st nlb b t) as [n ty|]; [|contradiction].
    eexists _, _, _. split; [reflexivity|exact Hc].
  - destruct (lex_common st nlb b t) as [n ty|]; [|contradiction].
    eexists _, _, _. split; [reflexivity|exact Hc].
Qed.

(* ------------------------------------------------------------------ *)
(* the token stream *)

Definition tok3 := (nat * nat * RawTokenType)%type.

(* [lexed toks s]: s is cut, left to right, into blank run / token content pairs with exactly the
   recorded lengths; every content starts at a non-blank position; the stream ends with its only
   Eof, which has empty content and takes the trailing blanks. *)
Inductive lexed : list tok3 -> bytes -> Prop :=
| lexed_eof ws : all_blank ws -> lexed [(length ws, O, RTT_Eof)] ws
| lexed_tok ws b c rest ty toks :
    all_blank ws ->
    (b <=? 32) = false ->
    is_u3000_at (b :: c ++ rest) = false ->
    ty <> RTT_Eof ->
    lexed toks rest ->
    lexed ((length ws, S (length c), ty) :: toks) (ws ++ (b :: c) ++ rest).

Lemma lexed_tok' w n ws b c rest ty toks l :
  w = length ws -> n = length c -> l = ws ++ (b :: c) ++ rest ->
  all_blank ws -> (b <=? 32) = false -> is_u3000_at (b :: c ++ rest) = false ->
  ty <> RTT_Eof -> lexed toks rest ->
  lexed ((w, S n, ty) :: toks) l.
Proof. intros -> -> ->. apply lexed_tok. Qed.

Lemma lexed_eof' w l : w = length l -> all_blank l -> lexed [(w, O, RTT_Eof)] l.
Proof. intros ->. apply lexed_eof. Qed.

Lemma lex_loop_unfold f st l :
  lex_loop (S f) st l =
  let w := count_ws l in
  match skipn w l with
  | [] => Some [(w, O, RTT_Eof)]
  | b :: t =>
      let nlb := contains_byte 10 (firstn w l) || ls_first st in
      match lex_token st nlb b t with
      | None => None
      | Some (n, ty, asm') =>
          let st' := mkLS false asm'
                       (if RawTokenType_is_comment_or_directive ty then ls_prev st else Some ty) in
          match lex_loop f st' (skipn n t) with
          | Some ts => Some ((w, S n, ty) :: ts)
          | None => None
          end
      end
  end.
Proof. reflexivity. Qed.

(* totality of the main loop, FROM the progress bound of lex_token *)
Lemma lex_loop_total f : forall st l, (length l < f)%nat -> exists toks, lex_loop f st l = Some toks.
Proof.
  induction f as [|f IH]; intros st l Hl; [blia|].
  rewrite lex_loop_unfold. cbv zeta.
  pose proof (skipn_len (count_ws l) l) as L.
  destruct (skipn (count_ws l) l) as [|b t]; [eexists; reflexivity|].
  destruct (lex_token_ok st (contains_byte 10 (firstn (count_ws l) l) || ls_first st) b t)
    as (n & ty & a & E & Hn & _).
  rewrite E.
  match goal with |- context [lex_loop f ?st' ?l'] => destruct (IH st' l') as [ts Hts] end.
  { rewrite skipn_len. simpl length in L. blia. }
  rewrite Hts. eexists; reflexivity.
Qed.

Lemma lex_loop_lexed f : forall st l toks, lex_loop f st l = Some toks -> lexed toks l.
Proof.
  induction f as [|f IH]; intros st l toks H; [discriminate|].
  rewrite lex_loop_unfold in H. cbv zeta in H.
  pose proof (count_ws_le l) as Hw.
  pose proof (count_ws_strip l) as Hs.
  pose proof (count_ws_skipn l) as Hz.
  pose proof (firstn_skipn (count_ws l) l) as Hsplit.
  assert (Lw : length (firstn (count_ws l) l) = count_ws l) by (apply firstn_length_le; exact Hw).
  destruct (skipn (count_ws l) l) as [|b t].
  - injection H as <-. rewrite app_nil_r in Hsplit.
    apply lexed_eof'; [rewrite <- Hsplit at 2; symmetry; exact Lw|].
    unfold all_blank. rewrite <- Hsplit. exact Hs.
  - destruct (lex_token_ok st (contains_byte 10 (firstn (count_ws l) l) || ls_first st) b t)
      as (n & ty & a & E & Hn & Hty).
    rewrite E in H.
    match type of H with context [lex_loop f ?st' ?l'] =>
      destruct (lex_loop f st' l') as [ts|] eqn:Hts; [|discriminate] end.
    injection H as <-. apply IH in Hts.
    apply count_ws_zero_inv in Hz. destruct Hz as [Hb Hu].
    assert (Ln : length (firstn n t) = n) by (apply firstn_length_le; exact Hn).
    apply (lexed_tok' _ _ (firstn (count_ws l) l) b (firstn n t) (skipn n t));
      try assumption; try (symmetry; assumption).
    + rewrite <- Hsplit at 1. simpl. rewrite firstn_skipn. reflexivity.
    + rewrite firstn_skipn. exact Hu.
Qed.

(* ------------------------------------------------------------------ *)
(* the segments of the input described by a token list *)

Definition seg := (bytes * bytes * RawTokenType)%type.


Definition total_len (toks : list tok3) : nat :=
  fold_right (fun (p : tok3) acc => match p with (w, n, _) => (w + n + acc)%nat end) O toks.

(* per-segment shape *)
Definition seg_ok (p : seg) : Prop :=
  match p with
  | (ws, c, ty) =>
      strip ws = [] /\
      (ty = RTT_Eof -> c = []) /\
      (ty <> RTT_Eof -> exists b c', c = b :: c' /\ 32 < b /\ is_u3000_at c = false)
  end.

Lemma firstn_app_exact {A} (x y : list A) : firstn (length x) (x ++ y) = x.
Proof. rewrite firstn_app, Nat.sub_diag, firstn_all. simpl. apply app_nil_r. Qed.

Lemma skipn_app_exact {A} (x y : list A) : skipn (length x) (x ++ y) = y.
Proof. rewrite skipn_app, Nat.sub_diag, skipn_all. reflexivity. Qed.

Lemma is_prefix_app_false p x y : is_prefix p (x ++ y) = false -> is_prefix p x = false.
Proof.
  intros H. destruct (is_prefix p x) eqn:E; [|reflexivity].
  apply is_prefix_spec in E. destruct E as [r ->].
  assert (is_prefix p ((p ++ r) ++ y) = true) as H'.
  { apply is_prefix_spec. exists (r ++ y). rewrite app_assoc. reflexivity. }
  rewrite H' in H. discriminate.
Qed.

Lemma segments_tok ws b c rest ty toks :
  segments ((length ws, S (length c), ty) :: toks) (ws ++ (b :: c) ++ rest) =
  (ws, b :: c, ty) :: segments toks rest.
Proof.
  cbn [segments]. rewrite firstn_app_exact, skipn_app_exact.
  change (S (length c)) with (length (b :: c)).
  rewrite firstn_app_exact.
  replace (length ws + length (b :: c))%nat with (length (ws ++ b :: c)) by apply app_length.
  rewrite app_assoc, skipn_app_exact. reflexivity.
Qed.

Lemma segments_eof ws : segments [(length ws, O, RTT_Eof)] ws = [(ws, [], RTT_Eof)].
Proof. cbn [segments]. rewrite firstn_all. reflexivity. Qed.

Lemma lexed_segments toks s : lexed toks s ->
  map seg_lens (segments toks s) = toks /\
  concat (map seg_bytes (segments toks s)) = s /\
  Forall seg_ok (segments toks s) /\
  total_len toks = length s.
Proof.
  induction 1 as [ws Hws|ws b c rest ty toks Hws Hb Hu Hty Hl IH].
  - rewrite segments_eof. simpl. rewrite !app_nil_r. repeat split.
    + constructor; [|constructor]. simpl. split; [exact Hws|]. split; [reflexivity|congruence].
    + blia.
  - destruct IH as (IH1 & IH2 & IH3 & IH4).
    rewrite segments_tok. cbn [map seg_lens seg_bytes concat total_len fold_right].
    rewrite IH1, IH2. repeat split.
    + rewrite <- app_assoc. reflexivity.
    + constructor; [|exact IH3]. simpl. split; [exact Hws|]. split; [congruence|].
      intros _. exists b, c. split; [reflexivity|]. split.
      * apply N.leb_gt in Hb. exact Hb.
      * change (b :: c ++ rest) with ((b :: c) ++ rest) in Hu.
        unfold is_u3000_at in *. eapply is_prefix_app_false. exact Hu.
    + fold (total_len toks). rewrite IH4, !app_length. simpl. blia.
Qed.

Lemma lexed_eof_last toks s : lexed toks s ->
  exists pre w, toks = pre ++ [(w, O, RTT_Eof)] /\
                Forall (fun p : tok3 => snd p <> RTT_Eof /\ (0 < snd (fst p))%nat) pre.
Proof.
  induction 1 as [ws Hws|ws b c rest ty toks Hws Hb Hu Hty Hl IH].
  - exists [], (length ws). split; [reflexivity|constructor].
  - destruct IH as (pre & w & -> & Hpre).
    exists ((length ws, S (length c), ty) :: pre), w. split; [reflexivity|].
    constructor; [|exact Hpre]. simpl. split; [exact Hty|blia].
Qed.

(* ------------------------------------------------------------------ *)
(* main theorems *)

(* the fuel supplied by lex never runs out *)
Theorem lex_total : forall s, exists toks, lex s = Some toks.
Proof. intros s. unfold lex. apply lex_loop_total. blia. Qed.

Theorem lex_lexed : forall s toks, lex s = Some toks -> lexed toks s.
Proof. intros s toks H. eapply lex_loop_lexed. exact H. Qed.

(* The recorded lengths cut the input exactly: taking the segments with firstn/skipn really yields
   pieces of the recorded lengths (so every w + n fits in what remains), and gluing them back gives
   the input.  Neither conjunct holds for an arbitrary list of lengths. *)
Theorem lex_lossless : forall s toks, lex s = Some toks ->
  map seg_lens (segments toks s) = toks /\
  concat (map seg_bytes (segments toks s)) = s /\
  total_len toks = length s.
Proof.
  intros s toks H. apply lex_lexed, lexed_segments in H. tauto.
Qed.

(* stepwise bounds, stated directly on the lengths *)
Fixpoint fits (toks : list tok3) (remaining : nat) : Prop :=
  match toks with
  | [] => remaining = O
  | (w, n, _) :: r => (w + n <= remaining)%nat /\ fits r (remaining - (w + n))
  end.

Lemma lexed_fits toks s : lexed toks s -> fits toks (length s).
Proof.
  induction 1 as [ws Hws|ws b c rest ty toks Hws Hb Hu Hty Hl IH]; cbn [fits].
  - split; blia.
  - assert (L : length (ws ++ (b :: c) ++ rest) = (length ws + S (length c) + length rest)%nat).
    { rewrite !app_length. simpl length. blia. }
    rewrite L. split; [blia|].
    replace (length ws + S (length c) + length rest - (length ws + S (length c)))%nat
      with (length rest) by blia.
    exact IH.
Qed.

Theorem lex_fits : forall s toks, lex s = Some toks -> fits toks (length s).
Proof. intros s toks H. apply lexed_fits, lex_lexed, H. Qed.

(* exactly one Eof, at the end, with empty content *)
Theorem lex_eof_last_unique : forall s toks, lex s = Some toks ->
  exists pre w, toks = pre ++ [(w, O, RTT_Eof)] /\ Forall (fun p : tok3 => snd p <> RTT_Eof) pre.
Proof.
  intros s toks H. apply lex_lexed, lexed_eof_last in H.
  destruct H as (pre & w & -> & Hpre). exists pre, w. split; [reflexivity|].
  eapply Forall_impl; [|exact Hpre]. intros p [Hp _]. exact Hp.
Qed.

(* every non-Eof token is non-empty and its content starts at a non-blank position *)
Theorem lex_content_nonempty : forall s toks ws c ty, lex s = Some toks ->
  In (ws, c, ty) (segments toks s) -> ty <> RTT_Eof ->
  (0 < length c)%nat /\ exists b c', c = b :: c' /\ 32 < b /\ is_prefix [227; 128; 128] c = false.
Proof.
  intros s toks ws c ty H Hin Hty.
  apply lex_lexed, lexed_segments in H. destruct H as (_ & _ & Hok & _).
  rewrite Forall_forall in Hok. specialize (Hok _ Hin). simpl in Hok.
  destruct Hok as (_ & _ & Hc). destruct (Hc Hty) as (b & c' & -> & Hb & Hu).
  split; [simpl; blia|]. exists b, c'. split; [reflexivity|]. split; assumption.
Qed.

Theorem lex_content_len_pos : forall s toks w n ty, lex s = Some toks ->
  In (w, n, ty) toks -> ty <> RTT_Eof -> (0 < n)%nat.
Proof.
  intros s toks w n ty H Hin Hty.
  apply lex_lexed, lexed_eof_last in H. destruct H as (pre & w0 & -> & Hpre).
  apply in_app_or in Hin. destruct Hin as [Hin|[Hin|[]]].
  - rewrite Forall_forall in Hpre. apply Hpre in Hin. simpl in Hin. tauto.
  - injection Hin as _ _ <-. congruence.
Qed.

(* every leading-whitespace segment is blank *)
Theorem lex_ws_blank : forall s toks ws c ty, lex s = Some toks ->
  In (ws, c, ty) (segments toks s) -> strip ws = [].
Proof.
  intros s toks ws c ty H Hin.
  apply lex_lexed, lexed_segments in H. destruct H as (_ & _ & Hok & _).
  rewrite Forall_forall in Hok. specialize (Hok _ Hin). simpl in Hok. tauto.
Qed.

(* the Eof token has empty content *)
Theorem lex_eof_empty : forall s toks ws c, lex s = Some toks ->
  In (ws, c, RTT_Eof) (segments toks s) -> c = [].
Proof.
  intros s toks ws c H Hin.
  apply lex_lexed, lexed_segments in H. destruct H as (_ & _ & Hok & _).
  rewrite Forall_forall in Hok. specialize (Hok _ Hin). simpl in Hok.
  destruct Hok as (_ & Hc & _). apply Hc. reflexivity.
Qed.

(* non-vacuity: "x :=(**)1" followed by U+3000 *)
Example lex_example :
  lex [120; 32; 58; 61; 40; 42; 42; 41; 49; 227; 128; 128] =
  Some [(0, 1, RTT_Identifier); (1, 2, RTT_Op OK_Assign); (0, 4, RTT_Comment CoK_InlineBlock);
        (0, 1, RTT_NumberLiteral NK_Decimal); (3, 0, RTT_Eof)]%nat.
Proof. vm_compute. reflexivity. Qed.

Example segments_example :
  segments [(0, 1, RTT_Identifier); (1, 2, RTT_Op OK_Assign); (3, 0, RTT_Eof)]%nat
           [120; 32; 58; 61; 227; 128; 128] =
  [([], [120], RTT_Identifier); ([32], [58; 61], RTT_Op OK_Assign); ([227; 128; 128], [], RTT_Eof)].
Proof. reflexivity. Qed.

(* ------------------------------------------------------------------ *)
(* find_identifier_end_avx2 = find_identifier_end_generic *)

Lemma to_i8_ascii x : x < 128 -> to_i8 x = Z.of_N x.
Proof. intros H. unfold to_i8. apply N.ltb_lt in H. rewrite H. reflexivity. Qed.

Lemma range_mask_ascii x lo hi : x < 128 -> lo < 128 -> hi < 128 ->
  range_mask x lo hi = (lo <=? x) && (x <=? hi).
Proof.
  intros Hx Hlo Hhi. unfold range_mask. rewrite !to_i8_ascii by assumption.
  destruct (Z.ltb_spec (Z.of_N x) (Z.of_N hi + 1)), (Z.ltb_spec (Z.of_N lo - 1) (Z.of_N x)),
    (N.leb_spec lo x), (N.leb_spec x hi); try reflexivity; lia.
Qed.

Lemma ident_mask_bit_ascii x : x < 128 -> ident_mask_bit x = is_ident_ascii x.
Proof.
  intros Hx. unfold ident_mask_bit, is_ident_ascii, is_alnum, is_alpha, is_upper, is_lower, is_digit.
  rewrite !range_mask_ascii by (assumption || reflexivity).
  destruct (x =? 95), ((65 <=? x) && (x <=? 90)), ((97 <=? x) && (x <=? 122)),
    ((48 <=? x) && (x <=? 57)); reflexivity.
Qed.

Lemma any_non_ascii_false_cons b c :
  any_non_ascii (b :: c) = false -> b < 128 /\ any_non_ascii c = false.
Proof.
  unfold any_non_ascii. simpl. intros H. apply orb_false_iff in H. destruct H as [H1 H2].
  split; [apply N.leb_gt in H1; exact H1|exact H2].
Qed.

Lemma mask_count chunk : any_non_ascii chunk = false ->
  trailing_ones (map ident_mask_bit chunk) = count_while is_ident_ascii chunk.
Proof.
  unfold trailing_ones. induction chunk as [|b c IH]; intros H; [reflexivity|].
  apply any_non_ascii_false_cons in H. destruct H as [Hb Hc].
  simpl. rewrite (ident_mask_bit_ascii b Hb). destruct (is_ident_ascii b); [|reflexivity].
  rewrite (IH Hc). reflexivity.
Qed.

Lemma mask_all chunk : any_non_ascii chunk = false ->
  forallb (fun x : bool => x) (map ident_mask_bit chunk) = forallb is_ident_ascii chunk.
Proof.
  induction chunk as [|b c IH]; intros H; [reflexivity|].
  apply any_non_ascii_false_cons in H. destruct H as [Hb Hc].
  simpl. rewrite (ident_mask_bit_ascii b Hb), (IH Hc). reflexivity.
Qed.

Lemma forallb_false_count {A} (p : A -> bool) l :
  forallb p l = false -> (count_while p l < length l)%nat.
Proof.
  induction l as [|b t IH]; simpl; [discriminate|].
  destruct (p b); simpl; [intros H; apply IH in H; lia|lia].
Qed.

Lemma generic_app_all c r : forallb is_ident_ascii c = true ->
  ident_end_generic (c ++ r) = (length c + ident_end_generic r)%nat.
Proof.
  induction c as [|b c IH]; intros H; [reflexivity|].
  simpl in H. apply andb_true_iff in H. destruct H as [Hb Hc].
  rewrite <- app_comm_cons, ident_end_generic_unfold, Hb, (IH Hc). reflexivity.
Qed.

Lemma generic_app_stop c r : any_non_ascii c = false ->
  (count_while is_ident_ascii c < length c)%nat ->
  ident_end_generic (c ++ r) = count_while is_ident_ascii c.
Proof.
  induction c as [|b c IH]; intros Ha Hk; [simpl in Hk; lia|].
  apply any_non_ascii_false_cons in Ha. destruct Ha as [Hb Hc].
  rewrite <- app_comm_cons, ident_end_generic_unfold. simpl in Hk |- *.
  destruct (is_ident_ascii b).
  - rewrite IH; [reflexivity|exact Hc|simpl in Hk; lia].
  - apply N.leb_gt in Hb. rewrite Hb. reflexivity.
Qed.

Lemma avx2_loop_eq_generic fuel : forall l, avx2_loop fuel l = ident_end_generic l.
Proof.
  induction fuel as [|f IH]; intros l; [reflexivity|].
  cbn [avx2_loop].
  destruct (Nat.leb 32 (length l)) eqn:E32; [|reflexivity].
  apply Nat.leb_le in E32.
  pose proof (firstn_skipn 32 l) as Hsplit.
  pose proof (firstn_length_le l E32) as Lc.
  set (chunk := firstn 32 l) in *. set (rest := skipn 32 l) in *.
  clearbody chunk rest. clear E32. subst l.
  destruct (any_non_ascii chunk) eqn:Ea; [reflexivity|].
  rewrite (mask_all chunk Ea), (mask_count chunk Ea).
  destruct (forallb is_ident_ascii chunk) eqn:Eall; cbn [negb].
  - rewrite IH, <- Lc. symmetry. apply generic_app_all. exact Eall.
  - symmetry. apply generic_app_stop; [exact Ea|].
    apply forallb_false_count. exact Eall.
Qed.

Theorem ident_end_avx2_eq_generic : forall l, ident_end_avx2 l = ident_end_generic l.
Proof. intros l. apply avx2_loop_eq_generic. Qed.

(* a 40-byte identifier run followed by a dot, and one with a non-ASCII byte in the first chunk *)
Example ident_end_avx2_example :
  ident_end_avx2 (repeat 97 40 ++ [46; 97]) = 40%nat /\
  ident_end_avx2 (repeat 97 20 ++ [195; 169] ++ repeat 98 30 ++ [32]) = 52%nat.
Proof. vm_compute. split; reflexivity. Qed.

(* ------------------------------------------------------------------ *)
(* keyword lookup ignores ASCII case *)

Lemma keyword_lookup_lower tbl w : keyword_lookup tbl (lower w) = keyword_lookup tbl w.
Proof.
  induction tbl as [|[k ty] r IH]; [reflexivity|].
  cbn [keyword_lookup]. unfold eq_ignore_case. rewrite lower_idem, IH. reflexivity.
Qed.

Theorem get_word_token_type_lower : forall w, get_word_token_type (lower w) = get_word_token_type w.
Proof. intros w. apply keyword_lookup_lower. Qed.

Theorem get_word_token_type_upper : forall w, get_word_token_type (upper w) = get_word_token_type w.
Proof.
  intros w. rewrite <- (get_word_token_type_lower (upper w)), <- (get_word_token_type_lower w).
  f_equal. apply fold_case_upper.
Qed.

Example get_word_token_type_example :
  get_word_token_type [66; 101; 71; 105; 78] = RTT_Keyword KK_Begin /\
  get_word_token_type [98; 101; 103; 105; 110; 115] = RTT_Identifier.
Proof. vm_compute. split; reflexivity. Qed.

(* ------------------------------------------------------------------ *)
(* the perfect-hash lookup of the Rust equals the linear search used by the model *)

Definition kw_match (w : bytes) (p : bytes * RawTokenType) : bool := eq_ignore_case w (fst p).

Lemma keyword_lookup_find tbl w :
  keyword_lookup tbl w =
  match find (kw_match w) tbl with Some p => snd p | None => RTT_Identifier end.
Proof.
  induction tbl as [|[k ty] r IH]; [reflexivity|].
  cbn [keyword_lookup find]. unfold kw_match at 1. cbn [fst].
  destruct (eq_ignore_case w k); [reflexivity|exact IH].
Qed.

Definition the_keyword_table : list (option (bytes * RawTokenType)) :=
  match KEYWORD_LOOKUP_TABLE with Some t => t | None => [] end.

(* the table construction does not fail: no collisions, all hashes < 244 *)
Lemma KEYWORD_LOOKUP_TABLE_some : KEYWORD_LOOKUP_TABLE = Some the_keyword_table.
Proof.
  unfold the_keyword_table. destruct KEYWORD_LOOKUP_TABLE eqn:E; [reflexivity|].
  vm_compute in E. discriminate.
Qed.

Definition kw_eqb (p q : bytes * RawTokenType) : bool :=
  bytes_eqb (fst p) (fst q) && RawTokenType_eqb (snd p) (snd q).

Lemma kw_eqb_eq p q : kw_eqb p q = true -> p = q.
Proof.
  destruct p as [a x], q as [b y]. unfold kw_eqb. cbn [fst snd]. intros H.
  apply andb_true_iff in H. destruct H as [H1 H2].
  apply bytes_eqb_eq in H1. apply RawTokenType_eqb_eq in H2. subst. reflexivity.
Qed.

Definition kw_slot_ok (p : bytes * RawTokenType) : bool :=
  match nth_error the_keyword_table (N.to_nat (hash_keyword (fst p))) with
  | Some (Some q) => kw_eqb q p
  | _ => false
  end
  && Nat.leb (length (fst p)) MAX_WORD_LENGTH
  && bytes_eqb (lower (fst p)) (fst p).

Lemma keywords_slots : forallb kw_slot_ok KEYWORDS_table = true.
Proof. vm_compute. reflexivity. Qed.

Lemma table_entries :
  forallb (fun e : option (bytes * RawTokenType) =>
             match e with None => true | Some q => existsb (kw_eqb q) KEYWORDS_table end)
          the_keyword_table = true.
Proof. vm_compute. reflexivity. Qed.

Lemma asso_upper b : 65 <= b -> b <= 90 -> asso (b + 32) = asso b.
Proof.
  intros H1 H2.
  assert (E : exists k, (k < 26)%nat /\ b = 65 + N.of_nat k).
  { exists (N.to_nat (b - 65)). lia. }
  destruct E as (k & Hk & ->).
  do 26 (destruct k as [|k]; [vm_compute; reflexivity|]). lia.
Qed.

Lemma asso_lower b : asso (to_lower b) = asso b.
Proof.
  unfold to_lower, is_upper. destruct ((65 <=? b) && (b <=? 90)) eqn:E; [|reflexivity].
  apply andb_true_iff in E. destruct E as [E1 E2]. apply N.leb_le in E1, E2.
  apply asso_upper; assumption.
Qed.

Lemma nth_lower i w : nth i (lower w) 0 = to_lower (nth i w 0).
Proof. unfold lower. rewrite <- (map_nth to_lower). reflexivity. Qed.

Lemma last_lower w : last (lower w) 0 = to_lower (last w 0).
Proof.
  induction w as [|a t IH]; [reflexivity|].
  destruct t as [|b t']; [reflexivity|].
  change (lower (a :: b :: t')) with (to_lower a :: lower (b :: t')).
  change (last (a :: b :: t') 0) with (last (b :: t') 0).
  rewrite <- IH. reflexivity.
Qed.

Lemma hash_keyword_lower w : hash_keyword (lower w) = hash_keyword w.
Proof.
  unfold hash_keyword. cbv zeta.
  replace (length (lower w)) with (length w) by (symmetry; apply map_length).
  rewrite !nth_lower, last_lower, !asso_lower. reflexivity.
Qed.

Theorem get_word_token_type_hash_eq : forall w,
  get_word_token_type_hash w = Some (get_word_token_type w).
Proof.
  intros w. unfold get_word_token_type_hash. rewrite KEYWORD_LOOKUP_TABLE_some. f_equal.
  unfold get_word_token_type. rewrite keyword_lookup_find.
  destruct (find (kw_match w) KEYWORDS_table) as [[k ty]|] eqn:Ef.
  - apply find_some in Ef. destruct Ef as [Hin Hm]. unfold kw_match in Hm. cbn [fst] in Hm.
    pose proof keywords_slots as HS. rewrite forallb_forall in HS. specialize (HS _ Hin).
    unfold kw_slot_ok in HS. cbn [fst] in HS.
    apply andb_true_iff in HS. destruct HS as [HS Hlow].
    apply andb_true_iff in HS. destruct HS as [Hslot Hlen].
    pose proof Hm as Hm'. unfold eq_ignore_case in Hm'. apply bytes_eqb_eq in Hm'.
    assert (Hh : hash_keyword w = hash_keyword k) by (rewrite <- Hm'; symmetry; apply hash_keyword_lower).
    assert (Hl : length w = length k) by (rewrite <- Hm'; symmetry; apply map_length).
    rewrite Hh, Hl, Hlen.
    destruct (nth_error the_keyword_table (N.to_nat (hash_keyword k))) as [[q|]|]; try discriminate.
    apply kw_eqb_eq in Hslot. subst q. rewrite Hm. reflexivity.
  - destruct (Nat.leb (length w) MAX_WORD_LENGTH); [|reflexivity].
    destruct (nth_error the_keyword_table (N.to_nat (hash_keyword w))) as [[[c ty]|]|] eqn:En;
      try reflexivity.
    destruct (eq_ignore_case w c) eqn:Ec; [|reflexivity]. exfalso.
    apply nth_error_In in En.
    pose proof table_entries as HT. rewrite forallb_forall in HT. specialize (HT _ En).
    cbv beta iota in HT. apply existsb_exists in HT. destruct HT as (p & Hp & Heq).
    apply kw_eqb_eq in Heq. subst p.
    apply (find_none _ _ Ef) in Hp. unfold kw_match in Hp. cbn [fst] in Hp. congruence.
Qed.

(* ------------------------------------------------------------------ *)
(* On valid UTF-8 every token boundary is a char boundary *)

(* str::is_char_boundary(i), for i <= len: the byte at i, if any, is not a continuation byte *)
Definition starts_cont (l : bytes) : bool := match l with x :: _ => is_cont x | [] => false end.

(* two local consequences of UTF-8 validity, both closed under taking suffixes:
   an ASCII byte, and the triple E3 80 80, are never followed by a continuation byte *)
Fixpoint asc_okb (l : bytes) : bool :=
  match l with
  | [] => true
  | a :: t => (if a <? 128 then negb (starts_cont t) else true) && asc_okb t
  end.

Fixpoint u3_okb (l : bytes) : bool :=
  match l with
  | [] => true
  | a :: t => (if is_u3000_at (a :: t) then negb (starts_cont (skipn 3 (a :: t))) else true) && u3_okb t
  end.

Ltac b2p H :=
  match type of H with
  | (_ || _) = true => apply orb_true_iff in H; destruct H as [H|H]; b2p H
  | (_ && _) = true =>
      let H2 := fresh H in apply andb_true_iff in H; destruct H as [H H2]; b2p H; b2p H2
  | (_ =? _) = true => apply N.eqb_eq in H
  | (_ <=? _) = true => apply N.leb_le in H
  | (_ <? _) = true => apply N.ltb_lt in H
  | (_ =? _) = false => apply N.eqb_neq in H
  | (_ <=? _) = false => apply N.leb_gt in H
  | (_ <? _) = false => apply N.ltb_ge in H
  | _ => idtac
  end.

Lemma is_cont_range x : is_cont x = true -> 128 <= x /\ x <= 191.
Proof. unfold is_cont. intros H. b2p H. lia. Qed.

Lemma not_cont_lo x : x < 128 -> is_cont x = false.
Proof. intros H. unfold is_cont. apply N.leb_gt in H. rewrite H. reflexivity. Qed.

Lemma not_cont_hi x : 192 <= x -> is_cont x = false.
Proof.
  intros H. unfold is_cont. assert (E : (x <=? 191) = false) by (apply N.leb_gt; lia).
  rewrite E, andb_false_r. reflexivity.
Qed.

Lemma valid_utf8_unfold a t :
  valid_utf8 (a :: t) =
  if a <? 128 then valid_utf8 t
  else match t with
       | b :: t1 =>
           if in_range 194 223 a then is_cont b && valid_utf8 t1
           else match t1 with
                | c :: t2 =>
                    if in_range 224 239 a then
                      (if a =? 224 then in_range 160 191 b
                       else if a =? 237 then in_range 128 159 b
                       else is_cont b) && is_cont c && valid_utf8 t2
                    else match t2 with
                         | d :: t3 =>
                             if in_range 240 244 a then
                               (if a =? 240 then in_range 144 191 b
                                else if a =? 244 then in_range 128 143 b
                                else is_cont b) && is_cont c && is_cont d && valid_utf8 t3
                             else false
                         | [] => false
                         end
                | [] => false
                end
       | [] => false
       end.
Proof. reflexivity. Qed.

(* weak inversion: the shape of the first character *)
Lemma valid_inv a t : valid_utf8 (a :: t) = true ->
  (a < 128 /\ valid_utf8 t = true) \/
  (exists b t1, t = b :: t1 /\ 194 <= a <= 223 /\ is_cont b = true /\ valid_utf8 t1 = true) \/
  (exists b c t2, t = b :: c :: t2 /\ 224 <= a <= 239 /\
                  is_cont b = true /\ is_cont c = true /\ valid_utf8 t2 = true) \/
  (exists b c d t3, t = b :: c :: d :: t3 /\ 240 <= a <= 244 /\
                    is_cont b = true /\ is_cont c = true /\ is_cont d = true /\
                    valid_utf8 t3 = true).
Proof.
  rewrite valid_utf8_unfold. intros H.
  destruct (a <? 128) eqn:E1; [left; b2p E1; split; assumption|].
  destruct t as [|b t1]; [discriminate|].
  destruct (in_range 194 223 a) eqn:E2.
  { right; left. unfold in_range in E2. b2p E2. b2p H. exists b, t1. repeat split; assumption. }
  destruct t1 as [|c t2]; [discriminate|].
  destruct (in_range 224 239 a) eqn:E3.
  { right; right; left. unfold in_range in E3. b2p E3. exists b, c, t2.
    apply andb_true_iff in H. destruct H as [H Hv].
    apply andb_true_iff in H. destruct H as [Hb Hc].
    repeat split; try assumption.
    unfold is_cont. destruct (a =? 224); [|destruct (a =? 237)]; unfold in_range in Hb;
      [| |exact Hb]; b2p Hb; apply andb_true_iff; split; apply N.leb_le; lia. }
  destruct t2 as [|d t3]; [discriminate|].
  destruct (in_range 240 244 a) eqn:E4; [|discriminate].
  right; right; right. unfold in_range in E4. b2p E4. exists b, c, d, t3.
  apply andb_true_iff in H. destruct H as [H Hv].
  apply andb_true_iff in H. destruct H as [H Hd].
  apply andb_true_iff in H. destruct H as [Hb Hc].
  repeat split; try assumption.
  unfold is_cont. destruct (a =? 240); [|destruct (a =? 244)]; unfold in_range in Hb;
    [| |exact Hb]; b2p Hb; apply andb_true_iff; split; apply N.leb_le; lia.
Qed.

Lemma valid_starts_cont l : valid_utf8 l = true -> starts_cont l = false.
Proof.
  destruct l as [|a t]; [reflexivity|]. intros H. simpl.
  apply valid_inv in H.
  destruct H as [[H _]|[(b & t1 & _ & H & _)|[(b & c & t2 & _ & H & _)|(b & c & d & t3 & _ & H & _)]]].
  - apply not_cont_lo. exact H.
  - apply not_cont_hi. lia.
  - apply not_cont_hi. lia.
  - apply not_cont_hi. lia.
Qed.

Lemma asc_okb_cons_hi a t : 128 <= a -> asc_okb (a :: t) = asc_okb t.
Proof. intros H. cbn [asc_okb]. apply N.ltb_ge in H. rewrite H. reflexivity. Qed.

Lemma asc_okb_cons_lo a t : a < 128 -> asc_okb (a :: t) = negb (starts_cont t) && asc_okb t.
Proof. intros H. cbn [asc_okb]. apply N.ltb_lt in H. rewrite H. reflexivity. Qed.

Lemma is_u3000_at_ne a t : a <> 227 -> is_u3000_at (a :: t) = false.
Proof.
  intros H. unfold is_u3000_at. cbn [is_prefix].
  assert (E : (227 =? a) = false) by (apply N.eqb_neq; lia). rewrite E. reflexivity.
Qed.

Lemma u3_okb_cons_ne a t : a <> 227 -> u3_okb (a :: t) = u3_okb t.
Proof. intros H. cbn [u3_okb]. rewrite (is_u3000_at_ne a t H). reflexivity. Qed.

Lemma valid_wf_strong n : forall l, (length l <= n)%nat -> valid_utf8 l = true ->
  asc_okb l = true /\ u3_okb l = true.
Proof.
  induction n as [|n IH]; intros l Hl Hv.
  - destruct l; [split; reflexivity|simpl in Hl; lia].
  - destruct l as [|a t]; [split; reflexivity|].
    apply valid_inv in Hv.
    destruct Hv as [[Ha Hv]|[(b & t1 & -> & Ha & Hb & Hv)|[(b & c & t2 & -> & Ha & Hb & Hc & Hv)|
                    (b & c & d & t3 & -> & Ha & Hb & Hc & Hd & Hv)]]].
    + destruct (IH t) as [I1 I2]; [simpl in Hl; lia|exact Hv|].
      rewrite asc_okb_cons_lo by exact Ha. rewrite u3_okb_cons_ne by lia.
      rewrite (valid_starts_cont t Hv), I1, I2. split; reflexivity.
    + destruct (IH t1) as [I1 I2]; [simpl in Hl; lia|exact Hv|].
      apply is_cont_range in Hb.
      rewrite !asc_okb_cons_hi by lia. rewrite !u3_okb_cons_ne by lia. split; assumption.
    + destruct (IH t2) as [I1 I2]; [simpl in Hl; lia|exact Hv|].
      apply is_cont_range in Hb. apply is_cont_range in Hc.
      rewrite !asc_okb_cons_hi by lia. split; [exact I1|].
      cbn [u3_okb]. rewrite (is_u3000_at_ne b) by lia. rewrite (is_u3000_at_ne c) by lia.
      cbn [skipn]. rewrite (valid_starts_cont t2 Hv), I2.
      destruct (is_u3000_at (a :: b :: c :: t2)); reflexivity.
    + destruct (IH t3) as [I1 I2]; [simpl in Hl; lia|exact Hv|].
      apply is_cont_range in Hb. apply is_cont_range in Hc. apply is_cont_range in Hd.
      rewrite !asc_okb_cons_hi by lia. rewrite !u3_okb_cons_ne by lia. split; assumption.
Qed.

Lemma valid_wf l : valid_utf8 l = true -> asc_okb l = true /\ u3_okb l = true.
Proof. apply (valid_wf_strong (length l)). lia. Qed.

Lemma asc_okb_tl a t : asc_okb (a :: t) = true -> asc_okb t = true.
Proof. cbn [asc_okb]. intros H. apply andb_true_iff in H. tauto. Qed.

Lemma u3_okb_tl a t : u3_okb (a :: t) = true -> u3_okb t = true.
Proof. cbn [u3_okb]. intros H. apply andb_true_iff in H. tauto. Qed.

Lemma asc_okb_skipn n : forall l, asc_okb l = true -> asc_okb (skipn n l) = true.
Proof.
  induction n as [|n IH]; intros l H; [exact H|].
  destruct l as [|a t]; [exact H|]. cbn [skipn]. apply IH. eapply asc_okb_tl. exact H.
Qed.

Lemma u3_okb_skipn n : forall l, u3_okb l = true -> u3_okb (skipn n l) = true.
Proof.
  induction n as [|n IH]; intros l H; [exact H|].
  destruct l as [|a t]; [exact H|]. cbn [skipn]. apply IH. eapply u3_okb_tl. exact H.
Qed.

(* after an ASCII byte *)
Lemma asc_after_head a t : asc_okb (a :: t) = true -> a < 128 -> starts_cont t = false.
Proof.
  intros H Ha. rewrite asc_okb_cons_lo in H by exact Ha.
  apply andb_true_iff in H. destruct H as [H _]. apply negb_true_iff in H. exact H.
Qed.

Lemma asc_after i : forall l a, asc_okb l = true -> nth_error l i = Some a -> a < 128 ->
  starts_cont (skipn (S i) l) = false.
Proof.
  induction i as [|i IH]; intros l a H Hn Ha; destruct l as [|x t]; try discriminate.
  - simpl in Hn. injection Hn as ->. cbn [skipn]. eapply asc_after_head; eassumption.
  - simpl in Hn. change (skipn (S (S i)) (x :: t)) with (skipn (S i) t).
    eapply IH; [eapply asc_okb_tl; exact H|exact Hn|exact Ha].
Qed.

(* the leading run of ASCII bytes *)
Definition ascii_run (l : bytes) : nat := count_while (fun x => x <? 128) l.

Lemma ascii_run_nth k : forall t, (k < ascii_run t)%nat -> exists a, nth_error t k = Some a /\ a < 128.
Proof.
  unfold ascii_run. induction k as [|k IH]; intros t H; destruct t as [|x t]; simpl in H; try lia;
    destruct (x <? 128) eqn:E; try lia.
  - exists x. split; [reflexivity|apply N.ltb_lt; exact E].
  - apply IH. lia.
Qed.

(* a token that starts with an ASCII byte and then stays inside the ASCII run ends at a boundary *)
Lemma run_end b t n : asc_okb (b :: t) = true -> b < 128 -> (n <= ascii_run t)%nat ->
  starts_cont (skipn n t) = false.
Proof.
  intros H Hb Hn. destruct n as [|k].
  - cbn [skipn]. eapply asc_after_head; eassumption.
  - destruct (ascii_run_nth k t) as (a & Ha & Ha'); [lia|].
    eapply asc_after; [eapply asc_okb_tl; exact H|exact Ha|exact Ha'].
Qed.

Lemma count_while_run (p : byte -> bool) t :
  (forall x, p x = true -> x < 128) -> (count_while p t <= ascii_run t)%nat.
Proof.
  intros Hp. unfold ascii_run. induction t as [|x t IH]; simpl; [lia|].
  destruct (p x) eqn:E; [|lia]. apply Hp, N.ltb_lt in E. rewrite E. lia.
Qed.

Lemma ascii_run_skipn k : forall t, (k <= ascii_run t)%nat ->
  ascii_run (skipn k t) = (ascii_run t - k)%nat.
Proof.
  unfold ascii_run. induction k as [|k IH]; intros t H; [cbn [skipn]; lia|].
  destruct t as [|x t]; [reflexivity|]. simpl in H |- *.
  destruct (x <? 128); [|lia]. rewrite IH by lia. lia.
Qed.

Lemma next_is_run c t : next_is c t = true -> c < 128 -> ascii_run t = S (ascii_run (tl t)).
Proof.
  intros H Hc. apply next_is_cons in H. destruct H as [t' ->].
  unfold ascii_run. simpl. apply N.ltb_lt in Hc. rewrite Hc. reflexivity.
Qed.

Lemma ascii_run_le t : (ascii_run t <= length t)%nat.
Proof. apply count_while_le. Qed.

Lemma is_dec_ascii x : is_dec x = true -> x < 128.
Proof. unfold is_dec, is_digit. intros H. b2p H; lia. Qed.
Lemma is_hex_ascii x : is_hex x = true -> x < 128.
Proof. unfold is_hex, is_digit. intros H. b2p H; lia. Qed.
Lemma is_bin_ascii x : is_bin x = true -> x < 128.
Proof. unfold is_bin. intros H. b2p H; lia. Qed.
Lemma is_ident_ascii_ascii x : is_ident_ascii x = true -> x < 128.
Proof.
  unfold is_ident_ascii, is_alnum, is_alpha, is_upper, is_lower, is_digit. intros H. b2p H; lia.
Qed.
Lemma is_asm_ident_ascii x : is_asm_ident x = true -> x < 128.
Proof.
  unfold is_asm_ident. intros H. apply orb_true_iff in H. destruct H as [H|H].
  - apply is_ident_ascii_ascii. exact H.
  - b2p H. lia.
Qed.

Lemma count_full_decimal_run l : (count_full_decimal l <= ascii_run l)%nat.
Proof.
  unfold count_full_decimal, count_decimal. destruct (next_is 95 l); [lia|].
  apply count_while_run. exact is_dec_ascii.
Qed.

Lemma dec_number_literal_run l : (dec_number_literal l <= ascii_run l)%nat.
Proof.
  unfold dec_number_literal.
  pose proof (count_while_run is_dec l is_dec_ascii) as H1. unfold count_decimal.
  set (n1 := count_while is_dec l) in *.
  set (r1 := skipn n1 l).
  assert (L1 : ascii_run r1 = (ascii_run l - n1)%nat) by (apply ascii_run_skipn; exact H1).
  set (n2 := if next_is 46 r1 then _ else _).
  assert (H2 : (n2 <= ascii_run r1)%nat).
  { subst n2. destruct (next_is 46 r1) eqn:E; [|lia].
    rewrite (next_is_run _ _ E) by lia.
    pose proof (count_full_decimal_run (tl r1)).
    destruct (Nat.eqb (count_full_decimal (tl r1)) 0); lia. }
  set (r2 := skipn n2 r1).
  assert (L2 : ascii_run r2 = (ascii_run r1 - n2)%nat) by (apply ascii_run_skipn; exact H2).
  set (n3 := if next_is 101 r2 || next_is 69 r2 then _ else _).
  assert (H3 : (n3 <= ascii_run r2)%nat).
  { subst n3. destruct (next_is 101 r2 || next_is 69 r2) eqn:E; [|lia].
    assert (Lr : ascii_run r2 = S (ascii_run (tl r2))).
    { apply orb_true_iff in E. destruct E as [E|E]; apply (next_is_run _ _ E); lia. }
    destruct (next_is 43 (tl r2) || next_is 45 (tl r2)) eqn:E'.
    - assert (Lr' : ascii_run (tl r2) = S (ascii_run (tl (tl r2)))).
      { apply orb_true_iff in E'. destruct E' as [E'|E']; apply (next_is_run _ _ E'); lia. }
      pose proof (count_full_decimal_run (tl (tl r2))). lia.
    - pose proof (count_full_decimal_run (tl r2)). lia. }
  lia.
Qed.

Lemma asm_number_literal_run b t : (fst (asm_number_literal b t) <= ascii_run t)%nat.
Proof.
  unfold asm_number_literal.
  pose proof (count_while_run is_hex t is_hex_ascii) as H1. unfold count_hex.
  set (n := count_while is_hex t) in *.
  assert (L : ascii_run (skipn n t) = (ascii_run t - n)%nat) by (apply ascii_run_skipn; exact H1).
  destruct (next_is 79 (skipn n t) || next_is 111 (skipn n t)) eqn:E1.
  { apply orb_true_iff in E1. destruct E1 as [E|E]; apply next_is_run in E; simpl; lia. }
  destruct (next_is 72 (skipn n t) || next_is 104 (skipn n t)) eqn:E2.
  { apply orb_true_iff in E2. destruct E2 as [E|E]; apply next_is_run in E; simpl; lia. }
  destruct ((nth n (b :: t) 0 =? 66) || (nth n (b :: t) 0 =? 98)); simpl; lia.
Qed.

(* ---- scanners that stop in front of a non-continuation byte by construction ---- *)

Lemma count_while_stop (p : byte -> bool) t :
  (forall x, is_cont x = true -> p x = true) ->
  starts_cont (skipn (count_while p t) t) = false.
Proof.
  intros Hp. induction t as [|x t IH]; [reflexivity|]. simpl.
  destruct (p x) eqn:E; [exact IH|]. simpl.
  destruct (is_cont x) eqn:Ec; [|reflexivity]. apply Hp in Ec. congruence.
Qed.

Lemma ident_end_generic_end t : starts_cont (skipn (ident_end_generic t) t) = false.
Proof.
  induction t as [|x t IH]; [reflexivity|]. rewrite ident_end_generic_unfold.
  destruct (is_ident_ascii x) eqn:E1; [exact IH|].
  destruct ((128 <=? x) && negb (is_u3000_at (x :: t))) eqn:E2; [exact IH|].
  cbn [skipn starts_cont].
  destruct (128 <=? x) eqn:E3.
  - simpl in E2. apply negb_false_iff in E2.
    unfold is_u3000_at in E2. cbn [is_prefix] in E2. apply andb_true_iff in E2.
    destruct E2 as [E2 _]. apply N.eqb_eq in E2. subst x. reflexivity.
  - apply not_cont_lo. apply N.leb_gt. exact E3.
Qed.

Lemma skipn_add {A} a : forall b (l : list A), skipn (a + b) l = skipn b (skipn a l).
Proof.
  induction a as [|a IH]; intros b l; [reflexivity|].
  destruct l as [|x l]; [cbn [Nat.add skipn]; rewrite skipn_nil; reflexivity|].
  cbn [Nat.add skipn]. apply IH.
Qed.

Lemma unicode_identifier_end t : starts_cont (skipn (unicode_identifier t) t) = false.
Proof. unfold unicode_identifier. cbv zeta. rewrite skipn_add. apply ident_end_generic_end. Qed.

Lemma line_comment_len_end t : starts_cont (skipn (line_comment_len t) t) = false.
Proof.
  unfold line_comment_len. apply count_while_stop. intros x Hx.
  apply is_cont_range in Hx. unfold is_eol.
  assert (E1 : (x =? 10) = false) by (apply N.eqb_neq; lia).
  assert (E2 : (x =? 13) = false) by (apply N.eqb_neq; lia).
  rewrite E1, E2. reflexivity.
Qed.

Lemma all_ws_starts_cont l : all_ws l = true -> starts_cont l = false.
Proof.
  unfold all_ws. destruct l as [|a t]; [reflexivity|]. intros H. apply Nat.eqb_eq in H.
  rewrite count_ws_unfold in H. simpl.
  destruct (a <=? 32) eqn:E.
  - apply not_cont_lo. b2p E. lia.
  - destruct t as [|b [|c t']]; simpl in H; try lia.
    destruct ((a =? 227) && (b =? 128) && (c =? 128)) eqn:E3; [|lia].
    b2p E3. subst a. reflexivity.
Qed.

Lemma trimmed_len_all_ws l : all_ws (skipn (trimmed_len l) l) = true.
Proof.
  induction l as [|a t IH]; [reflexivity|].
  change (trimmed_len (a :: t)) with (if all_ws (a :: t) then O else S (trimmed_len t)).
  destruct (all_ws (a :: t)) eqn:E; [exact E|exact IH].
Qed.

Lemma trimmed_len_end l : starts_cont (skipn (trimmed_len l) l) = false.
Proof. apply all_ws_starts_cont, trimmed_len_all_ws. Qed.

(* ---- ends right after a specific ASCII byte ---- *)

(* position e >= 1 whose previous byte is ASCII *)
Definition after_ascii (l : bytes) (e : nat) : Prop :=
  exists i a, e = S i /\ nth_error l i = Some a /\ a < 128.

Lemma after_ascii_end l e : asc_okb l = true -> after_ascii l e -> starts_cont (skipn e l) = false.
Proof. intros H (i & a & -> & Hn & Ha). eapply asc_after; eassumption. Qed.

Lemma after_ascii_shift l k e : after_ascii (skipn k l) e -> after_ascii l (k + e).
Proof.
  intros (i & a & -> & Hn & Ha). exists (k + i)%nat, a. split; [lia|]. split; [|exact Ha].
  rewrite <- Hn. clear. revert l. induction k as [|k IH]; intros l; [reflexivity|].
  destruct l as [|x l]; [destruct i; reflexivity|]. apply IH.
Qed.

Lemma find_first_nth p l i : find_first p l = Some i -> exists a, nth_error l i = Some a /\ p a = true.
Proof.
  revert i; induction l as [|x t IH]; intros i H; simpl in H; [discriminate|].
  destruct (p x) eqn:E; [injection H as <-; exists x; split; [reflexivity|exact E]|].
  destruct (find_first p t) as [j|]; [|discriminate]. injection H as <-.
  destruct (IH j eq_refl) as (a & Ha & Hp). exists a. split; assumption.
Qed.

Lemma find_sub_prefix pat l i : find_sub pat l = Some i -> is_prefix pat (skipn i l) = true.
Proof.
  revert i; induction l as [|x t IH]; intros i H; rewrite find_sub_unfold in H.
  - destruct (is_prefix pat []) eqn:E; [|discriminate]. injection H as <-. exact E.
  - destruct (is_prefix pat (x :: t)) eqn:E; [injection H as <-; exact E|].
    destruct (find_sub pat t) as [j|]; [|discriminate]. injection H as <-. apply IH. reflexivity.
Qed.

(* the last byte of a non-empty all-ASCII prefix *)
Lemma is_prefix_after_ascii pat l :
  is_prefix pat l = true -> pat <> [] -> Forall (fun x => x < 128) pat ->
  after_ascii l (length pat).
Proof.
  revert l. induction pat as [|a pat IH]; intros l H Hne Hall; [congruence|].
  destruct l as [|x t]; [discriminate|]. cbn [is_prefix] in H.
  apply andb_true_iff in H. destruct H as [Hx Hp]. apply N.eqb_eq in Hx. subst x.
  inversion Hall as [|a' pat' Ha Hall']. subst.
  destruct pat as [|a2 pat2].
  - exists O, a. repeat split. exact Ha.
  - destruct (IH t Hp) as (i & y & Hi & Hn & Hy); [discriminate|exact Hall'|].
    exists (S i), y. split; [simpl in *; lia|]. split; [exact Hn|exact Hy].
Qed.

Lemma find_block_comment_end_after k l e :
  find_block_comment_end k l = Some e -> after_ascii l e.
Proof.
  destruct k; simpl.
  - destruct (find_sub [42; 41] l) as [o|] eqn:E; [|discriminate].
    intros H; injection H as <-. apply find_sub_prefix in E.
    apply (after_ascii_shift l o 2).
    apply (is_prefix_after_ascii [42; 41]); [exact E|discriminate|].
    repeat constructor.
  - destruct (find_first (fun b => b =? 125) l) as [o|] eqn:E; [|discriminate].
    intros H; injection H as <-. apply find_first_nth in E. destruct E as (a & Ha & Hp).
    exists o, a. split; [reflexivity|]. split; [exact Ha|]. b2p Hp. lia.
Qed.

Lemma block_comment_end k nlb l : asc_okb l = true ->
  starts_cont (skipn (fst (block_comment k nlb l)) l) = false.
Proof.
  intros H. unfold block_comment. destruct (find_block_comment_end k l) as [e|] eqn:E; simpl.
  - apply after_ascii_end; [exact H|]. eapply find_block_comment_end_after. exact E.
  - apply trimmed_len_end.
Qed.

(* ---- text literals ---- *)

Lemma tl_step_E_go b s' : tl_step_E b = TGo s' -> b < 128.
Proof.
  unfold tl_step_E. destruct (b =? 35) eqn:E1; [intros _; b2p E1; lia|].
  destruct (b =? 39) eqn:E2; [intros _; b2p E2; lia|discriminate].
Qed.

Lemma tl_step_go_ascii s b s' : tl_step s b = TGo s' -> s' <> TL_S -> b < 128.
Proof.
  intros H Hs. destruct s; cbn [tl_step] in H.
  - eapply tl_step_E_go; exact H.
  - destruct (is_dec b) eqn:E1; [apply is_dec_ascii; exact E1|].
    destruct (b =? 36) eqn:E2; [b2p E2; lia|].
    destruct (b =? 37) eqn:E3; [b2p E3; lia|discriminate].
  - destruct (is_dec b) eqn:E1; [apply is_dec_ascii; exact E1|eapply tl_step_E_go; exact H].
  - destruct (is_hex b) eqn:E1; [apply is_hex_ascii; exact E1|discriminate].
  - destruct (is_hex b) eqn:E1; [apply is_hex_ascii; exact E1|eapply tl_step_E_go; exact H].
  - destruct (is_bin b) eqn:E1; [apply is_bin_ascii; exact E1|discriminate].
  - destruct (is_bin b) eqn:E1; [apply is_bin_ascii; exact E1|eapply tl_step_E_go; exact H].
  - destruct (b =? 39) eqn:E1; [b2p E1; lia|].
    destruct ((b =? 10) || (b =? 13)); [discriminate|]. injection H as <-. congruence.
Qed.

Lemma tl_step_stop_S b k : tl_step TL_S b = TStop k -> b < 128.
Proof.
  unfold tl_step. destruct (b =? 39); [discriminate|].
  destruct ((b =? 10) || (b =? 13)) eqn:E; [|discriminate]. intros _. b2p E; lia.
Qed.

Lemma tl_run_end l : forall s, asc_okb l = true -> (s <> TL_S -> starts_cont l = false) ->
  starts_cont (skipn (fst (tl_run s l)) l) = false.
Proof.
  induction l as [|b t IH]; intros s H Hs; [reflexivity|].
  cbn [tl_run]. destruct (tl_step s b) as [s'|k] eqn:E.
  - cbn [fst skipn]. apply IH; [eapply asc_okb_tl; exact H|].
    intros Hs'. eapply asc_after_head; [exact H|]. eapply tl_step_go_ascii; eassumption.
  - cbn [fst skipn]. destruct s; try (apply Hs; discriminate).
    simpl. apply not_cont_lo. eapply tl_step_stop_S. exact E.
Qed.

Lemma Forall_repeat {A} (P : A -> Prop) x n : P x -> Forall P (repeat x n).
Proof. intros H. induction n; simpl; constructor; assumption. Qed.

Lemma text_literal_end b t : asc_okb (b :: t) = true -> b < 128 ->
  starts_cont (skipn (fst (text_literal b t)) t) = false.
Proof.
  intros H Hb. unfold text_literal.
  set (q := if b =? 39 then S (count_while (fun c => c =? 39) t) else O).
  destruct (Nat.leb 3 q && Nat.odd q && (next_is 13 (skipn (q - 1) t) || next_is 10 (skipn (q - 1) t)))
    eqn:Em.
  - destruct (find_sub (repeat 39 q) (skipn (q - 1) t)) as [pos|] eqn:E; cbn [fst].
    + apply after_ascii_end; [eapply asc_okb_tl; exact H|].
      rewrite <- Nat.add_assoc. apply after_ascii_shift, after_ascii_shift.
      apply find_sub_prefix in E.
      rewrite <- (repeat_length 39 q) at 2.
      apply is_prefix_after_ascii; [exact E| |apply Forall_repeat; lia].
      apply andb_true_iff in Em. destruct Em as [Em _]. apply andb_true_iff in Em.
      destruct Em as [Em _]. apply Nat.leb_le in Em. destruct q; [lia|discriminate].
    + rewrite skipn_all. reflexivity.
  - cbn [fst]. apply tl_run_end; [eapply asc_okb_tl; exact H|].
    intros _. eapply asc_after_head; eassumption.
Qed.

Lemma asm_text_literal_end_strong n : forall t, (length t <= n)%nat -> asc_okb t = true ->
  starts_cont (skipn (fst (asm_text_literal t)) t) = false.
Proof.
  induction n as [|n IH]; intros t Ht H.
  - destruct t; [reflexivity|simpl in Ht; lia].
  - destruct t as [|b t1]; [reflexivity|].
    rewrite asm_text_literal_unfold. simpl in Ht.
    destruct (b =? 92) eqn:E92.
    + destruct t1 as [|c t2]; [reflexivity|].
      cbn [fst skipn]. simpl in Ht. apply IH; [lia|].
      eapply asc_okb_tl, asc_okb_tl. exact H.
    + destruct (b =? 34) eqn:E34.
      { cbn [fst skipn]. eapply asc_after_head; [exact H|]. b2p E34. lia. }
      destruct ((b =? 10) || (b =? 13)) eqn:Eeol.
      { cbn [fst skipn starts_cont]. apply not_cont_lo. b2p Eeol; lia. }
      cbn [fst skipn]. apply IH; [lia|]. eapply asc_okb_tl. exact H.
Qed.

Lemma asm_text_literal_end t : asc_okb t = true ->
  starts_cont (skipn (fst (asm_text_literal t)) t) = false.
Proof. apply (asm_text_literal_end_strong (length t)). lia. Qed.

(* ---- directives ---- *)

Definition dres_end (l : bytes) (r : dres) : Prop :=
  match r with DEnd n => starts_cont (skipn n l) = false | _ => True end.

Lemma dshift_end k l r : dres_end (skipn k l) r -> dres_end l (dshift k r).
Proof. destruct r as [n| |]; simpl; [rewrite skipn_add; tauto|tauto|tauto]. Qed.

Lemma parse_directive_end_end (expr_end : BlockCommentKind -> bytes -> dres) k l :
  asc_okb l = true ->
  (forall k' r, asc_okb r = true -> dres_end r (expr_end k' r)) ->
  dres_end l (parse_directive_end expr_end k l).
Proof.
  intros H Hrec. unfold parse_directive_end.
  set (n := count_while is_ident_ascii l).
  pose proof (asc_okb_skipn n l H) as Hn.
  destruct (cdk_has_expr _).
  - apply dshift_end, Hrec. exact Hn.
  - apply dshift_end. destruct (find_block_comment_end k (skipn n l)) as [e|] eqn:E; simpl; [|exact I].
    apply after_ascii_end; [exact Hn|]. eapply find_block_comment_end_after. exact E.
Qed.

Lemma find_directive_expr_end_end fuel : forall kind l, asc_okb l = true ->
  dres_end l (find_directive_expr_end fuel kind l).
Proof.
  induction fuel as [|f IH]; intros kind l H; [exact I|].
  rewrite find_directive_expr_end_unfold. cbv zeta.
  assert (Hcont : forall m, dres_end l (dshift m (find_directive_expr_end f kind (skipn m l)))).
  { intros m. apply dshift_end, IH, asc_okb_skipn, H. }
  assert (Hthen : forall pre r,
            dres_end l
              match r with
              | DEnd m => dshift (pre + m) (find_directive_expr_end f kind (skipn (pre + m) l))
              | other => other
              end).
  { intros pre r. destruct r as [m| |]; [apply Hcont|exact I|exact I]. }
  destruct l as [|b t]; [exact I|].
  destruct (is_paren_star kind && is_prefix [42; 41] (b :: t)) eqn:E1.
  { apply andb_true_iff in E1. destruct E1 as [_ E1].
    change (starts_cont (skipn 2 (b :: t)) = false).
    apply after_ascii_end; [exact H|].
    apply (is_prefix_after_ascii [42; 41]); [exact E1|discriminate|repeat constructor]. }
  destruct (negb (is_paren_star kind) && (b =? 125)) eqn:E2.
  { apply andb_true_iff in E2. destruct E2 as [_ E2]. b2p E2.
    change (starts_cont t = false).
    eapply asc_after_head; [exact H|lia]. }
  destruct (is_prefix [40; 42; 36] (b :: t)); [apply Hthen|].
  destruct (is_prefix [123; 36] (b :: t)); [apply Hthen|].
  destruct (is_prefix [40; 42] (b :: t)); [apply Hcont|].
  destruct (b =? 123); [apply Hcont|].
  destruct (b =? 39); [apply Hcont|].
  destruct (is_prefix [47; 47] (b :: t)); apply Hcont.
Qed.

Definition tres_end (t : bytes) (r : tres) : Prop :=
  match r with TOk n _ => starts_cont (skipn n t) = false | TFuel => True end.

Lemma tshift1_end x t r : tres_end t r -> tres_end (x :: t) (tshift 1 r).
Proof. destruct r as [n ty|]; simpl; tauto. Qed.

Lemma compiler_directive_end k l : asc_okb l = true -> tres_end l (compiler_directive k l).
Proof.
  intros H. unfold compiler_directive.
  assert (Hd : dres_end l (parse_directive_end (find_directive_expr_end (S (length l))) k l)).
  { apply parse_directive_end_end; [exact H|]. intros k' r Hr. apply find_directive_expr_end_end, Hr. }
  destruct (parse_directive_end (find_directive_expr_end (S (length l))) k l) as [e| |]; simpl.
  - exact Hd.
  - apply trimmed_len_end.
  - exact I.
Qed.

Lemma compiler_directive_or_comment_end k nlb l : asc_okb l = true ->
  tres_end l (compiler_directive_or_comment k nlb l).
Proof.
  intros H. unfold compiler_directive_or_comment. destruct (next_is 36 l) eqn:E.
  - apply next_is_cons in E. destruct E as [l' ->]. cbn [tl].
    apply tshift1_end, compiler_directive_end. eapply asc_okb_tl. exact H.
  - unfold tok. simpl. apply block_comment_end. exact H.
Qed.

(* ---- ampersand, dispatch ---- *)

Lemma is_digit_ascii x : is_digit x = true -> x < 128.
Proof. unfold is_digit. intros H. b2p H. lia. Qed.

Lemma is_alpha_ascii x : is_alpha x = true -> x < 128.
Proof. unfold is_alpha, is_upper, is_lower. intros H. b2p H; lia. Qed.

Lemma ampersand_end b t : asc_okb (b :: t) = true -> b < 128 ->
  starts_cont (skipn (fst (ampersand t)) t) = false.
Proof.
  intros H Hb. unfold ampersand.
  assert (Hamp : forall x, (x =? 38) = true -> x < 128) by (intros x Hx; b2p Hx; lia).
  pose proof (count_while_run (fun x => x =? 38) t Hamp) as Hk.
  set (k := count_while (fun x => x =? 38) t) in *.
  pose proof (ascii_run_skipn k t Hk) as L.
  destruct (skipn k t) as [|c r] eqn:Es.
  { cbn [fst]. rewrite Es. reflexivity. }
  assert (Hrun : c < 128 -> ascii_run (c :: r) = S (ascii_run r)).
  { intros Hc. unfold ascii_run. simpl. apply N.ltb_lt in Hc. rewrite Hc. reflexivity. }
  assert (Hid : forall m, skipn (k + 1 + m) t = skipn m r).
  { intros m. rewrite !skipn_add, Es. reflexivity. }
  destruct (c =? 36) eqn:E1.
  { cbn [fst]. apply (run_end b); [exact H|exact Hb|]. b2p E1.
    pose proof (count_while_run is_hex r is_hex_ascii). unfold count_hex.
    rewrite Hrun in L by lia. lia. }
  destruct (c =? 37) eqn:E2.
  { cbn [fst]. apply (run_end b); [exact H|exact Hb|]. b2p E2.
    pose proof (count_while_run is_bin r is_bin_ascii). unfold count_binary.
    rewrite Hrun in L by lia. lia. }
  destruct (is_digit c) eqn:E3.
  { cbn [fst]. apply (run_end b); [exact H|exact Hb|]. apply is_digit_ascii in E3.
    pose proof (dec_number_literal_run r). rewrite Hrun in L by lia. lia. }
  destruct (is_alpha c || (c =? 95)).
  { cbn [fst]. rewrite Hid. apply ident_end_generic_end. }
  destruct (128 <=? c) eqn:E5.
  { cbn [fst]. rewrite Hid. apply unicode_identifier_end. }
  cbn [fst]. apply (run_end b); [exact H|exact Hb|exact Hk].
Qed.

Lemma op_end b t n k : asc_okb (b :: t) = true -> b < 128 -> (n <= ascii_run t)%nat ->
  tres_end t (op n k).
Proof. intros H Hb Hn. unfold op. simpl. eapply run_end; eassumption. Qed.

Lemma lex_common_end st nlb b t : asc_okb (b :: t) = true -> tres_end t (lex_common st nlb b t).
Proof.
  intros H. unfold lex_common.
  assert (Hop0 : forall k, b < 128 -> tres_end t (op 0 k)).
  { intros k Hb. apply (op_end b); [exact H|exact Hb|lia]. }
  assert (Hop1 : forall c k, b < 128 -> c < 128 -> next_is c t = true -> tres_end t (op 1 k)).
  { intros c k Hb Hc E. apply (op_end b); [exact H|exact Hb|]. rewrite (next_is_run c t E Hc). lia. }
  pose proof (asc_okb_tl _ _ H) as Ht.
  destruct (b =? 40) eqn:B1.
  { b2p B1. destruct (next_is 42 t) eqn:E.
    - apply next_is_cons in E. destruct E as [t' ->]. cbn [tl].
      apply tshift1_end, compiler_directive_or_comment_end. eapply asc_okb_tl. exact Ht.
    - destruct (next_is 46 t) eqn:E'; [apply (Hop1 46); [lia|lia|exact E']|apply Hop0; lia]. }
  destruct (b =? 123) eqn:B2; [apply compiler_directive_or_comment_end; exact Ht|].
  destruct (b =? 47) eqn:B3.
  { b2p B3. destruct (next_is 47 t) eqn:E; [|apply Hop0; lia].
    apply next_is_cons in E. destruct E as [t' ->]. cbn [tl].
    apply tshift1_end. unfold tok. simpl. apply line_comment_len_end. }
  destruct (b =? 58) eqn:B4.
  { b2p B4. destruct (next_is 61 t) eqn:E; [apply (Hop1 61); [lia|lia|exact E]|apply Hop0; lia]. }
  destruct (b =? 60) eqn:B5.
  { b2p B5. destruct (next_is 61 t) eqn:E; [apply (Hop1 61); [lia|lia|exact E]|].
    destruct (next_is 62 t) eqn:E'; [apply (Hop1 62); [lia|lia|exact E']|apply Hop0; lia]. }
  destruct (b =? 62) eqn:B6.
  { b2p B6. destruct (next_is 61 t) eqn:E; [apply (Hop1 61); [lia|lia|exact E]|apply Hop0; lia]. }
  destruct (b =? 46) eqn:B7.
  { b2p B7. destruct (next_is 46 t) eqn:E; [apply (Hop1 46); [lia|lia|exact E]|].
    destruct (next_is 41 t) eqn:E'; [apply (Hop1 41); [lia|lia|exact E']|apply Hop0; lia]. }
  do 11 (match goal with
         | |- context [if ?c then _ else _] =>
             let B := fresh "Bop" in destruct c eqn:B; [b2p B; apply Hop0; lia|]
         end).
  destruct ((b =? 39) || (b =? 35)) eqn:B8.
  { unfold tok. simpl. apply text_literal_end; [exact H|b2p B8; lia]. }
  destruct (b =? 38) eqn:B9.
  { unfold tok. simpl. apply (ampersand_end b); [exact H|b2p B9; lia]. }
  destruct (b =? 37) eqn:B10.
  { simpl. apply (run_end b); [exact H|b2p B10; lia|]. apply count_while_run, is_bin_ascii. }
  destruct (b =? 36) eqn:B11.
  { simpl. apply (run_end b); [exact H|b2p B11; lia|]. apply count_while_run, is_hex_ascii. }
  destruct (is_digit b) eqn:B12.
  { simpl. apply (run_end b); [exact H|apply is_digit_ascii; exact B12|].
    apply dec_number_literal_run. }
  destruct (is_alpha b); [unfold tok; simpl; apply ident_end_generic_end|].
  destruct (b =? 95); [simpl; apply ident_end_generic_end|].
  destruct (128 <=? b) eqn:B13; [simpl; apply unicode_identifier_end|].
  simpl. eapply asc_after_head; [exact H|b2p B13; exact B13].
Qed.

Lemma lex_token_end st nlb b t n ty a : asc_okb (b :: t) = true ->
  lex_token st nlb b t = Some (n, ty, a) -> starts_cont (skipn n t) = false.
Proof.
  intros H. unfold lex_token.
  pose proof (lex_common_end st nlb b t H) as Hc.
  pose proof (asc_okb_tl _ _ H) as Ht.
  destruct (ls_asm st).
  - destruct (b =? 64) eqn:B1.
    { intros E. injection E as <- _ _. b2p B1. apply (run_end b); [exact H|lia|].
      apply count_while_run, is_asm_ident_ascii. }
    destruct (b =? 34).
    { intros E. injection E as <- _ _. apply asm_text_literal_end. exact Ht. }
    destruct (is_digit b) eqn:B3.
    { intros E. injection E as <- _ _. apply (run_end b); [exact H|apply is_digit_ascii; exact B3|].
      apply asm_number_literal_run. }
    destruct (is_aAeE b).
    { unfold asm_identifier.
      repeat match goal with |- context [if ?c then _ else _] => destruct c end;
        intros E; injection E as <- _ _; apply ident_end_generic_end. }
    destruct (is_alpha b).
    { intros E. injection E as <- _ _. apply ident_end_generic_end. }
    destruct (lex_common st nlb b t) as [n' ty'|]; [|discriminate].
    intros E. injection E as <- _ _. exact Hc.
  - destruct (lex_common st nlb b t) as [n' ty'|]; [|discriminate].
    intros E. injection E as <- _ _. exact Hc.
Qed.

(* ---- whitespace ---- *)

Lemma count_ws_end_strong n : forall l, (length l <= n)%nat ->
  asc_okb l = true -> u3_okb l = true -> starts_cont l = false ->
  starts_cont (skipn (count_ws l) l) = false.
Proof.
  induction n as [|n IH]; intros l Hl Ha Hu Hs.
  - destruct l; [reflexivity|simpl in Hl; lia].
  - destruct l as [|a t]; [reflexivity|]. rewrite count_ws_unfold. simpl in Hl.
    destruct (a <=? 32) eqn:Ea.
    + cbn [skipn]. apply IH; [lia|eapply asc_okb_tl; exact Ha|eapply u3_okb_tl; exact Hu|].
      eapply asc_after_head; [exact Ha|b2p Ea; lia].
    + destruct t as [|b [|c t']]; try exact Hs.
      destruct ((a =? 227) && (b =? 128) && (c =? 128)) eqn:E3; [|exact Hs].
      cbn [skipn]. simpl in Hl.
      assert (Hu' : u3_okb t' = true) by (eapply u3_okb_tl, u3_okb_tl, u3_okb_tl; exact Hu).
      assert (Ha' : asc_okb t' = true) by (eapply asc_okb_tl, asc_okb_tl, asc_okb_tl; exact Ha).
      apply IH; [lia|exact Ha'|exact Hu'|].
      cbn [u3_okb] in Hu. apply andb_true_iff in Hu. destruct Hu as [Hu _].
      b2p E3. subst a b c.
      change (is_u3000_at (227 :: 128 :: 128 :: t')) with true in Hu.
      cbn [skipn] in Hu. apply negb_true_iff in Hu. exact Hu.
Qed.

Lemma count_ws_end l : asc_okb l = true -> u3_okb l = true -> starts_cont l = false ->
  starts_cont (skipn (count_ws l) l) = false.
Proof. apply (count_ws_end_strong (length l)). lia. Qed.

(* ---- the token stream ---- *)

Inductive cb_lexed : list tok3 -> bytes -> Prop :=
| cb_eof ws : cb_lexed [(length ws, O, RTT_Eof)] ws
| cb_tok ws b c rest ty toks :
    starts_cont (b :: c ++ rest) = false ->
    starts_cont rest = false ->
    cb_lexed toks rest ->
    cb_lexed ((length ws, S (length c), ty) :: toks) (ws ++ (b :: c) ++ rest).

Lemma cb_tok' w n ws b c rest ty toks l :
  w = length ws -> n = length c -> l = ws ++ (b :: c) ++ rest ->
  starts_cont (b :: c ++ rest) = false -> starts_cont rest = false -> cb_lexed toks rest ->
  cb_lexed ((w, S n, ty) :: toks) l.
Proof. intros -> -> ->. apply cb_tok. Qed.

Lemma cb_eof' w l : w = length l -> cb_lexed [(w, O, RTT_Eof)] l.
Proof. intros ->. apply cb_eof. Qed.

Lemma lex_loop_cb f : forall st l toks,
  asc_okb l = true -> u3_okb l = true -> starts_cont l = false ->
  lex_loop f st l = Some toks -> cb_lexed toks l.
Proof.
  induction f as [|f IH]; intros st l toks Ha Hu Hs H; [discriminate|].
  rewrite lex_loop_unfold in H. cbv zeta in H.
  pose proof (count_ws_le l) as Hw.
  pose proof (count_ws_end l Ha Hu Hs) as He.
  pose proof (asc_okb_skipn (count_ws l) l Ha) as Ha'.
  pose proof (u3_okb_skipn (count_ws l) l Hu) as Hu'.
  pose proof (firstn_skipn (count_ws l) l) as Hsplit.
  assert (Lw : length (firstn (count_ws l) l) = count_ws l) by (apply firstn_length_le; exact Hw).
  destruct (skipn (count_ws l) l) as [|b t].
  - injection H as <-. rewrite app_nil_r in Hsplit.
    apply cb_eof'. rewrite <- Hsplit at 2. symmetry. exact Lw.
  - destruct (lex_token_ok st (contains_byte 10 (firstn (count_ws l) l) || ls_first st) b t)
      as (n & ty & a & E & Hn & Hty).
    rewrite E in H.
    pose proof (lex_token_end _ _ _ _ _ _ _ Ha' E) as Hend.
    match type of H with context [lex_loop f ?st' ?l'] =>
      destruct (lex_loop f st' l') as [ts|] eqn:Hts; [|discriminate] end.
    injection H as <-.
    apply IH in Hts; [|apply asc_okb_skipn; eapply asc_okb_tl; exact Ha'
                      |apply u3_okb_skipn; eapply u3_okb_tl; exact Hu'|exact Hend].
    assert (Ln : length (firstn n t) = n) by (apply firstn_length_le; exact Hn).
    apply (cb_tok' _ _ (firstn (count_ws l) l) b (firstn n t) (skipn n t));
      try assumption; try (symmetry; assumption).
    rewrite <- Hsplit at 1. simpl. rewrite firstn_skipn. reflexivity.
Qed.

(* all offsets at which the input is cut: after the blanks and after the content of every token *)
Fixpoint offsets (off : nat) (toks : list tok3) : list nat :=
  match toks with
  | [] => []
  | (w, n, _) :: r => (off + w)%nat :: (off + w + n)%nat :: offsets (off + w + n) r
  end.

(* str::is_char_boundary for 0 <= i <= len *)
Definition is_char_boundary (s : bytes) (i : nat) : bool := negb (starts_cont (skipn i s)).

Lemma cb_lexed_offsets toks r : cb_lexed toks r -> forall pre,
  Forall (fun i => is_char_boundary (pre ++ r) i = true) (offsets (length pre) toks).
Proof.
  unfold is_char_boundary.
  induction 1 as [ws|ws b c rest ty toks H1 H2 Hl IH]; intros pre; cbn [offsets].
  - assert (E : skipn (length pre + length ws) (pre ++ ws) = []).
    { apply skipn_all2. rewrite app_length. lia. }
    constructor; [rewrite E; reflexivity|]. constructor; [|constructor].
    rewrite Nat.add_0_r, E. reflexivity.
  - assert (E1 : skipn (length pre + length ws) (pre ++ ws ++ (b :: c) ++ rest) = (b :: c) ++ rest).
    { rewrite app_assoc, <- app_length. apply skipn_app_exact. }
    assert (E2 : skipn (length pre + length ws + S (length c)) (pre ++ ws ++ (b :: c) ++ rest) = rest).
    { change (S (length c)) with (length (b :: c)).
      rewrite !app_assoc, <- !app_length. apply skipn_app_exact. }
    constructor; [rewrite E1; simpl in H1 |- *; rewrite H1; reflexivity|].
    constructor; [rewrite E2, H2; reflexivity|].
    specialize (IH (pre ++ ws ++ (b :: c))).
    rewrite !app_length in IH. simpl length in IH.
    rewrite Nat.add_assoc in IH. rewrite <- !app_assoc in IH. exact IH.
Qed.

Theorem lex_cb_lexed : forall s toks, lex s = Some toks -> valid_utf8 s = true -> cb_lexed toks s.
Proof.
  intros s toks H Hv. destruct (valid_wf s Hv) as [Ha Hu].
  eapply lex_loop_cb; [exact Ha|exact Hu|apply valid_starts_cont; exact Hv|exact H].
Qed.

(* On valid UTF-8 every cut made by the lexer is at a char boundary, so the split_at of
   whitespace_and_token cannot panic. *)
Theorem lex_char_boundaries : forall s toks, lex s = Some toks -> valid_utf8 s = true ->
  Forall (fun i => is_char_boundary s i = true) (offsets 0 toks).
Proof.
  intros s toks H Hv. apply (cb_lexed_offsets toks s (lex_cb_lexed s toks H Hv) []).
Qed.

(* "e-acute" U+3000 "x" 'e-acute' : Identifier, blank, Identifier, TextLiteral *)
Example lex_char_boundaries_example :
  let s := [195; 169; 227; 128; 128; 120; 39; 195; 169; 39] in
  valid_utf8 s = true /\
  option_map (offsets 0) (lex s) = Some [0; 2; 5; 6; 6; 10; 10; 10]%nat.
Proof. vm_compute. split; reflexivity. Qed.


(* ---- consequently every blank run and every token content is itself valid UTF-8 ---- *)

Lemma in_range_cont lo hi b : 128 <= lo -> hi <= 191 -> in_range lo hi b = true -> is_cont b = true.
Proof.
  intros Hlo Hhi H. unfold in_range in H. b2p H. unfold is_cont.
  apply andb_true_iff. split; apply N.leb_le; lia.
Qed.

Lemma cond3_cont a b :
  (if a =? 224 then in_range 160 191 b else if a =? 237 then in_range 128 159 b else is_cont b) = true ->
  is_cont b = true.
Proof.
  destruct (a =? 224); [apply in_range_cont; lia|].
  destruct (a =? 237); [apply in_range_cont; lia|tauto].
Qed.

Lemma cond4_cont a b :
  (if a =? 240 then in_range 144 191 b else if a =? 244 then in_range 128 143 b else is_cont b) = true ->
  is_cont b = true.
Proof.
  destruct (a =? 240); [apply in_range_cont; lia|].
  destruct (a =? 244); [apply in_range_cont; lia|tauto].
Qed.

Lemma valid_split_strong n : forall x y, (length x <= n)%nat ->
  valid_utf8 (x ++ y) = true -> starts_cont y = false ->
  valid_utf8 x = true /\ valid_utf8 y = true.
Proof.
  induction n as [|n IH]; intros x y Hl H Hy.
  { destruct x; [split; [reflexivity|exact H]|simpl in Hl; lia]. }
  destruct x as [|a x']; [split; [reflexivity|exact H]|].
  rewrite <- app_comm_cons in H. rewrite valid_utf8_unfold in H. rewrite (valid_utf8_unfold a x').
  simpl in Hl.
  destruct (a <? 128).
  { apply IH; [lia|exact H|exact Hy]. }
  destruct x' as [|b x1].
  { (* the first character would straddle the cut *)
    exfalso. cbn [app] in H. destruct y as [|b t1]; [discriminate|]. cbn [starts_cont] in Hy.
    destruct (in_range 194 223 a); [rewrite Hy in H; discriminate|].
    destruct t1 as [|c t2]; [discriminate|].
    destruct (in_range 224 239 a).
    { apply andb_true_iff in H. destruct H as [H _]. apply andb_true_iff in H. destruct H as [H _].
      apply cond3_cont in H. congruence. }
    destruct t2 as [|d t3]; [discriminate|].
    destruct (in_range 240 244 a); [|discriminate].
    apply andb_true_iff in H. destruct H as [H _]. apply andb_true_iff in H. destruct H as [H _].
    apply andb_true_iff in H. destruct H as [H _]. apply cond4_cont in H. congruence. }
  rewrite <- app_comm_cons in H. cbv beta iota in H |- *. simpl in Hl.
  destruct (in_range 194 223 a).
  { apply andb_true_iff in H. destruct H as [Hb H].
    destruct (IH x1 y) as [I1 I2]; [lia|exact H|exact Hy|]. rewrite Hb, I1. split; [reflexivity|exact I2]. }
  destruct x1 as [|c x2].
  { exfalso. cbn [app] in H. destruct y as [|c t2]; [discriminate|]. cbn [starts_cont] in Hy.
    destruct (in_range 224 239 a).
    { apply andb_true_iff in H. destruct H as [H _]. apply andb_true_iff in H. destruct H as [_ H].
      congruence. }
    destruct t2 as [|d t3]; [discriminate|].
    destruct (in_range 240 244 a); [|discriminate].
    apply andb_true_iff in H. destruct H as [H _]. apply andb_true_iff in H. destruct H as [H _].
    apply andb_true_iff in H. destruct H as [_ H]. congruence. }
  rewrite <- app_comm_cons in H. cbv beta iota in H |- *. simpl in Hl.
  destruct (in_range 224 239 a).
  { apply andb_true_iff in H. destruct H as [Hbc H].
    destruct (IH x2 y) as [I1 I2]; [lia|exact H|exact Hy|]. rewrite Hbc, I1. split; [reflexivity|exact I2]. }
  destruct x2 as [|d x3].
  { exfalso. cbn [app] in H. destruct y as [|d t3]; [discriminate|]. cbn [starts_cont] in Hy.
    destruct (in_range 240 244 a); [|discriminate].
    apply andb_true_iff in H. destruct H as [H _]. apply andb_true_iff in H. destruct H as [_ H].
    congruence. }
  rewrite <- app_comm_cons in H. cbv beta iota in H |- *. simpl in Hl.
  destruct (in_range 240 244 a); [|discriminate].
  apply andb_true_iff in H. destruct H as [Hbcd H].
  destruct (IH x3 y) as [I1 I2]; [lia|exact H|exact Hy|]. rewrite Hbcd, I1. split; [reflexivity|exact I2].
Qed.

Lemma valid_split x y : valid_utf8 (x ++ y) = true -> starts_cont y = false ->
  valid_utf8 x = true /\ valid_utf8 y = true.
Proof. apply (valid_split_strong (length x)). lia. Qed.

Lemma cb_lexed_valid toks s : cb_lexed toks s -> valid_utf8 s = true ->
  Forall (fun p : seg => valid_utf8 (fst (fst p)) = true /\ valid_utf8 (snd (fst p)) = true)
         (segments toks s).
Proof.
  induction 1 as [ws|ws b c rest ty toks H1 H2 Hl IH]; intros Hv.
  - rewrite segments_eof. constructor; [|constructor]. simpl. split; [exact Hv|reflexivity].
  - rewrite segments_tok.
    destruct (valid_split ws ((b :: c) ++ rest) Hv H1) as [Vw V1].
    destruct (valid_split (b :: c) rest V1 H2) as [Vc Vr].
    constructor; [simpl; split; assumption|]. apply IH. exact Vr.
Qed.

(* every blank run and every token content is a valid UTF-8 string of its own *)
Theorem lex_segments_valid_utf8 : forall s toks ws c ty, lex s = Some toks -> valid_utf8 s = true ->
  In (ws, c, ty) (segments toks s) -> valid_utf8 ws = true /\ valid_utf8 c = true.
Proof.
  intros s toks ws c ty H Hv Hin.
  pose proof (cb_lexed_valid toks s (lex_cb_lexed s toks H Hv) Hv) as HF.
  rewrite Forall_forall in HF. apply (HF _ Hin).
Qed.


Print Assumptions lex_total.
Print Assumptions lex_lossless.
Print Assumptions lex_fits.
Print Assumptions lex_eof_last_unique.
Print Assumptions lex_content_nonempty.
Print Assumptions lex_ws_blank.
Print Assumptions ident_end_avx2_eq_generic.
Print Assumptions get_word_token_type_lower.
Print Assumptions get_word_token_type_hash_eq.
Print Assumptions lex_char_boundaries.
Print Assumptions lex_segments_valid_utf8.
