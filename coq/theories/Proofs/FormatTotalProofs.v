(* Proofs/FormatTotalProofs.v — totality of the composed model (C01/C04, end to end).

   format_model returns an output for EVERY input and configuration unless the PARSER model stops with one of its
   explicit error values (format_total).  Of the error values of Model/Format.v:
     FE_lex_fuel            excluded: LexerProofs.lex_total
     FE_generics_fuel/panic excluded: GenericsProofs.generics_total (inside format_model_eq)
     FE_conddir_underflow   excluded HERE: every final line of the parser model has strictly increasing tokens
                            (r_lines_increasing: consolidate_pass_lines only keeps pass lines, which are kernel lines)
     FE_wrap_fuel           excluded HERE: the parent of a final line is an EARLIER line, by the way
                            consolidate_pass_lines maps parents (r_lines_parents_before), both consolidators and the
                            voiding keep the parents, and `parent earlier` is all the depth fuel of the search model needs
                            (olf_model_no_fuel_err_weak; WrapDepthProofs asked for parents_ok, which also wants the parent
                            token to be in the parent line and is FALSE after voiding: finding F41's lines)
     FE_unknown_stage, FE_shape, FE_no_reconstructor   excluded by computation on the generated stage list
     FE_parse e             REMAINS: E_fuel of the mutually recursive part of the grammar (fuel 64*(n+4), no termination
                            proof) and the panic sites line_parent_unwrap, anon_routine_unwrap, line_ref (the usize
                            subtractions are excluded in ParserGrammarProofs for increasing passes, but they surface
                            through the same error value). *)
From Coq Require Import Lia Sorted.
From PasfmtVerif Require Import Model.Format Proofs.FormatProofs Proofs.LexerProofs Proofs.DirectiveTreeProofs
  Proofs.ParserKernelProofs Proofs.ParserGrammarProofs Proofs.LineConsolidatorsProofs
  Proofs.WrapSearchProofs Proofs.WrapDepthProofs.
Local Open Scope nat_scope.

(* ------------------------------------------------------------------ *)
(* the lexer stage never fails *)
Lemma lex_segments_total s : exists segs, lex_segments s = Some segs.
Proof. unfold lex_segments. destruct (lex_total s) as [toks ->]. eexists; reflexivity. Qed.

(* ------------------------------------------------------------------ *)
(* two facts about the final lines of the parser model, for every input *)
Definition parents_before (lines : list lline) : Prop :=
  forall j l pl pt, nth_error lines j = Some l -> ll_parent l = Some (pl, pt) -> pl < j.

Lemma parents_before_ext a b : map ll_parent a = map ll_parent b -> parents_before a -> parents_before b.
Proof.
  intros E H j l pl pt Hj Hp.
  assert (Hm : nth_error (map ll_parent b) j = Some (Some (pl, pt))) by (rewrite nth_error_map, Hj; cbn; rewrite Hp; reflexivity).
  rewrite <- E, nth_error_map in Hm. destruct (nth_error a j) as [l0|] eqn:E0; [|discriminate].
  cbn in Hm. injection Hm as Hm. exact (H j l0 pl pt E0 Hm).
Qed.

Lemma index_of_line_range l : forall acc k i, index_of_line l acc k = Some i -> k <= i < k + length acc.
Proof.
  induction acc as [|a r IH]; intros k i H; cbn [index_of_line] in H; [discriminate|].
  destruct (lline_eqb l a); [injection H as <-; cbn [length]; lia|].
  specialize (IH (S k) i H). cbn [length]. lia.
Qed.

Lemma nat_list_eqb_eq : forall a b, nat_list_eqb a b = true -> a = b.
Proof.
  induction a as [|x a IH]; intros [|y b] H; cbn in H; try discriminate; [reflexivity|].
  apply andb_true_iff in H. destruct H as [H1 H2]. apply PeanoNat.Nat.eqb_eq in H1. subst y. f_equal. apply IH, H2.
Qed.

Lemma parent_eqb_eq a b : parent_eqb a b = true -> a = b.
Proof.
  destruct a as [[x1 y1]|], b as [[x2 y2]|]; cbn; intros H; try discriminate; [|reflexivity].
  apply andb_true_iff in H. destruct H as [H1 H2]. apply PeanoNat.Nat.eqb_eq in H1, H2. subst. reflexivity.
Qed.

Lemma index_of_line_parent l : forall acc k i, index_of_line l acc k = Some i ->
  exists a, nth_error acc (i - k) = Some a /\ ll_parent a = ll_parent l.
Proof.
  induction acc as [|a r IH]; intros k i H; cbn [index_of_line] in H; [discriminate|].
  destruct (lline_eqb l a) eqn:E.
  - injection H as <-. rewrite PeanoNat.Nat.sub_diag. exists a. split; [reflexivity|].
    unfold lline_eqb in E. repeat (apply andb_true_iff in E; destruct E as [E ?]).
    symmetry. apply parent_eqb_eq. assumption.
  - pose proof (index_of_line_range l r (S k) i H) as Hr. destruct (IH (S k) i H) as (a0 & Ha & Hp).
    exists a0. split; [|exact Hp]. replace (i - k) with (S (i - S k)) by lia. exact Ha.
Qed.

(* G: any property of token lists that all non-empty pass lines have *)
Section Consolidate.
Variable G : list nat -> Prop.

Definition cinv (st : list lline * list (option nat)) : Prop :=
  parents_before (fst st) /\ Forall (fun l => G (ll_toks l)) (fst st)
  /\ (forall j li, nth_error (snd st) j = Some (Some li) -> li < length (fst st)).

Lemma consolidate_step_inv st line :
  cinv st -> (ll_toks line <> [] -> G (ll_toks line)) -> cinv (consolidate_step st line).
Proof.
  destruct st as [acc mapped]. intros (P1 & T & P2) Hg. unfold consolidate_step. cbn [fst snd] in *.
  destruct (ll_toks line) as [|t0 ts] eqn:Et.
  - unfold cinv; cbn [fst snd]. split; [exact P1|]. split; [exact T|]. intros j li Hj.
    destruct (PeanoNat.Nat.lt_ge_cases j (length mapped)) as [Hlt|Hge].
    + rewrite nth_error_app1 in Hj by exact Hlt. exact (P2 j li Hj).
    + rewrite nth_error_app2 in Hj by exact Hge. destruct (j - length mapped) as [|n]; cbn in Hj; [discriminate|destruct n; discriminate].
  - set (parent := match ll_parent line with
                   | Some (pl, pt) => match nth_error mapped pl with Some (Some li) => Some (li, pt) | _ => None end
                   | None => None end).
    assert (Hpar : forall li pt, parent = Some (li, pt) -> li < length acc).
    { subst parent. intros li pt H. destruct (ll_parent line) as [[pl pt']|]; [|discriminate].
      destruct (nth_error mapped pl) as [[li'|]|] eqn:E; try discriminate. injection H as <- _. exact (P2 pl li' E). }
    set (line' := mkLine (ll_type line) (ll_level line) parent (t0 :: ts)).
    destruct (index_of_line line' acc 0) as [i|] eqn:Ei.
    + pose proof (index_of_line_range line' acc 0 i Ei) as Hr.
      unfold cinv; cbn [fst snd]. split; [exact P1|]. split; [exact T|]. intros j li Hj.
      destruct (PeanoNat.Nat.lt_ge_cases j (length mapped)) as [Hlt|Hge].
      * rewrite nth_error_app1 in Hj by exact Hlt. exact (P2 j li Hj).
      * rewrite nth_error_app2 in Hj by exact Hge. destruct (j - length mapped) as [|n]; cbn in Hj; [injection Hj as <-; lia|destruct n; discriminate].
    + unfold cinv; cbn [fst snd]. split; [|split].
      * intros j l pl pt Hj Hp.
        destruct (PeanoNat.Nat.lt_ge_cases j (length acc)) as [Hlt|Hge].
        -- rewrite nth_error_app1 in Hj by exact Hlt. exact (P1 j l pl pt Hj Hp).
        -- rewrite nth_error_app2 in Hj by exact Hge. destruct (j - length acc) as [|n] eqn:En; cbn in Hj; [|destruct n; discriminate].
           injection Hj as <-. cbn [ll_parent line'] in Hp. specialize (Hpar pl pt Hp). lia.
      * apply Forall_app. split; [exact T|]. constructor; [|constructor]. cbn [ll_toks line']. apply Hg. discriminate.
      * intros j li Hj. rewrite app_length. cbn [length].
        destruct (PeanoNat.Nat.lt_ge_cases j (length mapped)) as [Hlt|Hge].
        -- rewrite nth_error_app1 in Hj by exact Hlt. specialize (P2 j li Hj). lia.
        -- rewrite nth_error_app2 in Hj by exact Hge. destruct (j - length mapped) as [|n]; cbn in Hj; [injection Hj as <-; lia|destruct n; discriminate].
Qed.

Lemma consolidate_pass_lines_inv acc pl :
  parents_before acc -> Forall (fun l => G (ll_toks l)) acc ->
  (forall line, In line pl -> ll_toks line <> [] -> G (ll_toks line)) ->
  parents_before (consolidate_pass_lines acc pl) /\ Forall (fun l => G (ll_toks l)) (consolidate_pass_lines acc pl).
Proof.
  intros P T Hpl. unfold consolidate_pass_lines.
  assert (H : forall pl st, cinv st -> (forall line, In line pl -> ll_toks line <> [] -> G (ll_toks line)) -> cinv (fold_left consolidate_step pl st)).
  { clear. induction pl as [|line r IH]; intros st Hst Hg; [exact Hst|]. cbn [fold_left]. apply IH.
    - apply consolidate_step_inv; [exact Hst|]. apply Hg. left; reflexivity.
    - intros l Hl. apply Hg. right; exact Hl. }
  destruct (H pl (acc, []) ) as (A & B & _); [|exact Hpl|split; assumption].
  split; [exact P|]. split; [exact T|]. intros j li Hj. destruct j; discriminate.
Qed.
End Consolidate.

Lemma directive_lines_spec_all : forall toks i attr level l, In l (directive_lines toks i attr level) ->
  ll_parent l = None /\ exists t, ll_toks l = [t].
Proof.
  induction toks as [|t r IH]; intros i attr level l H; cbn [directive_lines] in H; [destruct H|].
  destruct (existsb (Nat.eqb i) attr); [exact (IH _ _ _ _ H)|].
  destruct t; try exact (IH _ _ _ _ H);
    repeat match type of H with
           | In _ (if ?c then _ else _) => destruct c
           | In _ (_ :: _) => destruct H as [<-|H]; [cbn; eauto|]
           end; exact (IH _ _ _ _ H).
Qed.

Lemma parse_passes_lines_inv wsnl : forall passes toks attr acc log,
  Forall increasing passes ->
  parents_before acc -> Forall (fun l => increasing (ll_toks l)) acc ->
  let r := parse_passes wsnl passes toks attr acc log in
  parents_before (r_lines r) /\ Forall (fun l => increasing (ll_toks l)) (r_lines r).
Proof.
  induction passes as [|pass rest IH]; intros toks attr acc log Hp P T; cbn [parse_passes].
  - cbn [r_lines]. apply consolidate_pass_lines_inv; [exact P|exact T|].
    intros line Hl _. destruct (directive_lines_spec_all _ _ _ _ _ Hl) as (_ & t & ->). repeat constructor.
  - inversion Hp as [|? ? Hp1 Hp2]; subst.
    destruct (ps_err pass (parse_pass pass wsnl toks attr)); [cbn [r_lines]; split; assumption|].
    match goal with |- context [consolidate_pass_lines acc ?pl] =>
      destruct (consolidate_pass_lines_inv (fun l => increasing l) acc pl P T) as (P' & T') end.
    { intros line Hl _. destruct (parse_pass_lines_wf pass wsnl toks attr Hp1) as (Hinc & _).
      rewrite Forall_forall in Hinc. apply Hinc. apply in_map. exact Hl. }
    apply IH; assumption.
Qed.

Theorem r_lines_wf toks wsnl :
  let r := parse_file_model toks wsnl in
  parents_before (r_lines r) /\ Forall (fun l => increasing (ll_toks l)) (r_lines r).
Proof.
  unfold parse_file_model, parse_file_with. apply parse_passes_lines_inv.
  - apply Forall_forall. intros p Hp. exact (proj1 (pass_sorted toks p Hp)).
  - intros j l pl pt Hj. destruct j; discriminate.
  - constructor.
Qed.

Corollary r_lines_parents_before toks wsnl : parents_before (r_lines (parse_file_model toks wsnl)).
Proof. exact (proj1 (r_lines_wf toks wsnl)). Qed.
Corollary r_lines_increasing toks wsnl : Forall (fun l => increasing (ll_toks l)) (r_lines (parse_file_model toks wsnl)).
Proof. exact (proj2 (r_lines_wf toks wsnl)). Qed.

(* ------------------------------------------------------------------ *)
(* the ConditionalDirectiveConsolidator cannot underflow on the parser's lines *)
Lemma increasing_nondecr_from : forall r a, increasing (a :: r) -> nondecr_from a r = true.
Proof.
  induction r as [|b r IH]; intros a H; [reflexivity|].
  apply StronglySorted_inv in H. destruct H as [Hr Ha]. cbn [nondecr_from].
  apply andb_true_iff. split; [apply PeanoNat.Nat.leb_le; inversion Ha; subst; lia|apply IH, Hr].
Qed.

Lemma increasing_nondecreasing l : increasing l -> nondecreasing l = true.
Proof. destruct l as [|a r]; [reflexivity|]. apply increasing_nondecr_from. Qed.

Theorem conddir_no_underflow tys toks wsnl : expand_all_chk tys (r_lines (parse_file_model toks wsnl)) <> None.
Proof.
  rewrite expand_all_chk_total; [discriminate|].
  apply forallb_forall. intros l Hl. apply increasing_nondecreasing.
  pose proof (r_lines_increasing toks wsnl) as H. rewrite Forall_forall in H. exact (H l Hl).
Qed.

(* ------------------------------------------------------------------ *)
(* the search model's fuel: `parent earlier` suffices *)
Lemma iparents_of_parents_before lines : parents_before lines -> iparents_ok_from 0 (map iline_of lines).
Proof.
  intros H j l p Hj Hp. rewrite nth_error_map in Hj. destruct (nth_error lines j) as [ll|] eqn:E; [|discriminate].
  injection Hj as <-. unfold iline_of in Hp. cbn [il_parent] in Hp. destruct (ll_parent ll) as [[pl pt]|] eqn:Ep; [|discriminate].
  injection Hp as <-. cbn [fst]. exact (H j ll pl pt E Ep).
Qed.

Lemma mk_lviews_wf_weak infos lines : parents_before lines -> views_wf (mk_lviews infos lines).
Proof.
  intros H i lv E. unfold mk_lviews in E.
  exact (mk_lviews_from_wf _ _ (line_children_later _ (iparents_of_parents_before lines H)) _ 0 i lv E).
Qed.

Lemma wrap_phase_no_fuel_err_weak W infos lines which st :
  parents_before lines -> noerr st -> noerr (wrap_phase W infos lines which st).
Proof.
  intros Hp Hst. unfold wrap_phase.
  pose proof (mk_lviews_wf_weak infos lines Hp) as Hwf. pose proof (mk_lviews_length infos lines) as Hlen.
  set (lvs := mk_lviews infos lines) in *. rewrite <- Hlen.
  assert (Hgen : forall l st0, (forall lv, In lv l -> exists i, nth_error lvs i = Some lv) -> noerr st0 ->
            noerr (fold_left (fun st1 lv => if which lv then format_top W lvs (main_fuel W) (S (length lvs)) st1 lv else st1) l st0)).
  { induction l as [|lv r IH]; intros st0 Hin H0; [exact H0|]. cbn [fold_left]. apply IH.
    - intros lv' H'. apply Hin. right; exact H'.
    - destruct (which lv); [|exact H0]. destruct (Hin lv (or_introl eq_refl)) as (i & Hi). eapply format_top_no_fuel_err; eassumption. }
  apply Hgen; [|exact Hst]. intros lv Hin. apply In_nth_error. exact Hin.
Qed.

Theorem olf_model_no_fuel_err_weak rs W format_ml lines l :
  parents_before lines -> snd (olf_model rs W format_ml lines l) = false.
Proof.
  intros Hp. unfold olf_model.
  assert (H1 : ss_fuel_err (wrap_phase1 W (map tokinfo_of l) lines) = false)
    by (apply wrap_phase_no_fuel_err_weak; [exact Hp|reflexivity]).
  destruct format_ml; [|cbn [snd]; exact H1].
  destruct (ml_lines rs lines lines 0 _ []) as [b refl].
  destruct (fold_left (fun acc x => insert_unique x acc) refl []) as [|x r]; [cbn [snd]; exact H1|].
  cbn [snd]. unfold wrap_phase2. apply wrap_phase_no_fuel_err_weak; [exact Hp|exact H1].
Qed.

(* the voiding keeps the parents *)
Lemma void_llines_parents marks lines : map ll_parent (void_llines marks lines) = map ll_parent lines.
Proof.
  unfold void_llines. destruct (existsb (fun b => b) marks); [|reflexivity].
  rewrite map_map. apply map_ext. intros l. destruct (forallb _ (ll_toks l)); reflexivity.
Qed.

(* ... so the lines the wrapper gets have their parents earlier, for every input *)
Theorem fm_lines_parents_before segs : parents_before (fm_lines segs).
Proof.
  unfold fm_lines, fm_lines0, fm_lines_cd.
  eapply parents_before_ext; [symmetry; apply void_llines_parents|].
  eapply parents_before_ext; [symmetry; apply (proj1 (proj2 (proj2 (deindent_only_levels _ _))))|].
  eapply parents_before_ext; [symmetry; apply (proj1 (conddir_std_parents_unchanged _ _))|].
  apply r_lines_parents_before.
Qed.

Theorem fm_wrap_never_out_of_fuel alnum cfg segs : fm_wrap_ok alnum cfg segs.
Proof. apply olf_model_no_fuel_err_weak, fm_lines_parents_before. Qed.

Theorem fm_conddir_never_underflows segs : fm_conddir_ok segs.
Proof. apply conddir_no_underflow. Qed.

(* ------------------------------------------------------------------ *)
(* TOTALITY *)
Theorem format_total alnum cfg s :
  (exists out, format_model alnum cfg s = inl out) \/ (exists pe, format_model alnum cfg s = inr (FE_parse pe)).
Proof.
  rewrite format_model_eq. destruct (lex_segments_total s) as [segs ->].
  destruct (r_err (fm_parse segs)) as [pe|]; [right; eauto|]. left.
  pose proof (fm_conddir_never_underflows segs) as H2. unfold fm_conddir_ok in H2.
  destruct (expand_all_chk _ _); [|contradiction].
  rewrite (fm_wrap_never_out_of_fuel alnum cfg segs). eauto.
Qed.

(* the only hypothesis left: the parser model ends without error on the lexed input *)
Theorem format_total_if_parsed alnum cfg s segs :
  lex_segments s = Some segs -> fm_parse_ok segs -> format_model alnum cfg s = inl (fm_out alnum cfg segs).
Proof.
  intros Hl Hp. apply format_model_spec. exists segs. repeat split; try assumption.
  - apply fm_conddir_never_underflows.
  - apply fm_wrap_never_out_of_fuel.
Qed.

(* and the parser error is the parser model's own: no other stage can make the composition fail *)
Corollary format_fails_only_in_parser alnum cfg s e :
  format_model alnum cfg s = inr e ->
  exists segs pe, lex_segments s = Some segs /\ r_err (fm_parse segs) = Some pe /\ e = FE_parse pe.
Proof.
  rewrite format_model_eq. destruct (lex_segments_total s) as [segs ->].
  destruct (r_err (fm_parse segs)) as [pe|] eqn:E; [intros [= <-]; eauto|].
  pose proof (fm_conddir_never_underflows segs) as H2. unfold fm_conddir_ok in H2.
  destruct (expand_all_chk _ _); [|contradiction].
  rewrite (fm_wrap_never_out_of_fuel alnum cfg segs). discriminate.
Qed.

(* non-vacuity of format_total_if_parsed, and F41's shape: the parent line is voided (its tokens lie in a
   `pasfmt off` region), parents_ok fails on the lines the wrapper gets, parents_before holds *)
Example f41_lines_not_parents_ok :
  let s := [98;101;103;105;110;10; 123;112;97;115;102;109;116;32;111;102;102;125; 70;40;112;114;111;99;101;100;117;114;101;32;98;101;103;105;110;
            123;112;97;115;102;109;116;32;111;110;125;10; 88;59;10; 123;112;97;115;102;109;116;32;111;102;102;125; 101;110;100;41;59;
            123;112;97;115;102;109;116;32;111;110;125;10; 101;110;100;59]%N in
  (* begin\n{pasfmt off}F(procedure begin{pasfmt on}\nX;\n{pasfmt off}end);{pasfmt on}\nend; *)
  match lex_segments s with
  | Some segs => fm_parse_ok segs /\ parents_ok (fm_lines0 segs) = true /\ parents_ok (fm_lines segs) = false
  | None => False
  end.
Proof. vm_compute. repeat split; reflexivity. Qed.

Print Assumptions format_total.
Print Assumptions format_fails_only_in_parser.
