(* Proofs/WrapWidthFree.v — the width-free search: the search of Model/WrapSearch.v with its two comparisons against
   max_line_length taken as false (no over-length penalty for a continuing token, no return to the indifference point
   because a line got too long).  It is a device for the proofs, not a model of the Rust:
     Proofs/WrapSimProofs.v            the width-free search does not depend on any length (indentation string lengths,
                                       spaces, token lengths, multi-line lengths): solve_inf_sim;
     Proofs/WrapUnconstrainedProofs.v  when max_line_length bounds everything the search can measure, the search IS the
                                       width-free search: solve_is_inf.
   Everything else (contexts, requirements, heap, child lines, cache, measured lengths) is the model's own code. *)
From PasfmtVerif Require Export Model.WrapSearch Model.WrapFormat.

Section WidthFree.
Variable W : wsettings.
Variable lvs : list lview.
Variable fmain : nat.
Variable child_solve : sst -> lview -> N * N -> first_decision -> sst * option solution.
Variable lv : lview.

(* decision_penalty with `line_length > max_line_length` false *)
Definition decision_penalty_inf (r : trec) (li : N) (is_break : bool) : N :=
  if is_break then break_penalty (lv_type lv) (tr_fprev r) (tr_stk r) li else 0.

Definition potential_inf (st : sst) (nd : node) (is_break : bool) : sst * list node :=
  match n_rest nd with
  | [] => (st, [])
  | r :: rest =>
      let li := n_nli nd in
      let stk := tr_stk r in
      let d := update_contexts (lv_type lv) (tr_win r) (tr_ty r) stk li is_break (n_data nd) in
      let cc := get_continuation_count stk d li in
      let dec := if is_break then WBreak cc else WContinue in
      let tll := token_line_length' W (n_ws nd) (n_decs nd) dec r in
      let pen := n_pen nd + decision_penalty_inf r li is_break in
      let (st, sols) := child_lines_solutions W lvs child_solve st (lv_idx lv) r (lv_gtoks lv) li (n_ws nd) (n_decs nd) d li tll cc in
      (st, map (fun kids : list (nat * solution) =>
                  let d := update_from_children stk li kids d in
                  let pen := fold_left (fun a (ks : nat * solution) => a + sol_pen (snd ks)) kids pen in
                  mkNode (n_ws nd) (TDec dec tll kids :: n_decs nd) (N.succ li) rest d pen) sols)
  end.

Definition both_inf (st : sst) (ind : node) : sst * list node :=
  let (st, a) := potential_inf st ind true in
  let (st, b) := potential_inf st ind false in
  (st, a ++ b).

(* walk_step with `last_line_length > max_line_length` false *)
Definition walk_step_inf (nd : node) (indiff : option node) (best : list N) (st : sst) : wstep * list N * sst :=
  match n_rest nd with
  | [] => (WS_stop (W_push nd), best, st)
  | r :: _ =>
      let req := get_formatting_requirement (lv_type lv) (tr_win r) (tr_ty r) (tr_inv r) (tr_stk r) (n_data nd) (n_nli nd) in
      let after (succ : list node) (indiff' : option node) (st : sst) :=
        match succ with
        | [n] => (WS_forward n indiff', best, st)
        | _ => match indiff' with
               | Some ind => let (st, more) := both_inf st ind in (finish (succ ++ more), best, st)
               | None => (finish succ, best, st)
               end
        end in
      match req with
      | DR_Invalid =>
          match indiff with
          | Some ind => let (st, succ) := both_inf st ind in (finish succ, best, st)
          | None => (WS_stop W_dead, best, st)
          end
      | DR_MustBreak =>
          let (st, sols) := potential_inf st nd true in
          let li := N.to_nat (n_nli nd) in
          let '(best, kept) :=
            fold_left (fun (acc : list N * list node) (n : node) =>
                         if n_pen n <? best_at (fst acc) li then (upd_at li (fun _ => n_pen n) (fst acc), snd acc ++ [n]) else acc)
                      sols (best, []) in
          (finish kept, best, st)
      | DR_MustNotBreak =>
          let (st, succ) := potential_inf st nd false in after succ indiff st
      | DR_Indifferent =>
          let indiff' := match indiff with Some _ => indiff | None => Some nd end in
          let (st, succ) := potential_inf st nd false in after succ indiff' st
      end
  end.

Fixpoint walk_inf (f1 : nat) : nat -> node -> option node -> list N -> sst -> walk_res * list N * sst :=
  fix inner (f2 : nat) (nd : node) (indiff : option node) (best : list N) (st : sst) {struct f2} : walk_res * list N * sst :=
    match f2 with
    | O => (W_fuel, best, st)
    | S f2' =>
        let '(s, best, st) := walk_step_inf nd indiff best st in
        match s with
        | WS_stop r => (r, best, st)
        | WS_forward n i => inner f2' n i best st
        | WS_restart n =>
            match f1 with
            | O => (W_fuel, best, st)
            | S f1' => walk_inf f1' (S (length (n_rest n))) n None best st
            end
        end
    end.

Fixpoint main_loop_inf (fuel : nat) (h : heap) (iter : N) (best : list N) (st : sst) : sst * sres :=
  match fuel with
  | O => (sst_err st, SR_fuel)
  | S f =>
      match heap_pop h with
      | None => (sst_log (Ev_S (lv_idx lv) (WS_none iter)) st, SR_none)
      | Some (nd, h) =>
          if w_iter W <? iter then (sst_log (Ev_S (lv_idx lv) (WS_limit iter)) st, SR_limit)
          else
            let iter := iter + 1 in
            match n_rest nd with
            | [] =>
                let s := solution_of_node nd in
                (sst_log (Ev_S (lv_idx lv) (WS_ok (sol_pen s) iter (sol_len s))) st, SR_ok s)
            | _ :: _ =>
                if best_at best (N.to_nat (N.pred (n_nli nd))) <? n_pen nd then main_loop_inf f h iter best st
                else
                  let fuel := S (length (n_rest nd)) in
                  let '(res, best, st) := walk_inf fuel fuel nd None best st in
                  match res with
                  | W_push n => main_loop_inf f (heap_push n h) iter best st
                  | W_extend l => main_loop_inf f (heap_extend l h) iter best st
                  | W_dead => main_loop_inf f h iter best st
                  | W_fuel => (sst_err st, SR_fuel)
                  end
            end
      end
  end.

Definition find_optimal_solution_inf (st : sst) (ws : N * N) (first : first_decision) : sst * sres :=
  match lv_recs lv with
  | [] => (st, SR_ok (Sol (fst ws) (snd ws) [] 0 0))
  | r :: rest =>
      let inv := tr_inv r in
      let '(is_break, lll, base_can_break) :=
        match first with
        | FD_Break =>
            if inv IS Some DR_MustNotBreak then (false, match tr_ml r with Some l => l | None => tr_sp r + tr_len r end, true)
            else (true, match tr_ml r with Some l => l | None => lws_len W ws + tr_len r end, true)
        | FD_Continue line_length can_break =>
            (false, match tr_ml r with Some l => l | None => line_length + tr_sp r + tr_len r end, can_break)
        end in
      if (inv IS Some DR_MustBreak) && negb is_break then (st, SR_none)
      else
        let dec := if is_break then WBreak 0 else WContinue in
        let d0 := dt_upd xH (fun s => mkSt (s_broken s) base_can_break (s_child s) (s_oepl s) (s_bar s)) PLeaf in
        let pen := decision_penalty_inf r 0 is_break in
        let (st, sols) := child_lines_solutions W lvs child_solve st (lv_idx lv) r [] 0 ws [TDec dec lll []] d0 1 lll 0 in
        let kids := match last_opt' sols with Some k => k | None => [] end in
        let nd := mkNode ws [TDec dec lll kids] 1 rest d0 pen in
        let h := heap_extend (map (fun _ => nd) sols) heap_empty in
        main_loop_inf fmain h 0 (repeat u64_max (length (lv_recs lv))) st
  end.
End WidthFree.

Fixpoint solve_inf (W : wsettings) (lvs : list lview) (fmain : nat) (depth : nat) (st : sst) (lv : lview) (ws : N * N) (fd : first_decision)
    : sst * option solution :=
  match depth with
  | O => (sst_err st, None)
  | S k =>
      let (st, r) := find_optimal_solution_inf W lvs fmain (solve_inf W lvs fmain k) lv st ws fd in
      (st, match r with SR_ok s => Some s | _ => None end)
  end.
