(* Proofs/ToggleProofs.v — properties of Model/Toggle.v
   (core/src/rules/formatting_toggle.rs, ignore_asm_instructions.rs) *)
From PasfmtVerif Require Import Model.Toggle.

(* ------------------------------------------------------------------ *)
(* 0. list helpers *)

Lemma skipn_app_len {A} (p r : list A) : skipn (length p) (p ++ r) = r.
Proof. induction p as [|a p IH]; [reflexivity|exact IH]. Qed.

Lemma firstn_app_len {A} (p r : list A) : firstn (length p) (p ++ r) = p.
Proof. induction p as [|a p IH]; [reflexivity|]. cbn [length app firstn]. f_equal. exact IH. Qed.

Lemma firstn_map' {A B} (f : A -> B) n l : firstn n (map f l) = map f (firstn n l).
Proof. revert l; induction n as [|n IH]; intros [|a l]; try reflexivity. cbn [map firstn]. f_equal. apply IH. Qed.

Lemma skipn_map' {A B} (f : A -> B) n l : skipn n (map f l) = map f (skipn n l).
Proof. revert l; induction n as [|n IH]; intros [|a l]; try reflexivity. cbn [map skipn]. apply IH. Qed.

(* "the scan stops here": the rest is empty or starts with a byte that fails p *)
Definition stops {A} (p : A -> bool) (y : list A) : Prop :=
  match y with [] => True | b :: _ => p b = false end.

Lemma count_while_app_stop {A} (p : A -> bool) (x y : list A) :
  forallb p x = true -> stops p y -> count_while p (x ++ y) = length x.
Proof.
  intros Hx Hy. induction x as [|a x IH].
  - destruct y as [|b y]; [reflexivity|]. cbn [app count_while]. cbn [stops] in Hy. rewrite Hy. reflexivity.
  - cbn [forallb] in Hx. apply andb_true_iff in Hx as [Ha Hx].
    cbn [app count_while length]. rewrite Ha. f_equal. apply IH, Hx.
Qed.

Lemma count_while_skipn_stops {A} (p : A -> bool) (l : list A) : stops p (skipn (count_while p l) l).
Proof.
  induction l as [|a t IH]; [exact I|]. cbn [count_while]. destruct (p a) eqn:E; [exact IH|].
  cbn [skipn stops]. exact E.
Qed.

Lemma count_while_map {A} (p : A -> bool) (f : A -> A) (l : list A) :
  (forall b, p (f b) = p b) -> count_while p (map f l) = count_while p l.
Proof.
  intros H. induction l as [|a t IH]; [reflexivity|]. cbn [map count_while]. rewrite H, IH. reflexivity.
Qed.

Lemma strip_prefix_b_some p l c : strip_prefix_b p l = Some c -> l = p ++ c.
Proof.
  unfold strip_prefix_b. destruct (is_prefix p l) eqn:E; [|discriminate].
  intros H. injection H as <-. apply is_prefix_spec in E as [r ->]. rewrite skipn_app_len. reflexivity.
Qed.

Lemma strip_prefix_b_app p r : strip_prefix_b p (p ++ r) = Some r.
Proof.
  unfold strip_prefix_b. assert (E : is_prefix p (p ++ r) = true) by (apply is_prefix_spec; exists r; reflexivity).
  rewrite E, skipn_app_len. reflexivity.
Qed.

(* ------------------------------------------------------------------ *)
(* 1. the comment opener *)

Definition is_opener (pre : bytes) : Prop := pre = [47; 47] \/ pre = [40; 42] \/ pre = [123].

Notation contents := parse_pasfmt_directive_comment_contents.

Lemma parse_toggle_inv c t :
  parse_toggle c = Some t -> exists pre body, is_opener pre /\ c = pre ++ body /\ contents body = Some t.
Proof.
  unfold parse_toggle.
  destruct (strip_prefix_b [47; 47] c) as [b1|] eqn:E1.
  { intros H. exists [47; 47], b1. split; [left; reflexivity|]. split; [apply strip_prefix_b_some, E1|exact H]. }
  destruct (strip_prefix_b [40; 42] c) as [b2|] eqn:E2.
  { intros H. exists [40; 42], b2. split; [right; left; reflexivity|]. split; [apply strip_prefix_b_some, E2|exact H]. }
  destruct (strip_prefix_b [123] c) as [b3|] eqn:E3; [|discriminate].
  intros H. exists [123], b3. split; [right; right; reflexivity|]. split; [apply strip_prefix_b_some, E3|exact H].
Qed.

Lemma parse_toggle_opener pre body : is_opener pre -> parse_toggle (pre ++ body) = contents body.
Proof.
  intros [-> | [-> | ->]]; unfold parse_toggle.
  - rewrite strip_prefix_b_app. reflexivity.
  - assert (E : strip_prefix_b [47; 47] ([40; 42] ++ body) = None).
    { unfold strip_prefix_b. cbn [app is_prefix]. change (47 =? 40) with false. reflexivity. }
    rewrite E, strip_prefix_b_app. reflexivity.
  - assert (E1 : strip_prefix_b [47; 47] ([123] ++ body) = None).
    { unfold strip_prefix_b. cbn [app is_prefix]. change (47 =? 123) with false. reflexivity. }
    assert (E2 : strip_prefix_b [40; 42] ([123] ++ body) = None).
    { unfold strip_prefix_b. cbn [app is_prefix]. change (40 =? 123) with false. reflexivity. }
    rewrite E1, E2, strip_prefix_b_app. reflexivity.
Qed.

(* B1 *)
Theorem parse_toggle_prefix c t :
  parse_toggle c = Some t ->
  exists r, c = [47; 47] ++ r \/ c = [40; 42] ++ r \/ c = [123] ++ r.
Proof.
  intros H. destruct (parse_toggle_inv c t H) as (pre & body & Hp & -> & _). exists body.
  destruct Hp as [-> | [-> | ->]]; auto.
Qed.

(* ------------------------------------------------------------------ *)
(* 2. soundness and completeness of the parser *)

Definition toggle_word (t : toggle) : bytes :=
  match t with TOn => [111; 110] | TOff => [111; 102; 102] end.

Lemma parse_pasfmt_toggle_sound input t :
  parse_pasfmt_toggle input = Some t ->
  exists word rest, input = word ++ rest /\ forallb is_alnum word = true /\ stops is_alnum rest
                    /\ lower word = toggle_word t.
Proof.
  unfold parse_pasfmt_toggle. intros H.
  exists (firstn (count_while is_alnum input) input), (skipn (count_while is_alnum input) input).
  split; [symmetry; apply firstn_skipn|]. split; [apply count_while_firstn|].
  split; [apply count_while_skipn_stops|].
  destruct (bytes_eqb (lower (firstn (count_while is_alnum input) input)) [111; 110]) eqn:E1.
  - injection H as <-. apply bytes_eqb_eq, E1.
  - destruct (bytes_eqb (lower (firstn (count_while is_alnum input) input)) [111; 102; 102]) eqn:E2; [|discriminate].
    injection H as <-. apply bytes_eqb_eq, E2.
Qed.

Lemma parse_pasfmt_toggle_complete word rest t :
  forallb is_alnum word = true -> stops is_alnum rest -> lower word = toggle_word t ->
  parse_pasfmt_toggle (word ++ rest) = Some t.
Proof.
  intros Hw Hr Hl. unfold parse_pasfmt_toggle.
  assert (C : count_while is_alnum (word ++ rest) = length word) by (apply count_while_app_stop; assumption).
  rewrite C, firstn_app_len, Hl.
  destruct t; reflexivity.
Qed.

Lemma lower_pasfmt_word : lower pasfmt_word = pasfmt_word.
Proof. reflexivity. Qed.

Lemma lower_length l : length (lower l) = length l.
Proof. apply map_length. Qed.

(* the shape of a toggle comment's text after the opener *)
Definition toggle_shape (body : bytes) (t : toggle) : Prop :=
  exists ws1 w ws2 word rest,
    body = ws1 ++ w ++ ws2 ++ word ++ rest /\
    forallb is_ascii_ws ws1 = true /\
    lower w = pasfmt_word /\
    ws2 <> [] /\ forallb is_ascii_ws ws2 = true /\
    forallb is_alnum word = true /\ stops is_alnum rest /\
    lower word = toggle_word t.

Lemma contents_sound body t : contents body = Some t -> toggle_shape body t.
Proof.
  unfold parse_pasfmt_directive_comment_contents.
  set (n1 := count_while is_ascii_ws body).
  destruct (strip_prefix_icase (skipn n1 body) pasfmt_word) as [c3|] eqn:E3; [|discriminate].
  unfold strip_prefix_icase in E3.
  destruct (starts_with_icase (skipn n1 body) pasfmt_word) eqn:Es; [|discriminate].
  assert (E3' : skipn (length pasfmt_word) (skipn n1 body) = c3) by (injection E3 as E3; exact E3).
  clear E3. rename E3' into E3. unfold starts_with_icase in Es. apply andb_true_iff in Es as [_ Heq].
  apply bytes_eqb_eq in Heq. rewrite lower_pasfmt_word in Heq.
  destruct (count_while is_ascii_ws c3) as [|n2] eqn:E2; [discriminate|].
  intros H. destruct (parse_pasfmt_toggle_sound _ _ H) as (word & rest & Hc4 & Hw & Hr & Hl).
  exists (firstn n1 body), (firstn (length pasfmt_word) (skipn n1 body)), (firstn (S n2) c3), word, rest.
  split.
  { rewrite <- Hc4, (firstn_skipn (S n2) c3), <- E3. rewrite (firstn_skipn (length pasfmt_word)), (firstn_skipn n1). reflexivity. }
  split; [apply count_while_firstn|]. split; [exact Heq|].
  split.
  { pose proof (count_while_le is_ascii_ws c3) as Hle. rewrite E2 in Hle.
    destruct c3 as [|a c3']; [cbn [length] in Hle; lia|]. cbn [firstn]. discriminate. }
  split; [rewrite <- E2; apply count_while_firstn|].
  split; [exact Hw|]. split; [exact Hr|exact Hl].
Qed.

(* case mapping does not change the character classes the parser tests *)
Lemma upper_range b : is_upper b = true -> 65 <= b <= 90.
Proof. unfold is_upper. intros H. apply andb_true_iff in H as [H1 H2]. apply N.leb_le in H1, H2. lia. Qed.

Lemma is_ascii_ws_range b : is_ascii_ws b = true -> b <= 32.
Proof.
  unfold is_ascii_ws. intros H. repeat (apply orb_true_iff in H as [H|H]); apply N.eqb_eq in H; lia.
Qed.

Lemma is_ascii_ws_lower b : is_ascii_ws (to_lower b) = is_ascii_ws b.
Proof.
  unfold to_lower. destruct (is_upper b) eqn:E; [|reflexivity]. apply upper_range in E.
  destruct (is_ascii_ws (b + 32)) eqn:E1; [apply is_ascii_ws_range in E1; lia|].
  destruct (is_ascii_ws b) eqn:E2; [apply is_ascii_ws_range in E2; lia|reflexivity].
Qed.

Lemma is_alnum_lower b : is_alnum (to_lower b) = is_alnum b.
Proof.
  unfold to_lower. destruct (is_upper b) eqn:E; [|reflexivity].
  unfold is_alnum, is_alpha. rewrite E. cbn [orb]. apply upper_range in E.
  assert (H : is_lower (b + 32) = true).
  { unfold is_lower. apply andb_true_iff. split; apply N.leb_le; lia. }
  rewrite H, orb_true_r. reflexivity.
Qed.

Lemma is_alnum_range b : is_alnum b = true -> 48 <= b.
Proof.
  unfold is_alnum, is_alpha, is_upper, is_lower, is_digit. intros H.
  repeat (apply orb_true_iff in H as [H|H]); apply andb_true_iff in H as [H _]; apply N.leb_le in H; lia.
Qed.

Lemma alnum_not_ws b : is_alnum b = true -> is_ascii_ws b = false.
Proof.
  intros H. apply is_alnum_range in H. destruct (is_ascii_ws b) eqn:E; [|reflexivity].
  apply is_ascii_ws_range in E. lia.
Qed.

Lemma contents_complete body t : toggle_shape body t -> contents body = Some t.
Proof.
  intros (ws1 & w & ws2 & word & rest & -> & H1 & Hw & Hne & H2 & Ha & Hr & Hl).
  unfold parse_pasfmt_directive_comment_contents.
  assert (Hlen : length w = length pasfmt_word) by (rewrite <- Hw; symmetry; apply lower_length).
  (* the first whitespace run stops at the 'p' *)
  assert (S1 : stops is_ascii_ws (w ++ ws2 ++ word ++ rest)).
  { destruct w as [|b w']; [discriminate Hlen|]. cbn [app stops].
    rewrite <- is_ascii_ws_lower. unfold lower in Hw. cbn [map] in Hw. unfold pasfmt_word in Hw.
    injection Hw as Hb _. rewrite Hb. reflexivity. }
  assert (C1 : count_while is_ascii_ws (ws1 ++ w ++ ws2 ++ word ++ rest) = length ws1)
    by (apply count_while_app_stop; assumption).
  rewrite C1, skipn_app_len.
  assert (Es : strip_prefix_icase (w ++ ws2 ++ word ++ rest) pasfmt_word = Some (ws2 ++ word ++ rest)).
  { unfold strip_prefix_icase, starts_with_icase. rewrite <- Hlen, firstn_app_len, skipn_app_len, Hw.
    rewrite app_length.
    assert (Hle : Nat.leb (length w) (length w + length (ws2 ++ word ++ rest)) = true) by (apply Nat.leb_le; lia).
    rewrite Hle. reflexivity. }
  rewrite Es.
  (* the second whitespace run stops at the word *)
  assert (S2 : stops is_ascii_ws (word ++ rest)).
  { destruct word as [|b word']; [destruct t; discriminate Hl|]. cbn [app stops].
    cbn [forallb] in Ha. apply andb_true_iff in Ha as [Hb _]. apply alnum_not_ws, Hb. }
  assert (C2 : count_while is_ascii_ws (ws2 ++ word ++ rest) = length ws2)
    by (apply count_while_app_stop; assumption).
  rewrite C2.
  destruct ws2 as [|a ws2']; [contradiction Hne; reflexivity|].
  cbn [length]. change (S (length ws2')) with (length (a :: ws2')). rewrite skipn_app_len.
  apply parse_pasfmt_toggle_complete; assumption.
Qed.

Theorem contents_iff body t : contents body = Some t <-> toggle_shape body t.
Proof. split; [apply contents_sound|apply contents_complete]. Qed.

Lemma forallb_Forall' {A} (f : A -> bool) l : forallb f l = true <-> Forall (fun a => f a = true) l.
Proof.
  induction l as [|a t IH]; [split; [constructor|reflexivity]|]. cbn [forallb]. rewrite andb_true_iff, IH.
  split; [intros [H1 H2]; constructor; assumption|intros H; inversion H; subst; split; assumption].
Qed.

Lemma stops_iff {A} (p : A -> bool) (rest : list A) : stops p rest <-> (rest = [] \/ exists b r, rest = b :: r /\ p b = false).
Proof.
  destruct rest as [|b r]; cbn [stops].
  - split; [left; reflexivity|trivial].
  - split; [intros H; right; exists b, r; split; [reflexivity|exact H]|].
    intros [H|(b' & r' & H & Hb)]; [discriminate|]. injection H as -> ->. exact Hb.
Qed.

(* the shape with Forall conditions, as a stand-alone predicate on the whole comment text *)
Definition toggle_comment_shape (c : bytes) (t : toggle) : Prop :=
  exists pre ws1 w ws2 word rest,
    c = pre ++ ws1 ++ w ++ ws2 ++ word ++ rest /\
    is_opener pre /\
    Forall (fun b => is_ascii_ws b = true) ws1 /\
    length w = 6%nat /\ lower w = pasfmt_word /\
    ws2 <> [] /\ Forall (fun b => is_ascii_ws b = true) ws2 /\
    Forall (fun b => is_alnum b = true) word /\
    (rest = [] \/ exists b r, rest = b :: r /\ is_alnum b = false) /\
    lower word = toggle_word t.

(* B2 *)
Theorem parse_toggle_sound c t : parse_toggle c = Some t -> toggle_comment_shape c t.
Proof.
  intros H. destruct (parse_toggle_inv c t H) as (pre & body & Hp & -> & Hc).
  destruct (contents_sound body t Hc) as (ws1 & w & ws2 & word & rest & -> & H1 & Hw & Hne & H2 & Ha & Hr & Hl).
  exists pre, ws1, w, ws2, word, rest.
  split; [reflexivity|]. split; [exact Hp|]. split; [apply forallb_Forall', H1|].
  split; [rewrite <- (lower_length w), Hw; reflexivity|]. split; [exact Hw|]. split; [exact Hne|].
  split; [apply forallb_Forall', H2|]. split; [apply forallb_Forall', Ha|].
  split; [apply stops_iff, Hr|exact Hl].
Qed.

Theorem parse_toggle_complete c t : toggle_comment_shape c t -> parse_toggle c = Some t.
Proof.
  intros (pre & ws1 & w & ws2 & word & rest & -> & Hp & H1 & _ & Hw & Hne & H2 & Ha & Hr & Hl).
  rewrite (parse_toggle_opener pre _ Hp). apply contents_complete.
  exists ws1, w, ws2, word, rest. split; [reflexivity|].
  split; [apply forallb_Forall', H1|]. split; [exact Hw|]. split; [exact Hne|].
  split; [apply forallb_Forall', H2|]. split; [apply forallb_Forall', Ha|].
  split; [apply stops_iff, Hr|exact Hl].
Qed.

Theorem parse_toggle_iff c t : parse_toggle c = Some t <-> toggle_comment_shape c t.
Proof. split; [apply parse_toggle_sound|apply parse_toggle_complete]. Qed.

(* ------------------------------------------------------------------ *)
(* 3. case insensitivity: parse_toggle factors through ASCII lower-casing of the WHOLE text *)

Lemma firstn_lower n x : firstn n (lower x) = lower (firstn n x).
Proof. apply firstn_map'. Qed.

Lemma skipn_lower n x : skipn n (lower x) = lower (skipn n x).
Proof. apply skipn_map'. Qed.

Lemma count_while_ws_lower x : count_while is_ascii_ws (lower x) = count_while is_ascii_ws x.
Proof. apply count_while_map, is_ascii_ws_lower. Qed.

Lemma count_while_alnum_lower x : count_while is_alnum (lower x) = count_while is_alnum x.
Proof. apply count_while_map, is_alnum_lower. Qed.

Lemma parse_pasfmt_toggle_lower x : parse_pasfmt_toggle (lower x) = parse_pasfmt_toggle x.
Proof.
  unfold parse_pasfmt_toggle. rewrite count_while_alnum_lower, firstn_lower, lower_idem. reflexivity.
Qed.

Lemma starts_with_icase_lower x p : starts_with_icase (lower x) p = starts_with_icase x p.
Proof.
  unfold starts_with_icase. rewrite lower_length, firstn_lower, lower_idem. reflexivity.
Qed.

Lemma strip_prefix_icase_lower x p : strip_prefix_icase (lower x) p = option_map lower (strip_prefix_icase x p).
Proof.
  unfold strip_prefix_icase. rewrite starts_with_icase_lower.
  destruct (starts_with_icase x p); [|reflexivity]. cbn [option_map]. rewrite skipn_lower. reflexivity.
Qed.

Theorem contents_lower x : contents (lower x) = contents x.
Proof.
  unfold parse_pasfmt_directive_comment_contents.
  rewrite count_while_ws_lower, skipn_lower, strip_prefix_icase_lower.
  destruct (strip_prefix_icase (skipn (count_while is_ascii_ws x) x) pasfmt_word) as [c3|]; [|reflexivity].
  cbn [option_map]. rewrite count_while_ws_lower.
  destruct (count_while is_ascii_ws c3) as [|n]; [reflexivity|].
  rewrite skipn_lower. apply parse_pasfmt_toggle_lower.
Qed.

(* bytes that ASCII case mapping can neither produce nor change *)
Definition caseless (a : byte) : Prop := a < 65 \/ 122 < a.

Lemma eqb_to_lower_caseless a b : caseless a -> (a =? to_lower b) = (a =? b).
Proof.
  intros Ha. unfold to_lower. destruct (is_upper b) eqn:E; [|reflexivity]. apply upper_range in E.
  unfold caseless in Ha.
  transitivity false; [apply N.eqb_neq; lia|symmetry; apply N.eqb_neq; lia].
Qed.

Lemma is_prefix_lower p c : Forall caseless p -> is_prefix p (lower c) = is_prefix p c.
Proof.
  intros Hp. revert c. induction Hp as [|a p Ha Hp IH]; intros c; [reflexivity|].
  destruct c as [|b c]; [reflexivity|]. cbn [lower map is_prefix]. fold (lower c).
  rewrite (eqb_to_lower_caseless a b Ha), IH. reflexivity.
Qed.

Lemma strip_prefix_b_lower p c :
  Forall caseless p -> strip_prefix_b p (lower c) = option_map lower (strip_prefix_b p c).
Proof.
  intros Hp. unfold strip_prefix_b. rewrite (is_prefix_lower p c Hp).
  destruct (is_prefix p c); [|reflexivity]. cbn [option_map]. rewrite skipn_lower. reflexivity.
Qed.

Lemma caseless_openers : Forall caseless [47; 47] /\ Forall caseless [40; 42] /\ Forall caseless [123].
Proof. unfold caseless. repeat split; repeat constructor; lia. Qed.

(* B3, strongest form: lower-casing every byte of the comment (the opener bytes are not letters, so
   they are unchanged) never changes the result; hence the result depends on `lower c` only *)
Theorem parse_toggle_lower c : parse_toggle (lower c) = parse_toggle c.
Proof.
  destruct caseless_openers as (C1 & C2 & C3). unfold parse_toggle.
  rewrite (strip_prefix_b_lower _ c C1), (strip_prefix_b_lower _ c C2), (strip_prefix_b_lower _ c C3).
  destruct (strip_prefix_b [47; 47] c) as [b1|]; [apply contents_lower|].
  destruct (strip_prefix_b [40; 42] c) as [b2|]; [apply contents_lower|].
  destruct (strip_prefix_b [123] c) as [b3|]; [apply contents_lower|reflexivity].
Qed.

Theorem parse_toggle_case_insensitive c1 c2 : lower c1 = lower c2 -> parse_toggle c1 = parse_toggle c2.
Proof. intros H. rewrite <- (parse_toggle_lower c1), <- (parse_toggle_lower c2), H. reflexivity. Qed.

Corollary parse_toggle_upper c : parse_toggle (upper c) = parse_toggle c.
Proof. apply parse_toggle_case_insensitive. apply (fold_case_upper c). Qed.

(* the form asked for: lower-casing only what follows the opener *)
Corollary parse_toggle_case_insensitive_body pre body :
  is_opener pre -> parse_toggle (pre ++ lower body) = parse_toggle (pre ++ body).
Proof. intros Hp. rewrite !(parse_toggle_opener pre _ Hp). apply contents_lower. Qed.

(* ------------------------------------------------------------------ *)
(* 4. the marks *)

(* what a token says: only comments are looked at *)
Definition tok_toggle (tok : token) : option toggle :=
  if is_comment (t_ty tok) then parse_toggle (t_content tok) else None.

Definition is_toggle_tok (tok : token) : bool :=
  match tok_toggle tok with Some _ => true | None => false end.

(* `ignored` after looking at one token *)
Definition next_state (ign : bool) (tok : token) : bool :=
  match tok_toggle tok with Some TOff => true | Some TOn => false | None => ign end.

(* `ignored` after processing tokens 0..i (inclusive), starting from b *)
Definition state_at (b : bool) (l : list token) (i : nat) : bool :=
  fold_left next_state (firstn (S i) l) b.

Lemma toggle_marks_cons b tok r :
  toggle_marks b (tok :: r) = (next_state b tok || is_toggle_tok tok) :: toggle_marks (next_state b tok) r.
Proof.
  cbn [toggle_marks]. unfold next_state, is_toggle_tok, tok_toggle.
  destruct (is_comment (t_ty tok)); [|reflexivity].
  destruct (parse_toggle (t_content tok)) as [[|]|]; reflexivity.
Qed.

Theorem toggle_marks_length b l : length (toggle_marks b l) = length l.
Proof.
  revert b. induction l as [|tok r IH]; intros b; [reflexivity|].
  rewrite toggle_marks_cons. cbn [length]. f_equal. apply IH.
Qed.

Theorem toggle_marks_spec b l i tok :
  nth_error l i = Some tok ->
  nth_error (toggle_marks b l) i = Some (state_at b l i || is_toggle_tok tok).
Proof.
  revert b i. induction l as [|t0 r IH]; intros b i H; [destruct i; discriminate|].
  rewrite toggle_marks_cons. destruct i as [|i].
  - cbn [nth_error] in *. injection H as ->. reflexivity.
  - cbn [nth_error] in *. rewrite (IH (next_state b t0) i H). reflexivity.
Qed.

Corollary toggle_marks_nth b l i :
  (i < length l)%nat ->
  nth i (toggle_marks b l) false = state_at b l i || is_toggle_tok (nth i l (mkToken [] [] TT_Eof)).
Proof.
  intros Hi. destruct (nth_error l i) as [tok|] eqn:E; [|apply nth_error_None in E; lia].
  rewrite (nth_error_nth _ _ _ (toggle_marks_spec b l i tok E)), (nth_error_nth _ _ _ E). reflexivity.
Qed.

(* the state obeys the obvious recurrence *)
Lemma firstn_S_nth_error {A} (l : list A) n x : nth_error l n = Some x -> firstn (S n) l = firstn n l ++ [x].
Proof.
  revert n. induction l as [|a l IH]; intros [|n] H; try discriminate.
  - cbn [nth_error] in H. injection H as ->. reflexivity.
  - cbn [nth_error] in H. change (firstn (S (S n)) (a :: l)) with (a :: firstn (S n) l).
    rewrite (IH n H). reflexivity.
Qed.

Lemma state_at_0 b l tok : nth_error l 0 = Some tok -> state_at b l 0 = next_state b tok.
Proof. destruct l as [|t0 r]; [discriminate|]. cbn [nth_error]. intros H. injection H as ->. reflexivity. Qed.

Lemma state_at_S b l k tok :
  nth_error l (S k) = Some tok -> state_at b l (S k) = next_state (state_at b l k) tok.
Proof.
  intros H. unfold state_at. rewrite (firstn_S_nth_error l (S k) tok H), fold_left_app. reflexivity.
Qed.

Lemma state_at_off b l i tok : nth_error l i = Some tok -> tok_toggle tok = Some TOff -> state_at b l i = true.
Proof.
  intros H Ht. destruct i as [|k].
  - rewrite (state_at_0 b l tok H). unfold next_state. rewrite Ht. reflexivity.
  - rewrite (state_at_S b l k tok H). unfold next_state. rewrite Ht. reflexivity.
Qed.

Lemma state_at_on b l i tok : nth_error l i = Some tok -> tok_toggle tok = Some TOn -> state_at b l i = false.
Proof.
  intros H Ht. destruct i as [|k].
  - rewrite (state_at_0 b l tok H). unfold next_state. rewrite Ht. reflexivity.
  - rewrite (state_at_S b l k tok H). unfold next_state. rewrite Ht. reflexivity.
Qed.

Lemma state_at_none b l k tok :
  nth_error l (S k) = Some tok -> tok_toggle tok = None -> state_at b l (S k) = state_at b l k.
Proof. intros H Ht. rewrite (state_at_S b l k tok H). unfold next_state. rewrite Ht. reflexivity. Qed.

(* after an Off, the state stays true as long as no toggle follows *)
Lemma state_after_off b l i ti j :
  nth_error l i = Some ti -> tok_toggle ti = Some TOff ->
  (forall k tk, (i < k <= j)%nat -> nth_error l k = Some tk -> tok_toggle tk = None) ->
  forall k, (i <= k <= j)%nat -> (k < length l)%nat -> state_at b l k = true.
Proof.
  intros Hi Hoff Hnone k. induction k as [|k IH]; intros Hk Hlen.
  - assert (i = 0)%nat by lia. subst i. exact (state_at_off b l 0%nat ti Hi Hoff).
  - destruct (Nat.eq_dec i (S k)) as [->|Hne]; [exact (state_at_off b l (S k) ti Hi Hoff)|].
    destruct (nth_error l (S k)) as [tk|] eqn:E; [|apply nth_error_None in E; lia].
    rewrite (state_at_none b l k tk E); [apply IH; lia|].
    apply (Hnone (S k)); [lia|exact E].
Qed.

(* B4: an Off comment at i marks i and everything after it up to (and including) j, provided no
   token in (i, j] is a toggle comment; whatever the state before i *)
Theorem toggle_marks_region b l i ti j :
  nth_error l i = Some ti -> tok_toggle ti = Some TOff ->
  (forall k tk, (i < k <= j)%nat -> nth_error l k = Some tk -> tok_toggle tk = None) ->
  forall k, (i <= k <= j)%nat -> (k < length l)%nat -> nth_error (toggle_marks b l) k = Some true.
Proof.
  intros Hi Hoff Hnone k Hk Hlen.
  destruct (nth_error l k) as [tk|] eqn:E; [|apply nth_error_None in E; lia].
  rewrite (toggle_marks_spec b l k tk E), (state_after_off b l i ti j Hi Hoff Hnone k Hk Hlen). reflexivity.
Qed.

(* ... and if j is the next toggle and it is an On: i..j are all marked (the On comment itself too),
   and the token after j, unless it is a toggle comment itself, is NOT marked *)
Theorem toggle_marks_region_on b l i ti j tj :
  (i < j)%nat ->
  nth_error l i = Some ti -> tok_toggle ti = Some TOff ->
  nth_error l j = Some tj -> tok_toggle tj = Some TOn ->
  (forall k tk, (i < k < j)%nat -> nth_error l k = Some tk -> tok_toggle tk = None) ->
  (forall k, (i <= k <= j)%nat -> nth_error (toggle_marks b l) k = Some true)
  /\ (forall tn, nth_error l (S j) = Some tn -> tok_toggle tn = None ->
                 nth_error (toggle_marks b l) (S j) = Some false).
Proof.
  intros Hij Hi Hoff Hj Hon Hnone. split.
  - intros k Hk. destruct (Nat.eq_dec k j) as [->|Hne].
    + rewrite (toggle_marks_spec b l j tj Hj). unfold is_toggle_tok. rewrite Hon. rewrite orb_true_r. reflexivity.
    + assert (Hjl : (j < length l)%nat) by (apply nth_error_Some; rewrite Hj; discriminate).
      apply (toggle_marks_region b l i ti (j - 1) Hi Hoff); [|lia|lia].
      intros k' tk' Hk'. apply Hnone. lia.
  - intros tn Hn Hnt. rewrite (toggle_marks_spec b l (S j) tn Hn).
    rewrite (state_at_none b l j tn Hn Hnt), (state_at_on b l j tj Hj Hon).
    unfold is_toggle_tok. rewrite Hnt. reflexivity.
Qed.

(* the same two facts as list decompositions (often easier to use) *)
Lemma toggle_marks_app b l1 l2 :
  toggle_marks b (l1 ++ l2) = toggle_marks b l1 ++ toggle_marks (fold_left next_state l1 b) l2.
Proof.
  revert b. induction l1 as [|t0 r IH]; intros b; [reflexivity|].
  cbn [app]. rewrite !toggle_marks_cons, IH. reflexivity.
Qed.

Lemma toggle_marks_no_toggle b l :
  Forall (fun t => tok_toggle t = None) l ->
  toggle_marks b l = repeat b (length l) /\ fold_left next_state l b = b.
Proof.
  induction 1 as [|t0 r H0 Hr [IH1 IH2]]; [split; reflexivity|].
  assert (N : next_state b t0 = b) by (unfold next_state; rewrite H0; reflexivity).
  assert (T : is_toggle_tok t0 = false) by (unfold is_toggle_tok; rewrite H0; reflexivity).
  rewrite toggle_marks_cons. cbn [fold_left length repeat]. rewrite N, T, orb_false_r, IH1, IH2. split; reflexivity.
Qed.

Theorem toggle_marks_off_region b pre off mid post :
  tok_toggle off = Some TOff -> Forall (fun t => tok_toggle t = None) mid ->
  toggle_marks b (pre ++ off :: mid ++ post)
  = toggle_marks b pre ++ true :: repeat true (length mid) ++ toggle_marks true post.
Proof.
  intros Hoff Hmid. rewrite toggle_marks_app, toggle_marks_cons.
  assert (E : next_state (fold_left next_state pre b) off = true) by (unfold next_state; rewrite Hoff; reflexivity).
  rewrite E, toggle_marks_app. destruct (toggle_marks_no_toggle true mid Hmid) as [-> ->]. reflexivity.
Qed.

Theorem toggle_marks_off_on_region b pre off mid on post :
  tok_toggle off = Some TOff -> Forall (fun t => tok_toggle t = None) mid -> tok_toggle on = Some TOn ->
  toggle_marks b (pre ++ off :: mid ++ on :: post)
  = toggle_marks b pre ++ true :: repeat true (length mid) ++ true :: toggle_marks false post.
Proof.
  intros Hoff Hmid Hon. rewrite (toggle_marks_off_region b pre off mid (on :: post) Hoff Hmid).
  rewrite toggle_marks_cons. unfold next_state, is_toggle_tok. rewrite Hon. reflexivity.
Qed.

(* with formatting on and no toggle in sight nothing is marked *)
Corollary toggle_marks_none l :
  Forall (fun t => tok_toggle t = None) l -> toggle_marks false l = repeat false (length l).
Proof. intros H. apply (toggle_marks_no_toggle false l H). Qed.

(* ------------------------------------------------------------------ *)
(* 5. only comments are looked at *)

Theorem toggle_non_comment_ignored tok :
  is_comment (t_ty tok) = false ->
  tok_toggle tok = None /\ (forall ign, next_state ign tok = ign)
  /\ (forall ign r, toggle_marks ign (tok :: r) = ign :: toggle_marks ign r).
Proof.
  intros H. assert (E : tok_toggle tok = None) by (unfold tok_toggle; rewrite H; reflexivity).
  split; [exact E|].
  assert (N : forall ign, next_state ign tok = ign) by (intros ign; unfold next_state; rewrite E; reflexivity).
  split; [exact N|]. intros ign r. rewrite toggle_marks_cons, N. unfold is_toggle_tok. rewrite E, orb_false_r. reflexivity.
Qed.

(* replacing non-comment tokens by anything of non-comment type never changes the marks *)
Theorem toggle_marks_depends_on_comments b l1 l2 :
  Forall2 (fun t1 t2 => tok_toggle t1 = tok_toggle t2) l1 l2 -> toggle_marks b l1 = toggle_marks b l2.
Proof.
  intros H. revert b. induction H as [|t1 t2 r1 r2 Ht Hr IH]; intros b; [reflexivity|].
  rewrite !toggle_marks_cons. unfold next_state, is_toggle_tok. rewrite Ht, IH. reflexivity.
Qed.

(* ------------------------------------------------------------------ *)
(* 6. the combined marks *)

Lemma combine_seq_nth_error {A} (l : list A) s i x :
  nth_error l i = Some x -> nth_error (combine (seq s (length l)) l) i = Some ((s + i)%nat, x).
Proof.
  revert s i. induction l as [|a l IH]; intros s [|i] H; try discriminate.
  - cbn [nth_error] in H. injection H as ->. cbn. rewrite Nat.add_0_r. reflexivity.
  - cbn [nth_error] in H. cbn [length seq combine nth_error]. rewrite (IH (S s) i H). f_equal. f_equal. lia.
Qed.

Lemma asm_fwd_length l : forall prev, length (asm_fwd prev l) = length l.
Proof. induction l as [|[tok m] r IH]; intros prev; [reflexivity|]. cbn [asm_fwd length]. rewrite IH. reflexivity. Qed.

Lemma asm_bwd_length l : length (asm_bwd l) = length l.
Proof. induction l as [|[tok m] r IH]; [reflexivity|]. cbn [asm_bwd length]. rewrite IH. reflexivity. Qed.

Lemma asm_base_length toks lines : length (asm_base toks lines) = length toks.
Proof. unfold asm_base. rewrite map_length, seq_length. reflexivity. Qed.

Theorem asm_marks_length toks lines : length (asm_marks toks lines) = length toks.
Proof.
  unfold asm_marks. rewrite asm_bwd_length, combine_length, asm_fwd_length, combine_length, asm_base_length, !Nat.min_id. reflexivity.
Qed.

Theorem ignore_marks_length toks lines : length (ignore_marks toks lines) = length toks.
Proof.
  unfold ignore_marks. rewrite map_length, combine_length, toggle_marks_length, asm_marks_length, Nat.min_id. reflexivity.
Qed.

(* the two passes only ADD marks, and only on conditional directives *)
Lemma asm_fwd_spec l : forall prev i tok m,
  nth_error l i = Some (tok, m) ->
  exists m', nth_error (asm_fwd prev l) i = Some m' /\ (m = true -> m' = true) /\ (m' = true -> m = true \/ is_cond_dir_tok tok = true).
Proof.
  induction l as [|[t0 m0] r IH]; intros prev [|i] tok m H; try discriminate.
  - cbn [nth_error] in H. injection H as -> ->. cbn [asm_fwd nth_error]. eexists. split; [reflexivity|].
    split; [intros ->; reflexivity|]. intros Hm. apply orb_true_iff in Hm. destruct Hm as [Hm|Hm]; [left; exact Hm|right].
    apply andb_true_iff in Hm. destruct Hm as [Hm _]. apply andb_true_iff in Hm. destruct Hm as [Hm _]. exact Hm.
  - cbn [nth_error] in H. cbn [asm_fwd nth_error]. apply IH. exact H.
Qed.

Lemma asm_bwd_spec l : forall i tok m,
  nth_error l i = Some (tok, m) ->
  exists m', nth_error (asm_bwd l) i = Some m' /\ (m = true -> m' = true) /\ (m' = true -> m = true \/ is_cond_dir_tok tok = true).
Proof.
  induction l as [|[t0 m0] r IH]; intros [|i] tok m H; try discriminate.
  - cbn [nth_error] in H. injection H as -> ->. cbn [asm_bwd nth_error]. eexists. split; [reflexivity|].
    split; [intros ->; reflexivity|]. intros Hm. apply orb_true_iff in Hm. destruct Hm as [Hm|Hm]; [left; exact Hm|right].
    apply andb_true_iff in Hm. destruct Hm as [Hm _]. exact Hm.
  - cbn [nth_error] in H. cbn [asm_bwd nth_error]. apply IH. exact H.
Qed.

Lemma combine_nth_error {A B} (a : list A) (b : list B) i x y :
  nth_error a i = Some x -> nth_error b i = Some y -> nth_error (combine a b) i = Some (x, y).
Proof.
  revert b i. induction a as [|a0 a IH]; intros [|b0 b] [|i] Ha Hb; try discriminate.
  - cbn in *. congruence.
  - cbn [nth_error combine] in *. apply IH; assumption.
Qed.

Lemma asm_base_nth toks lines i tok : nth_error toks i = Some tok -> nth_error (asm_base toks lines) i = Some (asm_marked lines i).
Proof.
  intros H. unfold asm_base. rewrite nth_error_map.
  assert (Hi : (i < length toks)%nat) by (apply nth_error_Some; congruence).
  rewrite (nth_error_nth' (seq 0 (length toks)) 0%nat) by (rewrite seq_length; exact Hi).
  rewrite seq_nth by exact Hi. reflexivity.
Qed.

(* every token of an instruction line stays marked; whatever else is marked is a conditional directive *)
Theorem asm_marks_spec toks lines i tok :
  nth_error toks i = Some tok ->
  exists m, nth_error (asm_marks toks lines) i = Some m
            /\ (asm_marked lines i = true -> m = true)
            /\ (m = true -> asm_marked lines i = true \/ is_cond_dir_tok tok = true).
Proof.
  intros H. unfold asm_marks.
  pose proof (asm_base_nth toks lines i tok H) as Hb.
  destruct (asm_fwd_spec (combine toks (asm_base toks lines)) false i tok (asm_marked lines i) (combine_nth_error _ _ _ _ _ H Hb)) as (m1 & H1 & H1a & H1b).
  destruct (asm_bwd_spec (combine toks (asm_fwd false (combine toks (asm_base toks lines)))) i tok m1 (combine_nth_error _ _ _ _ _ H H1)) as (m2 & H2 & H2a & H2b).
  exists m2. split; [exact H2|]. split.
  - intros Hm. apply H2a, H1a, Hm.
  - intros Hm. destruct (H2b Hm) as [Hm1|Hd]; [|right; exact Hd]. exact (H1b Hm1).
Qed.

Theorem ignore_marks_spec toks lines i tok :
  nth_error toks i = Some tok ->
  exists am, nth_error (asm_marks toks lines) i = Some am /\
  nth_error (ignore_marks toks lines) i = Some (state_at false toks i || is_toggle_tok tok || am).
Proof.
  intros H. destruct (asm_marks_spec toks lines i tok H) as (am & Ha & _).
  exists am. split; [exact Ha|]. unfold ignore_marks.
  pose proof (toggle_marks_spec false toks i tok H) as Hm.
  rewrite nth_error_map, (combine_nth_error _ _ _ _ _ Hm Ha). reflexivity.
Qed.

(* an instruction with a conditional directive group at its end: PUSH {$IFDEF A} rbx {$ENDIF} <newline> ret *)
Example asm_marks_example :
  let t ty ws := mkToken ws [120] ty in
  let toks := [t TT_Identifier [10; 32]; t (TT_ConditionalDirective CDK_Ifdef) [32]; t TT_Identifier [32];
               t (TT_ConditionalDirective CDK_Endif) [32]; t TT_Identifier [10; 32]; t (TT_ConditionalDirective CDK_Endif) [10]] in
  asm_marks toks [(LLT_AsmInstruction, [0; 2]%nat); (LLT_AsmInstruction, [0]%nat); (LLT_AsmInstruction, [4]%nat)]
  = [true; true; true; true; true; false].
Proof. vm_compute. reflexivity. Qed.

(* ------------------------------------------------------------------ *)
(* examples *)

(* "// pasfmt off" *)
Definition c_off : bytes := [47;47;32;112;97;115;102;109;116;32;111;102;102].
(* "{PASFMT   On}" *)
Definition c_on : bytes := [123;80;65;83;70;77;84;32;32;32;79;110;125].
(* "(* PasFmt OFF: reason *)" *)
Definition c_off2 : bytes := [40;42;32;80;97;115;70;109;116;9;79;70;70;58;32;114;42;41].
(* "{$pasfmt off}" *)
Definition c_directive : bytes := [123;36;112;97;115;102;109;116;32;111;102;102;125].
(* "// pasfmt offx" and "// pasfmtoff" and "// pasfmt" *)
Definition c_offx : bytes := [47;47;32;112;97;115;102;109;116;32;111;102;102;120].
Definition c_nospace : bytes := [47;47;32;112;97;115;102;109;116;111;102;102].
Definition c_bare : bytes := [47;47;32;112;97;115;102;109;116].

Example ex_parse :
  parse_toggle c_off = Some TOff /\ parse_toggle c_on = Some TOn /\ parse_toggle c_off2 = Some TOff /\
  parse_toggle c_directive = None /\ parse_toggle c_offx = None /\ parse_toggle c_nospace = None /\
  parse_toggle c_bare = None.
Proof. repeat split. Qed.

Example ex_shape : toggle_comment_shape c_off2 TOff.
Proof. apply parse_toggle_sound. reflexivity. Qed.

Example ex_complete : parse_toggle c_on = Some TOn.
Proof.
  apply parse_toggle_complete.
  exists [123], [], [80;65;83;70;77;84], [32;32;32], [79;110], [125].
  split; [reflexivity|]. split; [right; right; reflexivity|]. split; [constructor|].
  split; [reflexivity|]. split; [reflexivity|]. split; [discriminate|].
  split; [repeat constructor|]. split; [repeat constructor|].
  split; [right; exists 125, []; split; reflexivity|reflexivity].
Qed.

Example ex_case : parse_toggle c_off2 = parse_toggle (lower c_off2) /\ lower c_off2 <> c_off2.
Proof. split; [symmetry; apply parse_toggle_lower|vm_compute; discriminate]. Qed.

Definition tk (c : bytes) (ty : TokenType) : token := mkToken [] c ty.
Definition ident : token := tk [120] TT_Identifier.

(* x; // pasfmt off; x; x; {PASFMT On}; x; a string literal 'pasfmt off'; a {$pasfmt off} directive; x *)
Definition ex_toks : list token :=
  [ident; tk c_off (TT_Comment CoK_IndividualLine); ident; ident; tk c_on (TT_Comment CoK_InlineBlock);
   ident; tk c_off (TT_TextLiteral TK_SingleLine); tk c_off TT_CompilerDirective; ident].

Example ex_marks :
  toggle_marks false ex_toks = [false; true; true; true; true; false; false; false; false].
Proof. reflexivity. Qed.

Example ex_region :
  forall k, (1 <= k <= 4)%nat -> nth_error (toggle_marks false ex_toks) k = Some true.
Proof.
  refine (proj1 (toggle_marks_region_on false ex_toks 1 (tk c_off (TT_Comment CoK_IndividualLine)) 4
                   (tk c_on (TT_Comment CoK_InlineBlock)) _ eq_refl eq_refl eq_refl eq_refl _)); [lia|].
  intros k tkk Hk E. assert (Hk' : k = 2%nat \/ k = 3%nat) by lia.
  destruct Hk' as [-> | ->]; cbn in E; injection E as <-; reflexivity.
Qed.

Example ex_non_comment :
  forall ign r, toggle_marks ign (tk c_off TT_CompilerDirective :: r) = ign :: toggle_marks ign r.
Proof. apply (toggle_non_comment_ignored (tk c_off TT_CompilerDirective) eq_refl). Qed.

(* a `pasfmt on` comment is marked even when formatting was never switched off *)
Example ex_stray_on : toggle_marks false [ident; tk c_on (TT_Comment CoK_InlineBlock); ident] = [false; true; false].
Proof. reflexivity. Qed.

Print Assumptions parse_toggle_prefix.
Print Assumptions parse_toggle_iff.
Print Assumptions parse_toggle_lower.
Print Assumptions parse_toggle_case_insensitive.
Print Assumptions toggle_marks_length.
Print Assumptions toggle_marks_spec.
Print Assumptions toggle_marks_region.
Print Assumptions toggle_marks_region_on.
Print Assumptions toggle_marks_off_on_region.
Print Assumptions toggle_non_comment_ignored.
Print Assumptions ignore_marks_spec.
