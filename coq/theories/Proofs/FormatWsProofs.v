(* Proofs/FormatWsProofs.v — which stage reads the TEXT of a token's leading whitespace.

   After FormattingData::from has turned it into counters, the text of the leading whitespace (t_ws) is read again in exactly two
   places: IgnoreAsmIstructions (does it contain a CR/LF: Toggle.starts_line) — in front of that point — and the reconstructor, for
   IGNORED tokens only.  So two token vectors that agree on everything but t_ws go through TokenSpacing, LowercaseKeywords,
   CommentFormatter, EofNewline and the line wrapper (both phases) in lock-step (ws_sim is a congruence for each of them: *_ws), and
   the reconstructor prints the same bytes for them when no token is ignored (recon_ws).
   This is the common part of the CRLF-input theorem (FormatCrlfProofs) and of the re-layout theorem (FormatRelayoutProofs). *)
From Coq Require Import Lia.
From PasfmtVerif Require Import Model.Format Proofs.FormatProofs Proofs.SpacingProofs Proofs.WrapApplyProofs.
Local Open Scope nat_scope.

Definition tok_sim (a b : token) : Prop := t_ty b = t_ty a /\ t_content b = t_content a.
Definition ws_sim1 (p q : ftoken) : Prop := tok_sim (fst p) (fst q) /\ snd q = snd p.
Definition ws_sim (l l' : list ftoken) : Prop := Forall2 ws_sim1 l l'.

Lemma tok_sim_refl a : tok_sim a a. Proof. split; reflexivity. Qed.
Lemma ws_sim_refl l : ws_sim l l. Proof. induction l; constructor; [split; [apply tok_sim_refl|reflexivity]|assumption]. Qed.

Lemma ws_sim_length l l' : ws_sim l l' -> length l' = length l.
Proof. induction 1; cbn; congruence. Qed.

Lemma ws_sim_nth l l' : ws_sim l l' -> forall i, match nth_error l i, nth_error l' i with
                                              | Some p, Some q => ws_sim1 p q | None, None => True | _, _ => False end.
Proof. induction 1 as [|p q r r' H _ IH]; intros [|i]; cbn [nth_error]; try exact I; [exact H|apply IH]. Qed.

Lemma ws_sim_map (g : ftoken -> ftoken) l l' : (forall p q, ws_sim1 p q -> ws_sim1 (g p) (g q)) -> ws_sim l l' -> ws_sim (map g l) (map g l').
Proof. intros Hg. induction 1; constructor; [apply Hg; assumption|assumption]. Qed.

(* ------------------------------------------------------------------ *)
(* TokenSpacing *)
Lemma gaps_ws : forall r r' pr tl, ws_sim r r' -> ws_sim (gaps pr tl r) (gaps pr tl r').
Proof.
  intros r r' pr tl H. revert pr tl. induction H as [|p q r r' (Ht & Hf) _ IH]; intros pr tl; [constructor|].
  cbn [gaps]. unfold ty_of. rewrite (proj1 Ht), Hf. constructor; [split; [exact Ht|reflexivity]|apply IH].
Qed.

Lemma token_spacing_ws l l' : ws_sim l l' -> ws_sim (token_spacing l) (token_spacing l').
Proof.
  intros H. destruct H as [|p q r r' (Ht & Hf) Hr]; [constructor|]. rewrite !spacing_closed_form.
  unfold ty_of. rewrite (proj1 Ht), Hf. constructor; [split; [exact Ht|reflexivity]|apply gaps_ws, Hr].
Qed.

(* LowercaseKeywords, CommentFormatter: a rewritten token gets EMPTY leading whitespace on both sides *)
Lemma lowercase_tok_ws p q : ws_sim1 p q -> ws_sim1 (lowercase_tok p) (lowercase_tok q).
Proof.
  destruct p as [a f], q as [b g]. intros ((Ht & Hc) & Hf). cbn [fst snd] in *. subst g. unfold lowercase_tok.
  destruct (f_ignored f); [split; [split; assumption|reflexivity]|]. rewrite Ht, Hc.
  destruct (is_keyword (t_ty a) && existsb is_upper (t_content a)); (split; [|reflexivity]); cbn [fst set_content]; split; cbn; assumption || reflexivity.
Qed.

Lemma comment_tok_ws alnum p q : ws_sim1 p q -> ws_sim1 (comment_tok alnum p) (comment_tok alnum q).
Proof.
  destruct p as [a f], q as [b g]. intros ((Ht & Hc) & Hf). cbn [fst snd] in *. subst g. unfold comment_tok.
  destruct (f_ignored f); [split; [split; assumption|reflexivity]|]. rewrite Ht, Hc.
  match goal with |- context [match ?r with Some _ => _ | None => _ end] => destruct r end;
    (split; [|reflexivity]); cbn [fst set_content]; split; cbn; assumption || reflexivity.
Qed.

(* EofNewline *)
Lemma ws_sim_rev l l' : ws_sim l l' -> ws_sim (rev l) (rev l').
Proof. induction 1 as [|p q r r' H _ IH]; [constructor|]. cbn [rev]. apply Forall2_app; [exact IH|constructor; [exact H|constructor]]. Qed.

Lemma eof_newline_once_ws l l' : ws_sim l l' -> ws_sim (eof_newline_once l) (eof_newline_once l').
Proof.
  intros H. unfold eof_newline_once. pose proof (ws_sim_rev _ _ H) as Hr.
  destruct Hr as [|[a f] [b g] r r' ((Ht & Hc) & Hf) Hr']; [exact H|]. cbn [fst snd] in *. subst g. rewrite Ht.
  destruct (is_eof (t_ty a)); [|exact H].
  apply Forall2_app; [apply ws_sim_rev in Hr'; exact Hr'|constructor; [split; [split; assumption|reflexivity]|constructor]].
Qed.

Lemma eof_newline_lines_ws lines : forall l l', ws_sim l l' -> ws_sim (eof_newline_lines lines l) (eof_newline_lines lines l').
Proof.
  unfold eof_newline_lines. induction lines as [|ln r IH]; intros l l' H; [exact H|]. cbn [fold_left]. apply IH.
  destruct (ll_type ln IS LLT_Eof); [apply eof_newline_once_ws, H|exact H].
Qed.

(* ------------------------------------------------------------------ *)
(* the line wrapper *)
Lemma tokinfo_ws l l' : ws_sim l l' -> map tokinfo_of l' = map tokinfo_of l.
Proof.
  induction 1 as [|[a f] [b g] r r' ((Ht & Hc) & Hf) _ IH]; [reflexivity|]. cbn [map fst snd] in *. subst g. rewrite IH. f_equal.
  unfold tokinfo_of, ml_measure. cbn [fst snd]. rewrite Ht, Hc. reflexivity.
Qed.

Lemma upd_ftok_ws i g : forall l l', ws_sim l l' -> ws_sim (upd_ftok i g l) (upd_ftok i g l').
Proof.
  revert i. induction i as [|i IH]; intros l l' H; destruct H as [|[a f] [b h] r r' (Ht & Hf) Hr]; cbn [upd_ftok]; try constructor; cbn [fst snd] in *.
  - subst h. split; [exact Ht|reflexivity].
  - exact Hr.
  - split; assumption.
  - apply IH, Hr.
Qed.

Lemma apply_plan_ws plan : forall l l', ws_sim l l' -> ws_sim (apply_plan plan l) (apply_plan plan l').
Proof. unfold apply_plan. induction plan as [|pd r IH]; intros l l' H; [exact H|]. cbn [fold_left]. apply IH, upd_ftok_ws, H. Qed.

Lemma zero_line_starts_ws l l' : ws_sim l l' -> ws_sim (zero_line_starts l) (zero_line_starts l').
Proof.
  apply ws_sim_map. intros [a f] [b g] (Ht & Hf). cbn [fst snd] in *. subst g. destruct (0 <? f_nl f)%N; split; cbn [fst snd]; assumption || reflexivity.
Qed.

Lemma respace_ws : forall sp l l', ws_sim l l' -> ws_sim (respace sp l) (respace sp l').
Proof.
  intros sp l l' H. revert sp. induction H as [|[a f] [b g] r r' (Ht & Hf) Hr IH]; intros [|s ss]; cbn [respace]; try constructor; cbn [fst snd] in *; subst.
  - split; [exact Ht|reflexivity].
  - exact Hr.
  - split; [exact Ht|reflexivity].
  - apply IH.
Qed.

Lemma upd_ftok_tok_set_ws i c : forall l l', ws_sim l l' ->
  ws_sim (upd_ftok_tok i (fun t => set_content t c) l) (upd_ftok_tok i (fun t => set_content t c) l').
Proof.
  revert i. induction i as [|i IH]; intros l l' H; destruct H as [|[a f] [b h] r r' ((Ht & Hc) & Hf) Hr]; cbn [upd_ftok_tok]; try constructor; cbn [fst snd] in *.
  - subst h. split; [split; cbn; [exact Ht|reflexivity]|reflexivity].
  - exact Hr.
  - split; [split; assumption|exact Hf].
  - apply IH, Hr.
Qed.

Lemma ml_visit_ws rs x x' flag i : ws_sim x x' ->
  ws_sim (fst (ml_visit rs (x, flag) i)) (fst (ml_visit rs (x', flag) i)) /\ snd (ml_visit rs (x', flag) i) = snd (ml_visit rs (x, flag) i).
Proof.
  intros H. unfold ml_visit. cbn [fst]. pose proof (ws_sim_nth _ _ H i) as Hn.
  destruct (nth_error x i) as [[a f]|]; destruct (nth_error x' i) as [[b g]|]; try contradiction; [|split; [exact H|reflexivity]].
  destruct Hn as ((Ht & Hc) & Hf). cbn [fst snd] in *. subst g. rewrite Ht, Hc.
  destruct (f_ignored f); [split; [exact H|reflexivity]|]. destruct (is_ml_string (t_ty a)); [|split; [exact H|reflexivity]].
  destruct (rewrite_ml_token rs (f_ind f) (f_cont f) (t_content a)) as [c|]; [|split; [exact H|reflexivity]].
  destruct (bytes_eqb c (t_content a)); [split; [exact H|reflexivity]|]. cbn [fst snd]. split; [apply upd_ftok_tok_set_ws, H|reflexivity].
Qed.

Lemma ml_fold_ws rs : forall toks x x' flag, ws_sim x x' ->
  ws_sim (fst (fold_left (ml_visit rs) toks (x, flag))) (fst (fold_left (ml_visit rs) toks (x', flag)))
  /\ snd (fold_left (ml_visit rs) toks (x', flag)) = snd (fold_left (ml_visit rs) toks (x, flag)).
Proof.
  induction toks as [|g r IH]; intros x x' flag H; [split; [exact H|reflexivity]|]. cbn [fold_left].
  destruct (ml_visit_ws rs x x' flag g H) as (A & B).
  destruct (ml_visit rs (x, flag) g) as [y f1]. destruct (ml_visit rs (x', flag) g) as [y' f1']. cbn [fst snd] in *. subst f1'. apply IH, A.
Qed.

Lemma ml_lines_ws rs all : forall rest i x x' acc, ws_sim x x' ->
  ws_sim (fst (ml_lines rs all rest i x acc)) (fst (ml_lines rs all rest i x' acc)) /\ snd (ml_lines rs all rest i x' acc) = snd (ml_lines rs all rest i x acc).
Proof.
  induction rest as [|ln r IH]; intros i x x' acc H; cbn [ml_lines]; [split; [exact H|reflexivity]|].
  destruct (ml_fold_ws rs (ll_toks ln) x x' false H) as (A & B).
  destruct (fold_left (ml_visit rs) (ll_toks ln) (x, false)) as [y ch]. destruct (fold_left (ml_visit rs) (ll_toks ln) (x', false)) as [y' ch']. cbn [fst snd] in *. subst ch'.
  apply IH, A.
Qed.

Lemma infos2_ws infos b b' : ws_sim b b' ->
  map (fun pq : tokinfo * ftoken => mkTI (ti_ty (fst pq)) (ti_sp (fst pq)) (ti_len (fst pq)) (ml_measure (fst (snd pq)))) (combine infos b')
  = map (fun pq : tokinfo * ftoken => mkTI (ti_ty (fst pq)) (ti_sp (fst pq)) (ti_len (fst pq)) (ml_measure (fst (snd pq)))) (combine infos b).
Proof.
  intros H. revert infos. induction H as [|[a f] [c g] r r' ((Ht & Hc) & Hf) _ IH]; intros [|ti infos]; try reflexivity.
  cbn [combine map fst snd]. rewrite IH. f_equal. unfold ml_measure. cbn [fst snd] in *. rewrite Ht, Hc. reflexivity.
Qed.

Lemma map_sp_ws l l' : ws_sim l l' -> map (fun p : ftoken => f_sp (snd p)) l' = map (fun p : ftoken => f_sp (snd p)) l.
Proof. induction 1 as [|p q r r' (_ & Hf) _ IH]; [reflexivity|]. cbn [map]. rewrite IH, Hf. reflexivity. Qed.

Theorem olf_model_ws rs W fm lines l l' : ws_sim l l' ->
  ws_sim (fst (fst (olf_model rs W fm lines l))) (fst (fst (olf_model rs W fm lines l')))
  /\ snd (fst (olf_model rs W fm lines l')) = snd (fst (olf_model rs W fm lines l))
  /\ snd (olf_model rs W fm lines l') = snd (olf_model rs W fm lines l).
Proof.
  intros H. unfold olf_model. rewrite (tokinfo_ws l l' H), (map_sp_ws l l' H).
  set (st1 := wrap_phase1 W (map tokinfo_of l) lines). set (plan1 := plan_of_events (rev (ss_log st1))).
  assert (Ha : ws_sim (zero_line_starts (apply_plan plan1 l)) (zero_line_starts (apply_plan plan1 l'))) by (apply zero_line_starts_ws, apply_plan_ws, H).
  destruct fm; [|cbn [fst snd]; split; [exact Ha|split; reflexivity]].
  destruct (ml_lines_ws rs lines lines 0 _ _ [] Ha) as (Hb & Hrefl).
  destruct (ml_lines rs lines lines 0 (zero_line_starts (apply_plan plan1 l)) []) as [b refl].
  destruct (ml_lines rs lines lines 0 (zero_line_starts (apply_plan plan1 l')) []) as [b' refl']. cbn [fst snd] in Hb, Hrefl. subst refl'.
  destruct (fold_left (fun acc x => insert_unique x acc) refl []) as [|x0 r0]; [cbn [fst snd]; split; [exact Hb|split; reflexivity]|].
  rewrite (infos2_ws (map tokinfo_of l) b b' Hb). cbn [fst snd]. split; [|split; reflexivity].
  apply respace_ws, apply_plan_ws, Hb.
Qed.

(* ------------------------------------------------------------------ *)
(* the reconstructor reads the leading whitespace text of ignored tokens only *)
Lemma recon_ws rs : forall l l' mb, ws_sim l l' -> Forall (fun p => f_ignored (snd p) = false) l -> recon rs mb l' = recon rs mb l.
Proof.
  intros l l' mb H. revert mb. induction H as [|[a f] [b g] r r' ((Ht & Hc) & Hf) _ IH]; intros mb Hi; [reflexivity|].
  inversion Hi as [|? ? Hi1 Hi2]; subst. cbn [fst snd] in *. subst g. cbn [recon emit_ws fst snd]. rewrite Hi1, Ht, Hc, (IH _ Hi2). reflexivity.
Qed.

(* the formatting half of the composed run, from the vector FormattingData::from produced *)
Definition fmt_half alnum cfg (lines : list lline) (l0 : list ftoken) : list ftoken :=
  fst (fst (olf_model (cfg_rs cfg) (cfg_ws cfg) (c_fms cfg) lines (eof_newline_lines lines (comment_formatter alnum (lowercase_keywords (token_spacing l0)))))).

Lemma fm_final_is_half alnum cfg segs : fm_final alnum cfg segs = fmt_half alnum cfg (fm_lines segs) (fm_l0 segs).
Proof. reflexivity. Qed.

Theorem fmt_half_ws alnum cfg lines l0 l0' : ws_sim l0 l0' -> ws_sim (fmt_half alnum cfg lines l0) (fmt_half alnum cfg lines l0').
Proof.
  intros H. unfold fmt_half. apply olf_model_ws, eof_newline_lines_ws.
  apply ws_sim_map; [apply comment_tok_ws|]. apply ws_sim_map; [apply lowercase_tok_ws|]. apply token_spacing_ws, H.
Qed.

Print Assumptions olf_model_ws.
Print Assumptions fmt_half_ws.
