(* End-to-end composition: lexer theorems + stage chain + reconstruction.
   C01 for the whole formatter, for every input the lexer accepts (which is every byte string). *)
From PasfmtVerif Require Import Model.Lexer Model.Pipeline Model.Reconstruct
  Proofs.LexerProofs Proofs.ReconstructProofs Proofs.RewritersProofs Proofs.PipelineProofs.

(* the token vector handed to the formatting stages carries exactly the lexer's text pieces;
   types, ignore marks and initial counters are whatever the parser, consolidators, ignorers and
   FormattingData::from make of them *)
Definition carries (segs : list seg) (l : list ftoken) : Prop :=
  Forall2 (fun (sg : seg) (p : ftoken) =>
             t_ws (fst p) = fst (fst sg) /\ t_content (fst p) = snd (fst sg)) segs l.

Definition seg_ok (sg : seg) : Prop := strip (fst (fst sg)) = [] /\ no80 (snd (fst sg)).

Lemma concat_segs_no80 segs : Forall seg_ok segs -> no80 (concat (map seg_bytes segs)).
Proof.
  induction 1 as [|[[ws c] ty] r [Hw Hc] Hr IH]; [exact I|].
  cbn [map concat seg_bytes]. cbn [fst snd] in *.
  rewrite <- app_assoc. apply no80_app; [apply all_blank_no80; exact Hw|].
  apply no80_app; assumption.
Qed.

Lemma strip_concat_segs segs :
  Forall seg_ok segs ->
  strip (concat (map seg_bytes segs)) = concat (map (fun sg : seg => strip (snd (fst sg))) segs).
Proof.
  induction 1 as [|[[ws c] ty] r [Hw Hc] Hr IH]; [reflexivity|].
  cbn [map concat seg_bytes]. cbn [fst snd] in *.
  pose proof (concat_segs_no80 r Hr) as Hn.
  rewrite <- app_assoc. rewrite strip_all_blank_app; [|exact Hw|apply no80_app; assumption].
  rewrite strip_app_no80 by exact Hn. rewrite IH. reflexivity.
Qed.

Lemma valid_no80 c : valid_utf8 c = true -> no80 c.
Proof.
  intros H. apply valid_starts_cont in H. destruct c as [|b t]; [exact I|].
  cbn in *. intros ->. unfold is_cont in H. discriminate.
Qed.

Lemma lex_segs_ok s toks : lex s = Some toks -> valid_utf8 s = true -> Forall seg_ok (segments toks s).
Proof.
  intros H Hv. apply Forall_forall. intros [[ws c] ty] Hin. split; cbn [fst snd].
  - eapply lex_ws_blank; eassumption.
  - apply valid_no80. eapply lex_segments_valid_utf8; eassumption.
Qed.

Lemma carries_tok_ok segs l : Forall seg_ok segs -> carries segs l -> Forall tok_ok l.
Proof.
  intros Hs Hc. induction Hc as [|sg p segs l [Hw Hcn] Hr IH]; [constructor|].
  inversion Hs as [|? ? [H1 H2] Hs']; subst. constructor; [|apply IH; assumption].
  split; [unfold all_blank; rewrite Hw; exact H1|rewrite Hcn; exact H2].
Qed.

Lemma carries_contents segs l :
  carries segs l -> contents_nonblank l = concat (map (fun sg : seg => strip (snd (fst sg))) segs).
Proof.
  unfold contents_nonblank. induction 1 as [|sg p segs l [Hw Hcn] Hr IH]; [reflexivity|].
  cbn [map concat]. rewrite Hcn, IH. reflexivity.
Qed.

(* C01, whole formatter: for EVERY input text (valid UTF-8, as a Rust &str is), every token typing / marking / initial counters,
   every chain of admissible formatting steps and every settings:
   fold(nonblank(output)) = fold(nonblank(input)) *)
Theorem format_preserves_nonblank s toks l ks l' rs :
  valid_utf8 s = true ->
  lex s = Some toks -> carries (segments toks s) l -> chain ks l l' -> rs_wf rs ->
  fold_case (strip (reconstruct rs l')) = fold_case (strip s).
Proof.
  intros Hv Hlex Hc Hch Hrs.
  pose proof (lex_segs_ok _ _ Hlex Hv) as Hok.
  rewrite (chain_reconstruct_nonblank ks rs l l' Hch (carries_tok_ok _ _ Hok Hc) Hrs).
  rewrite (carries_contents _ _ Hc).
  destruct (lex_lossless _ _ Hlex) as (_ & Hs & _).
  rewrite <- Hs at 2. rewrite strip_concat_segs by exact Hok. reflexivity.
Qed.

(* and the lexer accepts every input *)
Corollary format_preserves_nonblank_total s :
  valid_utf8 s = true ->
  exists toks, lex s = Some toks /\
  forall l ks l' rs, carries (segments toks s) l -> chain ks l l' -> rs_wf rs ->
  fold_case (strip (reconstruct rs l')) = fold_case (strip s).
Proof.
  intros Hv. destruct (lex_total s) as [toks H]. exists toks. split; [exact H|].
  intros. eapply format_preserves_nonblank; eassumption.
Qed.
