(* Proofs/FormatIgnoredProofs.v — C07 for the composed model.

   format_ignored_verbatim: when format_model returns `out`, `out` is the concatenation, over the lexer's tokens of the
   input IN ORDER, of one piece (glue ++ body) per token, and for every token the composed run marks as ignored
   (fm_marks: the toggle marks and the asm marks computed on the composed run's own tokens and lines) the body is the
   token's content and the glue is the token's own leading whitespace — byte for byte as in the input —, preceded by
   one configured line break only where the reconstructor's safety net fires (previous token a `//` comment, own
   whitespace without CR/LF, not Eof).

   The lift: no stage of the chain touches an ignored token (stage_rel, proved stage by stage: FormattingData::from,
   TokenSpacing, LowercaseKeywords, CommentFormatter, EofNewline, and the line wrapper THROUGH THE SEARCH MODEL by the
   bridge of FormatWrapProofs), and the reconstructor emits an ignored token's whitespace and content verbatim.
   fm_marks_is_ignore_marks ties the marks to Model/Toggle.v's ignore_marks, so that ToggleProofs' region semantics
   (C07_marks_region, C07_asm_marks_...) speak about the composed run. *)
From Coq Require Import Lia.
From PasfmtVerif Require Import Model.Format Proofs.FormatProofs Proofs.FormatWrapProofs Proofs.WrapApplyProofs
  Proofs.LexerProofs Proofs.GenericsProofs Proofs.ParserGrammarTypesProofs Proofs.ToggleProofs Proofs.SpacingProofs
  Proofs.ReconstructProofs.
Local Open Scope nat_scope.

(* ------------------------------------------------------------------ *)
(* what every formatting stage keeps of every token: its type, its ignore mark, and — if it is ignored — its text *)
Definition stage_rel (p q : ftoken) : Prop :=
  t_ty (fst q) = t_ty (fst p) /\ f_ignored (snd q) = f_ignored (snd p)
  /\ (f_ignored (snd p) = true -> fst q = fst p).

Lemma stage_rel_refl p : stage_rel p p.
Proof. repeat split. Qed.

Lemma stage_rel_trans x y z : stage_rel x y -> stage_rel y z -> stage_rel x z.
Proof.
  intros (A1 & A2 & A3) (B1 & B2 & B3). split; [congruence|]. split; [congruence|].
  intros H. rewrite B3; [apply A3, H|congruence].
Qed.

Lemma Forall2_pointwise (R : ftoken -> ftoken -> Prop) l' l : Forall2 (fun q p => R p q) l' l -> pointwise R l l'.
Proof.
  induction 1 as [|q p l' l H _ IH]; [split; [reflexivity|intros [|j] p H; discriminate]|].
  destruct IH as [L IH]. split; [cbn; congruence|].
  intros [|j] p0 Hp; cbn in *; [injection Hp as <-; eauto|apply IH, Hp].
Qed.

Lemma spacing_stage l : pointwise stage_rel l (token_spacing l).
Proof.
  apply Forall2_pointwise. pose proof (spacing_only_sp l) as H.
  induction H as [|q p l' l0 (Hf & n & Hs) _ IH]; constructor; [|exact IH].
  unfold stage_rel. rewrite Hf, Hs. destruct (snd p); cbn. repeat split.
Qed.

Lemma lowercase_tok_stage p : stage_rel p (lowercase_tok p).
Proof.
  destruct p as [tok f]. unfold lowercase_tok, stage_rel. destruct (f_ignored f) eqn:I; [repeat split|].
  destruct (is_keyword (t_ty tok) && existsb is_upper (t_content tok)); cbn [fst snd set_content t_ty]; repeat split; congruence.
Qed.

Lemma comment_tok_stage alnum p : stage_rel p (comment_tok alnum p).
Proof.
  destruct p as [tok f]. unfold comment_tok, stage_rel. destruct (f_ignored f) eqn:I; [repeat split|].
  match goal with |- context [match ?r with Some _ => _ | None => _ end] => destruct r end;
    cbn [fst snd set_content t_ty]; repeat split; congruence.
Qed.

Lemma eof_newline_once_stage l : pointwise stage_rel l (eof_newline_once l).
Proof.
  unfold eof_newline_once. destruct (rev l) as [|[tok f] r] eqn:E; [apply pointwise_refl, stage_rel_refl|].
  destruct (is_eof (t_ty tok)); [|apply pointwise_refl, stage_rel_refl].
  assert (El : l = rev r ++ [(tok, f)]) by (rewrite <- (rev_involutive l), E; reflexivity).
  rewrite El. split; [rewrite !app_length; reflexivity|].
  intros j p Hp. destruct (PeanoNat.Nat.lt_ge_cases j (length (rev r))) as [Hlt|Hge].
  - rewrite nth_error_app1 in Hp by exact Hlt. exists p. split; [rewrite nth_error_app1 by exact Hlt; exact Hp|apply stage_rel_refl].
  - rewrite nth_error_app2 in Hp by exact Hge. rewrite nth_error_app2 by exact Hge.
    destruct (j - length (rev r)) as [|k]; cbn in *; [|destruct k; discriminate].
    injection Hp as <-. eexists. split; [reflexivity|]. repeat split.
Qed.

Lemma eof_newline_lines_stage lines : forall l, pointwise stage_rel l (eof_newline_lines lines l).
Proof.
  unfold eof_newline_lines. induction lines as [|ln r IH]; intros l; cbn [fold_left]; [apply pointwise_refl, stage_rel_refl|].
  eapply pointwise_trans; [exact stage_rel_trans| |apply IH].
  unfold bid. destruct (ll_type ln); try (apply pointwise_refl, stage_rel_refl). apply eof_newline_once_stage.
Qed.

Lemma untouched_stage p q : untouched p q -> stage_rel p q.
Proof.
  intros (S & K). unfold shape in S. injection S as T I. split; [exact T|]. split; [exact I|].
  intros H. apply K. left; exact H.
Qed.

Lemma wrap_stage rs W fm lines l : pointwise stage_rel l (fst (fst (olf_model rs W fm lines l))).
Proof.
  destruct (olf_model_untouched rs W fm lines l) as [L H]. split; [exact L|].
  intros j p Hp. destruct (H j p Hp) as (q & Hq & U). exists q. split; [exact Hq|apply untouched_stage, U].
Qed.

(* the whole formatting half of the composed run *)
Theorem fm_stages_rel alnum cfg segs : pointwise stage_rel (fm_l0 segs) (fm_final alnum cfg segs).
Proof.
  unfold fm_final, fm_wrap, fm_l4, fm_l3, fm_l2, fm_l1.
  eapply pointwise_trans; [exact stage_rel_trans|apply spacing_stage|].
  eapply pointwise_trans; [exact stage_rel_trans|apply pointwise_map, lowercase_tok_stage|].
  eapply pointwise_trans; [exact stage_rel_trans|apply pointwise_map, comment_tok_stage|].
  eapply pointwise_trans; [exact stage_rel_trans|apply eof_newline_lines_stage|].
  apply wrap_stage.
Qed.

(* ------------------------------------------------------------------ *)
(* the tokens and the marks the formatters start from *)
Lemma combine_length_eq {A B} (a : list A) (b : list B) : length a = length b -> length (combine a b) = length a.
Proof. intros H. rewrite combine_length, <- H. apply PeanoNat.Nat.min_id. Qed.

Lemma fm_toks0_length segs : length (fm_toks0 segs) = length segs.
Proof.
  unfold fm_toks0, tokens_of, fm_parse, parse_file_model. rewrite map_length, combine_length_eq; [reflexivity|].
  rewrite parse_file_token_count, map_length. reflexivity.
Qed.

Lemma fm_toks_length segs : length (fm_toks segs) = length segs.
Proof.
  unfold fm_toks, retype. rewrite map_length, combine_length_eq; [apply fm_toks0_length|].
  rewrite generics_length, map_length. reflexivity.
Qed.

Lemma or_marks_length a b : length a = length b -> length (or_marks a b) = length a.
Proof. intros H. unfold or_marks. rewrite map_length. apply combine_length_eq, H. Qed.

Lemma or_marks_false {A} (x : list A) b : length x = length b -> or_marks (map (fun _ => false) x) b = b.
Proof.
  unfold or_marks. revert b. induction x as [|a x IH]; intros [|m b] H; cbn in *; try discriminate; [reflexivity|].
  f_equal. apply IH. congruence.
Qed.

(* the marks of the composed run are Model/Toggle.v's ignore_marks of its own tokens and lines *)
Theorem fm_marks_is_ignore_marks segs :
  fm_marks segs = ignore_marks (fm_toks segs) (map line_view (fm_lines0 segs)).
Proof.
  unfold fm_marks, ignore_marks. rewrite or_marks_false; [reflexivity|].
  rewrite toggle_marks_length, fm_toks0_length, fm_toks_length. reflexivity.
Qed.

Lemma fm_marks_length segs : length (fm_marks segs) = length segs.
Proof. rewrite fm_marks_is_ignore_marks, ignore_marks_length. apply fm_toks_length. Qed.

(* token i of the composed run carries the text of the lexer's token i *)
Lemma fm_toks0_nth segs i sg : nth_error segs i = Some sg ->
  exists tok, nth_error (fm_toks0 segs) i = Some tok /\ t_ws tok = seg_ws sg /\ t_content tok = seg_content sg.
Proof.
  intros H. unfold fm_toks0, tokens_of.
  assert (Hl : i < length (r_toks (fm_parse segs))).
  { unfold fm_parse, parse_file_model. rewrite parse_file_token_count, map_length. apply nth_error_Some. congruence. }
  destruct (nth_error (r_toks (fm_parse segs)) i) as [ty|] eqn:Et; [|apply nth_error_None in Et; lia].
  rewrite nth_error_map, (combine_nth_error _ _ _ _ _ H Et). cbn. eexists. split; [reflexivity|split; reflexivity].
Qed.

Lemma fm_toks_nth segs i sg : nth_error segs i = Some sg ->
  exists tok, nth_error (fm_toks segs) i = Some tok /\ t_ws tok = seg_ws sg /\ t_content tok = seg_content sg.
Proof.
  intros H. destruct (fm_toks0_nth segs i sg H) as (tok0 & H0 & Hw & Hc). unfold fm_toks, retype.
  set (tys := generics_consolidate (map t_ty (fm_toks0 segs))).
  assert (Hl : i < length tys).
  { subst tys. rewrite generics_length, map_length. apply nth_error_Some. congruence. }
  destruct (nth_error tys i) as [ty|] eqn:Et; [|apply nth_error_None in Et; lia].
  rewrite nth_error_map, (combine_nth_error _ _ _ _ _ H0 Et). cbn. eexists. split; [reflexivity|]. cbn. split; assumption.
Qed.

Lemma fm_l0_nth segs i sg m : nth_error segs i = Some sg -> nth_error (fm_marks segs) i = Some m ->
  exists tok, nth_error (fm_l0 segs) i = Some (tok, fmt_of_ws (seg_ws sg) m)
              /\ t_ws tok = seg_ws sg /\ t_content tok = seg_content sg.
Proof.
  intros H Hm. destruct (fm_toks_nth segs i sg H) as (tok & Ht & Hw & Hc). exists tok. split; [|split; assumption].
  unfold fm_l0. rewrite nth_error_map, (combine_nth_error _ _ _ _ _ Ht Hm). cbn. rewrite Hw. reflexivity.
Qed.

Lemma fm_l0_length segs : length (fm_l0 segs) = length segs.
Proof. unfold fm_l0. rewrite map_length, combine_length_eq; [apply fm_toks_length|]. rewrite fm_toks_length, fm_marks_length. reflexivity. Qed.

Lemma fm_final_length alnum cfg segs : length (fm_final alnum cfg segs) = length segs.
Proof. rewrite (proj1 (fm_stages_rel alnum cfg segs)). apply fm_l0_length. Qed.

(* an ignored token reaches the reconstructor with the lexer's text *)
Theorem fm_final_ignored alnum cfg segs i sg :
  nth_error segs i = Some sg -> nth_error (fm_marks segs) i = Some true ->
  exists tok f, nth_error (fm_final alnum cfg segs) i = Some (tok, f)
                /\ t_ws tok = seg_ws sg /\ t_content tok = seg_content sg /\ f_ignored f = true.
Proof.
  intros H Hm. destruct (fm_l0_nth segs i sg true H Hm) as (tok & H0 & Hw & Hc).
  destruct (proj2 (fm_stages_rel alnum cfg segs) i _ H0) as ([tok' f'] & Hq & _ & I & K). cbn [fst snd] in *.
  assert (Hi : f_ignored (fmt_of_ws (seg_ws sg) true) = true) by reflexivity.
  specialize (K Hi). subst tok'. exists tok, f'. split; [exact Hq|]. split; [exact Hw|]. split; [exact Hc|]. rewrite I. exact Hi.
Qed.

(* ------------------------------------------------------------------ *)
(* the reconstructor, token by token: (what is emitted in front of the content, the content) *)
Fixpoint recon_parts (rs : rsettings) (mb : bool) (l : list ftoken) : list (bytes * bytes) :=
  match l with
  | [] => []
  | p :: r => (emit_ws rs mb p, t_content (fst p)) :: recon_parts rs (is_sl_comment (t_ty (fst p))) r
  end.

Definition flatten_parts (ps : list (bytes * bytes)) : bytes := concat (map (fun gb : bytes * bytes => fst gb ++ snd gb) ps).

Lemma recon_is_parts rs : forall l mb, recon rs mb l = flatten_parts (recon_parts rs mb l).
Proof.
  unfold flatten_parts. induction l as [|p r IH]; intros mb; [reflexivity|].
  cbn [recon recon_parts map concat fst snd]. rewrite IH, <- app_assoc. reflexivity.
Qed.

Lemma recon_parts_length rs : forall l mb, length (recon_parts rs mb l) = length l.
Proof. induction l as [|p r IH]; intros mb; cbn; [reflexivity|]. rewrite IH. reflexivity. Qed.

(* the part of an ignored token: its own whitespace (after the safety-net break, if that fires) and its content *)
Lemma recon_parts_ignored rs : forall l mb i tok f,
  nth_error l i = Some (tok, f) -> f_ignored f = true ->
  exists nl, nth_error (recon_parts rs mb l) i = Some (nl ++ t_ws tok, t_content tok) /\ (nl = [] \/ nl = rs_newline rs).
Proof.
  induction l as [|p r IH]; intros mb i tok f H Hi; [destruct i; discriminate|].
  destruct i as [|i]; cbn [nth_error recon_parts] in *.
  - injection H as ->. cbn [emit_ws fst]. rewrite Hi.
    eexists. split; [reflexivity|]. destruct (mb && negb (has_break (t_ws tok)) && negb (is_eof (t_ty tok))); auto.
  - exact (IH _ i tok f H Hi).
Qed.

(* ------------------------------------------------------------------ *)
(* C07, end to end *)
Theorem format_ignored_verbatim alnum cfg s out :
  format_model alnum cfg s = inl out ->
  exists segs parts,
    lex_segments s = Some segs /\ concat (map seg_bytes segs) = s        (* the lexer's tokens tile the input *)
    /\ length parts = length segs /\ out = flatten_parts parts            (* one part per token, in order *)
    /\ forall i sg, nth_error segs i = Some sg -> nth_error (fm_marks segs) i = Some true ->
         exists nl, nth_error parts i = Some (nl ++ seg_ws sg, seg_content sg)
                    /\ (nl = [] \/ nl = rs_newline (cfg_rs cfg)).
Proof.
  intros H. apply format_model_spec in H. destruct H as (segs & Hl & _ & _ & _ & ->).
  exists segs, (recon_parts (cfg_rs cfg) false (fm_final alnum cfg segs)).
  split; [exact Hl|]. split.
  { unfold lex_segments in Hl. destruct (lex s) as [toks|] eqn:E; [|discriminate]. injection Hl as <-.
    exact (proj1 (proj2 (lex_lossless s toks E))). }
  split; [rewrite recon_parts_length; apply fm_final_length|].
  split; [unfold fm_out, reconstruct; apply recon_is_parts|].
  intros i sg Hs Hm. destruct (fm_final_ignored alnum cfg segs i sg Hs Hm) as (tok & f & Hn & Hw & Hc & Hi).
  destruct (recon_parts_ignored (cfg_rs cfg) _ false i tok f Hn Hi) as (nl & Hp & Hnl).
  exists nl. rewrite <- Hw, <- Hc. split; assumption.
Qed.

(* a run of ignored tokens is one contiguous piece of the output, made of the input's bytes *)
Lemma flatten_parts_app a b : flatten_parts (a ++ b) = flatten_parts a ++ flatten_parts b.
Proof. unfold flatten_parts. rewrite map_app, concat_app. reflexivity. Qed.

Theorem format_ignored_split alnum cfg s out :
  format_model alnum cfg s = inl out ->
  exists segs parts, lex_segments s = Some segs /\ length parts = length segs /\
    forall i sg, nth_error segs i = Some sg -> nth_error (fm_marks segs) i = Some true ->
      exists nl, (nl = [] \/ nl = rs_newline (cfg_rs cfg)) /\
        out = flatten_parts (firstn i parts) ++ (nl ++ seg_ws sg ++ seg_content sg) ++ flatten_parts (skipn (S i) parts).
Proof.
  intros H. destruct (format_ignored_verbatim alnum cfg s out H) as (segs & parts & Hl & _ & Hlen & -> & Hi).
  exists segs, parts. split; [exact Hl|]. split; [exact Hlen|].
  intros i sg Hs Hm. destruct (Hi i sg Hs Hm) as (nl & Hp & Hnl). exists nl. split; [exact Hnl|].
  rewrite <- (firstn_skipn i parts) at 1. rewrite flatten_parts_app. f_equal.
  assert (E : skipn i parts = (nl ++ seg_ws sg, seg_content sg) :: skipn (S i) parts).
  { clear -Hp. revert i Hp. induction parts as [|a r IH]; intros [|i] Hp; cbn [nth_error skipn] in *; try discriminate; [injection Hp as ->; reflexivity|exact (IH i Hp)]. }
  rewrite E. change (?x :: ?r) with ([x] ++ r). rewrite flatten_parts_app. f_equal.
  unfold flatten_parts. cbn. rewrite app_nil_r, <- app_assoc. reflexivity.
Qed.

(* non-vacuity: in `A;{pasfmt off}  B  ;  {pasfmt on}C;` the tokens from the off comment to the on comment are marked,
   and their bytes (blanks included) are in the output as they were *)
Example format_ignored_example :
  let s := [65;59; 123;112;97;115;102;109;116;32;111;102;102;125; 32;32;66;32;32;59;32;32; 123;112;97;115;102;109;116;32;111;110;125; 67;59]%N in
  match lex_segments s with
  | Some segs =>
      fm_marks segs = [false; false; true; true; true; true; false; false; false]
      /\ format_model (fun _ => false) (mkCfg 120 false true false 2 2 false) s
         = inl [65;59; 123;112;97;115;102;109;116;32;111;102;102;125; 32;32;66;32;32;59;32;32; 123;112;97;115;102;109;116;32;111;110;125; 10; 67;59; 10]%N
  | None => False
  end.
Proof. vm_compute. split; reflexivity. Qed.

Print Assumptions format_ignored_verbatim.
Print Assumptions format_ignored_split.
Print Assumptions fm_marks_is_ignore_marks.
