(* Proofs/LexerSpecProofs.v - a declarative specification of the main Delphi lexical rules and the
   proof that the operational model of Model/Lexer.v refines it.

   Every per-token theorem is stated for an arbitrary remaining input  b :: t  at a token start and
   for an arbitrary lexer state, in terms of [lex_token]; the runs involved (identifier bytes,
   digits, comment bodies, string pieces, ...) are characterised for EVERY length, by induction.
   Section 8 ties the per-token statements to every position of every file ([lex_steps],
   [lex_steps_sound]) and states position independence.

   Contents (section numbers follow the work plan, not the order in the file):
     0  vocabulary: tok_start, longest_run, dispatcher lemmas
     1  identifiers / keywords     lex_word_maximal, keyword_iff_in_table, keyword_type_in_table
     3  line comments              lex_line_comment_spec   (10: lex_line_comment_in_context)
     7  operators                  lex_operator_spec, lex_operator_complete, lex_operator_table_check
     2  numbers                    lex_number_spec, lex_hex_spec, lex_binary_spec
     8  positions                  lex_steps_sound, lex_steps_deterministic,
                                   lex_position_independent, lex_same_suffix_same_tokens
     4  block comments             lex_block_comment_spec
     5  single-line text literals  lex_string_spec, lex_string_maximal
     6  multi-line text literals   ml_opener_spec, lex_multiline_spec
     9  other first bytes          lex_unknown_spec, lex_amp_identifier_spec *)
From PasfmtVerif Require Import Model.Lexer Proofs.LexerProofs.
From Coq Require Import Arith.

(* ================================================================== *)
(* 0. Specification vocabulary                                         *)

(* a token start: what [lexed] records about the first byte of every token *)
Definition tok_start (b : byte) (t : bytes) : Prop :=
  (b <=? 32) = false /\ is_u3000_at (b :: t) = false.

(* [longest_run p l n]: the first n bytes of l are in the class p and the next byte, if any, is not:
   n is the length of the maximal p-prefix of l *)
Definition longest_run (p : byte -> bool) (l : bytes) (n : nat) : Prop :=
  (n <= length l)%nat /\
  forallb p (firstn n l) = true /\
  match skipn n l with [] => True | x :: _ => p x = false end.

Lemma count_while_longest (p : byte -> bool) l : longest_run p l (count_while p l).
Proof.
  unfold longest_run. split; [apply count_while_le|]. split; [apply count_while_firstn|].
  induction l as [|a t IH]; [exact I|]. simpl.
  destruct (p a) eqn:E; [exact IH|]. simpl. exact E.
Qed.

Lemma longest_run_unique (p : byte -> bool) l : forall n, longest_run p l n -> n = count_while p l.
Proof.
  induction l as [|a t IH]; intros n (Hle & Hall & Hnext).
  - simpl in Hle. simpl. blia.
  - destruct n as [|n].
    + simpl in Hnext. simpl. rewrite Hnext. reflexivity.
    + simpl in Hall. apply andb_true_iff in Hall. destruct Hall as [Ha Hall].
      simpl. rewrite Ha. f_equal. apply IH. split; [simpl in Hle; blia|].
      split; [exact Hall|exact Hnext].
Qed.

(* any two maximal runs coincide: the run is determined by the text alone *)
Lemma longest_run_functional (p : byte -> bool) l n m : longest_run p l n -> longest_run p l m -> n = m.
Proof. intros Hn Hm. rewrite (longest_run_unique _ _ _ Hn), (longest_run_unique _ _ _ Hm). reflexivity. Qed.

(* a p-prefix is never longer than the maximal run *)
Lemma prefix_le_count_while (p : byte -> bool) (x y : bytes) : forallb p x = true -> (length x <= count_while p (x ++ y))%nat.
Proof.
  induction x as [|a x IH]; intros H; simpl; [blia|].
  simpl in H. apply andb_true_iff in H. destruct H as [Ha H]. rewrite Ha. specialize (IH H). blia.
Qed.

Lemma count_while_app_stop (p : byte -> bool) (x y : bytes) :
  forallb p x = true -> match y with [] => True | c :: _ => p c = false end ->
  count_while p (x ++ y) = length x.
Proof.
  intros Hx Hy. symmetry. apply longest_run_unique. unfold longest_run.
  rewrite firstn_app_exact, skipn_app_exact, app_length. split; [blia|]. split; assumption.
Qed.

Lemma firstn_add {A} a : forall b (l : list A), firstn (a + b) l = firstn a l ++ firstn b (skipn a l).
Proof.
  induction a as [|a IH]; intros b l; [reflexivity|].
  destruct l as [|x l]; [cbn [Nat.add firstn skipn app]; rewrite firstn_nil; reflexivity|].
  cbn [Nat.add firstn skipn]. rewrite IH. reflexivity.
Qed.

(* deciding the byte tests of the dispatcher *)
Ltac decide_eqb :=
  repeat match goal with
  | |- context [?x =? ?c] =>
      first [ replace (x =? c) with false by (symmetry; apply N.eqb_neq; blia)
            | replace (x =? c) with true by (symmetry; apply N.eqb_eq; blia) ]
  end.

Lemma is_digit_range b : is_digit b = true -> 48 <= b /\ b <= 57.
Proof. unfold is_digit. intros H. apply andb_true_iff in H. destruct H as [H1 H2].
  apply N.leb_le in H1, H2. split; assumption. Qed.

Lemma is_alpha_range b : is_alpha b = true -> (65 <= b /\ b <= 90) \/ (97 <= b /\ b <= 122).
Proof. unfold is_alpha, is_upper, is_lower. intros H. apply orb_true_iff in H.
  destruct H as [H|H]; apply andb_true_iff in H; destruct H as [H1 H2]; apply N.leb_le in H1, H2;
    [left|right]; split; assumption. Qed.

(* ------------------------------------------------------------------ *)
(* the dispatcher on each class of first byte *)

Definition asm_result (st : lstate) (b : byte) (ty : RawTokenType) : bool :=
  if ls_asm st then true else if is_alpha b then is_kw_asm ty else false.

(* normal mode: lex_token is lex_common plus the in_asm bookkeeping *)
Lemma lex_token_normal st nlb b t : ls_asm st = false ->
  lex_token st nlb b t =
  match lex_common st nlb b t with
  | TOk n ty => Some (n, ty, if is_alpha b then is_kw_asm ty else false)
  | TFuel => None
  end.
Proof. intros H. unfold lex_token. rewrite H. reflexivity. Qed.

Lemma lex_common_digit st nlb b t : is_digit b = true ->
  lex_common st nlb b t = TOk (dec_number_literal t) (RTT_NumberLiteral NK_Decimal).
Proof.
  intros H. unfold lex_common. rewrite H. apply is_digit_range in H. decide_eqb. reflexivity.
Qed.

Lemma lex_common_alpha st nlb b t : is_alpha b = true ->
  lex_common st nlb b t = tok (identifier_or_keyword st b t).
Proof.
  intros H. unfold lex_common. rewrite H.
  assert (Hd : is_digit b = false).
  { apply is_alpha_range in H. unfold is_digit. destruct H as [H|H].
    - replace (48 <=? b) with true by (symmetry; apply N.leb_le; blia).
      replace (b <=? 57) with false by (symmetry; apply N.leb_gt; blia). reflexivity.
    - replace (b <=? 57) with false by (symmetry; apply N.leb_gt; blia). apply andb_false_r. }
  rewrite Hd. apply is_alpha_range in H. destruct H as [H|H]; decide_eqb; reflexivity.
Qed.

Lemma lex_common_underscore st nlb t :
  lex_common st nlb 95 t = TOk (find_identifier_end t) RTT_Identifier.
Proof. reflexivity. Qed.

Lemma lex_common_high st nlb b t : 128 <= b ->
  lex_common st nlb b t = TOk (unicode_identifier t) RTT_Identifier.
Proof.
  intros H. unfold lex_common.
  assert (Hd : is_digit b = false).
  { unfold is_digit. replace (b <=? 57) with false by (symmetry; apply N.leb_gt; blia). apply andb_false_r. }
  assert (Ha : is_alpha b = false).
  { unfold is_alpha, is_upper, is_lower.
    replace (b <=? 90) with false by (symmetry; apply N.leb_gt; blia).
    replace (b <=? 122) with false by (symmetry; apply N.leb_gt; blia).
    rewrite !andb_false_r. reflexivity. }
  rewrite Hd, Ha. replace (128 <=? b) with true by (symmetry; apply N.leb_le; blia).
  decide_eqb. reflexivity.
Qed.

(* ================================================================== *)
(* 1. Identifiers and keywords                                         *)

(* [ident_byte l]: the first byte of l is an identifier byte: an ASCII letter, digit or underscore,
   or a byte >= 0x80 that does not start the triple E3 80 80 (U+3000, which is a blank) *)
Definition ident_byte (l : bytes) : bool :=
  match l with
  | [] => false
  | b :: _ => is_ident_ascii b || ((128 <=? b) && negb (is_u3000_at l))
  end.

(* [ident_run l n]: positions 0..n-1 of l are identifier bytes and position n (if any) is not *)
Definition ident_run (l : bytes) (n : nat) : Prop :=
  (n <= length l)%nat /\
  (forall i, (i < n)%nat -> ident_byte (skipn i l) = true) /\
  ident_byte (skipn n l) = false.

Lemma ident_end_generic_step b t :
  ident_end_generic (b :: t) = if ident_byte (b :: t) then S (ident_end_generic t) else O.
Proof.
  rewrite ident_end_generic_unfold. unfold ident_byte.
  destruct (is_ident_ascii b); [reflexivity|]. cbn [orb]. reflexivity.
Qed.

Lemma ident_end_generic_run l : ident_run l (ident_end_generic l).
Proof.
  unfold ident_run. split; [apply ident_end_generic_le|].
  induction l as [|b t IH]; [split; [intros i Hi; simpl in Hi; blia|reflexivity]|].
  rewrite ident_end_generic_step. destruct (ident_byte (b :: t)) eqn:E.
  - destruct IH as [IH1 IH2]. split; [|exact IH2].
    intros [|i] Hi; [exact E|]. cbn [skipn]. apply IH1. blia.
  - split; [intros i Hi; blia|exact E].
Qed.

Lemma ident_run_unique l : forall n, ident_run l n -> n = ident_end_generic l.
Proof.
  induction l as [|b t IH]; intros n (Hle & Hall & Hnext).
  - simpl in Hle. simpl. blia.
  - rewrite ident_end_generic_step. destruct n as [|n].
    + cbn [skipn] in Hnext. rewrite Hnext. reflexivity.
    + assert (H0 : ident_byte (b :: t) = true) by (apply (Hall O); blia).
      rewrite H0. f_equal. apply IH. split; [simpl in Hle; blia|]. split; [|exact Hnext].
      intros i Hi. apply (Hall (S i)). blia.
Qed.

Lemma ident_run_functional l n m : ident_run l n -> ident_run l m -> n = m.
Proof. intros Hn Hm. rewrite (ident_run_unique _ _ Hn), (ident_run_unique _ _ Hm). reflexivity. Qed.

Lemma is_cont_ident_byte x t : is_cont x = true -> ident_byte (x :: t) = true.
Proof.
  intros H. apply is_cont_range in H. destruct H as [H1 H2]. unfold ident_byte.
  replace (128 <=? x) with true by (symmetry; apply N.leb_le; blia).
  rewrite is_u3000_at_ne by blia. apply orb_true_r.
Qed.

(* skipping continuation bytes first makes no difference: they are identifier bytes anyway *)
Lemma unicode_identifier_eq t : unicode_identifier t = ident_end_generic t.
Proof.
  unfold unicode_identifier, find_identifier_end. cbv zeta.
  induction t as [|x t IH]; [reflexivity|].
  cbn [count_while]. destruct (is_cont x) eqn:E.
  - cbn [skipn Nat.add]. rewrite IH, ident_end_generic_step, (is_cont_ident_byte _ _ E). reflexivity.
  - reflexivity.
Qed.

Definition word_start (b : byte) : bool := is_alpha b || (b =? 95) || (128 <=? b).

Lemma word_start_ident_byte b t :
  word_start b = true -> is_u3000_at (b :: t) = false -> ident_byte (b :: t) = true.
Proof.
  unfold word_start, ident_byte, is_ident_ascii, is_alnum. intros H Hu. rewrite Hu.
  destruct (is_alpha b); [reflexivity|]. destruct (b =? 95); [destruct (is_digit b); reflexivity|].
  cbn [orb] in H. rewrite H. destruct (is_digit b); reflexivity.
Qed.

(* ---- keywords ---- *)

Lemma keyword_lookup_cases tbl w :
  (keyword_lookup tbl w = RTT_Identifier /\ forall ty, ~ In (lower w, ty) tbl) \/
  In (lower w, keyword_lookup tbl w) tbl.
Proof.
  induction tbl as [|[k ty] rest IH]; [left; split; [reflexivity|intros ty H; exact H]|].
  cbn [keyword_lookup]. unfold eq_ignore_case. destruct (bytes_eqb (lower w) k) eqn:E.
  - apply bytes_eqb_eq in E. subst k. right. left. reflexivity.
  - assert (Hk : lower w <> k).
    { intros Hk. apply bytes_eqb_eq in Hk. congruence. }
    destruct IH as [[IH1 IH2]|IH].
    + left. split; [exact IH1|]. intros ty' [H|H]; [injection H as H _; congruence|exact (IH2 _ H)].
    + right. right. exact IH.
Qed.

Definition is_identifier_ty (ty : RawTokenType) : bool :=
  match ty with RTT_Identifier => true | _ => false end.

Lemma KEYWORDS_table_no_identifier :
  forallb (fun p => negb (is_identifier_ty (snd p))) KEYWORDS_table = true.
Proof. vm_compute. reflexivity. Qed.

(* a word is a plain identifier iff no entry of the keyword table equals it up to ASCII case *)
Theorem keyword_iff_in_table : forall w,
  get_word_token_type w = RTT_Identifier <-> (forall ty, ~ In (lower w, ty) KEYWORDS_table).
Proof.
  intros w. unfold get_word_token_type.
  destruct (keyword_lookup_cases KEYWORDS_table w) as [[H1 H2]|H].
  - split; [intros _; exact H2|intros _; exact H1].
  - split.
    + intros E. rewrite E in H. pose proof KEYWORDS_table_no_identifier as HT.
      rewrite forallb_forall in HT. specialize (HT _ H). discriminate.
    + intros Hn. exfalso. exact (Hn _ H).
Qed.

Fixpoint keys_distinct (l : list bytes) : bool :=
  match l with
  | [] => true
  | k :: r => negb (existsb (bytes_eqb k) r) && keys_distinct r
  end.

Lemma keys_distinct_lookup tbl : keys_distinct (map fst tbl) = true ->
  forall k (ty ty' : RawTokenType), In (k, ty) tbl -> In (k, ty') tbl -> ty = ty'.
Proof.
  induction tbl as [|[k0 ty0] rest IH]; intros Hd k ty ty' H1 H2; [contradiction|].
  cbn [map fst keys_distinct] in Hd. apply andb_true_iff in Hd. destruct Hd as [Hn Hd].
  assert (Hrest : forall ty1, In (k0, ty1) rest -> False).
  { intros ty1 Hin. apply negb_true_iff in Hn.
    assert (Hex : existsb (bytes_eqb k0) (map fst rest) = true).
    { apply existsb_exists. exists k0. split; [|apply bytes_eqb_eq; reflexivity].
      apply in_map_iff. exists (k0, ty1). split; [reflexivity|exact Hin]. }
    congruence. }
  destruct H1 as [H1|H1], H2 as [H2|H2].
  - congruence.
  - injection H1 as <- <-. exfalso. exact (Hrest _ H2).
  - injection H2 as <- <-. exfalso. exact (Hrest _ H1).
  - exact (IH Hd _ _ _ H1 H2).
Qed.

Lemma KEYWORDS_table_keys_distinct : keys_distinct (map fst KEYWORDS_table) = true.
Proof. vm_compute. reflexivity. Qed.

(* ... and a word that is in the table (case-insensitively) gets exactly the type listed there *)
Theorem keyword_type_in_table : forall w ty,
  In (lower w, ty) KEYWORDS_table -> get_word_token_type w = ty.
Proof.
  intros w ty H. unfold get_word_token_type.
  destruct (keyword_lookup_cases KEYWORDS_table w) as [[_ H2]|H'].
  - exfalso. exact (H2 _ H).
  - exact (keys_distinct_lookup _ KEYWORDS_table_keys_distinct _ _ _ H' H).
Qed.

(* every keyword starts with a lower-case ASCII letter, so a word that does not start with an ASCII
   letter is never a keyword *)
Definition key_starts_lower (p : bytes * RawTokenType) : bool :=
  match fst p with k :: _ => is_lower k | [] => false end.

Lemma KEYWORDS_table_start_lower : forallb key_starts_lower KEYWORDS_table = true.
Proof. vm_compute. reflexivity. Qed.

Lemma is_lower_to_lower b : is_lower (to_lower b) = true -> is_alpha b = true.
Proof.
  unfold to_lower, is_alpha. destruct (is_upper b); [reflexivity|]. intros ->. reflexivity.
Qed.

Lemma get_word_token_type_non_alpha b w :
  is_alpha b = false -> get_word_token_type (b :: w) = RTT_Identifier.
Proof.
  intros Hb. apply keyword_iff_in_table. intros ty Hin.
  pose proof KEYWORDS_table_start_lower as HT. rewrite forallb_forall in HT.
  specialize (HT _ Hin). unfold key_starts_lower in HT. cbn [fst lower map] in HT.
  apply is_lower_to_lower in HT. congruence.
Qed.

(* THE WORD RULE.  At a token start whose first byte is a letter, an underscore or a non-ASCII byte,
   in normal mode, for a word of ANY length:
   - the token is the maximal run of identifier bytes ([ident_run], S n bytes including b);
   - its type is the keyword-table entry of the word (compared case-insensitively), or Identifier
     when there is none or when the previous real token is a dot;
   - the lexer enters asm mode iff that type is the keyword asm. *)
Theorem lex_word_maximal : forall st nlb b t,
  ls_asm st = false -> word_start b = true -> is_u3000_at (b :: t) = false ->
  exists n ty,
    lex_token st nlb b t = Some (n, ty, is_kw_asm ty) /\
    ident_run (b :: t) (S n) /\
    S n = ident_end_generic (b :: t) /\
    ty = (if prev_is_dot st then RTT_Identifier else get_word_token_type (b :: firstn n t)).
Proof.
  intros st nlb b t Hasm Hw Hu.
  pose proof (word_start_ident_byte _ _ Hw Hu) as Hib.
  assert (Hlen : S (ident_end_generic t) = ident_end_generic (b :: t)).
  { rewrite ident_end_generic_step. unfold bytes, byte in *. rewrite Hib. reflexivity. }
  exists (ident_end_generic t).
  exists (if prev_is_dot st then RTT_Identifier
          else get_word_token_type (b :: firstn (ident_end_generic t) t)).
  split; [|split; [rewrite Hlen; apply ident_end_generic_run|split; [exact Hlen|reflexivity]]].
  rewrite lex_token_normal by exact Hasm.
  destruct (is_alpha b) eqn:Ea.
  - rewrite lex_common_alpha by exact Ea. reflexivity.
  - assert (Hty : (if prev_is_dot st then RTT_Identifier
                   else get_word_token_type (b :: firstn (ident_end_generic t) t)) = RTT_Identifier).
    { destruct (prev_is_dot st); [reflexivity|]. apply get_word_token_type_non_alpha. exact Ea. }
    rewrite Hty. unfold word_start in Hw. rewrite Ea in Hw. cbn [orb] in Hw.
    destruct (b =? 95) eqn:E95.
    + apply N.eqb_eq in E95. subst b. rewrite lex_common_underscore. reflexivity.
    + cbn [orb] in Hw. apply N.leb_le in Hw. rewrite lex_common_high by exact Hw.
      rewrite unicode_identifier_eq. reflexivity.
Qed.

(* the byte following a word token is never an identifier byte: two words are never adjacent *)
Corollary lex_word_followed_by_non_ident : forall st nlb b t n ty a,
  ls_asm st = false -> word_start b = true -> is_u3000_at (b :: t) = false ->
  lex_token st nlb b t = Some (n, ty, a) -> ident_byte (skipn n t) = false.
Proof.
  intros st nlb b t n ty a Hasm Hw Hu H.
  destruct (lex_word_maximal st nlb b t Hasm Hw Hu) as (n' & ty' & E & (_ & _ & Hr) & _).
  rewrite E in H. injection H as <- _ _. exact Hr.
Qed.

(* a 40-byte identifier followed by U+3000 and more text; a keyword in mixed case; the same keyword
   after a dot; a word starting with a non-ASCII character *)
Example lex_word_example :
  lex_token init_state true 120 (repeat 121 39 ++ [227; 128; 128; 65]) = Some (39%nat, RTT_Identifier, false)
  /\ lex_token init_state false 66 [69; 103; 73; 110; 59] = Some (4%nat, RTT_Keyword KK_Begin, false)
  /\ lex_token (mkLS false false (Some (RTT_Op OK_Dot))) false 66 [69; 103; 73; 110; 59]
     = Some (4%nat, RTT_Identifier, false)
  /\ lex_token init_state false 195 [169; 116; 195; 169; 43] = Some (4%nat, RTT_Identifier, false)
  /\ lex_token init_state false 97 [115; 109; 10] = Some (2%nat, RTT_Keyword KK_Asm, true).
Proof. vm_compute. repeat split; reflexivity. Qed.

Example lex_word_hyps_example :
  ls_asm init_state = false /\ word_start 120 = true /\
  is_u3000_at (120 :: repeat 121 39 ++ [227; 128; 128; 65]) = false.
Proof. vm_compute. repeat split; reflexivity. Qed.

Example keyword_iff_in_table_example :
  get_word_token_type [66; 69; 71; 73; 78] = RTT_Keyword KK_Begin /\
  In (lower [66; 69; 71; 73; 78], RTT_Keyword KK_Begin) KEYWORDS_table /\
  get_word_token_type [98; 101; 103; 105; 110; 115] = RTT_Identifier.
Proof. split; [vm_compute; reflexivity|]. split; [|vm_compute; reflexivity].
  vm_compute. do 10 right. left. reflexivity. Qed.

(* ================================================================== *)
(* 3. Line comments                                                    *)

Definition not_eol (b : byte) : bool := negb (is_eol b).

(* THE LINE COMMENT RULE.  Two slashes open a comment that extends up to, but not including, the
   first CR or LF, or to the end of the input: its body is the maximal run of non-CR/LF bytes, of
   any length.  It is an IndividualLine comment iff the flag nlb is set, i.e. (section 8,
   [lex_steps]) iff it is the first token of the file or its leading blanks contain a LF.
   The rule is the same in asm mode; the mode is unchanged. *)
Theorem lex_line_comment_spec : forall st nlb (t : bytes),
  exists n,
    lex_token st nlb 47 (47 :: t) =
      Some (S n, RTT_Comment (if nlb then CoK_IndividualLine else CoK_InlineLine), ls_asm st) /\
    longest_run not_eol t n.
Proof.
  intros st nlb t. exists (line_comment_len t). split.
  - unfold lex_token. destruct (ls_asm st); reflexivity.
  - apply count_while_longest.
Qed.

(* slash-slash x CR LF y: the comment is slash-slash x; a 1000-byte comment body up to end of input *)
Example lex_line_comment_example :
  lex_token init_state false 47 [47; 120; 13; 10; 121] = Some (2%nat, RTT_Comment CoK_InlineLine, false) /\
  lex_token init_state true 47 [47; 120; 10] = Some (2%nat, RTT_Comment CoK_IndividualLine, false) /\
  lex_token init_state true 47 (47 :: repeat 32 1000) = Some (1001%nat, RTT_Comment CoK_IndividualLine, false) /\
  lex [120; 32; 47; 47; 97; 13; 10; 47; 47; 98]
    = Some [(0, 1, RTT_Identifier); (1, 3, RTT_Comment CoK_InlineLine);
            (2, 3, RTT_Comment CoK_IndividualLine); (0, 0, RTT_Eof)]%nat.
Proof. vm_compute. repeat split; reflexivity. Qed.

(* ================================================================== *)
(* 7. Operators                                                        *)

(* The declarative table: two-byte operators, one-byte operators, and the two-byte comment openers
   that take precedence over the operators sharing their first byte. *)
Definition two_byte_ops : list (byte * byte * OperatorKind) :=
  [ (58, 61, OK_Assign);          (* := *)
    (60, 61, OK_LessEqual);       (* <= *)
    (62, 61, OK_GreaterEqual);    (* >= *)
    (60, 62, OK_NotEqual);        (* <> *)
    (46, 46, OK_DotDot);          (* .. *)
    (40, 46, OK_LBrack);          (* (. *)
    (46, 41, OK_RBrack) ].        (* .) *)

Definition one_byte_ops : list (byte * OperatorKind) :=
  [ (43, OK_Plus); (45, OK_Minus); (42, OK_Star); (47, OK_Slash); (44, OK_Comma);
    (59, OK_Semicolon); (58, OK_Colon); (61, OK_Equal EK_Comp); (60, OK_LessThan ChK_Comp);
    (62, OK_GreaterThan ChK_Comp); (91, OK_LBrack); (93, OK_RBrack); (40, OK_LParen);
    (41, OK_RParen); (94, OK_Caret CaK_Deref); (64, OK_AddressOf); (46, OK_Dot) ].

Definition comment_openers : list (byte * byte) := [ (40, 42); (47, 47) ].   (* paren-star, slash-slash *)

Definition find_one (b : byte) : option (nat * OperatorKind) :=
  match find (fun p => b =? fst p) one_byte_ops with
  | Some p => Some (O, snd p)
  | None => None
  end.

(* op_spec b o: b is the first byte, o the byte after it (None at the end of the input).
   Result: Some (extra bytes consumed after b, operator) or None when the token is not an operator.
   Longest match: a two-byte operator wins over its one-byte prefix. *)
Definition op_spec (b : byte) (o : option byte) : option (nat * OperatorKind) :=
  match o with
  | Some x =>
      if existsb (fun p => (b =? fst p) && (x =? snd p)) comment_openers then None
      else match find (fun p => (b =? fst (fst p)) && (x =? snd (fst p))) two_byte_ops with
           | Some p => Some (1%nat, snd p)
           | None => find_one b
           end
  | None => find_one b
  end.

Definition op_bytes : list byte := map fst one_byte_ops.

Lemma op_spec_some_in b o r : op_spec b o = Some r -> In b op_bytes.
Proof.
  assert (H1 : forall r', find_one b = Some r' -> In b op_bytes).
  { unfold find_one. intros r'.
    match goal with |- context [find ?f ?l] => destruct (find f l) as [p|] eqn:E end;
      [|intros Hx; discriminate Hx].
    intros _. apply find_some in E. destruct E as [E1 E2]. cbv beta in E2. apply N.eqb_eq in E2. subst b.
    unfold op_bytes. apply in_map. exact E1. }
  unfold op_spec. destruct o as [x|]; [|apply H1].
  match goal with |- context [existsb ?f comment_openers] => destruct (existsb f comment_openers) end;
    [intros Hx; discriminate Hx|].
  match goal with |- context [find ?f two_byte_ops] => destruct (find f two_byte_ops) as [p|] eqn:E end;
    [|apply H1].
  intros _. apply find_some in E. destruct E as [E1 E2]. cbv beta in E2. apply andb_true_iff in E2.
  destruct E2 as [E2 _]. apply N.eqb_eq in E2. subst b. revert E1.
  unfold two_byte_ops, op_bytes. cbn [In]. intros E1.
  repeat (destruct E1 as [<-|E1]; [vm_compute; tauto|]). contradiction.
Qed.

(* split the byte after the operator byte into the six bytes that matter and the rest *)
Lemma second_byte_cases (x : byte) :
  x = 42 \/ x = 47 \/ x = 61 \/ x = 62 \/ x = 46 \/ x = 41 \/
  ((x =? 42) = false /\ (x =? 47) = false /\ (x =? 61) = false /\
   (x =? 62) = false /\ (x =? 46) = false /\ (x =? 41) = false).
Proof.
  destruct (x =? 42) eqn:E1; [left; apply N.eqb_eq; exact E1|right].
  destruct (x =? 47) eqn:E2; [left; apply N.eqb_eq; exact E2|right].
  destruct (x =? 61) eqn:E3; [left; apply N.eqb_eq; exact E3|right].
  destruct (x =? 62) eqn:E4; [left; apply N.eqb_eq; exact E4|right].
  destruct (x =? 46) eqn:E5; [left; apply N.eqb_eq; exact E5|right].
  destruct (x =? 41) eqn:E6; [left; apply N.eqb_eq; exact E6|right].
  repeat split; reflexivity.
Qed.

Ltac op_unfold_in H :=
  unfold op_spec, find_one, comment_openers, two_byte_ops, one_byte_ops in H;
  cbn [existsb find fst snd] in H.

(* THE OPERATOR RULE (soundness).  Whenever the table yields an operator for the first two bytes,
   lex_token produces exactly that operator with exactly that length, whatever follows, in any
   state (in asm mode the at-sign is a label prefix instead, hence the side condition). *)
Theorem lex_operator_spec : forall st nlb (b : byte) (t : bytes) n k,
  (ls_asm st = false \/ b <> 64) ->
  op_spec b (hd_error t) = Some (n, k) ->
  lex_token st nlb b t = Some (n, RTT_Op k, ls_asm st).
Proof.
  intros st nlb b t n k Hasm H.
  pose proof (op_spec_some_in _ _ _ H) as Hin.
  unfold op_bytes, one_byte_ops in Hin. cbn [map fst In] in Hin.
  Ltac op_finish Hasm st :=
    first [ destruct (ls_asm st); reflexivity
          | destruct Hasm as [Hasm|Hasm];
            [rewrite Hasm; reflexivity|exfalso; apply Hasm; reflexivity] ].
  Ltac op_one Hasm H st t :=
    let x := fresh "x" in let t' := fresh "t'" in
    destruct t as [|x t']; cbn [hd_error] in H;
    [ vm_compute in H; try discriminate; injection H as <- <-; unfold lex_token; op_finish Hasm st
    | let E1 := fresh "E" in let E2 := fresh "E" in let E3 := fresh "E" in
      let E4 := fresh "E" in let E5 := fresh "E" in let E6 := fresh "E" in
      destruct (second_byte_cases x) as [->|[->|[->|[->|[->|[->|(E1 & E2 & E3 & E4 & E5 & E6)]]]]]];
      [ vm_compute in H; try discriminate; injection H as <- <-; unfold lex_token; op_finish Hasm st ..
      | op_unfold_in H; rewrite E1, E2, ?E3, ?E4, ?E5, ?E6 in H; vm_compute in H;
        try discriminate; injection H as <- <-;
        unfold lex_token, lex_common, next_is; rewrite ?E1, ?E2, ?E3, ?E4, ?E5, ?E6;
        op_finish Hasm st ] ].
  repeat (destruct Hin as [<-|Hin]; [op_one Hasm H st t|]). contradiction.
Qed.

(* ---- completeness: nothing else is an operator ---- *)

Definition is_op_ty (ty : RawTokenType) : bool := match ty with RTT_Op _ => true | _ => false end.
Definition tres_not_op (r : tres) : Prop :=
  match r with TOk _ ty => is_op_ty ty = false | TFuel => True end.

Lemma tshift_not_op k r : tres_not_op r -> tres_not_op (tshift k r).
Proof. destruct r; exact (fun H => H). Qed.

Lemma cdoc_not_op k nlb l : tres_not_op (compiler_directive_or_comment k nlb l).
Proof.
  unfold compiler_directive_or_comment. destruct (next_is 36 l).
  - apply tshift_not_op. unfold compiler_directive. cbv zeta.
    destruct (parse_directive_end _ k (tl l)); cbn [tres_not_op]; try exact I;
      destruct (conditional_directive_kind _); reflexivity.
  - unfold block_comment. destruct (find_block_comment_end k l); reflexivity.
Qed.

Lemma KEYWORDS_table_no_op : forallb (fun p => negb (is_op_ty (snd p))) KEYWORDS_table = true.
Proof. vm_compute. reflexivity. Qed.

Lemma get_word_token_type_not_op w : is_op_ty (get_word_token_type w) = false.
Proof.
  unfold get_word_token_type.
  destruct (keyword_lookup_cases KEYWORDS_table w) as [[H _]|H]; [rewrite H; reflexivity|].
  pose proof KEYWORDS_table_no_op as HT. rewrite forallb_forall in HT. specialize (HT _ H).
  apply negb_true_iff in HT. exact HT.
Qed.

Lemma lex_common_not_op st nlb (b : byte) (t : bytes) :
  ~ In b op_bytes -> tres_not_op (lex_common st nlb b t).
Proof.
  intros Hb.
  assert (Hne : forall c, In c op_bytes -> (b =? c) = false).
  { intros c Hc. apply N.eqb_neq. intros ->. exact (Hb Hc). }
  unfold lex_common.
  rewrite (Hne 40), (Hne 47), (Hne 58), (Hne 60), (Hne 62), (Hne 46), (Hne 43), (Hne 45), (Hne 42),
    (Hne 44), (Hne 59), (Hne 61), (Hne 94), (Hne 64), (Hne 91), (Hne 93), (Hne 41)
    by (vm_compute; tauto).
  destruct (b =? 123); [apply cdoc_not_op|].
  destruct ((b =? 39) || (b =? 35)).
  { unfold text_literal. destruct (_ && _ && _); [destruct (find_sub _ _)|]; reflexivity. }
  destruct (b =? 38).
  { unfold ampersand. destruct (skipn _ t) as [|c r]; [reflexivity|].
    repeat match goal with |- context [if ?e then _ else _] => destruct e end; reflexivity. }
  destruct (b =? 37); [reflexivity|]. destruct (b =? 36); [reflexivity|].
  destruct (is_digit b); [reflexivity|].
  destruct (is_alpha b).
  { unfold identifier_or_keyword, tok. cbn [fst snd tres_not_op].
    destruct (prev_is_dot st); [reflexivity|apply get_word_token_type_not_op]. }
  destruct (b =? 95); [reflexivity|]. destruct (128 <=? b); reflexivity.
Qed.

(* THE OPERATOR RULE (completeness): in normal mode a token is an operator only if the table says so,
   with the table's length and kind.  Together with [lex_operator_spec]:
     lex_token st nlb b t = Some (n, RTT_Op k, _)  <->  op_spec b (hd_error t) = Some (n, k). *)
Theorem lex_operator_complete : forall st nlb (b : byte) (t : bytes) n k a,
  ls_asm st = false ->
  lex_token st nlb b t = Some (n, RTT_Op k, a) ->
  op_spec b (hd_error t) = Some (n, k).
Proof.
  intros st nlb b t n k a Hasm H.
  destruct (op_spec b (hd_error t)) as [[n' k']|] eqn:E.
  { rewrite (lex_operator_spec st nlb b t n' k' (or_introl Hasm) E) in H.
    injection H as -> -> _. reflexivity. }
  exfalso. rewrite lex_token_normal in H by exact Hasm.
  assert (Hno : tres_not_op (lex_common st nlb b t)); [|
    destruct (lex_common st nlb b t) as [n1 ty1|]; [|discriminate];
    injection H as _ -> _; discriminate Hno].
  clear H.
  destruct (in_dec N.eq_dec b op_bytes) as [Hin|Hnin]; [|apply lex_common_not_op; exact Hnin].
  unfold op_bytes, one_byte_ops in Hin. cbn [map fst In] in Hin.
  Ltac opc_one E t :=
    let x := fresh "x" in let t' := fresh "t'" in
    destruct t as [|x t']; cbn [hd_error] in E;
    [ vm_compute in E; discriminate E
    | let E1 := fresh "E" in let E2 := fresh "E" in let E3 := fresh "E" in
      let E4 := fresh "E" in let E5 := fresh "E" in let E6 := fresh "E" in
      destruct (second_byte_cases x) as [->|[->|[->|[->|[->|[->|(E1 & E2 & E3 & E4 & E5 & E6)]]]]]];
      [ first [ vm_compute in E; discriminate E
              | apply (tshift_not_op 1), cdoc_not_op
              | exact (eq_refl : is_op_ty (RTT_Comment _) = false) ] ..
      | op_unfold_in E; rewrite E1, E2, ?E3, ?E4, ?E5, ?E6 in E; vm_compute in E; discriminate E ] ].
  repeat (destruct Hin as [<-|Hin]; [opc_one E t|]). contradiction.
Qed.

(* the whole table at once: every (first byte, following byte or end of input) combination, in both
   modes, checked by computation against the model lexer *)
Definition all_bytes : list byte := map N.of_nat (seq 0 256).

Definition op_table_check (st : lstate) (b : byte) (o : option byte) : bool :=
  let t := match o with Some x => [x] | None => [] end in
  match op_spec b o, lex_token st false b t with
  | Some (n, k), Some (n', RTT_Op k', _) => Nat.eqb n n' && OperatorKind_eqb k k'
  | Some _, _ => ls_asm st && (b =? 64)
  | None, Some (_, RTT_Op _, _) => false
  | None, _ => true
  end.

Example lex_operator_table_check :
  forallb (fun b => forallb (op_table_check init_state b) (None :: map Some all_bytes)) all_bytes = true /\
  forallb (fun b => forallb (op_table_check (mkLS false true None) b) (None :: map Some all_bytes))
    all_bytes = true.
Proof. split; vm_compute; reflexivity. Qed.

(* colon-equals wins over colon, less-greater over less, dot-dot over dot; paren-dot and dot-paren
   are brackets; paren-star is not an operator *)
Example lex_operator_example :
  lex_token init_state false 58 [61; 61] = Some (1%nat, RTT_Op OK_Assign, false) /\
  lex_token init_state false 60 [62; 61] = Some (1%nat, RTT_Op OK_NotEqual, false) /\
  lex_token init_state false 46 [46; 46] = Some (1%nat, RTT_Op OK_DotDot, false) /\
  lex_token init_state false 40 [46] = Some (1%nat, RTT_Op OK_LBrack, false) /\
  lex_token init_state false 46 [41] = Some (1%nat, RTT_Op OK_RBrack, false) /\
  lex_token init_state false 58 [] = Some (0%nat, RTT_Op OK_Colon, false) /\
  op_spec 40 (Some 42) = None /\ op_spec 58 (Some 61) = Some (1%nat, OK_Assign) /\
  op_spec 62 (Some 62) = Some (0%nat, OK_GreaterThan ChK_Comp).
Proof. vm_compute. repeat split; reflexivity. Qed.

(* ================================================================== *)
(* 2. Number literals                                                  *)

(* a digit followed by digits and underscores (count_full_decimal's non-empty results) *)
Definition digits1 (l : bytes) : Prop :=
  match l with d :: r => is_digit d = true /\ forallb is_dec r = true | [] => False end.

(* optional fraction: a dot, a digit, then digits/underscores *)
Definition frac_shape (fp : bytes) : Prop := fp = [] \/ exists ds, fp = 46 :: ds /\ digits1 ds.

(* optional exponent: e or E, an optional sign, then NOTHING or a digit followed by digits/underscores.
   (The Rust accepts an exponent without digits: 1e and 1e+ are number literals.) *)
Definition exp_shape (ep : bytes) : Prop :=
  ep = [] \/
  exists (e : byte) (sg ds : bytes), ep = e :: sg ++ ds /\ (e = 101 \/ e = 69) /\
    (sg = [] \/ sg = [43] \/ sg = [45]) /\ (ds = [] \/ digits1 ds).

(* THE SHAPE of a decimal literal: integer part, optional fraction, optional exponent *)
Definition dec_number_shape (c : bytes) : Prop :=
  exists ip fp ep, c = ip ++ fp ++ ep /\ digits1 ip /\ frac_shape fp /\ exp_shape ep.

(* the two optional stages of dec_number_literal *)
Definition frac_len (r1 : bytes) : nat :=
  if next_is 46 r1 then
    let f := count_full_decimal (tl r1) in if Nat.eqb f O then O else S f
  else O.

Definition exp_len (r2 : bytes) : nat :=
  if next_is 101 r2 || next_is 69 r2 then
    let r3 := tl r2 in
    if next_is 43 r3 || next_is 45 r3 then S (S (count_full_decimal (tl r3)))
    else S (count_full_decimal r3)
  else O.

Lemma dec_number_literal_stages (l : bytes) :
  dec_number_literal l =
  (count_decimal l + frac_len (skipn (count_decimal l) l)
   + exp_len (skipn (frac_len (skipn (count_decimal l) l)) (skipn (count_decimal l) l)))%nat.
Proof. reflexivity. Qed.

Lemma is_digit_is_dec d : is_digit d = true -> is_dec d = true.
Proof. intros H. unfold is_dec. rewrite H. apply orb_true_r. Qed.

Lemma is_digit_not_us d : is_digit d = true -> (d =? 95) = false.
Proof. intros H. apply is_digit_range in H. apply N.eqb_neq. blia. Qed.

Lemma is_dec_cases d : is_dec d = true -> (d =? 95) = false -> is_digit d = true.
Proof. unfold is_dec. intros H E. rewrite E in H. exact H. Qed.

Lemma digits1_length (ds : bytes) : digits1 ds -> (1 <= length ds)%nat.
Proof. destruct ds; [contradiction|]. intros _. simpl. blia. Qed.

Lemma digits1_forall (ds : bytes) : digits1 ds -> forallb is_dec ds = true.
Proof.
  destruct ds as [|d r]; [contradiction|]. intros [Hd Hr]. cbn [forallb].
  rewrite (is_digit_is_dec _ Hd), Hr. reflexivity.
Qed.

Definition starts_non_dec (l : bytes) : Prop :=
  match l with [] => True | c :: _ => is_dec c = false end.

Lemma cfd_digits1 (ds rest : bytes) :
  digits1 ds -> count_full_decimal (ds ++ rest) = count_decimal (ds ++ rest).
Proof.
  destruct ds as [|d r]; [contradiction|]. intros [Hd _].
  unfold count_full_decimal. cbn [app next_is]. rewrite (is_digit_not_us _ Hd). reflexivity.
Qed.

Lemma cfd_ge (ds rest : bytes) :
  (ds = [] \/ digits1 ds) -> (length ds <= count_full_decimal (ds ++ rest))%nat.
Proof.
  intros [->|H]; [simpl; blia|]. rewrite (cfd_digits1 _ _ H). unfold count_decimal.
  apply prefix_le_count_while, digits1_forall, H.
Qed.

Lemma cfd_eq (ds rest : bytes) :
  digits1 ds -> starts_non_dec rest -> count_full_decimal (ds ++ rest) = length ds.
Proof.
  intros H Hr. rewrite (cfd_digits1 _ _ H). unfold count_decimal.
  apply count_while_app_stop; [apply digits1_forall, H|exact Hr].
Qed.

(* what count_full_decimal consumes is empty or a digit followed by digits/underscores *)
Lemma cfd_shape (l : bytes) :
  firstn (count_full_decimal l) l = [] \/ digits1 (firstn (count_full_decimal l) l).
Proof.
  unfold count_full_decimal. destruct l as [|d r]; [left; reflexivity|].
  cbn [next_is]. destruct (d =? 95) eqn:E; [left; reflexivity|].
  unfold count_decimal. cbn [count_while]. destruct (is_dec d) eqn:Ed; [|left; reflexivity].
  right. cbn [firstn digits1]. split; [exact (is_dec_cases _ Ed E)|apply count_while_firstn].
Qed.

Lemma frac_len_ge (fp z : bytes) : frac_shape fp -> (length fp <= frac_len (fp ++ z))%nat.
Proof.
  intros [->|(ds & -> & Hds)]; [simpl; blia|].
  unfold frac_len. cbn [app next_is tl]. rewrite N.eqb_refl. cbv zeta.
  pose proof (cfd_ge ds z (or_intror Hds)) as H. pose proof (digits1_length _ Hds) as H1.
  destruct (Nat.eqb (count_full_decimal (ds ++ z)) 0) eqn:E.
  - apply Nat.eqb_eq in E. blia.
  - simpl length. blia.
Qed.

Definition starts_exp (z : bytes) : Prop := exists (e : byte) (z' : bytes), z = e :: z' /\ (e = 101 \/ e = 69).

Lemma starts_exp_non_dec z : starts_exp z -> starts_non_dec z.
Proof. intros (e & z' & -> & [->| ->]); reflexivity. Qed.

Lemma frac_len_eq (fp z : bytes) : frac_shape fp -> starts_exp z -> frac_len (fp ++ z) = length fp.
Proof.
  intros [->|(ds & -> & Hds)] Hz.
  - destruct Hz as (e & z' & -> & [->| ->]); reflexivity.
  - unfold frac_len. cbn [app next_is tl]. rewrite N.eqb_refl. cbv zeta.
    rewrite (cfd_eq _ _ Hds (starts_exp_non_dec _ Hz)).
    pose proof (digits1_length _ Hds) as H1.
    destruct (Nat.eqb (length ds) 0) eqn:E; [apply Nat.eqb_eq in E; blia|reflexivity].
Qed.

Lemma exp_len_ge (ep z : bytes) : exp_shape ep -> (length ep <= exp_len (ep ++ z))%nat.
Proof.
  intros [->|(e & sg & ds & -> & He & Hsg & Hds)]; [simpl; blia|].
  unfold exp_len. cbn [app next_is tl].
  assert (E : (e =? 101) || (e =? 69) = true) by (destruct He as [->| ->]; reflexivity).
  rewrite E. cbv zeta. pose proof (cfd_ge ds z Hds) as Hge.
  destruct Hsg as [->|[->| ->]].
  - cbn [app]. destruct (next_is 43 (ds ++ z) || next_is 45 (ds ++ z)) eqn:E'.
    + destruct Hds as [->|Hds]; [simpl; blia|].
      destruct ds as [|d r]; [contradiction|]. destruct Hds as [Hd _].
      cbn [app next_is] in E'. apply is_digit_range in Hd.
      replace (d =? 43) with false in E' by (symmetry; apply N.eqb_neq; blia).
      replace (d =? 45) with false in E' by (symmetry; apply N.eqb_neq; blia). discriminate.
    + simpl length. blia.
  - cbn [app next_is tl]. rewrite N.eqb_refl. cbn [orb]. simpl length. blia.
  - cbn [app next_is tl]. rewrite N.eqb_refl, orb_true_r. simpl length. blia.
Qed.

Lemma shape_tail_cases (fp ep : bytes) : frac_shape fp -> exp_shape ep ->
  (fp = [] /\ ep = []) \/ exists c z, fp ++ ep = c :: z /\ is_dec c = false.
Proof.
  intros [->|(ds & -> & _)] Hep.
  - destruct Hep as [->|(e & sg & ds & -> & He & _)]; [left; split; reflexivity|].
    right. exists e, (sg ++ ds). split; [reflexivity|destruct He as [->| ->]; reflexivity].
  - right. exists 46, (ds ++ ep). split; reflexivity.
Qed.

Lemma exp_shape_cases (ep : bytes) : exp_shape ep -> ep = [] \/ forall z, starts_exp (ep ++ z).
Proof.
  intros [->|(e & sg & ds & -> & He & _)]; [left; reflexivity|].
  right. intros z. exists e, ((sg ++ ds) ++ z). split; [reflexivity|exact He].
Qed.

(* no prefix of digit :: t that has the shape of a decimal literal is longer than what the lexer takes *)
Lemma dec_number_maximal (b : byte) (t p r : bytes) :
  b :: t = p ++ r -> dec_number_shape p -> (length p <= S (dec_number_literal t))%nat.
Proof.
  intros Hsplit (ip & fp & ep & -> & Hip & Hfp & Hep).
  destruct ip as [|b' ip']; [contradiction|]. destruct Hip as [_ Hip'].
  rewrite <- !app_assoc in Hsplit. cbn [app] in Hsplit. injection Hsplit as _ Ht. subst t.
  rewrite dec_number_literal_stages, !app_length. cbn [length].
  destruct (shape_tail_cases fp ep Hfp Hep) as [[-> ->]|(c & z & Hcz & Hc)].
  - cbn [app length]. pose proof (prefix_le_count_while is_dec ip' r Hip') as H.
    unfold count_decimal. blia.
  - assert (E1 : count_decimal (ip' ++ fp ++ ep ++ r) = length ip').
    { unfold count_decimal. apply count_while_app_stop; [exact Hip'|].
      rewrite app_assoc, Hcz. exact Hc. }
    rewrite E1, skipn_app_exact.
    destruct (exp_shape_cases ep Hep) as [->|Hz].
    + cbn [app length]. pose proof (frac_len_ge fp r Hfp) as H. blia.
    + rewrite (frac_len_eq fp (ep ++ r) Hfp (Hz r)), skipn_app_exact.
      pose proof (exp_len_ge ep r Hep) as H. blia.
Qed.

(* what the lexer takes has the shape of a decimal literal *)
Lemma dec_number_has_shape (b : byte) (t : bytes) :
  is_digit b = true -> dec_number_shape (b :: firstn (dec_number_literal t) t).
Proof.
  intros Hb. rewrite dec_number_literal_stages.
  set (n1 := count_decimal t). set (r1 := skipn n1 t).
  set (n2 := frac_len r1). set (r2 := skipn n2 r1).
  rewrite <- Nat.add_assoc, firstn_add. fold r1. rewrite firstn_add. fold r2.
  exists (b :: firstn n1 t), (firstn n2 r1), (firstn (exp_len r2) r2).
  split; [reflexivity|]. split; [split; [exact Hb|apply count_while_firstn]|]. split.
  - subst n2. unfold frac_shape, frac_len. destruct (next_is 46 r1) eqn:E; [|left; reflexivity].
    apply next_is_cons in E. destruct E as [r1' E]. rewrite E. cbn [tl]. cbv zeta.
    destruct (Nat.eqb (count_full_decimal r1') 0) eqn:E0; [left; reflexivity|].
    right. exists (firstn (count_full_decimal r1') r1'). split; [reflexivity|].
    destruct (cfd_shape r1') as [H|H]; [|exact H].
    apply Nat.eqb_neq in E0. exfalso.
    pose proof (count_full_decimal_le r1') as Hle.
    apply (f_equal (@length byte)) in H. rewrite firstn_length_le in H by exact Hle.
    simpl in H. blia.
  - unfold exp_shape, exp_len. destruct (next_is 101 r2 || next_is 69 r2) eqn:E; [|left; reflexivity].
    right. assert (He : exists (e : byte) (r3 : bytes), r2 = e :: r3 /\ (e = 101 \/ e = 69)).
    { apply orb_true_iff in E. destruct E as [E|E]; apply next_is_cons in E; destruct E as [r3 E];
        eexists _, r3; (split; [exact E|]); [left|right]; reflexivity. }
    destruct He as (e & r3 & -> & He). cbn [tl]. cbv zeta.
    destruct (next_is 43 r3 || next_is 45 r3) eqn:E'.
    + assert (Hs : exists (s : byte) (r4 : bytes), r3 = s :: r4 /\ (s = 43 \/ s = 45)).
      { apply orb_true_iff in E'. destruct E' as [E'|E']; apply next_is_cons in E'; destruct E' as [r4 E'];
          eexists _, r4; (split; [exact E'|]); [left|right]; reflexivity. }
      destruct Hs as (s & r4 & -> & Hs). cbn [tl firstn].
      exists e, [s], (firstn (count_full_decimal r4) r4). split; [reflexivity|]. split; [exact He|].
      split; [destruct Hs as [->| ->]; [right; left|right; right]; reflexivity|apply cfd_shape].
    + cbn [firstn]. exists e, [], (firstn (count_full_decimal r3) r3).
      split; [reflexivity|]. split; [exact He|]. split; [left; reflexivity|apply cfd_shape].
Qed.

(* THE DECIMAL NUMBER RULE.  A token starting with a digit, in normal mode, is a decimal number
   literal; its content has the shape [dec_number_shape] and is the LONGEST prefix of the remaining
   input of that shape; for literals of any length. *)
Theorem lex_number_spec : forall st nlb (b : byte) (t : bytes),
  ls_asm st = false -> is_digit b = true ->
  exists n,
    lex_token st nlb b t = Some (n, RTT_NumberLiteral NK_Decimal, false) /\
    (n <= length t)%nat /\
    dec_number_shape (b :: firstn n t) /\
    (forall p r : bytes, b :: t = p ++ r -> dec_number_shape p -> (length p <= S n)%nat).
Proof.
  intros st nlb b t Hasm Hb. exists (dec_number_literal t). split; [|split; [|split]].
  - rewrite lex_token_normal by exact Hasm. rewrite lex_common_digit by exact Hb.
    destruct (is_alpha b); reflexivity.
  - apply dec_number_literal_le.
  - apply dec_number_has_shape. exact Hb.
  - intros p r. apply dec_number_maximal.
Qed.

(* 1.5e+10)  is the number 1.5e+10;  1..5  is 1 then dot-dot;  1e) is the number 1e;
   1_000.25x is 1_000.25;  1._5 is the number 1 *)
Example lex_number_example :
  lex_token init_state false 49 [46; 53; 101; 43; 49; 48; 41] = Some (6%nat, RTT_NumberLiteral NK_Decimal, false) /\
  lex_token init_state false 49 [46; 46; 53] = Some (0%nat, RTT_NumberLiteral NK_Decimal, false) /\
  lex_token init_state false 49 [101; 41] = Some (1%nat, RTT_NumberLiteral NK_Decimal, false) /\
  lex_token init_state false 49 [95; 48; 48; 48; 46; 50; 53; 120] = Some (7%nat, RTT_NumberLiteral NK_Decimal, false) /\
  lex_token init_state false 49 [46; 95; 53] = Some (0%nat, RTT_NumberLiteral NK_Decimal, false) /\
  lex_token init_state false 49 (repeat 48 500 ++ [59]) = Some (500%nat, RTT_NumberLiteral NK_Decimal, false).
Proof. vm_compute. repeat split; reflexivity. Qed.

(* the shape predicate on the first example, by hand: 1 / .5 / e+10 *)
Example dec_number_shape_example : dec_number_shape [49; 46; 53; 101; 43; 49; 48].
Proof.
  exists [49], [46; 53], [101; 43; 49; 48]. split; [reflexivity|].
  split; [split; reflexivity|]. split.
  - right. exists [53]. split; [reflexivity|split; reflexivity].
  - right. exists 101, [43], [49; 48]. split; [reflexivity|]. split; [left; reflexivity|].
    split; [right; left; reflexivity|right; split; reflexivity].
Qed.

(* THE HEX / BINARY RULES.  Dollar resp. percent followed by the maximal run (possibly EMPTY: a lone
   dollar or percent is a number literal) of hex resp. binary digits and underscores; same in asm mode. *)
Theorem lex_hex_spec : forall st nlb (t : bytes),
  exists n,
    lex_token st nlb 36 t = Some (n, RTT_NumberLiteral NK_Hex, ls_asm st) /\ longest_run is_hex t n.
Proof.
  intros st nlb t. exists (count_hex t). split; [|apply count_while_longest].
  unfold lex_token. destruct (ls_asm st); reflexivity.
Qed.

Theorem lex_binary_spec : forall st nlb (t : bytes),
  exists n,
    lex_token st nlb 37 t = Some (n, RTT_NumberLiteral NK_Binary, ls_asm st) /\ longest_run is_bin t n.
Proof.
  intros st nlb t. exists (count_binary t). split; [|apply count_while_longest].
  unfold lex_token. destruct (ls_asm st); reflexivity.
Qed.

(* dollar FF_a0 g;  a lone dollar before a blank;  percent 1_01 2;  a lone percent at end of input *)
Example lex_hex_binary_example :
  lex_token init_state false 36 [70; 70; 95; 97; 48; 103] = Some (5%nat, RTT_NumberLiteral NK_Hex, false) /\
  lex_token init_state false 36 [32; 49] = Some (0%nat, RTT_NumberLiteral NK_Hex, false) /\
  lex_token init_state false 37 [49; 95; 48; 49; 50] = Some (4%nat, RTT_NumberLiteral NK_Binary, false) /\
  lex_token init_state false 37 [] = Some (0%nat, RTT_NumberLiteral NK_Binary, false) /\
  lex_token init_state false 36 (repeat 70 300) = Some (300%nat, RTT_NumberLiteral NK_Hex, false).
Proof. vm_compute. repeat split; reflexivity. Qed.

(* ================================================================== *)
(* 8. Every position of every file; position independence              *)

(* the state after a token of type ty that left the asm flag at a *)
Definition next_state (st : lstate) (ty : RawTokenType) (a : bool) : lstate :=
  mkLS false a (if RawTokenType_is_comment_or_directive ty then ls_prev st else Some ty).

(* [lex_steps st toks l]: toks is the token list of the text l lexed from the state st, each token
   being produced by [lex_token] applied to the suffix at its first byte, the current state, and the
   flag "the blanks in front of it contain a LF, or it is the first token".  The relation mentions
   neither an absolute offset nor the text in front of l. *)
Inductive lex_steps : lstate -> list (nat * nat * RawTokenType) -> bytes -> Prop :=
| ls_eof st ws : all_blank ws -> lex_steps st [(length ws, O, RTT_Eof)] ws
| ls_tok st ws b t n ty a toks :
    all_blank ws -> tok_start b t ->
    lex_token st (contains_byte 10 ws || ls_first st) b t = Some (n, ty, a) ->
    (n <= length t)%nat ->
    lex_steps (next_state st ty a) toks (skipn n t) ->
    lex_steps st ((length ws, S n, ty) :: toks) (ws ++ b :: t).

Lemma ls_eof' st w (l : bytes) : w = length l -> all_blank l -> lex_steps st [(w, O, RTT_Eof)] l.
Proof. intros ->. apply ls_eof. Qed.

Lemma ls_tok' st w (ws : bytes) (b : byte) (t l : bytes) n ty a toks :
  w = length ws -> l = ws ++ b :: t -> all_blank ws -> tok_start b t ->
  lex_token st (contains_byte 10 ws || ls_first st) b t = Some (n, ty, a) ->
  (n <= length t)%nat -> lex_steps (next_state st ty a) toks (skipn n t) ->
  lex_steps st ((w, S n, ty) :: toks) l.
Proof. intros -> ->. apply ls_tok. Qed.

Lemma lex_loop_steps f : forall st l toks, lex_loop f st l = Some toks -> lex_steps st toks l.
Proof.
  induction f as [|f IH]; intros st l toks H; [discriminate|].
  rewrite lex_loop_unfold in H. cbv zeta in H.
  pose proof (count_ws_le l) as Hw.
  pose proof (count_ws_strip l) as Hs.
  pose proof (count_ws_skipn l) as Hz.
  pose proof (firstn_skipn (count_ws l) l) as Hsplit.
  assert (Lw : length (firstn (count_ws l) l) = count_ws l) by (apply firstn_length_le; exact Hw).
  destruct (skipn (count_ws l) l) as [|b t].
  - injection H as <-. rewrite app_nil_r in Hsplit.
    apply ls_eof'; [rewrite <- Hsplit at 2; symmetry; exact Lw|].
    unfold all_blank. rewrite <- Hsplit. exact Hs.
  - destruct (lex_token_ok st (contains_byte 10 (firstn (count_ws l) l) || ls_first st) b t)
      as (n & ty & a & E & Hn & Hty).
    rewrite E in H.
    match type of H with context [lex_loop f ?st' ?l'] =>
      destruct (lex_loop f st' l') as [ts|] eqn:Hts; [|discriminate] end.
    injection H as <-. apply IH in Hts.
    apply count_ws_zero_inv in Hz.
    apply (ls_tok' st _ (firstn (count_ws l) l) b t l n ty a ts);
      [symmetry; exact Lw|symmetry; exact Hsplit|exact Hs|exact Hz|exact E|exact Hn|exact Hts].
Qed.

(* Every token of every file is produced by lex_token applied to the suffix at its start: all the
   per-token theorems of this file apply at every position of every input. *)
Theorem lex_steps_sound : forall s toks, lex s = Some toks -> lex_steps init_state toks s.
Proof. intros s toks H. exact (lex_loop_steps _ _ _ _ H). Qed.

(* ---- the decomposition blanks / token start is determined by the text ---- *)

Lemma tok_start_count_ws (b : byte) (t : bytes) : tok_start b t -> count_ws (b :: t) = O.
Proof.
  intros [Hb Hu]. rewrite count_ws_unfold, Hb.
  destruct t as [|c [|d t']]; [reflexivity|reflexivity|].
  unfold is_u3000_at in Hu. cbn [is_prefix] in Hu.
  rewrite (N.eqb_sym 227 b), (N.eqb_sym 128 c), (N.eqb_sym 128 d), andb_true_r in Hu.
  rewrite <- andb_assoc, Hu. reflexivity.
Qed.

Lemma count_ws_blank_app_strong n : forall ws y : bytes, (length ws <= n)%nat ->
  all_blank ws -> count_ws y = O -> count_ws (ws ++ y) = length ws.
Proof.
  induction n as [|n IH]; intros ws y Hl Hb Hy.
  - destruct ws; [exact Hy|simpl in Hl; blia].
  - destruct ws as [|a r]; [exact Hy|].
    unfold all_blank in Hb. rewrite strip_unfold in Hb.
    rewrite <- app_comm_cons, count_ws_unfold.
    destruct (a <=? 32) eqn:Ea.
    + simpl length. f_equal. apply IH; [simpl in Hl; blia|exact Hb|exact Hy].
    + destruct r as [|b [|c r']]; try discriminate Hb.
      destruct ((a =? 227) && (b =? 128) && (c =? 128)) eqn:Ec; [|discriminate Hb].
      cbn [app]. rewrite Ec. simpl length. do 3 f_equal.
      apply IH; [simpl in Hl; blia|exact Hb|exact Hy].
Qed.

Lemma count_ws_blank_app (ws y : bytes) :
  all_blank ws -> count_ws y = O -> count_ws (ws ++ y) = length ws.
Proof. apply (count_ws_blank_app_strong (length ws)). blia. Qed.

Lemma app_eq_length_inv {A} (x x' y y' : list A) :
  x ++ y = x' ++ y' -> length x = length x' -> x = x' /\ y = y'.
Proof.
  intros H L. split.
  - rewrite <- (firstn_app_exact x y), H, L. apply firstn_app_exact.
  - rewrite <- (skipn_app_exact x y), H, L. apply skipn_app_exact.
Qed.

(* [lex_steps] is a function of the state and the text *)
Theorem lex_steps_deterministic : forall st toks1 l, lex_steps st toks1 l ->
  forall toks2, lex_steps st toks2 l -> toks1 = toks2.
Proof.
  intros st toks1 l H1. induction H1 as [st ws Hws|st ws b t n ty a toks Hws Hst E Hn H1 IH];
    intros toks2 H2.
  - inversion H2 as [st' ws' Hws' Est Etoks Ews|st' ws' b' t' n' ty' a' toks' Hws' Hst' E' Hn' H2' Est Etoks El].
    + reflexivity.
    + exfalso. pose proof (count_ws_blank_app ws [] Hws eq_refl) as C1.
      rewrite app_nil_r in C1. rewrite <- El in C1.
      rewrite (count_ws_blank_app ws' (b' :: t') Hws' (tok_start_count_ws _ _ Hst')) in C1.
      rewrite app_length in C1. simpl in C1. blia.
  - inversion H2 as [st' ws' Hws' Est Etoks Ews|st' ws' b' t' n' ty' a' toks' Hws' Hst' E' Hn' H2' Est Etoks El].
    + exfalso. pose proof (count_ws_blank_app (ws ++ b :: t) [] Hws' eq_refl) as C1.
      rewrite app_nil_r in C1.
      rewrite (count_ws_blank_app ws (b :: t) Hws (tok_start_count_ws _ _ Hst)) in C1.
      rewrite app_length in C1. simpl in C1. blia.
    + assert (L : length ws' = length ws).
      { rewrite <- (count_ws_blank_app ws' (b' :: t') Hws' (tok_start_count_ws _ _ Hst')), El.
        apply count_ws_blank_app; [exact Hws|apply tok_start_count_ws; exact Hst]. }
      destruct (app_eq_length_inv _ _ _ _ El L) as [-> Ebt]. injection Ebt as -> ->.
      rewrite E in E'. injection E' as <- <- <-. f_equal. apply IH. exact H2'.
Qed.

(* fuel is the only thing in lex_loop that depends on how much text there is: it is irrelevant *)
Theorem lex_loop_fuel_irrelevant : forall f1 f2 st l toks1 toks2,
  lex_loop f1 st l = Some toks1 -> lex_loop f2 st l = Some toks2 -> toks1 = toks2.
Proof.
  intros f1 f2 st l toks1 toks2 H1 H2.
  exact (lex_steps_deterministic _ _ _ (lex_loop_steps _ _ _ _ H1) _ (lex_loop_steps _ _ _ _ H2)).
Qed.

(* the tokens of a suffix, lexed on its own from a given state *)
Definition lex_from (st : lstate) (l : bytes) : option (list (nat * nat * RawTokenType)) :=
  lex_loop (S (length l)) st l.

Lemma lex_from_steps st l toks : lex_steps st toks l -> lex_from st l = Some toks.
Proof.
  intros H. destruct (lex_loop_total (S (length l)) st l) as [toks' H']; [blia|].
  unfold lex_from. rewrite H'. f_equal.
  exact (lex_steps_deterministic _ _ _ (lex_loop_steps _ _ _ _ H') _ H).
Qed.

(* POSITION INDEPENDENCE.  Let a token start at the byte b followed by t, after the blanks ws, in the
   lexer state st.  Then, whatever text precedes (it does not occur in the statement) and whatever the
   absolute offset:
   - the token is [lex_token st (ws contains LF || first) b t]: it depends only on the suffix, the
     state (asm flag, previous real token, first-token flag) and on whether ws contains a LF;
   - the rest of the token stream is the token stream of the remaining suffix lexed on its own from
     the successor state. *)
Theorem lex_position_independent : forall st (ws : bytes) (b : byte) (t : bytes) toks,
  all_blank ws -> tok_start b t ->
  lex_from st (ws ++ b :: t) = Some toks ->
  exists n ty a rest,
    lex_token st (contains_byte 10 ws || ls_first st) b t = Some (n, ty, a) /\
    lex_from (next_state st ty a) (skipn n t) = Some rest /\
    toks = (length ws, S n, ty) :: rest.
Proof.
  intros st ws b t toks Hws Hst H.
  apply lex_loop_steps in H.
  inversion H as [st' ws' Hws' Est Etoks Ews|st' ws' b' t' n' ty' a' toks' Hws' Hst' E' Hn' H' Est Etoks El].
  - exfalso. pose proof (count_ws_blank_app (ws ++ b :: t) [] Hws' eq_refl) as C1.
    rewrite app_nil_r in C1.
    rewrite (count_ws_blank_app ws (b :: t) Hws (tok_start_count_ws _ _ Hst)) in C1.
    rewrite app_length in C1. simpl in C1. blia.
  - assert (L : length ws' = length ws).
    { rewrite <- (count_ws_blank_app ws' (b' :: t') Hws' (tok_start_count_ws _ _ Hst')), El.
      apply count_ws_blank_app; [exact Hws|apply tok_start_count_ws; exact Hst]. }
    destruct (app_eq_length_inv _ _ _ _ El L) as [-> Ebt]. injection Ebt as -> ->.
    exists n', ty', a', toks'. split; [exact E'|]. split; [apply lex_from_steps; exact H'|reflexivity].
Qed.

(* the same suffix in the same state behind two different prefixes: same tokens.  Stated on whole
   files: if two files are cut into tokens such that both reach the same suffix in the same state,
   the remaining token streams are equal.  (Immediate from determinism; given for the record.) *)
Corollary lex_suffix_same_tokens : forall st (l : bytes) toks1 toks2,
  lex_steps st toks1 l -> lex_from st l = Some toks2 -> toks1 = toks2.
Proof.
  intros st l toks1 toks2 H1 H2. apply lex_loop_steps in H2.
  exact (lex_steps_deterministic _ _ _ H1 _ H2).
Qed.

Theorem lex_is_lex_from : forall s, lex s = lex_from init_state s.
Proof. reflexivity. Qed.

(* x := 1 // c LF y : the suffix after "x :=" lexed on its own from the state reached there gives the
   tail of the token list of the whole text *)
Example lex_position_independent_example :
  lex [120; 32; 58; 61; 32; 49; 32; 47; 47; 99; 10; 121]
    = Some [(0, 1, RTT_Identifier); (1, 2, RTT_Op OK_Assign); (1, 1, RTT_NumberLiteral NK_Decimal);
            (1, 3, RTT_Comment CoK_InlineLine); (1, 1, RTT_Identifier); (0, 0, RTT_Eof)]%nat /\
  lex_from (mkLS false false (Some (RTT_Op OK_Assign))) [32; 49; 32; 47; 47; 99; 10; 121]
    = Some [(1, 1, RTT_NumberLiteral NK_Decimal);
            (1, 3, RTT_Comment CoK_InlineLine); (1, 1, RTT_Identifier); (0, 0, RTT_Eof)]%nat /\
  all_blank [32] /\ tok_start 49 [32; 47; 47; 99; 10; 121].
Proof. vm_compute. repeat split; reflexivity. Qed.

(* ---- the same statement with explicit prefixes ---- *)

(* [lex_reach st0 s st l]: lexing s from st0 arrives, after some whole tokens, at the suffix l in
   the state st *)
Inductive lex_reach : lstate -> bytes -> lstate -> bytes -> Prop :=
| reach_refl st l : lex_reach st l st l
| reach_step st ws b t n ty a st' l' :
    all_blank ws -> tok_start b t ->
    lex_token st (contains_byte 10 ws || ls_first st) b t = Some (n, ty, a) ->
    lex_reach (next_state st ty a) (skipn n t) st' l' ->
    lex_reach st (ws ++ b :: t) st' l'.

Theorem lex_reach_suffix : forall st0 s st l, lex_reach st0 s st l ->
  forall toks, lex_from st0 s = Some toks ->
  exists pre rest, toks = pre ++ rest /\ lex_from st l = Some rest.
Proof.
  intros st0 s st l H. induction H as [st l|st0 ws b t n ty a st l Hws Hst E H IH]; intros toks Ht.
  - exists [], toks. split; [reflexivity|exact Ht].
  - destruct (lex_position_independent _ _ _ _ _ Hws Hst Ht) as (n' & ty' & a' & rest0 & E' & Hr & ->).
    rewrite E in E'. injection E' as <- <- <-.
    destruct (IH _ Hr) as (pre & rest & -> & Hrest).
    exists ((length ws, S n, ty) :: pre), rest. split; [reflexivity|exact Hrest].
Qed.

(* two files that reach the same suffix in the same lexer state have the same tokens from there on,
   whatever their prefixes and however long they are *)
Corollary lex_same_suffix_same_tokens : forall s1 s2 st l toks1 toks2,
  lex s1 = Some toks1 -> lex s2 = Some toks2 ->
  lex_reach init_state s1 st l -> lex_reach init_state s2 st l ->
  exists pre1 pre2 rest, toks1 = pre1 ++ rest /\ toks2 = pre2 ++ rest /\ lex_from st l = Some rest.
Proof.
  intros s1 s2 st l toks1 toks2 H1 H2 R1 R2.
  destruct (lex_reach_suffix _ _ _ _ R1 _ H1) as (pre1 & rest1 & -> & Hr1).
  destruct (lex_reach_suffix _ _ _ _ R2 _ H2) as (pre2 & rest2 & -> & Hr2).
  rewrite Hr1 in Hr2. injection Hr2 as <-.
  exists pre1, pre2, rest1. repeat split; [exact Hr1].
Qed.

(* "x :=" and "(a)LF yy:=" in front of the same suffix " 1;" *)
Example lex_reach_example :
  lex_reach init_state ([120; 32; 58; 61] ++ [32; 49; 59])
            (mkLS false false (Some (RTT_Op OK_Assign))) [32; 49; 59] /\
  lex_reach init_state ([123; 97; 125; 10; 121; 121; 58; 61] ++ [32; 49; 59])
            (mkLS false false (Some (RTT_Op OK_Assign))) [32; 49; 59].
Proof.
  split.
  - apply (reach_step _ [] 120 [32; 58; 61; 32; 49; 59] 0 RTT_Identifier false);
      [reflexivity|split; reflexivity|vm_compute; reflexivity|].
    apply (reach_step _ [32] 58 [61; 32; 49; 59] 1 (RTT_Op OK_Assign) false);
      [reflexivity|split; reflexivity|vm_compute; reflexivity|].
    apply reach_refl.
  - apply (reach_step _ [] 123 [97; 125; 10; 121; 121; 58; 61; 32; 49; 59] 2
             (RTT_Comment CoK_IndividualBlock) false);
      [reflexivity|split; reflexivity|vm_compute; reflexivity|].
    apply (reach_step _ [10] 121 [121; 58; 61; 32; 49; 59] 1 RTT_Identifier false);
      [reflexivity|split; reflexivity|vm_compute; reflexivity|].
    apply (reach_step _ [] 58 [61; 32; 49; 59] 1 (RTT_Op OK_Assign) false);
      [reflexivity|split; reflexivity|vm_compute; reflexivity|].
    apply reach_refl.
Qed.

(* ================================================================== *)
(* 4. Block comments                                                   *)

(* i is the position of the FIRST occurrence of pat in l *)
Definition first_occurrence (pat l : bytes) (i : nat) : Prop :=
  is_prefix pat (skipn i l) = true /\ forall j, (j < i)%nat -> is_prefix pat (skipn j l) = false.

Definition no_occurrence (pat l : bytes) : Prop := forall j, is_prefix pat (skipn j l) = false.

Lemma find_sub_some (pat l : bytes) : forall i, find_sub pat l = Some i -> first_occurrence pat l i.
Proof.
  induction l as [|x t IH]; intros i H; rewrite find_sub_unfold in H.
  - destruct (is_prefix pat []) eqn:E; [|discriminate]. injection H as <-.
    split; [exact E|intros j Hj; blia].
  - destruct (is_prefix pat (x :: t)) eqn:E.
    + injection H as <-. split; [exact E|intros j Hj; blia].
    + destruct (find_sub pat t) as [i'|]; [|discriminate]. injection H as <-.
      destruct (IH i' eq_refl) as [H1 H2]. split; [exact H1|].
      intros [|j] Hj; [exact E|]. cbn [skipn]. apply H2. blia.
Qed.

Lemma find_sub_none (pat l : bytes) : find_sub pat l = None -> no_occurrence pat l.
Proof.
  induction l as [|x t IH]; intros H j; rewrite find_sub_unfold in H.
  - destruct (is_prefix pat []) eqn:E; [discriminate|]. rewrite skipn_nil. exact E.
  - destruct (is_prefix pat (x :: t)) eqn:E; [discriminate|].
    destruct (find_sub pat t) as [i'|] eqn:E'; [discriminate|].
    destruct j as [|j]; [exact E|]. cbn [skipn]. apply IH. reflexivity.
Qed.

Lemma first_occurrence_functional (pat l : bytes) i j :
  first_occurrence pat l i -> first_occurrence pat l j -> i = j.
Proof.
  intros [H1 H2] [H3 H4].
  destruct (Nat.lt_trichotomy i j) as [H|[H|H]]; [|exact H|].
  - rewrite (H4 _ H) in H1. discriminate.
  - rewrite (H2 _ H) in H3. discriminate.
Qed.

Lemma find_first_eq_find_sub (c : byte) (l : bytes) :
  find_first (fun b => b =? c) l = find_sub [c] l.
Proof.
  induction l as [|x t IH]; [reflexivity|].
  rewrite find_sub_unfold. cbn [find_first is_prefix]. rewrite andb_true_r, (N.eqb_sym c x).
  destruct (x =? c); [reflexivity|]. rewrite IH. reflexivity.
Qed.

(* the closing delimiter *)
Definition block_close (k : BlockCommentKind) : bytes :=
  match k with BCK_Brace => [125] | BCK_ParenStar => [42; 41] end.

Lemma find_block_comment_end_eq k (l : bytes) :
  find_block_comment_end k l =
  option_map (fun o => (o + length (block_close k))%nat) (find_sub (block_close k) l).
Proof.
  destruct k; cbn [find_block_comment_end block_close length]; [reflexivity|].
  rewrite find_first_eq_find_sub.
  match goal with |- option_map S ?x = option_map _ ?y => change y with x; destruct x as [i|] end;
    [|reflexivity].
  cbn [option_map]. f_equal. blia.
Qed.

(* consume_to_eof: n is the least position from which the text is blank to the end *)
Definition trim_spec (l : bytes) (n : nat) : Prop :=
  (n <= length l)%nat /\ all_ws (skipn n l) = true /\
  forall m, (m < n)%nat -> all_ws (skipn m l) = false.

Lemma trimmed_len_spec (l : bytes) : trim_spec l (trimmed_len l).
Proof.
  split; [apply trimmed_len_le|]. split; [apply trimmed_len_all_ws|].
  induction l as [|a t IH]; [intros m Hm; simpl in Hm; blia|].
  change (trimmed_len (a :: t)) with (if all_ws (a :: t) then O else S (trimmed_len t)).
  destruct (all_ws (a :: t)) eqn:E; [intros m Hm; blia|].
  intros [|m] Hm; [exact E|]. cbn [skipn]. apply IH. blia.
Qed.

Lemma is_prefix_firstn (pat l : bytes) : is_prefix pat l = true -> firstn (length pat) l = pat.
Proof. intros H. apply is_prefix_spec in H. destruct H as [r ->]. apply firstn_app_exact. Qed.

Lemma contains_byte_app c (x y : bytes) :
  contains_byte c (x ++ y) = contains_byte c x || contains_byte c y.
Proof. apply existsb_app. Qed.

(* THE SPECIFICATION of a block comment body: l is the text after the opening delimiter, n the
   number of bytes of l in the token, ck the comment kind.
   - terminated: the token ends with the FIRST occurrence of the closing delimiter; it is a
     MultilineBlock iff the text before that delimiter contains a LF, otherwise Individual/Inline
     according to nlb exactly as for line comments;
   - unterminated: the token extends to the end of the input minus the trailing blanks and is a
     MultilineBlock whether or not it contains a LF. *)
Definition block_comment_spec (k : BlockCommentKind) (nlb : bool) (l : bytes) (n : nat)
    (ck : CommentKind) : Prop :=
  (exists i, first_occurrence (block_close k) l i /\
             n = (i + length (block_close k))%nat /\ (n <= length l)%nat /\
             ck = (if contains_byte 10 (firstn i l) then CoK_MultilineBlock
                   else if nlb then CoK_IndividualBlock else CoK_InlineBlock))
  \/ (no_occurrence (block_close k) l /\ trim_spec l n /\ ck = CoK_MultilineBlock).

Lemma block_comment_refines k nlb (l : bytes) :
  exists n ck, block_comment k nlb l = (n, RTT_Comment ck) /\ block_comment_spec k nlb l n ck.
Proof.
  unfold block_comment. pose proof (find_block_comment_end_bound k l) as Hb.
  rewrite find_block_comment_end_eq in *.
  destruct (find_sub (block_close k) l) as [i|] eqn:E; cbn [option_map] in *.
  - eexists _, _. split; [reflexivity|]. left. exists i.
    pose proof (find_sub_some _ _ _ E) as Hf. split; [exact Hf|]. split; [reflexivity|].
    split; [apply Hb; reflexivity|].
    rewrite firstn_add, contains_byte_app, (is_prefix_firstn _ _ (proj1 Hf)).
    unfold block_comment_kind.
    replace (contains_byte 10 (block_close k)) with false by (destruct k; reflexivity).
    rewrite orb_false_r. reflexivity.
  - eexists _, _. split; [reflexivity|]. right.
    split; [apply find_sub_none; exact E|]. split; [apply trimmed_len_spec|reflexivity].
Qed.

(* THE BLOCK COMMENT RULE: an open brace, resp. paren-star, not followed by a dollar sign, opens a
   comment specified by [block_comment_spec] on the text that follows; same in asm mode. *)
Theorem lex_block_comment_spec : forall st nlb (t : bytes),
  next_is 36 t = false ->
  (exists n ck, lex_token st nlb 123 t = Some (n, RTT_Comment ck, ls_asm st) /\
                block_comment_spec BCK_Brace nlb t n ck) /\
  (exists n ck, lex_token st nlb 40 (42 :: t) = Some (S n, RTT_Comment ck, ls_asm st) /\
                block_comment_spec BCK_ParenStar nlb t n ck).
Proof.
  intros st nlb t Hd. split.
  - destruct (block_comment_refines BCK_Brace nlb t) as (n & ck & E & Hs).
    exists n, ck. split; [|exact Hs].
    assert (Hc : lex_common st nlb 123 t = TOk n (RTT_Comment ck)).
    { change (lex_common st nlb 123 t) with (compiler_directive_or_comment BCK_Brace nlb t).
      unfold compiler_directive_or_comment. rewrite Hd, E. reflexivity. }
    unfold lex_token. destruct (ls_asm st); cbn; rewrite Hc; reflexivity.
  - destruct (block_comment_refines BCK_ParenStar nlb t) as (n & ck & E & Hs).
    exists n, ck. split; [|exact Hs].
    assert (Hc : lex_common st nlb 40 (42 :: t) = TOk (S n) (RTT_Comment ck)).
    { change (lex_common st nlb 40 (42 :: t))
        with (tshift 1 (compiler_directive_or_comment BCK_ParenStar nlb t)).
      unfold compiler_directive_or_comment. rewrite Hd, E. reflexivity. }
    unfold lex_token. destruct (ls_asm st); cbn; rewrite Hc; reflexivity.
Qed.

(* the closing delimiter found is the first one: two terminated comments never overlap *)
Corollary block_comment_spec_functional : forall k nlb (l : bytes) n1 ck1 n2 ck2,
  block_comment_spec k nlb l n1 ck1 -> block_comment_spec k nlb l n2 ck2 ->
  (exists i, first_occurrence (block_close k) l i) -> n1 = n2 /\ ck1 = ck2.
Proof.
  intros k nlb l n1 ck1 n2 ck2 H1 H2 [i0 H0].
  destruct H1 as [(i1 & F1 & -> & _ & ->)|(N1 & _)]; [|destruct H0 as [H0 _]; rewrite (N1 i0) in H0; discriminate].
  destruct H2 as [(i2 & F2 & -> & _ & ->)|(N2 & _)]; [|destruct H0 as [H0 _]; rewrite (N2 i0) in H0; discriminate].
  rewrite (first_occurrence_functional _ _ _ _ F1 F2). split; reflexivity.
Qed.

(* brace a } b } : ends at the first closing brace;  paren-star ) star-paren x : the star of the
   opener does not close;  a LF inside makes it MultilineBlock;  unterminated: trailing blanks are
   left out and the kind is MultilineBlock without any LF *)
Example lex_block_comment_example :
  lex_token init_state false 123 [97; 125; 98; 125] = Some (2%nat, RTT_Comment CoK_InlineBlock, false) /\
  lex_token init_state true 40 [42; 41; 42; 41; 120] = Some (4%nat, RTT_Comment CoK_IndividualBlock, false) /\
  lex_token init_state false 123 [97; 10; 98; 125; 99] = Some (4%nat, RTT_Comment CoK_MultilineBlock, false) /\
  lex_token init_state false 123 [97; 98; 32; 32; 10] = Some (2%nat, RTT_Comment CoK_MultilineBlock, false) /\
  lex_token init_state false 123 [97; 98; 32] = Some (2%nat, RTT_Comment CoK_MultilineBlock, false) /\
  lex_token init_state false 123 (repeat 120 2000 ++ [125; 59]) = Some (2001%nat, RTT_Comment CoK_InlineBlock, false) /\
  next_is 36 [97; 125; 98; 125] = false.
Proof. vm_compute. repeat split; reflexivity. Qed.

(* ================================================================== *)
(* 5. Single-line text literals                                        *)

(* the multi-line opener test of text_literal for a token starting with a quote: t follows it *)
Definition ml_opener (t : bytes) : bool :=
  let q := S (count_while (fun c => c =? 39) t) in
  let body := skipn (q - 1) t in
  Nat.leb 3 q && Nat.odd q && (next_is 13 body || next_is 10 body).

Lemma text_literal_quote (t : bytes) :
  text_literal 39 t =
  if ml_opener t then
    let q := S (count_while (fun c => c =? 39) t) in
    match find_sub (repeat 39 q) (skipn (q - 1) t) with
    | Some pos => ((q - 1) + pos + q, RTT_TextLiteral TK_MultiLine)%nat
    | None => (length t, RTT_TextLiteral TK_Unterminated)
    end
  else (fst (tl_run TL_S t), RTT_TextLiteral (snd (tl_run TL_S t))).
Proof. reflexivity. Qed.

Lemma text_literal_hash (t : bytes) :
  text_literal 35 t = (fst (tl_run TL_H t), RTT_TextLiteral (snd (tl_run TL_H t))).
Proof. reflexivity. Qed.

(* a byte allowed inside a quoted piece: anything but a quote, CR, LF *)
Definition str_char (b : byte) : bool := negb (b =? 39) && negb (is_eol b).

(* the three forms of character code: hash digits, hash dollar hexdigits, hash percent bindigits
   (digits include the underscore, as in number literals) *)
Inductive code_kind := CK_Dec | CK_Hex | CK_Bin.
Definition code_prefix (k : code_kind) : bytes :=
  match k with CK_Dec => [35] | CK_Hex => [35; 36] | CK_Bin => [35; 37] end.
Definition code_digit (k : code_kind) : byte -> bool :=
  match k with CK_Dec => is_dec | CK_Hex => is_hex | CK_Bin => is_bin end.

(* a complete piece of a literal: a quoted piece or a character code.  A doubled quote inside a
   string is simply two adjacent quoted pieces. *)
Inductive piece : bytes -> Prop :=
| p_quoted body : forallb str_char body = true -> piece (39 :: body ++ [39])
| p_code k ds : ds <> [] -> forallb (code_digit k) ds = true -> piece (code_prefix k ++ ds).

Inductive pieces : bytes -> Prop :=
| ps_nil : pieces []
| ps_snoc p q : pieces p -> piece q -> pieces (p ++ q).

(* the last, possibly incomplete, piece; indexed by the automaton state it corresponds to *)
Definition open_piece (s : tl_state) (o : bytes) : Prop :=
  match s with
  | TL_E => o = []
  | TL_S => exists body, o = 39 :: body /\ forallb str_char body = true
  | TL_H => o = [35]
  | TL_D => exists ds, o = 35 :: ds /\ ds <> [] /\ forallb is_dec ds = true
  | TL_X0 => o = [35; 36]
  | TL_X => exists ds, o = 35 :: 36 :: ds /\ ds <> [] /\ forallb is_hex ds = true
  | TL_B0 => o = [35; 37]
  | TL_B => exists ds, o = 35 :: 37 :: ds /\ ds <> [] /\ forallb is_bin ds = true
  end.

Definition ends_or (p : byte -> bool) (rest : bytes) : Prop :=
  match rest with [] => True | x :: _ => p x = true end.

Definition no_piece_start (x : byte) : bool := negb (x =? 39) && negb (x =? 35).

(* a complete literal that the following byte cannot extend *)
Definition complete_ok (s : tl_state) (rest : bytes) : Prop :=
  match s with
  | TL_E => ends_or no_piece_start rest
  | TL_D => ends_or (fun x => no_piece_start x && negb (is_dec x)) rest
  | TL_X => ends_or (fun x => no_piece_start x && negb (is_hex x)) rest
  | TL_B => ends_or (fun x => no_piece_start x && negb (is_bin x)) rest
  | _ => False
  end.

(* an incomplete last piece that the following byte cannot continue *)
Definition stuck_ok (s : tl_state) (rest : bytes) : Prop :=
  match s with
  | TL_S => ends_or is_eol rest
  | TL_H => ends_or (fun x => negb (is_dec x) && negb (x =? 36) && negb (x =? 37)) rest
  | TL_X0 => ends_or (fun x => negb (is_hex x)) rest
  | TL_B0 => ends_or (fun x => negb (is_bin x)) rest
  | _ => False
  end.

(* THE SHAPE of a single-line literal token with content [content], kind k, followed by [rest]:
   content = complete pieces ++ last piece, where
   - SingleLine: the last piece is empty or a character code with at least one digit, and the next
     byte is neither a quote nor a hash nor a further digit of that code (maximality);
   - Unterminated: the last piece is an unclosed quoted piece stopped by CR, LF or the end of input,
     or a hash / hash-dollar / hash-percent without any digit. *)
Definition sl_result (content : bytes) (k : TextLiteralKind) (rest : bytes) : Prop :=
  exists s done o, content = done ++ o /\ pieces done /\ open_piece s o /\
    match k with
    | TK_SingleLine => complete_ok s rest
    | TK_Unterminated => stuck_ok s rest
    | _ => False
    end.

Definition tl_inv (s : tl_state) (c : bytes) : Prop :=
  exists done o, c = done ++ o /\ pieces done /\ open_piece s o.

Lemma snoc_not_nil {A} (l : list A) x : l ++ [x] <> [].
Proof. intros H. apply app_eq_nil in H. destruct H as [_ H]. discriminate H. Qed.

Lemma forallb_snoc {A} (p : A -> bool) l x :
  forallb p l = true -> p x = true -> forallb p (l ++ [x]) = true.
Proof. intros H1 H2. rewrite forallb_app, H1. cbn [forallb andb]. rewrite H2. reflexivity. Qed.

Lemma tl_inv_E_step (c : bytes) (b : byte) s' :
  pieces c -> tl_step_E b = TGo s' -> tl_inv s' (c ++ [b]).
Proof.
  intros Hc. unfold tl_step_E. destruct (b =? 35) eqn:E1.
  - intros H. injection H as <-. apply N.eqb_eq in E1. subst b.
    exists c, [35]. split; [reflexivity|]. split; [exact Hc|reflexivity].
  - destruct (b =? 39) eqn:E2; [|intros Hx; discriminate Hx].
    intros H. injection H as <-. apply N.eqb_eq in E2. subst b.
    exists c, [39]. split; [reflexivity|]. split; [exact Hc|]. exists []. split; reflexivity.
Qed.

(* one automaton step keeps the decomposition *)
Lemma tl_inv_step s (c : bytes) (b : byte) s' :
  tl_inv s c -> tl_step s b = TGo s' -> tl_inv s' (c ++ [b]).
Proof.
  intros (done & o & -> & Hd & Ho). destruct s; cbn [tl_step open_piece] in *.
  - (* E *) subst o. rewrite app_nil_r. apply tl_inv_E_step. exact Hd.
  - (* H *) subst o. destruct (is_dec b) eqn:E1.
    + intros H. injection H as <-. exists done, [35; b].
      split; [rewrite <- app_assoc; reflexivity|]. split; [exact Hd|].
      exists [b]. split; [reflexivity|]. split; [discriminate|]. cbn [forallb]. rewrite E1. reflexivity.
    + destruct (b =? 36) eqn:E2.
      * intros H. injection H as <-. apply N.eqb_eq in E2. subst b. exists done, [35; 36].
        split; [rewrite <- app_assoc; reflexivity|]. split; [exact Hd|reflexivity].
      * destruct (b =? 37) eqn:E3; [|intros Hx; discriminate Hx].
        intros H. injection H as <-. apply N.eqb_eq in E3. subst b. exists done, [35; 37].
        split; [rewrite <- app_assoc; reflexivity|]. split; [exact Hd|reflexivity].
  - (* D *) destruct Ho as (ds & -> & Hne & Hds). destruct (is_dec b) eqn:E1.
    + intros H. injection H as <-. exists done, (35 :: ds ++ [b]).
      split; [rewrite <- app_assoc; reflexivity|]. split; [exact Hd|].
      exists (ds ++ [b]). split; [reflexivity|]. split; [apply snoc_not_nil|apply forallb_snoc; assumption].
    + apply tl_inv_E_step. apply ps_snoc; [exact Hd|]. exact (p_code CK_Dec ds Hne Hds).
  - (* X0 *) subst o. destruct (is_hex b) eqn:E1; [|intros Hx; discriminate Hx].
    intros H. injection H as <-. exists done, [35; 36; b].
    split; [rewrite <- app_assoc; reflexivity|]. split; [exact Hd|].
    exists [b]. split; [reflexivity|]. split; [discriminate|]. cbn [forallb]. rewrite E1. reflexivity.
  - (* X *) destruct Ho as (ds & -> & Hne & Hds). destruct (is_hex b) eqn:E1.
    + intros H. injection H as <-. exists done, (35 :: 36 :: ds ++ [b]).
      split; [rewrite <- app_assoc; reflexivity|]. split; [exact Hd|].
      exists (ds ++ [b]). split; [reflexivity|]. split; [apply snoc_not_nil|apply forallb_snoc; assumption].
    + apply tl_inv_E_step. apply ps_snoc; [exact Hd|]. exact (p_code CK_Hex ds Hne Hds).
  - (* B0 *) subst o. destruct (is_bin b) eqn:E1; [|intros Hx; discriminate Hx].
    intros H. injection H as <-. exists done, [35; 37; b].
    split; [rewrite <- app_assoc; reflexivity|]. split; [exact Hd|].
    exists [b]. split; [reflexivity|]. split; [discriminate|]. cbn [forallb]. rewrite E1. reflexivity.
  - (* B *) destruct Ho as (ds & -> & Hne & Hds). destruct (is_bin b) eqn:E1.
    + intros H. injection H as <-. exists done, (35 :: 37 :: ds ++ [b]).
      split; [rewrite <- app_assoc; reflexivity|]. split; [exact Hd|].
      exists (ds ++ [b]). split; [reflexivity|]. split; [apply snoc_not_nil|apply forallb_snoc; assumption].
    + apply tl_inv_E_step. apply ps_snoc; [exact Hd|]. exact (p_code CK_Bin ds Hne Hds).
  - (* S *) destruct Ho as (body & -> & Hb). destruct (b =? 39) eqn:E1.
    + intros H. injection H as <-. apply N.eqb_eq in E1. subst b.
      exists (done ++ 39 :: body ++ [39]), []. split; [rewrite app_nil_r, <- app_assoc; reflexivity|].
      split; [|reflexivity]. apply ps_snoc; [exact Hd|]. apply p_quoted. exact Hb.
    + destruct ((b =? 10) || (b =? 13)) eqn:E2; [intros Hx; discriminate Hx|].
      intros H. injection H as <-. exists done, (39 :: body ++ [b]).
      split; [rewrite <- app_assoc; reflexivity|]. split; [exact Hd|].
      exists (body ++ [b]). split; [reflexivity|]. apply forallb_snoc; [exact Hb|].
      unfold str_char, is_eol. rewrite E1, E2. reflexivity.
Qed.

(* a stop of the automaton is a legitimate end *)
Lemma tl_stop_ok s (b : byte) k (t : bytes) :
  tl_step s b = TStop k ->
  match k with
  | TK_SingleLine => complete_ok s (b :: t)
  | TK_Unterminated => stuck_ok s (b :: t)
  | _ => False
  end.
Proof.
  assert (HE : forall k', tl_step_E b = TStop k' -> k' = TK_SingleLine /\ no_piece_start b = true).
  { intros k'. unfold tl_step_E, no_piece_start.
    destruct (b =? 35); [intros Hx; discriminate Hx|].
    destruct (b =? 39); [intros Hx; discriminate Hx|]. intros H. injection H as <-. split; reflexivity. }
  destruct s; cbn [tl_step complete_ok stuck_ok ends_or].
  - intros H. destruct (HE _ H) as [-> Hn]. exact Hn.
  - destruct (is_dec b); [intros Hx; discriminate Hx|].
    destruct (b =? 36); [intros Hx; discriminate Hx|].
    destruct (b =? 37); [intros Hx; discriminate Hx|]. intros H. injection H as <-. reflexivity.
  - destruct (is_dec b); [intros Hx; discriminate Hx|]. intros H. destruct (HE _ H) as [-> Hn].
    cbn [complete_ok ends_or]. rewrite Hn. reflexivity.
  - destruct (is_hex b); [intros Hx; discriminate Hx|]. intros H. injection H as <-. reflexivity.
  - destruct (is_hex b); [intros Hx; discriminate Hx|]. intros H. destruct (HE _ H) as [-> Hn].
    cbn [complete_ok ends_or]. rewrite Hn. reflexivity.
  - destruct (is_bin b); [intros Hx; discriminate Hx|]. intros H. injection H as <-. reflexivity.
  - destruct (is_bin b); [intros Hx; discriminate Hx|]. intros H. destruct (HE _ H) as [-> Hn].
    cbn [complete_ok ends_or]. rewrite Hn. reflexivity.
  - destruct (b =? 39); [intros Hx; discriminate Hx|]. unfold is_eol.
    destruct ((b =? 10) || (b =? 13)); [|intros Hx; discriminate Hx].
    intros H. injection H as <-. reflexivity.
Qed.

Lemma tl_end_ok s :
  match tl_end s with
  | TK_SingleLine => complete_ok s []
  | TK_Unterminated => stuck_ok s []
  | _ => False
  end.
Proof. destruct s; exact I. Qed.

Lemma tl_run_unfold s (b : byte) (t : bytes) :
  tl_run s (b :: t) =
  match tl_step s b with
  | TGo s' => (S (fst (tl_run s' t)), snd (tl_run s' t))
  | TStop k => (O, k)
  end.
Proof. reflexivity. Qed.

(* the automaton run, from any state and content so far, for input of any length *)
Lemma tl_run_spec : forall (l : bytes) s (c : bytes), tl_inv s c ->
  sl_result (c ++ firstn (fst (tl_run s l)) l) (snd (tl_run s l)) (skipn (fst (tl_run s l)) l).
Proof.
  induction l as [|b t IH]; intros s c Hinv.
  - cbn [tl_run fst snd firstn skipn]. rewrite app_nil_r.
    destruct Hinv as (done & o & -> & Hd & Ho). exists s, done, o.
    split; [reflexivity|]. split; [exact Hd|]. split; [exact Ho|apply tl_end_ok].
  - rewrite tl_run_unfold. destruct (tl_step s b) as [s'|k] eqn:E.
    + cbn [fst snd firstn skipn].
      replace (c ++ b :: firstn (fst (tl_run s' t)) t)
        with ((c ++ [b]) ++ firstn (fst (tl_run s' t)) t) by (rewrite <- app_assoc; reflexivity).
      apply IH. exact (tl_inv_step _ _ _ _ Hinv E).
    + cbn [fst snd firstn skipn]. rewrite app_nil_r.
      destruct Hinv as (done & o & -> & Hd & Ho). exists s, done, o.
      split; [reflexivity|]. split; [exact Hd|]. split; [exact Ho|exact (tl_stop_ok _ _ _ t E)].
Qed.

(* a SingleLine result is a sequence of complete pieces *)
Lemma sl_result_pieces (c rest : bytes) : sl_result c TK_SingleLine rest -> pieces c.
Proof.
  intros (s & done & o & -> & Hd & Ho & Hc). destruct s; cbn [open_piece complete_ok] in *; try contradiction.
  - subst o. rewrite app_nil_r. exact Hd.
  - destruct Ho as (ds & -> & Hne & Hds). apply ps_snoc; [exact Hd|exact (p_code CK_Dec ds Hne Hds)].
  - destruct Ho as (ds & -> & Hne & Hds). apply ps_snoc; [exact Hd|exact (p_code CK_Hex ds Hne Hds)].
  - destruct Ho as (ds & -> & Hne & Hds). apply ps_snoc; [exact Hd|exact (p_code CK_Bin ds Hne Hds)].
Qed.

(* THE SINGLE-LINE TEXT LITERAL RULE.  A token starting with a quote that is not a multi-line opener
   (section 6), or with a hash, is a text literal whose content and kind satisfy [sl_result]: quoted
   pieces and character codes in any number and of any length, ended exactly where the next byte can
   no longer belong to it; Unterminated iff the last piece is an unclosed quoted piece (stopped by
   CR, LF or end of input) or a character code without digits.  Same in asm mode.
   Here maximality is stated as "the byte after the token cannot extend it" ([complete_ok] /
   [stuck_ok]); the longest-prefix form is [lex_string_maximal] below. *)
Theorem lex_string_spec : forall st nlb (t : bytes),
  (ml_opener t = false ->
   exists n k, lex_token st nlb 39 t = Some (n, RTT_TextLiteral k, ls_asm st) /\
               (k = TK_SingleLine \/ k = TK_Unterminated) /\
               sl_result (39 :: firstn n t) k (skipn n t)) /\
  (exists n k, lex_token st nlb 35 t = Some (n, RTT_TextLiteral k, ls_asm st) /\
               (k = TK_SingleLine \/ k = TK_Unterminated) /\
               sl_result (35 :: firstn n t) k (skipn n t)).
Proof.
  intros st nlb t.
  assert (Hk : forall s (c : bytes), tl_inv s c ->
            snd (tl_run s t) = TK_SingleLine \/ snd (tl_run s t) = TK_Unterminated).
  { intros s c Hinv. pose proof (tl_run_spec t s c Hinv) as (s' & d & o & _ & _ & _ & H).
    destruct (snd (tl_run s t)); try contradiction; [left|right]; reflexivity. }
  assert (HS : tl_inv TL_S [39]).
  { exists [], [39]. split; [reflexivity|]. split; [constructor|]. exists []. split; reflexivity. }
  assert (HH : tl_inv TL_H [35]).
  { exists [], [35]. split; [reflexivity|]. split; [constructor|reflexivity]. }
  split.
  - intros Hml. exists (fst (tl_run TL_S t)), (snd (tl_run TL_S t)). split; [|split].
    + assert (Hc : lex_common st nlb 39 t = tok (text_literal 39 t)) by reflexivity.
      unfold lex_token. destruct (ls_asm st); cbn; rewrite Hc, text_literal_quote, Hml; reflexivity.
    + exact (Hk _ _ HS).
    + exact (tl_run_spec t TL_S [39] HS).
  - exists (fst (tl_run TL_H t)), (snd (tl_run TL_H t)). split; [|split].
    + assert (Hc : lex_common st nlb 35 t = tok (text_literal 35 t)) by reflexivity.
      unfold lex_token. destruct (ls_asm st); cbn; rewrite Hc, text_literal_hash; reflexivity.
    + exact (Hk _ _ HH).
    + exact (tl_run_spec t TL_H [35] HH).
Qed.

(* 'a''b'#13#$0A;   'abc CR   #$ x   '' (empty string) followed by x   #1_0'x'y   'it''s' then LF *)
Example lex_string_example :
  lex_token init_state false 39 [97; 39; 39; 98; 39; 35; 49; 51; 35; 36; 48; 65; 59]
    = Some (12%nat, RTT_TextLiteral TK_SingleLine, false) /\
  lex_token init_state false 39 [97; 98; 99; 13; 10] = Some (3%nat, RTT_TextLiteral TK_Unterminated, false) /\
  lex_token init_state false 35 [36; 32; 120] = Some (1%nat, RTT_TextLiteral TK_Unterminated, false) /\
  lex_token init_state false 39 [39; 120] = Some (1%nat, RTT_TextLiteral TK_SingleLine, false) /\
  lex_token init_state false 35 [49; 95; 48; 39; 120; 39; 121] = Some (6%nat, RTT_TextLiteral TK_SingleLine, false) /\
  lex_token init_state false 39 (repeat 120 700 ++ [39; 39; 115; 39; 10])
    = Some (704%nat, RTT_TextLiteral TK_SingleLine, false) /\
  ml_opener [97; 39; 39; 98; 39; 35; 49; 51; 35; 36; 48; 65; 59] = false.
Proof. vm_compute. repeat split; reflexivity. Qed.

(* the shape of 'a''b'#13 by hand: three complete pieces *)
Example pieces_example : pieces [39; 97; 39; 39; 98; 39; 35; 49; 51].
Proof.
  apply (ps_snoc [39; 97; 39; 39; 98; 39] [35; 49; 51]).
  - apply (ps_snoc [39; 97; 39] [39; 98; 39]).
    + apply (ps_snoc [] [39; 97; 39]); [constructor|]. apply (p_quoted [97]). reflexivity.
    + apply (p_quoted [98]). reflexivity.
  - apply (p_code CK_Dec [49; 51]); [discriminate|reflexivity].
Qed.

(* ---- full maximality: no prefix of the input that is a sequence of complete pieces is longer than
   the token ---- *)

(* the state after consuming all of l without stopping *)
Fixpoint tl_states (s : tl_state) (l : bytes) : option tl_state :=
  match l with
  | [] => Some s
  | b :: t => match tl_step s b with TGo s' => tl_states s' t | TStop _ => None end
  end.

Lemma tl_states_app s (x y : bytes) :
  tl_states s (x ++ y) = match tl_states s x with Some s' => tl_states s' y | None => None end.
Proof.
  revert s; induction x as [|b x IH]; intros s; [reflexivity|].
  cbn [app tl_states]. destruct (tl_step s b); [apply IH|reflexivity].
Qed.

Lemma tl_states_run (x rest : bytes) : forall s s', tl_states s x = Some s' ->
  fst (tl_run s (x ++ rest)) = (length x + fst (tl_run s' rest))%nat.
Proof.
  induction x as [|b x IH]; intros s s' H.
  - injection H as <-. reflexivity.
  - cbn [tl_states] in H. cbn [app]. rewrite tl_run_unfold.
    destruct (tl_step s b) as [s1|k]; [|discriminate H].
    cbn [fst length]. rewrite (IH _ _ H). reflexivity.
Qed.

Lemma tl_states_loop (p : byte -> bool) s :
  (forall b, p b = true -> tl_step s b = TGo s) ->
  forall ds : bytes, forallb p ds = true -> tl_states s ds = Some s.
Proof.
  intros Hp. induction ds as [|d ds IH]; intros H; [reflexivity|].
  cbn [forallb] in H. apply andb_true_iff in H. destruct H as [Hd H].
  cbn [tl_states]. rewrite (Hp _ Hd). apply IH. exact H.
Qed.

Definition closed_state (s : tl_state) : Prop :=
  match s with TL_E | TL_D | TL_X | TL_B => True | _ => False end.

Lemma str_char_loop b : str_char b = true -> tl_step TL_S b = TGo TL_S.
Proof.
  unfold str_char, is_eol. intros H. apply andb_true_iff in H. destruct H as [H1 H2].
  apply negb_true_iff in H1, H2. cbn [tl_step]. rewrite H1, H2. reflexivity.
Qed.

Lemma dec_loop b : is_dec b = true -> tl_step TL_D b = TGo TL_D.
Proof. intros H. cbn [tl_step]. rewrite H. reflexivity. Qed.
Lemma hex_loop b : is_hex b = true -> tl_step TL_X b = TGo TL_X.
Proof. intros H. cbn [tl_step]. rewrite H. reflexivity. Qed.
Lemma bin_loop b : is_bin b = true -> tl_step TL_B b = TGo TL_B.
Proof. intros H. cbn [tl_step]. rewrite H. reflexivity. Qed.

Lemma piece_states s (q : bytes) : closed_state s -> piece q ->
  exists s', closed_state s' /\ tl_states s q = Some s'.
Proof.
  intros Hs Hq. destruct Hq as [body Hb|k ds Hne Hds].
  - exists TL_E. split; [exact I|].
    change (39 :: body ++ [39]) with ([39] ++ body ++ [39]). rewrite tl_states_app.
    assert (H1 : tl_states s [39] = Some TL_S) by (destruct s; try contradiction; reflexivity).
    rewrite H1, tl_states_app, (tl_states_loop str_char TL_S str_char_loop body Hb). reflexivity.
  - destruct ds as [|d ds]; [contradiction Hne; reflexivity|].
    cbn [forallb] in Hds. apply andb_true_iff in Hds. destruct Hds as [Hd Hds].
    assert (H1 : tl_states s [35] = Some TL_H) by (destruct s; try contradiction; reflexivity).
    destruct k; cbn [code_prefix code_digit] in *.
    + exists TL_D. split; [exact I|].
      change ([35] ++ d :: ds) with ([35] ++ [d] ++ ds). rewrite tl_states_app, H1, tl_states_app.
      cbn [tl_states tl_step]. rewrite Hd. exact (tl_states_loop is_dec TL_D dec_loop ds Hds).
    + exists TL_X. split; [exact I|].
      change ([35; 36] ++ d :: ds) with ([35] ++ [36] ++ [d] ++ ds).
      rewrite tl_states_app, H1, tl_states_app.
      assert (H2 : tl_states TL_H [36] = Some TL_X0) by reflexivity. rewrite H2, tl_states_app.
      cbn [tl_states tl_step]. rewrite Hd. exact (tl_states_loop is_hex TL_X hex_loop ds Hds).
    + exists TL_B. split; [exact I|].
      change ([35; 37] ++ d :: ds) with ([35] ++ [37] ++ [d] ++ ds).
      rewrite tl_states_app, H1, tl_states_app.
      assert (H2 : tl_states TL_H [37] = Some TL_B0) by reflexivity. rewrite H2, tl_states_app.
      cbn [tl_states tl_step]. rewrite Hd. exact (tl_states_loop is_bin TL_B bin_loop ds Hds).
Qed.

Lemma pieces_states (p : bytes) : pieces p ->
  exists s', closed_state s' /\ tl_states TL_E p = Some s'.
Proof.
  induction 1 as [|p q Hp IH Hq]; [exists TL_E; split; [exact I|reflexivity]|].
  destruct IH as (s1 & Hs1 & E1). destruct (piece_states s1 q Hs1 Hq) as (s2 & Hs2 & E2).
  exists s2. split; [exact Hs2|]. rewrite tl_states_app, E1. exact E2.
Qed.

(* LONGEST MATCH for text literals: any prefix of the input (token start included) that consists of
   complete pieces is at most as long as the token.  With [lex_string_spec] (a SingleLine token IS
   such a prefix, by [sl_result_pieces]) the token is the longest prefix of that shape. *)
Theorem lex_string_maximal : forall st nlb (b : byte) (t p r : bytes) n k a,
  b = 39 \/ b = 35 -> (b = 39 -> ml_opener t = false) ->
  lex_token st nlb b t = Some (n, RTT_TextLiteral k, a) ->
  b :: t = p ++ r -> pieces p -> (length p <= S n)%nat.
Proof.
  intros st nlb b t p r n k a Hb Hml H Hsplit Hp.
  destruct (pieces_states p Hp) as (s' & _ & Es).
  pose proof (tl_states_run p r _ _ Es) as Hrun. rewrite <- Hsplit in Hrun.
  destruct (lex_string_spec st nlb t) as [Hq Hh].
  destruct Hb as [-> | ->].
  - destruct (Hq (Hml eq_refl)) as (n' & k' & E & _ & _).
    assert (En : n' = fst (tl_run TL_S t)).
    { assert (Hc : lex_common st nlb 39 t = tok (text_literal 39 t)) by reflexivity.
      unfold lex_token in E. rewrite Hc, text_literal_quote, (Hml eq_refl) in E.
      destruct (ls_asm st); cbn in E; injection E as <- _; reflexivity. }
    rewrite E in H. injection H as <- _ _. subst n'.
    change (fst (tl_run TL_E (39 :: t))) with (S (fst (tl_run TL_S t))) in Hrun. blia.
  - destruct Hh as (n' & k' & E & _ & _).
    assert (En : n' = fst (tl_run TL_H t)).
    { assert (Hc : lex_common st nlb 35 t = tok (text_literal 35 t)) by reflexivity.
      unfold lex_token in E. rewrite Hc, text_literal_hash in E.
      destruct (ls_asm st); cbn in E; injection E as <- _; reflexivity. }
    rewrite E in H. injection H as <- _ _. subst n'.
    change (fst (tl_run TL_E (35 :: t))) with (S (fst (tl_run TL_H t))) in Hrun. blia.
Qed.

(* ================================================================== *)
(* 6. Multi-line text literals                                         *)

Lemma forallb_eq_repeat (c : byte) (l : bytes) :
  forallb (fun x => x =? c) l = true -> l = repeat c (length l).
Proof.
  induction l as [|x l IH]; intros H; [reflexivity|].
  cbn [forallb] in H. apply andb_true_iff in H. destruct H as [Hx H].
  apply N.eqb_eq in Hx. subst x. cbn [length repeat]. f_equal. apply IH. exact H.
Qed.

Lemma forallb_repeat_eq (c : byte) n : forallb (fun x => x =? c) (repeat c n) = true.
Proof. induction n as [|n IH]; [reflexivity|]. cbn [repeat forallb]. rewrite N.eqb_refl. exact IH. Qed.

(* THE OPENER: the token starts with an odd number q >= 3 of quotes (the first one plus m = q - 1
   more) IMMEDIATELY followed by CR or LF - no blanks are allowed in between. *)
Theorem ml_opener_spec : forall t : bytes,
  ml_opener t = true <->
  exists m (c : byte) (r : bytes),
    t = repeat 39 m ++ c :: r /\ (c = 13 \/ c = 10) /\ (2 <= m)%nat /\ Nat.even m = true.
Proof.
  intros t. unfold ml_opener. cbv zeta.
  set (m := count_while (fun c => c =? 39) t).
  replace (S m - 1)%nat with m by blia. rewrite Nat.odd_succ. split.
  - intros H. apply andb_true_iff in H. destruct H as [H Hn]. apply andb_true_iff in H.
    destruct H as [Hm He]. apply Nat.leb_le in Hm.
    assert (Hc : exists (c : byte) (r : bytes), skipn m t = c :: r /\ (c = 13 \/ c = 10)).
    { apply orb_true_iff in Hn. destruct Hn as [Hn|Hn]; apply next_is_cons in Hn; destruct Hn as [r Hn];
        eexists _, r; (split; [exact Hn|]); [left|right]; reflexivity. }
    destruct Hc as (c & r & Hs & Hc). exists m, c, r.
    split; [|split; [exact Hc|split; [blia|exact He]]].
    rewrite <- (firstn_skipn m t) at 1. rewrite Hs. f_equal.
    pose proof (count_while_firstn (fun c => c =? 39) t) as Hf. fold m in Hf.
    apply forallb_eq_repeat in Hf. rewrite firstn_length_le in Hf by apply count_while_le. exact Hf.
  - intros (m' & c & r & Ht & Hc & Hm & He).
    assert (Em : m = m').
    { subst m. rewrite Ht. rewrite <- (repeat_length 39 m') at 2.
      apply count_while_app_stop; [apply forallb_repeat_eq|].
      destruct Hc as [-> | ->]; reflexivity. }
    assert (Hs : skipn m' t = c :: r).
    { rewrite Ht. rewrite <- (repeat_length 39 m') at 1. apply skipn_app_exact. }
    rewrite Em, Hs, He. replace (3 <=? S m')%nat with true by (symmetry; apply Nat.leb_le; blia).
    destruct Hc as [-> | ->]; reflexivity.
Qed.

(* THE MULTI-LINE TEXT LITERAL RULE.  When the token starts with a multi-line opener of q quotes, the
   literal ends with the FIRST occurrence of q consecutive quotes in the text after the opener
   (wherever it stands: not necessarily at the start of a line, and possibly the first q quotes of a
   longer run of quotes), and is a MultiLine literal; if there is none, it is an Unterminated literal
   extending to the very end of the input (trailing blanks included).  Same in asm mode. *)
Theorem lex_multiline_spec : forall st nlb (t : bytes),
  ml_opener t = true ->
  let q := S (count_while (fun c => c =? 39) t) in
  let body := skipn (q - 1) t in
  exists n k,
    lex_token st nlb 39 t = Some (n, RTT_TextLiteral k, ls_asm st) /\
    ((exists pos, first_occurrence (repeat 39 q) body pos /\
                  n = ((q - 1) + pos + q)%nat /\ (n <= length t)%nat /\ k = TK_MultiLine)
     \/ (no_occurrence (repeat 39 q) body /\ n = length t /\ k = TK_Unterminated)).
Proof.
  intros st nlb t Hml q body.
  assert (Hc : lex_common st nlb 39 t = tok (text_literal 39 t)) by reflexivity.
  assert (Ht : forall n ty, text_literal 39 t = (n, ty) ->
             lex_token st nlb 39 t = Some (n, ty, ls_asm st)).
  { intros n ty E. unfold lex_token. rewrite Hc, E. destruct (ls_asm st); reflexivity. }
  pose proof (text_literal_le 39 t) as Hle.
  rewrite text_literal_quote, Hml in *. cbv zeta in *. fold q in Ht, Hle. fold body in Ht, Hle.
  destruct (find_sub (repeat 39 q) body) as [pos|] eqn:E.
  - eexists _, _. split; [apply Ht; reflexivity|]. left. exists pos.
    split; [apply find_sub_some; exact E|]. split; [reflexivity|]. split; [exact Hle|reflexivity].
  - eexists _, _. split; [apply Ht; reflexivity|]. right.
    split; [apply find_sub_none; exact E|]. split; reflexivity.
Qed.

(* ''' LF a LF ''' ;            the closing run need not start a line: ''' LF a ''' b
   five quotes as delimiter, three quotes inside;      unterminated: to the end of input
   ''' followed by a blank before the LF is NOT an opener *)
Example lex_multiline_example :
  lex_token init_state false 39 [39; 39; 10; 97; 10; 39; 39; 39; 59]
    = Some (8%nat, RTT_TextLiteral TK_MultiLine, false) /\
  lex_token init_state false 39 [39; 39; 10; 97; 39; 39; 39; 98]
    = Some (7%nat, RTT_TextLiteral TK_MultiLine, false) /\
  lex_token init_state false 39 [39; 39; 39; 39; 13; 10; 39; 39; 39; 10; 39; 39; 39; 39; 39; 59]
    = Some (15%nat, RTT_TextLiteral TK_MultiLine, false) /\
  lex_token init_state false 39 [39; 39; 10; 97; 10; 39; 39; 32; 10]
    = Some (9%nat, RTT_TextLiteral TK_Unterminated, false) /\
  ml_opener [39; 39; 32; 10; 97; 10; 39; 39; 39] = false /\
  lex_token init_state false 39 [39; 39; 32; 10; 97; 10; 39; 39; 39]
    = Some (3%nat, RTT_TextLiteral TK_Unterminated, false) /\
  ml_opener [39; 39; 10; 97; 10; 39; 39; 39; 59] = true.
Proof. vm_compute. repeat split; reflexivity. Qed.

(* ================================================================== *)
(* 9. The remaining first bytes                                        *)

(* the first bytes covered by the rules above (and the ampersand and brace/paren-star-dollar
   directives, which are not specified here) *)
Definition classified (b : byte) : bool :=
  word_start b || is_digit b || existsb (N.eqb b) [36; 37; 39; 35; 123; 38] || existsb (N.eqb b) op_bytes.

(* any other first byte is a one-byte Unknown token (in normal mode): the exclamation mark, double
   quote, question mark, backslash, backtick, vertical bar, a stray closing brace, tilde, DEL *)
Theorem lex_unknown_spec : forall st nlb (b : byte) (t : bytes),
  ls_asm st = false -> classified b = false ->
  lex_token st nlb b t = Some (0%nat, RTT_Unknown, false).
Proof.
  intros st nlb b t Hasm H. unfold classified, word_start, op_bytes, one_byte_ops in H.
  cbn [existsb map fst] in H.
  repeat match type of H with
         | (_ || _) = false => let H1 := fresh "F" in apply orb_false_iff in H; destruct H as [H H1]
         end.
  repeat match goal with
         | F : (_ || _) = false |- _ =>
             let F1 := fresh "F" in apply orb_false_iff in F; destruct F as [F F1]
         end.
  rewrite lex_token_normal by exact Hasm. unfold lex_common.
  repeat match goal with
         | F : (b =? ?c) = false |- _ => rewrite F; clear F
         end.
  repeat match goal with F : _ = false |- _ => rewrite F end.
  reflexivity.
Qed.

Example lex_unknown_example :
  classified 33 = false /\ classified 34 = false /\ classified 63 = false /\ classified 92 = false /\
  classified 96 = false /\ classified 124 = false /\ classified 125 = false /\ classified 126 = false /\ classified 127 = false /\
  lex_token init_state false 63 [63] = Some (0%nat, RTT_Unknown, false) /\
  forallb (fun b => classified b || (b <=? 32) ||
                    existsb (N.eqb b) [33; 34; 63; 92; 96; 124; 125; 126; 127]) all_bytes = true.
Proof. vm_compute. repeat split; reflexivity. Qed.

(* an ampersand followed by a letter or underscore: an identifier (never a keyword) made of the
   ampersand and the maximal run of identifier bytes; same in asm mode *)
Theorem lex_amp_identifier_spec : forall st nlb (c : byte) (r : bytes),
  is_alpha c || (c =? 95) = true ->
  lex_token st nlb 38 (c :: r) = Some (ident_end_generic (c :: r), RTT_Identifier, ls_asm st) /\
  ident_run (c :: r) (ident_end_generic (c :: r)).
Proof.
  intros st nlb c r Hc. split; [|apply ident_end_generic_run].
  assert (Hne : (c =? 38) = false).
  { apply N.eqb_neq. intros ->. discriminate Hc. }
  assert (Hib : ident_byte (c :: r) = true).
  { unfold ident_byte, is_ident_ascii, is_alnum. apply orb_true_iff in Hc. destruct Hc as [Hc|Hc]; rewrite Hc.
    - reflexivity.
    - rewrite orb_true_r. reflexivity. }
  assert (Ha : ampersand (c :: r) = (S (ident_end_generic r), RTT_Identifier)).
  { unfold ampersand. cbn [count_while]. rewrite Hne. cbn [skipn].
    assert (H36 : (c =? 36) = false).
    { apply N.eqb_neq. intros ->. discriminate Hc. }
    assert (H37 : (c =? 37) = false).
    { apply N.eqb_neq. intros ->. discriminate Hc. }
    assert (Hd : is_digit c = false).
    { destruct (is_digit c) eqn:E; [|reflexivity]. apply is_digit_range in E.
      apply orb_true_iff in Hc. destruct Hc as [Hc|Hc].
      - apply is_alpha_range in Hc. blia.
      - apply N.eqb_eq in Hc. blia. }
    rewrite H36, H37, Hd, Hc. reflexivity. }
  assert (Hcm : lex_common st nlb 38 (c :: r) = tok (ampersand (c :: r))) by reflexivity.
  rewrite ident_end_generic_step. unfold bytes, byte in *. rewrite Hib.
  unfold lex_token. rewrite Hcm, Ha. destruct (ls_asm st); reflexivity.
Qed.

Example lex_amp_identifier_example :
  lex_token init_state false 38 [98; 101; 103; 105; 110; 59] = Some (5%nat, RTT_Identifier, false).
Proof. vm_compute. reflexivity. Qed.

(* ================================================================== *)
(* 10. The Individual / Inline flag in context                         *)

(* after the first token the first-token flag is off for good *)
Lemma next_state_not_first st ty a : ls_first (next_state st ty a) = false.
Proof. reflexivity. Qed.

(* A line comment anywhere in a text lexed from the state st, after the blanks ws: it is an
   IndividualLine comment iff ws contains a LF or it is the very first token; its leading-blank count
   is |ws| and its body is the maximal run of non-CR/LF bytes. *)
Theorem lex_line_comment_in_context : forall st (ws t : bytes) w n ty toks,
  all_blank ws ->
  lex_from st (ws ++ 47 :: 47 :: t) = Some ((w, n, ty) :: toks) ->
  w = length ws /\
  ty = RTT_Comment (if contains_byte 10 ws || ls_first st then CoK_IndividualLine else CoK_InlineLine) /\
  (exists m, n = S (S m) /\ longest_run not_eol t m) /\
  lex_from (mkLS false (ls_asm st) (ls_prev st)) (skipn (n - 2) t) = Some toks.
Proof.
  intros st ws t w n ty toks Hws H.
  assert (Hst : tok_start 47 (47 :: t)) by (split; reflexivity).
  destruct (lex_position_independent _ _ _ _ _ Hws Hst H) as (n' & ty' & a' & rest & E & Hr & Et).
  injection Et as -> -> -> ->.
  destruct (lex_line_comment_spec st (contains_byte 10 ws || ls_first st) t) as (m & E' & Hm).
  rewrite E' in E. injection E as <- <- <-.
  split; [reflexivity|]. split; [reflexivity|]. split; [exists m; split; [reflexivity|exact Hm]|].
  replace (S (S m) - 2)%nat with m by blia.
  destruct (contains_byte 10 ws || ls_first st); exact Hr.
Qed.

(* x SP slash-slash a LF slash-slash b: the first comment is InlineLine, the second IndividualLine;
   a comment at the very start of the file is IndividualLine *)
Example lex_line_comment_in_context_example :
  lex_from init_state ([] ++ 47 :: 47 :: [97; 10; 120])
    = Some [(0, 3, RTT_Comment CoK_IndividualLine); (1, 1, RTT_Identifier); (0, 0, RTT_Eof)]%nat /\
  lex_from (mkLS false false (Some RTT_Identifier)) ([32] ++ 47 :: 47 :: [97; 10; 120])
    = Some [(1, 3, RTT_Comment CoK_InlineLine); (1, 1, RTT_Identifier); (0, 0, RTT_Eof)]%nat /\
  lex_from (mkLS false false (Some RTT_Identifier)) ([10; 32] ++ 47 :: 47 :: [97; 10; 120])
    = Some [(2, 3, RTT_Comment CoK_IndividualLine); (1, 1, RTT_Identifier); (0, 0, RTT_Eof)]%nat.
Proof. vm_compute. repeat split; reflexivity. Qed.

(* ================================================================== *)
(* all main results are axiom-free *)
Print Assumptions lex_word_maximal.
Print Assumptions keyword_iff_in_table.
Print Assumptions keyword_type_in_table.
Print Assumptions lex_line_comment_spec.
Print Assumptions lex_operator_spec.
Print Assumptions lex_operator_complete.
Print Assumptions lex_number_spec.
Print Assumptions lex_hex_spec.
Print Assumptions lex_binary_spec.
Print Assumptions lex_steps_sound.
Print Assumptions lex_steps_deterministic.
Print Assumptions lex_position_independent.
Print Assumptions lex_same_suffix_same_tokens.
Print Assumptions lex_block_comment_spec.
Print Assumptions lex_string_spec.
Print Assumptions lex_string_maximal.
Print Assumptions ml_opener_spec.
Print Assumptions lex_multiline_spec.
Print Assumptions lex_unknown_spec.
Print Assumptions lex_amp_identifier_spec.
Print Assumptions lex_line_comment_in_context.
