(* Proofs/FragmentUnitProofs.v — declaration sections in front of the main block (the other half of C05):
     unit ::= (`var` (Identifier `:` Identifier `;`)* | `const` (Identifier `=` Identifier `;`)* )* `begin` stmts `end` `.`
   parse_file gives exactly Fragment.expected_unit: the section keyword on a line of level 0, every member on a
   line of its own of type Declaration at level 1, then the lines of the main block.  The parser re-types
   `var`/`const` (DeclKind Other -> Section) and the `=` of a constant (Comp -> Decl). *)
From PasfmtVerif Require Import Model.Fragment Model.DirectiveTree Proofs.DirectiveTreeProofs Proofs.ParserKernelProofs Proofs.ParserGrammarProofs
  Proofs.ParserGrammarTypesProofs Proofs.ParserGrammarCoverProofs Proofs.ParserGrammarEofProofs Proofs.FragmentProofs.
Local Open Scope nat_scope.

Lemma render_members_plain m j : Forall plain m -> Forall plain (render_members m j).
Proof. intros Hm. induction j as [|j IH]; cbn [render_members]; [constructor|]. apply Forall_app. split; assumption. Qed.
Lemma render_decls_plain ds : Forall plain (render_decls ds).
Proof.
  induction ds as [|[j|j] r IH]; cbn [render_decls render_decl]; [constructor| |];
    (apply Forall_app; split; [|exact IH]); (constructor; [exact I|]); apply render_members_plain; repeat (constructor; [exact I|]); constructor.
Qed.
Lemma render_unit_plain ds ss : Forall plain (render_unit ds ss).
Proof. unfold render_unit. apply Forall_app. split; [apply render_decls_plain|apply render_prog_plain]. Qed.
Lemma dneed_le ds : dneed ds <= length (render_decls ds) /\ length ds <= length (render_decls ds).
Proof.
  induction ds as [|dc r [IH1 IH2]]; cbn [dneed render_decls length]; [lia|].
  rewrite app_length. pose proof (render_decl_length dc). lia.
Qed.

(* the pass over a unit: no error, consumed, exactly the expected lines (and the empty current line) *)
Theorem fragment_unit_parse_pass ds ss : wf ss = true ->
  let T := render_unit ds ss in
  let pass := seq 0 (length T) in
  ps_err pass (parse_pass pass [] T []) = None /\ pidx pass (parse_pass pass [] T []) = length pass
  /\ ps_toks pass (parse_pass pass [] T []) = map retype T
  /\ exists el, ll_toks el = [] /\ pass_lines pass (parse_pass pass [] T []) = pexpected_unit ds ss ++ [el].
Proof.
  intros Hwf T pass.
  pose proof (render_unit_plain ds ss) as P. fold T in P.
  assert (H0 : ST T [] (ps_init pass T []) 0 [] [] [] lm0 0 [] (0%N, 0%N, 0%N) []).
  { split; [reflexivity|]. split; [reflexivity|]. split; reflexivity. }
  assert (Ht : toks_at T 0 (render_unit ds ss)) by (intros j t Hj; exact Hj).
  destruct (dneed_le ds) as [Hd1 Hd2].
  assert (Ln : length T = length (render_decls ds) + S (S (S (S (length (render ss)))))).
  { unfold T, render_unit. rewrite app_length, render_prog_length. reflexivity. }
  assert (Hf : exists f, run_fuel pass = S (S (S (length ds + f))) /\ dneed ds + 7 <= f /\ 8 + need ss <= f).
  { exists (run_fuel pass - 3 - length ds). unfold run_fuel, need, pass. rewrite seq_length, Ln. split; [|split]; lia. }
  destruct Hf as (f & Ef & Hfd & Hfs).
  unfold parse_pass. rewrite Ef.
  destruct (unit_run T P ds ss f _ _ _ _ _ Hwf H0 Ht eq_refl Hfd Hfs) as (mc' & last' & H).
  fold pass in H. set (s := run pass [] (S (S (S (length ds + f)))) C_top (ps_init pass T [])) in *.
  split; [exact (ST_err_none T [] _ _ _ _ _ _ _ _ _ _ H)|].
  split; [|split; [transitivity (mix T (length T)); [exact (ST_toks T [] _ _ _ _ _ _ _ _ _ _ H)|apply mix_all]|]].
  - transitivity (length T); [exact (ST_pidx T [] _ _ _ _ _ _ _ _ _ _ H)|unfold pass; rewrite seq_length; reflexivity].
  - exists (mkLine (lm_type mc') (lm_level mc') (lm_parent mc') []). split; [reflexivity|].
    etransitivity; [exact (pass_lines_ST T [] _ _ _ _ _ _ _ _ _ _ H)|]. f_equal. apply rebuild_lines.
Qed.

(* the lines of the sections are non-empty and have no parent *)
Lemma member_lines_flat k j : Forall (fun l => nonempty_line l = true /\ ll_parent l = None /\ ll_type l <> LLT_Eof) (member_lines k j).
Proof. revert k. induction j as [|j IH]; intros k; cbn [member_lines]; constructor; [repeat split; discriminate|apply IH]. Qed.
Lemma decl_lines_flat ds : forall k, Forall (fun l => nonempty_line l = true /\ ll_parent l = None /\ ll_type l <> LLT_Eof) (decl_lines k ds).
Proof.
  induction ds as [|dc r IH]; intros k; cbn [decl_lines]; constructor; [repeat split; discriminate|].
  apply Forall_app. split; [apply member_lines_flat|apply IH].
Qed.
Lemma seg_ok_flat pre seg : Forall (fun l => ll_parent l = None) seg -> seg_ok pre seg.
Proof.
  intros H a x b E _ i t Hp. rewrite E in H. apply Forall_app in H. destruct H as [_ H]. apply Forall_inv in H. congruence.
Qed.
Lemma pexpected_unit_seg_ok ds ss : seg_ok [] (pexpected_unit ds ss).
Proof.
  unfold pexpected_unit, main_lines. cbv zeta. apply seg_ok_app.
  - apply seg_ok_flat. eapply Forall_impl; [|apply decl_lines_flat]. intros l (_ & H & _). exact H.
  - cbn [app]. apply seg_ok_cons; [intros _; exact I|].
    apply seg_ok_app; [apply pexpected_seg_ok; [rewrite app_length; cbn [length]; lia|exact I]|].
    apply seg_ok_cons; [intros _; exact I|]. apply seg_ok_cons; [intros _; exact I|]. apply seg_ok_nil.
Qed.

(* THE THEOREM for units: parse_file ends without error and returns EXACTLY the expected lines — every section
   keyword on a line of level 0, every member of a section on its own Declaration line of level 1 (one level
   deeper than the line that opens the section), then the main block as in fragment_parse_file — and the
   tokens are the input with `var`/`const`/`=`/`on` re-typed as the parser does *)
Theorem fragment_unit_parse_file ds ss : wf ss = true ->
  let r := parse_file_model (render_unit ds ss) [] in
  r_err r = None /\ r_lines r = expected_unit ds ss /\ r_toks r = map retype (render_unit ds ss).
Proof.
  intros Hwf. set (T := render_unit ds ss). pose proof (render_unit_plain ds ss) as P. fold T in P.
  unfold parse_file_model. rewrite (no_directives_single_identity_pass T (plain_no_directive T P)).
  unfold parse_file_with. cbn [parse_passes].
  destruct (fragment_unit_parse_pass ds ss Hwf) as (He & Hpi & Htoks & el & Hel & Hpl). fold T in He, Hpi, Htoks, Hpl.
  set (pass := seq 0 (length T)) in *.
  pose proof (parse_pass_lines_wf pass [] T [] (increasing_seq 0 (length T))) as (_ & Hnd & _).
  set (s := parse_pass pass [] T []) in *. clearbody s.
  rewrite He.
  assert (PF : Forall plain (map retype T)) by (apply Forall_map; eapply Forall_impl; [intros a Ha; apply fin_plain, Ha|exact P]).
  assert (PC : Forall (fun t => cement t = t) (map retype T)) by (apply Forall_map; eapply Forall_impl; [intros a Ha; apply cement_fin, Ha|exact P]).
  rewrite Htoks, (cement_fold_plain (map retype T) PC pass), (directive_lines_plain (map retype T) 0 _ 0%N PF).
  cbn [r_err r_lines r_toks]. split; [reflexivity|]. split; [|reflexivity].
  rewrite consolidate_nil_r. rewrite Hpl in *. clear Hpl.
  assert (E1 : consolidate_pass_lines [] (pexpected_unit ds ss ++ [el]) = consolidate_pass_lines [] (pexpected_unit ds ss)).
  { unfold consolidate_pass_lines. rewrite fold_left_app. cbn [fold_left].
    destruct (fold_left consolidate_step (pexpected_unit ds ss) ([], [])) as [acc mp]. cbn [consolidate_step]. rewrite Hel. reflexivity. }
  rewrite E1. apply consolidate_parents0; [|apply pexpected_unit_seg_ok].
  rewrite map_app, concat_app in Hnd. cbn [map concat] in Hnd. rewrite Hel, app_nil_r in Hnd. exact Hnd.
Qed.

Theorem fragment_unit_parents_ok ds ss : wf ss = true -> parents_ok (r_lines (parse_file_model (render_unit ds ss) [])) = true.
Proof.
  intros Hwf. destruct (fragment_unit_parse_file ds ss Hwf) as (_ & Hl & _). rewrite Hl. apply parents_ok_finalize, pexpected_unit_seg_ok.
Qed.

(* the lines of the sections come first, exactly as decl_lines gives them: the declaration half of C05 *)
Lemma remap_flat pl l : ll_parent l = None -> remap pl l = l.
Proof. intros H. unfold remap. rewrite H. destruct l; cbn in *; subst; reflexivity. Qed.
Corollary fragment_unit_sections ds ss : wf ss = true ->
  exists rest, r_lines (parse_file_model (render_unit ds ss) []) = decl_lines 0 ds ++ rest.
Proof.
  intros Hwf. destruct (fragment_unit_parse_file ds ss Hwf) as (_ & Hl & _). rewrite Hl.
  unfold expected_unit. rewrite finalize_eq. unfold pexpected_unit at 2. cbv zeta. rewrite filter_app, map_app.
  eexists. f_equal.
  pose proof (decl_lines_flat ds 0) as F.
  rewrite (filter_all nonempty_line). 2: { eapply Forall_impl; [|exact F]. intros l (H & _). exact H. }
  rewrite <- (map_id (decl_lines 0 ds)) at 2. apply map_ext_in. intros l Hin.
  apply remap_flat. exact (proj1 (proj2 (proj1 (Forall_forall _ _) F l Hin))).
Qed.
(* what a line of the sections is: the keyword alone at level 0, or the four tokens of a member at level 1 *)
Lemma decl_lines_shape ds : forall k l, In l (decl_lines k ds) ->
  (exists p, l = mkLine LLT_Unknown 0%N None [p]) \/ (exists p, l = mkLine LLT_Declaration 1%N None [p; p + 1; p + 2; p + 3]).
Proof.
  assert (Mb : forall j k l, In l (member_lines k j) -> exists p, l = mkLine LLT_Declaration 1%N None [p; p + 1; p + 2; p + 3]).
  { induction j as [|j IH]; intros k l H; cbn [member_lines] in H; [contradiction|]. destruct H as [<-|H]; [exists k; reflexivity|exact (IH _ _ H)]. }
  induction ds as [|dc r IH]; intros k l H; cbn [decl_lines] in H; [contradiction|].
  destruct H as [<-|H]; [left; exists k; reflexivity|]. apply in_app_or in H. destruct H as [H|H]; [right; exact (Mb _ _ _ H)|exact (IH _ _ H)].
Qed.

(* one Eof line, the last one, holding only the Eof token *)
Corollary fragment_unit_single_eof_line ds ss : wf ss = true ->
  let r := parse_file_model (render_unit ds ss) [] in
  let e := length (render_decls ds) + 1 + length (render ss) + 2 in
  exists pre, r_lines r = pre ++ [mkLine LLT_Eof 0%N None [e]]
    /\ Forall (fun l => ll_type l <> LLT_Eof) pre
    /\ nth_error (render_unit ds ss) e = Some RTT_Eof
    /\ length (render_unit ds ss) = S e.
Proof.
  intros Hwf r e. destruct (fragment_unit_parse_file ds ss Hwf) as (_ & Hl & _). fold r in Hl.
  set (K := length (render_decls ds)) in *. set (LI := length (decl_lines 0 ds)).
  set (A := decl_lines 0 ds ++ mkLine LLT_Unknown 0%N None [K] :: pexpected None 1 (K + 1) (LI + 1) ss
          ++ [mkLine LLT_Unknown 0%N None [K + 1 + length (render ss); K + 1 + length (render ss) + 1]]).
  set (x := mkLine LLT_Eof 0%N None [e]).
  assert (EP : pexpected_unit ds ss = A ++ [x]).
  { unfold pexpected_unit, main_lines, A, x, e. cbv zeta. fold K LI. cbn [app]. rewrite <- !app_assoc. cbn [app]. rewrite <- !app_assoc. reflexivity. }
  exists (map (remap (pexpected_unit ds ss)) (filter nonempty_line A)).
  split; [|split; [|split]].
  - rewrite Hl. unfold expected_unit. rewrite finalize_eq. rewrite EP at 2. rewrite filter_app, map_app. reflexivity.
  - apply Forall_map. apply Forall_forall. intros l Hin. apply filter_In in Hin. destruct Hin as [Hin _]. rewrite remap_type.
    revert l Hin. apply Forall_forall. unfold A. apply Forall_app. split.
    + eapply Forall_impl; [|apply decl_lines_flat]. intros l (_ & _ & H). exact H.
    + constructor; [discriminate|]. apply Forall_app. split; [apply pexpected_no_eof|]. constructor; [discriminate|constructor].
  - unfold render_unit, render_prog. rewrite nth_error_app2 by (unfold e, K; lia).
    replace (e - length (render_decls ds)) with (S (S (S (length (render ss))))) by (unfold e, K; lia).
    change (nth_error (render ss ++ [tEnd; tDot; RTT_Eof]) (S (S (length (render ss)))) = Some RTT_Eof).
    rewrite nth_error_app2 by lia. replace (S (S (length (render ss))) - length (render ss)) with 2 by lia. reflexivity.
  - unfold render_unit. rewrite app_length, render_prog_length. fold K. unfold e. lia.
Qed.

(* non-vacuity: two sections (the `=` of the constant and both keywords are re-typed), then a main block
   with an if statement *)
Example fragment_unit_example :
  let ds := [DVar 2; DConst 1] in
  let ss := SCons (TIf TSimple) SNil in
  let r := parse_file_model (render_unit ds ss) [] in
  wf ss = true /\ r_err r = None /\ r_lines r = expected_unit ds ss /\
  map (fun l => (ll_type l, ll_level l, ll_parent l, ll_toks l)) (r_lines r)
  = [(LLT_Unknown, 0%N, None, [0]); (LLT_Declaration, 1%N, None, [1; 2; 3; 4]); (LLT_Declaration, 1%N, None, [5; 6; 7; 8]);
     (LLT_Unknown, 0%N, None, [9]); (LLT_Declaration, 1%N, None, [10; 11; 12; 13]);
     (LLT_Unknown, 0%N, None, [14]); (LLT_Unknown, 1%N, None, [15; 16; 17]); (LLT_Unknown, 1%N, Some (6, 17), [18; 19]);
     (LLT_Unknown, 0%N, None, [20; 21]); (LLT_Eof, 0%N, None, [22])]
  /\ nth_error (r_toks r) 0 = Some (RTT_Keyword (KK_Var DK_Section))
  /\ nth_error (r_toks r) 9 = Some (RTT_Keyword (KK_Const DK_Section))
  /\ nth_error (r_toks r) 11 = Some (RTT_Op (OK_Equal EK_Decl))
  /\ nth_error (render_unit ds ss) 11 = Some (RTT_Op (OK_Equal EK_Comp)).
Proof. repeat split; vm_compute; reflexivity. Qed.
