(* Proofs/FragmentUnitProofs.v — declaration sections in front of the main block (the other half of C05):
     unit ::= (`var` (Identifier `:` Identifier `;`)* | `const` (Identifier `=` Identifier `;`)* )* `begin` stmts `end` `.`
   parse_file gives exactly Fragment.expected_unit: the section keyword on a line of level 0, every member on a
   line of its own of type Declaration at level 1, then the lines of the main block.  The parser re-types
   `var`/`const` (DeclKind Other -> Section) and the `=` of a constant (Comp -> Decl). *)
From PasfmtVerif Require Import Model.Fragment Model.DirectiveTree Proofs.DirectiveTreeProofs Proofs.ParserKernelProofs Proofs.ParserGrammarProofs
  Proofs.ParserGrammarTypesProofs Proofs.ParserGrammarCoverProofs Proofs.ParserGrammarEofProofs Proofs.FragmentProofs.
Local Open Scope nat_scope.

Lemma render_members_plain m j : Forall plain m -> Forall plain (render_members m j).
Proof. intros Hm. induction j as [|j IH]; cbn [render_members]; [constructor|]. apply Forall_app. split; assumption. Qed.
Lemma render_decls_plain ds : Forall plain (render_decls ds).
Proof.
  induction ds as [|[j|j] r IH]; cbn [render_decls render_decl]; [constructor| |];
    (apply Forall_app; split; [|exact IH]); (constructor; [exact I|]); apply render_members_plain; repeat (constructor; [exact I|]); constructor.
Qed.
Lemma render_unit_plain ds ss : Forall plain (render_unit ds ss).
Proof. unfold render_unit. apply Forall_app. split; [apply render_decls_plain|apply render_prog_plain]. Qed.
Lemma dneed_le ds : dneed ds <= length (render_decls ds) /\ length ds <= length (render_decls ds).
Proof.
  induction ds as [|dc r [IH1 IH2]]; cbn [dneed render_decls length]; [lia|].
  rewrite app_length. pose proof (render_decl_length dc). lia.
Qed.

(* the pass over a unit: no error, consumed, exactly the expected lines (and the empty current line) *)
Theorem fragment_unit_parse_pass ds ss : wf ss = true ->
  let T := render_unit ds ss in
  let pass := seq 0 (length T) in
  ps_err pass (parse_pass pass [] T []) = None /\ pidx pass (parse_pass pass [] T []) = length pass
  /\ ps_toks pass (parse_pass pass [] T []) = map retype T
  /\ exists el, ll_toks el = [] /\ pass_lines pass (parse_pass pass [] T []) = pexpected_unit ds ss ++ [el].
Proof.
  intros Hwf T pass.
  pose proof (render_unit_plain ds ss) as P. fold T in P.
  assert (H0 : ST T [] (ps_init pass T []) 0 [] [] [] lm0 0 [] (0%N, 0%N, 0%N) []).
  { split; [reflexivity|]. split; [reflexivity|]. split; reflexivity. }
  assert (Ht : toks_at T 0 (render_unit ds ss)) by (intros j t Hj; exact Hj).
  destruct (dneed_le ds) as [Hd1 Hd2].
  assert (Ln : length T = length (render_decls ds) + S (S (S (S (length (render ss)))))).
  { unfold T, render_unit. rewrite app_length, render_prog_length. reflexivity. }
  assert (Hf : exists f, run_fuel pass = S (S (S (length ds + f))) /\ dneed ds + 7 <= f /\ 8 + need ss <= f).
  { exists (run_fuel pass - 3 - length ds). unfold run_fuel, need, pass. rewrite seq_length, Ln. split; [|split]; lia. }
  destruct Hf as (f & Ef & Hfd & Hfs).
  unfold parse_pass. rewrite Ef.
  destruct (unit_run T P ds ss f _ _ _ _ _ Hwf H0 Ht eq_refl Hfd Hfs) as (mc' & last' & H).
  fold pass in H. set (s := run pass [] (S (S (S (length ds + f)))) C_top (ps_init pass T [])) in *.
  split; [exact (ST_err_none T [] _ _ _ _ _ _ _ _ _ _ H)|].
  split; [|split; [transitivity (mix T (length T)); [exact (ST_toks T [] _ _ _ _ _ _ _ _ _ _ H)|apply mix_all]|]].
  - transitivity (length T); [exact (ST_pidx T [] _ _ _ _ _ _ _ _ _ _ H)|unfold pass; rewrite seq_length; reflexivity].
  - exists (mkLine (lm_type mc') (lm_level mc') (lm_parent mc') []). split; [reflexivity|].
    etransitivity; [exact (pass_lines_ST T [] _ _ _ _ _ _ _ _ _ _ H)|]. f_equal. apply rebuild_lines.
Qed.

(* the lines of the sections are non-empty and have no parent *)
Lemma member_lines_flat k j : Forall (fun l => nonempty_line l = true /\ ll_parent l = None /\ ll_type l <> LLT_Eof) (member_lines k j).
Proof. revert k. induction j as [|j IH]; intros k; cbn [member_lines]; constructor; [repeat split; discriminate|apply IH]. Qed.
Lemma decl_lines_flat ds : forall k, Forall (fun l => nonempty_line l = true /\ ll_parent l = None /\ ll_type l <> LLT_Eof) (decl_lines k ds).
Proof.
  induction ds as [|dc r IH]; intros k; cbn [decl_lines]; constructor; [repeat split; discriminate|].
  apply Forall_app. split; [apply member_lines_flat|apply IH].
Qed.
Lemma seg_ok_flat pre seg : Forall (fun l => ll_parent l = None) seg -> seg_ok pre seg.
Proof.
  intros H a x b E _ i t Hp. rewrite E in H. apply Forall_app in H. destruct H as [_ H]. apply Forall_inv in H. congruence.
Qed.
Lemma pexpected_unit_seg_ok ds ss : seg_ok [] (pexpected_unit ds ss).
Proof.
  unfold pexpected_unit, main_lines. cbv zeta. apply seg_ok_app.
  - apply seg_ok_flat. eapply Forall_impl; [|apply decl_lines_flat]. intros l (_ & H & _). exact H.
  - cbn [app]. apply seg_ok_cons; [intros _; exact I|].
    apply seg_ok_app; [apply pexpected_seg_ok; [rewrite app_length; cbn [length]; lia|exact I]|].
    apply seg_ok_cons; [intros _; exact I|]. apply seg_ok_cons; [intros _; exact I|]. apply seg_ok_nil.
Qed.

(* THE THEOREM for units: parse_file ends without error and returns EXACTLY the expected lines — every section
   keyword on a line of level 0, every member of a section on its own Declaration line of level 1 (one level
   deeper than the line that opens the section), then the main block as in fragment_parse_file — and the
   tokens are the input with `var`/`const`/`=`/`on` re-typed as the parser does *)
Theorem fragment_unit_parse_file ds ss : wf ss = true ->
  let r := parse_file_model (render_unit ds ss) [] in
  r_err r = None /\ r_lines r = expected_unit ds ss /\ r_toks r = map retype (render_unit ds ss).
Proof.
  intros Hwf. set (T := render_unit ds ss). pose proof (render_unit_plain ds ss) as P. fold T in P.
  unfold parse_file_model. rewrite (no_directives_single_identity_pass T (plain_no_directive T P)).
  unfold parse_file_with. cbn [parse_passes].
  destruct (fragment_unit_parse_pass ds ss Hwf) as (He & Hpi & Htoks & el & Hel & Hpl). fold T in He, Hpi, Htoks, Hpl.
  set (pass := seq 0 (length T)) in *.
  pose proof (parse_pass_lines_wf pass [] T [] (increasing_seq 0 (length T))) as (_ & Hnd & _).
  set (s := parse_pass pass [] T []) in *. clearbody s.
  rewrite He.
  assert (PF : Forall plain (map retype T)) by (apply Forall_map; eapply Forall_impl; [intros a Ha; apply fin_plain, Ha|exact P]).
  assert (PC : Forall (fun t => cement t = t) (map retype T)) by (apply Forall_map; eapply Forall_impl; [intros a Ha; apply cement_fin, Ha|exact P]).
  rewrite Htoks, (cement_fold_plain (map retype T) PC pass), (directive_lines_plain (map retype T) 0 _ 0%N PF).
  cbn [r_err r_lines r_toks]. split; [reflexivity|]. split; [|reflexivity].
  rewrite consolidate_nil_r. rewrite Hpl in *. clear Hpl.
  assert (E1 : consolidate_pass_lines [] (pexpected_unit ds ss ++ [el]) = consolidate_pass_lines [] (pexpected_unit ds ss)).
  { unfold consolidate_pass_lines. rewrite fold_left_app. cbn [fold_left].
    destruct (fold_left consolidate_step (pexpected_unit ds ss) ([], [])) as [acc mp]. cbn [consolidate_step]. rewrite Hel. reflexivity. }
  rewrite E1. apply consolidate_parents0; [|apply pexpected_unit_seg_ok].
  rewrite map_app, concat_app in Hnd. cbn [map concat] in Hnd. rewrite Hel, app_nil_r in Hnd. exact Hnd.
Qed.

Theorem fragment_unit_parents_ok ds ss : wf ss = true -> parents_ok (r_lines (parse_file_model (render_unit ds ss) [])) = true.
Proof.
  intros Hwf. destruct (fragment_unit_parse_file ds ss Hwf) as (_ & Hl & _). rewrite Hl. apply parents_ok_finalize, pexpected_unit_seg_ok.
Qed.

(* the lines of the sections come first, exactly as decl_lines gives them: the declaration half of C05 *)
Lemma remap_flat pl l : ll_parent l = None -> remap pl l = l.
Proof. intros H. unfold remap. rewrite H. destruct l; cbn in *; subst; reflexivity. Qed.
Corollary fragment_unit_sections ds ss : wf ss = true ->
  exists rest, r_lines (parse_file_model (render_unit ds ss) []) = decl_lines 0 ds ++ rest.
Proof.
  intros Hwf. destruct (fragment_unit_parse_file ds ss Hwf) as (_ & Hl & _). rewrite Hl.
  unfold expected_unit. rewrite finalize_eq. unfold pexpected_unit at 2. cbv zeta. rewrite filter_app, map_app.
  eexists. f_equal.
  pose proof (decl_lines_flat ds 0) as F.
  rewrite (filter_all nonempty_line). 2: { eapply Forall_impl; [|exact F]. intros l (H & _). exact H. }
  rewrite <- (map_id (decl_lines 0 ds)) at 2. apply map_ext_in. intros l Hin.
  apply remap_flat. exact (proj1 (proj2 (proj1 (Forall_forall _ _) F l Hin))).
Qed.
(* what a line of the sections is: the keyword alone at level 0, or the four tokens of a member at level 1 *)
Lemma decl_lines_shape ds : forall k l, In l (decl_lines k ds) ->
  (exists p, l = mkLine LLT_Unknown 0%N None [p]) \/ (exists p, l = mkLine LLT_Declaration 1%N None [p; p + 1; p + 2; p + 3]).
Proof.
  assert (Mb : forall j k l, In l (member_lines k j) -> exists p, l = mkLine LLT_Declaration 1%N None [p; p + 1; p + 2; p + 3]).
  { induction j as [|j IH]; intros k l H; cbn [member_lines] in H; [contradiction|]. destruct H as [<-|H]; [exists k; reflexivity|exact (IH _ _ H)]. }
  induction ds as [|dc r IH]; intros k l H; cbn [decl_lines] in H; [contradiction|].
  destruct H as [<-|H]; [left; exists k; reflexivity|]. apply in_app_or in H. destruct H as [H|H]; [right; exact (Mb _ _ _ H)|exact (IH _ _ H)].
Qed.

(* one Eof line, the last one, holding only the Eof token *)
Corollary fragment_unit_single_eof_line ds ss : wf ss = true ->
  let r := parse_file_model (render_unit ds ss) [] in
  let e := length (render_decls ds) + 1 + length (render ss) + 2 in
  exists pre, r_lines r = pre ++ [mkLine LLT_Eof 0%N None [e]]
    /\ Forall (fun l => ll_type l <> LLT_Eof) pre
    /\ nth_error (render_unit ds ss) e = Some RTT_Eof
    /\ length (render_unit ds ss) = S e.
Proof.
  intros Hwf r e. destruct (fragment_unit_parse_file ds ss Hwf) as (_ & Hl & _). fold r in Hl.
  set (K := length (render_decls ds)) in *. set (LI := length (decl_lines 0 ds)).
  set (A := decl_lines 0 ds ++ mkLine LLT_Unknown 0%N None [K] :: pexpected None 1 (K + 1) (LI + 1) ss
          ++ [mkLine LLT_Unknown 0%N None [K + 1 + length (render ss); K + 1 + length (render ss) + 1]]).
  set (x := mkLine LLT_Eof 0%N None [e]).
  assert (EP : pexpected_unit ds ss = A ++ [x]).
  { unfold pexpected_unit, main_lines, A, x, e. cbv zeta. fold K LI. cbn [app]. rewrite <- !app_assoc. cbn [app]. rewrite <- !app_assoc. reflexivity. }
  exists (map (remap (pexpected_unit ds ss)) (filter nonempty_line A)).
  split; [|split; [|split]].
  - rewrite Hl. unfold expected_unit. rewrite finalize_eq. rewrite EP at 2. rewrite filter_app, map_app. reflexivity.
  - apply Forall_map. apply Forall_forall. intros l Hin. apply filter_In in Hin. destruct Hin as [Hin _]. rewrite remap_type.
    revert l Hin. apply Forall_forall. unfold A. apply Forall_app. split.
    + eapply Forall_impl; [|apply decl_lines_flat]. intros l (_ & _ & H). exact H.
    + constructor; [discriminate|]. apply Forall_app. split; [apply pexpected_no_eof|]. constructor; [discriminate|constructor].
  - unfold render_unit, render_prog. rewrite nth_error_app2 by (unfold e, K; lia).
    replace (e - length (render_decls ds)) with (S (S (S (length (render ss))))) by (unfold e, K; lia).
    change (nth_error (render ss ++ [tEnd; tDot; RTT_Eof]) (S (S (length (render ss)))) = Some RTT_Eof).
    rewrite nth_error_app2 by lia. replace (S (S (length (render ss))) - length (render ss)) with 2 by lia. reflexivity.
  - unfold render_unit. rewrite app_length, render_prog_length. fold K. unfold e. lia.
Qed.

(* non-vacuity: two sections (the `=` of the constant and both keywords are re-typed), then a main block
   with an if statement *)
Example fragment_unit_example :
  let ds := [DVar 2; DConst 1] in
  let ss := SCons (TIf TSimple) SNil in
  let r := parse_file_model (render_unit ds ss) [] in
  wf ss = true /\ r_err r = None /\ r_lines r = expected_unit ds ss /\
  map (fun l => (ll_type l, ll_level l, ll_parent l, ll_toks l)) (r_lines r)
  = [(LLT_Unknown, 0%N, None, [0]); (LLT_Declaration, 1%N, None, [1; 2; 3; 4]); (LLT_Declaration, 1%N, None, [5; 6; 7; 8]);
     (LLT_Unknown, 0%N, None, [9]); (LLT_Declaration, 1%N, None, [10; 11; 12; 13]);
     (LLT_Unknown, 0%N, None, [14]); (LLT_Unknown, 1%N, None, [15; 16; 17]); (LLT_Unknown, 1%N, Some (6, 17), [18; 19]);
     (LLT_Unknown, 0%N, None, [20; 21]); (LLT_Eof, 0%N, None, [22])]
  /\ nth_error (r_toks r) 0 = Some (RTT_Keyword (KK_Var DK_Section))
  /\ nth_error (r_toks r) 9 = Some (RTT_Keyword (KK_Const DK_Section))
  /\ nth_error (r_toks r) 11 = Some (RTT_Op (OK_Equal EK_Decl))
  /\ nth_error (render_unit ds ss) 11 = Some (RTT_Op (OK_Equal EK_Comp)).
Proof. repeat split; vm_compute; reflexivity. Qed.

(* ================================================================== *)
(* units with type sections as well (Fragment.render_unit2): records, and classes with visibility sections *)
Lemma render_vsecs_plain vs : Forall plain (render_vsecs vs).
Proof.
  induction vs as [|[pv j] r IH]; cbn [render_vsecs]; [constructor|]. constructor; [destruct pv; exact I|].
  apply Forall_app. split; [|exact IH]. apply render_members_plain. repeat (constructor; [exact I|]). constructor.
Qed.
Lemma render_tdefs_plain ts : Forall plain (render_tdefs ts).
Proof.
  assert (F : forall j, Forall plain (render_fields j)) by (intros j; apply render_members_plain; repeat (constructor; [exact I|]); constructor).
  induction ts as [|[j|n0 vs] r IH]; cbn [render_tdefs render_tdef]; [constructor| |]; (apply Forall_app; split; [|exact IH]);
    repeat (constructor; [exact I|]); repeat (apply Forall_app; split); try apply F; try apply render_vsecs_plain; repeat (constructor; [exact I|]); constructor.
Qed.
Lemma render_udecls_plain ds : Forall plain (render_udecls ds).
Proof.
  induction ds as [|[j|j|ts] r IH]; cbn [render_udecls render_udecl]; [constructor| | |]; (apply Forall_app; split; [|exact IH]); (constructor; [exact I|]).
  - apply render_members_plain; repeat (constructor; [exact I|]); constructor.
  - apply render_members_plain; repeat (constructor; [exact I|]); constructor.
  - apply render_tdefs_plain.
Qed.
Lemma render_unit2_plain ds ss : Forall plain (render_unit2 ds ss).
Proof. unfold render_unit2. apply Forall_app. split; [apply render_udecls_plain|apply render_prog_plain]. Qed.
Lemma vsecs_need_le vs : vneed vs + length vs <= length (render_vsecs vs).
Proof. induction vs as [|[pv j] r IH]; cbn [vneed render_vsecs length]; [lia|]. rewrite app_length, render_fields_length. lia. Qed.
Lemma tsneed_le ts : tsneed ts + length ts <= length (render_tdefs ts) + 10 /\ length ts <= length (render_tdefs ts).
Proof.
  induction ts as [|td r [IH IH2]]; cbn [tsneed render_tdefs length]; [lia|]. rewrite app_length.
  assert (tneed td + 4 <= length (render_tdef td) + 10).
  { destruct td as [j|n0 vs]; cbn [tneed render_tdef length]; rewrite ?app_length, ?render_fields_length; cbn [length]; [lia|].
    pose proof (vsecs_need_le vs). lia. }
  assert (5 <= length (render_tdef td)) by (destruct td; cbn [render_tdef length]; rewrite ?app_length; cbn [length]; lia).
  lia.
Qed.
Lemma udneed_le ds : udneed ds <= length (render_udecls ds) + 12 /\ length ds <= length (render_udecls ds).
Proof.
  induction ds as [|dc r [IH1 IH2]]; cbn [udneed render_udecls length]; [lia|]. rewrite app_length.
  assert (usneed dc <= length (render_udecl dc) + 12 /\ 1 <= length (render_udecl dc)).
  { destruct dc as [j|j|ts]; cbn [usneed render_udecl length]; unfold render_fields; rewrite ?render_members_length; cbn [length]; try lia.
    destruct (tsneed_le ts). lia. }
  lia.
Qed.

Theorem fragment_unit2_parse_pass ds ss : wf ss = true ->
  let T := render_unit2 ds ss in
  let pass := seq 0 (length T) in
  ps_err pass (parse_pass pass [] T []) = None /\ pidx pass (parse_pass pass [] T []) = length pass
  /\ ps_toks pass (parse_pass pass [] T []) = map retype T
  /\ exists el, ll_toks el = [] /\ pass_lines pass (parse_pass pass [] T []) = pexpected_unit2 ds ss ++ [el].
Proof.
  intros Hwf T pass.
  pose proof (render_unit2_plain ds ss) as P. fold T in P.
  assert (H0 : ST T [] (ps_init pass T []) 0 [] [] [] lm0 0 [] (0%N, 0%N, 0%N) []).
  { split; [reflexivity|]. split; [reflexivity|]. split; reflexivity. }
  assert (Ht : toks_at T 0 (render_unit2 ds ss)) by (intros j t Hj; exact Hj).
  destruct (udneed_le ds) as [Hd1 Hd2].
  assert (Ln : length T = length (render_udecls ds) + S (S (S (S (length (render ss)))))).
  { unfold T, render_unit2. rewrite app_length, render_prog_length. reflexivity. }
  assert (Hf : exists f, run_fuel pass = S (S (S (length ds + f))) /\ udneed ds + 2 <= f /\ 8 + need ss <= f).
  { exists (run_fuel pass - 3 - length ds). unfold run_fuel, need, pass. rewrite seq_length, Ln. split; [|split]; lia. }
  destruct Hf as (f & Ef & Hfd & Hfs).
  unfold parse_pass. rewrite Ef.
  destruct (unit2_run T P ds ss f _ _ _ _ _ Hwf H0 Ht eq_refl Hfd Hfs) as (mc' & last' & H).
  fold pass in H. set (s := run pass [] (S (S (S (length ds + f)))) C_top (ps_init pass T [])) in *.
  split; [exact (ST_err_none T [] _ _ _ _ _ _ _ _ _ _ H)|].
  split; [|split; [transitivity (mix T (length T)); [exact (ST_toks T [] _ _ _ _ _ _ _ _ _ _ H)|apply mix_all]|]].
  - transitivity (length T); [exact (ST_pidx T [] _ _ _ _ _ _ _ _ _ _ H)|unfold pass; rewrite seq_length; reflexivity].
  - exists (mkLine (lm_type mc') (lm_level mc') (lm_parent mc') []). split; [reflexivity|].
    etransitivity; [exact (pass_lines_ST T [] _ _ _ _ _ _ _ _ _ _ H)|]. f_equal. apply rebuild_lines.
Qed.

Definition flat_line (l : lline) : Prop := nonempty_line l = true /\ ll_parent l = None /\ ll_type l <> LLT_Eof.
Lemma member_lines_at_flat lv k j : Forall flat_line (member_lines_at lv k j).
Proof. revert k. induction j as [|j IH]; intros k; cbn [member_lines_at]; constructor; [repeat split; discriminate|apply IH]. Qed.
Lemma vsec_lines_flat vs : forall k, Forall flat_line (vsec_lines k vs).
Proof.
  induction vs as [|[pv j] r IH]; intros k; cbn [vsec_lines]; constructor; [repeat split; discriminate|].
  apply Forall_app. split; [apply member_lines_at_flat|apply IH].
Qed.
Lemma tdefs_lines_flat ts : forall k, Forall flat_line (tdefs_lines k ts).
Proof.
  induction ts as [|td r IH]; intros k; cbn [tdefs_lines]; [constructor|]. apply Forall_app. split; [|apply IH].
  unfold tdef_lines. constructor; [repeat split; discriminate|]. apply Forall_app. split; [|constructor; [repeat split; discriminate|constructor]].
  destruct td; [apply member_lines_at_flat|apply Forall_app; split; [apply member_lines_at_flat|apply vsec_lines_flat]].
Qed.
Lemma udecl_lines_flat ds : forall k, Forall flat_line (udecl_lines k ds).
Proof.
  induction ds as [|dc r IH]; intros k; cbn [udecl_lines]; constructor; [repeat split; discriminate|].
  apply Forall_app. split; [|apply IH]. destruct dc; cbn [usection_lines]; [apply member_lines_at_flat|apply member_lines_at_flat|apply tdefs_lines_flat].
Qed.
Lemma pexpected_unit2_seg_ok ds ss : seg_ok [] (pexpected_unit2 ds ss).
Proof.
  unfold pexpected_unit2, main_lines. cbv zeta. apply seg_ok_app.
  - apply seg_ok_flat. eapply Forall_impl; [|apply udecl_lines_flat]. intros l (_ & H & _). exact H.
  - cbn [app]. apply seg_ok_cons; [intros _; exact I|].
    apply seg_ok_app; [apply pexpected_seg_ok; [rewrite app_length; cbn [length]; lia|exact I]|].
    apply seg_ok_cons; [intros _; exact I|]. apply seg_ok_cons; [intros _; exact I|]. apply seg_ok_nil.
Qed.

(* THE THEOREM for units with type sections: parse_file ends without error and returns EXACTLY the expected
   lines — section keywords at level 0; members of var/const sections and the `Name = record|class` lines at
   level 1; the fields of a record or class at level 2, its visibility keywords and its `end ;` at level 1 —
   and the tokens are the input with `var`/`const`/`=`/`private`/`public`/`on` re-typed as the parser does *)
Theorem fragment_unit2_parse_file ds ss : wf ss = true ->
  let r := parse_file_model (render_unit2 ds ss) [] in
  r_err r = None /\ r_lines r = expected_unit2 ds ss /\ r_toks r = map retype (render_unit2 ds ss).
Proof.
  intros Hwf. set (T := render_unit2 ds ss). pose proof (render_unit2_plain ds ss) as P. fold T in P.
  unfold parse_file_model. rewrite (no_directives_single_identity_pass T (plain_no_directive T P)).
  unfold parse_file_with. cbn [parse_passes].
  destruct (fragment_unit2_parse_pass ds ss Hwf) as (He & Hpi & Htoks & el & Hel & Hpl). fold T in He, Hpi, Htoks, Hpl.
  set (pass := seq 0 (length T)) in *.
  pose proof (parse_pass_lines_wf pass [] T [] (increasing_seq 0 (length T))) as (_ & Hnd & _).
  set (s := parse_pass pass [] T []) in *. clearbody s.
  rewrite He.
  assert (PF : Forall plain (map retype T)) by (apply Forall_map; eapply Forall_impl; [intros a Ha; apply fin_plain, Ha|exact P]).
  assert (PC : Forall (fun t => cement t = t) (map retype T)) by (apply Forall_map; eapply Forall_impl; [intros a Ha; apply cement_fin, Ha|exact P]).
  rewrite Htoks, (cement_fold_plain (map retype T) PC pass), (directive_lines_plain (map retype T) 0 _ 0%N PF).
  cbn [r_err r_lines r_toks]. split; [reflexivity|]. split; [|reflexivity].
  rewrite consolidate_nil_r. rewrite Hpl in *. clear Hpl.
  assert (E1 : consolidate_pass_lines [] (pexpected_unit2 ds ss ++ [el]) = consolidate_pass_lines [] (pexpected_unit2 ds ss)).
  { unfold consolidate_pass_lines. rewrite fold_left_app. cbn [fold_left].
    destruct (fold_left consolidate_step (pexpected_unit2 ds ss) ([], [])) as [acc mp]. cbn [consolidate_step]. rewrite Hel. reflexivity. }
  rewrite E1. apply consolidate_parents0; [|apply pexpected_unit2_seg_ok].
  rewrite map_app, concat_app in Hnd. cbn [map concat] in Hnd. rewrite Hel, app_nil_r in Hnd. exact Hnd.
Qed.

Theorem fragment_unit2_parents_ok ds ss : wf ss = true -> parents_ok (r_lines (parse_file_model (render_unit2 ds ss) [])) = true.
Proof.
  intros Hwf. destruct (fragment_unit2_parse_file ds ss Hwf) as (_ & Hl & _). rewrite Hl. apply parents_ok_finalize, pexpected_unit2_seg_ok.
Qed.

(* the lines of the sections come first, exactly as udecl_lines gives them: the declaration half of C05 with
   type sections *)
Corollary fragment_unit2_sections ds ss : wf ss = true ->
  exists rest, r_lines (parse_file_model (render_unit2 ds ss) []) = udecl_lines 0 ds ++ rest.
Proof.
  intros Hwf. destruct (fragment_unit2_parse_file ds ss Hwf) as (_ & Hl & _). rewrite Hl.
  unfold expected_unit2. rewrite finalize_eq. unfold pexpected_unit2 at 2. cbv zeta. rewrite filter_app, map_app.
  eexists. f_equal.
  pose proof (udecl_lines_flat ds 0) as F.
  rewrite (filter_all nonempty_line). 2: { eapply Forall_impl; [|exact F]. intros l (H & _). exact H. }
  rewrite <- (map_id (udecl_lines 0 ds)) at 2. apply map_ext_in. intros l Hin.
  apply remap_flat. exact (proj1 (proj2 (proj1 (Forall_forall _ _) F l Hin))).
Qed.

Corollary fragment_unit2_single_eof_line ds ss : wf ss = true ->
  let r := parse_file_model (render_unit2 ds ss) [] in
  let e := length (render_udecls ds) + 1 + length (render ss) + 2 in
  exists pre, r_lines r = pre ++ [mkLine LLT_Eof 0%N None [e]]
    /\ Forall (fun l => ll_type l <> LLT_Eof) pre
    /\ nth_error (render_unit2 ds ss) e = Some RTT_Eof
    /\ length (render_unit2 ds ss) = S e.
Proof.
  intros Hwf r e. destruct (fragment_unit2_parse_file ds ss Hwf) as (_ & Hl & _). fold r in Hl.
  set (K := length (render_udecls ds)) in *. set (LI := length (udecl_lines 0 ds)).
  set (A := udecl_lines 0 ds ++ mkLine LLT_Unknown 0%N None [K] :: pexpected None 1 (K + 1) (LI + 1) ss
          ++ [mkLine LLT_Unknown 0%N None [K + 1 + length (render ss); K + 1 + length (render ss) + 1]]).
  set (x := mkLine LLT_Eof 0%N None [e]).
  assert (EP : pexpected_unit2 ds ss = A ++ [x]).
  { unfold pexpected_unit2, main_lines, A, x, e. cbv zeta. fold K LI. cbn [app]. rewrite <- !app_assoc. cbn [app]. rewrite <- !app_assoc. reflexivity. }
  exists (map (remap (pexpected_unit2 ds ss)) (filter nonempty_line A)).
  split; [|split; [|split]].
  - rewrite Hl. unfold expected_unit2. rewrite finalize_eq. rewrite EP at 2. rewrite filter_app, map_app. reflexivity.
  - apply Forall_map. apply Forall_forall. intros l Hin. apply filter_In in Hin. destruct Hin as [Hin _]. rewrite remap_type.
    revert l Hin. apply Forall_forall. unfold A. apply Forall_app. split.
    + eapply Forall_impl; [|apply udecl_lines_flat]. intros l (_ & _ & H). exact H.
    + constructor; [discriminate|]. apply Forall_app. split; [apply pexpected_no_eof|]. constructor; [discriminate|constructor].
  - unfold render_unit2, render_prog. rewrite nth_error_app2 by (unfold e, K; lia).
    replace (e - length (render_udecls ds)) with (S (S (S (length (render ss))))) by (unfold e, K; lia).
    change (nth_error (render ss ++ [tEnd; tDot; RTT_Eof]) (S (S (length (render ss)))) = Some RTT_Eof).
    rewrite nth_error_app2 by lia. replace (S (S (length (render ss))) - length (render ss)) with 2 by lia. reflexivity.
  - unfold render_unit2. rewrite app_length, render_prog_length. fold K. unfold e. lia.
Qed.

(* non-vacuity: a type section with a record and a class with two visibility sections (`=`, `private` and
   `public` are re-typed), a var section, then the main block *)
Example fragment_unit2_example :
  let ds := [UType [TRec 2; TCls 1 [(true, 1); (false, 0)]]; UVar 1] in
  let ss := SCons TSimple SNil in
  let r := parse_file_model (render_unit2 ds ss) [] in
  wf ss = true /\ r_err r = None /\ r_lines r = expected_unit2 ds ss /\
  map (fun l => (ll_type l, ll_level l, ll_parent l, ll_toks l)) (r_lines r)
  = [(LLT_Unknown, 0%N, None, [0]); (LLT_Declaration, 1%N, None, [1; 2; 3]); (LLT_Declaration, 2%N, None, [4; 5; 6; 7]);
     (LLT_Declaration, 2%N, None, [8; 9; 10; 11]); (LLT_Unknown, 1%N, None, [12; 13]);
     (LLT_Declaration, 1%N, None, [14; 15; 16]); (LLT_Declaration, 2%N, None, [17; 18; 19; 20]); (LLT_Unknown, 1%N, None, [21]);
     (LLT_Declaration, 2%N, None, [22; 23; 24; 25]); (LLT_Unknown, 1%N, None, [26]); (LLT_Unknown, 1%N, None, [27; 28]);
     (LLT_Unknown, 0%N, None, [29]); (LLT_Declaration, 1%N, None, [30; 31; 32; 33]);
     (LLT_Unknown, 0%N, None, [34]); (LLT_Unknown, 1%N, None, [35; 36]); (LLT_Unknown, 0%N, None, [37; 38]); (LLT_Eof, 0%N, None, [39])]
  /\ nth_error (render_unit2 ds ss) 21 = Some (RTT_IdentifierOrKeyword KK_Private)
  /\ nth_error (r_toks r) 21 = Some (RTT_Keyword KK_Private)
  /\ nth_error (r_toks r) 26 = Some (RTT_Keyword KK_Public)
  /\ nth_error (r_toks r) 2 = Some (RTT_Op (OK_Equal EK_Decl)).
Proof. repeat split; vm_compute; reflexivity. Qed.
