(* Proofs about Model/Rewriters.v: each rewriting rule keeps the non-blank projection up to ASCII
   case (C01), keeps ignored tokens untouched (C07), and is a fixpoint of itself (C03). *)
From PasfmtVerif Require Import Model.Rewriters Proofs.ReconstructProofs.

(* ---------- generic list facts ---------- *)
Lemma drop_while_suffix {A} (p : A -> bool) l : exists pre, l = pre ++ drop_while p l /\ forallb p pre = true.
Proof.
  induction l as [|a t [pre [H1 H2]]]; [exists []; split; reflexivity|].
  cbn [drop_while]. destruct (p a) eqn:E.
  - exists (a :: pre). split; [cbn [app]; f_equal; exact H1|cbn [forallb]; rewrite E; exact H2].
  - exists []. split; reflexivity.
Qed.

(* trim_ascii_end removes a suffix of ASCII whitespace *)
Lemma trim_ascii_end_spec l : exists suf, l = trim_ascii_end l ++ suf /\ forallb is_ascii_ws suf = true.
Proof.
  unfold trim_ascii_end. destruct (drop_while_suffix is_ascii_ws (rev l)) as [pre [H1 H2]].
  exists (rev pre). split.
  - rewrite <- rev_app_distr, <- H1, rev_involutive. reflexivity.
  - rewrite forallb_forall in *. intros x Hx. apply H2. apply in_rev. exact Hx.
Qed.

Lemma is_ascii_ws_blank b : is_ascii_ws b = true -> (b <=? 32) = true.
Proof.
  unfold is_ascii_ws. rewrite !orb_true_iff, !N.eqb_eq. intros H. apply N.leb_le.
  destruct H as [[[[H|H]|H]|H]|H]; subst; lia.
Qed.

Lemma ascii_ws_ascii_blank l : forallb is_ascii_ws l = true -> ascii_blank l.
Proof.
  intros H. unfold ascii_blank. apply Forall_forall. intros x Hx.
  rewrite forallb_forall in H. apply is_ascii_ws_blank, H, Hx.
Qed.

Lemma strip_app_ascii_blank_r x suf : ascii_blank suf -> strip (x ++ suf) = strip x.
Proof.
  intros H. rewrite strip_app_no80 by (apply ascii_blank_no80; exact H).
  rewrite (ascii_blank_all_blank _ H). apply app_nil_r.
Qed.

Lemma strip_trim_ascii_end l : strip (trim_ascii_end l) = strip l.
Proof.
  destruct (trim_ascii_end_spec l) as [suf [H1 H2]].
  rewrite H1 at 2. symmetry. apply strip_app_ascii_blank_r, ascii_ws_ascii_blank, H2.
Qed.

Lemma trim_ascii_end_idem l : trim_ascii_end (trim_ascii_end l) = trim_ascii_end l.
Proof.
  unfold trim_ascii_end. rewrite rev_involutive. f_equal.
  generalize (rev l). intros m. induction m as [|a t IH]; [reflexivity|].
  cbn [drop_while]. destruct (is_ascii_ws a) eqn:E; [exact IH|]. cbn [drop_while]. rewrite E. reflexivity.
Qed.

Lemma trim_ascii_end_length l : (length (trim_ascii_end l) <= length l)%nat.
Proof. destruct (trim_ascii_end_spec l) as [suf [H1 _]]. rewrite H1 at 2. rewrite app_length. lia. Qed.

Lemma trim_fixed_iff l : length (trim_ascii_end l) = length l -> trim_ascii_end l = l.
Proof.
  intros H. destruct (trim_ascii_end_spec l) as [suf [H1 _]].
  assert (length suf = 0%nat) by (rewrite H1 in H at 2; rewrite app_length in H; lia).
  destruct suf; [|discriminate]. rewrite app_nil_r in H1. symmetry. exact H1.
Qed.

(* trim_blank_end removes a suffix made of whole blanks (bytes <= 0x20, triples E3 80 80) *)
Lemma drop_blank_rev_spec r : exists pre, r = pre ++ drop_blank_rev r /\ strip (rev pre) = [] /\ no80 (rev pre).
Proof.
  remember (length r) as n eqn:Hn. revert r Hn. induction n as [n IH] using lt_wf_ind. intros r Hn.
  destruct r as [|z t]; [exists []; repeat split; reflexivity|].
  cbn [drop_blank_rev]. destruct (z <=? 32) eqn:Ez.
  - destruct (IH (length t) ltac:(subst n; cbn; lia) t eq_refl) as (pre & H1 & H2 & H3).
    exists (z :: pre). split; [cbn [app]; f_equal; exact H1|].
    cbn [rev]. split.
    + rewrite strip_app_no80 by (cbn; apply N.leb_le in Ez; lia). rewrite H2. cbn [app]. rewrite strip_unfold, Ez. reflexivity.
    + destruct (rev pre) as [|a q] eqn:E; cbn; [apply N.leb_le in Ez; lia|exact H3].
  - destruct t as [|y [|x rest]]; try (exists []; repeat split; reflexivity).
    destruct ((z =? 128) && (y =? 128) && (x =? 227)) eqn:E3; [|exists []; repeat split; reflexivity].
    apply andb_true_iff in E3. destruct E3 as [E3 Ex]. apply andb_true_iff in E3. destruct E3 as [Ezz Ey].
    apply N.eqb_eq in Ezz, Ey, Ex. subst z y x.
    destruct (IH (length rest) ltac:(subst n; cbn; lia) rest eq_refl) as (pre & H1 & H2 & H3).
    exists (128 :: 128 :: 227 :: pre). split; [cbn [app]; do 3 f_equal; exact H1|].
    cbn [rev]. rewrite <- !app_assoc. cbn [app]. split.
    + rewrite strip_app_no80 by (cbn; lia). rewrite H2. reflexivity.
    + destruct (rev pre) as [|a q] eqn:E; cbn; [lia|exact H3].
Qed.

Lemma trim_blank_end_spec l : exists suf, l = trim_blank_end l ++ suf /\ strip suf = [] /\ no80 suf.
Proof.
  unfold trim_blank_end. destruct (drop_blank_rev_spec (rev l)) as (pre & H1 & H2 & H3).
  exists (rev pre). split; [|split; assumption].
  rewrite <- rev_app_distr, <- H1, rev_involutive. reflexivity.
Qed.

Lemma strip_trim_blank_end l : strip (trim_blank_end l) = strip l.
Proof.
  destruct (trim_blank_end_spec l) as (suf & H1 & H2 & H3).
  rewrite H1 at 2. rewrite strip_app_no80 by exact H3. rewrite H2, app_nil_r. reflexivity.
Qed.

Lemma trim_blank_end_length l : (length (trim_blank_end l) <= length l)%nat.
Proof. destruct (trim_blank_end_spec l) as (suf & H1 & _). rewrite H1 at 2. rewrite app_length. lia. Qed.

Lemma strip_prefix_some p l r : strip_prefix p l = Some r -> l = p ++ r.
Proof.
  unfold strip_prefix. destruct (is_prefix p l) eqn:E; [|discriminate]. intros H. injection H as <-.
  apply is_prefix_spec in E. destruct E as [r ->]. rewrite skipn_app, skipn_all, Nat.sub_diag. reflexivity.
Qed.

Lemma firstn_app_exact {A} (a b : list A) : firstn (length (a ++ b) - length b) (a ++ b) = a.
Proof. rewrite app_length, Nat.add_sub. rewrite firstn_app, Nat.sub_diag, firstn_all. cbn. apply app_nil_r. Qed.

(* ---------- lowercase ---------- *)
Lemma lower_no80 c : no80 c -> no80 (lower c).
Proof.
  destruct c as [|b t]; [trivial|]. cbn. intros H E. apply H.
  unfold to_lower in E. destruct (is_upper b) eqn:U; [|exact E].
  unfold is_upper in U. apply andb_true_iff in U. destruct U as [_ U]. apply N.leb_le in U. lia.
Qed.

Definition same_meta (p q : ftoken) : Prop := t_ty (fst q) = t_ty (fst p) /\ snd q = snd p.

(* the C01 relation between a token before and after a stage *)
Definition c01_rel (p q : ftoken) : Prop :=
  t_ty (fst q) = t_ty (fst p)
  /\ f_ignored (snd q) = f_ignored (snd p)
  /\ fold_case (strip (t_content (fst q))) = fold_case (strip (t_content (fst p)))
  /\ (tok_ok p -> tok_ok q)
  /\ (f_ignored (snd p) = true -> fst q = fst p).

Lemma c01_rel_refl p : c01_rel p p.
Proof. unfold c01_rel. tauto. Qed.

Lemma c01_rel_trans p q r : c01_rel p q -> c01_rel q r -> c01_rel p r.
Proof.
  intros (A1 & A2 & A3 & A4 & A5) (B1 & B2 & B3 & B4 & B5).
  split; [congruence|]. split; [congruence|]. split; [congruence|]. split; [auto|].
  intros H. rewrite B5 by congruence. apply A5, H.
Qed.

Lemma c01_rel_set tok f c :
  f_ignored f = false -> fold_case (strip c) = fold_case (strip (t_content tok)) -> no80 c ->
  c01_rel (tok, f) (set_content tok c, f).
Proof.
  intros I H1 H2. unfold c01_rel. cbn [fst snd set_content t_ty t_content].
  split; [reflexivity|]. split; [reflexivity|]. split; [exact H1|].
  split; [intros _; split; [reflexivity|exact H2]|]. rewrite I. discriminate.
Qed.

Lemma c01_rel_fmt tok f f' : f_ignored f' = f_ignored f -> c01_rel (tok, f) (tok, f').
Proof.
  intros I. unfold c01_rel. cbn [fst snd].
  split; [reflexivity|]. split; [exact I|]. split; [reflexivity|].
  split; [intros [H1 H2]; split; assumption|reflexivity].
Qed.

Lemma tok_ok_set_content tok f c : no80 c -> tok_ok (set_content tok c, f).
Proof. intros H. split; [reflexivity|exact H]. Qed.

Lemma lowercase_tok_rel p : c01_rel p (lowercase_tok p).
Proof.
  destruct p as [tok f]. unfold lowercase_tok.
  destruct (f_ignored f) eqn:I; [apply c01_rel_refl|].
  destruct (is_keyword (t_ty tok) && existsb is_upper (t_content tok)); [|apply c01_rel_refl].
  unfold c01_rel. cbn [fst snd set_content t_ty t_content].
  split; [reflexivity|]. split; [reflexivity|].
  split; [rewrite strip_lower; apply fold_case_lower|].
  split; [intros [_ H]; split; [reflexivity|apply lower_no80, H]|]. rewrite I. discriminate.
Qed.

Lemma existsb_is_upper_lower c : existsb is_upper (lower c) = false.
Proof.
  induction c as [|b t IH]; [reflexivity|]. cbn [lower map existsb]. fold (lower t). rewrite IH, orb_false_r.
  unfold to_lower. destruct (is_upper b) eqn:U; [|exact U].
  unfold is_upper in *. apply andb_true_iff in U. destruct U as [U1 U2]. apply N.leb_le in U1, U2.
  apply andb_false_iff. right. apply N.leb_gt. lia.
Qed.

Lemma lowercase_tok_idem p : lowercase_tok (lowercase_tok p) = lowercase_tok p.
Proof.
  destruct p as [tok f]. unfold lowercase_tok.
  destruct (f_ignored f) eqn:I; [rewrite I; reflexivity|].
  destruct (is_keyword (t_ty tok) && existsb is_upper (t_content tok)) eqn:E.
  - rewrite I. cbn [set_content t_ty t_content].
    rewrite existsb_is_upper_lower, andb_false_r. reflexivity.
  - rewrite I, E. reflexivity.
Qed.

Lemma lowercase_keywords_idem l : lowercase_keywords (lowercase_keywords l) = lowercase_keywords l.
Proof. unfold lowercase_keywords. rewrite map_map. apply map_ext. intros; apply lowercase_tok_idem. Qed.

(* ---------- line comments ---------- *)
Section WithAlnum.
  Variable alnum : bytes -> bool.

  Lemma strip_slashes_space pre comment :
    Forall (fun b => b = 47) pre -> strip (pre ++ [32] ++ comment) = strip (pre ++ comment).
  Proof.
    induction 1 as [|b t Hb Ht IH]; [reflexivity|]. subst b.
    cbn [app]. rewrite !strip_unfold. change (47 <=? 32) with false. cbv iota.
    assert (forall l, match l with
                      | b :: c :: t' => if (47 =? 227) && (b =? 128) && (c =? 128) then strip t' else 47 :: strip l
                      | _ => 47 :: strip l end = 47 :: strip l) as E.
    { intros l. destruct l as [|x [|y l']]; reflexivity. }
    rewrite !E. f_equal. exact IH.
  Qed.

  Lemma flc_comment_spec comment0 :
    exists pre, 47 :: 47 :: comment0 = (47 :: 47 :: pre) ++ flc_comment comment0 /\ Forall (fun b => b = 47) pre.
  Proof.
    unfold flc_comment. destruct comment0 as [|b r].
    - exists []. split; [reflexivity|constructor].
    - destruct (b =? 47) eqn:E.
      + apply N.eqb_eq in E. subst b. exists [47]. split; [reflexivity|repeat constructor].
      + exists []. split; [reflexivity|constructor].
  Qed.

  Lemma flc_new1_spec pre comment s :
    flc_new1 alnum (pre ++ comment) comment = Some s -> s = pre ++ [32] ++ comment.
  Proof.
    unfold flc_new1. destruct comment as [|b r]; [discriminate|].
    destruct (negb (is_ascii_ws b) && negb (comment_is_separator alnum (b :: r))); [|discriminate].
    intros H. apply (f_equal (fun o => match o with Some x => x | None => s end)) in H.
    cbv beta iota in H. subst s. rewrite firstn_app_exact. reflexivity.
  Qed.

  (* the rewritten line comment has exactly the same non-blank bytes *)
  Lemma format_line_comment_strip c c' : format_line_comment alnum c = Some c' -> strip c' = strip c.
  Proof.
    unfold format_line_comment. destruct (strip_prefix [47; 47] c) as [comment0|] eqn:P; [|discriminate].
    apply strip_prefix_some in P. cbn [app] in P.
    destruct (flc_comment_spec comment0) as [pre [Hc Hpre]]. rewrite <- P in Hc.
    assert (Hnew1 : forall s, flc_new1 alnum c (flc_comment comment0) = Some s -> strip s = strip c).
    { intros s H. rewrite Hc in H. apply flc_new1_spec in H. subst s. rewrite Hc.
      apply strip_slashes_space. repeat constructor. exact Hpre. }
    destruct (Nat.eqb (length (trim_blank_end c)) (length c)).
    - intros H. apply Hnew1, H.
    - intros H. injection H as <-. rewrite strip_trim_blank_end.
      destruct (flc_new1 alnum c (flc_comment comment0)) as [s|]; [apply Hnew1; reflexivity|reflexivity].
  Qed.

  Lemma trim_47_no80 l : no80 (trim_blank_end (47 :: l)).
  Proof.
    destruct (trim_blank_end_spec (47 :: l)) as (suf & H1 & _).
    destruct (trim_blank_end (47 :: l)) as [|x t] eqn:E; [exact I|].
    cbn [app] in H1. injection H1 as <- _. cbn. lia.
  Qed.

  Lemma format_line_comment_head c c' : format_line_comment alnum c = Some c' -> no80 c'.
  Proof.
    unfold format_line_comment. destruct (strip_prefix [47; 47] c) as [comment0|] eqn:P; [|discriminate].
    apply strip_prefix_some in P. cbn [app] in P.
    destruct (flc_comment_spec comment0) as [pre [Hc Hpre]]. rewrite <- P in Hc.
    assert (Hnew1 : forall s, flc_new1 alnum c (flc_comment comment0) = Some s -> exists l, s = 47 :: l).
    { intros s H. rewrite Hc in H. apply flc_new1_spec in H. subst s. cbn [app]. eexists; reflexivity. }
    destruct (Nat.eqb (length (trim_blank_end c)) (length c)).
    - intros H. destruct (Hnew1 _ H) as [l ->]. cbn. lia.
    - intros H. injection H as <-.
      destruct (flc_new1 alnum c (flc_comment comment0)) as [s|].
      + destruct (Hnew1 s eq_refl) as [l ->]. apply trim_47_no80.
      + rewrite P. apply trim_47_no80.
  Qed.

  (* ---------- directives ---------- *)
  Lemma format_compiler_directive_fold c c' :
    format_compiler_directive c = Some c' -> fold_case c' = fold_case c /\ length c' = length c.
  Proof.
    unfold format_compiler_directive.
    set (so := match strip_prefix [123; 36] c with Some s => Some s | None => strip_prefix [40; 42; 36] c end).
    assert (Hso : forall s, so = Some s -> exists pre, c = pre ++ s).
    { subst so. intros s. destruct (strip_prefix [123; 36] c) as [s'|] eqn:P.
      - intros H; injection H as <-. eexists. apply strip_prefix_some, P.
      - intros H. eexists. apply strip_prefix_some, H. }
    destruct so as [stripped|]; [|discriminate].
    destruct (Hso _ eq_refl) as [pre Hc].
    destruct (dir_scan DBefore false stripped 0) as [dlen|]; [|discriminate].
    destruct (existsb is_lower (firstn dlen stripped)); [|discriminate].
    intros H. apply (f_equal (fun o => match o with Some x => x | None => c' end)) in H.
    cbv beta iota in H. subst c'. subst c. rewrite firstn_app_exact.
    split.
    - rewrite !fold_case_app. f_equal. rewrite fold_case_upper.
      rewrite <- fold_case_app. rewrite firstn_skipn. reflexivity.
    - rewrite !app_length. f_equal. unfold upper. rewrite map_length, <- app_length, firstn_skipn. reflexivity.
  Qed.

  Lemma strip_fold_commute l : fold_case (strip l) = strip (fold_case l).
  Proof. unfold fold_case. symmetry. apply strip_lower. Qed.

  Lemma format_compiler_directive_head c c' : format_compiler_directive c = Some c' -> no80 c'.
  Proof.
    intros H. destruct (format_compiler_directive_fold _ _ H) as [Hf _].
    unfold format_compiler_directive in H.
    destruct c' as [|b t]; [exact I|]. cbn. intros ->.
    (* the first byte of c is 123 or 40 and folding keeps it; 128 folds to 128 *)
    destruct c as [|a r].
    - discriminate.
    - cbn in Hf. injection Hf as Hf _. change (to_lower 128) with 128 in Hf.
      unfold strip_prefix in H. cbn [is_prefix] in H.
      destruct (123 =? a) eqn:E1.
      + apply N.eqb_eq in E1. subst a. discriminate.
      + cbn [andb] in H. destruct (40 =? a) eqn:E2.
        * apply N.eqb_eq in E2. subst a. discriminate.
        * cbn [andb] in H. discriminate.
  Qed.

  Lemma comment_tok_rel p : c01_rel p (comment_tok alnum p).
  Proof.
    destruct p as [tok f]. unfold comment_tok.
    destruct (f_ignored f) eqn:I; [apply c01_rel_refl|].
    set (r := match t_ty tok with
              | TT_CompilerDirective | TT_ConditionalDirective _ => format_compiler_directive (t_content tok)
              | TT_Comment CoK_InlineLine | TT_Comment CoK_IndividualLine => format_line_comment alnum (t_content tok)
              | _ => None end).
    assert (Hr : forall c', r = Some c' ->
                 fold_case (strip c') = fold_case (strip (t_content tok)) /\ no80 c').
    { subst r. intros c' H. destruct (t_ty tok) as [| | | | |k| |k| |]; try discriminate.
      - destruct (format_compiler_directive_fold _ _ H) as [Hf _]. split.
        + rewrite !strip_fold_commute, Hf. reflexivity.
        + eapply format_compiler_directive_head, H.
      - destruct (format_compiler_directive_fold _ _ H) as [Hf _]. split.
        + rewrite !strip_fold_commute, Hf. reflexivity.
        + eapply format_compiler_directive_head, H.
      - destruct k; try discriminate.
        + split; [rewrite (format_line_comment_strip _ _ H); reflexivity|eapply format_line_comment_head, H].
        + split; [rewrite (format_line_comment_strip _ _ H); reflexivity|eapply format_line_comment_head, H]. }
    destruct r as [c'|]; [|apply c01_rel_refl].
    destruct (Hr c' eq_refl) as [H1 H2].
    apply c01_rel_set; assumption.
  Qed.
End WithAlnum.

(* ---------- EofNewline: counters only ---------- *)
Lemma eof_newline_once_rel l : Forall2 c01_rel l (eof_newline_once l).
Proof.
  assert (R : forall m : list ftoken, Forall2 c01_rel m m).
  { induction m; constructor; auto using c01_rel_refl. }
  unfold eof_newline_once. destruct (rev l) as [|[tok f] r] eqn:E; [apply R|].
  destruct (is_eof (t_ty tok)); [|apply R].
  assert (Hl : l = rev r ++ [(tok, f)]).
  { rewrite <- (rev_involutive l), E. reflexivity. }
  rewrite Hl at 1. apply Forall2_app; [apply R|].
  constructor; [|constructor]. apply c01_rel_fmt. reflexivity.
Qed.

Lemma eof_newline_once_idem l : eof_newline_once (eof_newline_once l) = eof_newline_once l.
Proof.
  unfold eof_newline_once. destruct (rev l) as [|[tok f] r] eqn:E.
  - rewrite E. reflexivity.
  - destruct (is_eof (t_ty tok)) eqn:Eo.
    + rewrite rev_app_distr, rev_involutive. cbn [rev app]. rewrite Eo. reflexivity.
    + rewrite E, Eo. reflexivity.
Qed.
