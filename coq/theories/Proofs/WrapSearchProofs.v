(* Proofs/WrapSearchProofs.v — theorems about the search model (Model/WrapSearch.v, Model/WrapFormat.v):
   1. heap operations only move elements around (every element of the result is an element of the input or
      a pushed one);
   2. every solution returned by find_optimal_solution has one decision per token of the line, its first
      decision is what FirstDecision and the invariant of token 0 say, and every decision respects
      get_formatting_invariant (for ANY solver of the child lines and any cache contents);
   3. fuel: the inner loops never run out of fuel; the main loop does at most iteration_max + 2 pops;
   4. the first token's spaces_before is not read when the line starts with a break. *)
From PasfmtVerif Require Import Model.WrapSearch Model.WrapFormat.
From Coq Require Import Lia.

(* ------------------------------------------------------------------ *)
(* 1. functional array and heap: "all elements satisfy P" is preserved *)
Fixpoint pt_all {A} (P : A -> Prop) (t : ptree A) : Prop :=
  match t with
  | PLeaf => True
  | PNode l x r => pt_all P l /\ match x with Some v => P v | None => True end /\ pt_all P r
  end.

Definition opt_all {A} (P : A -> Prop) (v : option A) : Prop := match v with Some x => P x | None => True end.

Lemma pt_all_get {A} (P : A -> Prop) : forall t p x, pt_all P t -> pt_get p t = Some x -> P x.
Proof.
  induction t as [|l IHl y r IHr]; intros p x Ht Hg.
  - destruct p; discriminate.
  - cbn [pt_all] in Ht. destruct Ht as (Hl & Hy & Hr). destruct p as [q|q|]; cbn [pt_get] in Hg.
    + eapply IHr; eassumption.
    + eapply IHl; eassumption.
    + subst y. exact Hy.
Qed.

Lemma pt_all_set {A} (P : A -> Prop) p : forall v t, pt_all P t -> opt_all P v -> pt_all P (pt_set p v t).
Proof.
  induction p as [q IH|q IH|]; intros v [|l y r] Ht Hv; cbn [pt_set pt_all] in *.
  - repeat split; try exact I. apply IH; [exact I|exact Hv].
  - destruct Ht as (Hl & Hy & Hr). repeat split; try assumption. apply IH; assumption.
  - repeat split; try exact I. apply IH; [exact I|exact Hv].
  - destruct Ht as (Hl & Hy & Hr). repeat split; try assumption. apply IH; assumption.
  - repeat split; try exact I. exact Hv.
  - destruct Ht as (Hl & Hy & Hr). repeat split; assumption.
Qed.

Section HeapAll.
Variable P : node -> Prop.

Lemma sift_up_all p : forall elt t, pt_all P t -> P elt -> pt_all P (sift_up p elt t).
Proof.
  induction p as [q IH|q IH|]; intros elt t Ht He; cbn [sift_up].
  - destruct (pt_get q t) as [par|] eqn:E.
    + destruct (node_le elt par).
      * apply pt_all_set; [exact Ht|exact He].
      * apply IH; [|exact He]. apply pt_all_set; [exact Ht|]. cbn. eapply pt_all_get; eassumption.
    + apply pt_all_set; [exact Ht|exact He].
  - destruct (pt_get q t) as [par|] eqn:E.
    + destruct (node_le elt par).
      * apply pt_all_set; [exact Ht|exact He].
      * apply IH; [|exact He]. apply pt_all_set; [exact Ht|]. cbn. eapply pt_all_get; eassumption.
    + apply pt_all_set; [exact Ht|exact He].
  - apply pt_all_set; [exact Ht|exact He].
Qed.

Definition heap_all (h : heap) : Prop := pt_all P (h_data h).

Lemma heap_empty_all : heap_all heap_empty.
Proof. exact I. Qed.

Lemma heap_push_all x h : heap_all h -> P x -> heap_all (heap_push x h).
Proof.
  intros Hh Hx. unfold heap_push. destruct (N.succ (h_len h)) as [|p]; [exact Hh|].
  unfold heap_all; cbn [h_data]. apply sift_up_all; assumption.
Qed.

Lemma descend_bottom_all fuel : forall len p t, pt_all P t -> pt_all P (snd (descend_bottom fuel len p t)).
Proof.
  induction fuel as [|f IH]; intros len p t Ht; cbn [descend_bottom]; [exact Ht|].
  destruct (Pos.leb (xI p) len).
  - destruct (pt_get (xO p) t) as [a|] eqn:Ea; [|exact Ht].
    destruct (pt_get (xI p) t) as [b|] eqn:Eb; [|exact Ht].
    apply IH. apply pt_all_set; [exact Ht|]. cbn. destruct (node_le a b); eapply pt_all_get; eassumption.
  - destruct (Pos.eqb (xO p) len); [|exact Ht].
    destruct (pt_get (xO p) t) as [a|] eqn:Ea; [|exact Ht].
    cbn [snd]. apply pt_all_set; [exact Ht|]. cbn. eapply pt_all_get; eassumption.
Qed.

Lemma heap_pop_all h nd h' : heap_all h -> heap_pop h = Some (nd, h') -> P nd /\ heap_all h'.
Proof.
  unfold heap_pop, heap_all. intros Hh E.
  destruct (h_len h) as [|last]; [discriminate|].
  destruct (pt_get last (h_data h)) as [item|] eqn:Ei; [|discriminate].
  assert (Hitem : P item) by (eapply pt_all_get; eassumption).
  assert (Ht : pt_all P (pt_set last None (h_data h))) by (apply pt_all_set; [exact Hh|exact I]).
  destruct (Pos.pred_N last) as [|len'].
  - injection E as <- <-. split; [exact Hitem|exact Ht].
  - destruct (pt_get 1%positive (pt_set last None (h_data h))) as [top|] eqn:Et; [|discriminate].
    pose proof (descend_bottom_all (S (Pos.size_nat len')) len' 1%positive _ Ht) as Hd.
    destruct (descend_bottom (S (Pos.size_nat len')) len' 1%positive (pt_set last None (h_data h))) as [pos t'].
    injection E as <- <-. split; [exact (pt_all_get P _ _ _ Ht Et)|].
    cbn [h_data]. apply sift_up_all; [exact Hd|exact Hitem].
Qed.

Lemma sift_down_all fuel : forall len p elt t, pt_all P t -> P elt -> pt_all P (sift_down fuel len p elt t).
Proof.
  induction fuel as [|f IH]; intros len p elt t Ht He; cbn [sift_down]; [apply pt_all_set; assumption|].
  destruct (Pos.leb (xI p) len).
  - destruct (pt_get (xO p) t) as [a|] eqn:Ea; [|apply pt_all_set; assumption].
    destruct (pt_get (xI p) t) as [b|] eqn:Eb; [|apply pt_all_set; assumption].
    assert (Ha : P a) by (eapply pt_all_get; eassumption).
    assert (Hb : P b) by (eapply pt_all_get; eassumption).
    destruct (node_le (if node_le a b then b else a) elt); [apply pt_all_set; assumption|].
    apply IH; [|exact He]. apply pt_all_set; [exact Ht|]. cbn. destruct (node_le a b); assumption.
  - destruct (Pos.eqb (xO p) len); [|apply pt_all_set; assumption].
    destruct (pt_get (xO p) t) as [a|] eqn:Ea; [|apply pt_all_set; assumption].
    assert (Ha : P a) by (eapply pt_all_get; eassumption).
    destruct (node_gt a elt); [|apply pt_all_set; assumption].
    apply pt_all_set; [apply pt_all_set; assumption|exact He].
Qed.

Lemma rebuild_from_all n : forall len t, pt_all P t -> pt_all P (rebuild_from n len t).
Proof.
  induction n as [|k IH]; intros len t Ht; [exact Ht|].
  change (rebuild_from (S k) len t) with
    (rebuild_from k len (match pt_get (Pos.of_nat (S k)) t with Some e => sift_down (S (Pos.size_nat len)) len (Pos.of_nat (S k)) e t | None => t end)).
  apply IH. destruct (pt_get (Pos.of_nat (S k)) t) as [e|] eqn:E; [|exact Ht].
  apply sift_down_all; [exact Ht|eapply pt_all_get; eassumption].
Qed.

Lemma append_raw_all l : forall h, heap_all h -> Forall P l -> heap_all (append_raw l h).
Proof.
  induction l as [|x r IH]; intros h Hh Hl; cbn [append_raw]; [exact Hh|].
  inversion Hl as [|? ? Hx Hr]; subst. apply IH; [|exact Hr].
  unfold heap_all; cbn [h_data]. destruct (N.succ (h_len h)); [exact Hh|]. apply pt_all_set; [exact Hh|exact Hx].
Qed.

Lemma sift_up_each_all l : forall pos t, pt_all P t -> Forall P l -> pt_all P (sift_up_each l pos t).
Proof.
  induction l as [|x r IH]; intros pos t Ht Hl; cbn [sift_up_each]; [exact Ht|].
  inversion Hl as [|? ? Hx Hr]; subst. apply IH; [|exact Hr].
  destruct (N.succ pos); [exact Ht|]. apply sift_up_all; assumption.
Qed.

Lemma heap_extend_all l h : heap_all h -> Forall P l -> heap_all (heap_extend l h).
Proof.
  intros Hh Hl. unfold heap_extend. destruct l as [|x r]; [exact Hh|].
  pose proof (append_raw_all (x :: r) h Hh Hl) as Ha.
  destruct (if h_len h <? h_len (append_raw (x :: r) h) - h_len h then true
            else if h_len (append_raw (x :: r) h) <=? 2048
                 then 2 * h_len (append_raw (x :: r) h) <? (h_len (append_raw (x :: r) h) - h_len h) * N.log2 (h_len h)
                 else 2 * h_len (append_raw (x :: r) h) <? (h_len (append_raw (x :: r) h) - h_len h) * 11).
  - destruct (h_len (append_raw (x :: r) h)) as [|lp]; [exact Ha|].
    unfold heap_all; cbn [h_data]. apply rebuild_from_all. exact Ha.
  - unfold heap_all; cbn [h_data]. apply sift_up_each_all; [exact Ha|exact Hl].
Qed.
End HeapAll.

(* ------------------------------------------------------------------ *)
(* 2. solutions respect the invariants *)
Definition dec_respects (inv : option DecisionRequirement) (d : wdecision) : Prop :=
  match inv, d with
  | Some DR_MustBreak, WContinue => False
  | Some DR_MustNotBreak, WBreak _ => False
  | _, _ => True
  end.

Lemma Forall2_rev {A B} (R : A -> B -> Prop) l1 l2 : Forall2 R l1 l2 -> Forall2 R (rev l1) (rev l2).
Proof.
  induction 1 as [|a b l1 l2 Hab H IH]; [constructor|]. cbn [rev]. apply Forall2_app; [exact IH|]. constructor; [exact Hab|constructor].
Qed.

(* what the requirement says about the invariant it was computed from *)
Lemma req_facts lt win cur inv stk d nli :
  (get_formatting_requirement lt win cur inv stk d nli = DR_MustBreak -> inv <> Some DR_MustNotBreak) /\
  (get_formatting_requirement lt win cur inv stk d nli = DR_MustNotBreak -> inv <> Some DR_MustBreak) /\
  (get_formatting_requirement lt win cur inv stk d nli = DR_Indifferent -> inv <> Some DR_MustBreak /\ inv <> Some DR_MustNotBreak).
Proof.
  destruct inv as [v|]; [|repeat split; intros; discriminate].
  destruct stk as [|[ti top] stk'].
  - cbn. repeat split; intros; discriminate.
  - change (get_formatting_requirement lt win cur (Some v) ((ti, top) :: stk') d nli)
      with (map_can_break v (parents_support_break ((ti, top) :: stk') d nli)).
    destruct v, (parents_support_break ((ti, top) :: stk') d nli); cbn; repeat split; intros; congruence.
Qed.

Section SolveOk.
Variable W : wsettings.
Variable lvs : list lview.
Variable fmain : nat.
Variable child_solve : sst -> lview -> N * N -> first_decision -> sst * option solution.
Variable lv : lview.
Variable d0 : wdecision.     (* the decision of the line's first token *)

Definition node_ok (nd : node) : Prop :=
  exists done_rev pre,
    rev done_rev ++ n_rest nd = lv_recs lv
    /\ Forall2 (fun r t => dec_respects (tr_inv r) (td_dec t)) done_rev (n_decs nd)
    /\ map td_dec (n_decs nd) = pre ++ [d0].

Definition indiff_ok (ind : node) : Prop :=
  node_ok ind /\ exists r rest, n_rest ind = r :: rest /\ tr_inv r <> Some DR_MustBreak /\ tr_inv r <> Some DR_MustNotBreak.

Definition oindiff_ok (i : option node) : Prop := match i with Some ind => indiff_ok ind | None => True end.

Lemma potential_ok st nd b r rest :
  node_ok nd -> n_rest nd = r :: rest ->
  (b = true -> tr_inv r <> Some DR_MustNotBreak) -> (b = false -> tr_inv r <> Some DR_MustBreak) ->
  Forall node_ok (snd (potential W lvs child_solve lv st nd b)).
Proof.
  intros (done_rev & pre & Hsplit & Hdecs & Hfirst) Hrest Hb1 Hb2.
  unfold potential. rewrite Hrest.
  destruct (child_lines_solutions W lvs child_solve st (lv_idx lv) r (lv_gtoks lv) (n_nli nd) (n_ws nd) (n_decs nd)
              (update_contexts (lv_type lv) (tr_win r) (tr_ty r) (tr_stk r) (n_nli nd) b (n_data nd)) (n_nli nd)
              _ _) as [st' sols].
  cbn [snd]. apply Forall_forall. intros n Hn. apply in_map_iff in Hn. destruct Hn as (kids & <- & _).
  exists (r :: done_rev), ((if b then WBreak (get_continuation_count (tr_stk r) (update_contexts (lv_type lv) (tr_win r) (tr_ty r) (tr_stk r) (n_nli nd) b (n_data nd)) (n_nli nd)) else WContinue) :: pre).
  cbn [n_rest n_decs]. repeat split.
  - cbn [rev]. rewrite <- app_assoc. cbn [app]. rewrite <- Hrest. exact Hsplit.
  - constructor; [|exact Hdecs]. cbn [td_dec]. destruct b.
    + destruct (tr_inv r) as [[]|]; cbn; try exact I. apply Hb1; reflexivity.
    + destruct (tr_inv r) as [[]|]; cbn; try exact I. apply Hb2; reflexivity.
  - cbn [map td_dec]. rewrite Hfirst. reflexivity.
Qed.

Lemma both_ok st ind : indiff_ok ind -> Forall node_ok (snd (both W lvs child_solve lv st ind)).
Proof.
  intros (Hok & r & rest & Hrest & Hmb & Hmnb). unfold both.
  pose proof (potential_ok st ind true r rest Hok Hrest (fun _ => Hmnb) (fun H => ltac:(discriminate))) as H1.
  destruct (potential W lvs child_solve lv st ind true) as [st1 a]. cbn [snd] in H1.
  pose proof (potential_ok st1 ind false r rest Hok Hrest (fun H => ltac:(discriminate)) (fun _ => Hmb)) as H2.
  destruct (potential W lvs child_solve lv st1 ind false) as [st2 b]. cbn [snd] in *.
  apply Forall_app; split; assumption.
Qed.

Definition res_ok (r : walk_res) : Prop :=
  match r with W_push n => node_ok n | W_extend l => Forall node_ok l | W_dead | W_fuel => True end.

Definition step_ok (s : wstep) : Prop :=
  match s with
  | WS_stop r => res_ok r
  | WS_forward n i => node_ok n /\ oindiff_ok i
  | WS_restart n => node_ok n
  end.

Lemma finish_ok succ : Forall node_ok succ -> step_ok (finish succ).
Proof.
  intros H. unfold finish. destruct succ as [|n [|m l]]; cbn; try exact H. inversion H; assumption.
Qed.

Lemma kept_ok li sols : Forall node_ok sols -> forall best acc, Forall node_ok acc ->
  Forall node_ok (snd (fold_left (fun (acc : list N * list node) (n : node) =>
                                    if n_pen n <? best_at (fst acc) li then (upd_at li (fun _ => n_pen n) (fst acc), snd acc ++ [n]) else acc)
                                 sols (best, acc))).
Proof.
  induction 1 as [|n l Hn Hl IH]; intros best acc Hacc; cbn [fold_left]; [exact Hacc|].
  cbn [fst snd]. destruct (n_pen n <? best_at best li).
  - apply IH. apply Forall_app; split; [exact Hacc|constructor; [exact Hn|constructor]].
  - apply IH. exact Hacc.
Qed.

Lemma walk_step_ok nd indiff best st :
  node_ok nd -> oindiff_ok indiff -> step_ok (fst (fst (walk_step W lvs child_solve lv nd indiff best st))).
Proof.
  intros Hnd Hind. unfold walk_step.
  destruct (if w_max W <? last_line_length_of nd then indiff else None) as [ind|] eqn:Eover.
  { assert (Hi : indiff_ok ind) by (destruct (w_max W <? last_line_length_of nd); [subst indiff; exact Hind|discriminate]).
    pose proof (both_ok st ind Hi) as Hb. destruct (both W lvs child_solve lv st ind) as [st' succ]. cbn [fst snd] in *.
    apply finish_ok; exact Hb. }
  destruct (n_rest nd) as [|r rest] eqn:Hrest; [cbn; exact Hnd|].
  pose proof (req_facts (lv_type lv) (tr_win r) (tr_ty r) (tr_inv r) (tr_stk r) (n_data nd) (n_nli nd)) as (Fmb & Fmnb & Find).
  assert (Hafter : forall succ indiff' st', Forall node_ok succ -> oindiff_ok indiff' ->
            step_ok (fst (fst (match succ with
                               | [n] => (WS_forward n indiff', best, st')
                               | _ => match indiff' with
                                      | Some ind => let (st'', more) := both W lvs child_solve lv st' ind in (finish (succ ++ more), best, st'')
                                      | None => (finish succ, best, st')
                                      end
                               end)))).
  { intros succ indiff' st' Hs Hi.
    assert (Hgen : step_ok (fst (fst (match indiff' with
                                      | Some ind => let (st'', more) := both W lvs child_solve lv st' ind in (finish (succ ++ more), best, st'')
                                      | None => (finish succ, best, st')
                                      end)))).
    { destruct indiff' as [ind|]; [|cbn [fst]; apply finish_ok; exact Hs].
      pose proof (both_ok st' ind Hi) as Hb. destruct (both W lvs child_solve lv st' ind) as [st'' more]. cbn [fst snd] in *.
      apply finish_ok. apply Forall_app; split; assumption. }
    destruct succ as [|n [|m l]]; try exact Hgen. cbn [fst]. split; [inversion Hs; assumption|exact Hi]. }
  destruct (get_formatting_requirement (lv_type lv) (tr_win r) (tr_ty r) (tr_inv r) (tr_stk r) (n_data nd) (n_nli nd)) eqn:Ereq.
  - (* Indifferent *)
    destruct (Find eq_refl) as (Hmb & Hmnb).
    pose proof (potential_ok st nd false r rest Hnd Hrest (fun H => ltac:(discriminate)) (fun _ => Hmb)) as Hp.
    destruct (potential W lvs child_solve lv st nd false) as [st' succ]. cbn [snd] in Hp.
    apply Hafter; [exact Hp|].
    destruct indiff as [ind|]; [exact Hind|]. cbn. split; [exact Hnd|]. exists r, rest. repeat split; assumption.
  - (* Invalid *)
    destruct indiff as [ind|]; [|cbn; exact I].
    pose proof (both_ok st ind Hind) as Hb. destruct (both W lvs child_solve lv st ind) as [st' succ]. cbn [fst snd] in *.
    apply finish_ok; exact Hb.
  - (* MustBreak *)
    pose proof (potential_ok st nd true r rest Hnd Hrest (fun _ => Fmb eq_refl) (fun H => ltac:(discriminate))) as Hp.
    destruct (potential W lvs child_solve lv st nd true) as [st' sols]. cbn [snd] in Hp.
    pose proof (kept_ok (N.to_nat (n_nli nd)) sols Hp best [] (Forall_nil _)) as Hk.
    destruct (fold_left _ sols (best, [])) as [best' kept]. cbn [fst snd] in *.
    apply finish_ok; exact Hk.
  - (* MustNotBreak *)
    pose proof (potential_ok st nd false r rest Hnd Hrest (fun H => ltac:(discriminate)) (fun _ => Fmnb eq_refl)) as Hp.
    destruct (potential W lvs child_solve lv st nd false) as [st' succ]. cbn [snd] in Hp.
    apply Hafter; [exact Hp|exact Hind].
Qed.

Lemma walk_ok : forall f1 f2 nd indiff best st,
  node_ok nd -> oindiff_ok indiff -> res_ok (fst (fst (walk W lvs child_solve lv f1 f2 nd indiff best st))).
Proof.
  induction f1 as [|f1 IH1]; induction f2 as [|f2 IH2]; intros nd indiff best st Hnd Hind; try exact I.
  - cbn [walk]. pose proof (walk_step_ok nd indiff best st Hnd Hind) as Hs.
    destruct (walk_step W lvs child_solve lv nd indiff best st) as [[s best'] st']. cbn [fst] in Hs.
    destruct s as [r|n i|n]; cbn [fst]; [exact Hs| |exact I]. destruct Hs as (Hn & Hi). apply IH2; assumption.
  - cbn [walk]. pose proof (walk_step_ok nd indiff best st Hnd Hind) as Hs.
    destruct (walk_step W lvs child_solve lv nd indiff best st) as [[s best'] st']. cbn [fst] in Hs.
    destruct s as [r|n i|n]; cbn [fst]; [exact Hs| |].
    + destruct Hs as (Hn & Hi). apply IH2; assumption.
    + apply IH1; [exact Hs|exact I].
Qed.
End SolveOk.

Section SolveOk2.
Variable W : wsettings.
Variable lvs : list lview.
Variable fmain : nat.
Variable child_solve : sst -> lview -> N * N -> first_decision -> sst * option solution.
Variable lv : lview.

(* one decision per token, each respecting the invariant of its token; the first one is d0 *)
Definition sol_ok (d0 : wdecision) (s : solution) : Prop :=
  Forall2 (fun r t => dec_respects (tr_inv r) (td_dec t)) (lv_recs lv) (sol_decs s)
  /\ exists post, map td_dec (sol_decs s) = d0 :: post.

Lemma solution_of_node_ok d0 nd : node_ok lv d0 nd -> n_rest nd = [] -> sol_ok d0 (solution_of_node nd).
Proof.
  intros (done_rev & pre & Hsplit & Hdecs & Hfirst) Hrest. rewrite Hrest, app_nil_r in Hsplit.
  unfold sol_ok, solution_of_node. cbn [sol_decs]. split.
  - rewrite <- Hsplit. apply Forall2_rev. exact Hdecs.
  - exists (rev pre). rewrite map_rev, Hfirst, rev_app_distr. reflexivity.
Qed.

Lemma main_loop_ok d0 : forall fuel h iter best st st' s,
  heap_all (node_ok lv d0) h ->
  main_loop W lvs child_solve lv fuel h iter best st = (st', SR_ok s) -> sol_ok d0 s.
Proof.
  induction fuel as [|f IH]; intros h iter best st st' s Hh E; cbn [main_loop] in E; [discriminate|].
  destruct (heap_pop h) as [[nd h']|] eqn:Epop; [|discriminate].
  destruct (heap_pop_all (node_ok lv d0) h nd h' Hh Epop) as (Hnd & Hh').
  destruct (w_iter W <? iter); [discriminate|].
  destruct (n_rest nd) as [|r rest] eqn:Hrest.
  - injection E as _ <-. apply solution_of_node_ok; assumption.
  - destruct (best_at best (N.to_nat (N.pred (n_nli nd))) <? n_pen nd); [eapply IH; eassumption|].
    pose proof (walk_ok W lvs child_solve lv d0 (S (length (r :: rest))) (S (length (r :: rest))) nd None best st Hnd I) as Hw.
    destruct (walk W lvs child_solve lv (S (length (r :: rest))) (S (length (r :: rest))) nd None best st) as [[res best'] st''].
    cbn [fst] in Hw. destruct res as [n|l| |].
    + eapply IH; [|exact E]. apply heap_push_all; assumption.
    + eapply IH; [|exact E]. apply heap_extend_all; assumption.
    + eapply IH; eassumption.
    + discriminate.
Qed.

(* what FirstDecision and the invariant of token 0 make of the first decision *)
Definition first_dec (first : first_decision) (inv : option DecisionRequirement) : wdecision :=
  match first with
  | FD_Break => match inv with Some DR_MustNotBreak => WContinue | _ => WBreak 0 end
  | FD_Continue _ _ => WContinue
  end.

Theorem find_optimal_solution_ok st ws first st' s :
  find_optimal_solution W lvs fmain child_solve lv st ws first = (st', SR_ok s) ->
  match lv_recs lv with
  | [] => sol_decs s = []
  | r :: _ => sol_ok (first_dec first (tr_inv r)) s
  end.
Proof.
  unfold find_optimal_solution. destruct (lv_recs lv) as [|r rest] eqn:Hrecs.
  - intros E. injection E as _ <-. reflexivity.
  - set (fb := match first with
               | FD_Break => _
               | FD_Continue line_length can_break => _
               end).
    destruct fb as [[is_break lll] base_can_break] eqn:Efb.
    assert (Hdec : (if is_break then WBreak 0 else WContinue) = first_dec first (tr_inv r) /\
                   (is_break = true -> tr_inv r <> Some DR_MustNotBreak)).
    { subst fb. destruct first as [|ll cb]; cbn [first_dec].
      - unfold bid in Efb. destruct (tr_inv r) as [[]|]; injection Efb as <- _ _; split; try reflexivity; intros; congruence.
      - injection Efb as <- _ _. split; [reflexivity|discriminate]. }
    destruct Hdec as (Hdec & Hbrk).
    unfold bid. destruct (match tr_inv r with Some DR_MustBreak => true | _ => false end && negb is_break) eqn:Einv; [discriminate|].
    destruct (child_lines_solutions W lvs child_solve st (lv_idx lv) r [] 0 ws _ _ 1 lll 0) as [st1 sols].
    intros E. eapply main_loop_ok; [|exact E].
    apply heap_extend_all; [exact I|].
    apply Forall_forall. intros n Hn. apply in_map_iff in Hn. destruct Hn as (k & <- & _).
    exists [r], []. cbn [n_rest n_decs rev app map td_dec]. repeat split.
    + symmetry; exact Hrecs.
    + constructor; [|constructor]. cbn [td_dec]. destruct is_break.
      * specialize (Hbrk eq_refl). destruct (tr_inv r) as [[]|]; cbn; try exact I. congruence.
      * rewrite andb_true_r in Einv. destruct (tr_inv r) as [[]|]; cbn; try exact I. discriminate.
    + rewrite Hdec. reflexivity.
Qed.
End SolveOk2.

(* the same for `solve`, whatever the depth fuel, the cache and the other lines are *)
Theorem solve_ok W lvs fmain depth st lv ws first st' s :
  solve W lvs fmain depth st lv ws first = (st', Some s) ->
  match lv_recs lv with
  | [] => sol_decs s = []
  | r :: _ => sol_ok lv (first_dec first (tr_inv r)) s
  end.
Proof.
  destruct depth as [|k]; cbn [solve]; [discriminate|].
  destruct (find_optimal_solution W lvs fmain (solve W lvs fmain k) lv st ws first) as [st1 res] eqn:E.
  destruct res as [s1| | |]; try discriminate. intros H. injection H as _ <-.
  exact (find_optimal_solution_ok W lvs fmain (solve W lvs fmain k) lv st ws first st1 s1 E).
Qed.


(* ------------------------------------------------------------------ *)
(* 3. fuel *)
Section Fuel.
Variable W : wsettings.
Variable lvs : list lview.
Variable child_solve : sst -> lview -> N * N -> first_decision -> sst * option solution.
Variable lv : lview.

Notation potential' := (potential W lvs child_solve lv).
Notation both' := (both W lvs child_solve lv).
Notation walk_step' := (walk_step W lvs child_solve lv).
Notation walk' := (walk W lvs child_solve lv).

Definition len (n : node) : nat := length (n_rest n).

Lemma potential_len st nd b n : In n (snd (potential' st nd b)) -> S (len n) = len nd.
Proof.
  unfold potential, len. destruct (n_rest nd) as [|r rest]; [intros []|].
  destruct (child_lines_solutions _ _ _ _ _ _ _ _ _ _ _ _ _ _) as [st' sols]. cbn [snd].
  intros Hn. apply in_map_iff in Hn. destruct Hn as (k & <- & _). reflexivity.
Qed.

Definition from (x n : node) : Prop := exists st b, In n (snd (potential' st x b)).

Lemma both_from st ind n : In n (snd (both' st ind)) -> from ind n.
Proof.
  unfold both. destruct (potential' st ind true) as [st1 a] eqn:E1. destruct (potential' st1 ind false) as [st2 b] eqn:E2.
  cbn [snd]. intros H. apply in_app_or in H. destruct H as [H|H].
  - exists st, true. rewrite E1. exact H.
  - exists st1, false. rewrite E2. exact H.
Qed.

Definition step_src (nd : node) (indiff : option node) (s : wstep) : Prop :=
  match s with
  | WS_stop r => r <> W_fuel
  | WS_forward n i => from nd n /\ (i = indiff \/ (indiff = None /\ i = Some nd))
  | WS_restart n => from nd n \/ exists ind, indiff = Some ind /\ from ind n
  end.

Lemma finish_src (Q : node -> Prop) succ : (forall n, In n succ -> Q n) ->
  match finish succ with WS_restart n => Q n | WS_forward _ _ => False | WS_stop r => r <> W_fuel end.
Proof.
  intros H. unfold finish. destruct succ as [|n [|m l]]; try discriminate. apply H. left; reflexivity.
Qed.

Lemma kept_in li sols : forall best acc n,
  In n (snd (fold_left (fun (acc : list N * list node) (n : node) =>
                          if n_pen n <? best_at (fst acc) li then (upd_at li (fun _ => n_pen n) (fst acc), snd acc ++ [n]) else acc)
                       sols (best, acc))) -> In n acc \/ In n sols.
Proof.
  induction sols as [|m l IH]; intros best acc n H; cbn [fold_left] in H; [left; exact H|].
  cbn [fst snd] in H. destruct (n_pen m <? best_at best li).
  - apply IH in H. destruct H as [H|H]; [|right; right; exact H]. apply in_app_or in H. destruct H as [H|[H|[]]]; [left; exact H|right; left; exact H].
  - apply IH in H. destruct H as [H|H]; [left; exact H|right; right; exact H].
Qed.

Lemma walk_step_src nd indiff best st : step_src nd indiff (fst (fst (walk_step' nd indiff best st))).
Proof.
  unfold walk_step.
  destruct (if w_max W <? last_line_length_of nd then indiff else None) as [ind|] eqn:Eover.
  { assert (Hi : indiff = Some ind) by (destruct (w_max W <? last_line_length_of nd); [exact Eover|discriminate]).
    pose proof (both_from st ind) as Hb. destruct (both' st ind) as [st' succ]. cbn [fst snd] in *.
    pose proof (finish_src (from ind) succ Hb) as Hf. destruct (finish succ); cbn; try exact Hf; [destruct Hf|]. right. exists ind. split; assumption. }
  destruct (n_rest nd) as [|r rest] eqn:Hrest; [cbn; discriminate|].
  assert (Hafter : forall succ indiff' st', (forall n, In n succ -> from nd n) -> (indiff' = indiff \/ (indiff = None /\ indiff' = Some nd)) ->
            step_src nd indiff (fst (fst (match succ with
                               | [n] => (WS_forward n indiff', best, st')
                               | _ => match indiff' with
                                      | Some ind => let (st'', more) := both' st' ind in (finish (succ ++ more), best, st'')
                                      | None => (finish succ, best, st')
                                      end
                               end)))).
  { intros succ indiff' st' Hs Hi.
    assert (Hgen : step_src nd indiff (fst (fst (match indiff' with
                                      | Some ind => let (st'', more) := both' st' ind in (finish (succ ++ more), best, st'')
                                      | None => (finish succ, best, st')
                                      end)))).
    { destruct indiff' as [ind|].
      - pose proof (both_from st' ind) as Hb. destruct (both' st' ind) as [st'' more]. cbn [fst snd] in *.
        assert (Hall : forall n, In n (succ ++ more) -> from nd n \/ from ind n)
          by (intros n Hn; apply in_app_or in Hn; destruct Hn as [Hn|Hn]; [left; apply Hs; exact Hn|right; apply Hb; exact Hn]).
        pose proof (finish_src _ _ Hall) as Hf. destruct (finish (succ ++ more)); cbn; try exact Hf; [destruct Hf|].
        destruct Hf as [Hf|Hf]; [left; exact Hf|]. destruct Hi as [Hi|(Hi1 & Hi2)].
        + right. exists ind. split; [symmetry; exact Hi|exact Hf].
        + injection Hi2 as <-. left. exact Hf.
      - cbn [fst]. pose proof (finish_src _ _ Hs) as Hf. destruct (finish succ); cbn; try exact Hf; [destruct Hf|]. left. exact Hf. }
    destruct succ as [|n [|m l]]; try exact Hgen. cbn [fst]. split; [apply Hs; left; reflexivity|exact Hi]. }
  destruct (get_formatting_requirement (lv_type lv) (tr_win r) (tr_ty r) (tr_inv r) (tr_stk r) (n_data nd) (n_nli nd)).
  - (* Indifferent *)
    assert (Hp : forall n, In n (snd (potential' st nd false)) -> from nd n) by (intros n Hn; exists st, false; exact Hn).
    destruct (potential' st nd false) as [st' succ]. cbn [snd] in Hp.
    apply Hafter; [exact Hp|]. destruct indiff as [ind|]; [left; reflexivity|right; split; reflexivity].
  - (* Invalid *)
    destruct indiff as [ind|]; [|cbn; discriminate].
    pose proof (both_from st ind) as Hb. destruct (both' st ind) as [st' succ]. cbn [fst snd] in *.
    pose proof (finish_src (from ind) succ Hb) as Hf. destruct (finish succ); cbn; try exact Hf; [destruct Hf|]. right. exists ind. split; [reflexivity|assumption].
  - (* MustBreak *)
    assert (Hp : forall n, In n (snd (potential' st nd true)) -> from nd n) by (intros n Hn; exists st, true; exact Hn).
    destruct (potential' st nd true) as [st' sols]. cbn [snd] in Hp.
    pose proof (kept_in (N.to_nat (n_nli nd)) sols best []) as Hk.
    destruct (fold_left _ sols (best, [])) as [best' kept]. cbn [fst snd] in *.
    assert (Hall : forall n, In n kept -> from nd n) by (intros n Hn; destruct (Hk n Hn) as [[]|H]; apply Hp; exact H).
    pose proof (finish_src _ _ Hall) as Hf. destruct (finish kept); cbn; try exact Hf; [destruct Hf|]. left. exact Hf.
  - (* MustNotBreak *)
    assert (Hp : forall n, In n (snd (potential' st nd false)) -> from nd n) by (intros n Hn; exists st, false; exact Hn).
    destruct (potential' st nd false) as [st' succ]. cbn [snd] in Hp.
    apply Hafter; [exact Hp|left; reflexivity].
Qed.

Lemma from_len x n : from x n -> S (len n) = len x.
Proof. intros (st & b & H). eapply potential_len; exact H. Qed.

Definition base (nd : node) (indiff : option node) : nat := match indiff with Some ind => len ind | None => len nd end.

(* the inner loops never run out of fuel: f2 exceeds the tokens left, f1 the tokens left at the backtracking point *)
Theorem walk_no_fuel : forall f1 f2 nd indiff best st,
  (len nd < f2)%nat -> (base nd indiff < f1)%nat -> (len nd <= base nd indiff)%nat ->
  fst (fst (walk' f1 f2 nd indiff best st)) <> W_fuel.
Proof.
  induction f1 as [|f1 IH1]; [intros; lia|].
  induction f2 as [|f2 IH2]; intros nd indiff best st H2 H1 Hle; [lia|].
  cbn [walk]. pose proof (walk_step_src nd indiff best st) as Hs.
  destruct (walk_step' nd indiff best st) as [[s best'] st']. cbn [fst] in Hs.
  destruct s as [r|n i|n]; cbn [fst].
  - exact Hs.
  - destruct Hs as (Hn & Hi). apply from_len in Hn. apply IH2.
    + lia.
    + destruct Hi as [->|(-> & ->)]; unfold base in *; [destruct indiff; lia|lia].
    + destruct Hi as [->|(-> & ->)]; unfold base in *; [destruct indiff; lia|lia].
  - assert (Hn : (S (len n) <= base nd indiff)%nat).
    { destruct Hs as [Hs|(ind & -> & Hs)]; apply from_len in Hs; unfold base in *; lia. }
    apply IH1; unfold base; fold (len n); lia.
Qed.

(* the main loop pops at most iteration_max + 2 nodes: with that much fuel (+1) the out-of-fuel value is unreachable *)
Theorem main_loop_no_fuel : forall fuel h iter best st,
  (N.to_nat iter <= N.to_nat (w_iter W) + 1)%nat ->
  (N.to_nat (w_iter W) + 2 < fuel + N.to_nat iter)%nat ->
  snd (main_loop W lvs child_solve lv fuel h iter best st) <> SR_fuel.
Proof.
  induction fuel as [|f IH]; intros h iter best st Hi Hf; [lia|].
  cbn [main_loop]. destruct (heap_pop h) as [[nd h']|]; [|cbn; discriminate].
  destruct (w_iter W <? iter) eqn:Elim; [cbn; discriminate|].
  apply N.ltb_ge in Elim.
  assert (Hi' : (N.to_nat (iter + 1) <= N.to_nat (w_iter W) + 1)%nat) by lia.
  assert (Hf' : (N.to_nat (w_iter W) + 2 < f + N.to_nat (iter + 1))%nat) by lia.
  destruct (n_rest nd) as [|r rest] eqn:Hrest; [cbn; discriminate|].
  destruct (best_at best (N.to_nat (N.pred (n_nli nd))) <? n_pen nd); [apply IH; assumption|].
  pose proof (walk_no_fuel (S (length (r :: rest))) (S (length (r :: rest))) nd None best st) as Hw.
  unfold base, len in Hw. rewrite Hrest in Hw. specialize (Hw ltac:(lia) ltac:(lia) ltac:(lia)).
  destruct (walk' (S (length (r :: rest))) (S (length (r :: rest))) nd None best st) as [[res best'] st'].
  cbn [fst] in Hw. destruct res; try (apply IH; assumption). congruence.
Qed.

Corollary find_optimal_solution_no_fuel st ws first :
  snd (find_optimal_solution W lvs (main_fuel W) child_solve lv st ws first) <> SR_fuel.
Proof.
  unfold find_optimal_solution. destruct (lv_recs lv) as [|r rest]; [cbn; discriminate|].
  destruct (match first with FD_Break => _ | FD_Continue line_length can_break => _ end) as [[is_break lll] bcb].
  destruct (_ && negb is_break); [cbn; discriminate|].
  destruct (child_lines_solutions _ _ _ _ _ _ _ _ _ _ _ _ _ _) as [st1 sols].
  apply main_loop_no_fuel; unfold main_fuel; cbn; lia.
Qed.
End Fuel.

(* ------------------------------------------------------------------ *)
(* 4. signature facts that are not syntactic.
   (a) Beyond its first record, the search reads of the line only its index, type and token list: the records of
       the remaining tokens travel in the nodes (n_rest), the context count is not read at all.
   (b) When a line starts with a break (FirstDecision::Break and the first token's invariant is not MustNotBreak)
       the spaces_before of its first token is not read. *)
Section Signature.
Variable W : wsettings.
Variable lvs : list lview.
Variable fm : nat.
Variable cs : sst -> lview -> N * N -> first_decision -> sst * option solution.
Variables (i : nat) (t : LogicalLineType) (lvl : N) (tp : bool) (g : list N) (c1 c2 : nat) (recs1 recs2 : list trec).

Let lvA := mkLV i t lvl tp g recs1 c1.
Let lvB := mkLV i t lvl tp g recs2 c2.

Lemma walk_step_sig nd indiff best st : walk_step W lvs cs lvA nd indiff best st = walk_step W lvs cs lvB nd indiff best st.
Proof. reflexivity. Qed.

Lemma walk_sig : forall f1 f2 nd indiff best st, walk W lvs cs lvA f1 f2 nd indiff best st = walk W lvs cs lvB f1 f2 nd indiff best st.
Proof.
  induction f1 as [|f1 IH1]; induction f2 as [|f2 IH2]; intros nd indiff best st; try reflexivity; cbn [walk]; rewrite walk_step_sig;
    destruct (walk_step W lvs cs lvB nd indiff best st) as [[s best'] st']; destruct s as [r|n k|n]; try reflexivity; try apply IH2; apply IH1.
Qed.

Lemma main_loop_sig : forall fuel h iter best st, main_loop W lvs cs lvA fuel h iter best st = main_loop W lvs cs lvB fuel h iter best st.
Proof.
  induction fuel as [|f IH]; intros h iter best st; [reflexivity|]. cbn [main_loop].
  destruct (heap_pop h) as [[nd h']|]; [|reflexivity].
  destruct (w_iter W <? iter); [reflexivity|].
  destruct (n_rest nd) as [|r rest]; [reflexivity|].
  destruct (best_at best (N.to_nat (N.pred (n_nli nd))) <? n_pen nd); [apply IH|].
  rewrite walk_sig. destruct (walk W lvs cs lvB _ _ nd None best st) as [[res best'] st']. destruct res; try apply IH; reflexivity.
Qed.
End Signature.

Theorem first_token_spaces_irrelevant W lvs fm cs i t lvl tp g c gi ty win fp inv stk sp1 sp2 ln ml kids rest st ws :
  inv <> Some DR_MustNotBreak ->
  find_optimal_solution W lvs fm cs (mkLV i t lvl tp g (mkTR gi ty win fp inv stk sp1 ln ml kids :: rest) c) st ws FD_Break
  = find_optimal_solution W lvs fm cs (mkLV i t lvl tp g (mkTR gi ty win fp inv stk sp2 ln ml kids :: rest) c) st ws FD_Break.
Proof.
  intros Hinv. unfold find_optimal_solution. cbn [lv_recs tr_inv tr_ml tr_sp tr_len]. unfold bid.
  destruct inv as [[]|]; try congruence; cbn [negb andb];
    try (destruct (child_lines_solutions _ _ _ _ _ _ _ _ _ _ _ _ _ _) as [st1 sols] eqn:E1;
         match goal with |- context [child_lines_solutions ?a ?b ?c ?d ?e ?r ?f ?g ?h ?i ?j ?k ?l ?m] =>
           replace (child_lines_solutions a b c d e r f g h i j k l m) with (st1, sols) by (rewrite <- E1; reflexivity) end;
         apply main_loop_sig); reflexivity.
Qed.

Print Assumptions solve_ok.
Print Assumptions walk_no_fuel.
Print Assumptions find_optimal_solution_no_fuel.
Print Assumptions first_token_spaces_irrelevant.

(* ------------------------------------------------------------------ *)
(* non-vacuity: a concrete line that must wrap.  `Foo(Bar, Baz);` at width 8, indentation 2, continuation 4 *)
Definition ex_infos : list tokinfo :=
  [mkTI TT_Identifier 0 3 None; mkTI (TT_Op OK_LParen) 0 1 None; mkTI TT_Identifier 0 3 None; mkTI (TT_Op OK_Comma) 0 1 None;
   mkTI TT_Identifier 1 3 None; mkTI (TT_Op OK_RParen) 0 1 None; mkTI (TT_Op OK_Semicolon) 0 1 None; mkTI TT_Eof 0 0 None].
Definition ex_lines : list lline :=
  [mkLine LLT_Unknown 1 None [0; 1; 2; 3; 4; 5; 6]%nat; mkLine LLT_Eof 0 None [7]%nat].
Definition ex_W : wsettings := mkWS 8 200 false 2 4.
Definition ex_lvs := mk_lviews ex_infos ex_lines.

Example ex_events :
  rev (ss_log (wrap_phase1 ex_W ex_infos ex_lines)) =
  [Ev_S 0 (WS_ok 1048591 4 4); Ev_D 0 None 3 true; Ev_D 1 None 4 false; Ev_D 2 (Some (false, 1, 1)) 9 false;
   Ev_D 3 None 10 false; Ev_D 4 (Some (false, 1, 1)) 9 false; Ev_D 5 (Some (false, 1, 0)) 3 false; Ev_D 6 None 4 false].
Proof. vm_compute. reflexivity. Qed.

(* the hypotheses of solve_ok / find_optimal_solution_ok are satisfiable: the search returns a solution *)
Example ex_solve :
  match nth_error ex_lvs 0 with
  | Some lv => match solve ex_W ex_lvs (main_fuel ex_W) 3 sst_init lv (1, 0) FD_Break with
               | (st', Some s) => length (sol_decs s) = 7%nat /\ ss_fuel_err st' = false
               | _ => False
               end
  | None => False
  end.
Proof. vm_compute. split; reflexivity. Qed.
