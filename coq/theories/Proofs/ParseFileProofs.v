(* C14 for the whole parse_file, for ANY grammar: conditional-directive passes (fully modelled) +
   line-state kernel (every event sequence) + consolidation + directive lines. *)
From Coq Require Import Sorted Permutation.
From PasfmtVerif Require Import Model.DirectiveTree Proofs.DirectiveTreeProofs Model.ParserKernel Proofs.ParserKernelProofs.

Lemma merged_spec (results : list (list (list nat))) : forall acc l,
  In l (fold_left consolidate_pass results acc) <-> In l acc \/ exists r, In r results /\ In l r /\ l <> [].
Proof.
  induction results as [|r rs IH]; intros acc l; cbn [fold_left].
  - split; [auto|intros [H|(r & [] & _)]; exact H].
  - rewrite IH, consolidate_pass_spec. split.
    + intros [[H|[H1 H2]]|(r' & Hr' & H1 & H2)].
      * left; exact H.
      * right. exists r. split; [left; reflexivity|split; assumption].
      * right. exists r'. split; [right; exact Hr'|split; assumption].
    + intros [H|(r' & [<-|Hr'] & H1 & H2)].
      * left; left; exact H.
      * left; right; split; assumption.
      * right. exists r'. split; [exact Hr'|split; assumption].
Qed.

Section ParseFile.
  Variable tys : list RawTokenType.

  Definition is_compiler_directive (i : nat) : bool :=
    match nth_error tys i with Some RTT_CompilerDirective => true | _ => false end.
  Definition is_directive (i : nat) : bool :=
    match nth_error tys i with Some RTT_CompilerDirective | Some (RTT_ConditionalDirective _) => true | _ => false end.

  (* one event log per pass: whatever the grammar did *)
  Variable evss : list (list kev).
  Hypothesis one_log_per_pass : length evss = length (all_passes tys).

  Definition pass_runs : list (list nat * list kev) := combine (all_passes tys) evss.
  Definition results : list (list (list nat)) := map (fun pe => k_lines (k_run (fst pe) (snd pe))) pass_runs.
  Definition final_lines : list (list nat) := parse_file_lines is_directive (length tys) results.

  (* the side conditions monitored on every real parse (unit kernel): each pass is consumed to its
     end, and skip_token only ever skips compiler directives *)
  Hypothesis consumed : forall pe, In pe pass_runs -> (length (fst pe) <= k_pi (k_run (fst pe) (snd pe)))%nat.
  Hypothesis skips_directives : forall pe i t, In pe pass_runs -> In i (k_skips (snd pe) 0) ->
    nth_error (fst pe) i = Some t -> is_compiler_directive t = true.

  Lemma pass_runs_fst pe : In pe pass_runs -> In (fst pe) (all_passes tys).
  Proof. destruct pe as [p e]. intros H. apply in_combine_l in H. exact H. Qed.

  Lemma pass_in_runs p : In p (all_passes tys) -> exists e, In (p, e) pass_runs.
  Proof.
    unfold pass_runs. revert one_log_per_pass. generalize (all_passes tys) evss.
    induction l as [|a l IH]; intros [|e es] Hlen Hin; cbn in *; try lia; try contradiction.
    destruct Hin as [<-|Hin]; [exists e; left; reflexivity|].
    destruct (IH es ltac:(lia) Hin) as [e' He']. exists e'. right. exact He'.
  Qed.

  Lemma pass_increasing p : In p (all_passes tys) -> increasing p.
  Proof. intros H. apply (pass_sorted tys p H). Qed.

  (* (a) every final line is non-empty, strictly increasing, and lists valid token positions *)
  Theorem final_lines_wf :
    Forall (fun l => l <> [] /\ increasing l /\ Forall (fun i => (i < length tys)%nat) l) final_lines.
  Proof.
    apply Forall_forall. intros l Hl. unfold final_lines, parse_file_lines in Hl.
    apply consolidate_pass_spec in Hl. destruct Hl as [Hl|[Hl Hne]].
    - apply merged_spec in Hl. destruct Hl as [[]|(r & Hr & Hlr & Hne)].
      unfold results in Hr. apply in_map_iff in Hr. destruct Hr as (pe & <- & Hpe).
      pose proof (pass_runs_fst pe Hpe) as Hp.
      destruct (kernel_lines_wf (fst pe) (snd pe) (pass_increasing _ Hp)) as (Hs & _ & Hincl).
      split; [exact Hne|]. split.
      + rewrite Forall_forall in Hs. apply Hs, Hlr.
      + apply Forall_forall. intros i Hi.
        assert (Hin : In i (fst pe)) by (apply Hincl, in_concat; exists l; split; assumption).
        destruct (pass_sorted tys (fst pe) Hp) as (_ & Hlt & _). rewrite Forall_forall in Hlt. apply Hlt, Hin.
    - apply in_map_iff in Hl. destruct Hl as (i & <- & Hi). apply filter_In in Hi. destruct Hi as [Hi _].
      apply in_seq in Hi. split; [discriminate|]. split; [repeat constructor|]. constructor; [lia|constructor].
  Qed.

  (* (b) every token of the file belongs to at least one final line *)
  Theorem final_lines_cover : forall i, (i < length tys)%nat -> exists l, In l final_lines /\ In i l.
  Proof.
    intros i Hi. unfold final_lines, parse_file_lines.
    set (merged := fold_left consolidate_pass results []).
    destruct (existsb (Nat.eqb i) (concat merged)) eqn:Ep.
    - (* pushed by some pass *)
      apply existsb_exists in Ep. destruct Ep as (j & Hj & Ej). apply Nat.eqb_eq in Ej. subst j.
      apply in_concat in Hj. destruct Hj as (l & Hl & Hil). exists l. split; [|exact Hil].
      apply consolidate_pass_spec. left. exact Hl.
    - destruct (is_directive i) eqn:Ed.
      + (* a directive no pass pushed: its own line *)
        exists [i]. split; [|left; reflexivity]. apply consolidate_pass_spec. right. split; [|discriminate].
        apply in_map_iff. exists i. split; [reflexivity|]. apply filter_In. split; [apply in_seq; lia|].
        rewrite Ed, Ep. reflexivity.
      + (* an ordinary token: some pass contains it, and that pass placed it *)
        exfalso.
        destruct (nth_error tys i) as [ty|] eqn:Ety; [|apply nth_error_None in Ety; lia].
        assert (Hnd : nondir tys i).
        { exists ty. split; [exact Ety|]. unfold is_directive in Ed. rewrite Ety in Ed.
          destruct ty; try reflexivity; discriminate. }
        destruct (passes_cover tys i Hnd) as (p & Hp & Hip).
        destruct (pass_in_runs p Hp) as (e & Hpe).
        apply In_nth_error in Hip. destruct Hip as (k & Hk).
        destruct (kernel_cover p e (consumed (p, e) Hpe) k i Hk) as [Hin|Hskip].
        * assert (In i (concat merged)).
          { apply in_concat in Hin. destruct Hin as (l & Hl & Hil). apply in_concat. exists l. split; [|exact Hil].
            apply merged_spec. right. exists (k_lines (k_run p e)). split.
            - unfold results. apply in_map_iff. exists (p, e). split; [reflexivity|exact Hpe].
            - split; [exact Hl|]. intros ->. contradiction. }
          assert (existsb (Nat.eqb i) (concat merged) = true).
          { apply existsb_exists. exists i. split; [assumption|apply Nat.eqb_refl]. }
          congruence.
        * pose proof (skips_directives (p, e) k i Hpe Hskip Hk) as Hc.
          unfold is_compiler_directive in Hc. unfold is_directive in Ed. rewrite Ety in Hc, Ed.
          destruct ty; discriminate.
  Qed.
End ParseFile.
