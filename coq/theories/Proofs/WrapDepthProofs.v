(* Proofs/WrapDepthProofs.v — the fuel the model supplies is never exhausted:
   under parents_ok (a child line's parent is an earlier line) get_line_children only maps a token of line i to
   lines after i (line_children_later, mk_lviews_wf), so the recursion of find_optimal_solution into child lines
   descends at most (number of lines - i) levels and the out-of-fuel flag of solve / format_top / wrap_phase stays
   clear (solve_no_fuel_err, wrap_phase_no_fuel_err). *)
From PasfmtVerif Require Import Model.WrapSearch Model.WrapFormat Proofs.WrapSearchProofs.
From Coq Require Import Lia.

(* ------------------------------------------------------------------ *)
(* A. get_line_children *)
Definition ientry := (lkey * (N * list nat * N))%type.
Definition entry_later (e : ientry) : Prop := forall k, In k (snd (fst (snd e))) -> (fst (fst e) < k)%nat.
Definition pmap_ok (pm : list (lkey * lkey)) : Prop := forall p m, In (p, m) pm -> fst m = fst p.

Lemma lkey_eqb_fst a b : lkey_eqb a b = true -> fst a = fst b.
Proof. unfold lkey_eqb. intros H. apply andb_true_iff in H. destruct H as (_ & H). apply PeanoNat.Nat.eqb_eq in H. exact H. Qed.

Lemma assoc_find_in {V} k : forall (l : list (lkey * V)) v, assoc_find k l = Some v -> exists k', In (k', v) l /\ lkey_eqb k k' = true.
Proof.
  induction l as [|[k' v'] r IH]; intros v E; cbn [assoc_find] in E; [discriminate|].
  destruct (lkey_eqb k k') eqn:Ek.
  - injection E as <-. exists k'. split; [left; reflexivity|exact Ek].
  - destruct (IH v E) as (k2 & H1 & H2). exists k2. split; [right; exact H1|exact H2].
Qed.

Lemma assoc_upd_all {V} (P : lkey * V -> Prop) k (f : V -> V) : forall l,
  Forall P l -> (forall k' v, lkey_eqb k k' = true -> P (k', v) -> P (k', f v)) -> Forall P (assoc_upd k f l).
Proof.
  induction l as [|[k' v] r IH]; intros Hl Hf; cbn [assoc_upd]; [constructor|].
  inversion Hl as [|? ? H1 H2]; subst. destruct (lkey_eqb k k') eqn:E.
  - constructor; [apply Hf; assumption|exact H2].
  - constructor; [exact H1|apply IH; assumption].
Qed.

Lemma lc_ancestors_later lines pmap line_index : forall fuel cur first cm,
  pmap_ok pmap ->
  (first = true -> forall l p, cur = Some l -> il_parent l = Some p -> (fst p < line_index)%nat) ->
  Forall entry_later cm -> Forall entry_later (lc_ancestors fuel lines pmap line_index cur first cm).
Proof.
  induction fuel as [|f IH]; intros cur first cm Hpm Hfirst Hcm; cbn [lc_ancestors]; [exact Hcm|].
  destruct (match cur with Some l => il_parent l | None => None end) as [p|] eqn:Ep; [|exact Hcm].
  apply IH; [exact Hpm|discriminate|].
  set (key := match assoc_find p pmap with Some k => k | None => p end).
  assert (Hkey : fst key = fst p).
  { subst key. destruct (assoc_find p pmap) as [k|] eqn:E; [|reflexivity].
    destruct (assoc_find_in p pmap k E) as (p' & Hin & Heq). rewrite (Hpm p' k Hin). symmetry. apply lkey_eqb_fst. exact Heq. }
  apply assoc_upd_all.
  - destruct (assoc_find key cm); [exact Hcm|]. apply Forall_app; split; [exact Hcm|]. constructor; [|constructor]. intros k []. 
  - intros k' [[pt ls] dc] Heq He. unfold entry_later in *. cbn [fst snd] in *. destruct first; [|exact He].
    intros k [<-|Hk]; [|exact (He k Hk)].
    rewrite <- (lkey_eqb_fst key k' Heq), Hkey. destruct cur as [l|]; [|discriminate]. exact (Hfirst eq_refl l p eq_refl Ep).
Qed.

Definition iparents_ok_from (i : nat) (rest : list iline) : Prop :=
  forall j l p, nth_error rest j = Some l -> il_parent l = Some p -> (fst p < i + j)%nat.

Lemma lc_lines_later all : forall rest line_index cm,
  iparents_ok_from line_index rest -> pmap_ok (cm_parent cm) -> Forall entry_later (cm_children cm) ->
  Forall entry_later (cm_children (lc_lines all rest line_index cm)).
Proof.
  induction rest as [|l r IH]; intros line_index cm Hpar Hpm Hcm; cbn [lc_lines]; [exact Hcm|].
  assert (Hr : iparents_ok_from (S line_index) r).
  { intros j l' p Hj Hp. specialize (Hpar (S j) l' p Hj Hp). lia. }
  destruct (il_toks l) as [|first toks]; [apply IH; assumption|].
  set (pmap := match il_parent l with None => cm_parent cm | Some p => _ end).
  assert (Hpm' : pmap_ok pmap).
  { subst pmap. destruct (il_parent l) as [p|]; [|exact Hpm].
    destruct (last_gap_before first _ None) as [m|]; [|exact Hpm].
    destruct (m =? snd p); [exact Hpm|]. destruct (assoc_find p (cm_parent cm)); [exact Hpm|].
    intros p' m' [H|H]; [injection H as <- <-; reflexivity|exact (Hpm p' m' H)]. }
  apply IH; [exact Hr|exact Hpm'|]. cbn [cm_children].
  apply lc_ancestors_later; [exact Hpm'| |exact Hcm].
  intros _ l0 p E Hp. injection E as <-. specialize (Hpar O l p eq_refl Hp). lia.
Qed.

Theorem line_children_later (lines : list iline) :
  iparents_ok_from 0 lines -> Forall entry_later (get_line_children lines).
Proof.
  intros H. unfold get_line_children. apply lc_lines_later; [exact H|intros p m []|constructor].
Qed.

(* parents_ok of Model/Lines.v gives the hypothesis *)
Lemma parents_ok_from_spec all : forall rest i, parents_ok_from all i rest = true ->
  forall j l pl pt, nth_error rest j = Some l -> ll_parent l = Some (pl, pt) -> (pl < i + j)%nat.
Proof.
  induction rest as [|l r IH]; intros i H j l0 pl pt Hj Hp; [destruct j; discriminate|].
  cbn [parents_ok_from] in H. apply andb_true_iff in H. destruct H as (H1 & H2).
  destruct j as [|j]; cbn [nth_error] in Hj.
  - injection Hj as <-. rewrite Hp in H1. apply andb_true_iff in H1. destruct H1 as (H1 & _). apply PeanoNat.Nat.ltb_lt in H1. lia.
  - specialize (IH (S i) H2 j l0 pl pt Hj Hp). lia.
Qed.

Lemma iparents_of_parents_ok lines : parents_ok lines = true -> iparents_ok_from 0 (map iline_of lines).
Proof.
  intros H j l p Hj Hp. rewrite nth_error_map in Hj. destruct (nth_error lines j) as [ll|] eqn:E; [|discriminate].
  injection Hj as <-. unfold iline_of in Hp. cbn [il_parent] in Hp. destruct (ll_parent ll) as [[pl pt]|] eqn:Ep; [|discriminate].
  injection Hp as <-. cbn [fst]. exact (parents_ok_from_spec lines lines 0 H j ll pl pt E Ep).
Qed.

(* ------------------------------------------------------------------ *)
(* B. the views *)
Definition rec_later (i : nat) (r : trec) : Prop := forall lc k, tr_kids r = Some lc -> In k (lch_lines lc) -> (i < k)%nat.
Definition view_wf (i : nat) (lv : lview) : Prop := lv_idx lv = i /\ Forall (rec_later i) (lv_recs lv).
Definition views_wf (lvs : list lview) : Prop := forall i lv, nth_error lvs i = Some lv -> view_wf i lv.

Lemma mk_recs_later tt kids line_index : (forall e, In e kids -> entry_later e /\ fst (fst e) = line_index) ->
  forall toks prevtok win stacks, Forall (rec_later line_index) (mk_recs tt toks prevtok win stacks kids line_index).
Proof.
  intros Hk. induction toks as [|g rest IH]; intros prevtok win stacks; cbn [mk_recs]; [constructor|].
  constructor; [|apply IH].
  intros lc k Hlc Hin. cbn [tr_kids] in Hlc.
  destruct (assoc_find (line_index, g) kids) as [[[pt ls] dc]|] eqn:E; [|discriminate].
  injection Hlc as <-. cbn [lch_lines] in Hin. apply in_rev in Hin.
  destruct (assoc_find_in _ _ _ E) as (k' & Hin' & _). destruct (Hk _ Hin') as (Hl & Hf).
  cbn [fst] in Hf. rewrite <- Hf. apply Hl. exact Hin.
Qed.

Lemma mk_lviews_from_wf tt kids : Forall entry_later kids -> forall ls i j lv,
  nth_error (mk_lviews_from tt kids i ls) j = Some lv -> view_wf (i + j) lv.
Proof.
  intros Hk. induction ls as [|l r IH]; intros i j lv E; [destruct j; discriminate|].
  cbn [mk_lviews_from] in E. destruct j as [|j]; cbn [nth_error] in E.
  - injection E as <-. rewrite PeanoNat.Nat.add_0_r. split; [reflexivity|]. cbn [lv_recs mk_lview].
    apply mk_recs_later. intros e He. apply filter_In in He. destruct He as (He & Hf). split.
    + rewrite Forall_forall in Hk. exact (Hk e He).
    + apply PeanoNat.Nat.eqb_eq in Hf. exact Hf.
  - specialize (IH (S i) j lv E). replace (i + S j)%nat with (S i + j)%nat by lia. exact IH.
Qed.

Lemma mk_lviews_from_length tt kids : forall ls i, length (mk_lviews_from tt kids i ls) = length ls.
Proof. induction ls as [|l r IH]; intros i; cbn [mk_lviews_from length]; [reflexivity|]. rewrite IH. reflexivity. Qed.

Theorem mk_lviews_wf infos lines : parents_ok lines = true -> views_wf (mk_lviews infos lines).
Proof.
  intros H i lv E. unfold mk_lviews in E.
  exact (mk_lviews_from_wf _ _ (line_children_later _ (iparents_of_parents_ok lines H)) _ 0 i lv E).
Qed.

Lemma mk_lviews_length infos lines : length (mk_lviews infos lines) = length lines.
Proof. unfold mk_lviews. rewrite mk_lviews_from_length, map_length. reflexivity. Qed.

(* ------------------------------------------------------------------ *)
(* C. the out-of-fuel flag stays clear *)
Definition noerr (st : sst) : Prop := ss_fuel_err st = false.

Section NoErr.
Variable W : wsettings.
Variable lvs : list lview.
Variable child_solve : sst -> lview -> N * N -> first_decision -> sst * option solution.
Variable lv : lview.
Variable d0 : wdecision.

Hypothesis Hrecs : Forall (rec_later (lv_idx lv)) (lv_recs lv).
Hypothesis Hchild : forall st lv' ws fd k, nth_error lvs k = Some lv' -> (lv_idx lv < k)%nat -> noerr st -> noerr (fst (child_solve st lv' ws fd)).

Notation potential' := (potential W lvs child_solve lv).
Notation both' := (both W lvs child_solve lv).
Notation walk_step' := (walk_step W lvs child_solve lv).
Notation walk' := (walk W lvs child_solve lv).

Lemma solve_children_ne opt base deind : forall kids st first lll acc,
  (forall k, In k kids -> (lv_idx lv < k)%nat) -> noerr st ->
  noerr (fst (solve_children lvs child_solve st opt base deind kids first lll acc)).
Proof.
  induction kids as [|k rest IH]; intros st first lll acc Hk Hst; cbn [solve_children]; [exact Hst|].
  destruct (nth_error lvs k) as [lv'|] eqn:Ek; [|exact Hst].
  match goal with |- context [child_solve st lv' ?ws ?fd] =>
    pose proof (Hchild st lv' ws fd k Ek (Hk k (or_introl eq_refl)) Hst) as Hc; destruct (child_solve st lv' ws fd) as [st1 r] end.
  cbn [fst] in Hc. destruct r as [s|]; [|exact Hc]. apply IH; [|exact Hc]. intros k' H. apply Hk. right; exact H.
Qed.

Lemma child_lines_solutions_ne st r gtoks tok_li ws decs d nli tll pc :
  rec_later (lv_idx lv) r -> noerr st ->
  noerr (fst (child_lines_solutions W lvs child_solve st (lv_idx lv) r gtoks tok_li ws decs d nli tll pc)).
Proof.
  intros Hr Hst. unfold child_lines_solutions.
  destruct (tr_kids r) as [lc|] eqn:Ekids; [|exact Hst].
  destruct (match lch_lines lc with k :: _ => nth_error lvs k | [] => None end) as [first_child|]; [|exact Hst].
  match goal with |- context [fold_left ?F ?opts (st, [])] =>
    assert (Hfold : forall options acc, noerr (fst acc) -> noerr (fst (fold_left F options acc))); [|apply Hfold; exact Hst] end.
  induction options as [|opt options IH]; intros [st0 sols] H1; cbn [fold_left]; [exact H1|].
  cbn [fst] in H1. apply IH.
  destruct (cache_find _ (ss_cache st0)) as [s|]; [exact H1|].
  destruct opt as [|ii cc xx|ii cc xx];
    match goal with |- context [solve_children lvs child_solve st0 ?o ?b ?dd ?ks ?f ?l ?a] =>
      pose proof (solve_children_ne o b dd ks st0 f l a (fun k Hk => Hr lc k Ekids Hk) H1) as Hs;
      destruct (solve_children lvs child_solve st0 o b dd ks f l a) as [st1 res] end;
    cbn [fst] in *; destruct res as [s|]; exact Hs.
Qed.

Lemma node_ok_head nd r rest : node_ok lv d0 nd -> n_rest nd = r :: rest -> rec_later (lv_idx lv) r.
Proof.
  intros (done_rev & pre & Hsplit & _) Hrest. rewrite Hrest in Hsplit. rewrite Forall_forall in Hrecs. apply Hrecs.
  rewrite <- Hsplit. apply in_or_app. right. left. reflexivity.
Qed.

Lemma potential_ne st nd b : node_ok lv d0 nd -> noerr st -> noerr (fst (potential' st nd b)).
Proof.
  intros Hnd Hst. unfold potential. destruct (n_rest nd) as [|r rest] eqn:Hrest; [exact Hst|].
  match goal with |- context [child_lines_solutions W lvs child_solve st (lv_idx lv) r ?c ?d ?e ?f ?g ?h ?i ?j] =>
    pose proof (child_lines_solutions_ne st r c d e f g h i j (node_ok_head nd r rest Hnd Hrest) Hst) as H1;
    destruct (child_lines_solutions W lvs child_solve st (lv_idx lv) r c d e f g h i j) as [st' sols] end.
  exact H1.
Qed.

Lemma both_ne st ind : node_ok lv d0 ind -> noerr st -> noerr (fst (both' st ind)).
Proof.
  intros Hi Hst. unfold both.
  pose proof (potential_ne st ind true Hi Hst) as A. destruct (potential' st ind true) as [st1 a]. cbn [fst] in A.
  pose proof (potential_ne st1 ind false Hi A) as B. destruct (potential' st1 ind false) as [st2 b]. exact B.
Qed.

Lemma walk_step_ne nd indiff best st :
  node_ok lv d0 nd -> oindiff_ok lv d0 indiff -> noerr st -> noerr (snd (walk_step' nd indiff best st)).
Proof.
  intros Hnd Hind Hst. unfold walk_step.
  destruct (if w_max W <? last_line_length_of nd then indiff else None) as [ind|] eqn:Eover.
  { assert (Hi : indiff_ok lv d0 ind) by (destruct (w_max W <? last_line_length_of nd); [subst indiff; exact Hind|discriminate]).
    pose proof (both_ne st ind (proj1 Hi) Hst) as B. destruct (both' st ind) as [st' succ]. exact B. }
  destruct (n_rest nd) as [|r rest] eqn:Hrest; [exact Hst|].
  assert (Hafter : forall succ indiff' st', noerr st' -> oindiff_ok lv d0 indiff' ->
            noerr (snd (match succ with
                        | [n] => (WS_forward n indiff', best, st')
                        | _ => match indiff' with
                               | Some ind => let (st'', more) := both' st' ind in (finish (succ ++ more), best, st'')
                               | None => (finish succ, best, st')
                               end
                        end))).
  { intros succ indiff' st' Hc Hi.
    assert (Hgen : noerr (snd (match indiff' with
                               | Some ind => let (st'', more) := both' st' ind in (finish (succ ++ more), best, st'')
                               | None => (finish succ, best, st')
                               end))).
    { destruct indiff' as [ind|]; [|exact Hc].
      pose proof (both_ne st' ind (proj1 Hi) Hc) as B. destruct (both' st' ind) as [st'' more]. exact B. }
    destruct succ as [|n [|m l]]; try exact Hgen. exact Hc. }
  pose proof (req_facts (lv_type lv) (tr_win r) (tr_ty r) (tr_inv r) (tr_stk r) (n_data nd) (n_nli nd)) as (_ & _ & Find).
  destruct (get_formatting_requirement (lv_type lv) (tr_win r) (tr_ty r) (tr_inv r) (tr_stk r) (n_data nd) (n_nli nd)) eqn:Ereq.
  - pose proof (potential_ne st nd false Hnd Hst) as P1. destruct (potential' st nd false) as [st' succ]. cbn [fst] in P1.
    apply Hafter; [exact P1|]. destruct indiff as [ind|]; [exact Hind|]. destruct (Find eq_refl) as (Hmb & Hmnb).
    split; [exact Hnd|]. exists r, rest. repeat split; assumption.
  - destruct indiff as [ind|]; [|exact Hst].
    pose proof (both_ne st ind (proj1 Hind) Hst) as B. destruct (both' st ind) as [st' succ]. exact B.
  - pose proof (potential_ne st nd true Hnd Hst) as P1. destruct (potential' st nd true) as [st' sols]. cbn [fst] in P1.
    destruct (fold_left _ sols (best, [])) as [best' kept]. exact P1.
  - pose proof (potential_ne st nd false Hnd Hst) as P1. destruct (potential' st nd false) as [st' succ]. cbn [fst] in P1.
    apply Hafter; [exact P1|exact Hind].
Qed.

Lemma walk_ne : forall f1 f2 nd indiff best st,
  node_ok lv d0 nd -> oindiff_ok lv d0 indiff -> noerr st -> noerr (snd (walk' f1 f2 nd indiff best st)).
Proof.
  induction f1 as [|f1 IH1]; induction f2 as [|f2 IH2]; intros nd indiff best st Hnd Hind Hst; try exact Hst.
  - cbn [walk]. pose proof (walk_step_ne nd indiff best st Hnd Hind Hst) as S1.
    pose proof (walk_step_ok W lvs child_solve lv d0 nd indiff best st Hnd Hind) as S2.
    destruct (walk_step' nd indiff best st) as [[s best'] st']. cbn [fst snd] in *.
    destruct s as [r|n i|n]; cbn [snd]; [exact S1| |exact S1]. destruct S2 as (Hn & Hi). apply IH2; assumption.
  - cbn [walk]. pose proof (walk_step_ne nd indiff best st Hnd Hind Hst) as S1.
    pose proof (walk_step_ok W lvs child_solve lv d0 nd indiff best st Hnd Hind) as S2.
    destruct (walk_step' nd indiff best st) as [[s best'] st']. cbn [fst snd] in *.
    destruct s as [r|n i|n]; cbn [snd]; [exact S1| |].
    + destruct S2 as (Hn & Hi). apply IH2; assumption.
    + apply IH1; [exact S2|exact I|exact S1].
Qed.

Lemma main_loop_ne : forall fuel h iter best st,
  (N.to_nat iter <= N.to_nat (w_iter W) + 1)%nat ->
  (N.to_nat (w_iter W) + 2 < fuel + N.to_nat iter)%nat ->
  heap_all (node_ok lv d0) h -> noerr st ->
  noerr (fst (main_loop W lvs child_solve lv fuel h iter best st)).
Proof.
  induction fuel as [|f IH]; intros h iter best st Hi Hf Hh Hst; [lia|].
  cbn [main_loop]. destruct (heap_pop h) as [[nd h']|] eqn:Epop; [|exact Hst].
  destruct (heap_pop_all (node_ok lv d0) h nd h' Hh Epop) as (Hnd & Hh').
  destruct (w_iter W <? iter) eqn:Elim; [exact Hst|].
  apply N.ltb_ge in Elim.
  assert (Hi' : (N.to_nat (iter + 1) <= N.to_nat (w_iter W) + 1)%nat) by lia.
  assert (Hf' : (N.to_nat (w_iter W) + 2 < f + N.to_nat (iter + 1))%nat) by lia.
  destruct (n_rest nd) as [|r rest] eqn:Hrest; [exact Hst|].
  destruct (best_at best (N.to_nat (N.pred (n_nli nd))) <? n_pen nd); [apply IH; assumption|].
  pose proof (walk_no_fuel W lvs child_solve lv (S (length (r :: rest))) (S (length (r :: rest))) nd None best st) as Hw.
  unfold base, len in Hw. rewrite Hrest in Hw. specialize (Hw ltac:(lia) ltac:(lia) ltac:(lia)).
  pose proof (walk_ne (S (length (r :: rest))) (S (length (r :: rest))) nd None best st Hnd I Hst) as Hne.
  pose proof (walk_ok W lvs child_solve lv d0 (S (length (r :: rest))) (S (length (r :: rest))) nd None best st Hnd I) as Hok.
  destruct (walk' (S (length (r :: rest))) (S (length (r :: rest))) nd None best st) as [[res best'] st'].
  cbn [fst snd] in *. destruct res as [n|l| |].
  - apply IH; try assumption. apply heap_push_all; assumption.
  - apply IH; try assumption. apply heap_extend_all; assumption.
  - apply IH; assumption.
  - congruence.
Qed.
End NoErr.

Lemma find_optimal_solution_ne W lvs child_solve lv st ws first :
  Forall (rec_later (lv_idx lv)) (lv_recs lv) ->
  (forall st lv' ws fd k, nth_error lvs k = Some lv' -> (lv_idx lv < k)%nat -> noerr st -> noerr (fst (child_solve st lv' ws fd))) ->
  noerr st -> noerr (fst (find_optimal_solution W lvs (main_fuel W) child_solve lv st ws first)).
Proof.
  intros Hrecs Hchild Hst. unfold find_optimal_solution. destruct (lv_recs lv) as [|r rest] eqn:Hr; [exact Hst|].
  set (fb := match first with FD_Break => _ | FD_Continue line_length can_break => _ end).
  destruct fb as [[is_break lll] bcb] eqn:Efb.
  assert (Hbrk : is_break = true -> tr_inv r <> Some DR_MustNotBreak).
  { subst fb. destruct first as [|ll cb].
    - unfold bid in Efb. destruct (tr_inv r) as [[]|]; injection Efb as <- _ _; intros; congruence.
    - injection Efb as <- _ _. discriminate. }
  unfold bid. destruct (match tr_inv r with Some DR_MustBreak => true | _ => false end && negb is_break) eqn:Einv; [exact Hst|].
  assert (Hr0 : rec_later (lv_idx lv) r) by (inversion Hrecs; assumption).
  match goal with |- context [child_lines_solutions W lvs child_solve st (lv_idx lv) r ?c ?d ?e ?f ?g ?h ?i ?j] =>
    pose proof (child_lines_solutions_ne W lvs child_solve lv Hchild st r c d e f g h i j Hr0 Hst) as H1;
    destruct (child_lines_solutions W lvs child_solve st (lv_idx lv) r c d e f g h i j) as [st1 sols] end.
  cbn [fst] in H1.
  apply (main_loop_ne W lvs child_solve lv (if is_break then WBreak 0 else WContinue)); try assumption.
  - rewrite Hr. exact Hrecs.
  - cbn. lia.
  - unfold main_fuel. cbn. lia.
  - apply heap_extend_all; [exact I|].
    apply Forall_forall. intros n Hn. apply in_map_iff in Hn. destruct Hn as (k & <- & _).
    exists [r], []. cbn [n_rest n_decs rev app map td_dec]. repeat split.
    + symmetry; exact Hr.
    + constructor; [|constructor]. cbn [td_dec]. destruct is_break.
      * specialize (Hbrk eq_refl). destruct (tr_inv r) as [[]|]; cbn; try exact I. congruence.
      * rewrite andb_true_r in Einv. destruct (tr_inv r) as [[]|]; cbn; try exact I. discriminate.
Qed.

(* the depth fuel: (number of lines - index of the line) + 1 levels suffice *)
Theorem solve_no_fuel_err W lvs : views_wf lvs -> forall depth st lv i ws first,
  nth_error lvs i = Some lv -> (length lvs - i < depth)%nat -> noerr st ->
  noerr (fst (solve W lvs (main_fuel W) depth st lv ws first)).
Proof.
  intros Hwf. induction depth as [|k IH]; intros st lv i ws first Hi Hd Hst; [lia|].
  cbn [solve]. destruct (Hwf i lv Hi) as (Hidx & Hrecs).
  pose proof (find_optimal_solution_ne W lvs (solve W lvs (main_fuel W) k) lv st ws first) as H.
  rewrite Hidx in H. specialize (H Hrecs).
  destruct (find_optimal_solution W lvs (main_fuel W) (solve W lvs (main_fuel W) k) lv st ws first) as [st1 res].
  cbn [fst] in *. apply H; [|exact Hst].
  intros st0 lv' ws0 fd k' Hk' Hlt Hst0. apply (IH st0 lv' k' ws0 fd Hk'); [|exact Hst0].
  assert (k' < length lvs)%nat by (apply nth_error_Some; congruence). lia.
Qed.

Lemma sst_log_fold_ne evs : forall st, noerr st -> noerr (fold_left (fun st e => sst_log e st) evs st).
Proof. induction evs as [|e r IH]; intros st H; [exact H|]. cbn [fold_left]. apply IH. exact H. Qed.

Theorem format_top_no_fuel_err W lvs : views_wf lvs -> forall st lv i,
  nth_error lvs i = Some lv -> noerr st -> noerr (format_top W lvs (main_fuel W) (S (length lvs)) st lv).
Proof.
  intros Hwf st lv i Hi Hst. unfold format_top. unfold bid. destruct (match lv_type lv with LLT_AsmInstruction => true | _ => false end); [exact Hst|].
  match goal with |- context [solve W lvs ?fm ?d st lv ?ws ?fd] =>
    pose proof (solve_no_fuel_err W lvs Hwf d st lv i ws fd Hi ltac:(lia) Hst) as H; destruct (solve W lvs fm d st lv ws fd) as [st1 r] end.
  cbn [fst] in H. destruct r as [s|]; [|exact H]. apply sst_log_fold_ne. exact H.
Qed.

(* the whole phase, with the views and the fuel the model builds itself *)
Theorem wrap_phase_no_fuel_err W infos lines which st :
  parents_ok lines = true -> noerr st -> noerr (wrap_phase W infos lines which st).
Proof.
  intros Hp Hst. unfold wrap_phase.
  pose proof (mk_lviews_wf infos lines Hp) as Hwf. pose proof (mk_lviews_length infos lines) as Hlen.
  set (lvs := mk_lviews infos lines) in *. rewrite <- Hlen.
  assert (Hgen : forall l st0, (forall lv, In lv l -> exists i, nth_error lvs i = Some lv) -> noerr st0 ->
            noerr (fold_left (fun st1 lv => if which lv then format_top W lvs (main_fuel W) (S (length lvs)) st1 lv else st1) l st0)).
  { induction l as [|lv r IH]; intros st0 Hin H0; [exact H0|]. cbn [fold_left]. apply IH.
    - intros lv' H'. apply Hin. right; exact H'.
    - destruct (which lv); [|exact H0]. destruct (Hin lv (or_introl eq_refl)) as (i & Hi). eapply format_top_no_fuel_err; eassumption. }
  apply Hgen; [|exact Hst]. intros lv Hin. apply In_nth_error. exact Hin.
Qed.

Corollary wrap_phase1_no_fuel_err W infos lines : parents_ok lines = true -> ss_fuel_err (wrap_phase1 W infos lines) = false.
Proof. intros H. apply wrap_phase_no_fuel_err; [exact H|reflexivity]. Qed.

(* the whole OptimisingLineFormatter::format model never reports exhausted fuel *)
Corollary olf_model_no_fuel_err rs W format_ml lines l :
  parents_ok lines = true -> snd (olf_model rs W format_ml lines l) = false.
Proof.
  intros Hp. unfold olf_model.
  pose proof (wrap_phase1_no_fuel_err W (map tokinfo_of l) lines Hp) as H1.
  destruct format_ml; [|cbn [snd]; exact H1].
  destruct (ml_lines rs lines lines 0 _ []) as [b refl].
  destruct (fold_left (fun acc x => insert_unique x acc) refl []) as [|x r]; [cbn [snd]; exact H1|].
  cbn [snd]. unfold wrap_phase2. apply wrap_phase_no_fuel_err; [exact Hp|exact H1].
Qed.

Print Assumptions wrap_phase1_no_fuel_err.
Print Assumptions olf_model_no_fuel_err.
