(* Proofs/WrapFindingsProofs.v — the listed findings about the search (F24, F26, F30 of C11; F42 of C08) as witness theorems of
   the search model, by computation.  The inputs are those of known_findings.json, turned into the model's inputs from the
   implementation's own trace by tools/trace2coq.py (token types, spaces, lengths; the logical lines the wrapper sees).
   Each theorem says that the clause of the property it names is FALSE of the search as it is (the unit `search` ties the
   model to the implementation on every case, these inputs included: stream witness-F..). *)
From PasfmtVerif Require Import Model.WrapSearch Model.WrapFormat Proofs.WrapTieProofs.

Definition breaks_of (st : sst) : nat :=
  length (filter (fun d : N * option (bool * N * N) => match snd d with Some _ => true | None => false end) (decisions_of st)).
Definition all_within (w : N) (st : sst) : bool := forallb (fun l => (l <=? w)%N) (lengths_of st).
Definition outcome_of (st : sst) (line : nat) : option ws_outcome :=
  fold_left (fun acc e => match e with Ev_S l o => if Nat.eqb l line then Some o else acc | _ => acc end) (rev (ss_log st)) None.

(* ---- F26: `function Value(Data: TList<Integer>): Boolean;` tab_width 8, continuation_indents 3 (whitespace units 8 and 24 bytes) *)
Definition f26_infos : list tokinfo :=
  [mkTI (TT_Keyword KK_Function) 0 8 None;
   mkTI TT_Identifier 1 5 None;
   mkTI (TT_Op OK_LParen) 0 1 None;
   mkTI TT_Identifier 0 4 None;
   mkTI (TT_Op OK_Colon) 0 1 None;
   mkTI TT_Identifier 1 5 None;
   mkTI (TT_Op (OK_LessThan ChK_Generic)) 0 1 None;
   mkTI TT_Identifier 0 7 None;
   mkTI (TT_Op (OK_GreaterThan ChK_Generic)) 0 1 None;
   mkTI (TT_Op OK_RParen) 0 1 None;
   mkTI (TT_Op OK_Colon) 0 1 None;
   mkTI TT_Identifier 1 7 None;
   mkTI (TT_Op OK_Semicolon) 0 1 None;
   mkTI (TT_Keyword KK_Begin) 1 5 None;
   mkTI (TT_Keyword KK_End) 1 3 None;
   mkTI (TT_Op OK_Semicolon) 0 1 None;
   mkTI TT_Eof 0 0 None].
Definition f26_lines : list lline :=
  [mkLine LLT_RoutineHeader 0 None [0; 1; 2; 3; 4; 5; 6; 7; 8; 9; 10; 11; 12]%nat;
   mkLine LLT_Unknown 0 None [13]%nat;
   mkLine LLT_Unknown 0 None [14; 15]%nat;
   mkLine LLT_Eof 0 None [16]%nat].
Definition f26_run (w : N) : sst := wrap_phase1 (mkWS w 20000 true 8 24) f26_infos f26_lines.

(* clause 2 ("widening wrap_column never increases the number of output lines") is false although NOTHING overflows under
   either limit: at 40 the header is solved with penalty 256 (one expensive break), at 45 with penalty 6 (two cheap ones) *)
Theorem wider_limit_more_breaks_without_overflow_F26 :
  all_within 40 (f26_run 40) = true /\ all_within 45 (f26_run 45) = true /\
  breaks_of (f26_run 40) = 3%nat /\ breaks_of (f26_run 45) = 4%nat /\
  penalty_of (f26_run 40) 0 = Some 256%N /\ penalty_of (f26_run 45) 0 = Some 6%N.
Proof. vm_compute. repeat split; reflexivity. Qed.

(* ---- F24: `Foo<T> = class abstract`, tab_width 2, continuation_indents 3 (units 2 and 6 bytes) *)
Definition f24_infos : list tokinfo :=
  [mkTI (TT_Keyword KK_Type) 0 4 None;
   mkTI TT_Identifier 1 3 None;
   mkTI (TT_Op (OK_LessThan ChK_Generic)) 0 1 None;
   mkTI TT_Identifier 0 1 None;
   mkTI (TT_Op (OK_GreaterThan ChK_Generic)) 0 1 None;
   mkTI (TT_Op (OK_Equal EK_Decl)) 1 1 None;
   mkTI (TT_Keyword KK_Class) 1 5 None;
   mkTI (TT_Keyword KK_Abstract) 1 8 None;
   mkTI (TT_Keyword KK_Public) 1 6 None;
   mkTI (TT_Keyword KK_Procedure) 1 9 None;
   mkTI TT_Identifier 1 3 None;
   mkTI (TT_Op OK_Semicolon) 0 1 None;
   mkTI (TT_Keyword KK_End) 1 3 None;
   mkTI (TT_Op OK_Semicolon) 0 1 None;
   mkTI TT_Eof 0 0 None].
Definition f24_lines : list lline :=
  [mkLine LLT_Unknown 0 None [0]%nat;
   mkLine LLT_Declaration 1 None [1; 2; 3; 4; 5; 6; 7]%nat;
   mkLine LLT_Unknown 1 None [8]%nat;
   mkLine LLT_RoutineHeader 2 None [9; 10; 11]%nat;
   mkLine LLT_Unknown 1 None [12; 13]%nat;
   mkLine LLT_Eof 0 None [14]%nat].
Definition f24_run (w : N) : sst := wrap_phase1 (mkWS w 20000 false 2 6) f24_infos f24_lines.

(* clause 2 in the forced-overflow regime: at 16 a line overflows whatever is done (penalty above 2^20), at 20 nothing does and
   one more break is taken *)
Theorem wider_limit_more_breaks_in_overflow_regime_F24 :
  all_within 16 (f24_run 16) = false /\ all_within 20 (f24_run 20) = true /\
  breaks_of (f24_run 16) = 5%nat /\ breaks_of (f24_run 20) = 6%nat /\
  penalty_of (f24_run 16) 1 = Some 1048600%N /\ penalty_of (f24_run 20) 1 = Some 2051%N.
Proof. vm_compute. repeat split; reflexivity. Qed.

(* ---- F30: variant-record arm `BBBBB: //` with the inline child line `(BBBBBBB, CCCCCCC);`, tab_width 1, continuation_indents 0 *)
Definition f30_infos : list tokinfo :=
  [mkTI (TT_Keyword KK_Type) 0 4 None;
   mkTI TT_Identifier 1 4 None;
   mkTI (TT_Op (OK_Equal EK_Decl)) 1 1 None;
   mkTI (TT_Keyword KK_Record) 1 6 None;
   mkTI (TT_Keyword KK_Case) 1 4 None;
   mkTI TT_Identifier 1 5 None;
   mkTI (TT_Keyword KK_Of) 1 2 None;
   mkTI TT_Identifier 1 5 None;
   mkTI (TT_Op OK_Colon) 0 1 None;
   mkTI (TT_Comment CoK_InlineLine) 1 2 None;
   mkTI (TT_Op OK_LParen) 8 1 None;
   mkTI TT_Identifier 0 7 None;
   mkTI (TT_Op OK_Comma) 0 1 None;
   mkTI TT_Identifier 1 7 None;
   mkTI (TT_Op OK_RParen) 0 1 None;
   mkTI (TT_Op OK_Semicolon) 0 1 None;
   mkTI (TT_Keyword KK_End) 1 3 None;
   mkTI (TT_Op OK_Semicolon) 0 1 None;
   mkTI TT_Eof 0 0 None].
Definition f30_lines : list lline :=
  [mkLine LLT_Unknown 0 None [0]%nat;
   mkLine LLT_Declaration 1 None [1; 2; 3]%nat;
   mkLine LLT_CaseHeader 1 None [4; 5; 6]%nat;
   mkLine LLT_VariantRecordCaseArm 2 None [7; 8; 9; 10; 14; 15]%nat;
   mkLine LLT_Declaration 1 (Some (3, 10)%nat) [11; 12; 13]%nat;
   mkLine LLT_Unknown 1 None [16; 17]%nat;
   mkLine LLT_Eof 0 None [18]%nat].
Definition f30_run (w : N) : sst := wrap_phase1 (mkWS w 20000 false 1 0) f30_infos f30_lines.

(* clause 3 ("if every line fits at some wrap_column then every line also fits at any larger one") is false: at 18 every
   measured length is within 18, at 19 the search returns a solution with a length above 19 (and pays two megapenalties for it) *)
Theorem fits_at_narrow_limit_not_at_wider_F30 :
  all_within 18 (f30_run 18) = true /\ all_within 19 (f30_run 19) = false /\
  penalty_of (f30_run 19) 3 = Some 2097167%N.
Proof. vm_compute. repeat split; reflexivity. Qed.

(* ---- F42: `A of B: C else D;` (ill-formed: a case arm without its `case`) *)
Definition f42_infos : list tokinfo :=
  [mkTI TT_Identifier 0 1 None;
   mkTI (TT_Keyword KK_Of) 1 2 None;
   mkTI TT_Identifier 1 1 None;
   mkTI (TT_Op OK_Colon) 0 1 None;
   mkTI TT_Identifier 1 1 None;
   mkTI (TT_Keyword KK_Else) 1 4 None;
   mkTI TT_Identifier 1 1 None;
   mkTI (TT_Op OK_Semicolon) 0 1 None;
   mkTI TT_Eof 0 0 None].
Definition f42_lines : list lline :=
  [mkLine LLT_Unknown 0 None [0; 1; 2; 3; 4; 5; 6; 7]%nat;
   mkLine LLT_Eof 0 None [8]%nat].
Definition f42_run : sst := wrap_phase1 (mkWS 120 20000 false 2 2) f42_infos f42_lines.

(* the search has NO solution for the line (conflicting requirements), so no token of it gets a decision: its tokens keep the
   counters they came with (C08: the source layout survives) *)
Theorem line_without_solution_gets_no_decision_F42 :
  ss_fuel_err f42_run = false /\ outcome_of f42_run 0 = Some (WS_none 1%N) /\ decisions_of f42_run = [].
Proof. vm_compute. repeat split; reflexivity. Qed.
