(* Proofs/WrapOptimalityProofs.v — is "fits" decided optimally?  NO: the best-first search is not optimal with respect
   to the overflow term.  Witness (known finding F30):
       type
         TFoo = record
         case AAAAA of
           BBBBB: //
               (BBBBBBB, CCCCCCC);
         end;
   tab_width 1, continuation_indents 0.  The variant-record arm line (`BBBBB : // ( ) ;` with the child line
   `BBBBBBB , CCCCCCC` under the `(`) is solved in 4 iterations (far from the iteration limit):
     at max_line_length 19 the returned solution has penalty 2 * 2^20 + 15: two continuing tokens measured at 20, 21;
     at max_line_length 18 the returned solution has penalty 9 and every continuing token, at any depth, is within 18.
   The measured lengths do not depend on max_line_length, so the decisions returned at 18 are an assignment that
   respects the invariants (solve_ok) and keeps every continued token within 19: optimality_refuted.
   Where it is lost: the token after the `//` comment MustBreak; the successors of a MustBreak token are kept only if
   their penalty is below best_penalties[token] (mod.rs: `if node.penalty < best_penalties[line_index]`), and a popped
   node is dropped if its penalty exceeds best_penalties of its last token.  At 19 the cheaper alternative at that
   token (child line continued: `(BBBBBBB, CCCCCCC` inline) sets the best penalty; the dearer one (child line broken),
   the only one whose closers `)` `;` later fit, is pruned before the closers are measured. *)
From PasfmtVerif Require Import Model.WrapSearch Model.WrapFormat Proofs.WrapSearchProofs Proofs.WrapFitsProofs.

Definition f30_infos : list tokinfo :=
  [mkTI (TT_Keyword KK_Type) 0 4 None;
   mkTI TT_Identifier 1 4 None;
   mkTI (TT_Op (OK_Equal EK_Decl)) 1 1 None;
   mkTI (TT_Keyword KK_Record) 1 6 None;
   mkTI (TT_Keyword KK_Case) 1 4 None;
   mkTI TT_Identifier 1 5 None;
   mkTI (TT_Keyword KK_Of) 1 2 None;
   mkTI TT_Identifier 1 5 None;
   mkTI (TT_Op OK_Colon) 0 1 None;
   mkTI (TT_Comment CoK_InlineLine) 1 2 None;
   mkTI (TT_Op OK_LParen) 8 1 None;
   mkTI TT_Identifier 0 7 None;
   mkTI (TT_Op OK_Comma) 0 1 None;
   mkTI TT_Identifier 1 7 None;
   mkTI (TT_Op OK_RParen) 0 1 None;
   mkTI (TT_Op OK_Semicolon) 0 1 None;
   mkTI (TT_Keyword KK_End) 1 3 None;
   mkTI (TT_Op OK_Semicolon) 0 1 None;
   mkTI TT_Eof 0 0 None].
Definition f30_lines : list lline :=
  [mkLine LLT_Unknown 0 None [0]%nat;
   mkLine LLT_Declaration 1 None [1; 2; 3]%nat;
   mkLine LLT_CaseHeader 1 None [4; 5; 6]%nat;
   mkLine LLT_VariantRecordCaseArm 2 None [7; 8; 9; 10; 14; 15]%nat;
   mkLine LLT_Declaration 1 (Some (3, 10)%nat) [11; 12; 13]%nat;
   mkLine LLT_Unknown 1 None [16; 17]%nat;
   mkLine LLT_Eof 0 None [18]%nat].

Definition f30_W (max : N) : wsettings := mkWS max 200 false 1 0.
Definition f30_lvs := mk_lviews f30_infos f30_lines.

(* all continuing decisions, at any depth, within the limit *)
Fixpoint cont_within (max : N) (s : solution) {struct s} : bool :=
  match s with
  | Sol _ _ decs _ _ =>
      (fix go (ds : list tdec) : bool :=
         match ds with
         | [] => true
         | TDec d lll kids :: r =>
             match d with WContinue => lll <=? max | WBreak _ => true end
             && (fix gk (ks : list (nat * solution)) : bool :=
                   match ks with [] => true | (_, s') :: kr => cont_within max s' && gk kr end) kids
             && go r
         end) decs
  end.

Example f30_at_19 :
  match nth_error f30_lvs 3 with
  | Some lv => match solve (f30_W 19) f30_lvs (main_fuel (f30_W 19)) 8 sst_init lv (2, 0) FD_Break with
               | (st, Some s) => sol_pen s = 2097167 /\ cont_within 19 s = false
                                 /\ rev (ss_log st) = [Ev_S 4 (WS_ok 3 2 19); Ev_S 4 (WS_ok 0 2 19); Ev_S 3 (WS_ok 2097167 4 21)]
               | _ => False
               end
  | None => False
  end.
Proof. vm_compute. repeat split; reflexivity. Qed.

Example f30_at_18 :
  match nth_error f30_lvs 3 with
  | Some lv => match solve (f30_W 18) f30_lvs (main_fuel (f30_W 18)) 8 sst_init lv (2, 0) FD_Break with
               | (_, Some s) => sol_pen s < 1048576 /\ cont_within 18 s = true /\ cont_within 19 s = true
               | _ => False
               end
  | None => False
  end.
Proof. vm_compute. repeat split; reflexivity. Qed.

(* the statement "if some admissible assignment keeps every continued token within the limit then the returned penalty is
   below 2^20 unless the iteration limit was hit" is false: *)
Theorem optimality_refuted :
  exists lv s19 st19 s18 st18,
    nth_error f30_lvs 3 = Some lv
    /\ solve (f30_W 19) f30_lvs (main_fuel (f30_W 19)) 8 sst_init lv (2, 0) FD_Break = (st19, Some s19)
    /\ 1048576 <= sol_pen s19                                       (* the search at 19 overflows *)
    /\ (forall l n, ~ In (Ev_S l (WS_limit n)) (ss_log st19))        (* no iteration limit *)
    /\ solve (f30_W 18) f30_lvs (main_fuel (f30_W 18)) 8 sst_init lv (2, 0) FD_Break = (st18, Some s18)
    /\ cont_within 19 s18 = true                                    (* another assignment fits 19 *)
    /\ match lv_recs lv with r :: _ => sol_ok lv (first_dec FD_Break (tr_inv r)) s18 | [] => True end.   (* and is admissible *)
Proof.
  destruct (nth_error f30_lvs 3) as [lv|] eqn:Elv; [|vm_compute in Elv; discriminate].
  destruct (solve (f30_W 19) f30_lvs (main_fuel (f30_W 19)) 8 sst_init lv (2, 0) FD_Break) as [st19 [s19|]] eqn:E19;
    [|exfalso; revert E19; injection Elv as <-; vm_compute; discriminate].
  destruct (solve (f30_W 18) f30_lvs (main_fuel (f30_W 18)) 8 sst_init lv (2, 0) FD_Break) as [st18 [s18|]] eqn:E18;
    [|exfalso; revert E18; injection Elv as <-; vm_compute; discriminate].
  exists lv, s19, st19, s18, st18. split; [reflexivity|]. split; [exact E19|].
  pose proof (solve_ok (f30_W 18) f30_lvs _ 8 sst_init lv (2, 0) FD_Break st18 s18 E18) as Hok.
  injection Elv as <-. revert E19 E18 Hok. vm_compute. intros E19 E18 Hok.
  injection E19 as <- <-. injection E18 as <- <-.
  split; [discriminate|]. split; [intros l n H; repeat (destruct H as [H|H]; [discriminate|]); exact H|].
  split; [reflexivity|]. split; [reflexivity|exact Hok].
Qed.

Print Assumptions optimality_refuted.
