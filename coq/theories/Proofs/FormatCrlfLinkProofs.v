(* Proofs/FormatCrlfLinkProofs.v — C09 clause 3 for the composed model with the lexer link discharged:
   the hypothesis `lex_crlf_commutes` of FormatCrlfProofs.format_crlf_input follows from a condition on the scan of the LF text
   (LexerCrlfProofs.lex_crlf): no token text contains a LF or a CR, every directive has its closing delimiter. *)
From PasfmtVerif Require Import Proofs.LexerCrlfProofs.
From PasfmtVerif Require Import Model.Format Proofs.FormatProofs Proofs.FmtDataProofs Proofs.FormatCrlfProofs.

Definition crlf_link_hyp (segs : list seg) : Prop := Forall seg_crlf_ok segs.
Definition crlf_link_hypb (segs : list seg) : bool := forallb seg_crlf_okb segs.

Lemma crlf_link_hypb_ok segs : crlf_link_hypb segs = true -> crlf_link_hyp segs.
Proof. apply segs_crlf_okb_ok. Qed.

Lemma crlf_seg3_eq : forall segs, map crlf_seg3 segs = map crlf_seg segs.
Proof. intros segs. apply map_ext. intros [[ws c] ty]. reflexivity. Qed.

(* the boolean the driver evaluates (Model/Format.v) is this one *)
Lemma crlf_link_okb_eq segs : crlf_link_okb segs = crlf_link_hypb segs.
Proof.
  unfold crlf_link_okb, crlf_link_hypb. induction segs as [|sg r IH]; [reflexivity|]. cbn [forallb]. rewrite IH. f_equal; destruct sg as [[ws [|b q]] ty]; reflexivity.
Qed.

(* the lexer link *)
Theorem lex_crlf_commutes_holds s segs : lex_segments s = Some segs -> crlf_link_hyp segs -> lex_crlf_commutes s segs.
Proof. intros Hl Hh. unfold lex_crlf_commutes. rewrite <- crlf_seg3_eq. exact (lex_crlf s segs Hl Hh). Qed.

(* C09 clause 3, end to end, without a hypothesis about the scan of the CRLF text *)
Theorem format_crlf_input_linked alnum cfg s segs :
  lex_segments s = Some segs -> crlf_link_hyp segs ->
  (forall m, In m (fm_marks segs) -> m = false) ->
  format_model alnum cfg (lf_to_crlf s) = format_model alnum cfg s.
Proof. intros Hl Hh Hm. exact (format_crlf_input alnum cfg s segs Hl (lex_crlf_commutes_holds s segs Hl Hh) Hm). Qed.

(* "begin\n  Foo(1);//c\nend." *)
Example format_crlf_input_linked_example :
  let s := [98;101;103;105;110; 10; 32;32; 70;111;111; 40; 49; 41; 59; 47;47;99; 10; 101;110;100; 46]%N in
  let cfg := mkCfg 120 false true false 2 2 true in
  format_model (fun _ => false) cfg (lf_to_crlf s) = format_model (fun _ => false) cfg s.
Proof.
  intros s cfg. destruct (lex_segments s) as [segs|] eqn:E; [|vm_compute in E; discriminate].
  apply (format_crlf_input_linked _ cfg s segs E).
  - apply crlf_link_hypb_ok. vm_compute in E. injection E as <-. vm_compute. reflexivity.
  - intros m Hm. vm_compute in E. injection E as <-. vm_compute in Hm. repeat (destruct Hm as [<-|Hm]; [reflexivity|]). destruct Hm.
Qed.

Corollary format_crlf_input_checked alnum cfg s segs :
  lex_segments s = Some segs -> crlf_link_okb segs = true -> forallb negb (fm_marks segs) = true ->
  format_model alnum cfg (lf_to_crlf s) = format_model alnum cfg s.
Proof.
  intros Hl Hb Hm. apply (format_crlf_input_linked alnum cfg s segs Hl); [apply crlf_link_hypb_ok; rewrite <- crlf_link_okb_eq; exact Hb|].
  intros m Hin. rewrite forallb_forall in Hm. specialize (Hm m Hin). destruct m; [discriminate|reflexivity].
Qed.

Print Assumptions lex_crlf_commutes_holds.
Print Assumptions format_crlf_input_linked.
