(* Proofs/WrapReadsProofs.v — what OptimisingLineFormatter::format (olf_model) reads of the incoming token vector and
   of the reconstruction settings (for C06 / C09).
   Phase 1 (the search and the application of its decisions):
     - the events (decisions, measured lengths, search outcomes) are a function of the lines, the settings W and
       `map tokinfo_of l` = per token (type, spaces_before, content length, last-line length of a multi-line token):
       not of newlines_before / indentations_before / continuations_before / the ignored flag, not of the leading
       whitespace text, not of rs (olf_phase1_events_read);
     - a decided token's final indentations_before, continuations_before and spaces_before do not depend on the incoming
       counters except spaces_before; its newlines_before does not either, unless its last decision is the break of a
       line's first token, which clamps the incoming newlines_before to 1..2 (olf_phase1_counters_read).
   Phase 2 (format_multiline_strings = true) additionally reads, of the state after phase 1: the ignored flag, the
   token type and content of every token and the indentations / continuations of multi-line strings (ml_visit), and
   all three strings of rs — rs_newline included: the re-indented text is compared with the old one to decide which
   lines are reflowed.  So independence of rs_newline holds for phase 1 only. *)
From PasfmtVerif Require Import Model.WrapSearch Model.WrapFormat Proofs.WrapEventsProofs.
From Coq Require Import Lia.

(* phase 1 of olf_model reads the token vector through tokinfo_of only *)
Theorem olf_phase1_events_read rs rs' W lines l l' :
  map tokinfo_of l = map tokinfo_of l' ->
  snd (fst (olf_model rs W false lines l)) = snd (fst (olf_model rs' W false lines l'))
  /\ snd (olf_model rs W false lines l) = snd (olf_model rs' W false lines l').
Proof. intros E. unfold olf_model. rewrite E. split; reflexivity. Qed.

(* the infos do not mention the counters other than spaces_before *)
Lemma tokinfo_of_reads (p p' : ftoken) : fst p = fst p' -> f_sp (snd p) = f_sp (snd p') -> tokinfo_of p = tokinfo_of p'.
Proof. destruct p as [tok f], p' as [tok' f']. cbn [fst snd]. intros -> E. unfold tokinfo_of. cbn [fst snd]. rewrite E. reflexivity. Qed.

Definition same_tokens_and_spaces (l l' : list ftoken) : Prop :=
  Forall2 (fun p p' : ftoken => fst p = fst p' /\ f_sp (snd p) = f_sp (snd p')) l l'.

Lemma same_infos l l' : same_tokens_and_spaces l l' -> map tokinfo_of l = map tokinfo_of l'.
Proof. induction 1 as [|p p' r r' (H1 & H2) Hr IH]; [reflexivity|]. cbn [map]. rewrite IH, (tokinfo_of_reads p p' H1 H2). reflexivity. Qed.

Definition is_first_break (d : decision) : bool := match d with DBreak true _ _ => true | _ => false end.

Lemma apply_last_reads ds d f f' : f_sp f = f_sp f' ->
  let g := fold_left apply_decision (ds ++ [d]) f in
  let g' := fold_left apply_decision (ds ++ [d]) f' in
  f_ind g = f_ind g' /\ f_cont g = f_cont g' /\ f_sp g = f_sp g' /\ ((0 <? f_nl g) = (0 <? f_nl g')) /\ (is_first_break d = false -> f_nl g = f_nl g').
Proof.
  intros Hsp g g'. subst g g'. rewrite !fold_left_app. cbn [fold_left].
  assert (Hs : forall ds0 f0 f0', f_sp f0 = f_sp f0' -> f_sp (fold_left apply_decision ds0 f0) = f_sp (fold_left apply_decision ds0 f0')).
  { induction ds0 as [|x r IH]; intros f0 f0' H0; [exact H0|]. cbn [fold_left]. apply IH. destruct x; exact H0. }
  specialize (Hs ds f f' Hsp). destruct d as [[|] ind cont|]; cbn [apply_decision f_ind f_cont f_sp f_nl is_first_break];
    repeat split; try assumption; try reflexivity; try discriminate.
  pose proof (clamp12_pos (f_nl (fold_left apply_decision ds f))) as P1. pose proof (clamp12_pos (f_nl (fold_left apply_decision ds f'))) as P2.
  apply N.ltb_lt in P1, P2. rewrite P1, P2. reflexivity.
Qed.

Lemma zero_line_starts_nth' l t : nth_error (zero_line_starts l) t =
  option_map (fun p : ftoken => let (tok, f) := p in if 0 <? f_nl f then (tok, mkFmt (f_ignored f) (f_nl f) (f_ind f) (f_cont f) 0) else p) (nth_error l t).
Proof. unfold zero_line_starts. apply nth_error_map. Qed.

(* the counters of a decided token after phase 1 *)
Theorem olf_phase1_counters_read rs rs' W lines l l' t tok f tok' f' :
  same_tokens_and_spaces l l' ->
  let plan := plan_of_events (rev (ss_log (wrap_phase1 W (map tokinfo_of l) lines))) in
  nth_error (fst (fst (olf_model rs W false lines l))) t = Some (tok, f) ->
  nth_error (fst (fst (olf_model rs' W false lines l'))) t = Some (tok', f') ->
  decs_for t plan <> [] ->
  tok = tok' /\ f_ind f = f_ind f' /\ f_cont f = f_cont f' /\ f_sp f = f_sp f' /\ ((0 <? f_nl f) = (0 <? f_nl f'))
  /\ (forall ds d, decs_for t plan = ds ++ [d] -> is_first_break d = false -> f_nl f = f_nl f').
Proof.
  intros Hsame plan. unfold olf_model. cbn [fst]. rewrite <- (same_infos l l' Hsame). fold plan.
  rewrite !zero_line_starts_nth', !apply_plan_nth. intros H H' Hd.
  assert (Hn : match nth_error l t, nth_error l' t with Some p, Some p' => fst p = fst p' /\ f_sp (snd p) = f_sp (snd p') | None, None => True | _, _ => False end).
  { clear -Hsame. revert t. induction Hsame as [|p p' r r' Hp Hr IH]; intros [|t]; cbn [nth_error]; try exact I; [exact Hp|apply IH]. }
  destruct (nth_error l t) as [[tk0 f0]|]; destruct (nth_error l' t) as [[tk0' f0']|]; try contradiction; try discriminate.
  cbn [fst snd] in Hn. destruct Hn as (-> & Hsp). cbn [option_map fst snd] in H, H'.
  destruct (exists_last Hd) as (ds & d & Hds). rewrite Hds in H, H'.
  destruct (apply_last_reads ds d f0 f0' Hsp) as (A1 & A2 & A3 & A4 & A5). cbn zeta in *.
  set (g := fold_left apply_decision (ds ++ [d]) f0) in *. set (g' := fold_left apply_decision (ds ++ [d]) f0') in *.
  assert (Hlast : forall ds2 d2, ds ++ [d] = ds2 ++ [d2] -> is_first_break d2 = false -> f_nl g = f_nl g')
    by (intros ds2 d2 E2 Hfb; apply app_inj_tail in E2; destruct E2 as (_ & <-); exact (A5 Hfb)).
  rewrite <- A4 in H'. destruct (0 <? f_nl g) eqn:Enl; injection H as <- <-; injection H' as <- <-; cbn [f_ind f_cont f_sp f_nl];
    (split; [reflexivity|]); (split; [exact A1|]); (split; [exact A2|]); (split; [first [reflexivity|exact A3]|]); (split; [rewrite Enl; exact A4|]);
    intros ds2 d2 E2 Hfb; rewrite Hds in E2; exact (Hlast ds2 d2 E2 Hfb).
Qed.

Print Assumptions olf_phase1_counters_read.
