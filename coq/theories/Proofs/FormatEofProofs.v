(* Proofs/FormatEofProofs.v — C14/C08, the end of the output, with hypotheses about the LINES only.

   olf_model_effect_src (with plan1_src): every token the line wrapper decides (in either phase) lies in a line that is formatted as a top-level
   line (lv_top in phase 1, a reflowed line in phase 2) or in a line that has a PARENT — because the child solutions of every
   solution, at every depth and from the cache, sit on lines that a record lists as child lines (WrapKidsProofs.solve_kids), and
   get_line_children only lists lines with a parent (line_children_have_parent).
   Hence (olf_model_keeps_lone_token): a token that is only in parentless lines which are neither formatted top-level lines nor
   reflowed keeps its counters through the wrapper.  For the Eof token of a composed run: if the lines the wrapper gets hold it only
   in parentless Eof lines [e] that are nobody's parent (eof_lines_ok: decidable, about the parse), an Eof line exists, and the
   Eof token is not ignored, then the output is the text of the other tokens followed by exactly ONE configured line ending
   (format_ends_with_one_newline). *)
From Coq Require Import Lia.
From PasfmtVerif Require Import Proofs.LexerProofs.
From PasfmtVerif Require Import Model.Format Model.Canon Proofs.FormatProofs Proofs.FormatWrapProofs Proofs.FormatIgnoredProofs
  Proofs.FormatLayoutProofs Proofs.WrapApplyProofs Proofs.WrapSearchProofs Proofs.WrapDepthProofs Proofs.WrapEventsProofs
  Proofs.WrapKidsProofs Proofs.ReconstructProofs.
Local Open Scope nat_scope.

(* ------------------------------------------------------------------ *)
(* 1. where decision events come from *)
Section Src.
Variable lvs : list lview.
Variable Pk : nat -> Prop.
Variable which : lview -> bool.
Hypothesis Hviews : forall lv, In lv lvs -> Forall (rec_from Pk) (lv_recs lv).

(* token g lies in a formatted top-level line or in a line with the property *)
Definition src (g : N) : Prop := exists k lv, nth_error lvs k = Some lv /\ In g (lv_gtoks lv) /\ (which lv = true \/ Pk k).
Definition ev_src (e : event) : Prop := match e with Ev_D t _ _ _ => src t | _ => True end.

Lemma sol_from_ind' (P : solution -> Prop) :
  (forall s, (forall t k s', In t (sol_decs s) -> In (k, s') (td_kids t) -> Pk k /\ sol_from Pk s' /\ P s') -> P s) ->
  forall s, sol_from Pk s -> P s.
Proof.
  intros Hstep. refine (fix F s (H : sol_from Pk s) {struct H} : P s := _).
  destruct H as [s Hk]. apply Hstep. intros t k s' H1 H2. destruct (Hk t k s' H1 H2) as (a & b). split; [exact a|]. split; [exact b|exact (F s' b)].
Qed.

Lemma recon_go_src ind cont : forall ds toks first,
  (forall g, In g toks -> src g) ->
  (forall t k s', In t ds -> In (k, s') (td_kids t) ->
     Pk k /\ (forall toks', (forall g, In g toks' -> src g) -> Forall ev_src (recon_events lvs s' toks'))) ->
  Forall ev_src (recon_go lvs ind cont ds toks first).
Proof.
  induction ds as [|t ds IH]; intros toks first Htoks Hkids; [constructor|].
  destruct toks as [|g toks']; [constructor|]. cbn [recon_go]. constructor; [apply Htoks; left; reflexivity|].
  apply Forall_app. split.
  - assert (Hk : forall k s', In (k, s') (td_kids t) -> Pk k /\ (forall toks', (forall g, In g toks' -> src g) -> Forall ev_src (recon_events lvs s' toks')))
      by (intros k s' H; apply (Hkids t k s'); [left; reflexivity|exact H]).
    clear Hkids IH. induction (td_kids t) as [|[k s'] kr IHk]; [constructor|]. cbn [recon_kids fst snd]. apply Forall_app. split.
    + destruct (Hk k s' (or_introl eq_refl)) as (HP & Hev). apply Hev. unfold gtoks_of. intros g0 Hg.
      destruct (nth_error lvs k) as [lv'|] eqn:Ek; [|destruct Hg]. exists k, lv'. split; [exact Ek|]. split; [exact Hg|right; exact HP].
    + apply IHk. intros k2 s2 H. apply Hk. right; exact H.
  - apply IH; [intros g' Hg'; apply Htoks; right; exact Hg'|]. intros t0 k s' H1 H2. apply (Hkids t0 k s'); [right; exact H1|exact H2].
Qed.

Theorem recon_events_src : forall s, sol_from Pk s -> forall toks, (forall g, In g toks -> src g) -> Forall ev_src (recon_events lvs s toks).
Proof.
  apply (sol_from_ind' (fun s => forall toks, (forall g, In g toks -> src g) -> Forall ev_src (recon_events lvs s toks))).
  intros [ind cont decs p l] Hkids toks Htoks. rewrite recon_events_eq. cbn [sol_decs] in Hkids.
  apply recon_go_src; [exact Htoks|]. intros t k s' Ht Hk. destruct (Hkids t k s' Ht Hk) as (A & _ & C). split; [exact A|exact C].
Qed.

Definition st_src (st : sst) : Prop := cache_ok Pk st /\ Forall ev_src (Dlog st).

Lemma format_top_src W fm depth st k lv :
  nth_error lvs k = Some lv -> which lv = true -> st_src st -> st_src (format_top W lvs fm depth st lv).
Proof.
  intros Hk Hw (Hc & Hl). unfold format_top. destruct (bid _); [split; assumption|].
  match goal with |- context [solve W lvs fm depth st lv ?ws ?fd] =>
    pose proof (solve_kids W lvs fm Pk Hviews depth st lv ws fd (nth_error_In _ _ Hk) Hc) as (S1 & S2);
    pose proof (state_inv_solve (fun st' => Dlog st' = Dlog st) (fun st0 l o H => H) (fun st0 k0 v H => H) (fun st0 H => H) W lvs fm depth st lv ws fd eq_refl) as S3;
    destruct (solve W lvs fm depth st lv ws fd) as [st1 r] end.
  cbn [fst snd] in *. destruct r as [s|]; [|split; [exact S1|rewrite S3; exact Hl]].
  destruct (sst_log_fold (recon_events lvs s (lv_gtoks lv)) st1) as (L1 & L2).
  split.
  - intros key v H. apply (S1 key v). rewrite <- L2. exact H.
  - unfold Dlog. rewrite L1, filter_app. apply Forall_app; split; [|fold (Dlog st1); rewrite S3; exact Hl].
    apply Forall_forall. intros e He. apply filter_In in He. destruct He as (He & _). apply in_rev in He.
    assert (Hall : Forall ev_src (recon_events lvs s (lv_gtoks lv))).
    { apply recon_events_src; [apply S2; reflexivity|]. intros g Hg. exists k, lv. split; [exact Hk|]. split; [exact Hg|left; exact Hw]. }
    rewrite Forall_forall in Hall. exact (Hall e He).
Qed.
End Src.

Lemma ev_src_mono lvs Pk (w1 w2 : lview -> bool) e : (forall lv, w1 lv = true -> w2 lv = true) -> ev_src lvs Pk w1 e -> ev_src lvs Pk w2 e.
Proof.
  intros H. destruct e as [| t d lll f |]; cbn; try exact (fun x => x).
  intros (k & lv & A & B & [C|C]); exists k, lv; split; [exact A|split; [exact B|left; apply H, C]|exact A|split; [exact B|right; exact C]].
Qed.

(* a whole phase: the lines `which` selects are formatted; the sources are stated with any `which'` that covers them *)
Theorem wrap_phase_src W infos lines Pk which which' st :
  (forall lv, which lv = true -> which' lv = true) ->
  (forall lv, In lv (mk_lviews infos lines) -> Forall (rec_from Pk) (lv_recs lv)) ->
  st_src (mk_lviews infos lines) Pk which' st -> st_src (mk_lviews infos lines) Pk which' (wrap_phase W infos lines which st).
Proof.
  intros Hsub Hviews Hst. unfold wrap_phase. set (lvs := mk_lviews infos lines) in *.
  assert (Hgen : forall l i st0, (forall j lv, nth_error l j = Some lv -> nth_error lvs (i + j) = Some lv) -> st_src lvs Pk which' st0 ->
            st_src lvs Pk which' (fold_left (fun st1 lv => if which lv then format_top W lvs (main_fuel W) (S (length lines)) st1 lv else st1) l st0)).
  { induction l as [|lv r IH]; intros i st0 Hin H0; [exact H0|]. cbn [fold_left]. apply (IH (S i)).
    - intros j lv' H'. replace (S i + j) with (i + S j) by lia. apply Hin. exact H'.
    - destruct (which lv) eqn:Ew; [|exact H0]. apply (format_top_src lvs Pk which' Hviews W _ _ st0 i lv); [|apply Hsub, Ew|exact H0].
      specialize (Hin 0 lv eq_refl). rewrite PeanoNat.Nat.add_0_r in Hin. exact Hin. }
  apply (Hgen lvs 0); [intros j lv H; exact H|exact Hst].
Qed.

(* ------------------------------------------------------------------ *)
(* 2. get_line_children only lists lines that have a parent *)
Section Children.
Variable all : list iline.
Definition has_parent_i (k : nat) : Prop := exists l p, nth_error all k = Some l /\ il_parent l = Some p.
Definition entry_par (e : ientry) : Prop := forall k, In k (snd (fst (snd e))) -> has_parent_i k.

Lemma lc_ancestors_par pmap line_index : forall fuel cur first cm,
  (first = true -> forall l p, cur = Some l -> il_parent l = Some p -> has_parent_i line_index) ->
  Forall entry_par cm -> Forall entry_par (lc_ancestors fuel all pmap line_index cur first cm).
Proof.
  induction fuel as [|f IH]; intros cur first cm Hfirst Hcm; cbn [lc_ancestors]; [exact Hcm|].
  destruct (match cur with Some l => il_parent l | None => None end) as [p|] eqn:Ep; [|exact Hcm].
  apply IH; [discriminate|].
  set (key := match assoc_find p pmap with Some k => k | None => p end).
  apply assoc_upd_all.
  - destruct (assoc_find key cm); [exact Hcm|]. apply Forall_app; split; [exact Hcm|]. constructor; [|constructor]. intros k [].
  - intros k' [[pt ls] dc] _ He. unfold entry_par in *. cbn [fst snd] in *. destruct first; [|exact He].
    intros k [<-|Hk]; [|exact (He k Hk)]. destruct cur as [l|]; [|discriminate]. exact (Hfirst eq_refl l p eq_refl Ep).
Qed.

Lemma lc_lines_par : forall rest line_index cm,
  (forall j l, nth_error rest j = Some l -> nth_error all (line_index + j) = Some l) ->
  Forall entry_par (cm_children cm) -> Forall entry_par (cm_children (lc_lines all rest line_index cm)).
Proof.
  induction rest as [|l r IH]; intros line_index cm Hrest Hcm; cbn [lc_lines]; [exact Hcm|].
  assert (Hr : forall j l', nth_error r j = Some l' -> nth_error all (S line_index + j) = Some l').
  { intros j l' Hj. replace (S line_index + j) with (line_index + S j) by lia. apply Hrest. exact Hj. }
  destruct (il_toks l) as [|first toks]; [apply IH; assumption|].
  apply IH; [exact Hr|]. cbn [cm_children].
  apply lc_ancestors_par; [|exact Hcm].
  intros _ l0 p E Hp. injection E as <-. exists l, p. split; [|exact Hp].
  specialize (Hrest 0 l eq_refl). rewrite PeanoNat.Nat.add_0_r in Hrest. exact Hrest.
Qed.

Theorem line_children_have_parent : Forall entry_par (get_line_children all).
Proof. unfold get_line_children. apply lc_lines_par; [intros j l H; exact H|constructor]. Qed.
End Children.

(* the records of the views *)
Definition has_parent (lines : list lline) (k : nat) : Prop := exists l, nth_error lines k = Some l /\ ll_parent l <> None.

Lemma has_parent_of_i lines k : has_parent_i (map iline_of lines) k -> has_parent lines k.
Proof.
  intros (l & p & Hn & Hp). rewrite nth_error_map in Hn. destruct (nth_error lines k) as [ll|] eqn:E; [|discriminate].
  injection Hn as <-. exists ll. split; [exact E|]. unfold iline_of in Hp. cbn [il_parent] in Hp. destruct (ll_parent ll); [discriminate|discriminate Hp].
Qed.

Lemma mk_recs_from (Pk : nat -> Prop) tt kids line_index :
  (forall e, In e kids -> forall k, In k (snd (fst (snd e))) -> Pk k) ->
  forall toks prevtok win stacks, Forall (rec_from Pk) (mk_recs tt toks prevtok win stacks kids line_index).
Proof.
  intros Hk. induction toks as [|g rest IH]; intros prevtok win stacks; cbn [mk_recs]; [constructor|].
  constructor; [|apply IH].
  intros lc k Hlc Hin. cbn [tr_kids] in Hlc.
  destruct (assoc_find (line_index, g) kids) as [[[pt ls] dc]|] eqn:E; [|discriminate].
  injection Hlc as <-. cbn [lch_lines] in Hin. apply in_rev in Hin.
  destruct (assoc_find_in _ _ _ E) as (k' & Hin' & _). exact (Hk _ Hin' k Hin).
Qed.

Theorem mk_lviews_rec_from infos lines :
  forall lv, In lv (mk_lviews infos lines) -> Forall (rec_from (has_parent lines)) (lv_recs lv).
Proof.
  unfold mk_lviews. pose proof (line_children_have_parent (map iline_of lines)) as Hc.
  assert (Hk : forall e, In e (get_line_children (map iline_of lines)) -> forall k, In k (snd (fst (snd e))) -> has_parent lines k).
  { intros e He k Hk. rewrite Forall_forall in Hc. apply has_parent_of_i. exact (Hc e He k Hk). }
  clear Hc. revert Hk. generalize (get_line_children (map iline_of lines)) (ti_build infos 0 PLeaf) 0. intros kids tt i Hk. revert i.
  induction (map iline_of lines) as [|l r IH]; intros i lv H; [destruct H|]. cbn [mk_lviews_from] in H.
  destruct H as [<-|H]; [|exact (IH (S i) lv H)]. cbn [mk_lview lv_recs]. apply mk_recs_from.
  intros e He k Hk'. apply filter_In in He. destruct He as (He & _). exact (Hk e He k Hk').
Qed.

(* ------------------------------------------------------------------ *)
(* 3. what a view says about its line (whatever the token table) *)
Lemma mk_lviews_from_nth tt kids : forall ils i j lv, nth_error (mk_lviews_from tt kids i ils) j = Some lv ->
  exists l, nth_error ils j = Some l /\ lv_idx lv = i + j /\ lv_gtoks lv = il_toks l /\ lv_type lv = il_type l
            /\ lv_top lv = match il_parent l with None => negb (il_type l IS LLT_Eof) | Some _ => false end.
Proof.
  induction ils as [|l r IH]; intros i j lv E; [destruct j; discriminate|].
  cbn [mk_lviews_from] in E. destruct j as [|j]; cbn [nth_error] in E.
  - injection E as <-. exists l. rewrite PeanoNat.Nat.add_0_r. repeat split; reflexivity.
  - destruct (IH (S i) j lv E) as (l' & A & B & C). exists l'. split; [exact A|]. split; [lia|exact C].
Qed.

Lemma mk_lviews_nth infos lines k lv : nth_error (mk_lviews infos lines) k = Some lv ->
  exists l, nth_error lines k = Some l /\ lv_idx lv = k /\ lv_gtoks lv = map N.of_nat (ll_toks l) /\ lv_type lv = ll_type l
            /\ lv_top lv = match ll_parent l with None => negb (ll_type l IS LLT_Eof) | Some _ => false end.
Proof.
  unfold mk_lviews. intros E. destruct (mk_lviews_from_nth _ _ _ 0 k lv E) as (il & A & B & C & D & F).
  rewrite nth_error_map in A. destruct (nth_error lines k) as [l|] eqn:El; [|discriminate]. injection A as <-.
  exists l. split; [reflexivity|]. split; [exact B|]. split; [exact C|]. split; [exact D|].
  rewrite F. unfold iline_of. cbn [il_parent il_type]. destruct (ll_parent l); reflexivity.
Qed.

(* the token of a decision, seen from the lines: it lies in a line that is a formatted top-level line, a reflowed line, or a line
   with a parent *)
Definition tok_src (lines : list lline) (reflow : list nat) (t : nat) : Prop :=
  exists k ln, nth_error lines k = Some ln /\ In t (ll_toks ln)
               /\ ((ll_parent ln = None /\ ll_type ln <> LLT_Eof) \/ In k reflow \/ ll_parent ln <> None).

Definition which_of (reflow : list nat) (lv : lview) : bool := lv_top lv || existsb (Nat.eqb (lv_idx lv)) reflow.

Lemma src_tok_src infos lines reflow g :
  src (mk_lviews infos lines) (has_parent lines) (which_of reflow) g -> tok_src lines reflow (N.to_nat g).
Proof.
  intros (k & lv & Hk & Hg & Hw). destruct (mk_lviews_nth infos lines k lv Hk) as (ln & Hl & Hidx & Htoks & _ & Htop).
  exists k, ln. split; [exact Hl|]. split.
  - rewrite Htoks in Hg. apply in_map_iff in Hg. destruct Hg as (x & <- & Hx). rewrite Nnat.Nat2N.id. exact Hx.
  - destruct Hw as [Hw|(l' & Hl' & Hp)].
    + unfold which_of in Hw. apply orb_true_iff in Hw. destruct Hw as [Hw|Hw].
      * left. rewrite Htop in Hw. destruct (ll_parent ln); [discriminate|]. split; [reflexivity|].
        intros E. rewrite E in Hw. discriminate Hw.
      * right. left. apply existsb_exists in Hw. destruct Hw as (x & Hx & Ex). apply PeanoNat.Nat.eqb_eq in Ex. rewrite Hidx in Ex. subst x. exact Hx.
    + right. right. rewrite Hl in Hl'. injection Hl' as <-. exact Hp.
Qed.

Lemma plan_tokens_src lines reflow (P : event -> Prop) evs :
  (forall e, In e evs -> P e) ->
  (forall t d lll f, P (Ev_D t d lll f) -> tok_src lines reflow (N.to_nat t)) ->
  forall t, In t (map fst (plan_of_events evs)) -> tok_src lines reflow t.
Proof.
  intros Hall HP t Ht. apply in_map_iff in Ht. destruct Ht as ([t' d] & <- & Hin). cbn [fst].
  destruct (plan_of_events_in t' d evs Hin) as (tok & dd & lll & f & Hev & <- & _). exact (HP tok dd lll f (Hall _ Hev)).
Qed.

(* both phases, from the initial state: every decision event has its source *)
Lemma phase1_src W infos lines :
  Forall (ev_src (mk_lviews infos lines) (has_parent lines) (which_of [])) (Dlog (wrap_phase1 W infos lines)).
Proof.
  unfold wrap_phase1.
  assert (H : st_src (mk_lviews infos lines) (has_parent lines) lv_top (wrap_phase W infos lines lv_top sst_init)).
  { apply wrap_phase_src; [intros lv H; exact H|apply mk_lviews_rec_from|]. split; [apply cache_ok_init|constructor]. }
  eapply Forall_impl; [|exact (proj2 H)]. intros e. apply ev_src_mono. intros lv Hw. unfold which_of. rewrite Hw. reflexivity.
Qed.

(* the views of two token tables agree on everything `src` reads *)
Lemma ev_src_transfer infos1 infos2 lines reflow e :
  ev_src (mk_lviews infos1 lines) (has_parent lines) (which_of reflow) e ->
  ev_src (mk_lviews infos2 lines) (has_parent lines) (which_of reflow) e.
Proof.
  destruct e as [| t d lll f |]; cbn; try exact (fun x => x).
  intros (k & lv1 & Hk & Hg & Hw). destruct (mk_lviews_nth infos1 lines k lv1 Hk) as (ln & Hl & I1 & G1 & _ & T1).
  assert (Hlt : k < length (mk_lviews infos2 lines)) by (rewrite mk_lviews_length; apply nth_error_Some; congruence).
  destruct (nth_error (mk_lviews infos2 lines) k) as [lv2|] eqn:E2; [|apply nth_error_None in E2; lia].
  destruct (mk_lviews_nth infos2 lines k lv2 E2) as (ln' & Hl' & I2 & G2 & _ & T2). rewrite Hl in Hl'. injection Hl' as <-.
  exists k, lv2. split; [exact E2|]. split; [rewrite G2, <- G1; exact Hg|].
  destruct Hw as [Hw|Hw]; [left|right; exact Hw]. unfold which_of in *. rewrite T2, I2, <- T1, <- I1. exact Hw.
Qed.

Lemma Dlog_log e st : Dlog (sst_log e st) = (if is_D e then [e] else []) ++ Dlog st.
Proof. unfold Dlog. cbn [sst_log ss_log filter]. destruct (is_D e); reflexivity. Qed.

Lemma phase2_src W infos1 infos2 lines reflow :
  Forall (ev_src (mk_lviews infos2 lines) (has_parent lines) (which_of reflow))
         (Dlog (wrap_phase2 W infos2 lines reflow (sst_log (Ev_Phase 2) (sst_log (Ev_Phase 1) (wrap_phase1 W infos1 lines))))).
Proof.
  unfold wrap_phase2.
  assert (H1 : st_src (mk_lviews infos1 lines) (has_parent lines) lv_top (wrap_phase W infos1 lines lv_top sst_init)).
  { apply wrap_phase_src; [intros lv H; exact H|apply mk_lviews_rec_from|]. split; [apply cache_ok_init|constructor]. }
  apply (wrap_phase_src W infos2 lines (has_parent lines) (fun lv => existsb (Nat.eqb (lv_idx lv)) reflow) (which_of reflow)).
  - intros lv H. unfold which_of. rewrite H. apply orb_true_r.
  - apply mk_lviews_rec_from.
  - split.
    + intros key v H. exact (proj1 H1 key v H).
    + rewrite !Dlog_log. cbn [is_D app]. eapply Forall_impl; [|exact (proj2 H1)]. intros e He.
      apply (ev_src_transfer infos1 infos2). revert He. apply ev_src_mono. intros lv Hw. unfold which_of. rewrite Hw. reflexivity.
Qed.

(* ------------------------------------------------------------------ *)
(* 4. which lines are reflowed *)
Lemma top_ancestor_cases lines : forall fuel i, top_ancestor fuel lines i = i \/
  exists j l pt, nth_error lines j = Some l /\ ll_parent l = Some (top_ancestor fuel lines i, pt).
Proof.
  induction fuel as [|f IH]; intros i; cbn [top_ancestor]; [left; reflexivity|].
  destruct (nth_error lines i) as [l|] eqn:E; [|left; reflexivity].
  destruct (ll_parent l) as [[p pt]|] eqn:Ep; [|left; reflexivity].
  destruct (IH p) as [H|H]; [|right; exact H]. right. rewrite H. exists i, l, pt. split; assumption.
Qed.

Definition ty_is_ml (x : list ftoken) (g : nat) : Prop := exists p, nth_error x g = Some p /\ is_ml_string (t_ty (fst p)) = true.

Lemma ml_visit_types rs acc i : pointwise (fun p q => t_ty (fst q) = t_ty (fst p)) (fst acc) (fst (ml_visit rs acc i)).
Proof.
  apply (ml_visit_pointwise (fun p q => t_ty (fst q) = t_ty (fst p))); intros; cbn; try reflexivity; congruence.
Qed.

Lemma ml_visit_changed rs x i : snd (ml_visit rs (x, false) i) = true -> ty_is_ml x i.
Proof.
  unfold ml_visit. cbn [fst]. destruct (nth_error x i) as [[tok f]|] eqn:E; [|discriminate].
  destruct (f_ignored f); [discriminate|]. destruct (is_ml_string (t_ty tok)) eqn:Em; [|discriminate].
  intros _. exists (tok, f). split; [exact E|exact Em].
Qed.

Lemma ml_fold_changed rs : forall toks x, snd (fold_left (ml_visit rs) toks (x, false)) = true -> exists g, In g toks /\ ty_is_ml x g.
Proof.
  induction toks as [|g r IH]; intros x H; cbn [fold_left] in H; [discriminate|].
  rewrite (ml_visit_flag rs x false g) in H. cbn [orb] in H.
  destruct (snd (ml_visit rs (x, false) g)) eqn:Eg.
  - exists g. split; [left; reflexivity|exact (ml_visit_changed rs x g Eg)].
  - destruct (IH _ H) as (g' & Hg' & (p & Hp & Hm)). exists g'. split; [right; exact Hg'|].
    (* the type at g' is the same before the visit *)
    destruct (ml_visit_types rs (x, false) g) as [L Hty]. cbn [fst] in *.
    assert (Hlt : g' < length x) by (rewrite <- L; apply nth_error_Some; congruence).
    destruct (nth_error x g') as [p0|] eqn:E0; [|apply nth_error_None in E0; lia].
    destruct (Hty g' p0 E0) as (q & Hq & T). rewrite Hp in Hq. injection Hq as <-. exists p0. split; [exact E0|congruence].
Qed.

(* every reflowed line is the top ancestor of a line that holds a multi-line string literal (types as in the vector given) *)
Lemma ml_lines_reflow rs all : forall rest i x acc b refl,
  ml_lines rs all rest i x acc = (b, refl) ->
  (forall j ln, nth_error rest j = Some ln -> nth_error all (i + j) = Some ln) ->
  forall k, In k refl -> In k acc \/
    exists i' ln g, nth_error all i' = Some ln /\ In g (ll_toks ln) /\ ty_is_ml x g /\ k = top_ancestor (S (length all)) all i'.
Proof.
  induction rest as [|ln r IH]; intros i x acc b refl E Hrest k Hk; cbn [ml_lines] in E.
  - injection E as _ <-. left. exact Hk.
  - destruct (fold_left (ml_visit rs) (ll_toks ln) (x, false)) as [x1 ch] eqn:E1.
    assert (Hr : forall j ln', nth_error r j = Some ln' -> nth_error all (S i + j) = Some ln').
    { intros j ln' Hj. replace (S i + j) with (i + S j) by lia. apply Hrest. exact Hj. }
    destruct (IH (S i) x1 _ b refl E Hr k Hk) as [Hacc|(i' & ln' & g & A & B & (p & Hp & Hm) & D)].
    + destruct ch; [|left; exact Hacc]. destruct Hacc as [<-|Hacc]; [|left; exact Hacc]. right.
      assert (Hch : snd (fold_left (ml_visit rs) (ll_toks ln) (x, false)) = true) by (rewrite E1; reflexivity).
      destruct (ml_fold_changed rs _ x Hch) as (g & Hg & Hml). exists i, ln, g. split; [|split; [exact Hg|split; [exact Hml|reflexivity]]].
      specialize (Hrest 0 ln eq_refl). rewrite PeanoNat.Nat.add_0_r in Hrest. exact Hrest.
    + right. exists i', ln', g. split; [exact A|]. split; [exact B|]. split; [|exact D].
      (* the type at g in x1 is the type in x *)
      assert (Hty : pointwise (fun p q => t_ty (fst q) = t_ty (fst p)) x x1).
      { replace x1 with (fst (fold_left (ml_visit rs) (ll_toks ln) (x, false))) by (rewrite E1; reflexivity).
        apply (ml_fold_pointwise (fun p q => t_ty (fst q) = t_ty (fst p))); intros; cbn; try reflexivity; congruence. }
      destruct Hty as [L Hty]. assert (Hlt : g < length x) by (rewrite <- L; apply nth_error_Some; congruence).
      destruct (nth_error x g) as [p0|] eqn:E0; [|apply nth_error_None in E0; lia].
      destruct (Hty g p0 E0) as (q & Hq & T). rewrite Hp in Hq. injection Hq as <-. exists p0. split; [exact E0|congruence].
Qed.

Lemma insert_unique_in x : forall l k, In k (insert_unique x l) -> k = x \/ In k l.
Proof.
  induction l as [|y r IH]; intros k H; cbn [insert_unique] in H; [destruct H as [<-|[]]; left; reflexivity|].
  destruct (Nat.eqb x y); [right; exact H|]. destruct (Nat.ltb x y); [destruct H as [<-|H]; [left; reflexivity|right; exact H]|].
  destruct H as [<-|H]; [right; left; reflexivity|]. destruct (IH k H) as [->|H']; [left; reflexivity|right; right; exact H'].
Qed.

Lemma fold_insert_unique_in : forall refl acc k, In k (fold_left (fun a x => insert_unique x a) refl acc) -> In k refl \/ In k acc.
Proof.
  induction refl as [|x r IH]; intros acc k H; cbn [fold_left] in H; [right; exact H|].
  destruct (IH _ k H) as [H'|H']; [left; right; exact H'|]. destruct (insert_unique_in x acc k H') as [->|H'']; [left; left; reflexivity|right; exact H''].
Qed.

(* ------------------------------------------------------------------ *)
(* 5. the bridge of FormatWrapProofs again, now with the sources of both plans *)
Lemma firstn_In' {A} (x : A) : forall n l, In x (firstn n l) -> In x l.
Proof. induction n as [|n IH]; intros [|a l] H; cbn in *; try contradiction. destruct H as [->|H]; [left; reflexivity|right; exact (IH l H)]. Qed.

Definition olf_plan1 (W : wsettings) (lines : list lline) (l : list ftoken) : list (nat * decision) :=
  plan_of_events (rev (ss_log (wrap_phase1 W (map tokinfo_of l) lines))).

Lemma all_events_src lvs Pk which st : Forall (ev_src lvs Pk which) (Dlog st) -> forall e, In e (ss_log st) -> ev_src lvs Pk which e.
Proof.
  intros H e He. destruct (is_D e) eqn:Ed.
  - rewrite Forall_forall in H. apply H. unfold Dlog. apply filter_In. split; assumption.
  - destruct e; try exact I. discriminate Ed.
Qed.

Lemma plan1_src W lines l : forall t, In t (map fst (olf_plan1 W lines l)) -> tok_src lines [] t.
Proof.
  apply (plan_tokens_src lines [] (ev_src (mk_lviews (map tokinfo_of l) lines) (has_parent lines) (which_of []))).
  - intros e He. apply in_rev in He. exact (all_events_src _ _ _ _ (phase1_src W _ lines) e He).
  - intros t d lll f H. exact (src_tok_src _ lines [] t H).
Qed.

Definition reflow_prov (lines : list lline) (x : list ftoken) (k : nat) : Prop :=
  exists i ln g, nth_error lines i = Some ln /\ In g (ll_toks ln) /\ ty_is_ml x g /\ k = top_ancestor (S (length lines)) lines i.

Theorem olf_model_effect_src rs W fm lines l :
  exists plan2 reflow,
    fst (fst (olf_model rs W fm lines l)) = olf_effect rs fm (concat (map ll_toks lines)) (olf_plan1 W lines l) plan2 l
    /\ (forall t, In t (map fst plan2) -> tok_src lines reflow t)
    /\ (forall k, In k reflow -> reflow_prov lines (zero_line_starts (apply_plan (olf_plan1 W lines l) l)) k).
Proof.
  unfold olf_model, olf_effect, olf_plan1.
  set (st1 := wrap_phase1 W (map tokinfo_of l) lines).
  set (plan1 := plan_of_events (rev (ss_log st1))).
  set (a := zero_line_starts (apply_plan plan1 l)).
  destruct fm; [|exists [], []; split; [reflexivity|split; [intros t []|intros k []]]].
  destruct (ml_lines_spec rs lines lines 0 a []) as (extra & E & Hx). rewrite app_nil_r in E.
  pose proof (ml_lines_reflow rs lines lines 0 a [] _ _ E (fun j ln H => H)) as Hprov. rewrite E.
  destruct (fold_left (ml_visit rs) (concat (map ll_toks lines)) (a, false)) as [b reflowed] eqn:Ef. cbn [fst snd] in *.
  destruct (fold_left (fun acc x => insert_unique x acc) extra []) as [|x0 r0] eqn:Er.
  - apply (proj1 (fold_insert_unique_nil extra)) in Er. apply (proj1 Hx) in Er. subst reflowed.
    exists [], []. split; [unfold ml_stage; rewrite Ef; reflexivity|]. split; [intros t []|intros k []].
  - assert (Hne : extra <> []) by (intros ->; discriminate).
    assert (reflowed = true) by (destruct reflowed; [reflexivity|exfalso; apply Hne, (proj2 Hx); reflexivity]). subst reflowed.
    set (reflow := x0 :: r0) in *.
    set (infos2 := map (fun pq : tokinfo * ftoken => mkTI (ti_ty (fst pq)) (ti_sp (fst pq)) (ti_len (fst pq)) (ml_measure (fst (snd pq)))) (combine (map tokinfo_of l) b)).
    set (st1' := sst_log (Ev_Phase 2) (sst_log (Ev_Phase 1) st1)).
    set (st2 := wrap_phase2 W infos2 lines reflow st1').
    eexists _, reflow. split; [unfold ml_stage; rewrite Ef; cbn [fst]; reflexivity|]. split.
    + apply (plan_tokens_src lines reflow (ev_src (mk_lviews infos2 lines) (has_parent lines) (which_of reflow))).
      * intros e He. apply in_rev in He. apply firstn_In' in He.
        exact (all_events_src _ _ _ _ (phase2_src W (map tokinfo_of l) infos2 lines reflow) e He).
      * intros t d lll f H. exact (src_tok_src _ lines reflow t H).
    + intros k Hk. subst reflow. rewrite <- Er in Hk. destruct (fold_insert_unique_in _ _ _ Hk) as [Hk'|[]].
      destruct (Hprov k Hk') as [[]|(i' & ln & g & A & B & C & D)]. exists i', ln, g. cbn [Nat.add] in A. repeat split; assumption.
Qed.

(* ------------------------------------------------------------------ *)
(* 6. a token that is only in parentless Eof lines [e] which are nobody's parent is not touched by the wrapper *)
Definition lone_lines (lines : list lline) (e : nat) : Prop :=
  forall k ln, nth_error lines k = Some ln -> In e (ll_toks ln) ->
    ll_toks ln = [e] /\ ll_parent ln = None /\ ll_type ln = LLT_Eof
    /\ (forall l' pl pt, In l' lines -> ll_parent l' = Some (pl, pt) -> pl <> k).

Theorem olf_model_keeps_lone_token rs W fm lines l e p :
  nth_error l e = Some p -> is_ml_string (t_ty (fst p)) = false -> lone_lines lines e ->
  exists q, nth_error (fst (fst (olf_model rs W fm lines l))) e = Some q /\ same_layout p q.
Proof.
  intros Hp Hml Hlone. destruct (olf_model_effect_src rs W fm lines l) as (plan2 & reflow & Eq & H2 & Hr). rewrite Eq.
  apply olf_effect_undecided; [exact Hp| |].
  - intros Hin. destruct (plan1_src W lines l e Hin) as (k & ln & Hk & He & Hc).
    destruct (Hlone k ln Hk He) as (_ & Hpar & Hty & _).
    destruct Hc as [[_ Hc]|[[]|Hc]]; congruence.
  - intros Hin. destruct (H2 e Hin) as (k & ln & Hk & He & Hc).
    destruct (Hlone k ln Hk He) as (Htoks & Hpar & Hty & Hnp).
    destruct Hc as [[_ Hc]|[Hc|Hc]]; try congruence.
    destruct (Hr k Hc) as (i & ln' & g & Hi & Hg & (pa & Hpa & Hma) & Htop).
    destruct (top_ancestor_cases lines (S (length lines)) i) as [Hsame|(j & l' & pt & Hj & Hpj)].
    + rewrite Hsame in Htop. subst i. rewrite Hk in Hi. injection Hi as <-. rewrite Htoks in Hg. destruct Hg as [<-|[]].
      (* the type of token e in the vector after the first plan is its type in l *)
      assert (Hty' : pointwise (fun p0 q0 => t_ty (fst q0) = t_ty (fst p0)) l (zero_line_starts (apply_plan (olf_plan1 W lines l) l))).
      { eapply pointwise_trans; [intros x y z A B; congruence| |].
        - apply (apply_plan_pointwise (fun p0 q0 => t_ty (fst q0) = t_ty (fst p0))); intros; cbn; try reflexivity; congruence.
        - apply (zero_line_starts_pointwise (fun p0 q0 => t_ty (fst q0) = t_ty (fst p0))); intros; cbn; reflexivity. }
      destruct (proj2 Hty' e p Hp) as (q & Hq & T). rewrite Hpa in Hq. injection Hq as <-. congruence.
    + rewrite <- Htop in Hpj. exact (Hnp l' k pt (nth_error_In _ _ Hj) Hpj eq_refl).
Qed.

(* ------------------------------------------------------------------ *)
(* 7. the end of the output of the composed run *)
Definition eof_lines_ok (segs : list seg) : Prop :=
  lone_lines (fm_lines segs) (length segs - 1)
  /\ existsb (fun ln => ll_type ln IS LLT_Eof) (fm_lines segs) = true
  /\ nth_error (fm_marks segs) (length segs - 1) = Some false.

Lemma nth_last_split {A} (l : list A) x : nth_error l (length l - 1) = Some x -> exists r, l = r ++ [x].
Proof.
  intros H. destruct (exists_last (l := l)) as (r & y & E); [intros ->; discriminate|]. exists r.
  rewrite E in H. rewrite app_length in H. cbn [length] in H. replace (length r + 1 - 1) with (length r) in H by lia.
  rewrite nth_error_app2, PeanoNat.Nat.sub_diag in H by lia. cbn in H. injection H as <-. exact E.
Qed.

Theorem fm_final_eof_canon alnum cfg s segs :
  lex_segments s = Some segs -> eof_lines_ok segs -> eof_canon (fm_final alnum cfg segs) = true.
Proof.
  intros Hl (Hlone & Hx & Hm).
  destruct (fm_l4_eof_canon alnum s segs Hl Hx) as (r & tok & m & E4 & He & Hc & Hm'). rewrite Hm in Hm'. injection Hm' as <-.
  assert (Hlen4 : length (fm_l4 alnum segs) = length segs).
  { unfold fm_l4. rewrite (proj1 (eof_newline_lines_stage _ _)). unfold fm_l3, fm_l2, fm_l1, comment_formatter, lowercase_keywords.
    rewrite !map_length, (proj1 (spacing_stage _)). apply fm_l0_length. }
  assert (Hr : length segs - 1 = length r) by (rewrite <- Hlen4, E4, app_length; cbn; lia).
  assert (Hp : nth_error (fm_l4 alnum segs) (length segs - 1) = Some (tok, mkFmt false 1 0 0 0)).
  { rewrite E4, Hr, nth_error_app2, PeanoNat.Nat.sub_diag by lia. reflexivity. }
  assert (Hnml : is_ml_string (t_ty (fst (tok, mkFmt false 1 0 0 0))) = false).
  { cbn [fst]. unfold is_eof in He. destruct (t_ty tok); try discriminate He. reflexivity. }
  destruct (olf_model_keeps_lone_token (cfg_rs cfg) (cfg_ws cfg) (c_fms cfg) (fm_lines segs) (fm_l4 alnum segs) _ _ Hp Hnml Hlone) as (q & Hq & Hlay).
  fold (fm_wrap alnum cfg segs) in Hq. fold (fm_final alnum cfg segs) in Hq.
  (* text and mark through the wrapper *)
  destruct (olf_model_untouched (cfg_rs cfg) (cfg_ws cfg) (c_fms cfg) (fm_lines segs) (fm_l4 alnum segs)) as [_ Hu].
  destruct (Hu _ _ Hp) as (q' & Hq' & Hshape & Hkeep). fold (fm_wrap alnum cfg segs) in Hq'. fold (fm_final alnum cfg segs) in Hq'.
  rewrite Hq in Hq'. injection Hq' as <-. specialize (Hkeep (or_intror Hnml)). cbn [fst snd] in *.
  unfold shape in Hshape. cbn [fst snd f_ignored] in Hshape. injection Hshape as _ Hig.
  destruct q as [tq fq]. cbn [fst snd] in *. subst tq.
  destruct Hlay as (A & B & C & D). cbn [snd f_nl f_ind f_cont f_sp] in *. change (0 <? 1)%N with true in D.
  rewrite <- (fm_final_length alnum cfg segs) in Hq. destruct (nth_last_split _ _ Hq) as (r' & E). rewrite E.
  unfold eof_canon. rewrite rev_app_distr. cbn [rev app]. rewrite He, A, B, C, D, Hc. reflexivity.
Qed.

(* C14/C08: the output ends with exactly one configured line ending after the text of the other tokens *)
Theorem format_ends_with_one_newline alnum cfg s out segs :
  format_model alnum cfg s = inl out -> lex_segments s = Some segs -> eof_lines_ok segs ->
  out = recon (cfg_rs cfg) false (removelast (fm_final alnum cfg segs)) ++ rs_newline (cfg_rs cfg).
Proof.
  intros H Hl Hok. apply (format_ends_with_newline alnum cfg s out H segs Hl); [exact (fm_final_eof_canon alnum cfg s segs Hl Hok)|exact (proj2 (proj2 Hok))].
Qed.

Print Assumptions olf_model_keeps_lone_token.
Print Assumptions format_ends_with_one_newline.

(* ------------------------------------------------------------------ *)
(* 8. the hypothesis is decidable; non-vacuity *)
Lemma nth_error_combine_seq {A} (l : list A) : forall i k x, nth_error l k = Some x -> In (i + k, x) (combine (seq i (length l)) l).
Proof.
  induction l as [|a l IH]; intros i k x H; [destruct k; discriminate|].
  destruct k as [|k]; cbn [nth_error length seq combine] in *.
  - injection H as <-. left. rewrite PeanoNat.Nat.add_0_r. reflexivity.
  - right. replace (i + S k) with (S i + k) by lia. apply IH. exact H.
Qed.

Lemma nat_list_eqb_true : forall a b, nat_list_eqb a b = true -> a = b.
Proof.
  induction a as [|x a IH]; intros [|y b] H; cbn in H; try discriminate; [reflexivity|].
  apply andb_true_iff in H. destruct H as [H1 H2]. apply PeanoNat.Nat.eqb_eq in H1. subst y. f_equal. apply IH, H2.
Qed.

Lemma lone_linesb_ok lines e : lone_linesb lines e = true -> lone_lines lines e.
Proof.
  unfold lone_linesb. rewrite forallb_forall. intros H k ln Hk He.
  specialize (H (k, ln) (nth_error_combine_seq lines 0 k ln Hk)). cbn beta iota in H.
  assert (Hex : existsb (Nat.eqb e) (ll_toks ln) = true) by (apply existsb_exists; exists e; split; [exact He|apply PeanoNat.Nat.eqb_refl]).
  rewrite Hex in H. repeat (apply andb_true_iff in H; destruct H as [H ?]).
  split; [apply nat_list_eqb_true; assumption|]. split; [destruct (ll_parent ln); [discriminate|reflexivity]|].
  split; [unfold bid in *; destruct (ll_type ln); try discriminate; reflexivity|].
  intros l' pl pt Hl' Hp. match goal with H0 : forallb _ lines = true |- _ => rewrite forallb_forall in H0; specialize (H0 l' Hl') end.
  rewrite Hp in *. intros ->. rewrite PeanoNat.Nat.eqb_refl in *. discriminate.
Qed.

Lemma eof_lines_okb_ok segs : eof_lines_okb segs = true -> eof_lines_ok segs.
Proof.
  unfold eof_lines_okb, eof_lines_ok. intros H. apply andb_true_iff in H. destruct H as [H H3]. apply andb_true_iff in H. destruct H as [H1 H2].
  split; [apply lone_linesb_ok, H1|]. split; [exact H2|]. destruct (nth_error (fm_marks segs) (length segs - 1)) as [[|]|]; try discriminate. reflexivity.
Qed.

(* a block with an anonymous routine inside (child lines: lines with a parent): the hypothesis holds, and the output ends in one LF *)
Example format_ends_with_one_newline_example :
  let s := [66;69;71;73;78; 32; 70;40; 112;114;111;99;101;100;117;114;101; 32; 98;101;103;105;110; 32; 88;59; 32; 101;110;100; 41;59; 32; 69;78;68; 46]%N in
  (* BEGIN F(procedure begin X; end); END. *)
  let cfg := mkCfg 30 false true false 2 2 false in
  match lex_segments s with
  | Some segs => eof_lines_okb segs = true
                 /\ format_model (fun _ => false) cfg s
                    = inl [98;101;103;105;110; 10; 32;32;70;40; 112;114;111;99;101;100;117;114;101; 32; 98;101;103;105;110; 32; 88;59; 32;
                           101;110;100; 41;59; 10; 101;110;100; 46; 10]%N              (* begin\n  F(procedure begin X; end);\nend.\n *)
  | None => False
  end.
Proof. vm_compute. split; reflexivity. Qed.
