(* Proofs/ParserGrammarConsumedProofs.v — "the pass is consumed" (first side condition of
   C14_final_lines_cover) for the grammar model.
   * REFUTED in general: `parse_pass_consumed_refuted` (the real parser behaves the same: finding).
     parse_variant_record returns early (no `of`) without popping its context; every later pop()
     then removes the wrong entry, a TypeDeclaration context (ending on `end`) survives to the top
     level, gets marked as ended, and the top-level loop of `parse` returns in front of an `end`.
   * PROVED: the top-level loop returns only (a) with an ending context or (b) with no current
     token; in case (b) the pass is consumed (`parse_pass_consumed_if`); case (a) is impossible when
     the context stack at that moment holds only never-ending, not-ended contexts. *)
From PasfmtVerif Require Import Model.ParserGrammar Proofs.ParserKernelProofs Proofs.ParserGrammarProofs
  Proofs.ParserGrammarTypesProofs.
Local Open Scope nat_scope.

Section Consumed.
Variable pass : list nat.
Variable wsnl : list bool.
Notation pstate := (pstate pass).

Lemma err_has (s : pstate) : ps_err pass s = None -> has_err pass s = false.
Proof. unfold has_err. intros ->. reflexivity. Qed.
Lemma has_err_true (s : pstate) : has_err pass s = true -> ps_err pass s <> None.
Proof. unfold has_err. destruct (ps_err pass s); [discriminate|discriminate]. Qed.

(* parse_statement_list_with_type_and_predicate returns only in front of an ending context or at
   the end of the tokens (or with an error) *)
Theorem stmt_list_exit : forall fuel t op p s,
  let s' := run pass wsnl fuel (C_stmt_list t op p) s in
  ps_err pass s' = None -> is_ending pass s' = true \/ cur_tt pass s' = None.
Proof.
  induction fuel as [|f IH]; intros t op p s s' He; subst s'.
  - exfalso. cbn [run] in He. destruct (has_err pass s) eqn:E; [apply (has_err_true s E), He|].
    unfold fail in He. rewrite E in He. discriminate.
  - cbn [run] in *. destruct (has_err pass s) eqn:E; [exfalso; apply (has_err_true s E), He|].
    cbv delta [arm_stmt_list] beta zeta in *.
    match goal with |- context [if ?c then ?a else _] => destruct c eqn:C end.
    + apply orb_true_iff in C. destruct C as [C|C]; [left; exact C|right].
      match type of C with match ?x with _ => _ end = true => destruct x; [discriminate|reflexivity] end.
    + apply IH, He.
Qed.

(* the state in which the top-level loop of `parse` returns *)
Definition top_exit (toks : list RawTokenType) (attr : list nat) : pstate :=
  run pass wsnl (pred (run_fuel pass)) (C_stmt_list CT_TopLevelStatement true P_top_semicolon) (ps_init pass toks attr).

Lemma parse_pass_unfold toks attr :
  parse_pass pass wsnl toks attr
  = finish_logical_line pass (set_line_type pass LLT_Eof (next_token pass (finish_logical_line pass (top_exit toks attr)))).
Proof.
  unfold parse_pass, top_exit.
  assert (H : run_fuel pass = S (pred (run_fuel pass))) by (unfold run_fuel; lia).
  rewrite H at 1. cbn [run]. reflexivity.
Qed.

(* Eof is the last token of the pass, and the pass indexes into the token vector *)
Definition eof_only_last (toks : list RawTokenType) : Prop :=
  forall k t, nth_error pass k = Some t -> nth_error toks t = Some RTT_Eof -> S k = length pass.
Definition pass_in_range (toks : list RawTokenType) : Prop := Forall (fun t => t < length toks) pass.

Lemma retype_ok_to_eof a : retype_ok a RTT_Eof -> a = RTT_Eof.
Proof. intros H. apply retype_ok_class in H. destruct a; cbn in H; congruence. Qed.

Lemma cur_tt_none_at_end toks (s : pstate) :
  pass_in_range toks -> eof_only_last toks -> Forall2 retype_ok toks (ps_toks pass s) ->
  cur_tt pass s = None -> length pass <= S (pidx pass s).
Proof.
  intros Hr He Ht Hc. unfold cur_tt, idx0, cur_index in Hc.
  destruct (nth_error pass (pidx pass s)) as [i|] eqn:Ei; [|apply nth_error_None in Ei; lia].
  assert (Hi : i < length toks) by (apply (proj1 (Forall_forall _ _) Hr), (nth_error_In _ _ Ei)).
  unfold tt_at in Hc. destruct (nth_error (ps_toks pass s) i) as [ty|] eqn:Ety.
  - destruct (retypes_nth_rev _ _ _ _ Ht Ety) as (a & Ha & Hra).
    destruct ty; cbn [bind] in Hc; try (rewrite Ety in Hc; discriminate).
    apply retype_ok_to_eof in Hra. subst a. rewrite (He _ _ Ei Ha). lia.
  - apply nth_error_None in Ety. rewrite <- (retypes_length _ _ Ht) in Ety. lia.
Qed.

(* if the top-level loop returns because no token is left, the pass is consumed *)
Theorem parse_pass_consumed_if toks attr :
  pass_in_range toks -> eof_only_last toks ->
  ps_err pass (parse_pass pass wsnl toks attr) = None ->
  cur_tt pass (top_exit toks attr) = None ->
  length pass <= pidx pass (parse_pass pass wsnl toks attr).
Proof.
  intros Hr He Herr Hc. rewrite parse_pass_unfold in *.
  set (s1 := top_exit toks attr) in *.
  set (s2 := finish_logical_line pass s1) in *. set (s3 := next_token pass s2) in *.
  set (s4 := set_line_type pass LLT_Eof s3) in *.
  pose proof (finish_logical_line_good pass s1) as G1. pose proof (next_token_good pass s2) as G2.
  pose proof (next_token_adv pass s2) as A2. pose proof (same_good pass _ _ (same_set_line_type pass LLT_Eof s3)) as G3.
  pose proof (finish_logical_line_good pass s4) as G4.
  (* no error anywhere on the way: an error would persist *)
  assert (E4 : has_err pass s4 = false).
  { destruct (has_err pass s4) eqn:E; [|reflexivity]. exfalso. rewrite (proj1 G4 E) in Herr. apply (has_err_true _ E), Herr. }
  assert (E3 : has_err pass s3 = false).
  { destruct (has_err pass s3) eqn:E; [|reflexivity]. exfalso. fold s4 in G3. rewrite (proj1 G3 E) in E4. congruence. }
  assert (E2 : has_err pass s2 = false).
  { destruct (has_err pass s2) eqn:E; [|reflexivity]. exfalso. fold s3 in G2. rewrite (proj1 G2 E) in E3. congruence. }
  assert (E1 : has_err pass s1 = false).
  { destruct (has_err pass s1) eqn:E; [|reflexivity]. exfalso. fold s2 in G1. rewrite (proj1 G1 E) in E2. congruence. }
  assert (L1 : length pass <= S (pidx pass s1)).
  { apply (cur_tt_none_at_end toks); try assumption. apply (run_retype_ok pass wsnl _ _ (ps_init pass toks attr)). }
  pose proof (good_pidx pass _ _ G1) as P1. pose proof (good_pidx pass _ _ G3) as P3. pose proof (good_pidx pass _ _ G4) as P4.
  destruct (A2 E2) as [X|P2]; [fold s3 in X; congruence|]. fold s2 in P1. fold s3 in P2, P3. fold s4 in P3, P4. lia.
Qed.

(* so a pass that ends without error is consumed, or the top-level loop returned in front of a token
   because some context on the stack ends there *)
Theorem parse_pass_consumed_or_ending toks attr :
  pass_in_range toks -> eof_only_last toks ->
  ps_err pass (parse_pass pass wsnl toks attr) = None ->
  length pass <= pidx pass (parse_pass pass wsnl toks attr)
  \/ (is_ending pass (top_exit toks attr) = true /\ cur_tt pass (top_exit toks attr) <> None).
Proof.
  intros Hr He Herr.
  assert (E1 : ps_err pass (top_exit toks attr) = None).
  { destruct (ps_err pass (top_exit toks attr)) eqn:E; [|reflexivity]. exfalso.
    assert (H : has_err pass (top_exit toks attr) = true) by (unfold has_err; rewrite E; reflexivity).
    rewrite parse_pass_unfold in Herr.
    pose proof (finish_logical_line_good pass (top_exit toks attr)) as G1. rewrite (proj1 G1 H) in Herr.
    pose proof (next_token_good pass (top_exit toks attr)) as G2. rewrite (proj1 G2 H) in Herr.
    pose proof (same_good pass _ _ (same_set_line_type pass LLT_Eof (top_exit toks attr))) as G3. rewrite (proj1 G3 H) in Herr.
    pose proof (finish_logical_line_good pass (top_exit toks attr)) as G4. rewrite (proj1 G4 H) in Herr. congruence. }
  destruct (cur_tt pass (top_exit toks attr)) eqn:C.
  - right. destruct (stmt_list_exit _ _ _ _ _ E1) as [X|X]; [split; [exact X|]|].
    + unfold top_exit in C. fold (top_exit toks attr) in C. congruence.
    + unfold top_exit in C. rewrite X in C. discriminate.
  - left. apply parse_pass_consumed_if; assumption.
Qed.

(* a stack of never-ending, not-ended contexts (the program-head contexts, a VariantRecord context
   left behind that was never marked) does not end anywhere *)
Definition never_ending_stack (s : pstate) : Prop :=
  Forall (fun c => c_pred (fst c) = P_never /\ snd c = false) (ps_ctx pass s).
Lemma never_ending_stack_not_ending s : never_ending_stack s -> is_ending pass s = false.
Proof.
  unfold never_ending_stack, is_ending, ending_ctx. generalize 0. induction (ps_ctx pass s) as [|[c e] r IH]; intros d H; [reflexivity|].
  pose proof (Forall_inv H) as [Hp He]. cbn in Hp, He. subst e. cbn [ending_go]. rewrite Hp. cbn [eval_pred].
  destruct (c_opaque c); [reflexivity|]. apply IH. exact (Forall_inv_tail H).
Qed.
Corollary parse_pass_consumed_never_ending toks attr :
  pass_in_range toks -> eof_only_last toks ->
  ps_err pass (parse_pass pass wsnl toks attr) = None ->
  never_ending_stack (top_exit toks attr) ->
  length pass <= pidx pass (parse_pass pass wsnl toks attr).
Proof.
  intros Hr He Herr Hn. destruct (parse_pass_consumed_or_ending toks attr Hr He Herr) as [H|[H _]]; [exact H|].
  rewrite (never_ending_stack_not_ending _ Hn) in H. discriminate.
Qed.
End Consumed.

(* `x = class case y; end; case z; end a b c;` *)
Definition refute_toks : list RawTokenType :=
  [RTT_Identifier; RTT_Op (OK_Equal EK_Comp); RTT_Keyword KK_Class; RTT_Keyword KK_Case; RTT_Identifier; RTT_Op OK_Semicolon;
   RTT_Keyword KK_End; RTT_Op OK_Semicolon; RTT_Keyword KK_Case; RTT_Identifier; RTT_Op OK_Semicolon; RTT_Keyword KK_End;
   RTT_Identifier; RTT_Identifier; RTT_Identifier; RTT_Op OK_Semicolon; RTT_Eof].
(* F39: before its repair (repo commit 97f7cb6) this input refuted "the pass is consumed": parse_variant_record returned
   without popping its context when the case header had no `of`, a TypeDeclaration context survived to the top level, and
   the pass stopped at token 12 of 17 — the tokens after it were in no logical line.  The model follows the repair; the
   former witness is now a regression example. *)
Example parse_pass_consumed_f39_witness :
  ps_err (seq 0 17) (parse_pass (seq 0 17) [] refute_toks []) = None /\
  length (seq 0 17) <= pidx (seq 0 17) (parse_pass (seq 0 17) [] refute_toks []).
Proof. vm_compute. split; [reflexivity|lia]. Qed.
(* non-vacuity of parse_pass_consumed_if: `a := b;` *)
Example parse_pass_consumed_example :
  let pass := [0; 1; 2; 3; 4] in
  let toks := [RTT_Identifier; RTT_Op OK_Assign; RTT_Identifier; RTT_Op OK_Semicolon; RTT_Eof] in
  ps_err pass (parse_pass pass [] toks []) = None /\ cur_tt pass (top_exit pass [] toks []) = None
  /\ never_ending_stack pass (top_exit pass [] toks []) /\ pidx pass (parse_pass pass [] toks []) = 5.
Proof. vm_compute. repeat split. constructor. Qed.
