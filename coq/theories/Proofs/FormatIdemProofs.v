(* Proofs/FormatIdemProofs.v — C03 for the composed model: formatting the formatter's own output again, with the same
   configuration, returns it unchanged (format_idempotent), under the decidable hypothesis idem_hyp on the first run.

   The chain (segs: the scan of the input; segs2: the scan of the output; F: the vector the reconstructor emitted):
     - the scan of the output gives the pieces the reconstructor wrote (rescan_ok: a hypothesis, see below) with the raw kinds of the
       input; then, without `asm`, the parser does not read the layout and the second parse is the first one: same types, same lines;
     - the texts of the second run are the rewritten texts of the first; the keyword and comment rewriters are fixpoints on them
       (lowercase_tok_idem, format_line_comment_idempotent_any, format_compiler_directive_idempotent), so the search of the second run
       measures the same texts;
     - the search reads the token vector through (type, spaces_before, text length) only (olf_phase1_events_read), so with the same
       spaces_before (hypothesis 8, below) it takes the same decisions;
     - a decided token ends with indentations / continuations / spaces given by its last decision and its spaces_before, and with
       newlines_before given by the last decision — or, for the first token of a line, clamp12 of the incoming count: the incoming count
       of the second run is FormattingData::from of the whitespace emitted for the first run's result (fmt_of_emit_ws), which is 1 or 2,
       a fixpoint of clamp12 (final_fmt_stable);
     - the Eof token is set by EofNewline to the same counters in both runs;
     - the reconstructor reads the counters and the texts, not the leading whitespace, of tokens that are not ignored (recon_ws).

   Hypotheses (idem_hyp; all decidable on the first run, evaluated by the driver unit `idemhyp`):
     1,2  rescan_ok: the lexer cuts the output into the emitted pieces and gives every token its former raw kind (for the kinds,
          FormatIdemKindsProofs.format_idempotent_kinds asks equality up to the Individual / Inline flag of comments only);
          LexerRelayoutProofs gives the cut when every gap is a valid separator (FormatRescanProofs.format_rescan), the kinds are
          stable when the Inline/Individual flag of every comment is (a comment the search decides keeps its line position);
     3    no `asm` keyword (the parser reads the layout inside asm blocks);
     4    the first run ignores no token;
     5    the second run ignores no token: a consequence of the others (second_run_ignores_nothing: the marks of the second run are
          computed from the REWRITTEN comments, and a `//` comment that is not a toggle is not one after the rewriter —
          format_line_comment_keeps_non_toggle; block comments are not rewritten, directives are not comments).  idem_hyp6 /
          idem_hyp_min / format_idempotent_min / idem_hypb_min are the statements without it; the first versions are corollaries;
     6    format_multiline_strings = false or no multi-line literal (F6 is a counterexample otherwise);
     7    every token but the final Eof is decided by the search (F42: a line without a solution keeps its counters as read);
     8    the second search reads the spaces_before the first one read.  For a token that continues its line in the output this is a
          theorem (i_sp_continued: fmt_of_emit_ws, gap_idem), so format_idempotent_starts asks it of line starts only; for a
          token that starts a line in the output the second run's TokenSpacing sees the emitted indentation as the original count, and
          where the gap rule reads the original count (reads_orig: the F4 class) the results may differ, the search then measures a
          different "continue" alternative for that token and may decide otherwise.  That position — a line-start token in the output
          whose gap is in the reads_orig class — is exactly where the clause can fail; hypothesis 8 excludes it. *)
From Coq Require Import Lia.
From PasfmtVerif Require Import Model.Format Proofs.FormatProofs Proofs.FormatTotalProofs Proofs.FormatIgnoredProofs Proofs.FormatWsProofs
  Proofs.FormatCrlfProofs Proofs.SpacingProofs Proofs.WrapApplyProofs Proofs.WrapEventsProofs Proofs.WrapReadsProofs Proofs.WrapFileProofs
  Proofs.ToggleProofs Proofs.GenericsProofs Proofs.ParserGrammarWsnlProofs
  Proofs.RewritersProofs Proofs.CommentIdemProofs Proofs.FmtDataProofs Proofs.FormatContentProofs Proofs.FormatTabsProofs Proofs.FormatRescanProofs Proofs.FormatRelayoutProofs.

(* ------------------------------------------------------------------ *)
(* 1. the decisions applied to a token *)
Lemma clamp12_idem n : clamp12 (clamp12 n) = clamp12 n.
Proof.
  unfold clamp12. destruct (n <? 1) eqn:A; [reflexivity|]. destruct (2 <? n) eqn:B; [reflexivity|]. rewrite A, B. reflexivity.
Qed.

Lemma clamp12_range n : 1 <= clamp12 n <= 2.
Proof.
  unfold clamp12. destruct (n <? 1) eqn:A; [lia|]. destruct (2 <? n) eqn:B; [lia|]. apply N.ltb_ge in A, B. lia.
Qed.

Lemma fold_dec_ign ds : forall f, f_ignored (fold_left apply_decision ds f) = f_ignored f.
Proof. induction ds as [|d r IH]; intros f; [reflexivity|]. cbn [fold_left]. rewrite IH. destruct d; reflexivity. Qed.

Lemma fold_dec_sp ds : forall f, f_sp (fold_left apply_decision ds f) = f_sp f.
Proof. induction ds as [|d r IH]; intros f; [reflexivity|]. cbn [fold_left]. rewrite IH. destruct d; reflexivity. Qed.

(* newlines_before after a sequence of decisions: a constant, or the incoming count up to clamp12 *)
Lemma decs_nl_shape ds :
  (forall f f', f_nl (fold_left apply_decision ds f) = f_nl (fold_left apply_decision ds f'))
  \/ (forall f, clamp12 (f_nl (fold_left apply_decision ds f)) = clamp12 (f_nl f)).
Proof.
  induction ds as [|d r IH] using rev_ind; [right; reflexivity|].
  destruct d as [[|] ind cont|].
  - destruct IH as [C|C]; [left; intros f f'|right; intros f]; rewrite !fold_left_app; cbn [fold_left apply_decision f_nl].
    + f_equal. apply C.
    + rewrite clamp12_idem. apply C.
  - left. intros f f'. rewrite !fold_left_app. reflexivity.
  - left. intros f f'. rewrite !fold_left_app. reflexivity.
Qed.

Definition zf (f : fmt) : fmt := if 0 <? f_nl f then mkFmt (f_ignored f) (f_nl f) (f_ind f) (f_cont f) 0 else f.

Lemma zf_nl f : f_nl (zf f) = f_nl f.
Proof. unfold zf. destruct (0 <? f_nl f); reflexivity. Qed.

Lemma zls_nth l t : nth_error (zero_line_starts l) t = option_map (fun p : ftoken => (fst p, zf (snd p))) (nth_error l t).
Proof.
  rewrite zero_line_starts_nth'. destruct (nth_error l t) as [[tok f]|]; [|reflexivity]. cbn [option_map fst snd]. unfold zf.
  destruct (0 <? f_nl f); reflexivity.
Qed.

(* the counters of a decided token do not change when the decisions are applied to what FormattingData::from reads of the
   whitespace emitted for their own result *)
Lemma final_fmt_stable ds d f f' mb tok :
  f_sp f' = f_sp f -> f_ignored f' = f_ignored f ->
  f_nl f' = u16_sat (emitted_nls mb tok (zf (fold_left apply_decision (ds ++ [d]) f))) ->
  fold_left apply_decision (ds ++ [d]) f' = fold_left apply_decision (ds ++ [d]) f.
Proof.
  intros Hsp Hig Hnl. rewrite !fold_left_app in *. cbn [fold_left] in *.
  set (g0 := fold_left apply_decision ds f) in *. set (g0' := fold_left apply_decision ds f') in *.
  assert (Ei : f_ignored g0' = f_ignored g0) by (subst g0 g0'; rewrite !fold_dec_ign; exact Hig).
  assert (Es : f_sp g0' = f_sp g0) by (subst g0 g0'; rewrite !fold_dec_sp; exact Hsp).
  destruct d as [[|] ind cont|]; cbn [apply_decision] in *; rewrite Ei, Es; [|reflexivity|reflexivity].
  f_equal. unfold emitted_nls in Hnl. rewrite zf_nl in Hnl. cbn [f_nl] in Hnl.
  pose proof (clamp12_range (f_nl g0)) as R. set (v := clamp12 (f_nl g0)) in *.
  assert (Ez : (v =? 0) = false) by (apply N.eqb_neq; lia). rewrite Ez, andb_false_r in Hnl. cbn [andb] in Hnl.
  assert (Ev : f_nl f' = v) by (rewrite Hnl; unfold u16_sat; lia).
  destruct (decs_nl_shape ds) as [C|C].
  - subst g0 g0' v. f_equal. apply C.
  - subst g0'. rewrite C, Ev. subst v. apply clamp12_idem.
Qed.

(* ------------------------------------------------------------------ *)
(* 2. the stages before the search, token by token *)
Lemma Forall2_nth_r {A B} (R : A -> B -> Prop) a b : Forall2 R a b ->
  forall i y, nth_error b i = Some y -> exists x, nth_error a i = Some x /\ R x y.
Proof. induction 1 as [|x y a b H _ IH]; intros [|i] z Hz; cbn in *; try discriminate; [injection Hz as <-; eauto|apply IH, Hz]. Qed.

Lemma nth_error_combine {A B} (a : list A) (b : list B) i x y :
  nth_error (combine a b) i = Some (x, y) -> nth_error a i = Some x /\ nth_error b i = Some y.
Proof.
  revert b i. induction a as [|a0 a IH]; intros [|b0 b] [|i] H; cbn in *; try discriminate; [injection H as <- <-; split; reflexivity|apply IH, H].
Qed.

Lemma fm_l0_nth_inv segs i tok f : nth_error (fm_l0 segs) i = Some (tok, f) ->
  nth_error (fm_toks segs) i = Some tok /\ exists m, nth_error (fm_marks segs) i = Some m /\ f = fmt_of_ws (t_ws tok) m.
Proof.
  unfold fm_l0. rewrite nth_error_map. destruct (nth_error (combine (fm_toks segs) (fm_marks segs)) i) as [[tk m]|] eqn:E; [|discriminate].
  cbn. intros H. assert (tk = tok /\ fmt_of_ws (t_ws tk) m = f) as [-> <-] by (split; congruence).
  apply nth_error_combine in E. destruct E as [E1 E2]. split; [exact E1|]. exists m. split; [exact E2|reflexivity].
Qed.

Lemma fm_l3_nth alnum segs i tok f : nth_error (fm_l0 segs) i = Some (tok, f) ->
  exists n, nth_error (fm_l3 alnum segs) i = Some (comment_tok alnum (lowercase_tok (tok, set_sp f n))).
Proof.
  intros H. unfold fm_l3, fm_l2, fm_l1, comment_formatter, lowercase_keywords. rewrite !nth_error_map.
  destruct (Forall2_nth_r _ _ _ (spacing_only_sp (fm_l0 segs)) i _ H) as ([t1 f1] & H1 & Hf & n & Hs). cbn [fst snd] in Hf, Hs. subst t1 f1.
  exists n. rewrite H1. reflexivity.
Qed.

Lemma eofnl_lines_once lines : forall l,
  eof_newline_lines lines l = if has_eof_line lines then eof_newline_once l else l.
Proof.
  unfold eof_newline_lines, has_eof_line. induction lines as [|ln r IH]; intros l; [reflexivity|]. cbn [fold_left existsb]. rewrite IH.
  destruct (ll_type ln IS LLT_Eof); cbn [orb]; [|reflexivity].
  destruct (existsb _ r); [apply eof_newline_once_idem|reflexivity].
Qed.

Definition eof_fmt (p : ftoken) : ftoken := (fst p, mkFmt (f_ignored (snd p)) 1 0 0 0).

Lemma eof_once_nth l i p : nth_error l i = Some p ->
  nth_error (eof_newline_once l) i = Some (if Nat.eqb (S i) (length l) && is_eof (t_ty (fst p)) then eof_fmt p else p).
Proof.
  intros H. unfold eof_newline_once. destruct (rev l) as [|[tok f] r] eqn:E.
  - assert (l = []) by (rewrite <- (rev_involutive l), E; reflexivity). subst l. destruct i; discriminate.
  - assert (El : l = rev r ++ [(tok, f)]) by (rewrite <- (rev_involutive l), E; reflexivity).
    assert (Hlen : length l = S (length (rev r))) by (rewrite El, app_length; cbn; lia).
    destruct (PeanoNat.Nat.lt_ge_cases i (length (rev r))) as [Hlt|Hge].
    + assert (Hne : Nat.eqb (S i) (length l) = false) by (apply PeanoNat.Nat.eqb_neq; lia). rewrite Hne. cbn [andb].
      destruct (is_eof (t_ty tok)); [|exact H]. rewrite nth_error_app1 by exact Hlt. rewrite El, nth_error_app1 in H by exact Hlt. exact H.
    + assert (Hi : i = length (rev r)).
      { assert (i < length l)%nat by (apply nth_error_Some; congruence). lia. }
      assert (Hp : p = (tok, f)).
      { rewrite El, nth_error_app2, Hi, PeanoNat.Nat.sub_diag in H by lia. cbn in H. congruence. }
      assert (Heq : Nat.eqb (S i) (length l) = true) by (apply PeanoNat.Nat.eqb_eq; lia). rewrite Heq. cbn [andb]. subst p. cbn [fst snd].
      destruct (is_eof (t_ty tok)); [|exact H]. rewrite nth_error_app2, Hi, PeanoNat.Nat.sub_diag by lia. reflexivity.
Qed.

Lemma fm_l4_nth alnum segs i p : nth_error (fm_l3 alnum segs) i = Some p ->
  nth_error (fm_l4 alnum segs) i = Some (if eof_set (fm_lines segs) (length segs) i (t_ty (fst p)) then eof_fmt p else p).
Proof.
  intros H. unfold fm_l4. rewrite eofnl_lines_once. unfold eof_set.
  assert (Hl : length (fm_l3 alnum segs) = length segs).
  { unfold fm_l3, fm_l2, fm_l1, comment_formatter, lowercase_keywords. rewrite !map_length. rewrite (proj2 (proj2 (proj2 (spacing_preserves _)))). apply fm_l0_length. }
  destruct (has_eof_line (fm_lines segs)); [|rewrite andb_false_r; exact H].
  rewrite andb_true_r, (eof_once_nth _ _ _ H), Hl. reflexivity.
Qed.

(* ------------------------------------------------------------------ *)
(* 3. the rewriters on an already rewritten text *)
Lemma comment_rewrite_idem_any alnum ty c c' : comment_rewrite alnum ty c = Some c' -> comment_rewrite alnum ty c' = None.
Proof.
  destruct ty as [| | | | |k| |k| |]; cbn [comment_rewrite]; try discriminate.
  - apply format_compiler_directive_idempotent.
  - apply format_compiler_directive_idempotent.
  - destruct k; try discriminate; apply format_line_comment_idempotent_any.
Qed.

Lemma comment_rewrite_keyword alnum ty c : is_keyword ty = true -> comment_rewrite alnum ty c = None.
Proof. destruct ty; try discriminate. reflexivity. Qed.

Definition norm_tok alnum (p : ftoken) : ftoken := comment_tok alnum (lowercase_tok p).

Lemma norm_tok_snd alnum p : snd (norm_tok alnum p) = snd p.
Proof.
  destruct p as [tok f]. unfold norm_tok. destruct (lowercase_tok (tok, f)) as [t1 f1] eqn:E.
  assert (f1 = f) by (pose proof (lowercase_tok_fmt tok f) as H; rewrite E in H; exact H). subst f1.
  rewrite comment_tok_unfold. destruct (f_ignored f); [reflexivity|]. destruct (comment_rewrite alnum (t_ty t1) (t_content t1)); reflexivity.
Qed.

Lemma norm_tok_ty alnum p : t_ty (fst (norm_tok alnum p)) = t_ty (fst p).
Proof.
  destruct p as [tok f]. unfold norm_tok.
  assert (H1 : t_ty (fst (lowercase_tok (tok, f))) = t_ty tok).
  { unfold lowercase_tok. destruct (f_ignored f); [reflexivity|]. destruct (_ && _); reflexivity. }
  destruct (lowercase_tok (tok, f)) as [t1 f1]. cbn [fst] in *. rewrite comment_tok_unfold.
  destruct (f_ignored f1); [exact H1|]. destruct (comment_rewrite alnum (t_ty t1) (t_content t1)); exact H1.
Qed.

(* a token with the type and the rewritten text of another is left as it is by both rewriters *)
Lemma norm_tok_fix alnum tok f tok2 f2 :
  f_ignored f = false -> f_ignored f2 = false ->
  t_ty tok2 = t_ty tok -> t_content tok2 = t_content (fst (norm_tok alnum (tok, f))) ->
  tok_sim (fst (norm_tok alnum (tok, f))) (fst (norm_tok alnum (tok2, f2))).
Proof.
  intros Hf Hf2 Hty Hc. unfold norm_tok, lowercase_tok in *. rewrite Hf in *. rewrite Hf2. rewrite Hty.
  destruct (is_keyword (t_ty tok)) eqn:K.
  - (* a keyword: the comment rewriter passes *)
    assert (G : forall t g, t_ty t = t_ty tok -> f_ignored g = false -> comment_tok alnum (t, g) = (t, g)).
    { intros t g Ht Hg. rewrite comment_tok_unfold, Hg, Ht, (comment_rewrite_keyword alnum _ _ K). reflexivity. }
    cbn [andb] in *.
    assert (Hup : existsb is_upper (t_content tok2) = false).
    { destruct (existsb is_upper (t_content tok)) eqn:U.
      - rewrite G in Hc by (assumption || reflexivity). cbn [fst set_content t_content] in Hc. rewrite Hc. apply existsb_is_upper_lower.
      - rewrite G in Hc by (assumption || reflexivity). cbn [fst] in Hc. rewrite Hc. exact U. }
    rewrite Hup. rewrite (G tok2 f2 Hty Hf2). cbn [fst].
    destruct (existsb is_upper (t_content tok)); rewrite G in * by (assumption || reflexivity); cbn [fst set_content t_ty t_content] in *; split; assumption.
  - cbn [andb] in *. rewrite comment_tok_unfold, Hf in *. rewrite comment_tok_unfold, Hf2, Hty.
    destruct (comment_rewrite alnum (t_ty tok) (t_content tok)) as [c'|] eqn:R; cbn [fst set_content t_content t_ty] in *.
    + rewrite Hc, (comment_rewrite_idem_any alnum _ _ _ R). cbn [fst]. split; assumption.
    + rewrite Hc, R. cbn [fst]. split; assumption.
Qed.

(* ------------------------------------------------------------------ *)
(* 3b. a comment that is not a toggle is not one after the comment rewriter either (so the second run ignores nothing) *)
Notation tcontents := parse_pasfmt_directive_comment_contents.

Lemma contents_app_stop x suf t : tcontents x = Some t -> stops is_alnum suf -> tcontents (x ++ suf) = Some t.
Proof.
  intros H Hs. apply contents_iff in H. destruct H as (ws1 & w & ws2 & word & rest & -> & H1 & Hw & Hne & H2 & Ha & Hr & Hl).
  apply contents_iff. exists ws1, w, ws2, word, (rest ++ suf). rewrite <- !app_assoc. split; [reflexivity|].
  repeat (split; [assumption|]). split; [|exact Hl]. destruct rest; [exact Hs|exact Hr].
Qed.

Lemma contents_ws_cons a x : is_ascii_ws a = true -> tcontents (a :: x) = tcontents x.
Proof. intros Ha. unfold parse_pasfmt_directive_comment_contents. cbn [count_while]. rewrite Ha. reflexivity. Qed.

Lemma contents_slash x : tcontents (47 :: x) = None.
Proof.
  unfold parse_pasfmt_directive_comment_contents, strip_prefix_icase, starts_with_icase. cbn [count_while]. change (is_ascii_ws 47) with false. cbn [skipn].
  destruct (Nat.leb (length pasfmt_word) (length (47 :: x))); [|reflexivity]. cbn [andb pasfmt_word length firstn lower map bytes_eqb].
  change (to_lower 47 =? to_lower 112) with false. reflexivity.
Qed.

Lemma blank_suffix_stops suf : strip suf = [] -> stops is_alnum suf.
Proof.
  destruct suf as [|b r]; [exact (fun _ => I)|]. rewrite strip_unfold. cbn [stops]. destruct (b <=? 32) eqn:E.
  - intros _. apply N.leb_le in E. unfold is_alnum, is_alpha, is_digit, is_upper, is_lower.
    repeat match goal with |- context [?a <=? ?b] => let X := fresh in destruct (a <=? b) eqn:X; [apply N.leb_le in X|]; try lia end; reflexivity.
  - destruct r as [|c [|d r']]; try discriminate. destruct ((b =? 227) && (c =? 128) && (d =? 128)) eqn:E3; [|discriminate].
    intros _. apply andb_true_iff in E3. destruct E3 as [E3 _]. apply andb_true_iff in E3. destruct E3 as [E3 _]. apply N.eqb_eq in E3. subst b. reflexivity.
Qed.

Lemma parse_toggle_trim x t : parse_toggle (trim_blank_end x) = Some t -> parse_toggle x = Some t.
Proof.
  intros H. destruct (trim_blank_end_spec x) as (suf & E & Hs & _).
  destruct (parse_toggle_inv _ _ H) as (pre & body & Hp & Eb & Hc). rewrite E, Eb, <- app_assoc.
  rewrite (parse_toggle_opener pre _ Hp). apply contents_app_stop; [exact Hc|apply blank_suffix_stops, Hs].
Qed.

Theorem format_line_comment_keeps_non_toggle alnum c c' t :
  format_line_comment alnum c = Some c' -> parse_toggle c' = Some t -> parse_toggle c = Some t.
Proof.
  unfold format_line_comment. destruct (strip_prefix [47; 47] c) as [c0|] eqn:E0; [|discriminate]. apply strip_prefix_some in E0.
  (* the "insert one space" candidate does not make a toggle *)
  assert (H1 : forall s, flc_new1 alnum c (flc_comment c0) = Some s -> parse_toggle s = Some t -> parse_toggle c = Some t).
  { intros s Hs Ht. unfold flc_new1 in Hs. destruct (flc_comment c0) as [|b r] eqn:Ef; [discriminate|].
    destruct (negb (is_ascii_ws b) && negb (comment_is_separator alnum (b :: r))); [|discriminate]. injection Hs as <-.
    unfold flc_comment in Ef. destruct c0 as [|x c0']; [discriminate|]. destruct (x =? 47) eqn:Ex.
    - exfalso. apply N.eqb_eq in Ex. subst x c. cbn [length app] in Ht.
      replace (S (S (S (length c0'))) - S (length r))%nat with 3%nat in Ht by (rewrite Ef; cbn [length]; lia). cbn [firstn app] in Ht.
      change (parse_toggle ([47; 47] ++ 47 :: [32] ++ b :: r) = Some t) in Ht. rewrite (parse_toggle_opener [47; 47] _ (or_introl eq_refl)), contents_slash in Ht. discriminate.
    - injection Ef as <- <-. subst c. cbn [length app] in Ht.
      replace (S (S (S (length c0'))) - S (length c0'))%nat with 2%nat in Ht by lia. cbn [firstn app] in Ht.
      change (parse_toggle ([47; 47] ++ 32 :: x :: c0') = Some t) in Ht. rewrite (parse_toggle_opener [47; 47] _ (or_introl eq_refl)), contents_ws_cons in Ht by reflexivity.
      rewrite (parse_toggle_opener [47; 47] _ (or_introl eq_refl)). exact Ht. }
  destruct (Nat.eqb (length (trim_blank_end c)) (length c)).
  - intros Hs. exact (H1 c' Hs).
  - intros Hs Ht. injection Hs as <-. apply parse_toggle_trim in Ht.
    destruct (flc_new1 alnum c (flc_comment c0)) as [s|] eqn:En; [exact (H1 s eq_refl Ht)|exact Ht].
Qed.

(* the token-level statement used below *)
Lemma norm_tok_keeps_non_toggle alnum tok f :
  f_ignored f = false -> is_comment (t_ty tok) = true -> parse_toggle (t_content tok) = None ->
  parse_toggle (t_content (fst (norm_tok alnum (tok, f)))) = None.
Proof.
  intros Hf Hc Hn. unfold norm_tok, lowercase_tok. rewrite Hf.
  assert (Hk : is_keyword (t_ty tok) = false) by (destruct (t_ty tok); try discriminate Hc; reflexivity).
  rewrite Hk. cbn [andb]. rewrite comment_tok_unfold, Hf.
  destruct (comment_rewrite alnum (t_ty tok) (t_content tok)) as [c'|] eqn:R; cbn [fst]; [|exact Hn]. cbn [set_content t_content].
  destruct (t_ty tok) as [| | | | |k| |k| |]; try discriminate Hc. cbn [comment_rewrite] in R.
  destruct (parse_toggle c') as [t|] eqn:Et; [|reflexivity].
  destruct k; try discriminate R; rewrite (format_line_comment_keeps_non_toggle alnum _ _ t R Et) in Hn; discriminate Hn.
Qed.

(* ------------------------------------------------------------------ *)
(* 4. the hypothesis *)
Definition rescan_ok alnum cfg (segs segs2 : list seg) : Prop :=
  map seg_ws segs2 = glue_list (cfg_rs cfg) false (fm_final alnum cfg segs)
  /\ map seg_content segs2 = map (fun p : ftoken => t_content (fst p)) (fm_final alnum cfg segs)
  /\ map seg_ty segs2 = map seg_ty segs.

Definition all_false (l : list bool) : Prop := forall m, In m l -> m = false.

(* hypotheses 1-4, 6, 7: what is asked of the first run (5, "the second run ignores nothing", follows: second_run_ignores_nothing) *)
Definition idem_hyp6 alnum cfg (segs segs2 : list seg) : Prop :=
  rescan_ok alnum cfg segs segs2
  /\ no_asm (map seg_ty segs)
  /\ all_false (fm_marks segs)
  /\ no_ml_rewrite cfg segs
  /\ (forall i p, nth_error (fm_l4 alnum segs) i = Some p ->
        decs_for i (fm_plan1 alnum cfg segs) <> [] \/ eof_set (fm_lines segs) (length segs) i (t_ty (fst p)) = true).

(* hypotheses 1-7 (the form of the first version of the theorem; 5 is redundant) *)
Definition idem_hyp7 alnum cfg (segs segs2 : list seg) : Prop :=
  rescan_ok alnum cfg segs segs2
  /\ no_asm (map seg_ty segs)
  /\ all_false (fm_marks segs) /\ all_false (fm_marks segs2)
  /\ no_ml_rewrite cfg segs
  /\ (forall i p, nth_error (fm_l4 alnum segs) i = Some p ->
        decs_for i (fm_plan1 alnum cfg segs) <> [] \/ eof_set (fm_lines segs) (length segs) i (t_ty (fst p)) = true).

(* hypothesis 8, for every token *)
Definition idem_hyp alnum cfg (segs segs2 : list seg) : Prop :=
  idem_hyp7 alnum cfg segs segs2 /\ sp_list (fm_l4 alnum segs2) = sp_list (fm_l4 alnum segs).

(* hypothesis 8, for the tokens that start a line in the output only (for the others it is a theorem: i_sp_continued) *)
Definition idem_hyp_starts alnum cfg (segs segs2 : list seg) : Prop :=
  idem_hyp7 alnum cfg segs segs2
  /\ (forall i p p' q, nth_error (fm_l4 alnum segs) i = Some p -> nth_error (fm_l4 alnum segs2) i = Some p' ->
        nth_error (fm_final alnum cfg segs) i = Some q -> (0 <? f_nl (snd q)) = true ->
        f_sp (snd p') = f_sp (snd p)).

(* the two forms without hypothesis 5 *)
Definition idem_hyp_min alnum cfg (segs segs2 : list seg) : Prop :=
  idem_hyp6 alnum cfg segs segs2 /\ sp_list (fm_l4 alnum segs2) = sp_list (fm_l4 alnum segs).
Definition idem_hyp_min_starts alnum cfg (segs segs2 : list seg) : Prop :=
  idem_hyp6 alnum cfg segs segs2
  /\ (forall i p p' q, nth_error (fm_l4 alnum segs) i = Some p -> nth_error (fm_l4 alnum segs2) i = Some p' ->
        nth_error (fm_final alnum cfg segs) i = Some q -> (0 <? f_nl (snd q)) = true ->
        f_sp (snd p') = f_sp (snd p)).

Lemma idem_hyp6_of_7 alnum cfg segs segs2 : idem_hyp7 alnum cfg segs segs2 -> idem_hyp6 alnum cfg segs segs2.
Proof. intros (A & B & C & _ & D & E). split; [exact A|]. split; [exact B|]. split; [exact C|]. split; [exact D|exact E]. Qed.

(* general facts used below *)
Lemma tokens_of_tys_gen : forall (a b : list seg) tys, length a = length b -> map t_ty (tokens_of a tys) = map t_ty (tokens_of b tys).
Proof.
  unfold tokens_of. induction a as [|x a IH]; intros [|y b] [|ty tys] H; cbn in H; try discriminate; try reflexivity.
  cbn [combine map]. f_equal. apply IH. congruence.
Qed.

Lemma retype_tys_gen : forall (a b : list token) tys, length a = length b -> map t_ty (Format.retype a tys) = map t_ty (Format.retype b tys).
Proof.
  unfold Format.retype. induction a as [|x a IH]; intros [|y b] [|ty tys] H; cbn in H; try discriminate; try reflexivity.
  cbn [combine map]. f_equal. apply IH. congruence.
Qed.

Lemma all_false_eq : forall a b : list bool, length a = length b -> all_false a -> all_false b -> a = b.
Proof.
  induction a as [|x a IH]; intros [|y b] H Ha Hb; cbn in H; try discriminate; [reflexivity|].
  rewrite (Ha x (or_introl eq_refl)), (Hb y (or_introl eq_refl)). f_equal.
  apply IH; [congruence|intros m Hm; apply Ha; right; exact Hm|intros m Hm; apply Hb; right; exact Hm].
Qed.

Lemma list_eq_nth {A} : forall a b : list A, (forall i, nth_error a i = nth_error b i) -> a = b.
Proof.
  induction a as [|x a IH]; intros [|y b] H; [reflexivity|discriminate (H O)|discriminate (H O)|].
  pose proof (H O) as H0. cbn in H0. injection H0 as <-. f_equal. apply IH. intros i. exact (H (S i)).
Qed.

Lemma glue_nth rs : forall l mb i q, nth_error l i = Some q -> exists mb', nth_error (glue_list rs mb l) i = Some (emit_ws rs mb' q).
Proof.
  induction l as [|p r IH]; intros mb [|i] q H; cbn in H; try discriminate.
  - injection H as <-. exists mb. reflexivity.
  - cbn [glue_list nth_error]. apply IH, H.
Qed.

Lemma cfg_rs_new cfg : exists crlf tabs iw cw, cfg_rs cfg = rs_new crlf tabs iw cw.
Proof. unfold cfg_rs, rs_of_config. destruct (c_tabs cfg); do 4 eexists; reflexivity. Qed.

Lemma fm_l3_length alnum segs : length (fm_l3 alnum segs) = length segs.
Proof.
  unfold fm_l3, fm_l2, fm_l1, comment_formatter, lowercase_keywords. rewrite !map_length.
  rewrite (proj2 (proj2 (proj2 (spacing_preserves _)))). apply fm_l0_length.
Qed.

Lemma fm_l4_length alnum segs : length (fm_l4 alnum segs) = length segs.
Proof.
  unfold fm_l4. rewrite eofnl_lines_once. destruct (has_eof_line _); [|apply fm_l3_length].
  rewrite <- (fm_l3_length alnum segs). symmetry. exact (Forall2_length (eof_newline_once_rel _)).
Qed.

Lemma olf_false_unfold rs W lines l :
  fst (fst (olf_model rs W false lines l))
  = zero_line_starts (apply_plan (plan_of_events (rev (ss_log (wrap_phase1 W (map tokinfo_of l) lines)))) l).
Proof. reflexivity. Qed.

(* with the string stage off, or nothing for it to do, the wrapper is its first phase *)
Lemma fm_final_phase1 alnum cfg segs : no_ml_rewrite cfg segs ->
  fm_final alnum cfg segs = zero_line_starts (apply_plan (fm_plan1 alnum cfg segs) (fm_l4 alnum segs))
  /\ snd (fm_wrap alnum cfg segs) = snd (olf_model (cfg_rs cfg) (cfg_ws cfg) false (fm_lines segs) (fm_l4 alnum segs)).
Proof.
  intros Hn. unfold fm_final, fm_wrap, fm_plan1. rewrite <- olf_false_unfold with (rs := cfg_rs cfg).
  destruct (c_fms cfg) eqn:Ef; [|split; reflexivity].
  destruct Hn as [Hf|Hn]; [rewrite Hf in Ef; discriminate|].
  destruct (olf_model_no_ml (cfg_rs cfg) (cfg_ws cfg) (fm_lines segs) (fm_l4 alnum segs) (fm_l4_no_ml alnum segs Hn)) as (A1 & _ & A3).
  split; assumption.
Qed.

(* facts about TokenSpacing used for the tokens that continue a line *)
Lemma map_combine_fst {A B C} (g : A -> C) : forall (a : list A) (b : list B), length a = length b ->
  map (fun x : A * B => g (fst x)) (combine a b) = map g a.
Proof. induction a as [|x a IH]; intros [|y b] H; cbn in H; try discriminate; [reflexivity|]. cbn [combine map fst]. rewrite IH by congruence. reflexivity. Qed.

Lemma fm_l0_types sg : types (fm_l0 sg) = fm_tys sg.
Proof.
  unfold types, fm_l0, fm_tys. rewrite map_map. unfold ty_of. cbn [fst].
  apply (map_combine_fst t_ty). rewrite fm_toks_length, fm_marks_length. reflexivity.
Qed.

Lemma gap_fn_bound tl tr pr o : gap_fn tl tr pr o <= N.max 1 o.
Proof.
  destruct (keeps_orig tl tr pr) eqn:K; [rewrite (gap_keeps_orig _ _ _ _ K); lia|].
  pose proof (gap_le_1 tl tr pr o K). lia.
Qed.

Lemma fmt_of_ws_sp_bound ws ign : f_sp (fmt_of_ws ws ign) <= 65535.
Proof. unfold fmt_of_ws, u16_sat. cbn [f_sp]. lia. Qed.

Lemma fm_l3_of_l1 alnum sg i : nth_error (fm_l3 alnum sg) i = option_map (norm_tok alnum) (nth_error (fm_l1 sg) i).
Proof.
  unfold fm_l3, fm_l2, comment_formatter, lowercase_keywords. rewrite !nth_error_map.
  destruct (nth_error (fm_l1 sg) i); reflexivity.
Qed.

(* spaces_before after TokenSpacing, token by token *)
Lemma fm_l1_sp sg i tok f : nth_error (fm_l0 sg) i = Some (tok, f) ->
  exists n, nth_error (fm_l1 sg) i = Some (tok, set_sp f n)
    /\ match i with
       | O => n = 0
       | S j => exists tl fl, nth_error (fm_l0 sg) j = Some (tl, fl) /\ n = gap_fn (t_ty tl) (t_ty tok) (prev_real_at (fm_l0 sg) j) (f_sp f)
       end.
Proof.
  intros H. unfold fm_l1. destruct i as [|j].
  - destruct (fm_l0 sg) as [|p0 r] eqn:E; [discriminate H|]. cbn in H. injection H as ->. rewrite spacing_closed_form. cbn [nth_error fst snd].
    exists 0. split; reflexivity.
  - destruct (nth_error (fm_l0 sg) j) as [[tl fl]|] eqn:Ej.
    + eexists. split; [exact (spacing_gap_local _ j tl fl tok f Ej H)|]. exists tl, fl. split; reflexivity.
    + exfalso. apply nth_error_None in Ej. assert (S j < length (fm_l0 sg))%nat by (apply nth_error_Some; congruence). lia.
Qed.

Section Idem.
Variable alnum : bytes -> bool.
Variable cfg : fconfig.
Variables segs segs2 : list seg.
Hypothesis Hyp : idem_hyp6 alnum cfg segs segs2.

Let Hws : map seg_ws segs2 = glue_list (cfg_rs cfg) false (fm_final alnum cfg segs) := proj1 (proj1 Hyp).
Let Hcs : map seg_content segs2 = map (fun p : ftoken => t_content (fst p)) (fm_final alnum cfg segs) := proj1 (proj2 (proj1 Hyp)).
Let Hty : map seg_ty segs2 = map seg_ty segs := proj2 (proj2 (proj1 Hyp)).
Let Hnoasm : no_asm (map seg_ty segs) := proj1 (proj2 Hyp).
Let Hm1 : all_false (fm_marks segs) := proj1 (proj2 (proj2 Hyp)).
Let Hml : no_ml_rewrite cfg segs := proj1 (proj2 (proj2 (proj2 Hyp))).
Let Hdec := proj2 (proj2 (proj2 (proj2 Hyp))).

Lemma i_len : length segs2 = length segs.
Proof. rewrite <- (map_length seg_ty segs2), Hty. apply map_length. Qed.

Lemma i_parse : fm_parse segs2 = fm_parse segs.
Proof. unfold fm_parse. rewrite Hty. apply parse_file_model_wsnl_irrelevant, Hnoasm. Qed.

Lemma i_tys0 : map t_ty (fm_toks0 segs2) = map t_ty (fm_toks0 segs).
Proof. unfold fm_toks0. rewrite i_parse. apply tokens_of_tys_gen, i_len. Qed.

Lemma i_tys : fm_tys segs2 = fm_tys segs.
Proof. unfold fm_tys, fm_toks. rewrite i_tys0. apply retype_tys_gen. rewrite !fm_toks0_length. apply i_len. Qed.

Lemma i_lines0 : fm_lines0 segs2 = fm_lines0 segs.
Proof. unfold fm_lines0, fm_lines_cd. rewrite i_tys, i_parse. reflexivity. Qed.

Lemma mark_false (sg : list seg) i : all_false (fm_marks sg) -> (i < length sg)%nat -> nth_error (fm_marks sg) i = Some false.
Proof.
  intros Ha Hi. destruct (nth_error (fm_marks sg) i) as [m|] eqn:E; [|apply nth_error_None in E; rewrite fm_marks_length in E; lia].
  rewrite (Ha m (nth_error_In _ _ E)). reflexivity.
Qed.

(* token i of the second run: the type of token i of the first run, and its text after the two rewriters *)
Lemma i_toks2 i tok : nth_error (fm_toks segs) i = Some tok ->
  exists tok2 f, nth_error (fm_toks segs2) i = Some tok2 /\ f_ignored f = false /\ t_ty tok2 = t_ty tok
                 /\ t_content tok2 = t_content (fst (norm_tok alnum (tok, f))).
Proof.
  intros Ht. assert (Hi : (i < length segs)%nat) by (rewrite <- (fm_toks_length segs); apply nth_error_Some; congruence).
  destruct (nth_error segs i) as [sg|] eqn:Es; [|apply nth_error_None in Es; lia].
  destruct (nth_error segs2 i) as [sg2|] eqn:Es2; [|apply nth_error_None in Es2; rewrite i_len in Es2; lia].
  destruct (nth_error (fm_final alnum cfg segs) i) as [q|] eqn:Eq; [|apply nth_error_None in Eq; rewrite fm_final_length in Eq; lia].
  destruct (fm_l0_nth segs i sg false Es (mark_false segs i Hm1 Hi)) as (tok0 & H0 & _ & _).
  assert (tok0 = tok) by (destruct (fm_l0_nth_inv segs i _ _ H0) as (T & _); congruence). subst tok0.
  destruct (fm_l3_nth alnum segs i tok _ H0) as (n & H3). fold (norm_tok alnum (tok, set_sp (fmt_of_ws (seg_ws sg) false) n)) in H3.
  pose proof (fm_l4_nth alnum segs i _ H3) as H4.
  set (f := set_sp (fmt_of_ws (seg_ws sg) false) n) in *.
  match type of H4 with nth_error _ _ = Some ?p => set (p4 := p) in * end.
  assert (E4 : fst p4 = fst (norm_tok alnum (tok, f))) by (subst p4; destruct (eof_set _ _ _ _); reflexivity).
  destruct (proj2 (wrap_same_tok alnum cfg segs Hml) i p4 H4) as (q' & Hq' & Sq & _). assert (q' = q) by congruence. subst q'.
  destruct (fm_toks_nth segs2 i sg2 Es2) as (tok2 & Ht2 & _ & Hc2).
  exists tok2, f. split; [exact Ht2|]. split; [reflexivity|]. split.
  - pose proof (map_nth_error t_ty i _ Ht) as M. pose proof (map_nth_error t_ty i _ Ht2) as M'.
    fold (fm_tys segs) in M. fold (fm_tys segs2) in M'. rewrite i_tys, M in M'. congruence.
  - rewrite Hc2. pose proof (map_nth_error seg_content i segs2 Es2) as M. rewrite Hcs, (map_nth_error _ i _ Eq) in M.
    rewrite <- E4, <- Sq. congruence.
Qed.

Lemma toggle_marks_false_no_toggle : forall l, all_false (toggle_marks false l) -> Forall (fun t => tok_toggle t = None) l.
Proof.
  induction l as [|tok r IH]; intros H; [constructor|]. rewrite toggle_marks_cons in H.
  pose proof (H _ (or_introl eq_refl)) as H0. apply orb_false_iff in H0. destruct H0 as [Hn Hi].
  assert (Ht : tok_toggle tok = None).
  { unfold is_toggle_tok in Hi. destruct (tok_toggle tok); [discriminate Hi|reflexivity]. }
  constructor; [exact Ht|]. apply IH. intros m Hm. apply H. right. rewrite Hn. exact Hm.
Qed.

(* hypothesis 5 of the first version: the second run ignores nothing *)
Lemma i_marks2 : all_false (fm_marks segs2).
Proof.
  assert (Hl0 : length (fm_toks0 segs2) = length (fm_toks0 segs)) by (rewrite !fm_toks0_length; apply i_len).
  assert (Hl : length (fm_toks segs2) = length (fm_toks segs)) by (rewrite !fm_toks_length; apply i_len).
  (* the first run: no toggle comment, no asm mark *)
  pose proof Hm1 as Hm. unfold fm_marks in Hm.
  set (z := map (fun _ : token => false) (fm_toks0 segs)) in *.
  set (tg := or_marks z (toggle_marks false (fm_toks segs))) in *.
  assert (Hlen : length tg = length (asm_marks (fm_toks segs) (map line_view (fm_lines0 segs)))).
  { subst tg z. rewrite or_marks_length; rewrite ?map_length, ?toggle_marks_length, ?asm_marks_length, ?fm_toks0_length, ?fm_toks_length; reflexivity. }
  destruct (or_marks_all_false _ _ Hlen Hm) as [Htg Hasm].
  assert (Hlz : length z = length (toggle_marks false (fm_toks segs))) by (subst z; rewrite map_length, toggle_marks_length, fm_toks0_length, fm_toks_length; reflexivity).
  destruct (or_marks_all_false _ _ Hlz Htg) as [_ Htog].
  pose proof (toggle_marks_false_no_toggle _ Htog) as Hnt.
  (* the second run *)
  assert (Hnt2 : Forall (fun t => tok_toggle t = None) (fm_toks segs2)).
  { apply Forall_forall. intros tok2 Hin. apply In_nth_error in Hin. destruct Hin as (i & Hi2).
    assert (Hi : (i < length (fm_toks segs))%nat) by (rewrite <- Hl; apply nth_error_Some; congruence).
    destruct (nth_error (fm_toks segs) i) as [tok|] eqn:Et; [|apply nth_error_None in Et; lia].
    destruct (i_toks2 i tok Et) as (tok2' & f & Ht2 & Hf & Hty2 & Hc2). assert (tok2' = tok2) by congruence. subst tok2'.
    pose proof (proj1 (Forall_forall _ _) Hnt tok (nth_error_In _ _ Et)) as Hn. unfold tok_toggle in *. rewrite Hty2.
    destruct (is_comment (t_ty tok)) eqn:Ec; [|reflexivity]. rewrite Hc2. exact (norm_tok_keeps_non_toggle alnum tok f Hf Ec Hn). }
  pose proof (asm_base_le _ _ Hasm) as Hbase.
  assert (Hbase' : forall m, In m (asm_base (fm_toks segs2) (map line_view (fm_lines0 segs))) -> m = false) by (unfold asm_base in *; rewrite Hl; exact Hbase).
  pose proof (asm_marks_none _ _ Hbase') as Hasm'.
  unfold fm_marks. rewrite i_lines0. intros m Hin. unfold or_marks in Hin. apply in_map_iff in Hin. destruct Hin as ([x y] & <- & Hxy). cbn [fst snd].
  pose proof (in_combine_l _ _ _ _ Hxy) as Hx. pose proof (in_combine_r _ _ _ _ Hxy) as Hy. rewrite (Hasm' y Hy), orb_false_r.
  apply in_map_iff in Hx. destruct Hx as ([a b] & <- & Hab). cbn [fst snd].
  pose proof (in_combine_l _ _ _ _ Hab) as Ha0. pose proof (in_combine_r _ _ _ _ Hab) as Hb.
  rewrite (proj1 (toggle_marks_no_toggle false _ Hnt2)) in Hb. apply repeat_spec in Hb. subst b. rewrite orb_false_r.
  apply in_map_iff in Ha0. destruct Ha0 as (t & <- & _). reflexivity.
Qed.
Let Hm2 : all_false (fm_marks segs2) := i_marks2.

Lemma i_marks : fm_marks segs2 = fm_marks segs.
Proof. apply all_false_eq; [rewrite !fm_marks_length; apply i_len|exact Hm2|exact Hm1]. Qed.

Lemma i_lines : fm_lines segs2 = fm_lines segs.
Proof. unfold fm_lines. rewrite i_marks, i_lines0. reflexivity. Qed.

Lemma i_ml : no_ml_rewrite cfg segs2.
Proof.
  destruct Hml as [Hf|Hn]; [left; exact Hf|right]. intros tok Hin.
  assert (Hin2 : In (t_ty tok) (fm_tys segs)) by (rewrite <- i_tys; unfold fm_tys; apply in_map, Hin).
  unfold fm_tys in Hin2. apply in_map_iff in Hin2. destruct Hin2 as (tok0 & E & H0). rewrite <- E. apply Hn, H0.
Qed.


(* the two token vectors in front of TokenSpacing *)
Lemma i_l0 i : (i < length segs)%nat ->
  exists tok f tok' f' q mb,
    nth_error (fm_l0 segs) i = Some (tok, f) /\ nth_error (fm_l0 segs2) i = Some (tok', f')
    /\ f_ignored f = false /\ f_ignored f' = false /\ t_ty tok' = t_ty tok
    /\ nth_error (fm_final alnum cfg segs) i = Some q /\ t_content tok' = t_content (fst q)
    /\ f' = fmt_of_ws (emit_ws (cfg_rs cfg) mb q) false.
Proof.
  intros Hi.
  destruct (nth_error segs i) as [sg|] eqn:Es; [|apply nth_error_None in Es; lia].
  destruct (nth_error segs2 i) as [sg2|] eqn:Es2; [|apply nth_error_None in Es2; rewrite i_len in Es2; lia].
  destruct (nth_error (fm_final alnum cfg segs) i) as [q|] eqn:Eq; [|apply nth_error_None in Eq; rewrite fm_final_length in Eq; lia].
  destruct (fm_l0_nth segs i sg false Es (mark_false segs i Hm1 Hi)) as (tok & H0 & _ & _).
  assert (Hi2 : (i < length segs2)%nat) by (rewrite i_len; exact Hi).
  destruct (fm_l0_nth segs2 i sg2 false Es2 (mark_false segs2 i Hm2 Hi2)) as (tok' & H0' & _ & Hc').
  destruct (glue_nth (cfg_rs cfg) _ false i q Eq) as (mb & Hg).
  assert (Hw2 : seg_ws sg2 = emit_ws (cfg_rs cfg) mb q).
  { pose proof (map_nth_error seg_ws i segs2 Es2) as M. rewrite Hws, Hg in M. congruence. }
  assert (Hc2 : seg_content sg2 = t_content (fst q)).
  { pose proof (map_nth_error seg_content i segs2 Es2) as M. rewrite Hcs, (map_nth_error _ i _ Eq) in M. congruence. }
  exists tok, (fmt_of_ws (seg_ws sg) false), tok', (fmt_of_ws (seg_ws sg2) false), q, mb.
  split; [exact H0|]. split; [exact H0'|]. split; [reflexivity|]. split; [reflexivity|]. split.
  - destruct (fm_l0_nth_inv segs i _ _ H0) as (T & _). destruct (fm_l0_nth_inv segs2 i _ _ H0') as (T' & _).
    pose proof (map_nth_error t_ty i _ T) as M. pose proof (map_nth_error t_ty i _ T') as M'.
    fold (fm_tys segs) in M. fold (fm_tys segs2) in M'. rewrite i_tys, M in M'. congruence.
  - split; [reflexivity|]. split; [rewrite Hc'; exact Hc2|]. rewrite Hw2. reflexivity.
Qed.

(* the two token vectors in front of the search *)
Lemma i_l4 i p : nth_error (fm_l4 alnum segs) i = Some p ->
  exists p' q mb,
    nth_error (fm_l4 alnum segs2) i = Some p' /\ nth_error (fm_final alnum cfg segs) i = Some q
    /\ fst q = fst p /\ f_ignored (snd q) = false
    /\ tok_sim (fst p) (fst p') /\ f_ignored (snd p) = false /\ f_ignored (snd p') = false
    /\ (eof_set (fm_lines segs) (length segs) i (t_ty (fst p)) = true -> snd p' = snd p)
    /\ (eof_set (fm_lines segs) (length segs) i (t_ty (fst p)) = false -> f_nl (snd p') = u16_sat (emitted_nls mb (fst q) (snd q))).
Proof.
  intros Hp. assert (Hi : (i < length segs)%nat) by (rewrite <- (fm_l4_length alnum segs); apply nth_error_Some; congruence).
  destruct (i_l0 i Hi) as (tok & f & tok' & f' & q & mb & H0 & H0' & Hf & Hf' & Hty' & Hq & Hc & Hg).
  destruct (fm_l3_nth alnum segs i tok f H0) as (n & H3). destruct (fm_l3_nth alnum segs2 i tok' f' H0') as (n' & H3').
  fold (norm_tok alnum (tok, set_sp f n)) in H3. fold (norm_tok alnum (tok', set_sp f' n')) in H3'.
  pose proof (fm_l4_nth alnum segs i _ H3) as H4. pose proof (fm_l4_nth alnum segs2 i _ H3') as H4'.
  rewrite i_lines, i_len, !norm_tok_ty in H4'. rewrite !norm_tok_ty in H4. cbn [fst] in H4, H4'. rewrite Hty' in H4'.
  set (e := eof_set (fm_lines segs) (length segs) i (t_ty tok)) in *.
  assert (Ep : p = if e then eof_fmt (norm_tok alnum (tok, set_sp f n)) else norm_tok alnum (tok, set_sp f n)) by congruence.
  assert (Efst : fst p = fst (norm_tok alnum (tok, set_sp f n))) by (rewrite Ep; destruct e; reflexivity).
  assert (Etyp : t_ty (fst p) = t_ty tok) by (rewrite Efst, norm_tok_ty; reflexivity).
  destruct (proj2 (wrap_same_tok alnum cfg segs Hml) i p Hp) as (q' & Hq' & Sq & Iq).
  assert (q' = q) by congruence. subst q'.
  assert (Hsf : f_ignored (set_sp f n) = false) by (destruct f; exact Hf).
  assert (Hsf' : f_ignored (set_sp f' n') = false) by (destruct f'; exact Hf').
  assert (Hc' : t_content tok' = t_content (fst (norm_tok alnum (tok, set_sp f n)))) by (rewrite Hc, Sq, Efst; reflexivity).
  pose proof (norm_tok_fix alnum tok (set_sp f n) tok' (set_sp f' n') Hsf Hsf' Hty' Hc') as Hsim.
  assert (Ip : f_ignored (snd p) = false).
  { rewrite Ep. destruct e; [unfold eof_fmt; cbn [snd f_ignored]|]; rewrite norm_tok_snd; exact Hsf. }
  eexists _, q, mb. split; [exact H4'|]. split; [exact Hq|]. split; [exact Sq|]. split; [rewrite Iq; exact Ip|].
  rewrite Etyp. fold e. split; [|split; [exact Ip|]].
  - rewrite Efst. destruct e; exact Hsim.
  - split; [destruct e; [unfold eof_fmt; cbn [snd f_ignored]|]; rewrite norm_tok_snd; exact Hsf'|].
    split; intros He; rewrite He.
    + rewrite Ep, He. unfold eof_fmt. cbn [snd]. rewrite !norm_tok_snd. cbn [snd]. rewrite Hsf, Hsf'. reflexivity.
    + rewrite norm_tok_snd. cbn [snd]. destruct (cfg_rs_new cfg) as (crlf & tabs & iw & cw & Ers).
      assert (Enl : f_nl (set_sp f' n') = f_nl f') by (destruct f'; reflexivity). rewrite Enl, Hg, Ers.
      destruct q as [tq fq]. cbn [fst snd] in *. rewrite (fmt_of_emit_ws crlf tabs iw cw mb tq fq false) by (rewrite Iq; exact Ip). reflexivity.
Qed.

(* hypothesis 8 holds by itself for a token that continues its line in the output: the second TokenSpacing reads the count the first
   one wrote (FormattingData::from of the emitted blanks) and the gap rule is idempotent *)
Lemma i_sp_continued i p p' q :
  nth_error (fm_l4 alnum segs) i = Some p -> nth_error (fm_l4 alnum segs2) i = Some p' ->
  nth_error (fm_final alnum cfg segs) i = Some q -> (0 <? f_nl (snd q)) = false ->
  eof_set (fm_lines segs) (length segs) i (t_ty (fst p)) = false ->
  f_sp (snd p') = f_sp (snd p).
Proof.
  intros Hp Hp' Hq Hnl He.
  assert (Hi : (i < length segs)%nat) by (rewrite <- (fm_l4_length alnum segs); apply nth_error_Some; congruence).
  destruct (i_l0 i Hi) as (tok & f & tok' & f' & q0 & mb & H0 & H0' & Hf & Hf' & Hty' & Hq0 & Hc & Hg).
  assert (q0 = q) by congruence. subst q0.
  destruct (fm_l1_sp segs i tok f H0) as (n & H1 & Hn). destruct (fm_l1_sp segs2 i tok' f' H0') as (n' & H1' & Hn').
  (* the vectors in front of the search at i *)
  pose proof (fm_l3_of_l1 alnum segs i) as H3. rewrite H1 in H3. cbn [option_map] in H3.
  pose proof (fm_l3_of_l1 alnum segs2 i) as H3'. rewrite H1' in H3'. cbn [option_map] in H3'.
  pose proof (fm_l4_nth alnum segs i _ H3) as H4. pose proof (fm_l4_nth alnum segs2 i _ H3') as H4'.
  rewrite i_lines, i_len, !norm_tok_ty in H4'. rewrite !norm_tok_ty in H4. cbn [fst] in H4, H4'. rewrite Hty' in H4'.
  assert (Ety : t_ty (fst p) = t_ty tok).
  { pose proof (eq_trans (eq_sym Hp) H4) as E. injection E as ->. destruct (eof_set _ _ _ _); [unfold eof_fmt; cbn [fst]|]; apply norm_tok_ty. }
  rewrite Ety in He. rewrite He in H4, H4'.
  assert (Ep : p = norm_tok alnum (tok, set_sp f n)) by congruence. assert (Ep' : p' = norm_tok alnum (tok', set_sp f' n')) by congruence.
  assert (Sp : f_sp (snd p) = n) by (rewrite Ep, norm_tok_snd; destruct f; reflexivity).
  assert (Sp' : f_sp (snd p') = n') by (rewrite Ep', norm_tok_snd; destruct f'; reflexivity).
  rewrite Sp, Sp'. destruct i as [|j]; [congruence|].
  destruct Hn as (tl & fl & Ej & ->). destruct Hn' as (tl' & fl' & Ej' & ->).
  (* same types on the left, same previous real token *)
  assert (Etl : t_ty tl' = t_ty tl).
  { pose proof (map_nth_error ty_of j _ Ej) as M. pose proof (map_nth_error ty_of j _ Ej') as M'. fold (types (fm_l0 segs)) in M. fold (types (fm_l0 segs2)) in M'.
    rewrite fm_l0_types in M, M'. rewrite i_tys, M in M'. unfold ty_of in M'. cbn [fst] in M'. congruence. }
  assert (Epr : prev_real_at (fm_l0 segs2) j = prev_real_at (fm_l0 segs) j) by (unfold prev_real_at; rewrite !fm_l0_types, i_tys; reflexivity).
  rewrite Etl, Epr, Hty'.
  (* the count the second run reads is the count the first run wrote *)
  set (g := gap_fn (t_ty tl) (t_ty tok) (prev_real_at (fm_l0 segs) j) (f_sp f)) in *.
  assert (Hg65 : g <= 65535).
  { destruct (fm_l0_nth_inv segs (S j) tok f H0) as (_ & m & _ & ->). pose proof (fmt_of_ws_sp_bound (t_ws tok) m).
    pose proof (gap_fn_bound (t_ty tl) (t_ty tok) (prev_real_at (fm_l0 segs) j) (f_sp (fmt_of_ws (t_ws tok) m))). subst g. lia. }
  assert (Hq' : snd q = mkFmt (f_ignored (snd p)) 0 0 0 g).
  { pose proof Hq as Hq1. rewrite (proj1 (fm_final_phase1 alnum cfg segs Hml)), zls_nth, apply_plan_nth, Hp in Hq1. cbn [option_map fst snd] in Hq1.
    injection Hq1 as <-. cbn [snd] in *. rewrite zf_nl in Hnl.
    destruct (Hdec (S j) p Hp) as [Hd|Hd]; [|rewrite Ety, He in Hd; discriminate].
    destruct (exists_last Hd) as (ds & d & Hds). rewrite Hds in *. rewrite last_decision_nl in Hnl.
    destruct d as [first ind cont|]; [discriminate Hnl|]. rewrite fold_left_app. cbn [fold_left apply_decision]. unfold zf. cbn [f_nl N.ltb N.compare].
    rewrite fold_dec_ign, fold_dec_sp, Sp. reflexivity. }
  assert (Hf'sp : f_sp f' = g).
  { rewrite Hg. destruct (cfg_rs_new cfg) as (crlf & tabs & iw & cw & Ers). rewrite Ers. destruct q as [tq fq]. cbn [snd] in Hq'. subst fq.
    assert (Ip : f_ignored (snd p) = false) by (rewrite Ep, norm_tok_snd; destruct f; exact Hf).
    rewrite (fmt_of_emit_ws crlf tabs iw cw mb tq _ false) by (cbn [f_ignored]; exact Ip). cbn [f_sp f_ind f_cont]. unfold u16_sat. lia. }
  rewrite Hf'sp. apply gap_idem.
Qed.

(* so hypothesis 8 for the line starts gives it for every token *)
Lemma i_sp_from_starts :
  (forall i p p' q, nth_error (fm_l4 alnum segs) i = Some p -> nth_error (fm_l4 alnum segs2) i = Some p' ->
     nth_error (fm_final alnum cfg segs) i = Some q -> (0 <? f_nl (snd q)) = true -> f_sp (snd p') = f_sp (snd p)) ->
  sp_list (fm_l4 alnum segs2) = sp_list (fm_l4 alnum segs).
Proof.
  intros Hst. apply list_eq_nth. intros i. unfold sp_list. rewrite !nth_error_map.
  destruct (nth_error (fm_l4 alnum segs) i) as [p|] eqn:E.
  - destruct (i_l4 i p E) as (p' & q & mb & H' & Hq & _ & _ & _ & _ & _ & Heq & _). rewrite H'. cbn [option_map]. f_equal.
    destruct (eof_set (fm_lines segs) (length segs) i (t_ty (fst p))) eqn:Ee; [rewrite (Heq eq_refl); reflexivity|].
    destruct (0 <? f_nl (snd q)) eqn:Enl; [exact (Hst i p p' q E H' Hq Enl)|exact (i_sp_continued i p p' q E H' Hq Enl Ee)].
  - apply nth_error_None in E. rewrite fm_l4_length in E.
    assert (E' : nth_error (fm_l4 alnum segs2) i = None) by (apply nth_error_None; rewrite fm_l4_length, i_len; exact E).
    rewrite E'. reflexivity.
Qed.

Hypothesis Hsp : sp_list (fm_l4 alnum segs2) = sp_list (fm_l4 alnum segs).

Lemma i_sp i p p' : nth_error (fm_l4 alnum segs) i = Some p -> nth_error (fm_l4 alnum segs2) i = Some p' -> f_sp (snd p') = f_sp (snd p).
Proof.
  intros H H'. pose proof (f_equal (fun l => nth_error l i) Hsp) as E. cbn beta in E. unfold sp_list in E.
  rewrite (map_nth_error _ i _ H), (map_nth_error _ i _ H') in E. congruence.
Qed.

(* the search reads the same *)
Lemma i_infos : map tokinfo_of (fm_l4 alnum segs2) = map tokinfo_of (fm_l4 alnum segs).
Proof.
  apply list_eq_nth. intros i. rewrite !nth_error_map.
  destruct (nth_error (fm_l4 alnum segs) i) as [p|] eqn:E.
  - destruct (i_l4 i p E) as (p' & q & mb & H' & _ & _ & _ & (Ht & Hc) & _). rewrite H'. cbn [option_map]. f_equal.
    unfold tokinfo_of, ml_measure. rewrite Ht, Hc, (i_sp i p p' E H'). reflexivity.
  - apply nth_error_None in E. rewrite fm_l4_length in E.
    assert (E' : nth_error (fm_l4 alnum segs2) i = None) by (apply nth_error_None; rewrite fm_l4_length, i_len; exact E).
    rewrite E'. reflexivity.
Qed.

Lemma i_plan : fm_plan1 alnum cfg segs2 = fm_plan1 alnum cfg segs.
Proof. unfold fm_plan1. rewrite i_infos, i_lines. reflexivity. Qed.

Lemma i_wrap_err : snd (fm_wrap alnum cfg segs2) = snd (fm_wrap alnum cfg segs).
Proof.
  rewrite (proj2 (fm_final_phase1 alnum cfg segs2 i_ml)), (proj2 (fm_final_phase1 alnum cfg segs Hml)), i_lines.
  exact (proj2 (olf_phase1_events_read (cfg_rs cfg) (cfg_rs cfg) (cfg_ws cfg) (fm_lines segs) _ _ i_infos)).
Qed.

(* the second run's final vector is the first run's, up to the leading whitespace text *)
Lemma i_final : ws_sim (fm_final alnum cfg segs) (fm_final alnum cfg segs2).
Proof.
  apply pointwise_Forall2. split; [rewrite !fm_final_length; apply i_len|]. intros i qf Hqf.
  rewrite (proj1 (fm_final_phase1 alnum cfg segs2 i_ml)), i_plan. pose proof Hqf as Hqf0.
  rewrite (proj1 (fm_final_phase1 alnum cfg segs Hml)) in Hqf. rewrite zls_nth, apply_plan_nth in Hqf. rewrite zls_nth, apply_plan_nth.
  destruct (nth_error (fm_l4 alnum segs) i) as [p|] eqn:E; [|discriminate Hqf]. cbn [option_map fst snd] in Hqf.
  destruct (i_l4 i p E) as (p' & q & mb & H' & Hq & Sq & Iq & Hsim & Ip & Ip' & Heq & Hnl). rewrite H'. cbn [option_map fst snd].
  eexists. split; [reflexivity|]. assert (q = qf) by congruence. subst qf. injection Hqf as Hqf. subst q. cbn [fst snd] in *.
  split; [exact Hsim|]. cbn [snd]. f_equal.
  destruct (eof_set (fm_lines segs) (length segs) i (t_ty (fst p))) eqn:Ee.
  - rewrite (Heq eq_refl). reflexivity.
  - destruct (Hdec i p E) as [Hd|Hd]; [|rewrite Ee in Hd; discriminate].
    destruct (exists_last Hd) as (ds & d & Hds). rewrite Hds in *.
    apply (final_fmt_stable ds d (snd p) (snd p') mb (fst p)); [exact (i_sp i p p' E H')|rewrite Ip, Ip'; reflexivity|exact (Hnl eq_refl)].
Qed.

Lemma i_out : fm_out alnum cfg segs2 = fm_out alnum cfg segs.
Proof.
  unfold fm_out, reconstruct. apply recon_ws; [exact i_final|].
  apply Forall_forall. intros q Hq. apply In_nth_error in Hq. destruct Hq as (j & Hj).
  assert (Hlt : (j < length (fm_l4 alnum segs))%nat).
  { rewrite fm_l4_length, <- (fm_final_length alnum cfg segs). apply nth_error_Some. intros Hx. pose proof (eq_trans (eq_sym Hj) Hx) as Hy. discriminate Hy. }
  destruct (nth_error (fm_l4 alnum segs) j) as [p|] eqn:E; [|apply nth_error_None in E; lia].
  destruct (i_l4 j p E) as (p' & q0 & mb & _ & Hq0 & _ & Iq & _). pose proof (eq_trans (eq_sym Hj) Hq0) as Eq. injection Eq as <-. exact Iq.
Qed.
End Idem.

(* hypothesis 5 of the first version is a consequence of the others *)
Theorem second_run_ignores_nothing alnum cfg segs segs2 : idem_hyp6 alnum cfg segs segs2 -> all_false (fm_marks segs2).
Proof. exact (i_marks2 alnum cfg segs segs2). Qed.

Lemma idem_hyp7_of_6 alnum cfg segs segs2 : idem_hyp6 alnum cfg segs segs2 -> idem_hyp7 alnum cfg segs segs2.
Proof. intros H. pose proof (second_run_ignores_nothing _ _ _ _ H) as H5. destruct H as (A & B & C & D & E). split; [exact A|]. split; [exact B|]. split; [exact C|]. split; [exact H5|]. split; [exact D|exact E]. Qed.

(* C03, end to end *)
Theorem format_idempotent_min alnum cfg s out :
  format_model alnum cfg s = inl out ->
  (forall segs, lex_segments s = Some segs ->
     exists segs2, lex_segments (fm_out alnum cfg segs) = Some segs2 /\ idem_hyp_min alnum cfg segs segs2) ->
  format_model alnum cfg out = inl out.
Proof.
  intros H Hh. apply format_model_spec in H. destruct H as (segs & Hl & Hp & Hc & Hw & ->).
  destruct (Hh segs Hl) as (segs2 & Hl2 & Hyp & Hsp). apply format_model_spec. exists segs2.
  split; [exact Hl2|]. split; [unfold fm_parse_ok; rewrite (i_parse alnum cfg segs segs2 Hyp); exact Hp|].
  split; [unfold fm_conddir_ok; rewrite (i_tys alnum cfg segs segs2 Hyp), (i_parse alnum cfg segs segs2 Hyp); exact Hc|].
  split; [unfold fm_wrap_ok; rewrite (i_wrap_err alnum cfg segs segs2 Hyp Hsp); exact Hw|].
  symmetry. apply i_out; assumption.
Qed.

(* the same with hypothesis 8 asked of the tokens that start a line in the output only *)
Lemma idem_hyp_min_of_starts alnum cfg segs segs2 : idem_hyp_min_starts alnum cfg segs segs2 -> idem_hyp_min alnum cfg segs segs2.
Proof. intros [H6 Hst]. split; [exact H6|]. exact (i_sp_from_starts alnum cfg segs segs2 H6 Hst). Qed.

Theorem format_idempotent_min_starts alnum cfg s out :
  format_model alnum cfg s = inl out ->
  (forall segs, lex_segments s = Some segs ->
     exists segs2, lex_segments (fm_out alnum cfg segs) = Some segs2 /\ idem_hyp_min_starts alnum cfg segs segs2) ->
  format_model alnum cfg out = inl out.
Proof.
  intros H Hh. apply (format_idempotent_min alnum cfg s out H). intros segs Hl. destruct (Hh segs Hl) as (segs2 & Hl2 & Hs).
  exists segs2. split; [exact Hl2|apply idem_hyp_min_of_starts, Hs].
Qed.

(* the first version (with the redundant hypothesis 5), kept under its name *)
Theorem format_idempotent alnum cfg s out :
  format_model alnum cfg s = inl out ->
  (forall segs, lex_segments s = Some segs ->
     exists segs2, lex_segments (fm_out alnum cfg segs) = Some segs2 /\ idem_hyp alnum cfg segs segs2) ->
  format_model alnum cfg out = inl out.
Proof.
  intros H Hh. apply (format_idempotent_min alnum cfg s out H). intros segs Hl. destruct (Hh segs Hl) as (segs2 & Hl2 & H7 & Hsp).
  exists segs2. split; [exact Hl2|]. split; [apply idem_hyp6_of_7, H7|exact Hsp].
Qed.

Lemma idem_hyp_of_starts alnum cfg segs segs2 : idem_hyp_starts alnum cfg segs segs2 -> idem_hyp alnum cfg segs segs2.
Proof. intros [H7 Hst]. split; [exact H7|]. exact (i_sp_from_starts alnum cfg segs segs2 (idem_hyp6_of_7 _ _ _ _ H7) Hst). Qed.

Theorem format_idempotent_starts alnum cfg s out :
  format_model alnum cfg s = inl out ->
  (forall segs, lex_segments s = Some segs ->
     exists segs2, lex_segments (fm_out alnum cfg segs) = Some segs2 /\ idem_hyp_starts alnum cfg segs segs2) ->
  format_model alnum cfg out = inl out.
Proof.
  intros H Hh. apply (format_idempotent alnum cfg s out H). intros segs Hl. destruct (Hh segs Hl) as (segs2 & Hl2 & Hs).
  exists segs2. split; [exact Hl2|apply idem_hyp_of_starts, Hs].
Qed.

(* ------------------------------------------------------------------ *)
(* 5. the hypothesis as a boolean (Model/Format.v: idem_hypb, evaluated by the driver unit `idemhyp`) *)
Lemma list_eqb_eq {A} (eqb : A -> A -> bool) : (forall x y, eqb x y = true -> x = y) ->
  forall a b, list_eqb eqb a b = true -> a = b.
Proof.
  intros He. induction a as [|x a IH]; intros [|y b] H; cbn in H; try discriminate; [reflexivity|].
  apply andb_true_iff in H. destruct H as [H1 H2]. rewrite (He x y H1), (IH b H2). reflexivity.
Qed.

Lemma forallb_negb_all_false l : forallb negb l = true -> all_false l.
Proof. intros H m Hm. rewrite forallb_forall in H. specialize (H m Hm). destruct m; [discriminate|reflexivity]. Qed.

Lemma not_asmb_ok l : forallb not_asmb l = true -> no_asm l.
Proof.
  intros H. apply Forall_forall. intros t Ht. rewrite forallb_forall in H. specialize (H t Ht).
  destruct t; try exact I; match goal with k : KeywordKind |- _ => destruct k end; try exact I; discriminate H.
Qed.

Lemma mark_nth_length : forall i l, length (mark_nth i l) = length l.
Proof. induction i as [|i IH]; intros [|b l]; cbn; try reflexivity. rewrite IH. reflexivity. Qed.

Lemma mark_nth_spec : forall i l j, nth_error (mark_nth i l) j = Some true -> i = j \/ nth_error l j = Some true.
Proof.
  induction i as [|i IH]; intros [|b l] [|j] H; cbn in *; try discriminate; auto.
  destruct (IH l j H) as [->|H']; auto.
Qed.

Lemma marks_fold_length plan : forall acc, length (fold_left (fun a (pd : nat * decision) => mark_nth (fst pd) a) plan acc) = length acc.
Proof. induction plan as [|pd r IH]; intros acc; [reflexivity|]. cbn [fold_left]. rewrite IH. apply mark_nth_length. Qed.

Lemma marks_fold_spec plan : forall acc i,
  nth_error (fold_left (fun a (pd : nat * decision) => mark_nth (fst pd) a) plan acc) i = Some true ->
  nth_error acc i = Some true \/ decs_for i plan <> [].
Proof.
  induction plan as [|pd r IH]; intros acc i H; [left; exact H|]. cbn [fold_left] in H.
  unfold decs_for. cbn [filter].
  destruct (IH _ i H) as [H1|H1].
  - destruct (mark_nth_spec _ _ _ H1) as [E|E]; [|left; exact E].
    right. rewrite E, PeanoNat.Nat.eqb_refl. discriminate.
  - right. destruct (Nat.eqb (fst pd) i); [discriminate|exact H1].
Qed.

Lemma seq_nth_error : forall n s i, (i < n)%nat -> nth_error (seq s n) i = Some (s + i)%nat.
Proof.
  induction n as [|n IH]; intros s [|i] H; try lia; cbn [seq nth_error]; [f_equal; lia|].
  rewrite IH by lia. f_equal. lia.
Qed.

Theorem idem_hypb_ok alnum cfg segs : idem_hypb alnum cfg segs = true ->
  exists segs2, lex_segments (fm_out alnum cfg segs) = Some segs2 /\ idem_hyp alnum cfg segs segs2.
Proof.
  unfold idem_hypb, idem_hyp_checks. cbv zeta. change (reconstruct (cfg_rs cfg) (fm_final alnum cfg segs)) with (fm_out alnum cfg segs).
  destruct (lex_segments (fm_out alnum cfg segs)) as [segs2|]; [|discriminate].
  cbn [forallb]. intros H. exists segs2. split; [reflexivity|].
  apply andb_true_iff in H. destruct H as [_ H]. apply andb_true_iff in H. destruct H as [H1 H]. apply andb_true_iff in H1. destruct H1 as [H1 H1'].
  apply andb_true_iff in H. destruct H as [H2 H]. apply andb_true_iff in H. destruct H as [H3 H]. apply andb_true_iff in H. destruct H as [H4 H].
  apply andb_true_iff in H. destruct H as [H5 H]. apply andb_true_iff in H. destruct H as [H6 H]. apply andb_true_iff in H. destruct H as [H7 H].
  apply andb_true_iff in H. destruct H as [H8 _].
  assert (Hb : forall x y, bytes_eqb x y = true -> x = y) by (intros x y E; apply bytes_eqb_eq, E).
  split; [|apply (list_eqb_eq N.eqb); [intros x y E; apply N.eqb_eq, E|exact H8]].
  split; [split; [exact (list_eqb_eq _ Hb _ _ H1)|split; [exact (list_eqb_eq _ Hb _ _ H1')|]]|].
  { apply (list_eqb_eq RawTokenType_eqb); [intros x y E; apply RawTokenType_eqb_eq, E|exact H2]. }
  split; [apply not_asmb_ok, H3|]. split; [apply forallb_negb_all_false, H4|]. split; [apply forallb_negb_all_false, H5|].
  split.
  { apply orb_true_iff in H6. destruct H6 as [H6|H6]; [left; destruct (c_fms cfg); [discriminate|reflexivity]|right].
    intros tok Hin. rewrite forallb_forall in H6. specialize (H6 tok Hin). apply negb_true_iff in H6. exact H6. }
  intros i p Hp. assert (Hi : (i < length segs)%nat) by (rewrite <- (fm_l4_length alnum segs); apply nth_error_Some; congruence).
  assert (Hml : length (decided_marks alnum cfg segs) = length segs) by (unfold decided_marks; rewrite marks_fold_length, map_length; reflexivity).
  destruct (nth_error (decided_marks alnum cfg segs) i) as [b|] eqn:Eb; [|apply nth_error_None in Eb; lia].
  pose proof (combine_nth_error _ _ i _ _ (combine_nth_error _ _ i _ _ (seq_nth_error (length segs) 0 i Hi) Eb) Hp) as Hc.
  rewrite forallb_forall in H7. specialize (H7 _ (nth_error_In _ _ Hc)). cbn [fst snd] in H7. cbn [plus] in H7.
  apply orb_true_iff in H7. destruct H7 as [H7|H7]; [|right; exact H7]. subst b.
  unfold decided_marks in Eb. destruct (marks_fold_spec _ _ _ Eb) as [E|E]; [|left; exact E].
  rewrite nth_error_map in E. destruct (nth_error segs i); discriminate E.
Qed.

Theorem idem_hypb_min_ok alnum cfg segs : idem_hypb_min alnum cfg segs = true ->
  exists segs2, lex_segments (fm_out alnum cfg segs) = Some segs2 /\ idem_hyp_min alnum cfg segs segs2.
Proof.
  unfold idem_hypb_min, idem_hyp_checks_min. cbv zeta. change (reconstruct (cfg_rs cfg) (fm_final alnum cfg segs)) with (fm_out alnum cfg segs).
  destruct (lex_segments (fm_out alnum cfg segs)) as [segs2|]; [|discriminate].
  cbn [forallb]. intros H. exists segs2. split; [reflexivity|].
  apply andb_true_iff in H. destruct H as [_ H]. apply andb_true_iff in H. destruct H as [H1 H]. apply andb_true_iff in H1. destruct H1 as [H1 H1'].
  apply andb_true_iff in H. destruct H as [H2 H]. apply andb_true_iff in H. destruct H as [H3 H]. apply andb_true_iff in H. destruct H as [H4 H].
  apply andb_true_iff in H. destruct H as [H6 H]. apply andb_true_iff in H. destruct H as [H7 H].
  apply andb_true_iff in H. destruct H as [H8 _].
  assert (Hb : forall x y, bytes_eqb x y = true -> x = y) by (intros x y E; apply bytes_eqb_eq, E).
  split; [|apply (list_eqb_eq N.eqb); [intros x y E; apply N.eqb_eq, E|exact H8]].
  split; [split; [exact (list_eqb_eq _ Hb _ _ H1)|split; [exact (list_eqb_eq _ Hb _ _ H1')|]]|].
  { apply (list_eqb_eq RawTokenType_eqb); [intros x y E; apply RawTokenType_eqb_eq, E|exact H2]. }
  split; [apply not_asmb_ok, H3|]. split; [apply forallb_negb_all_false, H4|].
  split.
  { apply orb_true_iff in H6. destruct H6 as [H6|H6]; [left; destruct (c_fms cfg); [discriminate|reflexivity]|right].
    intros tok Hin. rewrite forallb_forall in H6. specialize (H6 tok Hin). apply negb_true_iff in H6. exact H6. }
  intros i p Hp. assert (Hi : (i < length segs)%nat) by (rewrite <- (fm_l4_length alnum segs); apply nth_error_Some; congruence).
  assert (Hml : length (decided_marks alnum cfg segs) = length segs) by (unfold decided_marks; rewrite marks_fold_length, map_length; reflexivity).
  destruct (nth_error (decided_marks alnum cfg segs) i) as [b|] eqn:Eb; [|apply nth_error_None in Eb; lia].
  pose proof (combine_nth_error _ _ i _ _ (combine_nth_error _ _ i _ _ (seq_nth_error (length segs) 0 i Hi) Eb) Hp) as Hc.
  rewrite forallb_forall in H7. specialize (H7 _ (nth_error_In _ _ Hc)). cbn [fst snd] in H7. cbn [plus] in H7.
  apply orb_true_iff in H7. destruct H7 as [H7|H7]; [|right; exact H7]. subst b.
  unfold decided_marks in Eb. destruct (marks_fold_spec _ _ _ Eb) as [E|E]; [|left; exact E].
  rewrite nth_error_map in E. destruct (nth_error segs i); discriminate E.
Qed.

Corollary format_idempotent_min_checked alnum cfg s out :
  format_model alnum cfg s = inl out ->
  (forall segs, lex_segments s = Some segs -> idem_hypb_min alnum cfg segs = true) ->
  format_model alnum cfg out = inl out.
Proof. intros H Hb. apply (format_idempotent_min alnum cfg s out H). intros segs E. apply idem_hypb_min_ok, Hb, E. Qed.

Corollary format_idempotent_checked alnum cfg s out :
  format_model alnum cfg s = inl out ->
  (forall segs, lex_segments s = Some segs -> idem_hypb alnum cfg segs = true) ->
  format_model alnum cfg out = inl out.
Proof. intros H Hb. apply (format_idempotent alnum cfg s out H). intros segs E. apply idem_hypb_ok, Hb, E. Qed.

(* non-vacuity.  `BEGIN\n    x:=1;  //c\n  IF a THEN y := 2 ;\nend.` is rewritten (keywords, the comment, spaces, indentation, a line break
   after `then`, the final line break) to `begin\n  x := 1; // c\n  if a then\n    y := 2;\nend.\n`; the hypothesis holds and the theorem
   gives that the second run returns that text *)
Example format_idempotent_example :
  let s := [66; 69; 71; 73; 78; 10; 32; 32; 32; 32; 120; 58; 61; 49; 59; 32; 32; 47; 47; 99; 10; 32; 32; 73; 70; 32; 97; 32; 84; 72; 69; 78; 32;
            121; 32; 58; 61; 32; 50; 32; 59; 10; 101; 110; 100; 46]%N in
  let out := [98; 101; 103; 105; 110; 10; 32; 32; 120; 32; 58; 61; 32; 49; 59; 32; 47; 47; 32; 99; 10; 32; 32; 105; 102; 32; 97; 32; 116; 104;
              101; 110; 10; 32; 32; 32; 32; 121; 32; 58; 61; 32; 50; 59; 10; 101; 110; 100; 46; 10]%N in
  let cfg := mkCfg 120 false true false 2 2 false in
  format_model (fun _ => false) cfg s = inl out /\ out <> s
  /\ (forall segs, lex_segments s = Some segs -> idem_hypb (fun _ => false) cfg segs = true)
  /\ format_model (fun _ => false) cfg out = inl out.
Proof.
  intros s out cfg.
  assert (H1 : format_model (fun _ => false) cfg s = inl out) by (vm_compute; reflexivity).
  assert (H2 : forall segs, lex_segments s = Some segs -> idem_hypb (fun _ => false) cfg segs = true).
  { intros segs E. vm_compute in E. injection E as <-. vm_compute. reflexivity. }
  split; [exact H1|]. split; [discriminate|]. split; [exact H2|]. exact (format_idempotent_checked _ cfg s out H1 H2).
Qed.

Print Assumptions format_idempotent.
Print Assumptions format_idempotent_min.
Print Assumptions format_idempotent_min_checked.
Print Assumptions second_run_ignores_nothing.
Print Assumptions format_line_comment_keeps_non_toggle.
Print Assumptions format_idempotent_starts.
Print Assumptions idem_hypb_ok.
Print Assumptions format_idempotent_checked.
