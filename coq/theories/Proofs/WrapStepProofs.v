(* Proofs/WrapStepProofs.v — the multi-line string rewriter (Model/MLString.v) performs a `wrap_tok`
   step of the C01 stage relation (Proofs/PipelineProofs.v). *)
From PasfmtVerif Require Import Model.MLString Model.Rewriters Model.Reconstruct Model.Pipeline
  Proofs.ReconstructProofs Proofs.MLStringProofs Proofs.PipelineProofs.

(* ------------------------------------------------------------------ *)
(* the first custom line of a text that starts with a non-terminator byte starts with that byte *)

Lemma lines_custom_head_byte (b : N) (r : list N) :
  is_term b = false ->
  exists l0 rest, lines_custom (b :: r) = (b :: l0) :: rest.
Proof.
  intros Hb. rewrite lines_custom_lcs.
  destruct (span_term (b :: r)) as [Hnt | (m & t & rr & E & Hm & Ht)].
  - rewrite (lcs_no_term false (b :: r) Hnt). exists r, []. reflexivity.
  - destruct m as [|m0 m'].
    + cbn [app] in E. injection E as E0 E1. subst t. rewrite Hb in Ht. discriminate.
    + cbn [app] in E. injection E as E0 E1. subst m0.
      change (b :: r) with ([b] ++ r). rewrite E1.
      change ([b] ++ m' ++ t :: rr) with ((b :: m') ++ t :: rr).
      rewrite (lcs_term false (b :: m') t rr Hm Ht eq_refl).
      exists m', (lcs (is_cr t) rr). reflexivity.
Qed.

(* the rewritten text starts with the first line of the original *)
Lemma try_rewrite_keeps_first_line rs ind cont (c base c' : list N) :
  try_rewrite_string rs ind cont c base = Some c' ->
  exists tail, c' = hd [] (lines_custom c) ++ tail.
Proof.
  unfold try_rewrite_string. destruct (lines_custom c) as [|l0 rest].
  - intros H. injection H as <-. exists []. reflexivity.
  - destruct (rewrite_lines (rs_newline rs) (ml_indent rs ind cont) base rest) as [x|]; [|discriminate].
    intros H. injection H as <-. exists x. reflexivity.
Qed.

Lemma rewrite_ml_token_first_byte rs ind cont (b : N) (r c' : list N) :
  is_term b = false ->
  rewrite_ml_token rs ind cont (b :: r) = Some c' -> exists r', c' = b :: r'.
Proof.
  intros Hb H.
  apply (rewrite_some_iff_eligible rs ind cont (b :: r) c') in H. destruct H as (_ & H & _).
  destruct (try_rewrite_keeps_first_line _ _ _ _ _ _ H) as [tail Ht].
  destruct (lines_custom_head_byte b r Hb) as (l0 & rest & E). rewrite E in Ht. cbn [hd] in Ht.
  exists (l0 ++ tail). rewrite Ht. reflexivity.
Qed.

(* consistency with token_reindented: the first line is literally the same *)
Lemma rewrite_ml_token_first_line rs ind cont (c c' : list N) :
  rs_ok rs -> ends_quote c -> rewrite_ml_token rs ind cont c = Some c' ->
  exists tail, c' = hd [] (lines_custom c) ++ tail /\ hd [] (lines_custom c') = hd [] (lines_custom c).
Proof.
  intros Hrs Hq H.
  destruct (token_reindented rs ind cont c c' Hrs Hq H) as (_ & _ & _ & _ & Hhd & _).
  apply (rewrite_some_iff_eligible rs ind cont c c') in H. destruct H as (_ & H & _).
  destruct (try_rewrite_keeps_first_line _ _ _ _ _ _ H) as [tail Ht].
  exists tail. split; [exact Ht|exact Hhd].
Qed.

(* ------------------------------------------------------------------ *)
(* the main link *)

Theorem rewrite_is_wrap_step rs ind cont (tok : token) (f f' : fmt) (c' : bytes) :
  is_ml_string (t_ty tok) = true ->
  f_ignored f = false -> f_ignored f' = f_ignored f ->
  rs_blank rs ->
  lines_complete (t_content tok) ->
  (exists r, t_content tok = 39 :: r) ->
  rewrite_ml_token rs ind cont (t_content tok) = Some c' ->
  wrap_tok (tok, f) (set_content tok c', f').
Proof.
  intros Hml Hf Hf' Hrs Hlc [r Hr] H. right. cbn [fst snd set_content t_ty t_content t_ws].
  split; [reflexivity|]. split; [exact Hf'|]. split; [exact Hf|]. split; [exact Hml|].
  split; [exact (token_strip_eq rs ind cont _ c' Hrs Hlc H)|]. split; [reflexivity|].
  rewrite Hr in H.
  destruct (rewrite_ml_token_first_byte rs ind cont 39 r c' eq_refl H) as [r' ->].
  cbn [no80]. lia.
Qed.

(* what the stage does to one (token, data) pair: format_multiline_strings' loop body *)
Definition ml_stage_tok (rs : rsettings) (p : ftoken) : ftoken :=
  let (tok, f) := p in
  if f_ignored f then p
  else if is_ml_string (t_ty tok) then
    match rewrite_ml_token rs (f_ind f) (f_cont f) (t_content tok) with
    | Some c' => (set_content tok c', f)
    | None => p
    end
  else p.

(* every token, rewritten or not, makes a wrap_tok step *)
Theorem ml_stage_tok_wrap rs (p : ftoken) :
  rs_blank rs ->
  (is_ml_string (t_ty (fst p)) = true ->
     lines_complete (t_content (fst p)) /\ exists r, t_content (fst p) = 39 :: r) ->
  wrap_tok p (ml_stage_tok rs p).
Proof.
  intros Hrs Hml. destruct p as [tok f]. cbn [fst] in Hml. unfold ml_stage_tok.
  destruct (f_ignored f) eqn:Hf; [left; split; reflexivity|].
  destruct (is_ml_string (t_ty tok)) eqn:Em; [|left; split; reflexivity].
  destruct (rewrite_ml_token rs (f_ind f) (f_cont f) (t_content tok)) as [c'|] eqn:E;
    [|left; split; reflexivity].
  destruct (Hml eq_refl) as [Hlc Hq].
  exact (rewrite_is_wrap_step rs (f_ind f) (f_cont f) tok f f c' Em Hf eq_refl Hrs Hlc Hq E).
Qed.

Theorem ml_stage_is_FWrap_step rs (l : list ftoken) :
  rs_blank rs ->
  Forall (fun p => is_ml_string (t_ty (fst p)) = true ->
                   lines_complete (t_content (fst p)) /\ exists r, t_content (fst p) = 39 :: r) l ->
  step FWrap l (map (ml_stage_tok rs) l).
Proof.
  intros Hrs Hl. cbn [step]. induction Hl as [|p l Hp Hl IH]; constructor; [|exact IH].
  apply ml_stage_tok_wrap; assumption.
Qed.

(* ------------------------------------------------------------------ *)
(* the settings built from a configuration always satisfy the premises *)

Lemma rs_new_ok crlf tabs iw cw : rs_ok (rs_new crlf tabs iw cw).
Proof.
  unfold rs_ok, rs_new. cbn [rs_newline rs_indent rs_cont].
  assert (Hu : forallb sp_tab (if tabs then [9] else [32]) = true) by (destruct tabs; reflexivity).
  split; [destruct crlf; [right|left]; reflexivity|].
  split; unfold nrepeat; apply forallb_repeat_app; exact Hu.
Qed.

Theorem rs_of_config_ok crlf tabs tw ci : rs_ok (rs_of_config crlf tabs tw ci).
Proof. unfold rs_of_config. destruct tabs; apply rs_new_ok. Qed.

Theorem rs_of_config_blank crlf tabs tw ci : rs_blank (rs_of_config crlf tabs tw ci).
Proof. apply rs_ok_blank, rs_of_config_ok. Qed.

(* ------------------------------------------------------------------ *)
(* non-vacuity *)

Definition ex_tok : token := mkToken [32; 32] ex2 (TT_TextLiteral TK_MultiLine).
Definition ex_f : fmt := mkFmt false 0 2 0 1.

Example ex_wrap_step :
  exists c', rewrite_ml_token (rs_of_config true true 4 2) 2 0 (t_content ex_tok) = Some c' /\
             c' <> t_content ex_tok /\
             wrap_tok (ex_tok, ex_f) (set_content ex_tok c', ex_f).
Proof.
  eexists. split; [vm_compute; reflexivity|]. split; [vm_compute; discriminate|].
  eapply (rewrite_is_wrap_step (rs_of_config true true 4 2) 2 0 ex_tok ex_f ex_f).
  - reflexivity.
  - reflexivity.
  - reflexivity.
  - apply rs_of_config_blank.
  - apply lines_completeb_ok. vm_compute. reflexivity.
  - eexists. vm_compute. reflexivity.
  - vm_compute. reflexivity.
Qed.

Example ex_stage_step :
  step FWrap [(ex_tok, ex_f)] (map (ml_stage_tok (rs_of_config false false 2 2)) [(ex_tok, ex_f)]).
Proof.
  apply ml_stage_is_FWrap_step; [apply rs_of_config_blank|].
  constructor; [|constructor]. intros _. split.
  - apply lines_completeb_ok. vm_compute. reflexivity.
  - eexists. vm_compute. reflexivity.
Qed.

Print Assumptions rewrite_is_wrap_step.
Print Assumptions ml_stage_is_FWrap_step.
Print Assumptions rs_of_config_ok.
Print Assumptions rs_of_config_blank.
Print Assumptions ex_wrap_step.
