(* Proofs/FragmentParentsProofs.v — which lines of a program of the fragment have a parent: exactly the lines
   whose first token lies in the body of an if/while statement, a case arm or an exception handler
   (Fragment.body_spans, as token ranges); the parent token is the then/else/do/colon in front of that body. *)
From PasfmtVerif Require Import Model.Fragment Proofs.FragmentProofs.
Local Open Scope nat_scope.

(* ---------------- the ranges *)
Definition sp_in (lo hi : nat) (x : nat * nat * nat) : Prop := let '(p, a, b) := x in lo <= p /\ p < a /\ a <= b /\ b <= hi.
Lemma sp_in_weaken lo hi lo' hi' x : lo' <= lo -> hi <= hi' -> sp_in lo hi x -> sp_in lo' hi' x.
Proof. destruct x as [[p a] b]. unfold sp_in. lia. Qed.
Lemma Forall_sp_weaken lo hi lo' hi' sp : lo' <= lo -> hi <= hi' -> Forall (sp_in lo hi) sp -> Forall (sp_in lo' hi') sp.
Proof. intros H1 H2. apply Forall_impl. intros x. apply sp_in_weaken; assumption. Qed.
Ltac sp_len := cbn [length]; rewrite ?app_length; cbn [length]; rewrite ?app_length; cbn [length]; lia.
Ltac sp_ih :=
  match goal with
  | H : forall k, Forall (@?P k) (spans_stmt k ?c) |- Forall _ (spans_stmt ?k0 ?c) => refine (Forall_sp_weaken k0 _ _ _ _ _ _ (H k0)); [lia|sp_len]
  | H : forall k, Forall (@?P k) (spans k ?c) |- Forall _ (spans ?k0 ?c) => refine (Forall_sp_weaken k0 _ _ _ _ _ _ (H k0)); [lia|sp_len]
  | H : forall k, Forall (@?P k) (spans_arms k ?c) |- Forall _ (spans_arms ?k0 ?c) => refine (Forall_sp_weaken k0 _ _ _ _ _ _ (H k0)); [lia|sp_len]
  | H : forall k, Forall (@?P k) (spans_handlers k ?c) |- Forall _ (spans_handlers ?k0 ?c) => refine (Forall_sp_weaken k0 _ _ _ _ _ _ (H k0)); [lia|sp_len]
  end.
Combined Scheme frag_mutind from stmt_mut, stmts_mut, arms_mut, handlers_mut.
Lemma spans_ranges :
  (forall c k, Forall (sp_in k (k + length (render_stmt c))) (spans_stmt k c))
  /\ (forall ss k, Forall (sp_in k (k + length (render ss))) (spans k ss))
  /\ (forall a k, Forall (sp_in k (k + length (render_arms a))) (spans_arms k a))
  /\ (forall h k, Forall (sp_in k (k + length (render_handlers h))) (spans_handlers k h)).
Proof.
  apply frag_mutind;
    cbn [spans_stmt spans spans_arms spans_handlers render_stmt render render_arms render_handlers]; cbv zeta; intros.
  all: repeat first [ apply Forall_nil
                    | apply Forall_cons; [unfold sp_in; sp_len|]
                    | apply Forall_app; split
                    | sp_ih ].
Qed.
Definition spans_stmt_range := proj1 spans_ranges.
Definition spans_range := proj1 (proj2 spans_ranges).
Definition spans_arms_range := proj1 (proj2 (proj2 spans_ranges)).
Definition spans_handlers_range := proj2 (proj2 (proj2 spans_ranges)).
Lemma in_spans_app A B f : in_spans (A ++ B) f = in_spans A f || in_spans B f.
Proof. unfold in_spans. apply existsb_app. Qed.
Lemma in_spans_cons p a b sp f : in_spans ((p, a, b) :: sp) f = ((a <=? f) && (f <? b)) || in_spans sp f.
Proof. reflexivity. Qed.
Lemma in_spans_out sp lo hi f : Forall (sp_in lo hi) sp -> f <= lo \/ hi <= f -> in_spans sp f = false.
Proof.
  intros H Hf. unfold in_spans. induction H as [|[[p a] b] sp Hx _ IH]; [reflexivity|]. cbn [existsb]. rewrite IH, orb_false_r.
  unfold sp_in in Hx. destruct (a <=? f) eqn:E1; [|reflexivity]. apply Nat.leb_le in E1. apply Nat.ltb_ge. lia.
Qed.
Lemma in_spans_in sp p a b f : In (p, a, b) sp -> a <= f < b -> in_spans sp f = true.
Proof.
  intros Hi Hf. unfold in_spans. apply existsb_exists. exists (p, a, b). split; [exact Hi|].
  apply andb_true_intro. split; [apply Nat.leb_le|apply Nat.ltb_lt]; lia.
Qed.

(* ---------------- the lines of a statement: first tokens in range; parent iff the first token is in a body *)
Definition LP (par : option (nat * nat)) (sp : list (nat * nat * nat)) (lo hi : nat) (l : lline) : Prop :=
  forall f, hd_error (ll_toks l) = Some f ->
  lo <= f < hi
  /\ (ll_parent l = None <-> par = None /\ in_spans sp f = false)
  /\ (forall i t, ll_parent l = Some (i, t) -> par = Some (i, t) \/ exists a b, In (t, a, b) sp).
(* a line of the statement itself (parent = par), whose first token is in no body *)
Lemma LP_own par sp lo hi ty lv toks f r : toks = f :: r -> lo <= f < hi -> in_spans sp f = false -> LP par sp lo hi (mkLine ty lv par toks).
Proof.
  intros -> Hf Hs g Hg. cbn in Hg. injection Hg as <-. split; [exact Hf|]. cbn [ll_parent]. split.
  - split; [intros ->; split; [reflexivity|exact Hs]|intros [-> _]; reflexivity].
  - intros i t ->. left. reflexivity.
Qed.
Lemma LP_empty par sp lo hi ty lv p : LP par sp lo hi (mkLine ty lv p []).
Proof. intros f Hf. discriminate. Qed.
(* the same line seen from a larger statement *)
Lemma LP_sub par sp sp' lo hi lo' hi' l : LP par sp lo hi l -> lo' <= lo -> hi <= hi' ->
  (forall f, lo <= f < hi -> in_spans sp' f = in_spans sp f) -> incl sp sp' -> LP par sp' lo' hi' l.
Proof.
  intros H H1 H2 He Hi f Hf. destruct (H f Hf) as (R & Iff & Tk). split; [lia|]. split.
  - rewrite (He f R). exact Iff.
  - intros i t Hp. destruct (Tk i t Hp) as [E|(a & b & Hin)]; [left; exact E|right; exists a, b; apply Hi, Hin].
Qed.
(* a line of a body seen from the statement that owns the body *)
Lemma LP_body par i0 pt sp sp' lo hi lo' hi' a b l : LP (Some (i0, pt)) sp lo hi l -> In (pt, a, b) sp' -> a <= lo -> hi <= b ->
  incl sp sp' -> lo' <= lo -> hi <= hi' -> LP par sp' lo' hi' l.
Proof.
  intros H Hin Ha Hb Hi H1 H2 f Hf. destruct (H f Hf) as (R & Iff & Tk). split; [lia|]. split.
  - split.
    + intros Hn. apply Iff in Hn. destruct Hn as [Hn _]. discriminate.
    + intros [_ Hs]. rewrite (in_spans_in sp' pt a b f Hin ltac:(lia)) in Hs. discriminate.
  - intros i t Hp. right. destruct (Tk i t Hp) as [E|(a' & b' & Hin')].
    + injection E as -> ->. exists a, b. exact Hin.
    + exists a', b'. apply Hi, Hin'.
Qed.
Lemma Forall_LP_sub par sp sp' lo hi lo' hi' ls : Forall (LP par sp lo hi) ls -> lo' <= lo -> hi <= hi' ->
  (forall f, lo <= f < hi -> in_spans sp' f = in_spans sp f) -> incl sp sp' -> Forall (LP par sp' lo' hi') ls.
Proof. intros H H1 H2 He Hi. eapply Forall_impl; [|exact H]. intros l Hl. exact (LP_sub _ _ _ _ _ _ _ _ Hl H1 H2 He Hi). Qed.
Lemma Forall_LP_body par i0 pt sp sp' lo hi lo' hi' a b ls : Forall (LP (Some (i0, pt)) sp lo hi) ls -> In (pt, a, b) sp' -> a <= lo -> hi <= b ->
  incl sp sp' -> lo' <= lo -> hi <= hi' -> Forall (LP par sp' lo' hi') ls.
Proof. intros H Hin Ha Hb Hi H1 H2. eapply Forall_impl; [|exact H]. intros l Hl. exact (LP_body _ _ _ _ _ _ _ _ _ _ _ _ Hl Hin Ha Hb Hi H1 H2). Qed.

(* the arms of a case statement, whatever the order of the lines *)
Fixpoint arm_at (k : nat) (a : arms) (kj : nat) (cj : stmt) : Prop :=
  match a with
  | ANil => False
  | ACons c r => (kj = k /\ cj = c) \/ arm_at (k + 2 + length (render_stmt c) + 1) r kj cj
  end.
Lemma arms_lines_Forall (PP : lline -> Prop) : forall a par d k li pend tail,
  (forall i, Forall PP (pend i)) ->
  (forall kj cj, arm_at k a kj cj ->
     PP (mkLine LLT_CaseArm (lvl (d + 1)) par [kj; kj + 1])
     /\ forall lj i, Forall PP (sexpected (Some (lj, kj + 1)) 1 (kj + 2) i [kj + 2 + length (render_stmt cj)] cj ++ [stray])) ->
  (forall li' pl, Forall PP pl -> Forall PP (tail (k + length (render_arms a)) li' pl)) ->
  Forall PP (arms_lines par d k li a pend tail).
Proof.
  induction a as [|c a IH]; intros par d k li pend tail Hp Ha Ht; cbn [arms_lines render_arms length]; cbv zeta.
  - rewrite Nat.add_0_r in Ht. apply Ht, Hp.
  - destruct (Ha k c (or_introl (conj eq_refl eq_refl))) as [A1 A2].
    apply Forall_cons; [exact A1|]. apply Forall_app. split; [apply Hp|].
    apply IH.
    + intros i. apply A2.
    + intros kj cj Hj. apply Ha. right. exact Hj.
    + intros li' pl Hpl. replace (k + 2 + length (render_stmt c) + 1 + length (render_arms a)) with (k + S (S (length (render_stmt c ++ tSemi :: render_arms a))))
        by (rewrite app_length; cbn [length]; lia).
      apply Ht, Hpl.
Qed.
Lemma arm_at_spans : forall a k kj cj, arm_at k a kj cj ->
  In (kj + 1, kj + 2, kj + 2 + length (render_stmt cj)) (spans_arms k a) /\ incl (spans_stmt (kj + 2) cj) (spans_arms k a)
  /\ k <= kj /\ kj + 2 + length (render_stmt cj) < k + length (render_arms a)
  /\ in_spans (spans_arms k a) kj = false /\ in_spans (spans_arms k a) (kj + 1) = false.
Proof.
  induction a as [|c a IH]; intros k kj cj H; cbn [arm_at] in H; [contradiction|].
  cbn [spans_arms render_arms length]. rewrite app_length. cbn [length].
  pose proof (spans_stmt_range c (k + 2)) as Rc.
  pose proof (spans_arms_range a (k + 2 + length (render_stmt c) + 1)) as Ra.
  destruct H as [[-> ->]|H].
  - split; [left; reflexivity|]. split; [intros x Hx; right; apply in_or_app; left; exact Hx|]. split; [lia|]. split; [lia|].
    split; rewrite in_spans_cons, in_spans_app, (in_spans_out _ _ _ _ Rc), (in_spans_out _ _ _ _ Ra) by lia.
    + replace (k + 2 <=? k) with false by (symmetry; apply Nat.leb_gt; lia). reflexivity.
    + replace (k + 2 <=? k + 1) with false by (symmetry; apply Nat.leb_gt; lia). reflexivity.
  - destruct (IH _ _ _ H) as (I1 & I2 & I3 & I4 & I5 & I6).
    split; [right; apply in_or_app; right; exact I1|]. split; [intros x Hx; right; apply in_or_app; right; apply I2, Hx|]. split; [lia|]. split; [lia|].
    split; rewrite in_spans_cons, in_spans_app, (in_spans_out _ _ _ _ Rc) by lia; [rewrite I5|rewrite I6].
    + replace (kj <? k + 2 + length (render_stmt c)) with false by (symmetry; apply Nat.ltb_ge; lia). rewrite andb_false_r. reflexivity.
    + replace (kj + 1 <? k + 2 + length (render_stmt c)) with false by (symmetry; apply Nat.ltb_ge; lia). rewrite andb_false_r. reflexivity.
Qed.

Definition Qs (c : stmt) : Prop :=
  forall par d k li sm, Forall (LP par (spans_stmt k c) k (k + length (render_stmt c))) (sexpected par d k li sm c).
Lemma incl_app_l {A} (a b : list A) : incl a (a ++ b). Proof. intros x Hx. apply in_or_app. left. exact Hx. Qed.
Lemma incl_app_r {A} (a b : list A) : incl b (a ++ b). Proof. intros x Hx. apply in_or_app. right. exact Hx. Qed.
Lemma incl_cons_r {A} (x : A) (a : list A) : incl a (x :: a). Proof. intros y Hy. right. exact Hy. Qed.
Ltac lenr := cbn [length]; rewrite ?app_length; cbn [length]; rewrite ?app_length; cbn [length]; lia.
(* `in_spans (…) f = false` for a first token outside all the ranges *)
Ltac nospan :=
  repeat first [ rewrite in_spans_app | rewrite in_spans_cons ];
  repeat match goal with
         | |- context [in_spans (spans_stmt ?k ?c) ?f] => rewrite (in_spans_out _ _ _ f (spans_stmt_range c k)) by lenr
         | |- context [in_spans (spans ?k ?c) ?f] => rewrite (in_spans_out _ _ _ f (spans_range c k)) by lenr
         | |- context [in_spans (spans_arms ?k ?c) ?f] => rewrite (in_spans_out _ _ _ f (spans_arms_range c k)) by lenr
         | |- context [in_spans (spans_handlers ?k ?c) ?f] => rewrite (in_spans_out _ _ _ f (spans_handlers_range c k)) by lenr
         end;
  repeat match goal with
         | |- context [?a <=? ?f] => replace (a <=? f) with false by (symmetry; apply Nat.leb_gt; lenr)
         | |- context [?f <? ?b] => replace (f <? b) with false by (symmetry; apply Nat.ltb_ge; lenr)
         end;
  rewrite ?andb_false_r; reflexivity.

Lemma lines_LP :
  (forall c, Qs c)
  /\ (forall ss par d k li, Forall (LP par (spans k ss) k (k + length (render ss))) (pexpected par d k li ss))
  /\ (forall a k kj cj, arm_at k a kj cj -> Qs cj)
  /\ (forall h par d k li, Forall (LP par (spans_handlers k h) k (k + length (render_handlers h))) (hexpected par d k li h)).
Proof.
  apply frag_mutind; unfold Qs; cbn [sexpected pexpected hexpected spans_stmt spans spans_handlers render_stmt render render_handlers arm_at]; cbv zeta.
  - (* simple *) intros par d k li sm. constructor; [|constructor]. eapply LP_own; [reflexivity|lenr|reflexivity].
  - (* assign *) intros par d k li sm. constructor; [|constructor]. eapply LP_own; [reflexivity|lenr|reflexivity].
  - (* block *) intros b IHb par d k li sm. constructor; [eapply LP_own; [reflexivity|lenr|nospan]|]. apply Forall_app. split.
    + eapply Forall_LP_sub; [apply IHb|lenr|lenr|reflexivity|apply incl_refl].
    + constructor; [|constructor]. eapply LP_own; [reflexivity|lenr|nospan].
  - (* repeat *) intros b IHb par d k li sm. constructor; [eapply LP_own; [reflexivity|lenr|nospan]|]. apply Forall_app. split.
    + eapply Forall_LP_sub; [apply IHb|lenr|lenr|reflexivity|apply incl_refl].
    + constructor; [|constructor]. eapply LP_own; [reflexivity|lenr|nospan].
  - (* try finally *) intros b IHb c IHc par d k li sm. constructor; [eapply LP_own; [reflexivity|lenr|nospan]|]. apply Forall_app. split.
    + eapply Forall_LP_sub; [apply IHb|lenr|lenr| |apply incl_app_l]. intros f Hf. rewrite in_spans_app.
      rewrite (in_spans_out _ _ _ f (spans_range c _)) by lenr. apply orb_false_r.
    + constructor; [eapply LP_own; [reflexivity|lenr|nospan]|]. apply Forall_app. split.
      * eapply Forall_LP_sub; [apply IHc|lenr|lenr| |apply incl_app_r]. intros f Hf. rewrite in_spans_app.
        rewrite (in_spans_out _ _ _ f (spans_range b _)) by lenr. reflexivity.
      * constructor; [|constructor]. eapply LP_own; [reflexivity|lenr|nospan].
  - (* try except *) intros b IHb c IHc par d k li sm. constructor; [eapply LP_own; [reflexivity|lenr|nospan]|]. apply Forall_app. split.
    + eapply Forall_LP_sub; [apply IHb|lenr|lenr| |apply incl_app_l]. intros f Hf. rewrite in_spans_app.
      rewrite (in_spans_out _ _ _ f (spans_range c _)) by lenr. apply orb_false_r.
    + constructor; [eapply LP_own; [reflexivity|lenr|nospan]|]. apply Forall_app. split.
      * eapply Forall_LP_sub; [apply IHc|lenr|lenr| |apply incl_app_r]. intros f Hf. rewrite in_spans_app.
        rewrite (in_spans_out _ _ _ f (spans_range b _)) by lenr. reflexivity.
      * constructor; [|constructor]. eapply LP_own; [reflexivity|lenr|nospan].
  - (* try on *) intros b IHb h IHh par d k li sm. constructor; [eapply LP_own; [reflexivity|lenr|nospan]|]. apply Forall_app. split.
    + eapply Forall_LP_sub; [apply IHb|lenr|lenr| |apply incl_app_l]. intros f Hf. rewrite in_spans_app.
      rewrite (in_spans_out _ _ _ f (spans_handlers_range h _)) by lenr. apply orb_false_r.
    + constructor; [eapply LP_own; [reflexivity|lenr|nospan]|]. apply Forall_app. split.
      * eapply Forall_LP_sub; [apply IHh|lenr|lenr| |apply incl_app_r]. intros f Hf. rewrite in_spans_app.
        rewrite (in_spans_out _ _ _ f (spans_range b _)) by lenr. reflexivity.
      * constructor; [|constructor]. eapply LP_own; [reflexivity|lenr|nospan].
  - (* if *) intros c IHc par d k li sm. constructor; [eapply LP_own; [reflexivity|lenr|nospan]|]. apply Forall_app. split; [|constructor; [apply LP_empty|constructor]].
    eapply Forall_LP_body; [apply IHc|left; reflexivity|lia|lia|apply incl_cons_r|lia|lenr].
  - (* if else *) intros c1 IH1 c2 IH2 par d k li sm. constructor; [eapply LP_own; [reflexivity|lenr|nospan]|].
    apply Forall_app. split; [apply Forall_app; split; [|constructor; [apply LP_empty|constructor]]|apply Forall_app; split; [|constructor; [apply LP_empty|constructor]]].
    + eapply Forall_LP_body; [apply IH1|left; reflexivity|lia|lia| |lia|lenr]. intros x Hx. right. apply in_or_app. left. exact Hx.
    + eapply Forall_LP_body; [apply IH2|right; apply in_or_app; right; left; reflexivity|lia|lia| |lia|lenr].
      intros x Hx. right. apply in_or_app. right. right. exact Hx.
  - (* while *) intros c IHc par d k li sm. constructor; [eapply LP_own; [reflexivity|lenr|nospan]|]. apply Forall_app. split; [|constructor; [apply LP_empty|constructor]].
    eapply Forall_LP_body; [apply IHc|left; reflexivity|lia|lia|apply incl_cons_r|lia|lenr].
  - (* case *) intros a IHa par d k li sm. constructor; [eapply LP_own; [reflexivity|lenr|nospan]|].
    apply arms_lines_Forall.
    + intros i. constructor.
    + intros kj cj Hj. destruct (arm_at_spans _ _ _ _ Hj) as (I1 & I2 & I3 & I4 & I5 & I6). split.
      * eapply LP_own; [reflexivity|lenr|exact I5].
      * intros lj i. apply Forall_app. split; [|constructor; [apply LP_empty|constructor]].
        eapply Forall_LP_body; [apply (IHa _ _ _ Hj)|exact I1|lia|lia|exact I2|lia|lenr].
    + intros li' pl Hpl. constructor; [eapply LP_own; [reflexivity|lenr|nospan]|exact Hpl].
  - (* case else *) intros a IHa e IHe par d k li sm. constructor; [eapply LP_own; [reflexivity|lenr|nospan]|].
    apply arms_lines_Forall.
    + intros i. constructor.
    + intros kj cj Hj. destruct (arm_at_spans _ _ _ _ Hj) as (I1 & I2 & I3 & I4 & I5 & I6). split.
      * eapply LP_own; [reflexivity|lenr|]. rewrite in_spans_app, I5. nospan.
      * intros lj i. apply Forall_app. split; [|constructor; [apply LP_empty|constructor]].
        eapply Forall_LP_body; [apply (IHa _ _ _ Hj)|apply in_or_app; left; exact I1|lia|lia| |lia|lenr].
        intros x Hx. apply in_or_app. left. apply I2, Hx.
    + intros li' pl Hpl. constructor; [eapply LP_own; [reflexivity|lenr|nospan]|]. apply Forall_app. split.
      * eapply Forall_impl; [|exact Hpl]. intros l Hl. exact Hl.
      * apply Forall_app. split.
        -- eapply Forall_LP_sub; [apply IHe|lenr|lenr| |apply incl_app_r]. intros f Hf. rewrite in_spans_app.
           rewrite (in_spans_out _ _ _ f (spans_arms_range a _)) by lenr. reflexivity.
        -- constructor; [|constructor]. eapply LP_own; [reflexivity|lenr|nospan].
  - (* nil *) intros. constructor.
  - (* cons *) intros c IHc r IHr par d k li. apply Forall_app. split.
    + eapply Forall_LP_sub; [apply IHc|lenr|lenr| |apply incl_app_l]. intros f Hf. rewrite in_spans_app.
      rewrite (in_spans_out _ _ _ f (spans_range r _)) by lenr. apply orb_false_r.
    + eapply Forall_LP_sub; [apply IHr|lenr|lenr| |apply incl_app_r]. intros f Hf. rewrite in_spans_app.
      rewrite (in_spans_out _ _ _ f (spans_stmt_range c _)) by lenr. reflexivity.
  - (* no arm *) intros k kj cj [].
  - (* arm *) intros c IHc r IHr k kj cj [[_ ->]|H]; [exact IHc|exact (IHr _ _ _ H)].
  - (* no handler *) intros. constructor.
  - (* handler *) intros c IHc r IHr par d k li. apply Forall_app. split.
    + constructor; [eapply LP_own; [reflexivity|lenr|nospan]|]. apply Forall_app. split; [|constructor; [apply LP_empty|constructor]].
      eapply Forall_LP_body; [apply IHc|left; reflexivity|lia|lia| |lia|lenr]. intros x Hx. right. apply in_or_app. left. exact Hx.
    + eapply Forall_LP_sub; [apply IHr|lenr|lenr| |]; [|intros x Hx; right; apply in_or_app; right; exact Hx].
      intros f Hf. rewrite in_spans_cons, in_spans_app.
      rewrite (in_spans_out _ _ _ f (spans_stmt_range c _)) by lenr.
      replace (f <? k + 5 + length (render_stmt c)) with false by (symmetry; apply Nat.ltb_ge; lia). rewrite andb_false_r. reflexivity.
Qed.

(* ---------------- on the lines of parse_file *)
Lemma prog_LP ss : Forall (LP None (body_spans ss) 0 (length (render_prog ss))) (pexpected_prog ss).
Proof.
  unfold pexpected_prog, body_spans, render_prog. cbv zeta. destruct lines_LP as (_ & Hs & _).
  constructor; [eapply LP_own; [reflexivity|lenr|nospan]|]. apply Forall_app. split.
  - eapply Forall_LP_sub; [apply Hs|lenr|lenr|reflexivity|apply incl_refl].
  - constructor; [eapply LP_own; [reflexivity|lenr|nospan]|]. constructor; [eapply LP_own; [reflexivity|lenr|nospan]|constructor].
Qed.

(* THE CHARACTERISATION: a line of the result has a parent iff its first token lies in the body of an
   if/while statement, a case arm or an exception handler; and its parent token is the token in front of such a body *)
Theorem fragment_parent_iff ss : wf ss = true ->
  forall l f, In l (r_lines (parse_file_model (render_prog ss) [])) -> hd_error (ll_toks l) = Some f ->
  (ll_parent l <> None <-> in_spans (body_spans ss) f = true)
  /\ (forall i t, ll_parent l = Some (i, t) -> exists a b, In (t, a, b) (body_spans ss)).
Proof.
  intros Hwf l f Hin Hf. destruct (fragment_parse_file ss Hwf) as (_ & Hl & _). rewrite Hl in Hin.
  unfold expected_prog in Hin. rewrite finalize_eq in Hin. apply in_map_iff in Hin. destruct Hin as (l0 & <- & Hin0).
  apply filter_In in Hin0. destruct Hin0 as [Hin0 _].
  pose proof (proj1 (Forall_forall _ _) (prog_LP ss) l0 Hin0 f Hf) as (_ & Iff & Tk).
  unfold remap. cbn [ll_parent]. split.
  - destruct (ll_parent l0) as [[i t]|] eqn:Ep.
    + split; [intros _|discriminate]. destruct (in_spans (body_spans ss) f) eqn:E; [reflexivity|].
      assert (X : @None (nat * nat) = None /\ false = false) by (split; reflexivity). apply Iff in X. discriminate.
    + split; [intros X; contradiction X; reflexivity|]. intros E. destruct (proj1 Iff eq_refl) as [_ E']. congruence.
  - intros i t Hp. destruct (ll_parent l0) as [[i0 t0]|] eqn:Ep; [|discriminate]. injection Hp as _ <-.
    destruct (Tk i0 t0 eq_refl) as [X|X]; [discriminate|exact X].
Qed.

(* ... and the token in front of a body is `then`, `else`, `do` or the colon of a case arm *)
Definition kind_ok (T : list RawTokenType) (x : nat * nat * nat) : Prop :=
  let '(p, a, b) := x in a = p + 1 /\ a <= b
  /\ (nth_error T p = Some tThen \/ nth_error T p = Some tElse \/ nth_error T p = Some tDo \/ nth_error T p = Some tColon).
Lemma tat_sub T k l pre mid post : l = pre ++ mid ++ post -> toks_at T k l -> toks_at T (k + length pre) mid.
Proof.
  intros -> H. eapply toks_at_prefix. apply (toks_at_shift T k (length pre) pre); [exact H|reflexivity].
Qed.
Lemma spans_kinds T :
  (forall c k, toks_at T k (render_stmt c) -> Forall (kind_ok T) (spans_stmt k c))
  /\ (forall ss k, toks_at T k (render ss) -> Forall (kind_ok T) (spans k ss))
  /\ (forall a k, toks_at T k (render_arms a) -> Forall (kind_ok T) (spans_arms k a))
  /\ (forall h k, toks_at T k (render_handlers h) -> Forall (kind_ok T) (spans_handlers k h)).
Proof.
  apply frag_mutind; cbn [spans_stmt spans spans_arms spans_handlers render_stmt render render_arms render_handlers]; cbv zeta.
  - intros. constructor.
  - intros. constructor.
  - intros b IHb k H. apply IHb. apply (tat_sub T k _ [tBegin] (render b) [tEnd] eq_refl H).
  - intros b IHb k H. apply IHb. apply (tat_sub T k _ [tRepeat] (render b) [tUntil; tI] eq_refl H).
  - intros b IHb c IHc k H. apply Forall_app. split.
    + apply IHb. apply (tat_sub T k _ [tTry] (render b) (tFinally :: render c ++ [tEnd]) eq_refl H).
    + apply IHc. replace (k + 1 + length (render b) + 1) with (k + length (tTry :: render b ++ [tFinally])) by lenr.
      eapply (tat_sub T k _ (tTry :: render b ++ [tFinally]) (render c) [tEnd]); [|exact H]. cbn [app]. rewrite <- !app_assoc. reflexivity.
  - intros b IHb c IHc k H. apply Forall_app. split.
    + apply IHb. apply (tat_sub T k _ [tTry] (render b) (tExcept :: render c ++ [tEnd]) eq_refl H).
    + apply IHc. replace (k + 1 + length (render b) + 1) with (k + length (tTry :: render b ++ [tExcept])) by lenr.
      eapply (tat_sub T k _ (tTry :: render b ++ [tExcept]) (render c) [tEnd]); [|exact H]. cbn [app]. rewrite <- !app_assoc. reflexivity.
  - intros b IHb h IHh k H. apply Forall_app. split.
    + apply IHb. apply (tat_sub T k _ [tTry] (render b) (tExcept :: render_handlers h ++ [tEnd]) eq_refl H).
    + apply IHh. replace (k + 1 + length (render b) + 1) with (k + length (tTry :: render b ++ [tExcept])) by lenr.
      eapply (tat_sub T k _ (tTry :: render b ++ [tExcept]) (render_handlers h) [tEnd]); [|exact H]. cbn [app]. rewrite <- !app_assoc. reflexivity.
  - (* if *) intros c IHc k H. constructor.
    + split; [lia|]. split; [lia|]. left. exact (H 2 _ eq_refl).
    + apply IHc. replace (k + 3) with (k + length [tIf; tI; tThen]) by reflexivity.
      eapply (tat_sub T k _ [tIf; tI; tThen] (render_stmt c) []); [|exact H]. rewrite app_nil_r. reflexivity.
  - (* if else *) intros c1 IH1 c2 IH2 k H. constructor.
    + split; [lia|]. split; [lia|]. left. exact (H 2 _ eq_refl).
    + apply Forall_app. split.
      * apply IH1. replace (k + 3) with (k + length [tIf; tI; tThen]) by reflexivity.
        apply (tat_sub T k _ [tIf; tI; tThen] (render_stmt c1) (tElse :: render_stmt c2) eq_refl H).
      * constructor.
        -- split; [lia|]. split; [lia|]. right. left.
           assert (X : toks_at T (k + length (tIf :: tI :: tThen :: render_stmt c1)) [tElse]).
           { eapply (tat_sub T k _ (tIf :: tI :: tThen :: render_stmt c1) [tElse] (render_stmt c2)); [|exact H]. cbn [app]. rewrite <- ?app_assoc. reflexivity. }
           specialize (X 0 tElse eq_refl). replace (k + length (tIf :: tI :: tThen :: render_stmt c1) + 0) with (k + 3 + length (render_stmt c1)) in X by lenr. exact X.
        -- apply IH2. replace (k + 3 + length (render_stmt c1) + 1) with (k + length (tIf :: tI :: tThen :: render_stmt c1 ++ [tElse])) by lenr.
           eapply (tat_sub T k _ (tIf :: tI :: tThen :: render_stmt c1 ++ [tElse]) (render_stmt c2) []); [|exact H].
           rewrite app_nil_r. cbn [app]. rewrite <- !app_assoc. reflexivity.
  - (* while *) intros c IHc k H. constructor.
    + split; [lia|]. split; [lia|]. right. right. left. exact (H 2 _ eq_refl).
    + apply IHc. replace (k + 3) with (k + length [tWhile; tI; tDo]) by reflexivity.
      eapply (tat_sub T k _ [tWhile; tI; tDo] (render_stmt c) []); [|exact H]. rewrite app_nil_r. reflexivity.
  - (* case *) intros a IHa k H. apply IHa. replace (k + 3) with (k + length [tCase; tI; tOf]) by reflexivity.
    apply (tat_sub T k _ [tCase; tI; tOf] (render_arms a) [tEnd] eq_refl H).
  - (* case else *) intros a IHa e IHe k H. apply Forall_app. split.
    + apply IHa. replace (k + 3) with (k + length [tCase; tI; tOf]) by reflexivity.
      apply (tat_sub T k _ [tCase; tI; tOf] (render_arms a) (tElse :: render e ++ [tEnd]) eq_refl H).
    + apply IHe. replace (k + 3 + length (render_arms a) + 1) with (k + length (tCase :: tI :: tOf :: render_arms a ++ [tElse])) by lenr.
      eapply (tat_sub T k _ (tCase :: tI :: tOf :: render_arms a ++ [tElse]) (render e) [tEnd]); [|exact H]. cbn [app]. rewrite <- !app_assoc. reflexivity.
  - intros. constructor.
  - (* cons *) intros c IHc r IHr k H. apply Forall_app. split.
    + apply IHc. replace k with (k + length (@nil RawTokenType)) by (cbn; lia). apply (tat_sub T k _ [] (render_stmt c) (tSemi :: render r) eq_refl H).
    + apply IHr. replace (k + length (render_stmt c) + 1) with (k + length (render_stmt c ++ [tSemi])) by lenr.
      eapply (tat_sub T k _ (render_stmt c ++ [tSemi]) (render r) []); [|exact H]. rewrite app_nil_r, <- app_assoc. reflexivity.
  - intros. constructor.
  - (* arm *) intros c IHc r IHr k H. constructor.
    + split; [lia|]. split; [lia|]. right. right. right. exact (H 1 _ eq_refl).
    + apply Forall_app. split.
      * apply IHc. replace (k + 2) with (k + length [tI; tColon]) by reflexivity.
        apply (tat_sub T k _ [tI; tColon] (render_stmt c) (tSemi :: render_arms r) eq_refl H).
      * apply IHr. replace (k + 2 + length (render_stmt c) + 1) with (k + length (tI :: tColon :: render_stmt c ++ [tSemi])) by lenr.
        eapply (tat_sub T k _ (tI :: tColon :: render_stmt c ++ [tSemi]) (render_arms r) []); [|exact H]. rewrite app_nil_r. cbn [app]. rewrite <- !app_assoc. reflexivity.
  - intros. constructor.
  - (* handler *) intros c IHc r IHr k H. constructor.
    + split; [lia|]. split; [lia|]. right. right. left. exact (H 4 _ eq_refl).
    + apply Forall_app. split.
      * apply IHc. replace (k + 5) with (k + length [tOn; tI; tColon; tI; tDo]) by reflexivity.
        apply (tat_sub T k _ [tOn; tI; tColon; tI; tDo] (render_stmt c) (tSemi :: render_handlers r) eq_refl H).
      * apply IHr. replace (k + 5 + length (render_stmt c) + 1) with (k + length (tOn :: tI :: tColon :: tI :: tDo :: render_stmt c ++ [tSemi])) by lenr.
        eapply (tat_sub T k _ (tOn :: tI :: tColon :: tI :: tDo :: render_stmt c ++ [tSemi]) (render_handlers r) []); [|exact H].
        rewrite app_nil_r. cbn [app]. rewrite <- !app_assoc. reflexivity.
Qed.
Theorem fragment_body_spans_kinds ss : Forall (kind_ok (render_prog ss)) (body_spans ss).
Proof.
  unfold body_spans. apply (proj1 (proj2 (spans_kinds (render_prog ss)))).
  intros j t Hj. unfold render_prog. change (nth_error (render ss ++ [tEnd; tDot; RTT_Eof]) j = Some t).
  rewrite nth_error_app1; [exact Hj|]. apply nth_error_Some. congruence.
Qed.

(* non-vacuity *)
Example fragment_parent_iff_example :
  let ss := SCons (TIfElse (TWhile TSimple) (TBlock (SCons (TCase (ACons (TIf TAssign) ANil)) (SCons TSimple SNil)))) (SCons TSimple SNil) in
  wf ss = true /\ body_spans ss = [(3, 4, 8); (6, 7, 8); (8, 9, 27); (14, 15, 21); (17, 18, 21)]
  /\ map (fun l => (hd 0 (ll_toks l), ll_parent l)) (r_lines (parse_file_model (render_prog ss) []))
     = [(0, None); (1, None); (4, Some (1, 3)); (7, Some (2, 6)); (9, Some (1, 8)); (10, Some (1, 8)); (13, Some (1, 8));
        (22, Some (1, 8)); (15, Some (6, 14)); (18, Some (8, 17)); (24, Some (1, 8)); (26, Some (1, 8)); (28, None); (30, None); (32, None)].
Proof. repeat split; vm_compute; reflexivity. Qed.
