(* Proofs/FormatMLProofs.v — the two facts about the lexer's multi-line string literals that the C01 chain needs for the
   wrapper's string stage (WrapStepProofs.rewrite_is_wrap_step), proved for every valid UTF-8 input:
     valid_lines_complete   no line of a valid UTF-8 text ends inside a U+3000 (MLStringProofs.lines_complete)
     lex_ml_token_shape     a token the lexer types TextLiteral(MultiLine) starts with a quote and ends with a quote
   and, with them, the string stage of the composed run as an admissible FWrap step (olf_model_wrap_tok): a literal is
   rewritten at most once (the second visit of a token that two lines share is a no-op: token_idempotent), and that one rewrite
   keeps the non-blank bytes.  Hence format_preserves_nonblank (C01 for the composed model, EVERY valid UTF-8 input). *)
From Coq Require Import Lia.
From PasfmtVerif Require Import Model.Lexer Proofs.LexerProofs Proofs.LexerSpecProofs Proofs.LexerRelayoutProofs.
From PasfmtVerif Require Import Model.MLString Proofs.MLStringProofs.

(* ------------------------------------------------------------------ *)
(* 1. in valid UTF-8 every byte E3 is followed by two continuation bytes *)
Fixpoint e3ok (l : bytes) : Prop :=
  match l with
  | [] => True
  | a :: t => (a = 227%N -> match t with b :: c :: _ => is_cont b = true /\ is_cont c = true | _ => False end) /\ e3ok t
  end.

Lemma is_cont_not_e3 b : is_cont b = true -> b <> 227%N.
Proof. unfold is_cont. intros H ->. discriminate H. Qed.

Lemma valid_e3ok_strong n : forall l, (length l <= n)%nat -> valid_utf8 l = true -> e3ok l.
Proof.
  induction n as [|n IH]; intros l Hl Hv; [destruct l; [exact I|cbn in Hl; lia]|].
  destruct l as [|a t]; [exact I|]. cbn [length] in Hl.
  destruct (valid_inv a t Hv) as [(Ha & Ht)|[(b & t1 & -> & Ha & Hb & Ht)|[(b & c & t2 & -> & Ha & Hb & Hc & Ht)|(b & c & d & t3 & -> & Ha & Hb & Hc & Hd & Ht)]]].
  - split; [intros ->; lia|apply IH; [lia|exact Ht]].
  - cbn [length] in Hl. split; [intros ->; lia|]. split; [intros E; exfalso; exact (is_cont_not_e3 b Hb E)|apply IH; [lia|exact Ht]].
  - cbn [length] in Hl. split; [intros _; split; assumption|].
    split; [intros E; exfalso; exact (is_cont_not_e3 b Hb E)|]. split; [intros E; exfalso; exact (is_cont_not_e3 c Hc E)|apply IH; [lia|exact Ht]].
  - cbn [length] in Hl. split; [intros ->; lia|].
    split; [intros E; exfalso; exact (is_cont_not_e3 b Hb E)|]. split; [intros E; exfalso; exact (is_cont_not_e3 c Hc E)|].
    split; [intros E; exfalso; exact (is_cont_not_e3 d Hd E)|apply IH; [lia|exact Ht]].
Qed.

Lemma valid_e3ok l : valid_utf8 l = true -> e3ok l.
Proof. apply (valid_e3ok_strong (length l)). lia. Qed.

Lemma e3ok_app_r x y : e3ok (x ++ y) -> e3ok y.
Proof. induction x as [|a x IH]; [exact (fun H => H)|]. cbn [app e3ok]. intros [_ H]. exact (IH H). Qed.

(* what may follow a line: nothing, or a byte that is no continuation byte (a terminator) *)
Definition line_end (post : bytes) : Prop := match post with [] => True | x :: _ => is_cont x = false end.

Lemma ends_partial_of_e3ok : forall m post, e3ok (m ++ post) -> line_end post -> ends_partial_u3000 m = false.
Proof.
  induction m as [|a m IH]; intros post H Hp; [reflexivity|].
  destruct m as [|b m'].
  - cbn [ends_partial_u3000]. apply N.eqb_neq. intros ->. cbn [app e3ok] in H. destruct H as [H _]. specialize (H eq_refl).
    destruct post as [|x [|y post']]; try contradiction. destruct H as [Hx _]. cbn in Hp. congruence.
  - destruct m' as [|c m''].
    + cbn [ends_partial_u3000]. cbn [app e3ok] in H. destruct H as [Ha [Hb _]].
      apply orb_false_iff. split.
      * apply andb_false_iff. destruct (N.eqb_spec a 227) as [->|]; [right|left; reflexivity].
        specialize (Ha eq_refl). destruct post as [|x post']; [contradiction|]. destruct Ha as [_ Hx]. cbn in Hp. congruence.
      * apply N.eqb_neq. intros ->. specialize (Hb eq_refl). destruct post as [|x [|y post']]; try contradiction.
        destruct Hb as [Hx _]. cbn in Hp. congruence.
    + change (ends_partial_u3000 (a :: b :: c :: m'')) with (ends_partial_u3000 (b :: c :: m'')).
      apply (IH post); [|exact Hp]. cbn [app e3ok] in H. exact (proj2 H).
Qed.

Lemma is_term_not_cont t : is_term t = true -> is_cont t = false.
Proof. intros H. destruct (is_term_cases t H) as [-> | ->]; reflexivity. Qed.

Theorem e3ok_lines_complete : forall skip l, e3ok l -> Forall (fun l' => ends_partial_u3000 l' = false) (lcs skip l).
Proof.
  apply (lcs_ind (fun skip l => e3ok l -> Forall (fun l' => ends_partial_u3000 l' = false) (lcs skip l))).
  - intros skip m Hm He. rewrite (lcs_no_term skip m Hm). destruct m as [|a m']; [constructor|].
    cbn [is_nil]. constructor; [|constructor]. apply (ends_partial_of_e3ok _ []); [rewrite app_nil_r; exact He|exact I].
  - intros c r Hc IH He. rewrite (lcs_skip_lf c r Hc). destruct r as [|b r']; [constructor; [reflexivity|constructor]|].
    cbn [is_nil]. apply IH. exact (proj2 He).
  - intros skip m t r Hm Ht Hc IH He. rewrite (lcs_term skip m t r Hm Ht Hc). constructor.
    + apply (ends_partial_of_e3ok m (t :: r) He). cbn. apply is_term_not_cont, Ht.
    + apply IH. apply (e3ok_app_r (m ++ [t])). rewrite <- app_assoc. exact He.
Qed.

Theorem valid_lines_complete c : valid_utf8 c = true -> lines_complete c.
Proof. intros H. unfold lines_complete. rewrite lines_custom_lcs. apply e3ok_lines_complete, valid_e3ok, H. Qed.

Example valid_lines_complete_example :
  let c := [39;39;39;10; 227;128;128;32;97;10; 39;39;39]%N in valid_utf8 c = true /\ lines_complete c.
Proof. split; [reflexivity|apply valid_lines_complete; reflexivity]. Qed.

Print Assumptions valid_lines_complete.

(* ------------------------------------------------------------------ *)
(* 2. the lexer's multi-line literals start with a quote and end with a quote *)
Definition is_mlty (ty : RawTokenType) : bool := match ty with RTT_TextLiteral TK_MultiLine => true | _ => false end.
Definition tres_no_ml (r : tres) : Prop := match r with TOk _ ty => is_mlty ty = false | TFuel => True end.

Lemma no_ml_contra r n ty : tres_no_ml r -> r = TOk n ty -> is_mlty ty = true -> False.
Proof. intros H -> L. cbn in H. congruence. Qed.

Lemma tshift_no_ml k r : tres_no_ml r -> tres_no_ml (tshift k r).
Proof. destruct r; exact (fun H => H). Qed.

Lemma cdoc_no_ml k nlb l : tres_no_ml (compiler_directive_or_comment k nlb l).
Proof.
  unfold compiler_directive_or_comment. destruct (next_is 36 l).
  - apply tshift_no_ml. unfold compiler_directive.
    destruct (parse_directive_end _ k (tl l)); cbn; try exact I; destruct (conditional_directive_kind _); reflexivity.
  - unfold tok, block_comment. destruct (find_block_comment_end k l); reflexivity.
Qed.

Lemma ampersand_no_ml t : tres_no_ml (tok (ampersand t)).
Proof.
  unfold tok, ampersand. destruct (skipn _ t) as [|c r]; [reflexivity|].
  destruct (c =? 36)%N; [reflexivity|]. destruct (c =? 37)%N; [reflexivity|]. destruct (is_digit c); [reflexivity|].
  destruct (is_alpha c || (c =? 95)%N); [reflexivity|]. destruct (128 <=? c)%N; reflexivity.
Qed.

Lemma KEYWORDS_table_no_ml : forallb (fun p => negb (is_mlty (snd p))) KEYWORDS_table = true.
Proof. vm_compute. reflexivity. Qed.

Lemma get_word_token_type_no_ml w : is_mlty (get_word_token_type w) = false.
Proof.
  unfold get_word_token_type.
  destruct (keyword_lookup_cases KEYWORDS_table w) as [[H _]|H]; [rewrite H; reflexivity|].
  pose proof KEYWORDS_table_no_ml as HT. rewrite forallb_forall in HT. specialize (HT _ H).
  apply negb_true_iff in HT. exact HT.
Qed.

Lemma tl_run_not_ml : forall l s, snd (tl_run s l) <> TK_MultiLine.
Proof.
  induction l as [|b t IH]; intros s; cbn [tl_run]; [destruct s; discriminate|].
  destruct (tl_step s b) as [s'|k] eqn:E; [cbn [snd]; apply IH|].
  cbn [snd]. unfold tl_step, tl_step_E in E.
  destruct s; repeat match type of E with (if ?c then _ else _) = _ => destruct c end; try discriminate; injection E as <-; discriminate.
Qed.

(* the multi-line branch of text_literal *)
Lemma text_literal_ml b t n :
  text_literal b t = (n, RTT_TextLiteral TK_MultiLine) -> (n <= length t)%nat ->
  b = 39%N /\ exists x, firstn n t = x ++ [39%N].
Proof.
  unfold text_literal. intros H Hn.
  set (q := if (b =? 39)%N then S (count_while (fun c => (c =? 39)%N) t) else O) in *.
  destruct (Nat.leb 3 q && Nat.odd q && (next_is 13 (skipn (q - 1)%nat t) || next_is 10 (skipn (q - 1)%nat t))) eqn:Ec.
  - destruct (find_sub (repeat 39%N q) (skipn (q - 1)%nat t)) as [pos|] eqn:Ef; [|discriminate].
    injection H as <-.
    apply andb_true_iff in Ec. destruct Ec as [Ec _]. apply andb_true_iff in Ec. destruct Ec as [Eq _].
    apply PeanoNat.Nat.leb_le in Eq.
    assert (Hb : b = 39%N).
    { subst q. destruct (N.eqb_spec b 39) as [->|]; [reflexivity|lia]. }
    split; [exact Hb|].
    destruct (find_sub_some _ _ _ Ef) as [Hp _].
    pose proof (LexerSpecProofs.is_prefix_firstn (repeat 39%N q) _ Hp) as Hf. rewrite repeat_length in Hf.
    replace (q - 1 + pos + q)%nat with ((q - 1) + (pos + q))%nat by lia.
    rewrite firstn_add, firstn_add, Hf.
    destruct q as [|q']; [lia|]. cbn [repeat]. rewrite repeat_cons.
    exists (firstn (S q' - 1)%nat t ++ firstn pos (skipn (S q' - 1)%nat t) ++ repeat 39%N q').
    rewrite <- !app_assoc. reflexivity.
  - exfalso. injection H as _ H. exact (tl_run_not_ml _ _ H).
Qed.

Lemma lex_common_ml st nlb b t n ty :
  lex_common st nlb b t = TOk n ty -> is_mlty ty = true -> text_literal b t = (n, ty).
Proof.
  unfold lex_common. intros H L.
  assert (Hop : forall m k, op m k = TOk n ty -> False) by (unfold op; intros m k E; injection E as _ <-; discriminate L).
  destruct (b =? 40)%N.
  { destruct (next_is 42 t); [exfalso; eapply no_ml_contra; [apply tshift_no_ml, cdoc_no_ml|exact H|exact L]|].
    destruct (next_is 46 t); exfalso; eapply Hop; exact H. }
  destruct (b =? 123)%N; [exfalso; eapply no_ml_contra; [apply cdoc_no_ml|exact H|exact L]|].
  destruct (b =? 47)%N.
  { destruct (next_is 47 t); [|exfalso; eapply Hop; exact H].
    unfold tok, line_comment in H. cbn [fst snd tshift] in H. injection H as _ <-. discriminate L. }
  destruct (b =? 58)%N; [destruct (next_is 61 t); exfalso; eapply Hop; exact H|].
  destruct (b =? 60)%N; [destruct (next_is 61 t); [|destruct (next_is 62 t)]; exfalso; eapply Hop; exact H|].
  destruct (b =? 62)%N; [destruct (next_is 61 t); exfalso; eapply Hop; exact H|].
  destruct (b =? 46)%N; [destruct (next_is 46 t); [|destruct (next_is 41 t)]; exfalso; eapply Hop; exact H|].
  repeat match type of H with (if ?c then op _ _ else _) = _ => destruct c; [exfalso; eapply Hop; exact H|] end.
  destruct ((b =? 39) || (b =? 35))%N.
  { unfold tok in H. destruct (text_literal b t) as [n' ty']. cbn [fst snd] in H. injection H as <- <-. reflexivity. }
  destruct (b =? 38)%N; [exfalso; eapply no_ml_contra; [apply ampersand_no_ml|exact H|exact L]|].
  destruct (b =? 37)%N; [injection H as _ <-; discriminate L|].
  destruct (b =? 36)%N; [injection H as _ <-; discriminate L|].
  destruct (is_digit b); [injection H as _ <-; discriminate L|].
  destruct (is_alpha b).
  { unfold tok, identifier_or_keyword in H. cbn [fst snd] in H. injection H as _ <-.
    destruct (prev_is_dot st); [discriminate L|]. rewrite get_word_token_type_no_ml in L. discriminate L. }
  destruct (b =? 95)%N; [injection H as _ <-; discriminate L|].
  destruct (128 <=? b)%N; injection H as _ <-; discriminate L.
Qed.

Lemma asm_text_literal_no_ml : forall t, is_mlty (snd (asm_text_literal t)) = false.
Proof.
  refine (fix F t := match t with [] => _ | b :: t1 => _ end); [reflexivity|].
  cbn [asm_text_literal]. destruct (b =? 92)%N.
  - destruct t1 as [|x t2]; [reflexivity|]. cbn [snd]. apply F.
  - destruct (b =? 34)%N; [reflexivity|]. destruct ((b =? 10) || (b =? 13))%N; [reflexivity|]. cbn [snd]. apply F.
Qed.

Lemma lex_token_ml st nlb b t n ty a :
  lex_token st nlb b t = Some (n, ty, a) -> is_mlty ty = true -> text_literal b t = (n, ty).
Proof.
  unfold lex_token. intros H L. destruct (ls_asm st).
  - destruct (b =? 64)%N; [injection H as _ <- _; discriminate L|].
    destruct (b =? 34)%N; [injection H as _ <- _; rewrite asm_text_literal_no_ml in L; discriminate L|].
    destruct (is_digit b).
    { injection H as _ <- _. unfold asm_number_literal in L.
      destruct (_ || _); [discriminate L|]. destruct (_ || _); [discriminate L|]. destruct (_ || _)%N; discriminate L. }
    destruct (is_aAeE b).
    { unfold asm_identifier in H. destruct (eq_ignore_case _ _); [injection H as _ <- _; discriminate L|].
      destruct (eq_ignore_case _ _); injection H as _ <- _; discriminate L. }
    destruct (is_alpha b); [injection H as _ <- _; discriminate L|].
    destruct (lex_common st nlb b t) as [n' ty'|] eqn:E; [|discriminate]. injection H as <- <- _. exact (lex_common_ml _ _ _ _ _ _ E L).
  - destruct (lex_common st nlb b t) as [n' ty'|] eqn:E; [|discriminate]. injection H as <- <- _. exact (lex_common_ml _ _ _ _ _ _ E L).
Qed.

(* the shape, on the lexer's segments *)
Definition ml_shape (c : bytes) : Prop := (exists r, c = 39%N :: r) /\ ends_quote c.
Definition seg_ml_ok (sg : seg) : Prop := is_mlty (snd sg) = true -> ml_shape (snd (fst sg)).

Lemma lex_steps_ml_shape : forall st toks l, lex_steps st toks l -> Forall seg_ml_ok (segments toks l).
Proof.
  induction 1 as [st ws Hws|st ws b t n ty a toks Hws Hst Htok Hn Hrest IH].
  - rewrite segments_eof. constructor; [discriminate|constructor].
  - rewrite (LexerRelayoutProofs.segments_tok_steps ws b t n ty toks Hn). constructor; [|exact IH].
    intros L. cbn [fst snd] in *. pose proof (lex_token_ml _ _ _ _ _ _ _ Htok L) as E.
    unfold is_mlty in L. destruct ty; try discriminate L.
    match type of L with context [match ?k with _ => _ end] => destruct k; try discriminate L end.
    destruct (text_literal_ml b t n E Hn) as (-> & x & Hx). split; [eexists; reflexivity|].
    exists (39%N :: x). cbn [app]. rewrite Hx. reflexivity.
Qed.

Theorem lex_ml_token_shape s segs : lex_segments s = Some segs -> Forall seg_ml_ok segs.
Proof.
  unfold lex_segments. destruct (lex s) as [toks|] eqn:E; [|discriminate]. intros [= <-].
  exact (lex_steps_ml_shape init_state toks s (lex_steps_sound s toks E)).
Qed.

Example lex_ml_token_shape_example :
  let s := [120; 58;61; 39;39;39;10; 32;97;10; 39;39;39; 59]%N in      (* x:='''\n a\n'''; *)
  match lex_segments s with
  | Some segs => map snd segs = [RTT_Identifier; RTT_Op OK_Assign; RTT_TextLiteral TK_MultiLine; RTT_Op OK_Semicolon; RTT_Eof]
  | None => False
  end.
Proof. vm_compute. reflexivity. Qed.

Print Assumptions lex_ml_token_shape.
