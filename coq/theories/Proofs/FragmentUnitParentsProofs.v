(* Proofs/FragmentUnitParentsProofs.v — which lines of a UNIT of the fragment have a parent (fragment_parent_iff
   with a token offset): exactly the lines whose first token lies in the body of an if/while statement, a case
   arm or an exception handler of the main block; the lines of the declaration sections never have one.  The
   body ranges are those of Fragment.spans, counted from the token after the `begin` of the main block. *)
From PasfmtVerif Require Import Model.Fragment Proofs.FragmentProofs Proofs.FragmentParentsProofs Proofs.FragmentUnitProofs.
Local Open Scope nat_scope.

(* the bodies of the main block of a unit whose sections take K tokens *)
Definition unit_spans (K : nat) (ss : stmts) : list (nat * nat * nat) := spans (K + 1) ss.
Definition unit_body_spans (ds : list decl) (ss : stmts) : list (nat * nat * nat) := unit_spans (length (render_decls ds)) ss.
Definition unit2_body_spans (ds : list udecl) (ss : stmts) : list (nat * nat * nat) := unit_spans (length (render_udecls ds)) ss.

(* a line without parent that starts in front of token K *)
Definition before (K : nat) (l : lline) : Prop := ll_parent l = None /\ forall f, hd_error (ll_toks l) = Some f -> f < K.
Lemma unit_LP K LI dl ss : Forall (before K) dl ->
  Forall (LP None (unit_spans K ss) 0 (K + length (render_prog ss))) (dl ++ main_lines K LI ss).
Proof.
  intros Hd. unfold unit_spans. apply Forall_app. split.
  - eapply Forall_impl; [|exact Hd]. intros l [Hp Hf] f Hhd. specialize (Hf f Hhd). split; [lia|]. split.
    + split; [intros _; split; [reflexivity|]|intros _; exact Hp].
      apply (in_spans_out _ _ _ f (spans_range ss (K + 1))). left. lia.
    + intros i t Hpar. rewrite Hp in Hpar. discriminate.
  - unfold main_lines, render_prog. cbv zeta. destruct lines_LP as (_ & Hs & _).
    constructor; [eapply LP_own; [reflexivity|lenr|nospan]|]. apply Forall_app. split.
    + eapply Forall_LP_sub; [apply Hs|lenr|lenr|reflexivity|apply incl_refl].
    + constructor; [eapply LP_own; [reflexivity|lenr|nospan]|]. constructor; [eapply LP_own; [reflexivity|lenr|nospan]|constructor].
Qed.
(* from the lines before consolidation to the lines of the result *)
Lemma parent_iff_of_LP pl sp lo hi : Forall (LP None sp lo hi) pl ->
  forall l f, In l (finalize pl) -> hd_error (ll_toks l) = Some f ->
  (ll_parent l <> None <-> in_spans sp f = true)
  /\ (forall i t, ll_parent l = Some (i, t) -> exists a b, In (t, a, b) sp).
Proof.
  intros HP l f Hin Hf. rewrite finalize_eq in Hin. apply in_map_iff in Hin. destruct Hin as (l0 & <- & Hin0).
  apply filter_In in Hin0. destruct Hin0 as [Hin0 _].
  pose proof (proj1 (Forall_forall _ _) HP l0 Hin0 f Hf) as (_ & Iff & Tk).
  unfold remap. cbn [ll_parent]. split.
  - destruct (ll_parent l0) as [[i t]|] eqn:Ep.
    + split; [intros _|discriminate]. destruct (in_spans sp f) eqn:E; [reflexivity|].
      assert (X : @None (nat * nat) = None /\ false = false) by (split; reflexivity). apply Iff in X. discriminate.
    + split; [intros X; contradiction X; reflexivity|]. intros E. destruct (proj1 Iff eq_refl) as [_ E']. congruence.
  - intros i t Hp. destruct (ll_parent l0) as [[i0 t0]|] eqn:Ep; [|discriminate]. injection Hp as _ <-.
    destruct (Tk i0 t0 eq_refl) as [X|X]; [discriminate|exact X].
Qed.

(* ---------------- the lines of the sections start in front of the main block *)
Definition within (lo hi : nat) (l : lline) : Prop := ll_parent l = None /\ forall f, hd_error (ll_toks l) = Some f -> lo <= f < hi.
Lemma within_before lo hi K ls : hi <= K -> Forall (within lo hi) ls -> Forall (before K) ls.
Proof. intros H. apply Forall_impl. intros l [Hp Hf]. split; [exact Hp|]. intros f Hh. specialize (Hf f Hh). lia. Qed.
Lemma within_weaken lo hi lo' hi' ls : lo' <= lo -> hi <= hi' -> Forall (within lo hi) ls -> Forall (within lo' hi') ls.
Proof. intros H1 H2. apply Forall_impl. intros l [Hp Hf]. split; [exact Hp|]. intros f Hh. specialize (Hf f Hh). lia. Qed.
Lemma within_one lo hi ty lv f r : lo <= f < hi -> within lo hi (mkLine ty lv None (f :: r)).
Proof. intros H. split; [reflexivity|]. intros g Hg. cbn in Hg. injection Hg as <-. exact H. Qed.
Lemma member_lines_within j : forall k, Forall (within k (k + 4 * j)) (member_lines k j).
Proof.
  induction j as [|j IH]; intros k; cbn [member_lines]; constructor; [apply within_one; lia|].
  eapply within_weaken; [| |apply IH]; lia.
Qed.
Lemma decl_lines_within ds : forall k, Forall (within k (k + length (render_decls ds))) (decl_lines k ds).
Proof.
  induction ds as [|dc r IH]; intros k; cbn [decl_lines render_decls]; [constructor|].
  rewrite app_length, render_decl_length. constructor; [apply within_one; lia|]. apply Forall_app. split.
  - eapply within_weaken; [| |apply member_lines_within]; lia.
  - eapply within_weaken; [| |apply IH]; lia.
Qed.
Lemma member_lines_at_within lv j : forall k, Forall (within k (k + 4 * j)) (member_lines_at lv k j).
Proof.
  induction j as [|j IH]; intros k; cbn [member_lines_at]; constructor; [apply within_one; lia|].
  eapply within_weaken; [| |apply IH]; lia.
Qed.
Lemma vsec_lines_within vs : forall k, Forall (within k (k + length (render_vsecs vs))) (vsec_lines k vs).
Proof.
  induction vs as [|[pv j] r IH]; intros k; cbn [vsec_lines render_vsecs]; [constructor|]. cbn [length]. rewrite app_length, render_fields_length.
  constructor; [apply within_one; lia|]. apply Forall_app. split.
  - eapply within_weaken; [| |apply member_lines_at_within]; lia.
  - eapply within_weaken; [| |apply IH]; lia.
Qed.
Lemma tdef_lines_within td k : Forall (within k (k + length (render_tdef td))) (tdef_lines k td).
Proof.
  unfold tdef_lines. destruct td as [j|n0 vs]; cbn [render_tdef length]; rewrite ?app_length, ?render_fields_length; cbn [length].
  - constructor; [apply within_one; lia|]. apply Forall_app. split.
    + eapply within_weaken; [| |apply member_lines_at_within]; lia.
    + constructor; [apply within_one; lia|constructor].
  - constructor; [apply within_one; lia|]. apply Forall_app. split; [apply Forall_app; split|].
    + eapply within_weaken; [| |apply member_lines_at_within]; lia.
    + eapply within_weaken; [| |apply vsec_lines_within]; lia.
    + constructor; [apply within_one; lia|constructor].
Qed.
Lemma tdefs_lines_within ts : forall k, Forall (within k (k + length (render_tdefs ts))) (tdefs_lines k ts).
Proof.
  induction ts as [|td r IH]; intros k; cbn [tdefs_lines render_tdefs]; [constructor|]. rewrite app_length. apply Forall_app. split.
  - eapply within_weaken; [| |apply tdef_lines_within]; lia.
  - eapply within_weaken; [| |apply IH]; lia.
Qed.
Lemma udecl_lines_within ds : forall k, Forall (within k (k + length (render_udecls ds))) (udecl_lines k ds).
Proof.
  induction ds as [|dc r IH]; intros k; cbn [udecl_lines render_udecls]; [constructor|]. rewrite app_length.
  assert (Hl : exists m, length (render_udecl dc) = 1 + m /\ Forall (within (k + 1) (k + 1 + m)) (usection_lines (k + 1) dc)).
  { destruct dc as [j|j|ts]; cbn [render_udecl usection_lines length].
    - exists (4 * j). rewrite render_fields_length. split; [reflexivity|apply member_lines_at_within].
    - exists (4 * j). rewrite render_members_length. cbn [length]. split; [lia|apply member_lines_at_within].
    - eexists. split; [reflexivity|apply tdefs_lines_within]. }
  destruct Hl as (m & Hl & Hu). constructor; [apply within_one; lia|]. apply Forall_app. split.
  - eapply within_weaken; [| |exact Hu]; lia.
  - eapply within_weaken; [| |apply IH]; lia.
Qed.

(* ---------------- THE CHARACTERISATION for units *)
Theorem fragment_unit_parent_iff ds ss : wf ss = true ->
  forall l f, In l (r_lines (parse_file_model (render_unit ds ss) [])) -> hd_error (ll_toks l) = Some f ->
  (ll_parent l <> None <-> in_spans (unit_body_spans ds ss) f = true)
  /\ (forall i t, ll_parent l = Some (i, t) -> exists a b, In (t, a, b) (unit_body_spans ds ss)).
Proof.
  intros Hwf l f Hin. destruct (fragment_unit_parse_file ds ss Hwf) as (_ & Hl & _). rewrite Hl in Hin. revert l f Hin.
  unfold expected_unit, pexpected_unit. cbv zeta.
  apply (parent_iff_of_LP _ _ 0 (length (render_decls ds) + length (render_prog ss))). apply unit_LP.
  eapply within_before; [|apply decl_lines_within]. lia.
Qed.
Theorem fragment_unit2_parent_iff ds ss : wf ss = true ->
  forall l f, In l (r_lines (parse_file_model (render_unit2 ds ss) [])) -> hd_error (ll_toks l) = Some f ->
  (ll_parent l <> None <-> in_spans (unit2_body_spans ds ss) f = true)
  /\ (forall i t, ll_parent l = Some (i, t) -> exists a b, In (t, a, b) (unit2_body_spans ds ss)).
Proof.
  intros Hwf l f Hin. destruct (fragment_unit2_parse_file ds ss Hwf) as (_ & Hl & _). rewrite Hl in Hin. revert l f Hin.
  unfold expected_unit2, pexpected_unit2. cbv zeta.
  apply (parent_iff_of_LP _ _ 0 (length (render_udecls ds) + length (render_prog ss))). apply unit_LP.
  eapply within_before; [|apply udecl_lines_within]. lia.
Qed.
(* the lines of the sections have no parent: their first tokens are in front of every body *)
Corollary fragment_unit2_section_lines_no_parent ds ss : wf ss = true ->
  forall l f, In l (r_lines (parse_file_model (render_unit2 ds ss) [])) -> hd_error (ll_toks l) = Some f ->
  f <= length (render_udecls ds) -> ll_parent l = None.
Proof.
  intros Hwf l f Hin Hf Hle. destruct (fragment_unit2_parent_iff ds ss Hwf l f Hin Hf) as [Iff _].
  destruct (ll_parent l) eqn:E; [|reflexivity]. exfalso.
  assert (X : in_spans (unit2_body_spans ds ss) f = true) by (apply Iff; discriminate).
  unfold unit2_body_spans, unit_spans in X.
  rewrite (in_spans_out _ _ _ f (spans_range ss (length (render_udecls ds) + 1))) in X by (left; lia). discriminate.
Qed.

(* ... and the token in front of a body is `then`, `else`, `do` or the colon of a case arm *)
Lemma unit_spans_kinds K pre ss : length pre = K -> Forall (kind_ok (pre ++ render_prog ss)) (unit_spans K ss).
Proof.
  intros HK. unfold unit_spans. apply (proj1 (proj2 (spans_kinds (pre ++ render_prog ss)))).
  intros j t Hj. rewrite nth_error_app2 by lia. replace (K + 1 + j - length pre) with (S j) by lia.
  unfold render_prog. change (nth_error (render ss ++ [tEnd; tDot; RTT_Eof]) j = Some t).
  rewrite nth_error_app1; [exact Hj|]. apply nth_error_Some. congruence.
Qed.
Theorem fragment_unit_body_spans_kinds ds ss : Forall (kind_ok (render_unit ds ss)) (unit_body_spans ds ss).
Proof. apply unit_spans_kinds. reflexivity. Qed.
Theorem fragment_unit2_body_spans_kinds ds ss : Forall (kind_ok (render_unit2 ds ss)) (unit2_body_spans ds ss).
Proof. apply unit_spans_kinds. reflexivity. Qed.

(* non-vacuity: a type section and a var section (11 tokens), then a main block with an if-else whose branches
   are a while statement and a block *)
Example fragment_unit2_parent_iff_example :
  let ds := [UType [TRec 1]; UVar 0] in
  let ss := SCons (TIfElse (TWhile TSimple) (TBlock (SCons TSimple SNil))) (SCons TSimple SNil) in
  wf ss = true /\ unit2_body_spans ds ss = [(14, 15, 19); (17, 18, 19); (19, 20, 24)]
  /\ map (fun l => (hd 0 (ll_toks l), ll_parent l)) (r_lines (parse_file_model (render_unit2 ds ss) []))
     = [(0, None); (1, None); (4, None); (8, None); (10, None); (11, None); (12, None); (15, Some (6, 14)); (18, Some (7, 17));
        (20, Some (6, 19)); (21, Some (6, 19)); (23, Some (6, 19)); (25, None); (27, None); (29, None)].
Proof. repeat split; vm_compute; reflexivity. Qed.
