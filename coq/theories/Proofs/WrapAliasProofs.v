(* Proofs/WrapAliasProofs.v — the first-token aliasing of find_optimal_solution on its witness.
   mod.rs builds the initial heap nodes with `map_with(node, |node, child_sol| { node.decision.get_mut().child_solutions
   = child_sol; node })`: the clones share the root of the decision tree, so with two child-line options both nodes
   end up with the SECOND option's child solutions (Model/WrapSearch.v: find_optimal_solution, `kids := last sols`).
   Witness `case A of : B; end;` (ill-formed: a case arm whose line is the lone `:`), width 120: the options for the
   child line `B;` are [ContinueAll; BreakAll]; the solution returned carries the BreakAll solution (penalty 3, `B`
   starts a line) although the ContinueAll solution exists with penalty 0 and is the first option.
   No well-formed witness was found (0 of ~15 000 well-formed cases differ from a non-aliasing variant): in
   well-formed code the first token of a line is not the (remapped) parent token of a child line. *)
From PasfmtVerif Require Import Model.WrapSearch Model.WrapFormat.

Definition al_infos : list tokinfo :=
  [mkTI (TT_Keyword KK_Case) 0 4 None; mkTI TT_Identifier 1 1 None; mkTI (TT_Keyword KK_Of) 1 2 None; mkTI (TT_Op OK_Colon) 1 1 None;
   mkTI TT_Identifier 1 1 None; mkTI (TT_Op OK_Semicolon) 0 1 None; mkTI (TT_Keyword KK_End) 1 3 None; mkTI (TT_Op OK_Semicolon) 0 1 None;
   mkTI TT_Eof 0 0 None].
Definition al_lines : list lline :=
  [mkLine LLT_CaseHeader 0 None [0; 1; 2]%nat; mkLine LLT_CaseArm 1 None [3]%nat; mkLine LLT_Unknown 0 None [6; 7]%nat;
   mkLine LLT_Unknown 1 (Some (1, 3)%nat) [4; 5]%nat; mkLine LLT_Eof 0 None [8]%nat].
Definition al_W : wsettings := mkWS 120 200 false 2 4.
Definition al_lvs := mk_lviews al_infos al_lines.

(* the solution of the `:` line carries the BreakAll child solution: `B` starts a line, child penalty 3 *)
Example alias_result_is_second_option :
  match nth_error al_lvs 1 with
  | Some lv => match solve al_W al_lvs (main_fuel al_W) 6 sst_init lv (1, 0) FD_Break with
               | (_, Some s) => match sol_decs s with
                                | [t] => match td_kids t with
                                         | [(k, s')] => k = 3%nat /\ map td_dec (sol_decs s') = [WBreak 0; WContinue] /\ sol_pen s' = 3
                                         | _ => False
                                         end
                                | _ => False
                                end
               | _ => False
               end
  | None => False
  end.
Proof. vm_compute. repeat split; reflexivity. Qed.

(* the first option, ContinueAll (the child continues the `:` line, which is 1 wide), has a solution of penalty 0 *)
Example alias_first_option_exists :
  match nth_error al_lvs 3 with
  | Some lv => match solve al_W al_lvs (main_fuel al_W) 6 sst_init lv (0, 0) (FD_Continue 3 false) with
               | (_, Some s') => map td_dec (sol_decs s') = [WContinue; WContinue] /\ sol_pen s' = 0
               | _ => False
               end
  | None => False
  end.
Proof. vm_compute. split; reflexivity. Qed.
