(* Proofs/WrapEventsProofs.v — from the solutions to the hook events and the final counters:
   1. the token table is the list of token infos (ti_get_build);
   2. whatever the search does to its state, it only logs search outcomes (Ev_S), adds cache entries or sets the
      fuel flag (state_inv_solve): the decision events of the log are exactly those reconstruct_solution emits;
   3. every decision event emitted for a sol_deep solution respects the invariant of its token in the line that
      decided it (recon_events_ok, wrap_phase_events_ok);
   4. apply_plan: the last decision of a token wins (apply_plan_nth), a token starts a line afterwards iff its last
      decision is a break (last_decision_nl). *)
From PasfmtVerif Require Import Model.WrapSearch Model.WrapFormat Proofs.WrapSearchProofs Proofs.WrapSearchDeepProofs.
From Coq Require Import Lia.

(* ------------------------------------------------------------------ *)
(* 1. functional array *)
Lemma pt_get_set_same {A} p : forall (v : option A) t, pt_get p (pt_set p v t) = v.
Proof. induction p as [q IH|q IH|]; intros v [|l x r]; cbn [pt_set pt_get]; try apply IH; reflexivity. Qed.

Lemma pt_get_leaf {A} p : pt_get p (@PLeaf A) = None.
Proof. destruct p; reflexivity. Qed.

Lemma pt_get_set_other {A} p : forall q (v : option A) t, p <> q -> pt_get q (pt_set p v t) = pt_get q t.
Proof.
  induction p as [p IH|p IH|]; intros q v t Hne; destruct q as [q|q|]; destruct t as [|l x r]; cbn [pt_set pt_get];
    rewrite ?pt_get_leaf; try reflexivity; try congruence.
  - rewrite (IH q v PLeaf) by congruence. apply pt_get_leaf.
  - apply IH. congruence.
  - rewrite (IH q v PLeaf) by congruence. apply pt_get_leaf.
  - apply IH. congruence.
Qed.

Lemma succ_pos_inj a b : N.succ_pos a = N.succ_pos b -> a = b.
Proof. intros H. apply (f_equal Pos.pred_N) in H. rewrite !N.pos_pred_succ in H. exact H. Qed.

Lemma ti_get_build : forall l i t g,
  ti_get (ti_build l i t) g = if g <? i then ti_get t g else match nth_error l (N.to_nat (g - i)) with Some x => Some x | None => ti_get t g end.
Proof.
  induction l as [|x r IH]; intros i t g; cbn [ti_build].
  - destruct (g <? i); [reflexivity|]. destruct (N.to_nat (g - i)); reflexivity.
  - rewrite IH. unfold ti_get.
    destruct (g <? N.succ i) eqn:E1; destruct (g <? i) eqn:E2.
    + apply N.ltb_lt in E2. rewrite pt_get_set_other; [reflexivity|]. intros H. apply succ_pos_inj in H. lia.
    + apply N.ltb_lt in E1. apply N.ltb_ge in E2. assert (g = i) by lia. subst g. rewrite pt_get_set_same.
      replace (N.to_nat (i - i)) with O by lia. reflexivity.
    + apply N.ltb_lt in E2. apply N.ltb_ge in E1. lia.
    + apply N.ltb_ge in E1. apply N.ltb_ge in E2.
      replace (N.to_nat (g - i)) with (S (N.to_nat (g - N.succ i))) by lia. cbn [nth_error].
      destruct (nth_error r (N.to_nat (g - N.succ i))); [reflexivity|].
      rewrite pt_get_set_other; [reflexivity|]. intros H. apply succ_pos_inj in H. lia.
Qed.

Corollary ti_get_infos infos g : ti_get (ti_build infos 0 PLeaf) g = nth_error infos (N.to_nat g).
Proof.
  rewrite ti_get_build. replace (g <? 0) with false by (symmetry; apply N.ltb_ge; lia). rewrite N.sub_0_r.
  destruct (nth_error infos (N.to_nat g)); [reflexivity|]. unfold ti_get. apply pt_get_leaf.
Qed.

(* ------------------------------------------------------------------ *)
(* 2. the search changes its state only through sst_log (Ev_S ..), sst_cache_add and sst_err *)
Section StateInv.
Variable Q : sst -> Prop.
Hypothesis Qlog : forall st l o, Q st -> Q (sst_log (Ev_S l o) st).
Hypothesis Qcache : forall st k v, Q st -> Q (sst_cache_add k v st).
Hypothesis Qerr : forall st, Q st -> Q (sst_err st).

Variable W : wsettings.
Variable lvs : list lview.
Variable fmain : nat.
Variable child_solve : sst -> lview -> N * N -> first_decision -> sst * option solution.
Hypothesis Hchild : forall st lv' ws fd, Q st -> Q (fst (child_solve st lv' ws fd)).

Lemma solve_children_q opt base deind : forall kids st first lll acc,
  Q st -> Q (fst (solve_children lvs child_solve st opt base deind kids first lll acc)).
Proof.
  induction kids as [|k rest IH]; intros st first lll acc Hst; cbn [solve_children]; [exact Hst|].
  destruct (nth_error lvs k) as [lv'|]; [|exact Hst].
  match goal with |- context [child_solve st lv' ?ws ?fd] => pose proof (Hchild st lv' ws fd Hst) as Hc; destruct (child_solve st lv' ws fd) as [st1 r] end.
  cbn [fst] in Hc. destruct r as [s|]; [|exact Hc]. apply IH. exact Hc.
Qed.

Lemma child_lines_solutions_q st line_idx r gtoks tok_li ws decs d nli tll pc :
  Q st -> Q (fst (child_lines_solutions W lvs child_solve st line_idx r gtoks tok_li ws decs d nli tll pc)).
Proof.
  intros Hst. unfold child_lines_solutions.
  destruct (tr_kids r) as [lc|]; [|exact Hst].
  destruct (match lch_lines lc with k :: _ => nth_error lvs k | [] => None end) as [first_child|]; [|exact Hst].
  match goal with |- context [fold_left ?F ?opts (st, [])] =>
    assert (Hfold : forall options acc, Q (fst acc) -> Q (fst (fold_left F options acc))); [|apply Hfold; exact Hst] end.
  induction options as [|opt options IH]; intros [st0 sols] H1; cbn [fold_left]; [exact H1|].
  cbn [fst] in H1. apply IH.
  destruct (cache_find _ (ss_cache st0)) as [s|]; [exact H1|].
  destruct opt as [|ii cc xx|ii cc xx];
    match goal with |- context [solve_children lvs child_solve st0 ?o ?b ?dd ?ks ?f ?l ?a] =>
      pose proof (solve_children_q o b dd ks st0 f l a H1) as Hs;
      destruct (solve_children lvs child_solve st0 o b dd ks f l a) as [st1 res] end;
    cbn [fst] in *; destruct res as [s|]; try exact Hs; apply Qcache; exact Hs.
Qed.

Variable lv : lview.
Notation potential' := (potential W lvs child_solve lv).
Notation both' := (both W lvs child_solve lv).
Notation walk_step' := (walk_step W lvs child_solve lv).
Notation walk' := (walk W lvs child_solve lv).

Lemma potential_q st nd b : Q st -> Q (fst (potential' st nd b)).
Proof.
  intros Hst. unfold potential. destruct (n_rest nd) as [|r rest]; [exact Hst|].
  match goal with |- context [child_lines_solutions W lvs child_solve st ?a ?b ?c ?d ?e ?f ?g ?h ?i ?j] =>
    pose proof (child_lines_solutions_q st a b c d e f g h i j Hst) as H1;
    destruct (child_lines_solutions W lvs child_solve st a b c d e f g h i j) as [st' sols] end.
  exact H1.
Qed.

Lemma both_q st ind : Q st -> Q (fst (both' st ind)).
Proof.
  intros Hst. unfold both.
  pose proof (potential_q st ind true Hst) as A. destruct (potential' st ind true) as [st1 a]. cbn [fst] in A.
  pose proof (potential_q st1 ind false A) as B. destruct (potential' st1 ind false) as [st2 b]. exact B.
Qed.

Lemma walk_step_q nd indiff best st : Q st -> Q (snd (walk_step' nd indiff best st)).
Proof.
  intros Hst. unfold walk_step.
  destruct (if w_max W <? last_line_length_of nd then indiff else None) as [ind|].
  { pose proof (both_q st ind Hst) as B. destruct (both' st ind) as [st' succ]. exact B. }
  destruct (n_rest nd) as [|r rest]; [exact Hst|].
  assert (Hafter : forall succ indiff' st', Q st' ->
            Q (snd (match succ with
                    | [n] => (WS_forward n indiff', best, st')
                    | _ => match indiff' with
                           | Some ind => let (st'', more) := both' st' ind in (finish (succ ++ more), best, st'')
                           | None => (finish succ, best, st')
                           end
                    end))).
  { intros succ indiff' st' Hc.
    assert (Hgen : Q (snd (match indiff' with
                           | Some ind => let (st'', more) := both' st' ind in (finish (succ ++ more), best, st'')
                           | None => (finish succ, best, st')
                           end))).
    { destruct indiff' as [ind|]; [|exact Hc].
      pose proof (both_q st' ind Hc) as B. destruct (both' st' ind) as [st'' more]. exact B. }
    destruct succ as [|n [|m l]]; try exact Hgen. exact Hc. }
  destruct (get_formatting_requirement (lv_type lv) (tr_win r) (tr_ty r) (tr_inv r) (tr_stk r) (n_data nd) (n_nli nd)).
  - pose proof (potential_q st nd false Hst) as P1. destruct (potential' st nd false) as [st' succ]. apply Hafter; exact P1.
  - destruct indiff as [ind|]; [|exact Hst].
    pose proof (both_q st ind Hst) as B. destruct (both' st ind) as [st' succ]. exact B.
  - pose proof (potential_q st nd true Hst) as P1. destruct (potential' st nd true) as [st' sols]. cbn [fst] in P1.
    destruct (fold_left _ sols (best, [])) as [best' kept]. exact P1.
  - pose proof (potential_q st nd false Hst) as P1. destruct (potential' st nd false) as [st' succ]. apply Hafter; exact P1.
Qed.

Lemma walk_q : forall f1 f2 nd indiff best st, Q st -> Q (snd (walk' f1 f2 nd indiff best st)).
Proof.
  induction f1 as [|f1 IH1]; induction f2 as [|f2 IH2]; intros nd indiff best st Hst; try exact Hst.
  - cbn [walk]. pose proof (walk_step_q nd indiff best st Hst) as S1.
    destruct (walk_step' nd indiff best st) as [[s best'] st']. cbn [snd] in *.
    destruct s as [r|n i|n]; cbn [snd]; [exact S1|apply IH2; exact S1|exact S1].
  - cbn [walk]. pose proof (walk_step_q nd indiff best st Hst) as S1.
    destruct (walk_step' nd indiff best st) as [[s best'] st']. cbn [snd] in *.
    destruct s as [r|n i|n]; cbn [snd]; [exact S1|apply IH2; exact S1|apply IH1; exact S1].
Qed.

Lemma main_loop_q : forall fuel h iter best st, Q st -> Q (fst (main_loop W lvs child_solve lv fuel h iter best st)).
Proof.
  induction fuel as [|f IH]; intros h iter best st Hst; cbn [main_loop]; [apply Qerr; exact Hst|].
  destruct (heap_pop h) as [[nd h']|]; [|apply Qlog; exact Hst].
  destruct (w_iter W <? iter); [apply Qlog; exact Hst|].
  destruct (n_rest nd) as [|r rest]; [apply Qlog; exact Hst|].
  destruct (best_at best (N.to_nat (N.pred (n_nli nd))) <? n_pen nd); [apply IH; exact Hst|].
  pose proof (walk_q (S (length (r :: rest))) (S (length (r :: rest))) nd None best st Hst) as Hw.
  destruct (walk' (S (length (r :: rest))) (S (length (r :: rest))) nd None best st) as [[res best'] st'].
  cbn [snd] in Hw. destruct res; try (apply IH; exact Hw). apply Qerr; exact Hw.
Qed.

Lemma find_optimal_solution_q st ws first : Q st -> Q (fst (find_optimal_solution W lvs fmain child_solve lv st ws first)).
Proof.
  intros Hst. unfold find_optimal_solution. destruct (lv_recs lv) as [|r rest]; [exact Hst|].
  destruct (match first with FD_Break => _ | FD_Continue line_length can_break => _ end) as [[is_break lll] bcb].
  destruct (_ && negb is_break); [exact Hst|].
  match goal with |- context [child_lines_solutions W lvs child_solve st ?a ?b ?c ?d ?e ?f ?g ?h ?i ?j] =>
    pose proof (child_lines_solutions_q st a b c d e f g h i j Hst) as H1;
    destruct (child_lines_solutions W lvs child_solve st a b c d e f g h i j) as [st1 sols] end.
  apply main_loop_q. exact H1.
Qed.
End StateInv.

Theorem state_inv_solve (Q : sst -> Prop) :
  (forall st l o, Q st -> Q (sst_log (Ev_S l o) st)) -> (forall st k v, Q st -> Q (sst_cache_add k v st)) -> (forall st, Q st -> Q (sst_err st)) ->
  forall W lvs fmain depth st lv ws first, Q st -> Q (fst (solve W lvs fmain depth st lv ws first)).
Proof.
  intros Q1 Q2 Q3 W lvs fmain. induction depth as [|k IH]; intros st lv ws first Hst; cbn [solve]; [apply Q3; exact Hst|].
  pose proof (find_optimal_solution_q Q Q1 Q2 Q3 W lvs fmain (solve W lvs fmain k) (fun st0 lv' ws0 fd H => IH st0 lv' ws0 fd H) lv st ws first Hst) as H.
  destruct (find_optimal_solution W lvs fmain (solve W lvs fmain k) lv st ws first) as [st1 res]. exact H.
Qed.

(* ------------------------------------------------------------------ *)
(* 3. the decision events respect the invariants *)
Definition is_D (e : event) : bool := match e with Ev_D _ _ _ _ => true | _ => false end.
Definition Dlog (st : sst) : list event := filter is_D (ss_log st).

Definition dplan_respects (inv : option DecisionRequirement) (d : option (bool * N * N)) : Prop :=
  match inv, d with
  | Some DR_MustBreak, None => False
  | Some DR_MustNotBreak, Some _ => False
  | _, _ => True
  end.

Section Events.
Variable lvs : list lview.

(* the event of a token: some line holding the token decided it, respecting that line's invariant for it *)
Definition ev_ok (e : event) : Prop :=
  match e with
  | Ev_D t d _ _ => exists lv r, In lv lvs /\ In r (lv_recs lv) /\ tr_gidx r = t /\ dplan_respects (tr_inv r) d
  | _ => True
  end.

(* an induction principle for sol_deep that reaches the child solutions *)
Lemma sol_deep_ind' (P : lview -> solution -> Prop) :
  (forall lv s, sol_top lv s ->
                (forall t k s', In t (sol_decs s) -> In (k, s') (td_kids t) ->
                                exists lv', nth_error lvs k = Some lv' /\ sol_deep lvs lv' s' /\ P lv' s') -> P lv s) ->
  forall lv s, sol_deep lvs lv s -> P lv s.
Proof.
  intros Hstep. refine (fix F lv s (H : sol_deep lvs lv s) {struct H} : P lv s := _).
  destruct H as [lv s Ht Hk]. apply Hstep; [exact Ht|].
  intros t k s' H1 H2. destruct (Hk t k s' H1 H2) as (lv' & e & d). exists lv'. split; [exact e|]. split; [exact d|]. exact (F lv' s' d).
Qed.

Definition gtoks_of (k : nat) : list N := match nth_error lvs k with Some lv => lv_gtoks lv | None => [] end.

Fixpoint recon_kids (ks : list (nat * solution)) : list event :=
  match ks with [] => [] | ks1 :: r => recon_events lvs (snd ks1) (gtoks_of (fst ks1)) ++ recon_kids r end.

Fixpoint recon_go (ind cont : N) (ds : list tdec) (toks : list N) (first : bool) : list event :=
  match ds, toks with
  | t :: ds', g :: toks' =>
      Ev_D g (match td_dec t with WBreak c => Some (first, ind, cont + c) | WContinue => None end) (td_lll t) first
      :: recon_kids (td_kids t) ++ recon_go ind cont ds' toks' false
  | _, _ => []
  end.

Lemma recon_events_eq ind cont decs p l toks : recon_events lvs (Sol ind cont decs p l) toks = recon_go ind cont decs toks true.
Proof.
  cbn [recon_events]. generalize true. revert toks. induction decs as [|[d lll kids] ds IH]; intros toks first; [reflexivity|].
  destruct toks as [|g toks]; [reflexivity|]. cbn [recon_go td_dec td_lll td_kids]. f_equal. f_equal; [|apply IH].
  clear IH. induction kids as [|[k s'] r IHk]; [reflexivity|]. cbn [recon_kids fst snd]. f_equal. exact IHk.
Qed.

Hypothesis Hgt : forall lv, In lv lvs -> lv_gtoks lv = map tr_gidx (lv_recs lv).

Lemma recon_go_ok lv ind cont : In lv lvs -> forall rs ds,
  Forall2 (fun r t => dec_respects (tr_inv r) (td_dec t)) rs ds -> (forall r, In r rs -> In r (lv_recs lv)) ->
  forall first,
  (forall t k s', In t ds -> In (k, s') (td_kids t) ->
     exists lv', nth_error lvs k = Some lv' /\ sol_deep lvs lv' s' /\ (In lv' lvs -> Forall ev_ok (recon_events lvs s' (lv_gtoks lv')))) ->
  Forall ev_ok (recon_go ind cont ds (map tr_gidx rs) first).
Proof.
  intros Hin rs ds H2. induction H2 as [|r t rs ds Hrt Hrest IH]; intros Hsub first Hkids; [constructor|].
  cbn [map recon_go]. constructor; [|apply Forall_app; split].
  - exists lv, r. repeat split; [exact Hin|apply Hsub; left; reflexivity|].
    destruct (tr_inv r) as [[]|], (td_dec t); cbn in *; tauto.
  - assert (Hk : forall k s', In (k, s') (td_kids t) -> exists lv', nth_error lvs k = Some lv' /\ sol_deep lvs lv' s' /\ (In lv' lvs -> Forall ev_ok (recon_events lvs s' (lv_gtoks lv'))))
      by (intros k s' H; apply (Hkids t k s'); [left; reflexivity|exact H]).
    clear Hkids IH. induction (td_kids t) as [|[k s'] kr IHk]; [constructor|]. cbn [recon_kids fst snd]. apply Forall_app; split.
    + destruct (Hk k s' (or_introl eq_refl)) as (lv' & Hn & _ & HP). unfold gtoks_of. rewrite Hn. apply HP. eapply nth_error_In; exact Hn.
    + apply IHk. intros k2 s2 H. apply Hk. right; exact H.
  - apply IH.
    + intros r0 H. apply Hsub. right; exact H.
    + intros t0 k s' H1 H2'. apply (Hkids t0 k s'); [right; exact H1|exact H2'].
Qed.

Theorem recon_events_ok : forall lv s, sol_deep lvs lv s -> In lv lvs -> Forall ev_ok (recon_events lvs s (lv_gtoks lv)).
Proof.
  apply (sol_deep_ind' (fun lv s => In lv lvs -> Forall ev_ok (recon_events lvs s (lv_gtoks lv)))).
  intros lv [ind cont decs p l] Htop Hkids Hin. rewrite recon_events_eq, (Hgt lv Hin). cbn [sol_decs] in Htop, Hkids.
  assert (H2 : Forall2 (fun r t => dec_respects (tr_inv r) (td_dec t)) (lv_recs lv) decs).
  { destruct Htop as (first & Htop). destruct (lv_recs lv) as [|r rest] eqn:E; [cbn [sol_decs] in Htop; rewrite Htop; apply Forall2_nil|rewrite <- E; exact (proj1 Htop)]. }
  apply (recon_go_ok lv ind cont Hin (lv_recs lv) decs H2 (fun r H => H) true Hkids).
Qed.

Lemma sst_log_fold evs : forall st, ss_log (fold_left (fun st e => sst_log e st) evs st) = rev evs ++ ss_log st
                                  /\ ss_cache (fold_left (fun st e => sst_log e st) evs st) = ss_cache st.
Proof.
  induction evs as [|e r IH]; intros st; [split; reflexivity|]. cbn [fold_left rev]. destruct (IH (sst_log e st)) as (H1 & H2).
  rewrite H1, H2. cbn [sst_log ss_log ss_cache]. rewrite <- app_assoc. split; reflexivity.
Qed.

Definition st_ok (st : sst) : Prop := cache_ok lvs st /\ Forall ev_ok (Dlog st).

Lemma format_top_events_ok W fm depth st lv : In lv lvs -> st_ok st -> st_ok (format_top W lvs fm depth st lv).
Proof.
  intros Hin (Hc & Hl). unfold format_top. destruct (bid _); [split; assumption|].
  match goal with |- context [solve W lvs fm depth st lv ?ws ?fd] =>
    pose proof (solve_deep W lvs fm depth st lv ws fd Hc) as (S1 & S2);
    pose proof (state_inv_solve (fun st' => Dlog st' = Dlog st) (fun st0 l o H => H) (fun st0 k v H => H) (fun st0 H => H) W lvs fm depth st lv ws fd eq_refl) as S3;
    destruct (solve W lvs fm depth st lv ws fd) as [st1 r] end.
  cbn [fst snd] in *. destruct r as [s|]; [|split; [exact S1|rewrite S3; exact Hl]].
  destruct (sst_log_fold (recon_events lvs s (lv_gtoks lv)) st1) as (L1 & L2).
  split.
  - intros key v H. unfold cache_ok in S1. apply (S1 key v). rewrite <- L2. exact H.
  - unfold Dlog. rewrite L1, filter_app. apply Forall_app; split; [|fold (Dlog st1); rewrite S3; exact Hl].
    apply Forall_forall. intros e He. apply filter_In in He. destruct He as (He & _). apply in_rev in He.
    pose proof (recon_events_ok lv s (S2 s eq_refl) Hin) as Hall. rewrite Forall_forall in Hall. exact (Hall e He).
Qed.
End Events.

Lemma mk_recs_gidx tt kids line_index : forall toks prevtok win stacks,
  map tr_gidx (mk_recs tt toks prevtok win stacks kids line_index) = toks.
Proof. induction toks as [|g r IH]; intros; cbn [mk_recs map]; [reflexivity|]. cbn [tr_gidx]. f_equal. apply IH. Qed.

Lemma mk_lviews_gtoks infos lines : forall lv, In lv (mk_lviews infos lines) -> lv_gtoks lv = map tr_gidx (lv_recs lv).
Proof.
  unfold mk_lviews. generalize (ti_build infos 0 PLeaf) (get_line_children (map iline_of lines)) 0%nat. intros tt kids.
  induction (map iline_of lines) as [|l r IH]; intros i lv H; [destruct H|]. cbn [mk_lviews_from] in H. destruct H as [<-|H]; [|exact (IH (S i) lv H)].
  cbn [mk_lview lv_gtoks lv_recs]. symmetry. apply mk_recs_gidx.
Qed.

(* every decision event a phase logs respects the invariant of its token in the line that took the decision;
   the cache stays sound *)
Theorem wrap_phase_events_ok W infos lines which st :
  st_ok (mk_lviews infos lines) st -> st_ok (mk_lviews infos lines) (wrap_phase W infos lines which st).
Proof.
  intros Hst. unfold wrap_phase. set (lvs := mk_lviews infos lines) in *.
  assert (Hgen : forall l st0, (forall lv, In lv l -> In lv lvs) -> st_ok lvs st0 ->
            st_ok lvs (fold_left (fun st1 lv => if which lv then format_top W lvs (main_fuel W) (S (length lines)) st1 lv else st1) l st0)).
  { induction l as [|lv r IH]; intros st0 Hin H0; [exact H0|]. cbn [fold_left]. apply IH; [intros lv' H'; apply Hin; right; exact H'|].
    destruct (which lv); [|exact H0]. apply format_top_events_ok; [apply mk_lviews_gtoks|apply Hin; left; reflexivity|exact H0]. }
  apply Hgen; [intros lv H; exact H|exact Hst].
Qed.

Corollary wrap_phase1_events_ok W infos lines :
  Forall (ev_ok (mk_lviews infos lines)) (Dlog (wrap_phase1 W infos lines)).
Proof. apply (wrap_phase_events_ok W infos lines lv_top sst_init). split; [apply cache_ok_init|constructor]. Qed.


(* ------------------------------------------------------------------ *)
(* 4. from the events to the counters: the last decision of a token wins *)
Lemma upd_ftok_nth g : forall l i j,
  nth_error (upd_ftok i g l) j = if Nat.eqb i j then option_map (fun p : ftoken => (fst p, g (snd p))) (nth_error l j) else nth_error l j.
Proof.
  induction l as [|[tok f] r IH]; intros i j.
  - destruct i; cbn [upd_ftok]; destruct (Nat.eqb _ j); destruct j; reflexivity.
  - destruct i as [|i]; destruct j as [|j]; cbn [upd_ftok nth_error Nat.eqb]; try reflexivity. apply IH.
Qed.

Definition decs_for (t : nat) (p : list (nat * decision)) : list decision :=
  map snd (filter (fun pd : nat * decision => Nat.eqb (fst pd) t) p).

Lemma apply_plan_nth : forall p l t,
  nth_error (apply_plan p l) t = option_map (fun tf : ftoken => (fst tf, fold_left apply_decision (decs_for t p) (snd tf))) (nth_error l t).
Proof.
  unfold apply_plan. induction p as [|pd p IH]; intros l t.
  - cbn. destruct (nth_error l t) as [[tok f]|]; reflexivity.
  - cbn [fold_left]. rewrite IH, upd_ftok_nth. unfold decs_for. cbn [filter].
    destruct (Nat.eqb (fst pd) t); [|reflexivity]. cbn [map fold_left]. destruct (nth_error l t) as [[tok f]|]; reflexivity.
Qed.

Lemma zero_line_starts_nth l t : forall tok f, nth_error (zero_line_starts l) t = Some (tok, f) ->
  exists f0, nth_error l t = Some (tok, f0) /\ f_nl f = f_nl f0.
Proof.
  unfold zero_line_starts. intros tok f H. rewrite nth_error_map in H. destruct (nth_error l t) as [[tok0 f0]|]; [|discriminate].
  cbn [option_map] in H. destruct (0 <? f_nl f0); injection H as <- <-; exists f0; split; reflexivity.
Qed.

Definition is_break_dec (d : decision) : bool := match d with DBreak _ _ _ => true | DContinue => false end.

Lemma clamp12_pos n : 0 < clamp12 n.
Proof. unfold clamp12. destruct (n <? 1) eqn:A; [lia|]. destruct (2 <? n); [lia|]. apply N.ltb_ge in A. lia. Qed.

Lemma last_decision_nl ds d f : (0 <? f_nl (fold_left apply_decision (ds ++ [d]) f)) = is_break_dec d.
Proof.
  rewrite fold_left_app. cbn [fold_left]. destruct d as [first ind cont|]; cbn [apply_decision f_nl is_break_dec]; [|reflexivity].
  apply N.ltb_lt. destruct first; [apply clamp12_pos|lia].
Qed.

Lemma plan_of_events_in t d : forall evs, In (t, d) (plan_of_events evs) ->
  exists tok dd lll fst, In (Ev_D tok dd lll fst) evs /\ N.to_nat tok = t
                         /\ d = match dd with Some (f, i, c) => DBreak f i c | None => DContinue end.
Proof.
  induction evs as [|e r IH]; intros H; [destruct H|]. destruct e as [ln o|tok dd lll fst|n]; cbn [plan_of_events] in H.
  - destruct (IH H) as (a & b & c & dd' & H1 & H2). exists a, b, c, dd'. split; [right; exact H1|exact H2].
  - destruct dd as [[[f i] c]|]; destruct H as [H|H];
      try (injection H as <- <-; exists tok; eexists; exists lll, fst; split; [left; reflexivity|split; reflexivity]);
      destruct (IH H) as (a & b & c' & dd' & H1 & H2); exists a, b, c', dd'; (split; [right; exact H1|exact H2]).
  - destruct (IH H) as (a & b & c & dd' & H1 & H2). exists a, b, c, dd'. split; [right; exact H1|exact H2].
Qed.

(* the invariant a record carries is get_formatting_invariant on the token types of the file *)
Lemma mk_recs_inv tt kids line_index : forall toks prevtok win stacks r,
  In r (mk_recs tt toks prevtok win stacks kids line_index) ->
  exists cd, tr_inv r = formatting_invariant (if tr_gidx r =? 0 then None else option_map ti_ty (ti_get tt (tr_gidx r - 1)))
                                             (option_map ti_ty (ti_get tt (tr_gidx r))) cd.
Proof.
  induction toks as [|g rest IH]; intros prevtok win stacks r H; [destruct H|]. cbn [mk_recs] in H. destruct H as [<-|H]; [|exact (IH _ _ _ r H)].
  cbn [tr_inv tr_gidx]. eexists. reflexivity.
Qed.

Lemma mk_lviews_inv infos lines lv r : In lv (mk_lviews infos lines) -> In r (lv_recs lv) ->
  exists cd, tr_inv r = formatting_invariant (if tr_gidx r =? 0 then None else option_map ti_ty (nth_error infos (N.to_nat (tr_gidx r - 1))))
                                             (option_map ti_ty (nth_error infos (N.to_nat (tr_gidx r)))) cd.
Proof.
  unfold mk_lviews. intros Hlv Hr. rewrite <- !ti_get_infos. revert Hlv.
  generalize (get_line_children (map iline_of lines)) 0%nat. intros kids.
  induction (map iline_of lines) as [|l rr IH]; intros i H; [destruct H|]. cbn [mk_lviews_from] in H. destruct H as [<-|H]; [|exact (IH (S i) H)].
  cbn [mk_lview lv_recs] in Hr. eapply mk_recs_inv. exact Hr.
Qed.

(* the final counters after phase 1: for every token the wrapper decided, "starts a line" is what the invariant of the
   token (in the line that decided it last) demands *)
Theorem phase1_final_breaks W infos lines l t tok f :
  let evs := rev (ss_log (wrap_phase1 W infos lines)) in
  nth_error (zero_line_starts (apply_plan (plan_of_events evs) l)) t = Some (tok, f) ->
  decs_for t (plan_of_events evs) <> [] ->
  exists cd, respects (formatting_invariant (match t with O => None | S p => option_map ti_ty (nth_error infos p) end)
                                            (option_map ti_ty (nth_error infos t)) cd) (0 <? f_nl f) = true.
Proof.
  intros evs Hn Hd.
  destruct (zero_line_starts_nth _ t tok f Hn) as (f1 & Hn1 & Hnl). rewrite apply_plan_nth in Hn1.
  destruct (nth_error l t) as [[tok0 f0]|]; [|discriminate]. cbn [option_map fst snd] in Hn1. injection Hn1 as _ <-.
  destruct (exists_last Hd) as (ds & d & Hds). rewrite Hds in Hnl. rewrite Hnl, last_decision_nl.
  assert (Hin : In (t, d) (plan_of_events evs)).
  { assert (H : In d (decs_for t (plan_of_events evs))) by (rewrite Hds; apply in_or_app; right; left; reflexivity).
    unfold decs_for in H. apply in_map_iff in H. destruct H as ([t' d'] & Hd' & Hf). apply filter_In in Hf. destruct Hf as (Hf & Heq).
    cbn [fst snd] in *. apply PeanoNat.Nat.eqb_eq in Heq. subst. exact Hf. }
  destruct (plan_of_events_in t d evs Hin) as (tk & dd & lll & fst & Hev & Htk & Hdd).
  pose proof (wrap_phase1_events_ok W infos lines) as Hall. rewrite Forall_forall in Hall.
  assert (Hev' : In (Ev_D tk dd lll fst) (Dlog (wrap_phase1 W infos lines))).
  { unfold Dlog. apply filter_In. split; [|reflexivity]. apply in_rev. exact Hev. }
  destruct (Hall _ Hev') as (lv & r & Hlv & Hr & Hg & Hresp).
  destruct (mk_lviews_inv infos lines lv r Hlv Hr) as (cd & Hinv). exists cd.
  rewrite Hg in Hinv. rewrite Htk in Hinv.
  assert (Hprev : (if tk =? 0 then None else option_map ti_ty (nth_error infos (N.to_nat (tk - 1))))
                  = match t with O => None | S p => option_map ti_ty (nth_error infos p) end).
  { rewrite <- Htk. destruct (tk =? 0) eqn:E0.
    - apply N.eqb_eq in E0. rewrite E0. reflexivity.
    - apply N.eqb_neq in E0. destruct (N.to_nat tk) as [|p] eqn:Ep; [lia|]. replace (N.to_nat (tk - 1)) with p by lia. reflexivity. }
  rewrite Hprev in Hinv. rewrite <- Hinv. subst d.
  destruct (tr_inv r) as [[]|], dd as [[[? ?] ?]|]; cbn in *; try reflexivity; contradiction.
Qed.

(* the comment clauses do not depend on the line that decided the token *)
Lemma formatting_invariant_comment_clauses prev cur cd :
  prev <> None ->
  (match cur with Some (TT_Comment (CoK_InlineLine | CoK_InlineBlock)) => True | _ => False end ->
     formatting_invariant prev cur cd = Some DR_MustNotBreak) /\
  (match cur with Some (TT_Comment (CoK_IndividualLine | CoK_IndividualBlock | CoK_MultilineBlock)) | Some (TT_TextLiteral TK_MultiLine) => True | _ => False end ->
     formatting_invariant prev cur cd = Some DR_MustBreak) /\
  (match prev with Some (TT_Comment (CoK_IndividualLine | CoK_InlineLine | CoK_MultilineBlock)) | Some (TT_TextLiteral TK_Unterminated) => True | _ => False end ->
   match cur with Some (TT_Comment (CoK_InlineLine | CoK_InlineBlock)) => False | _ => True end ->
     formatting_invariant prev cur cd = Some DR_MustBreak).
Proof.
  intros Hp. destruct prev as [p|]; [|congruence].
  repeat split; intros H; [| |intros H'];
    destruct p as [?| |?|[]|?|?| |[]| |]; destruct cur as [[?| |?|[]|?|?| |[]| |]|]; try destruct H; try destruct H'; destruct cd; reflexivity.
Qed.

Print Assumptions wrap_phase1_events_ok.
Print Assumptions phase1_final_breaks.
