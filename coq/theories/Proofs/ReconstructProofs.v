(* Proofs about Model/Reconstruct.v *)
From PasfmtVerif Require Import Model.Reconstruct.

(* Settings the formatter can build: every emitted whitespace string is made of bytes <= 0x20 *)
Definition rs_wf (rs : rsettings) : Prop :=
  ascii_blank (rs_newline rs) /\ ascii_blank (rs_indent rs) /\ ascii_blank (rs_cont rs).

(* What the lexer guarantees for every token (Proofs/LexerProofs.v): blanks in front, and the
   content does not start in the middle of a U+3000 *)
Definition tok_ok (p : ftoken) : Prop := all_blank (t_ws (fst p)) /\ no80 (t_content (fst p)).

Lemma all_blank_no80 w : all_blank w -> no80 w.
Proof.
  unfold all_blank, no80. destruct w as [|b t]; [trivial|]. intros H Hb. subst b.
  rewrite strip_unfold in H. change (128 <=? 32) with false in H.
  destruct t as [|b [|c t']]; discriminate.
Qed.

Lemma ascii_blank_no80 w : ascii_blank w -> no80 w.
Proof. intros H. apply all_blank_no80, ascii_blank_all_blank, H. Qed.

Lemma no80_app x y : no80 x -> no80 y -> no80 (x ++ y).
Proof. destruct x; simpl; auto. Qed.

Lemma nrepeat_ascii_blank n s : ascii_blank s -> ascii_blank (nrepeat n s).
Proof. apply ascii_blank_repeat. Qed.

Lemma ascii_blank_32 : ascii_blank [32].
Proof. constructor; [reflexivity|constructor]. Qed.

(* the emitted whitespace is blank as a whole *)
Lemma emit_ws_all_blank rs mb p : rs_wf rs -> all_blank (t_ws (fst p)) -> all_blank (emit_ws rs mb p).
Proof.
  intros (Hn & Hi & Hc) Hw. destruct p as [tok f]. simpl in Hw. unfold emit_ws.
  destruct (f_ignored f).
  - destruct (mb && negb (has_break (t_ws tok)) && negb (is_eof (t_ty tok))).
    + unfold all_blank. rewrite strip_ascii_blank_app by exact Hn. exact Hw.
    + exact Hw.
  - apply ascii_blank_all_blank.
    repeat apply ascii_blank_app; try apply nrepeat_ascii_blank; auto using ascii_blank_32.
Qed.

Lemma recon_no80 rs mb l : rs_wf rs -> Forall tok_ok l -> no80 (recon rs mb l).
Proof.
  intros Hrs Hl. revert mb. induction Hl as [|p r [Hw Hc] Hr IH]; intros mb; [exact I|].
  cbn [recon]. apply no80_app; [apply all_blank_no80, emit_ws_all_blank; assumption|].
  apply no80_app; [exact Hc|apply IH].
Qed.

(* C01, reconstruction step: every content exactly once, in order, nothing else that is not blank,
   for ALL counters, marks and settings *)
Lemma recon_strip rs mb l :
  rs_wf rs -> Forall tok_ok l ->
  strip (recon rs mb l) = concat (map (fun p => strip (t_content (fst p))) l).
Proof.
  intros Hrs Hl. revert mb. induction Hl as [|p r [Hw Hc] Hr IH]; intros mb; [reflexivity|].
  cbn [recon map concat].
  assert (Hrest : no80 (recon rs (is_sl_comment (t_ty (fst p))) r)) by (apply recon_no80; assumption).
  rewrite strip_all_blank_app.
  - rewrite strip_app_no80 by exact Hrest. rewrite IH. reflexivity.
  - apply emit_ws_all_blank; assumption.
  - apply no80_app; assumption.
Qed.

Lemma rs_new_wf crlf tabs iw cw : rs_wf (rs_new crlf tabs iw cw).
Proof.
  unfold rs_wf, rs_new. cbn [rs_newline rs_indent rs_cont].
  assert (Hu : ascii_blank (if tabs then [9] else [32])).
  { destruct tabs; (constructor; [reflexivity|constructor]). }
  repeat split.
  - destruct crlf; repeat (constructor; try reflexivity).
  - apply nrepeat_ascii_blank, Hu.
  - apply nrepeat_ascii_blank, Hu.
Qed.

Lemma rs_of_config_wf crlf tabs tw ci : rs_wf (rs_of_config crlf tabs tw ci).
Proof. unfold rs_of_config. destruct tabs; apply rs_new_wf. Qed.

(* ------------------------------------------------------------------ *)
(* splitting a reconstruction *)

Definition mb_after (mb : bool) (l : list ftoken) : bool :=
  match rev l with [] => mb | p :: _ => is_sl_comment (t_ty (fst p)) end.

Lemma recon_app rs mb l1 l2 : recon rs mb (l1 ++ l2) = recon rs mb l1 ++ recon rs (mb_after mb l1) l2.
Proof.
  revert mb. induction l1 as [|p r IH]; intros mb; [reflexivity|].
  cbn [app recon]. rewrite IH, !app_assoc. f_equal.
  unfold mb_after. cbn [rev]. destruct (rev r) as [|q rr] eqn:E; [reflexivity|].
  cbn [app]. reflexivity.
Qed.

(* C07: a run of ignored tokens is emitted verbatim.
   The only thing reconstruct can add inside the run is the safety-net newline: after a `//`
   comment whose successor's leading whitespace contains no LF (and which is not Eof). *)
Definition verbatim (l : list ftoken) : bytes :=
  concat (map (fun p => t_ws (fst p) ++ t_content (fst p)) l).

Fixpoint no_net (mb : bool) (l : list ftoken) : Prop :=
  match l with
  | [] => True
  | p :: r =>
      (mb && negb (has_break (t_ws (fst p))) && negb (is_eof (t_ty (fst p))) = false)
      /\ no_net (is_sl_comment (t_ty (fst p))) r
  end.

Lemma recon_ignored_verbatim rs mb l :
  Forall (fun p => f_ignored (snd p) = true) l -> no_net mb l -> recon rs mb l = verbatim l.
Proof.
  intros Hl. revert mb. induction Hl as [|p r Hp Hr IH]; intros mb Hn; [reflexivity|].
  destruct Hn as [Hn1 Hn2]. cbn [recon verbatim map concat].
  destruct p as [tok f]. cbn [fst snd] in *. unfold emit_ws. rewrite Hp, Hn1. cbn [app].
  rewrite <- app_assoc. f_equal. f_equal. apply IH, Hn2.
Qed.

(* the first token of a run may get the safety-net newline in front of its own whitespace,
   i.e. before the region proper (the region starts at the `pasfmt off` comment's content) *)
Lemma recon_ignored_region rs mb p l :
  f_ignored (snd p) = true -> Forall (fun p => f_ignored (snd p) = true) l ->
  no_net (is_sl_comment (t_ty (fst p))) l ->
  exists pre, recon rs mb (p :: l) = pre ++ t_content (fst p) ++ verbatim l
              /\ (pre = t_ws (fst p) \/ pre = rs_newline rs ++ t_ws (fst p)).
Proof.
  intros Hp Hl Hn. cbn [recon]. rewrite (recon_ignored_verbatim rs _ l Hl Hn).
  destruct p as [tok f]. cbn [fst snd] in *. unfold emit_ws. rewrite Hp.
  destruct (mb && negb (has_break (t_ws tok)) && negb (is_eof (t_ty tok))).
  - exists (rs_newline rs ++ t_ws tok). split; [reflexivity|right; reflexivity].
  - exists (t_ws tok). split; [reflexivity|left; reflexivity].
Qed.

(* ------------------------------------------------------------------ *)
(* C09: every line break that reconstruct itself emits is rs_newline, and nothing else about the
   output depends on rs_newline.  Pieces: PNl = one emitted line break, PRaw = anything else. *)
Inductive piece := PNl | PRaw (b : bytes).

Definition render (nl : bytes) (ps : list piece) : bytes :=
  concat (map (fun p => match p with PNl => nl | PRaw b => b end) ps).

Definition emit_ws_pieces (rs : rsettings) (must_break : bool) (p : ftoken) : list piece :=
  let (tok, f) := p in
  let eof := is_eof (t_ty tok) in
  if f_ignored f then
    (if must_break && negb (has_break (t_ws tok)) && negb eof then [PNl] else []) ++ [PRaw (t_ws tok)]
  else
    let nls := if must_break && (f_nl f =? 0) && negb eof then 1 else f_nl f in
    nrepeat nls [PNl] ++ [PRaw (nrepeat (f_ind f) (rs_indent rs) ++ nrepeat (f_cont f) (rs_cont rs) ++ nrepeat (f_sp f) [32])].

Fixpoint recon_pieces (rs : rsettings) (must_break : bool) (l : list ftoken) : list piece :=
  match l with
  | [] => []
  | p :: r => emit_ws_pieces rs must_break p ++ [PRaw (t_content (fst p))]
              ++ recon_pieces rs (is_sl_comment (t_ty (fst p))) r
  end.

Lemma render_app nl a b : render nl (a ++ b) = render nl a ++ render nl b.
Proof. unfold render. rewrite map_app, concat_app. reflexivity. Qed.

Lemma render_repeat_nl nl n : render nl (repeat_app n [PNl]) = repeat_app n nl.
Proof. induction n as [|n IH]; [reflexivity|]. cbn [repeat_app]. rewrite render_app, IH. cbn. rewrite app_nil_r. reflexivity. Qed.

Lemma emit_ws_render rs mb p : emit_ws rs mb p = render (rs_newline rs) (emit_ws_pieces rs mb p).
Proof.
  destruct p as [tok f]. unfold emit_ws, emit_ws_pieces. destruct (f_ignored f).
  - rewrite render_app. destruct (mb && negb (has_break (t_ws tok)) && negb (is_eof (t_ty tok))); cbn; rewrite !app_nil_r; reflexivity.
  - rewrite render_app. unfold nrepeat. rewrite render_repeat_nl. cbn. rewrite app_nil_r. reflexivity.
Qed.

Lemma recon_render rs mb l : recon rs mb l = render (rs_newline rs) (recon_pieces rs mb l).
Proof.
  revert mb. induction l as [|p r IH]; intros mb; [reflexivity|].
  cbn [recon recon_pieces]. rewrite !render_app, <- emit_ws_render, <- IH. cbn. rewrite app_nil_r. reflexivity.
Qed.

Definition with_newline (rs : rsettings) (nl : bytes) : rsettings := mkRS nl (rs_indent rs) (rs_cont rs).

Lemma recon_pieces_newline_indep rs nl mb l : recon_pieces (with_newline rs nl) mb l = recon_pieces rs mb l.
Proof.
  revert mb. induction l as [|[tok f] r IH]; intros mb; [reflexivity|].
  cbn [recon_pieces]. rewrite IH. f_equal.
Qed.

(* the crlf output is the lf output with every EMITTED terminator substituted, for the same tokens *)
Theorem recon_crlf_is_subst rs mb l :
  recon (with_newline rs [13; 10]) mb l = render [13; 10] (recon_pieces rs mb l)
  /\ recon (with_newline rs [10]) mb l = render [10] (recon_pieces rs mb l).
Proof. split; rewrite recon_render, recon_pieces_newline_indep; reflexivity. Qed.

(* ------------------------------------------------------------------ *)
(* C08 / C10: the shape of the whitespace emitted for a token the formatter decides *)

Lemma repeat_app_add {A} n m (s : list A) : repeat_app n s ++ repeat_app m s = repeat_app (n + m) s.
Proof. induction n as [|n IH]; [reflexivity|]. cbn [repeat_app Nat.add]. rewrite <- app_assoc, IH. reflexivity. Qed.

Lemma repeat_app_mul {A} n m (s : list A) : repeat_app n (repeat_app m s) = repeat_app (n * m) s.
Proof. induction n as [|n IH]; [reflexivity|]. cbn [repeat_app Nat.mul]. rewrite IH. apply repeat_app_add. Qed.

Lemma nrepeat_nrepeat {A} (a b : N) (s : list A) : nrepeat a (nrepeat b s) = nrepeat (a * b) s.
Proof. unfold nrepeat. rewrite N2Nat.inj_mul. apply repeat_app_mul. Qed.

Lemma nrepeat_add {A} (a b : N) (s : list A) : nrepeat a s ++ nrepeat b s = nrepeat (a + b) s.
Proof. unfold nrepeat. rewrite N2Nat.inj_add. apply repeat_app_add. Qed.

Lemma nrepeat_0 {A} (s : list A) : nrepeat 0 s = [].
Proof. reflexivity. Qed.

(* a token that starts a physical line: line breaks, then a whole number of indentation units,
   nothing else (no trailing spaces before the content, no tab unless hard tabs) *)
Theorem emit_ws_line_start crlf tabs iw cw tok f :
  f_ignored f = false -> f_sp f = 0 -> 0 < f_nl f ->
  emit_ws (rs_new crlf tabs iw cw) false (tok, f)
  = nrepeat (f_nl f) (if crlf then [13; 10] else [10])
    ++ nrepeat (f_ind f * iw + f_cont f * cw) (if tabs then [9] else [32]).
Proof.
  intros I S Hn. unfold emit_ws. rewrite I, S. cbn [andb]. unfold rs_new. cbn [rs_newline rs_indent rs_cont].
  rewrite nrepeat_0, app_nil_r, !nrepeat_nrepeat, nrepeat_add. reflexivity.
Qed.

(* a token that continues a physical line: only spaces *)
Theorem emit_ws_continue rs tok f :
  f_ignored f = false -> f_nl f = 0 -> f_ind f = 0 -> f_cont f = 0 ->
  emit_ws rs false (tok, f) = nrepeat (f_sp f) [32].
Proof.
  intros I Hn Hi Hc. unfold emit_ws. rewrite I, Hn, Hi, Hc. cbn [andb]. rewrite !nrepeat_0. reflexivity.
Qed.

(* C10: tabs versus spaces. Expanding each tab of the hard-tab indentation to tw spaces gives the
   soft-tab indentation, provided the u8 product ci*tw does not saturate. *)
Definition expand_tabs (tw : N) (l : bytes) : bytes :=
  flat_map (fun b => if b =? 9 then nrepeat tw [32] else [b]) l.

Lemma expand_tabs_app tw a b : expand_tabs tw (a ++ b) = expand_tabs tw a ++ expand_tabs tw b.
Proof. unfold expand_tabs. apply flat_map_app. Qed.

Lemma expand_tabs_repeat_tab tw n : expand_tabs tw (nrepeat n [9]) = nrepeat (n * tw) [32].
Proof.
  rewrite <- nrepeat_nrepeat. unfold nrepeat. generalize (N.to_nat n). intros k.
  induction k as [|k IH]; [reflexivity|]. cbn [repeat_app]. rewrite expand_tabs_app, IH. cbn. rewrite app_nil_r. reflexivity.
Qed.

Lemma expand_tabs_no_tab tw l : forallb (fun b => negb (b =? 9)) l = true -> expand_tabs tw l = l.
Proof.
  induction l as [|b t IH]; [reflexivity|]. cbn [forallb]. rewrite andb_true_iff. intros [Hb Ht].
  cbn. destruct (b =? 9); [discriminate|]. cbn. f_equal. apply IH, Ht.
Qed.

Theorem indentation_tabs_vs_spaces crlf tw ci ind cont :
  ci * tw <= 255 ->
  expand_tabs tw (nrepeat ind (rs_indent (rs_of_config crlf true tw ci)) ++ nrepeat cont (rs_cont (rs_of_config crlf true tw ci)))
  = nrepeat ind (rs_indent (rs_of_config crlf false tw ci)) ++ nrepeat cont (rs_cont (rs_of_config crlf false tw ci)).
Proof.
  intros Hs. unfold rs_of_config, rs_new, u8_sat_mul. cbn [rs_indent rs_cont].
  rewrite N.min_r by exact Hs.
  rewrite expand_tabs_app, !nrepeat_nrepeat, !expand_tabs_repeat_tab. f_equal; f_equal; lia.
Qed.

(* each line's indentation is (levels + ci * continuations) units of tab_width spaces / one tab *)
Theorem indentation_units crlf tabs tw ci ind cont :
  ci * tw <= 255 ->
  nrepeat ind (rs_indent (rs_of_config crlf tabs tw ci)) ++ nrepeat cont (rs_cont (rs_of_config crlf tabs tw ci))
  = nrepeat (ind + ci * cont) (if tabs then [9] else nrepeat tw [32]).
Proof.
  intros Hs. unfold rs_of_config, rs_new, u8_sat_mul. destruct tabs; cbn [rs_indent rs_cont].
  - rewrite !nrepeat_nrepeat, nrepeat_add. f_equal. lia.
  - rewrite N.min_r by exact Hs. rewrite !nrepeat_nrepeat, nrepeat_add. f_equal. lia.
Qed.

(* F13: beyond the u8 range the continuation is 255 spaces, in general not a whole number of units *)
Lemma indentation_units_refuted_saturation :
  exists tw ci, 255 < ci * tw /\
    length (rs_cont (rs_of_config false false tw ci)) = 255%nat /\ (255 mod tw <> 0).
Proof. exists 7, 40. split; [reflexivity|]. split; [vm_compute; reflexivity|]. vm_compute. discriminate. Qed.
