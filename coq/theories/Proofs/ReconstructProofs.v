(* Proofs about Model/Reconstruct.v *)
From PasfmtVerif Require Import Model.Reconstruct.

(* Settings the formatter can build: every emitted whitespace string is made of bytes <= 0x20 *)
Definition rs_wf (rs : rsettings) : Prop :=
  ascii_blank (rs_newline rs) /\ ascii_blank (rs_indent rs) /\ ascii_blank (rs_cont rs).

(* What the lexer guarantees for every token (Proofs/LexerProofs.v): blanks in front, and the
   content does not start in the middle of a U+3000 *)
Definition tok_ok (p : ftoken) : Prop := all_blank (t_ws (fst p)) /\ no80 (t_content (fst p)).

Lemma all_blank_no80 w : all_blank w -> no80 w.
Proof.
  unfold all_blank, no80. destruct w as [|b t]; [trivial|]. intros H Hb. subst b.
  rewrite strip_unfold in H. change (128 <=? 32) with false in H.
  destruct t as [|b [|c t']]; discriminate.
Qed.

Lemma ascii_blank_no80 w : ascii_blank w -> no80 w.
Proof. intros H. apply all_blank_no80, ascii_blank_all_blank, H. Qed.

Lemma no80_app x y : no80 x -> no80 y -> no80 (x ++ y).
Proof. destruct x; simpl; auto. Qed.

Lemma nrepeat_ascii_blank n s : ascii_blank s -> ascii_blank (nrepeat n s).
Proof. apply ascii_blank_repeat. Qed.

Lemma ascii_blank_32 : ascii_blank [32].
Proof. constructor; [reflexivity|constructor]. Qed.

(* the emitted whitespace is blank as a whole *)
Lemma emit_ws_all_blank rs mb p : rs_wf rs -> all_blank (t_ws (fst p)) -> all_blank (emit_ws rs mb p).
Proof.
  intros (Hn & Hi & Hc) Hw. destruct p as [tok f]. simpl in Hw. unfold emit_ws.
  destruct (f_ignored f).
  - destruct (mb && negb (contains_byte 10 (t_ws tok)) && negb (is_eof (t_ty tok))).
    + unfold all_blank. rewrite strip_ascii_blank_app by exact Hn. exact Hw.
    + exact Hw.
  - apply ascii_blank_all_blank.
    repeat apply ascii_blank_app; try apply nrepeat_ascii_blank; auto using ascii_blank_32.
Qed.

Lemma recon_no80 rs mb l : rs_wf rs -> Forall tok_ok l -> no80 (recon rs mb l).
Proof.
  intros Hrs Hl. revert mb. induction Hl as [|p r [Hw Hc] Hr IH]; intros mb; [exact I|].
  cbn [recon]. apply no80_app; [apply all_blank_no80, emit_ws_all_blank; assumption|].
  apply no80_app; [exact Hc|apply IH].
Qed.

(* C01, reconstruction step: every content exactly once, in order, nothing else that is not blank,
   for ALL counters, marks and settings *)
Lemma recon_strip rs mb l :
  rs_wf rs -> Forall tok_ok l ->
  strip (recon rs mb l) = concat (map (fun p => strip (t_content (fst p))) l).
Proof.
  intros Hrs Hl. revert mb. induction Hl as [|p r [Hw Hc] Hr IH]; intros mb; [reflexivity|].
  cbn [recon map concat].
  assert (Hrest : no80 (recon rs (is_sl_comment (t_ty (fst p))) r)) by (apply recon_no80; assumption).
  rewrite strip_all_blank_app.
  - rewrite strip_app_no80 by exact Hrest. rewrite IH. reflexivity.
  - apply emit_ws_all_blank; assumption.
  - apply no80_app; assumption.
Qed.

Lemma rs_new_wf crlf tabs iw cw : rs_wf (rs_new crlf tabs iw cw).
Proof.
  unfold rs_wf, rs_new. cbn [rs_newline rs_indent rs_cont].
  assert (Hu : ascii_blank (if tabs then [9] else [32])).
  { destruct tabs; (constructor; [reflexivity|constructor]). }
  repeat split.
  - destruct crlf; repeat (constructor; try reflexivity).
  - apply nrepeat_ascii_blank, Hu.
  - apply nrepeat_ascii_blank, Hu.
Qed.

Lemma rs_of_config_wf crlf tabs tw ci : rs_wf (rs_of_config crlf tabs tw ci).
Proof. unfold rs_of_config. destruct tabs; apply rs_new_wf. Qed.

(* ------------------------------------------------------------------ *)
(* splitting a reconstruction *)

Definition mb_after (mb : bool) (l : list ftoken) : bool :=
  match rev l with [] => mb | p :: _ => is_sl_comment (t_ty (fst p)) end.

Lemma recon_app rs mb l1 l2 : recon rs mb (l1 ++ l2) = recon rs mb l1 ++ recon rs (mb_after mb l1) l2.
Proof.
  revert mb. induction l1 as [|p r IH]; intros mb; [reflexivity|].
  cbn [app recon]. rewrite IH, !app_assoc. f_equal.
  unfold mb_after. cbn [rev]. destruct (rev r) as [|q rr] eqn:E; [reflexivity|].
  cbn [app]. reflexivity.
Qed.

(* C07: a run of ignored tokens is emitted verbatim.
   The only thing reconstruct can add inside the run is the safety-net newline: after a `//`
   comment whose successor's leading whitespace contains no LF (and which is not Eof). *)
Definition verbatim (l : list ftoken) : bytes :=
  concat (map (fun p => t_ws (fst p) ++ t_content (fst p)) l).

Fixpoint no_net (mb : bool) (l : list ftoken) : Prop :=
  match l with
  | [] => True
  | p :: r =>
      (mb && negb (contains_byte 10 (t_ws (fst p))) && negb (is_eof (t_ty (fst p))) = false)
      /\ no_net (is_sl_comment (t_ty (fst p))) r
  end.

Lemma recon_ignored_verbatim rs mb l :
  Forall (fun p => f_ignored (snd p) = true) l -> no_net mb l -> recon rs mb l = verbatim l.
Proof.
  intros Hl. revert mb. induction Hl as [|p r Hp Hr IH]; intros mb Hn; [reflexivity|].
  destruct Hn as [Hn1 Hn2]. cbn [recon verbatim map concat].
  destruct p as [tok f]. cbn [fst snd] in *. unfold emit_ws. rewrite Hp, Hn1. cbn [app].
  rewrite <- app_assoc. f_equal. f_equal. apply IH, Hn2.
Qed.

(* the first token of a run may get the safety-net newline in front of its own whitespace,
   i.e. before the region proper (the region starts at the `pasfmt off` comment's content) *)
Lemma recon_ignored_region rs mb p l :
  f_ignored (snd p) = true -> Forall (fun p => f_ignored (snd p) = true) l ->
  no_net (is_sl_comment (t_ty (fst p))) l ->
  exists pre, recon rs mb (p :: l) = pre ++ t_content (fst p) ++ verbatim l
              /\ (pre = t_ws (fst p) \/ pre = rs_newline rs ++ t_ws (fst p)).
Proof.
  intros Hp Hl Hn. cbn [recon]. rewrite (recon_ignored_verbatim rs _ l Hl Hn).
  destruct p as [tok f]. cbn [fst snd] in *. unfold emit_ws. rewrite Hp.
  destruct (mb && negb (contains_byte 10 (t_ws tok)) && negb (is_eof (t_ty tok))).
  - exists (rs_newline rs ++ t_ws tok). split; [reflexivity|right; reflexivity].
  - exists (t_ws tok). split; [reflexivity|left; reflexivity].
Qed.
